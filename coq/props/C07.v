(* C07 — protocol and burn fees: every unit charged is accounted, nothing else moves.
   Constant-product pool machine (CP.v); the three-asset pool and the vault have their own machines
   (Stable3 / Vault developments) with the same ledger statements.
   Ghost variables (never read by the code): g_ch_i = sum of the protocol fees charged by all successful swaps on
   asset i, g_bn_i = sum of their burn fees. col_i = total transferred from the pool to the fee collector. *)
From WW Require Import Prim CPSwap Slippage CP CPInst.
From WW.Proofs Require Import ArithLemmas CPSwapProofs ListLemmas CPProofs FeesProofs.
From WW Require Stable3Pool.
From WW.Proofs Require Stable3PoolProofs.
From WW.Props Require C04.
From WW Require Vault.
From WW.Proofs Require VaultProofs VaultFees.

(* for every history from a fresh pool: pending = charged - transferred; all-time counters = sums of charges *)
Theorem C07_ledger_identity : forall c0 c1 f n own ops, fees_ok f -> (1 <= n)%nat ->
  let sg := grun the_consts (init c0 c1 f n own, g0) ops in
  let s := fst sg in let g := snd sg in
  pf0 s = g_ch0 g - col0 s /\ pf1 s = g_ch1 g - col1 s /\
  at0 s = g_ch0 g /\ at1 s = g_ch1 g /\ bu0 s = g_bn0 g /\ bu1 s = g_bn1 g.
Proof. exact ledger_reachable. Qed.

Theorem C07_ghost_run_is_run : forall k sg ops, fst (grun k sg ops) = run k (fst sg) ops.
Proof. exact grun_fst. Qed.

Theorem C07_counters_only_grow : forall k s o s' p g, Inv k s -> step k s o = Ok (s', p) ->
  g_ch0 g <= g_ch0 (charge o p g) /\ g_ch1 g <= g_ch1 (charge o p g) /\
  g_bn0 g <= g_bn0 (charge o p g) /\ g_bn1 g <= g_bn1 (charge o p g).
Proof. exact charge_mono. Qed.

Theorem C07_each_charge_exact : forall s who dir x b m to s' p, reachable s ->
  step the_consts s (Swap who dir x b m to) = Ok (s', p) ->
  let op_ := if dir then res1 s else res0 s in
  let ask := if dir then res0 s else res1 s in
  let G := ask * x / (op_ + x) in
  p_protfee p = G * f_protocol (pfees s) / DEC /\ p_burnfee p = G * f_burn (pfees s) / DEC /\
  p_swapfee p = G * f_swap (pfees s) / DEC /\ p_ret p + p_swapfee p + p_protfee p + p_burnfee p = G.
Proof. exact swap_charges. Qed.

Theorem C07_collect_frame : forall s who s' p, reachable s -> step the_consts s (Collect who) = Ok (s', p) ->
  res0 s' = res0 s /\ res1 s' = res1 s /\ supply s' = supply s /\ lp s' = lp s /\
  bal0 s - bal0 s' = col0 s' - col0 s /\ bal1 s - bal1 s' = col1 s' - col1 s /\
  pf0 s - pf0 s' = col0 s' - col0 s /\ pf1 s - pf1 s' = col1 s' - col1 s /\
  col0 s' - col0 s = (if c_mincollect the_consts <? pf0 s then pf0 s else 0) /\
  col1 s' - col1 s = (if c_mincollect the_consts <? pf1 s then pf1 s else 0) /\
  at0 s' = at0 s /\ at1 s' = at1 s /\ bu0 s' = bu0 s /\ bu1 s' = bu1 s.
Proof. exact collect_frame. Qed.

(* the burn fee leaves the pool and is credited to nobody: the swap's only credits are the proceeds to the
   receiver; the pool's ask balance falls by proceeds + burn fee *)
Theorem C07_burn_leaves_circulation : forall k s who dir x b m to s' p, Inv k s -> fits128 x = true ->
  swap k s who dir x b m to = Ok (s', p) ->
  (if dir then bal0 s - bal0 s' = p_ret p + p_burnfee p /\ bal1 s' = bal1 s + x
   else bal1 s - bal1 s' = p_ret p + p_burnfee p /\ bal0 s' = bal0 s + x) /\
  col0 s' = col0 s /\ col1 s' = col1 s /\ lp s' = lp s.
Proof.
  intros k s who dir x b m to s' p HI Hx H.
  pose proof (swap_ok _ _ _ _ _ _ _ _ _ _ HI Hx H) as Hk. cbv zeta in Hk.
  destruct Hk as (_ & _ & _ & _ & _ & _ & _ & _ & _ & _ & _ & _ & _ & _ & _ & _ & L & _ & _ & _ & C0 & C1 & Hd).
  destruct dir; destruct Hd as (D1 & D2 & D3 & D4 & D5 & D6 & D7 & D8 & D9); repeat split; try assumption; lia.
Qed.

(* the defect repaired by the fix: commit (kept as a regression witness) *)
Theorem C07_unfixed_collect_refuted :
  exists s' p, collect_unfixed the_consts c07_witness = Ok (s', p) /\
    pf0 s' = 0 /\ col0 s' = 0 /\ res0 s' = res0 c07_witness + 90 /\
    (exists s2 p2, collect the_consts c07_witness = Ok (s2, p2) /\ pf0 s2 = 90 /\ res0 s2 = res0 c07_witness).
Proof. exact collect_unfixed_refuted. Qed.

(* three-asset pool (machine of the C04 development): all-time protocol fees = pending + everything ever paid to the
   collector, burn ledger = everything ever burned, over every history of provide / withdraw / swap / collect / ramp /
   donate / advance *)
Theorem C07_trio_ledgers_over_histories : forall amp h f kinds n p0 l,
  Stable3Pool.init_pool amp h f kinds n = Ok p0 -> Stable3PoolProofs.fees_nonneg f -> Forall (Stable3PoolProofs.op_ok n) l ->
  let '(p', c', b') := Stable3PoolProofs.run_totals p0 l Stable3Pool.zero3 Stable3Pool.zero3 in
  Stable3Pool.p_all p' = Stable3Pool.zip3 Z.add (Stable3Pool.p_fee p') c' /\ Stable3Pool.p_burn p' = b' /\ Stable3PoolProofs.pool_inv p'.
Proof. exact WW.Props.C04.C04_ledgers_over_histories. Qed.

(* vault (machine of the C05/C06 development): per-operation ledger facts. A completed loan whose callback takes no further
   loan books exactly floor(share*loan) as protocol fee (all-time counter, and pending unless the callback collected) and
   burns exactly the burn fee; a collection empties the pending ledger, leaves the counters and the depositors' backing
   unchanged. (Nested loans on one vault: known finding of C05/C06.) *)
Theorem C07_vault_loan_charges : forall z s st st', VaultProofs.Inv st -> Vault.loan_free s = true ->
  Vault.flash_loan Vault.ADV z (Vault.run_script z s) st = Ok st' ->
  Vault.bal st + VaultProofs.fee_p st z + VaultProofs.fee_f st z <= Vault.bal st' /\
  Vault.burned st' = Vault.burned st + VaultProofs.fee_b st z /\ Vault.allf st' = Vault.allf st + VaultProofs.fee_p st z /\
  Vault.pend st' <= Vault.pend st + VaultProofs.fee_p st z /\ Vault.counter st' = Vault.counter st /\ Vault.supply st' <= Vault.supply st.
Proof. exact VaultProofs.loan_settles_unnested. Qed.

Theorem C07_vault_collect_frame : forall st st', VaultProofs.Inv st -> Vault.collect st = Ok st' ->
  VaultProofs.Q st st' /\ Vault.pend st' = 0 /\ Vault.allf st' = Vault.allf st /\ Vault.burned st' = Vault.burned st /\
  Vault.backing st' = Vault.backing st /\ Vault.lp st' = Vault.lp st.
Proof. exact VaultProofs.collect_Q. Qed.

(* vault, WHOLE histories (any operations by any users, borrower scripts with loans nested to any depth, router loans with or
   without attached coins, rejected operations rolled back), on real balances rather than ghost variables:
   the all-time counters only grow; every burned unit leaves the circulating amount of the vault asset and nothing else
   changes it; the protocol fees charged and no longer pending (all-time minus pending) grow by at most what the fee
   collector's balance grows by, and by EXACTLY that amount when no borrower script pays the collector directly - i.e.
   pending = charged - transferred to the collector, after every step of every history. *)
Theorem C07_vault_ledgers_over_histories : forall h st, VaultProofs.Inv st ->
  let st' := Vault.run st h in
  Vault.allf st <= Vault.allf st' /\ Vault.burned st <= Vault.burned st' /\
  VaultFees.circ st' + Vault.burned st' = VaultFees.circ st + Vault.burned st /\
  VaultFees.settled st' - VaultFees.settled st <= VaultFees.coll st' - VaultFees.coll st /\
  (forallb VaultFees.op_nopay h = true ->
   VaultFees.settled st' - VaultFees.settled st = VaultFees.coll st' - VaultFees.coll st).
Proof. exact VaultFees.run_FL. Qed.

(* the same for one borrower script of any depth (what a single transaction can do) *)
Theorem C07_vault_ledgers_in_scripts : forall s L st st', VaultProofs.Inv st -> Vault.run_script L s st = Ok st' ->
  VaultFees.FL (VaultFees.nopay s) st st'.
Proof. exact (proj2 VaultFees.script_FL). Qed.

(* non-vacuity: a history with charges on both assets, a collection that sends one entry and keeps the other *)
Definition ex7_fees := mkFees 20000000000000000 3000000000000000 5000000000000000.
Definition ex7_ops : list op :=
  [Provide 1 50000000 50000000 None None; Swap 2 false 3000000 None (Some 500000000000000000) None;
   Swap 3 true 40000 None (Some 500000000000000000) None; Collect 2; Swap 2 false 100 None (Some 500000000000000000) None].
Example C07_nonvacuous :
  let sg := grun the_consts (init false false ex7_fees 6 5, g0) ex7_ops in
  (fees_ok ex7_fees) /\
  ((0 <? col1 (fst sg)) && (col0 (fst sg) =? 0) && (0 <? pf0 (fst sg)) && (0 <? pf1 (fst sg)) &&
   (0 <? g_bn1 (snd sg)) && (0 <? g_ch0 (snd sg))) = true.
Proof. split. vm_compute; repeat split; congruence. vm_compute. reflexivity. Qed.


(* non-vacuity for the vault histories: deposit, a loan, a collection, a NESTED loan, a router loan (exact identity: 1000 settled
   = 1000 received by the collector, 3250 burned = fall of the circulating amount), then a loan whose script also pays the
   collector 5 directly (the identity becomes an inequality), and a rejected underpaid loan (rolled back) *)
Definition ex7v_st0 : Vault.state :=
  Vault.mkSt [0; 0; 5000000; 0; 0; 0; 4000000; 5000000; 0] [0; 0; 0; 0; 0; 0; 0; 0; 0] 0 0 0 0
             (Vault.mkCfg 10000000000000000 10000000000000000 5000000000000000 true true true Vault.FACT false).
Definition ex7v_h : list Vault.op :=
  [ Vault.ODeposit 6%nat 1000000 1000000;
    Vault.ORun (Vault.SCons (Vault.ALoan 100000 (Vault.SCons (Vault.ARepayQ 0) Vault.SNil)) Vault.SNil);
    Vault.OCollect 7%nat;
    Vault.ORun (Vault.SCons (Vault.ALoan 200000 (Vault.SCons (Vault.ALoan 300000 (Vault.SCons (Vault.ARepayQ 0) Vault.SNil))
                                                  (Vault.SCons (Vault.ARepayQ 0) Vault.SNil))) Vault.SNil);
    Vault.ORouterLoan 7%nat 50000 50000 (Vault.SCons (Vault.APay Vault.ROUTER 52000) Vault.SNil) ].
Definition ex7v_h2 : list Vault.op :=
  ex7v_h ++ [ Vault.ORun (Vault.SCons (Vault.ALoan 1000 (Vault.SCons (Vault.APay Vault.COLL 5) (Vault.SCons (Vault.ARepayQ 0) Vault.SNil))) Vault.SNil);
              Vault.ORun (Vault.SCons (Vault.ALoan 1000 (Vault.SCons (Vault.ARepayQ (-1)) Vault.SNil)) Vault.SNil) ].
Example C07_vault_histories_nonvacuous :
  let s := Vault.run ex7v_st0 ex7v_h in let s2 := Vault.run ex7v_st0 ex7v_h2 in
  (forallb VaultFees.op_nopay ex7v_h = true /\ VaultFees.settled s = 1000 /\ VaultFees.coll s = 1000 /\ Vault.pend s = 5500 /\
   Vault.allf s = 6500 /\ Vault.burned s = 3250 /\ VaultFees.circ s = 13996750 /\ VaultFees.circ ex7v_st0 = 14000000) /\
  (forallb VaultFees.op_nopay ex7v_h2 = false /\ VaultFees.settled s2 = 1000 /\ VaultFees.coll s2 = 1005 /\ Vault.allf s2 = 6510).
Proof. vm_compute. repeat split; reflexivity. Qed.

Print Assumptions C07_ledger_identity.
Print Assumptions C07_ghost_run_is_run.
Print Assumptions C07_counters_only_grow.
Print Assumptions C07_each_charge_exact.
Print Assumptions C07_collect_frame.
Print Assumptions C07_burn_leaves_circulation.
Print Assumptions C07_unfixed_collect_refuted.
Print Assumptions C07_trio_ledgers_over_histories.
Print Assumptions C07_vault_loan_charges.
Print Assumptions C07_vault_collect_frame.
Print Assumptions C07_vault_ledgers_over_histories.
Print Assumptions C07_vault_ledgers_in_scripts.
