(* C04 — three-asset stableswap pool: solvent, LP value monotone, amp ramps bounded.
   Only statements, `exact <lemma>`, non-vacuity examples and Print Assumptions live here. *)
From WW Require Import Prim Params Amp.
From WW.Proofs Require Import ArithLemmas AmpProofs.

(* ================= amplification ramp (stated in full, proved in full) ================= *)

(* the effective amp lies between the ramp's start and target values — for ANY u64 field values, whenever defined *)
Theorem C04_amp_between : forall r a, ramp_u64 r -> compute_amp_factor r = Ok a ->
  Z.min (r_a0 r) (r_a1 r) <= a <= Z.max (r_a0 r) (r_a1 r).
Proof. exact amp_between. Qed.

(* ... and moves linearly with block height: once the ramp has started the code returns exactly
   a0 +/- floor(|a1-a0| * (h-h0) / (h1-h0)) for h0 <= h < h1 and a1 from h1 on (never None) *)
Theorem C04_amp_linear : forall r, ramp_u64 r -> r_h0 r <= r_now r ->
  compute_amp_factor r = Ok (amp_closed r).
Proof. exact amp_linear. Qed.

Theorem C04_amp_monotone : forall r n', r_h0 r <= r_now r <= n' ->
  let r' := mkRamp (r_a0 r) (r_a1 r) n' (r_h0 r) (r_h1 r) in
  (r_a0 r <= r_a1 r -> amp_closed r <= amp_closed r') /\ (r_a1 r <= r_a0 r -> amp_closed r' <= amp_closed r).
Proof. exact amp_closed_monotone. Qed.

(* a new ramp is only accepted at most a factor MAX_AMP_CHANGE from the current effective value (both directions) *)
Theorem C04_ramp_accept_sound : forall c now fa fb c',
  trio_ramp_step c now fa fb = Ok c' ->
  exists cur, compute_amp_factor (ramp_of c now) = Ok cur /\ c' = mkAmp cur fa now fb /\
              fa <= Params.MAX_AMP_CHANGE * cur /\ cur <= Params.MAX_AMP_CHANGE * fa.
Proof. exact (ramp_accept_sound _ _ _ _ params_chg_pos params_min_nonneg). Qed.

(* ... within [MIN_AMP, MAX_AMP] and over at least MIN_RAMP_BLOCKS blocks *)
Theorem C04_ramp_accept_range : forall c now fa fb c',
  trio_ramp_step c now fa fb = Ok c' ->
  Params.MIN_AMP <= fa <= Params.MAX_AMP /\ now + Params.MIN_RAMP_BLOCKS <= fb /\
  c_a1 c' = fa /\ c_h0 c' = now /\ c_h1 c' = fb.
Proof. exact (ramp_accept_range _ _ _ _). Qed.

(* the rule rejects nothing else: every request inside the bounds is accepted (this is the half the code as found violated) *)
Theorem C04_ramp_accept_complete : forall c now fa fb cur,
  compute_amp_factor (ramp_of c now) = Ok cur -> 0 <= cur <= Params.MAX_AMP ->
  Params.MIN_AMP <= fa <= Params.MAX_AMP ->
  fa <= Params.MAX_AMP_CHANGE * cur -> cur <= Params.MAX_AMP_CHANGE * fa ->
  0 <= now -> now + Params.MIN_RAMP_BLOCKS < P64 -> now + Params.MIN_RAMP_BLOCKS <= fb ->
  trio_ramp_step c now fa fb = Ok (mkAmp cur fa now fb).
Proof.
  intros c now fa fb cur EC Hc Hf B1 B2 Hn Hn2 Hb.
  pose proof params_no_overflow as O. pose proof params_chg_pos as P. pose proof params_min_nonneg as M.
  pose proof params_minb_nonneg as MB.
  apply (ramp_accept_complete _ _ _ _ c now fa fb cur EC); try lia; nia.
Qed.

(* over ANY history of UpdateConfig{amp_factor} calls by anyone, with the chain height only moving forward, the effective amp at
   every later height is defined and inside [MIN_AMP, MAX_AMP] (feeds C18) *)
Theorem C04_amp_in_range_history : forall amp h0 l h',
  Params.MIN_AMP <= amp <= Params.MAX_AMP -> 0 <= h0 ->
  Forall rop_ok l -> h0 + total_dh l <= h' < P64 ->
  let st := ramp_run trio_ramp_step (mkAmp amp amp h0 h0, h0) l in
  snd st = h0 + total_dh l /\
  exists a, compute_amp_factor (ramp_of (fst st) h') = Ok a /\ Params.MIN_AMP <= a <= Params.MAX_AMP.
Proof.
  intros amp h0 l h' Ha Hh F Hh'.
  exact (amp_in_range_history _ _ _ _ params_chg_pos params_min_nonneg params_max_u64 amp h0 _ l h' Ha Hh eq_refl F Hh').
Qed.

(* the defect repaired by the fix: commit (regression witness): the code as found accepted 100 -> 9 and 100 -> 1 and
   rejected 100 -> 50 and 100 -> 11 *)
Theorem C04_ramp_accept_sound_unfixed_refuted :
  trio_ramp_step_unfixed c04_w_cfg 12400 9 30000 = Ok (mkAmp 100 9 12400 30000) /\
  trio_ramp_step_unfixed c04_w_cfg 12400 1 30000 = Ok (mkAmp 100 1 12400 30000) /\
  trio_ramp_step_unfixed c04_w_cfg 12400 50 30000 = Err E_OTHER /\
  trio_ramp_step_unfixed c04_w_cfg 12400 11 30000 = Err E_OTHER /\
  trio_ramp_step c04_w_cfg 12400 9 30000 = Err E_OTHER /\
  trio_ramp_step c04_w_cfg 12400 50 30000 = Ok (mkAmp 100 50 12400 30000) /\
  trio_ramp_step c04_w_cfg 12400 10 30000 = Ok (mkAmp 100 10 12400 30000).
Proof. exact ramp_unfixed_refuted. Qed.

(* non-vacuity *)
Example C04_amp_nonvacuous :
  let r := mkRamp 100 1000 20000 12345 30000 in
  ramp_u64 r /\ r_h0 r <= r_now r /\ compute_amp_factor r = Ok 490 /\ amp_closed r = 490.
Proof. vm_compute. intuition congruence. Qed.
Example C04_ramp_nonvacuous :
  (* up, down, and a second ramp started in the middle of the first *)
  trio_ramp_step (mkAmp 100 100 12345 12345) 12400 1000 22400 = Ok (mkAmp 100 1000 12400 22400) /\
  trio_ramp_step (mkAmp 100 1000 12400 22400) 17400 55 40000 = Ok (mkAmp 550 55 17400 40000) /\
  ramp_run trio_ramp_step (mkAmp 100 100 12345 12345, 12345) [mkRop 55 true 1000 22400; mkRop 5000 true 55 40000]
    = (mkAmp 550 55 17400 40000, 17400).
Proof. vm_compute. repeat split. Qed.
Example C04_history_nonvacuous : Forall rop_ok [mkRop 55 true 1000 22400; mkRop 5000 true 55 40000].
Proof. repeat (apply Forall_cons || apply Forall_nil); unfold rop_ok, P64; cbn [o_dh o_fb]; lia. Qed.

Print Assumptions C04_amp_between.
Print Assumptions C04_amp_linear.
Print Assumptions C04_amp_monotone.
Print Assumptions C04_ramp_accept_sound.
Print Assumptions C04_ramp_accept_range.
Print Assumptions C04_ramp_accept_complete.
Print Assumptions C04_amp_in_range_history.
Print Assumptions C04_ramp_accept_sound_unfixed_refuted.
