(* C04 — three-asset stableswap pool: solvent, LP value monotone, amp ramps bounded.
   Only statements, `exact <lemma>`, non-vacuity examples and Print Assumptions live here. *)
From WW Require Import Prim Params Amp CPSwap Stable3 Stable3Pool.
From WW.Proofs Require Import ArithLemmas AmpProofs Stable3Proofs Stable3PoolProofs.

(* ================= amplification ramp (stated in full, proved in full) ================= *)

(* the effective amp lies between the ramp's start and target values — for ANY u64 field values, whenever defined *)
Theorem C04_amp_between : forall r a, ramp_u64 r -> compute_amp_factor r = Ok a ->
  Z.min (r_a0 r) (r_a1 r) <= a <= Z.max (r_a0 r) (r_a1 r).
Proof. exact amp_between. Qed.

(* ... and moves linearly with block height: once the ramp has started the code returns exactly
   a0 +/- floor(|a1-a0| * (h-h0) / (h1-h0)) for h0 <= h < h1 and a1 from h1 on (never None) *)
Theorem C04_amp_linear : forall r, ramp_u64 r -> r_h0 r <= r_now r ->
  compute_amp_factor r = Ok (amp_closed r).
Proof. exact amp_linear. Qed.

Theorem C04_amp_monotone : forall r n', r_h0 r <= r_now r <= n' ->
  let r' := mkRamp (r_a0 r) (r_a1 r) n' (r_h0 r) (r_h1 r) in
  (r_a0 r <= r_a1 r -> amp_closed r <= amp_closed r') /\ (r_a1 r <= r_a0 r -> amp_closed r' <= amp_closed r).
Proof. exact amp_closed_monotone. Qed.

(* a new ramp is only accepted at most a factor MAX_AMP_CHANGE from the current effective value (both directions) *)
Theorem C04_ramp_accept_sound : forall c now fa fb c',
  trio_ramp_step c now fa fb = Ok c' ->
  exists cur, compute_amp_factor (ramp_of c now) = Ok cur /\ c' = mkAmp cur fa now fb /\
              fa <= Params.MAX_AMP_CHANGE * cur /\ cur <= Params.MAX_AMP_CHANGE * fa.
Proof. exact (ramp_accept_sound _ _ _ _ params_chg_pos params_min_nonneg). Qed.

(* ... within [MIN_AMP, MAX_AMP] and over at least MIN_RAMP_BLOCKS blocks *)
Theorem C04_ramp_accept_range : forall c now fa fb c',
  trio_ramp_step c now fa fb = Ok c' ->
  Params.MIN_AMP <= fa <= Params.MAX_AMP /\ now + Params.MIN_RAMP_BLOCKS <= fb /\
  c_a1 c' = fa /\ c_h0 c' = now /\ c_h1 c' = fb.
Proof. exact (ramp_accept_range _ _ _ _). Qed.

(* the rule rejects nothing else: every request inside the bounds is accepted (this is the half the code as found violated) *)
Theorem C04_ramp_accept_complete : forall c now fa fb cur,
  compute_amp_factor (ramp_of c now) = Ok cur -> 0 <= cur <= Params.MAX_AMP ->
  Params.MIN_AMP <= fa <= Params.MAX_AMP ->
  fa <= Params.MAX_AMP_CHANGE * cur -> cur <= Params.MAX_AMP_CHANGE * fa ->
  0 <= now -> now + Params.MIN_RAMP_BLOCKS < P64 -> now + Params.MIN_RAMP_BLOCKS <= fb ->
  trio_ramp_step c now fa fb = Ok (mkAmp cur fa now fb).
Proof.
  intros c now fa fb cur EC Hc Hf B1 B2 Hn Hn2 Hb.
  pose proof params_no_overflow as O. pose proof params_chg_pos as P. pose proof params_min_nonneg as M.
  pose proof params_minb_nonneg as MB.
  apply (ramp_accept_complete _ _ _ _ c now fa fb cur EC); try lia; nia.
Qed.

(* over ANY history of UpdateConfig{amp_factor} calls by anyone, with the chain height only moving forward, the effective amp at
   every later height is defined and inside [MIN_AMP, MAX_AMP] (feeds C18) *)
Theorem C04_amp_in_range_history : forall amp h0 l h',
  Params.MIN_AMP <= amp <= Params.MAX_AMP -> 0 <= h0 ->
  Forall rop_ok l -> h0 + total_dh l <= h' < P64 ->
  let st := ramp_run trio_ramp_step (mkAmp amp amp h0 h0, h0) l in
  snd st = h0 + total_dh l /\
  exists a, compute_amp_factor (ramp_of (fst st) h') = Ok a /\ Params.MIN_AMP <= a <= Params.MAX_AMP.
Proof.
  intros amp h0 l h' Ha Hh F Hh'.
  exact (amp_in_range_history _ _ _ _ params_chg_pos params_min_nonneg params_max_u64 amp h0 _ l h' Ha Hh eq_refl F Hh').
Qed.

(* the defect repaired by the fix: commit (regression witness): the code as found accepted 100 -> 9 and 100 -> 1 and
   rejected 100 -> 50 and 100 -> 11 *)
Theorem C04_ramp_accept_sound_unfixed_refuted :
  trio_ramp_step_unfixed c04_w_cfg 12400 9 30000 = Ok (mkAmp 100 9 12400 30000) /\
  trio_ramp_step_unfixed c04_w_cfg 12400 1 30000 = Ok (mkAmp 100 1 12400 30000) /\
  trio_ramp_step_unfixed c04_w_cfg 12400 50 30000 = Err E_OTHER /\
  trio_ramp_step_unfixed c04_w_cfg 12400 11 30000 = Err E_OTHER /\
  trio_ramp_step c04_w_cfg 12400 9 30000 = Err E_OTHER /\
  trio_ramp_step c04_w_cfg 12400 50 30000 = Ok (mkAmp 100 50 12400 30000) /\
  trio_ramp_step c04_w_cfg 12400 10 30000 = Ok (mkAmp 100 10 12400 30000).
Proof. exact ramp_unfixed_refuted. Qed.

(* ================= curve arithmetic (exact theorems) ================= *)

(* proceeds + fees = curve output, each fee = floor(share * curve output) — for every successful helpers::compute_swap *)
Theorem C04_fee_identity : forall r op ask uns x f s, compute_swap3 r op ask uns x f = Ok s ->
  exists res, swap_to r x op ask uns = Ok res /\
    s_ret s + s_swapfee s + s_protfee s + s_burnfee s = swapped res /\
    s_swapfee s = swapped res * f_swap f / DEC /\
    s_protfee s = swapped res * f_protocol f / DEC /\
    s_burnfee s = swapped res * f_burn f / DEC /\
    0 <= s_ret s /\ s_spread s = Z.abs (x - swapped res).
Proof. exact compute_swap3_spec. Qed.

(* one Newton step for y, from ANY iterate t: y' = floor((t^2+c)/(2t+b-D)) satisfies (y'+1)^2 + (b-D)(y'+1) > c *)
Theorem C04_newton_y_post : forall b c d t y', y_step b c d t = Ok y' ->
  (y' + 1) * (y' + 1) + (b - d) * (y' + 1) > c.
Proof. exact y_step_post. Qed.

(* hence, whatever the number of iterations, the ask reserve a swap leaves (y + 1: this is what the `- 1` of swap_to buys) lies
   strictly beyond the root of the quadratic the code solves; the swap balances; the curve output is below the ask reserve *)
Theorem C04_swap_beyond_code_root : forall r amount src dst uns res, swap_to r amount src dst uns = Ok res ->
  exists d amp b c y,
    compute_d r src dst uns = Ok d /\ compute_amp_factor r = Ok amp /\
    y_coeffs (amp * 3) (src + amount) uns d = Ok (b, c) /\
    new_src res = src + amount /\ new_dst res = y + 1 /\ swapped res = dst - y - 1 /\
    0 <= y /\ 0 <= swapped res /\ new_dst res + swapped res = dst /\
    (y + 1) * (y + 1) + (b - d) * (y + 1) > c.
Proof. exact swap_to_spec. Qed.

(* the truncated coefficients against the exact ones: X U A c <= D^4 < X U A (c+1) + X U D + X D^2, ann (b-x-u) <= D < ann (b-x-u+1) *)
Theorem C04_coefficient_truncation_bounds : forall ann x u d b c, y_coeffs ann x u d = Ok (b, c) -> 0 <= d -> 0 <= x -> 0 <= u -> 0 <= ann ->
  let X := 3 * x in let U := 3 * u in let A := 3 * ann in
  0 < X /\ 0 < U /\ 0 < A /\ 0 <= c /\
  X * U * A * c <= d * d * d * d /\
  d * d * d * d < X * U * A * (c + 1) + X * U * d + X * d * d /\
  ann * (b - x - u) <= d < ann * (b - x - u + 1).
Proof. exact y_coeffs_bounds. Qed.

(* deposit: the pool's own invariant (as the code computes it) per LP token never falls *)
Theorem C04_deposit_Dcode_per_lp_monotone : forall r da db dc sa sb sc supply m,
  compute_mint r da db dc sa sb sc supply = Ok m -> 0 <= supply ->
  exists d0 d1, compute_d r sa sb sc = Ok d0 /\ compute_d r (sa + da) (sb + db) (sc + dc) = Ok d1 /\
    0 < d0 < d1 /\ m = supply * (d1 - d0) / d0 /\ 0 <= m /\
    (supply + m) * d0 <= supply * d1.
Proof. exact compute_mint_spec. Qed.

(* direction selection: exactly the six ordered pairs of distinct pool assets are accepted, each mapped to (offer, ask, unswapped) =
   (pool[offer], pool[ask], pool[third]); the six assignments are the six permutations *)
Theorem C04_select_pools : forall (offer ask p0 p1 p2 : Z),
  (0 <= offer <= 2 /\ 0 <= ask <= 2 /\ offer <> ask ->
     select_pools offer ask p0 p1 p2 = Ok (nth3 offer p0 p1 p2, nth3 ask p0 p1 p2, nth3 (third offer ask) p0 p1 p2)) /\
  (~ (0 <= offer <= 2 /\ 0 <= ask <= 2 /\ offer <> ask) -> select_pools offer ask p0 p1 p2 = Err E_OTHER).
Proof. intros. apply select_pools_spec. Qed.
Theorem C04_select_pools_bijection :
  map (fun p => select_pools (fst p) (snd p) 0 1 2) [(0,1);(0,2);(1,0);(1,2);(2,0);(2,1)] =
    [Ok (0,1,2); Ok (0,2,1); Ok (1,0,2); Ok (1,2,0); Ok (2,0,1); Ok (2,1,0)].
Proof. exact select_pools_bijection. Qed.

(* ================= the pool over histories ================= *)

(* solvency + LP accounting as an invariant of every history (any users, any interleaving, any block heights, rejected and
   aborted calls included): the pool always holds the protocol fees it owes (so reported reserve = balance - pending fee >= 0),
   every LP token is accounted for, the all-time ledger dominates the pending one *)
Theorem C04_pool_invariant_histories : forall amp h f kinds n p0 l,
  init_pool amp h f kinds n = Ok p0 -> fees_nonneg f -> Forall (op_ok n) l ->
  pool_inv (run p0 l) /\ length (p_lp (run p0 l)) = n.
Proof.
  intros amp h f kinds n p0 l HI FN F. destruct (init_pool_inv _ _ _ _ _ _ HI FN) as (I & HL & _).
  apply run_inv; auto.
Qed.

(* ledgers: all-time protocol fees = pending + everything ever paid to the collector; burn ledger = everything ever burned *)
Theorem C04_ledgers_over_histories : forall amp h f kinds n p0 l,
  init_pool amp h f kinds n = Ok p0 -> fees_nonneg f -> Forall (op_ok n) l ->
  let '(p', c', b') := run_totals p0 l zero3 zero3 in
  p_all p' = zip3 Z.add (p_fee p') c' /\ p_burn p' = b' /\ pool_inv p'.
Proof.
  intros amp h f kinds n p0 l HI FN F. destruct (init_pool_inv _ _ _ _ _ _ HI FN) as (I & HL & EA & EF & EB & _).
  apply (ledgers_over_histories n); auto. rewrite EA, EF. reflexivity.
Qed.

(* conservation per operation: tokens leave the pool only to the acting user, the collector or a burn *)
Theorem C04_step_conservation : forall p o p' e, step p o = Ok (p', e) -> op_ok (length (p_lp p)) o -> pool_inv p ->
  p_bal p' = zip3 Z.add (zip3 Z.sub (zip3 Z.sub (zip3 Z.sub (p_bal p) (e_user e)) (e_coll e)) (e_burned e)) (donated o) /\
  zip3 Z.sub (p_all p') (p_all p) = zip3 Z.add (zip3 Z.sub (p_fee p') (p_fee p)) (e_coll e) /\
  zip3 Z.sub (p_burn p') (p_burn p) = e_burned e.
Proof. exact step_conserve. Qed.

(* a pool swap: proceeds + fees = curve output on the reported reserves; reserves move by exactly (offer, -(output - swap fee), 0);
   the ask reserve stays positive *)
Theorem C04_pool_swap_fee_identity : forall p i j x ms p' e, swap p i j x ms = Ok (p', e) -> 0 <= x -> pool_inv p ->
  exists s res, let k := third i j in
    let R := fun q t => get3 t (p_bal q) - get3 t (p_fee q) in
    swap_to (ramp_of (p_cfg p) (p_height p)) x (R p i) (R p j) (R p k) = Ok res /\
    get3 j (e_user e) = s_ret s /\ get3 i (e_user e) = - x /\ get3 j (e_burned e) = s_burnfee s /\
    get3 j (p_fee p') - get3 j (p_fee p) = s_protfee s /\
    s_ret s + s_swapfee s + s_protfee s + s_burnfee s = swapped res /\
    s_swapfee s = swapped res * f_swap (p_fees p) / DEC /\ s_protfee s = swapped res * f_protocol (p_fees p) / DEC /\
    s_burnfee s = swapped res * f_burn (p_fees p) / DEC /\
    R p' j = R p j - swapped res + s_swapfee s /\ R p' i = R p i + x /\ R p' k = R p k /\ 1 <= R p' j.
Proof. exact pool_swap_fee_identity. Qed.

Theorem C04_pool_withdraw_pro_rata : forall p u a p' e, withdraw p u a = Ok (p', e) -> 0 <= a -> pool_inv p ->
  let R := fun t => get3 t (p_bal p) - get3 t (p_fee p) in
  (forall t, 0 <= t <= 2 -> 0 <= get3 t (e_user e) /\ get3 t (e_user e) * p_supply p <= R t * a /\ get3 t (e_user e) <= R t) /\
  p_supply p' = p_supply p - a /\ lp_of u p' = lp_of u p - a \/ (length (p_lp p) <= u)%nat.
Proof. exact pool_withdraw_pro_rata. Qed.

(* ================= exact-curve clauses: full statements, what is proved, what is refuted ================= *)

(* FULL STATEMENT 1 (as in the property): the exact invariant never falls across a swap — every D not above the exact
   invariant of the reserves before is not above the exact invariant of the reserves after *)
Definition C04_exact_invariant_monotone_full_statement : Prop :=
  forall r amp amount src dst uns res, compute_amp_factor r = Ok amp -> swap_to r amount src dst uns = Ok res ->
  forall D, 0 <= D -> inv_le (3 * amp) src dst uns D -> inv_le (3 * amp) (new_src res) (new_dst res) uns D.
(* FULL STATEMENT 2: a swap there-and-back never yields a profit *)
Definition C04_roundtrip_no_profit_full_statement : Prop :=
  forall r x src dst uns res back, swap_to r x src dst uns = Ok res ->
  swap_to r (swapped res) (new_dst res) (new_src res) uns = Ok back -> swapped back <= x.

(* PROVED PART (_partial): the reserve a swap keeps satisfies the exact curve equation for D = the code's own D up to an explicit
   slack  X U D + X D^2  (worth at most 1/3 + D/(9 u) base units of the ask asset): the link from the code's truncated quadratic
   to the exact invariant polynomial. MISSING for the full statements: the distance between the code's D (256-round Newton on a
   truncated d_prod, stopping at |step| <= 1) and the exact D. The strict statements are VALIDATED on every run by an independent
   exact solver in the harness (bnum, bisection to one unit) — validation, not proof. *)
Theorem C04_exact_curve_partial : forall r amount src dst uns res,
  swap_to r amount src dst uns = Ok res -> 0 <= src -> 0 <= amount -> 0 <= uns ->
  exists d amp, compute_d r src dst uns = Ok d /\ compute_amp_factor r = Ok amp /\
    let x := src + amount in let ann := amp * 3 in let v := new_dst res in
    let X := 3 * x in let U := 3 * uns in let A := 3 * ann in
    X * U * A * (v * v) + X * U * A * ((x + uns - d) * v) + 3 * X * U * (d * v) + (X * U * d + X * d * d) > d * d * d * d.
Proof. exact swap_to_exact_curve_partial. Qed.

(* REFUTED as stated (known finding curve_rounding_dust, replayed on the real trio through Swap messages): rounding dust *)
Theorem C04_refuted_curve_rounding_dust_roundtrip : ~ C04_roundtrip_no_profit_full_statement.
Proof.
  intros F. destruct roundtrip_refuted_small as (res & back & E1 & E2 & E3).
  specialize (F _ _ _ _ _ _ _ E1 E2). rewrite E3 in F. lia.
Qed.
Theorem C04_refuted_curve_rounding_dust_invariant : ~ C04_exact_invariant_monotone_full_statement.
Proof.
  intros F. destruct exact_invariant_monotone_refuted as (res & E1 & B1 & B2).
  assert (EA : compute_amp_factor (flat 2) = Ok 2) by reflexivity.
  specialize (F _ _ _ _ _ _ _ EA E1 39835 ltac:(lia)).
  unfold inv_leb in B1, B2. apply Z.leb_le in B1. apply Z.leb_gt in B2.
  unfold inv_le in F. change (3 * 2) with 6 in F. specialize (F B1). lia.
Qed.

(* non-vacuity *)
Example C04_amp_nonvacuous :
  let r := mkRamp 100 1000 20000 12345 30000 in
  ramp_u64 r /\ r_h0 r <= r_now r /\ compute_amp_factor r = Ok 490 /\ amp_closed r = 490.
Proof. vm_compute. intuition congruence. Qed.
Example C04_ramp_nonvacuous :
  (* up, down, and a second ramp started in the middle of the first *)
  trio_ramp_step (mkAmp 100 100 12345 12345) 12400 1000 22400 = Ok (mkAmp 100 1000 12400 22400) /\
  trio_ramp_step (mkAmp 100 1000 12400 22400) 17400 55 40000 = Ok (mkAmp 550 55 17400 40000) /\
  ramp_run trio_ramp_step (mkAmp 100 100 12345 12345, 12345) [mkRop 55 true 1000 22400; mkRop 5000 true 55 40000]
    = (mkAmp 550 55 17400 40000, 17400).
Proof. vm_compute. repeat split. Qed.
Example C04_history_nonvacuous : Forall rop_ok [mkRop 55 true 1000 22400; mkRop 5000 true 55 40000].
Proof. repeat (apply Forall_cons || apply Forall_nil); unfold rop_ok, P64; cbn [o_dh o_fb]; lia. Qed.

Example C04_curve_nonvacuous :
  let r := mkRamp 100 1000 20000 12345 30000 in
  swap_to r 7777777 123456789012 98765432109 111111111111 = Ok (mkRes 123464566789 98757657941 7774168) /\
  compute_swap3 r 123456789012 98765432109 111111111111 7777777 (mkFees 1000000000000000 3000000000000000 500000000000000)
    = Ok (mkSwap 7739185 3609 23322 7774 3887) /\
  compute_mint r 1000000 2000000 3000000 123456789012 98765432109 111111111111 333333000000 = Ok 6000303.
Proof. vm_compute. repeat split. Qed.
Example C04_pool_nonvacuous :
  exists p0, init_pool 1000 12345 (mkFees 1000000000000000 3000000000000000 1000000000000000) (false, true, false) 4 = Ok p0 /\
  let l := [Provide 0 (1000000000, 1000000000, 1000000000); Swap 1 0 1 5000000 None; Collect; Provide 1 (10000000, 1, 500);
            Ramp true 100 30000; Advance 5000; Swap 1 2 0 9000000 None; Withdraw 0 1000000000; Collect] in
  Forall (op_ok 4) l /\ p_supply (run p0 l) = 2010000368 /\ p_fee (run p0 l) = (0, 0, 0) /\ p_all (run p0 l) = (9000, 4999, 0).
Proof.
  eexists. split; [reflexivity|]. cbv zeta. split.
  - repeat (apply Forall_cons || apply Forall_nil); cbn; lia.
  - vm_compute. repeat split.
Qed.

(* fee-schedule changes mid-history (SetFees): a stranger is refused, a schedule summing to 100 % is refused, the owner's valid one is
   stored; the fee pending from the earlier swap stays owed and nothing is added to it once the protocol fee is zero *)
Definition fc_l : list op :=
  [Provide 0 (1000000000, 1000000000, 1000000000); Swap 1 0 1 5000000 None; SetFees false (mkFees 0 1000000000000000 0);
   SetFees true (mkFees 500000000000000000 500000000000000000 0); SetFees true (mkFees 0 1000000000000000 0);
   Provide 1 (10000000, 1, 500); Swap 1 2 1 9000000 None; Withdraw 0 1000000000].
Lemma fc_l_ok : Forall (op_ok 4) fc_l.
Proof. unfold fc_l. repeat (apply Forall_cons || apply Forall_nil); cbn [op_ok]; unfold fees_nonneg; cbn [f_protocol f_swap f_burn]; lia. Qed.
Example C04_pool_fee_change_nonvacuous :
  exists p0, init_pool 1000 12345 (mkFees 1000000000000000 3000000000000000 1000000000000000) (false, true, false) 4 = Ok p0 /\
  Forall (op_ok 4) fc_l /\
  (p_supply (run p0 fc_l), p_fee (run p0 fc_l), p_all (run p0 fc_l), p_fees (run p0 fc_l)) =
    (2010000368, (0, 4999, 0), (0, 4999, 0), mkFees 0 1000000000000000 0) /\
  pool_inv (run p0 fc_l).
Proof.
  eexists. split; [reflexivity|]. split; [exact fc_l_ok|]. split; [vm_compute; reflexivity|].
  match goal with |- pool_inv (run ?p _) =>
    assert (HI : pool_inv p /\ length (p_lp p) = 4%nat) end.
  { match goal with |- pool_inv ?p /\ _ =>
      destruct (init_pool_inv 1000 12345 (mkFees 1000000000000000 3000000000000000 1000000000000000) (false, true, false) 4%nat p eq_refl) as (A & B & _) end;
      [unfold fees_nonneg; cbn [f_protocol f_swap f_burn]; lia | split; assumption]. }
  destruct HI as [A B]. apply (run_inv 4%nat fc_l _ fc_l_ok B A).
Qed.

Print Assumptions fc_l_ok.
Print Assumptions C04_pool_fee_change_nonvacuous.
Print Assumptions C04_amp_between.
Print Assumptions C04_amp_linear.
Print Assumptions C04_amp_monotone.
Print Assumptions C04_ramp_accept_sound.
Print Assumptions C04_ramp_accept_range.
Print Assumptions C04_ramp_accept_complete.
Print Assumptions C04_amp_in_range_history.
Print Assumptions C04_ramp_accept_sound_unfixed_refuted.
Print Assumptions C04_fee_identity.
Print Assumptions C04_newton_y_post.
Print Assumptions C04_swap_beyond_code_root.
Print Assumptions C04_coefficient_truncation_bounds.
Print Assumptions C04_deposit_Dcode_per_lp_monotone.
Print Assumptions C04_select_pools.
Print Assumptions C04_select_pools_bijection.
Print Assumptions C04_pool_invariant_histories.
Print Assumptions C04_ledgers_over_histories.
Print Assumptions C04_step_conservation.
Print Assumptions C04_pool_swap_fee_identity.
Print Assumptions C04_pool_withdraw_pro_rata.
Print Assumptions C04_exact_curve_partial.
Print Assumptions C04_refuted_curve_rounding_dust_roundtrip.
Print Assumptions C04_refuted_curve_rounding_dust_invariant.
