(* C05 — flash-loan vault: the assets backing one vault share never decrease.
   Only statements, `exact <lemma>`, non-vacuity examples and Print Assumptions live here.

   Vocabulary (coq/theories/Vault.v, coq/proofs/VaultProofs.v):
     backing st = vault balance - uncollected protocol fees;   supply st = total of the share ledger;
     PM st st'  = (0 < supply st -> 0 < supply st' /\ backing st * supply st' <= backing st' * supply st)
                  i.e. backing/supply did not fall (cross-multiplied, so no division);
     Good st    = ledger invariant (non-negative balances, valid fees, locked minimum liquidity) /\ pending fees <= balance
                  /\ no loan in flight.  The state created by `init` is Good.
     has_nested_loan h = some operation of h takes a flash loan on the vault while another loan on it is outstanding
                  (decidable: negb (op_unnested o)). This is the known finding `nested_loan_same_vault`. *)
From WW Require Import Prim Vault.
From WW.Proofs Require Import ArithLemmas VaultLedger VaultProofs.

(* one operation (deposit / withdraw / collect / config update / donation / share burn / any borrower script whose loans
   are not nested / router loan): share price does not fall, and the invariant is kept *)
Theorem C05_share_price_step : forall st o st', Good st -> op_unnested o = true -> step st o = Ok st' ->
  PM st st' /\ Good st'.
Proof. exact share_price_step. Qed.

(* any history (any users, any interleaving, rejected operations included), between ANY two points of it *)
Theorem C05_share_price_history : forall st h1 h2, Good st -> ~ has_nested_loan (h1 ++ h2) ->
  PM (run st h1) (run st (h1 ++ h2)) /\ Good (run st (h1 ++ h2)).
Proof. exact share_price_history. Qed.

Theorem C05_share_price_from_init : forall p f b k bals st0 h1 h2, nonneg bals -> init p f b k bals = Ok st0 ->
  ~ has_nested_loan (h1 ++ h2) -> PM (run st0 h1) (run st0 (h1 ++ h2)).
Proof. exact share_price_from_init. Qed.

(* full strength (no restriction on nesting) is FALSE on the faithful model: known finding nested_loan_same_vault *)
Definition C05_share_price_full_statement : Prop := share_price_full_statement.
Theorem C05_share_price_refuted_nested : exists st h, Good st /\ has_nested_loan h /\ ~ PM st (run st h).
Proof. exact share_price_refuted_nested. Qed.
Theorem C05_share_price_full_statement_refuted : ~ C05_share_price_full_statement.
Proof. exact share_price_full_statement_refuted. Qed.

(* a deposit mints at most the pro-rata number of shares *)
Theorem C05_deposit_prorata : forall u z sent st st', Good st -> u <> VAULT -> 0 < supply st -> deposit u z sent st = Ok st' ->
  (get (lp st') u - get (lp st) u) * backing st <= z * supply st /\
  supply st' = supply st + (get (lp st') u - get (lp st) u) /\ bal st' = bal st + z.
Proof. exact deposit_prorata. Qed.

(* a withdrawal pays at most the pro-rata amount *)
Theorem C05_withdraw_prorata : forall u a st st', Good st -> withdraw u a st = Ok st' ->
  (bal st - bal st') * supply st <= a * backing st /\ get (ab st') u = get (ab st) u + (bal st - bal st') /\
  supply st' = supply st - a.
Proof. exact withdraw_prorata. Qed.

(* the first deposit locks the minimum liquidity in the vault itself ... *)
Theorem C05_first_deposit_locks : forall u z sent st st', Inv st -> u <> VAULT -> supply st = 0 -> deposit u z sent st = Ok st' ->
  get (lp st') VAULT = get (lp st) VAULT + MIN_LIQ /\ get (lp st') u = get (lp st) u + (z - MIN_LIQ) /\
  supply st' = z /\ MIN_LIQ < z.
Proof. exact first_deposit_facts. Qed.

(* ... and it stays locked for ever, whatever happens (nested loans included) *)
Theorem C05_locked_forever : forall st h, Inv st ->
  Inv (run st h) /\ get (lp st) VAULT <= get (lp (run st h)) VAULT /\ counter (run st h) = counter st /\
  (0 < supply (run st h) -> MIN_LIQ <= get (lp (run st h)) VAULT).
Proof. exact locked_forever. Qed.

(* deposit-then-withdraw never returns more than was deposited — proved when the vault already has shares, or is empty of
   depositor assets. PARTIAL: the remaining case (first deposit into a vault that holds donated assets) is false, see below. *)
Theorem C05_deposit_withdraw_le_partial : forall u z sent st st1 st2, Good st -> u <> VAULT ->
  0 < supply st \/ backing st = 0 ->
  deposit u z sent st = Ok st1 -> withdraw u (get (lp st1) u - get (lp st) u) st1 = Ok st2 ->
  get (ab st2) u - get (ab st1) u <= z.
Proof. exact deposit_withdraw_le. Qed.

Definition C05_deposit_withdraw_full_statement : Prop := deposit_withdraw_full_statement.
(* known finding donation_before_first_deposit: assets donated to a vault without shares go to the first depositor *)
Theorem C05_deposit_withdraw_refuted_donated_empty :
  exists u z sent st st1 st2, Good st /\ u <> VAULT /\ supply st = 0 /\ 0 < backing st /\ deposit u z sent st = Ok st1 /\
    withdraw u (get (lp st1) u - get (lp st) u) st1 = Ok st2 /\ z < get (ab st2) u - get (ab st1) u.
Proof. exact deposit_withdraw_refuted_donated_empty. Qed.

(* ---- non-vacuity: a concrete un-nested history on which every hypothesis holds and the price strictly rises ------------ *)
Definition nv_loan : op := ORun (SCons (ALoan 300000 (SCons ACollect (SCons (ARepayQ 0) SNil))) SNil).
Definition nv_hist : list op :=
  [ODeposit 6%nat 1000000 1000000; nv_loan; ODeposit 7%nat 333333 333333; OWithdraw 6%nat 500000;
   ORouterLoan 6%nat 200000 0 (SCons (APay ROUTER 4000) SNil); OCollect 7%nat].

Example C05_nonvacuous :
  Good w_st0 /\ ~ has_nested_loan nv_hist /\
  (* every operation of the history succeeds *)
  (forall n, (n < 6)%nat -> is_ok (step (run w_st0 (firstn n nv_hist)) (nth n nv_hist (OCollect 0%nat))) = true) /\
  (* supply and backing after the first deposit and at the end: 1 000 000 / 1 000 000  ->  832 335 / 836 833: the price rose *)
  supply (run w_st0 (firstn 1 nv_hist)) = 1000000 /\ backing (run w_st0 (firstn 1 nv_hist)) = 1000000 /\
  supply (run w_st0 nv_hist) = 832335 /\ backing (run w_st0 nv_hist) = 836833 /\
  (* pro-rata with a non-zero rounding remainder: 333 333 deposited at backing 1 003 000 / supply 1 000 000 minted 332 335 *)
  get (lp (run w_st0 (firstn 3 nv_hist))) 7%nat = 332335.
Proof.
  split; [exact w_st0_good|]. split; [intros H; discriminate H|]. split.
  - intros n Hn. do 6 (destruct n as [|n]; [vm_compute; reflexivity|]). lia.
  - vm_compute. repeat split; reflexivity.
Qed.

(* first deposit: the hypotheses of C05_first_deposit_locks are met (empty vault) and the deposit succeeds *)
Example C05_first_deposit_nonvacuous :
  Inv w_st0 /\ supply w_st0 = 0 /\ is_ok (deposit 6%nat 1000000 1000000 w_st0) = true.
Proof. split; [apply w_st0_good|]. vm_compute. split; reflexivity. Qed.

(* deposit-then-withdraw in a vault with shares: the round trip succeeds and loses 1 unit to rounding *)
Example C05_deposit_withdraw_nonvacuous :
  let st := run w_st0 (firstn 2 nv_hist) in
  exists st1 st2, 0 < supply st /\ deposit 7%nat 333333 333333 st = Ok st1 /\
    withdraw 7%nat (get (lp st1) 7%nat - get (lp st) 7%nat) st1 = Ok st2 /\ get (ab st2) 7%nat - get (ab st1) 7%nat = 333332.
Proof.
  cbv zeta. exists (run w_st0 (firstn 3 nv_hist)), (run w_st0 (firstn 3 nv_hist ++ [OWithdraw 7%nat 332335])).
  vm_compute. repeat split; reflexivity.
Qed.

Print Assumptions C05_share_price_step.
Print Assumptions C05_share_price_history.
Print Assumptions C05_share_price_from_init.
Print Assumptions C05_share_price_refuted_nested.
Print Assumptions C05_share_price_full_statement_refuted.
Print Assumptions C05_deposit_prorata.
Print Assumptions C05_withdraw_prorata.
Print Assumptions C05_first_deposit_locks.
Print Assumptions C05_locked_forever.
Print Assumptions C05_deposit_withdraw_le_partial.
Print Assumptions C05_deposit_withdraw_refuted_donated_empty.
