(* C10 — fee pipeline: owed protocol fees reach the epoch, minus only the take rate.
   Model: theories/Pipeline.v (fee collector: collect / aggregate / take rate / forward) composed with
   theories/Distributor.v (the distributor's reply). Oracles (inputs of the ops, for ALL values of which the theorems
   hold): what pools and vaults hand over on CollectProtocolFees, the asset lists the factories report (pairs and vaults;
   trios are not reached by the code), and per asset the router's answer: no route / failing simulation / the whole
   balance swapped for any r >= 0 of the distribution asset / a failing hop (aborts everything). *)
From WW Require Import Prim Params Epochs Distributor Lair Pipeline.
From WW.Proofs Require Import ArithLemmas DistributorProofs PipelineProofs PipelineHistory.

(* an accepted NewEpoch end to end: collected, aggregated, take rate = floor(rate * balance) iff active / non-zero / DAO set
   and recorded under the new epoch id, the rest forwarded (the collector keeps none of the distribution asset),
   other assets swapped entirely or left exactly as they arrived *)
Theorem C10_new_epoch_pipeline : forall c now s fd s',
  PInv s -> feeds_wf fd -> new_epoch_pipeline c now s fd = Ok s' ->
  let b1 := credit (f_vault_transfers fd) (p_bal s) in
  let b2 := credit (f_pool_transfers fd) b1 in
  exists b3 b4,
    aggregate_fees (f_vault_assets fd) b2 = Ok b3 /\ aggregate_fees (f_pool_assets fd) b3 = Ok b4 /\
    f_collect_ok fd = true /\
    let B := zget DIST b4 in
    let fee := take_rate_fee s B in
    B = zget DIST (p_bal s) + sum_dist (f_vault_transfers fd) + sum_dist (f_pool_transfers fd)
        + proceeds (f_vault_assets fd) b2 + proceeds (f_pool_assets fd) b3 /\
    0 <= fee <= B /\ p_dao s' = p_dao s + fee /\
    (p_active s && negb (p_rate s =? 0) && p_dao_set s = true -> B * p_rate s / DEC < P128 -> fee = B * p_rate s / DEC) /\
    (p_active s && negb (p_rate s =? 0) && p_dao_set s = false -> fee = 0) /\
    p_history s' = (if fee =? 0 then p_history s else zset (e_id (cur_epoch (p_dist s)) + 1) fee (p_history s)) /\
    zget DIST (p_bal s') = 0 /\
    new_epoch c now (p_dist s) true (B - fee) = Ok (p_dist s') /\
    d_bal (p_dist s') = d_bal (p_dist s) + (B - fee) /\
    (forall a, a <> DIST ->
       zget a (p_bal s') = zget a (p_bal s) + sum_asset a (f_vault_transfers fd) + sum_asset a (f_pool_transfers fd) \/
       (zget a (p_bal s') = 0 /\ exists r, In (a, Swapped r) (f_vault_assets fd ++ f_pool_assets fd))) /\
    p_active s' = p_active s /\ p_rate s' = p_rate s /\ p_dao_set s' = p_dao_set s /\
    PInv s'.
Proof. exact pipeline_new_epoch. Qed.

(* collector + DAO + distributor: the distribution asset changes exactly by what pools / vaults handed over plus swap proceeds *)
Theorem C10_conservation : forall c now s fd s',
  PInv s -> feeds_wf fd -> new_epoch_pipeline c now s fd = Ok s' ->
  let b2 := credit (f_pool_transfers fd) (credit (f_vault_transfers fd) (p_bal s)) in
  exists b3, aggregate_fees (f_vault_assets fd) b2 = Ok b3 /\
  zget DIST (p_bal s') + p_dao s' + d_bal (p_dist s')
  = zget DIST (p_bal s) + p_dao s + d_bal (p_dist s)
    + sum_dist (f_vault_transfers fd) + sum_dist (f_pool_transfers fd)
    + proceeds (f_vault_assets fd) b2 + proceeds (f_pool_assets fd) b3.
Proof. exact pipeline_conservation. Qed.

(* the amount transferred to the distributor = the new epoch's total minus what was rolled over from the expiring epoch *)
Theorem C10_forward_eq_total : forall c now s fd s',
  PInv s -> feeds_wf fd -> new_epoch_pipeline c now s fd = Ok s' ->
  let g := Z.to_nat (d_grace (p_dist s)) in
  let forwarded := d_bal (p_dist s') - d_bal (p_dist s) in
  exists ne, hd_error (d_epochs (p_dist s')) = Some ne /\
    ((g <= length (d_epochs (p_dist s)))%nat ->
       exists x, nth_error (d_epochs (p_dist s)) (g - 1) = Some x /\ oz (de_total ne) = forwarded + oz (de_avail x)) /\
    ((length (d_epochs (p_dist s)) < g)%nat -> oz (de_total ne) = forwarded).
Proof. exact pipeline_forward_eq_total. Qed.

(* the invariant (distributor ledgers, 0 <= take rate < 1, no negative balance) holds along every history *)
Theorem C10_invariant : forall c g h, 1 <= g -> phist_wf h -> PInv (prun c g h).
Proof. exact pipeline_inv. Qed.

(* the distributor always holds at least the sum of its epochs' available amounts, also when anybody sends the
   distribution asset straight to it (PStray); such a transfer changes its balance and nothing else *)
Theorem C10_distributor_solvent : forall c g h, 1 <= g -> phist_wf h ->
  sum_avail (d_epochs (p_dist (prun c g h))) <= d_bal (p_dist (prun c g h)).
Proof. exact pipeline_distributor_solvent. Qed.

Theorem C10_plain_transfer_frame : forall c now s x s',
  pstep c now s (PStray x) = Ok s' ->
  0 < x /\ p_bal s' = p_bal s /\ p_dao s' = p_dao s /\ p_history s' = p_history s /\
  p_active s' = p_active s /\ p_rate s' = p_rate s /\ p_dao_set s' = p_dao_set s /\
  d_bal (p_dist s') = d_bal (p_dist s) + x /\ d_epochs (p_dist s') = d_epochs (p_dist s) /\
  d_cursor (p_dist s') = d_cursor (p_dist s) /\ d_grace (p_dist s') = d_grace (p_dist s).
Proof. exact pipeline_plain_transfer_frame. Qed.

Theorem C10_only_distributor_forwards : forall c now s,
  pstep c now s PForwardDirect = Err E_UNAUTH /\ phstep c s (now, PForwardDirect) = s.
Proof. exact pipeline_only_distributor_forwards. Qed.

Theorem C10_failed_step_frame : forall c s e, failed (pstep c (fst e) s (snd e)) -> phstep c s e = s.
Proof. exact pipeline_failed_step_frame. Qed.

Theorem C10_collect_aggregate_frame : forall c now s o s',
  (exists ok ts, o = PCollect ok ts) \/ (exists assets, o = PAggregate assets) ->
  pstep c now s o = Ok s' ->
  p_dao s' = p_dao s /\ p_dist s' = p_dist s /\ p_history s' = p_history s /\
  p_active s' = p_active s /\ p_rate s' = p_rate s /\ p_dao_set s' = p_dao_set s.
Proof. exact pipeline_collect_aggregate_frame. Qed.

(* the take-rate ledger over whole histories: the per-epoch records sum to exactly what the DAO received ("minus only the take
   rate": nothing reaches the DAO that is not recorded, nothing is recorded that did not reach it), every record belongs to an
   epoch that exists, and no epoch has two records *)
Theorem C10_take_rate_history : forall c g h, 1 <= g -> phist_wf h ->
  let s := prun c g h in
  hist_sum (p_history s) = p_dao s /\
  Forall (fun kv => 1 <= fst kv <= e_id (cur_epoch (p_dist s))) (p_history s) /\
  NoDup (map fst (p_history s)).
Proof. exact pipeline_take_rate_history. Qed.

(* ---- non-vacuity ------------------------------------------------------------------------------------------ *)
Definition DAY : Z := 86400000000000.
Definition T0 : Z := 1000 * DAY.
Definition nv_c : dcfg := mkDC DAY T0.
Definition nv_fd1 : feeds :=
  mkFeeds true [(1, 50000)] [(0, 1200); (1, 2500); (2, 999)]
          [(3, NoRoute); (1, Swapped 48000); (0, NoRoute)] [(2, Swapped 5); (3, SimFails); (1, NoRoute); (0, NoRoute)].
Definition nv_h : list pevent :=
  [ (T0, PConfig true (Some true) (Some 10000000000000000) (Some true));     (* 1 % to the DAO *)
    (T0, PConfig false (Some false) None None);                              (* not the owner *)
    (T0, PConfig true None (Some DEC) None);                                 (* 100 %: rejected *)
    (T0, PCollect true [(3, 7777)]);
    (T0, PForwardDirect);
    (T0, PStray 1000);                                                       (* a plain transfer to the distributor *)
    (T0, PNewEpoch nv_fd1);
    (T0 + 5, PNewEpoch nv_fd1);                                              (* early *)
    (T0 + DAY, PNewEpoch (mkFeeds true [] [(2, 600)] [] [(2, HopFails)]));   (* 999+600 > 1000, the hop fails: all aborts *)
    (T0 + DAY, PNewEpoch (mkFeeds true [] [(0, 10)] [] [(2, NoRoute)])) ].

Example C10_nonvacuous :
  phist_wf nv_h /\
  (let s := prun nv_c 1 nv_h in
   (zget 0 (p_bal s), zget 1 (p_bal s), zget 2 (p_bal s), zget 3 (p_bal s)) = (0, 0, 999, 7777) /\
   p_dao s = 492 /\ d_bal (p_dist s) = 49718 /\ p_history s = [(1, 492)] /\
   map (fun e => (de_id e, de_total e, de_avail e)) (d_epochs (p_dist s)) = [(2, Some 48718, Some 48718); (1, Some 48708, None)]).
Proof.
  split.
  - unfold phist_wf, nv_h, nv_fd1. repeat constructor; cbn; try lia; try exact I; try (unfold DEC; lia).
  - vm_compute. repeat split; reflexivity.
Qed.

(* three epochs, takes in the first and the third (1 % of 10 is 0: no record for epoch 2): the records [(1, 492); (3, 5)] sum to the DAO's 497 *)
Example C10_take_rate_history_nonvacuous :
  let h2 := nv_h ++ [ (T0 + 2 * DAY, PNewEpoch (mkFeeds true [(0, 500)] [] [] [])) ] in
  phist_wf h2 /\
  (let s := prun nv_c 1 h2 in
   p_history s = [(1, 492); (3, 5)] /\ p_dao s = 497 /\ hist_sum (p_history s) = 497 /\ e_id (cur_epoch (p_dist s)) = 3).
Proof.
  cbn zeta. split.
  - unfold phist_wf. apply Forall_app. split; [apply C10_nonvacuous|]. repeat constructor; cbn; lia.
  - vm_compute. repeat split; reflexivity.
Qed.

Print Assumptions C10_take_rate_history_nonvacuous.
Print Assumptions C10_take_rate_history.
Print Assumptions C10_new_epoch_pipeline.
Print Assumptions C10_conservation.
Print Assumptions C10_forward_eq_total.
Print Assumptions C10_invariant.
Print Assumptions C10_distributor_solvent.
Print Assumptions C10_plain_transfer_frame.
Print Assumptions C10_only_distributor_forwards.
Print Assumptions C10_failed_step_frame.
Print Assumptions C10_collect_aggregate_frame.
