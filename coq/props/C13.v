(* C13 — incentive rewards: weights add up; claims are bounded, single and as quoted.
   Only statements, `exact <lemma>`, non-vacuity examples and Print Assumptions live here.
   Model: theories/Incentive.v at v_fixed (the code with the fix: commits of this property); the `_refuted` theorems are
   about the code as found (one repair switched off each).  `eff h e` = the weight an address history h holds for epoch e
   (latest entry with key <= e); it is what the share query reports (C13_share_query_reports_epoch_weight) and what claims
   use (C13_claim_uses_epoch_weight).  Hypothesis op_wf_w: the amounts of position operations are unsigned.             *)
From WW Require Import Prim Params Incentive.
From WW.Proofs Require Import IncentiveLedger IncentiveFlows IncentiveInv IncentiveC12 IncentiveWeight IncentiveWeights IncentiveC13 IncentiveLate.

(* ---- the weight function ------------------------------------------------------------------------------------------------- *)
Theorem C13_weight_ge_amount : forall d a w, calculate_weight d a = Ok w -> a <= w.
Proof. exact weight_ge_amount. Qed.
Theorem C13_weight_mono_amount : forall d a a' w w',
  0 <= a <= a' -> calculate_weight d a = Ok w -> calculate_weight d a' = Ok w' -> w <= w'.
Proof. exact weight_mono_amount. Qed.
Theorem C13_weight_mono_duration : forall d d' a w w',
  0 <= a -> d <= d' -> calculate_weight d a = Ok w -> calculate_weight d' a = Ok w' -> w <= w'.
Proof. exact weight_mono_duration. Qed.
(* the closed form of the model is the code's chain of checked Decimal256 operations: none of them can overflow *)
Theorem C13_weight_closed_form_justified : forall d a,
  Params.WEIGHT_MIN_DURATION <= d <= Params.WEIGHT_MAX_DURATION -> 0 <= a < P128 ->
  d * DEC < P256 /\ a * DEC < P256 /\ d * d * DEC < P256 /\ d * d * Params.WEIGHT_A < P256 /\ w_part1 d < P256 /\
  d * Params.WEIGHT_B < P256 /\ w_part2 d < P256 /\ w_part3 < P256 /\ w_mult d < P256 /\ a * w_mult d < P256.
Proof. exact weight_no_intermediate_overflow. Qed.

(* ---- global weight = sum of address weights, for every history ------------------------------------------------------------- *)
Theorem C13_global_eq_sum_weights : forall c h e b,
  Forall op_wf_w h -> 0 <= e ->
  let st := run_history v_fixed c (init_state e b) h in
  s_gw st = vals_sum (s_aw st) /\ NoDup (map fst (s_aw st)) /\ Forall (fun x => 0 <= snd x) (s_aw st).
Proof. exact global_eq_sum_weights. Qed.

(* ---- in every epoch, wherever the (permissionless) snapshot call was placed, the shares add up to at most 100 % ------------ *)
Theorem C13_shares_le_one : forall c h e b,
  Forall op_wf_w h -> 0 <= e ->
  let st := run_history v_fixed c (init_state e b) h in
  forall ep g, aget ep (s_snap st) = Some g -> 0 < g ->
  forall L, NoDup L -> sumZ (map (fun u => eff (s_awh st u) ep * DEC / g) L) <= DEC.
Proof. exact shares_le_one. Qed.

Theorem C13_weights_le_snapshot : forall c h e b,
  Forall op_wf_w h -> 0 <= e -> WInv (run_history v_fixed c (init_state e b) h).
Proof. exact reachable_winv. Qed.

Theorem C13_share_query_reports_epoch_weight : forall c h e b u g w s,
  Forall op_wf_w h -> 0 <= e ->
  let st := run_history v_fixed c (init_state e b) h in
  rewards_share v_fixed st u = Ok (g, w, s) ->
  w = eff (s_awh st u) (s_epoch st) /\ (s_awh st u = [] \/ (aget (s_epoch st) (s_snap st) = Some g /\ dec_from_ratio P256 w g = Ok s)).
Proof. exact share_query_eff. Qed.

(* every reward the claim loop pays for an epoch e' is emission(e') * (eff h e' / snapshot(e')), at most the emission *)
Theorem C13_claim_uses_epoch_weight : forall b h fuel e cur count ea ee snap s s',
  wh_ok b h -> Forall (fun x => 0 < fst x) h -> lstate h e (l_lu s) (l_lw s) ->
  claim_epochs v_fixed fuel e cur count ea ee h snap s = Ok s' ->
  exists extra, l_log s' = l_log s ++ extra /\ Forall (log_ok h snap) extra /\
                l_rewards s' = l_rewards s ++ map (fun x => snd (fst x)) extra.
Proof. exact claim_epochs_log. Qed.
(* ... and in reachable states the loop is always started in a proper scanning state *)
Theorem C13_claim_loop_start : forall st u f first,
  WInv st -> first_claimable (aget u (s_last st)) f (fst (earliest (s_awh st u))) = Ok first ->
  lstate (s_awh st u) first (fst (earliest (s_awh st u))) (snd (earliest (s_awh st u))).
Proof. exact claim_start_state. Qed.

Theorem C13_claim_le_emission : forall h snap l,
  Forall (log_ok h snap) l -> Forall (fun x => snd (fst x) <= snd x /\ snd (fst x) <> 0) l.
Proof. exact log_ok_le. Qed.

(* ---- a second claim within the epoch is rejected (pays nothing) ----------------------------------------------------------------- *)
Theorem C13_second_claim_nothing : forall c st u st1 h,
  step v_fixed c st (Claim u) = Ok st1 -> no_new_epoch h ->
  step v_fixed c (run_history v_fixed c st1 h) (Claim u) = Err E_OTHER.
Proof. exact second_claim_nothing. Qed.

(* ---- a successful claim pays exactly what the rewards query reported immediately before (<= CLAIM_CAP unclaimed epochs) ------- *)
Theorem C13_claim_eq_query : forall c h e b u st',
  Forall op_wf_w h -> 0 <= e ->
  let st := run_history v_fixed c (init_state e b) h in
  (forall f first, In f (s_flows st) ->
     first_claimable (aget u (s_last st)) f (fst (earliest (s_awh st u))) = Ok first -> s_epoch st - first + 1 <= CLAIM_CAP) ->
  step v_fixed c st (Claim u) = Ok st' ->
  get_rewards v_fixed st u = Ok (payouts (s_flows st) (s_flows st')).
Proof. exact claim_eq_query_reachable. Qed.

(* Known class `first_claim_beyond_epoch_cap` (known_findings.d/C13.json): the hypothesis of C13_claim_eq_query counts the epochs the
   claim LOOP walks (from the flow's first claimable epoch, which for an address that never claimed is the flow's start epoch), not
   the epochs in which the address has something to claim. An address whose first weight starts more than CLAIM_CAP epochs after a
   flow's start therefore falls outside the theorem although it has only a few unclaimed epochs: the query reports rewards, the claim
   succeeds, pays nothing and marks the epochs claimed. Witness (repaired code v_fixed): *)
Theorem C13_refuted_first_claim_beyond_epoch_cap :
  let st := run_history v_fixed c13 (init_state 1 b0) h_late in
  aget 2 (s_last st) = None /\ eff (s_awh st 2) (s_epoch st) = 1000 /\ eff (s_awh st 2) (s_epoch st - 3) = 0 /\
  get_rewards v_fixed st 2 = Ok [(1, 150000)] /\
  exists st', step v_fixed c13 st (Claim 2) = Ok st' /\ payouts (s_flows st) (s_flows st') = [] /\
              aget 2 (s_last st') = Some (s_epoch st).
Proof. exact first_claim_beyond_cap_refuted. Qed.

(* ---- the defects of the code as found ---------------------------------------------------------------------------------------- *)
Theorem C13_refuted_weight_desync :
  let st := run_history v_no_clamp c13 (init_state 1 b0) h_desync in
  Forall op_wf_w h_desync /\ s_gw st = 15998 /\ vals_sum (s_aw st) = 15999.
Proof. exact weight_desync_refuted. Qed.
Theorem C13_refuted_close_before_snapshot :
  let st := run_history v_no_close_snap c13 (init_state 1 b0) h_close_before_snap in
  Forall op_wf_w h_close_before_snap /\ aget 3 (s_snap st) = Some 1000 /\ share_sum (s_awh st) 3 [1; 2] = 2000.
Proof. exact close_before_snapshot_refuted. Qed.
Theorem C13_refuted_claim_rewrites_weight :
  let st := run_history v_no_claim_cur c13 (init_state 1 b0) h_resurrect in
  Forall op_wf_w h_resurrect /\ aget 4 (s_snap st) = Some 1000 /\ aget0 1 (s_aw st) = 0 /\ share_sum (s_awh st) 4 [1; 2] = 2000.
Proof. exact claim_rewrites_weight_refuted. Qed.
Theorem C13_refuted_share_query_future_weight :
  let st := run_history v_no_share_cur c13 (init_state 1 b0) h_share_future in
  rewards_share v_no_share_cur st 2 = Ok (1000, 1000, DEC) /\ rewards_share v_no_share_cur st 1 = Ok (1000, 1000, DEC) /\
  eff (s_awh st 2) (s_epoch st) = 0.
Proof. exact share_query_refuted. Qed.
Theorem C13_refuted_stale_weight_before_flow_start :
  let st := run_history v_no_skip_scan c13 (init_state 1 b0) h_stale in
  eff (s_awh st 1) 5 = 0 /\ eff (s_awh st 1) 6 = 0 /\ aget0 1 (s_aw st) = 0 /\
  get_rewards v_no_skip_scan st 1 = Ok [(1, 200000)] /\
  exists st', step v_no_skip_scan c13 st (Claim 1) = Ok st' /\ s_bal st' 1 1 - s_bal st 1 1 = 200000.
Proof. exact stale_weight_refuted. Qed.

(* ---- non-vacuity --------------------------------------------------------------------------------------------------------------- *)
Example C13_weight_nonvacuous :
  calculate_weight 15778463 3 = Ok 14 /\ calculate_weight 15778463 6 = Ok 29 /\ calculate_weight 31556926 10000 = Ok 159999 /\
  calculate_weight 86400 1000000 = Ok 1000000 /\ calculate_weight 86399 5 = Err E_OTHER.
Proof. vm_compute. repeat split; reflexivity. Qed.

(* three holders, open / expand / close with rounding, snapshots placed before and after position changes, claims over epochs *)
Definition h_w : list op :=
  [fl13 4 1 1000000 (Some 12); op_pos 2 1000 31556926; op_pos 1 3 15778463; ex_pos 1 3 15778463; op_pos 3 777 259200;
   NewEpoch; ClosePosition 1 15778463 1684429300; Snapshot; Claim 2; Claim 3; NewEpoch; op_pos 1 50 86400; Snapshot; Claim 2;
   NewEpoch; Snapshot].
Definition st_w : state := run_history v_fixed c13 (init_state 1 b0) h_w.
Example C13_global_and_shares_nonvacuous :
  Forall op_wf_w h_w /\ s_gw st_w = 16830 /\ s_aw st_w = [(2, 15999); (1, 50); (3, 781)] /\
  (* epoch 2: alice closed before anyone took the snapshot; the snapshot still contains her 28 *)
  aget 2 (s_snap st_w) = Some 16808 /\ map (fun u => eff (s_awh st_w u) 2) [1; 2; 3] = [28; 0; 0] /\
  aget 4 (s_snap st_w) = Some 16830 /\ map (fun u => eff (s_awh st_w u) 4) [1; 2; 3] = [50; 15999; 781].
Proof. split; [repeat constructor; cbn; lia|]. vm_compute. repeat split; reflexivity. Qed.

Example C13_share_query_nonvacuous :
  rewards_share v_fixed st_w 1 = Ok (16830, 50, 2970885323826500) /\ rewards_share v_fixed st_w 3 = Ok (16830, 781, 46405228758169934).
Proof. vm_compute. split; reflexivity. Qed.

(* claim = query, second claim rejected: carol has two unclaimed epochs *)
Example C13_claim_nonvacuous :
  exists st', step v_fixed c13 st_w (Claim 3) = Ok st' /\
    get_rewards v_fixed st_w 3 = Ok [(1, 8436)] /\ payouts (s_flows st_w) (s_flows st') = [(1, 8436)] /\
    step v_fixed c13 st' (Claim 3) = Err E_OTHER.
Proof. eexists. split; [vm_compute; reflexivity|]. split; [vm_compute; reflexivity|]. split; vm_compute; reflexivity. Qed.

Print Assumptions C13_weight_ge_amount.
Print Assumptions C13_weight_mono_amount.
Print Assumptions C13_weight_mono_duration.
Print Assumptions C13_weight_closed_form_justified.
Print Assumptions C13_global_eq_sum_weights.
Print Assumptions C13_shares_le_one.
Print Assumptions C13_weights_le_snapshot.
Print Assumptions C13_share_query_reports_epoch_weight.
Print Assumptions C13_claim_uses_epoch_weight.
Print Assumptions C13_claim_loop_start.
Print Assumptions C13_claim_le_emission.
Print Assumptions C13_second_claim_nothing.
Print Assumptions C13_claim_eq_query.
Print Assumptions C13_refuted_first_claim_beyond_epoch_cap.
Print Assumptions C13_refuted_weight_desync.
Print Assumptions C13_refuted_close_before_snapshot.
Print Assumptions C13_refuted_claim_rewrites_weight.
Print Assumptions C13_refuted_share_query_future_weight.
Print Assumptions C13_refuted_stale_weight_before_flow_start.
