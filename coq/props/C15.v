(* C15 — slippage limits and minimum-receive are enforced (statements only).
   assert_max_spread / assert_slippage_tolerance are modelled in Slippage.v; the swap/provide steps of the pool machine
   call them exactly where the code does. Router minimum_receive: see the Router development (C15 min-receive theorems). *)
From WW Require Import Prim CPSwap Slippage CP CPInst Router.
From WW.Proofs Require Import ArithLemmas CPSwapProofs ListLemmas CPProofs SlippageProofs QuotesProofs RouterProofs.

(* s_eff = min(max_spread or the default, the cap) *)
Theorem C15_max_spread_sound : forall dflt maxs m offer ret spread,
  assert_max_spread dflt maxs None m offer ret spread = Ok tt ->
  0 < ret + spread /\ spread * DEC / (ret + spread) <= eff_spread dflt maxs m.
Proof. exact max_spread_sound. Qed.

(* exact-rational reading: spread/(ret+spread) < s_eff + 10^-18 *)
Theorem C15_max_spread_sound_rational : forall dflt maxs m offer ret spread, 0 <= spread ->
  assert_max_spread dflt maxs None m offer ret spread = Ok tt ->
  spread * DEC < (eff_spread dflt maxs m + 1) * (ret + spread).
Proof. exact max_spread_sound_rational. Qed.

(* conversely a request within the limit is accepted (neither rejected nor aborted) *)
Theorem C15_max_spread_complete : forall dflt maxs m offer ret spread,
  0 <= ret -> 0 <= spread -> 0 < ret + spread < P128 ->
  spread * DEC <= eff_spread dflt maxs m * (ret + spread) ->
  assert_max_spread dflt maxs None m offer ret spread = Ok tt.
Proof. exact max_spread_complete. Qed.

Theorem C15_rejected_only_for_slippage : forall dflt maxs m offer ret spread,
  0 <= ret -> 0 <= spread -> 0 < ret + spread < P128 ->
  assert_max_spread dflt maxs None m offer ret spread = Ok tt \/
  (assert_max_spread dflt maxs None m offer ret spread = Err E_SLIPPAGE /\
   eff_spread dflt maxs m < spread * DEC / (ret + spread)).
Proof. exact max_spread_rejects_only_for_slippage. Qed.

Theorem C15_spread_capped_and_defaulted : forall dflt maxs,
  (forall m, eff_spread dflt maxs m <= maxs) /\ (forall s, eff_spread dflt maxs (Some s) <= s) /\
  eff_spread dflt maxs None = Z.min dflt maxs.
Proof. intros. split; [|split]. apply eff_spread_cap. apply eff_spread_le_requested. reflexivity. Qed.

(* belief price p: er is the expected return as the code computes it (two truncations); accepted means the gross
   return is at least er*(1-s_eff) up to er*10^-18 base units *)
Theorem C15_belief_price_sound : forall dflt maxs m p offer ret spread, 0 < p -> 0 <= offer -> 0 <= ret ->
  assert_max_spread dflt maxs (Some p) m offer ret spread = Ok tt ->
  let er := expected_return offer p in
  ret * DEC + er > er * (DEC - eff_spread dflt maxs m) \/ er <= ret.
Proof. exact belief_sound. Qed.

(* against the exact quotient offer/p: ret + 1 + (er + offer)*10^-18 > (offer/p)*(1 - s_eff) *)
Theorem C15_belief_price_sound_exact : forall dflt maxs m p offer ret spread, 0 < p -> 0 <= offer -> 0 <= ret ->
  0 <= eff_spread dflt maxs m <= DEC ->
  assert_max_spread dflt maxs (Some p) m offer ret spread = Ok tt ->
  let er := expected_return offer p in
  (ret + 1) * DEC * p + (er + offer) * p > offer * DEC * (DEC - eff_spread dflt maxs m) \/ er <= ret.
Proof. exact belief_sound_exact. Qed.

(* the code's expected return vs the exact quotient offer/p (p is an 18-decimal price) *)
Theorem C15_expected_return_truncation : forall offer p, 0 < p -> 0 <= offer ->
  let er := expected_return offer p in
  er * p <= offer * DEC /\ offer * DEC * DEC < (er + 1) * DEC * p + offer * p.
Proof. exact expected_return_bounds. Qed.

Theorem C15_belief_price_complete : forall dflt maxs m p offer ret spread, 0 < p -> 0 <= offer -> 0 <= ret ->
  expected_return offer p < P128 ->
  let er := expected_return offer p in
  (er <= ret \/ (er - ret) * DEC <= eff_spread dflt maxs m * er) ->
  assert_max_spread dflt maxs (Some p) m offer ret spread = Ok tt.
Proof. exact belief_complete. Qed.

(* liquidity deposits, constant product: documented bound = each deposit ratio scaled by (1-t) does not exceed the
   pool ratio, at 18-decimal truncation *)
Theorem C15_tolerance_sound : forall t d0 d1 r0 r1,
  assert_slippage_cp (Some t) d0 d1 r0 r1 = Ok tt -> t <= DEC /\ tol_bound t d0 d1 r0 r1.
Proof. exact tolerance_sound. Qed.
Theorem C15_tolerance_complete : forall t d0 d1 r0 r1,
  0 <= t <= DEC -> 0 < d0 < P128 -> 0 < d1 < P128 -> 0 < r0 < P128 -> 0 < r1 < P128 ->
  tol_bound t d0 d1 r0 r1 -> assert_slippage_cp (Some t) d0 d1 r0 r1 = Ok tt.
Proof. exact tolerance_complete. Qed.
Theorem C15_tolerance_above_one_rejected : forall t d0 d1 r0 r1, DEC < t ->
  assert_slippage_cp (Some t) d0 d1 r0 r1 = Err E_OTHER.
Proof. exact tolerance_gt_one_rejected. Qed.

(* stableswap pools (terraswap_pair StableSwap arm and stableswap_3pool): total reserves per LP, scaled by (1-t), must not
   exceed total deposits per minted LP *)
Theorem C15_stable_tolerance_sound : forall t dt pt amount supply,
  assert_slippage_stable (Some t) dt pt amount supply = Ok tt ->
  t <= DEC /\ supply <> 0 /\ amount <> 0 /\ stable_tol_bound t dt pt amount supply.
Proof. exact stable_tolerance_sound. Qed.
Theorem C15_stable_tolerance_complete : forall t dt pt amount supply,
  0 <= t <= DEC -> 0 <= dt < 4 * P128 -> 0 <= pt < 4 * P128 -> 0 < amount < P128 -> 0 < supply < P128 ->
  stable_tol_bound t dt pt amount supply -> assert_slippage_stable (Some t) dt pt amount supply = Ok tt.
Proof. exact stable_tolerance_complete. Qed.
Theorem C15_stable_tolerance_above_one_rejected : forall t dt pt amount supply, DEC < t ->
  assert_slippage_stable (Some t) dt pt amount supply = Err E_OTHER.
Proof. exact stable_tolerance_gt_one_rejected. Qed.

(* on the pool machine: every successful swap / deposit of every reachable state obeyed its limit *)
Theorem C15_swap_respects_max_spread : forall s who dir x m to s' p, reachable s ->
  step the_consts s (Swap who dir x None m to) = Ok (s', p) ->
  let g := p_ret p + (p_swapfee p + p_protfee p + p_burnfee p) in
  0 < g + p_spread p /\
  p_spread p * DEC / (g + p_spread p) <= eff_spread (c_default_spread the_consts) (c_max_spread the_consts) m /\
  p_spread p * DEC < (eff_spread (c_default_spread the_consts) (c_max_spread the_consts) m + 1) * (g + p_spread p).
Proof. exact swap_respects_max_spread. Qed.
Theorem C15_swap_respects_belief_price : forall s who dir x bp m to s' p, reachable s -> 0 < bp ->
  step the_consts s (Swap who dir x (Some bp) m to) = Ok (s', p) ->
  let g := p_ret p + (p_swapfee p + p_protfee p + p_burnfee p) in
  let er := expected_return x bp in
  g * DEC + er > er * (DEC - eff_spread (c_default_spread the_consts) (c_max_spread the_consts) m) \/ er <= g.
Proof. exact swap_respects_belief_price. Qed.
Theorem C15_provide_respects_tolerance : forall s who d0 d1 t rc s' p, reachable s -> 0 < supply s ->
  step the_consts s (Provide who d0 d1 (Some t) rc) = Ok (s', p) ->
  t <= DEC /\ tol_bound t d0 d1 (res0 s) (res1 s).
Proof. exact provide_respects_tolerance. Qed.

(* router minimum_receive: `out` is the increase of the receiver's balance of the final asset *)
Theorem C15_min_receive_sound : forall k pools hops offer pre ms m pools' out,
  router_swap k pools hops offer pre ms (Some m) = Ok (pools', out) -> m <= out.
Proof. exact min_receive_sound. Qed.
Theorem C15_min_receive_complete : forall k pools hops offer pre ms m pools' out,
  router_swap k pools hops offer pre ms None = Ok (pools', out) -> m <= out ->
  router_swap k pools hops offer pre ms (Some m) = Ok (pools', out).
Proof. exact min_receive_complete. Qed.
Theorem C15_min_receive_rejects_only_shortfall : forall k pools hops offer pre ms m pools' out,
  router_swap k pools hops offer pre ms None = Ok (pools', out) -> out < m ->
  router_swap k pools hops offer pre ms (Some m) = Err E_SLIPPAGE.
Proof. exact min_receive_only_rejects_shortfall. Qed.

(* the extracted constants are the documented 1 % default and 50 % cap *)
Example C15_constants : c_default_spread the_consts = DEC / 100 /\ c_max_spread the_consts = DEC / 2.
Proof. split; reflexivity. Qed.

(* non-vacuity: at the threshold, one unit inside and one unit outside *)
Example C15_nonvacuous :
  assert_max_spread (DEC/100) (DEC/2) None (Some (DEC/10)) 1000 900 100 = Ok tt /\
  assert_max_spread (DEC/100) (DEC/2) None (Some (DEC/10)) 1000 899 101 = Err E_SLIPPAGE /\
  assert_max_spread (DEC/100) (DEC/2) None None 1000 990 10 = Ok tt /\
  assert_max_spread (DEC/100) (DEC/2) None None 1000 989 11 = Err E_SLIPPAGE /\
  assert_max_spread (DEC/100) (DEC/2) None (Some (2*DEC)) 1000 500 500 = Ok tt /\
  assert_max_spread (DEC/100) (DEC/2) None (Some (2*DEC)) 1000 499 501 = Err E_SLIPPAGE /\
  assert_max_spread (DEC/100) (DEC/2) (Some (2*DEC)) (Some (DEC/10)) 1000 450 0 = Ok tt /\
  assert_max_spread (DEC/100) (DEC/2) (Some (2*DEC)) (Some (DEC/10)) 1000 449 0 = Err E_SLIPPAGE /\
  assert_slippage_cp (Some (DEC/100)) 1000 1010 100000 100000 = Ok tt /\
  assert_slippage_cp (Some (DEC/100)) 1000 1011 100000 100000 = Err E_SLIPPAGE /\
  assert_slippage_stable (Some (DEC/100)) 2000 200000 1010 100000 = Ok tt /\
  assert_slippage_stable (Some (DEC/100)) 2000 200000 1011 100000 = Err E_SLIPPAGE.
Proof. vm_compute. repeat split; reflexivity. Qed.

Print Assumptions C15_max_spread_sound.
Print Assumptions C15_max_spread_sound_rational.
Print Assumptions C15_max_spread_complete.
Print Assumptions C15_rejected_only_for_slippage.
Print Assumptions C15_spread_capped_and_defaulted.
Print Assumptions C15_belief_price_sound.
Print Assumptions C15_belief_price_sound_exact.
Print Assumptions C15_expected_return_truncation.
Print Assumptions C15_belief_price_complete.
Print Assumptions C15_tolerance_sound.
Print Assumptions C15_tolerance_complete.
Print Assumptions C15_tolerance_above_one_rejected.
Print Assumptions C15_stable_tolerance_sound.
Print Assumptions C15_stable_tolerance_complete.
Print Assumptions C15_stable_tolerance_above_one_rejected.
Print Assumptions C15_swap_respects_max_spread.
Print Assumptions C15_swap_respects_belief_price.
Print Assumptions C15_provide_respects_tolerance.
Print Assumptions C15_min_receive_sound.
Print Assumptions C15_min_receive_complete.
Print Assumptions C15_min_receive_rejects_only_shortfall.
