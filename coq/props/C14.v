(* C14 — quotes are honest: simulation equals execution (statements only).
   Pair: `simulate` transcribes queries::query_simulation (reserves = balance - pending fee, from the state BEFORE the
   offer arrives); `swap` transcribes commands::swap (balance already containing the offer, minus pending fee, minus
   offer, in the code's order, with its checked subtractions). Router and vault: see Router / Vault developments. *)
From WW Require Import Prim CPSwap Slippage CP CPInst Router.
From WW.Proofs Require Import ArithLemmas CPSwapProofs ListLemmas CPProofs SlippageProofs QuotesProofs RouterProofs.
From WW Require Vault.
From WW.Proofs Require VaultQuotes.
From WW Require Stable3 Stable3Pool Stable3Quotes Stable2 Stable2Pool Stable2Quotes.
From WW.Proofs Require Stable3PoolProofs Stable3QuotesProofs Stable2QuotesProofs.

Theorem C14_pair_simulation_equals_execution : forall s who dir x b m to s' p, reachable s ->
  step the_consts s (Swap who dir x b m to) = Ok (s', p) ->
  simulate s dir x = Ok (mkSwap (p_ret p) (p_spread p) (p_swapfee p) (p_protfee p) (p_burnfee p)) /\
  (if dir then bal0 s - bal0 s' = p_ret p + p_burnfee p /\ pf0 s' - pf0 s = p_protfee p /\ bu0 s' - bu0 s = p_burnfee p /\ bal1 s' - bal1 s = x
   else bal1 s - bal1 s' = p_ret p + p_burnfee p /\ pf1 s' - pf1 s = p_protfee p /\ bu1 s' - bu1 s = p_burnfee p /\ bal0 s' - bal0 s = x).
Proof. exact sim_eq_exec. Qed.

(* native and cw20 offers take the same path in the model: the asset kind of the OFFER never enters `swap` *)

(* Router, any number of hops. Known class `route_revisits_pool` (see known_findings.json): a route passing twice through
   the same pair is simulated against stale state. For every other route - each hop through a different pair, pools in any
   reachable state (Inv), nothing donated to the router beforehand - the simulation equals what the receiver gets. *)
Theorem C14_router_simulation_equals_execution : forall pools hops offer ms minrecv pools' out,
  Forall (Inv the_consts) pools -> ~ Known_route_revisits_pool hops ->
  router_swap the_consts pools hops offer [] ms minrecv = Ok (pools', out) ->
  router_simulate pools hops offer = Ok out.
Proof. exact router_sim_eq_exec_unless_known. Qed.

Theorem C14_refuted_route_revisits_pool :
  exists pools' out simout,
    router_swap the_consts [rv_pool] [(0%nat, false); (0%nat, true)] 100000 [] (Some (DEC / 2)) None = Ok (pools', out) /\
    router_simulate [rv_pool] [(0%nat, false); (0%nat, true)] 100000 = Ok simout /\ simout <> out.
Proof. exact route_revisit_refuted. Qed.

Definition ex_p0 := run the_consts (init false false (mkFees 1000000000000000 3000000000000000 0) 3 2) [Provide 1 5000000 4000000 None None].
Definition ex_p1 := run the_consts (init false false (mkFees 0 2000000000000000 1000000000000000) 3 2) [Provide 1 3000000 9000000 None None].
Example C14_router_nonvacuous :
  Forall (Inv the_consts) [ex_p0; ex_p1] /\ ~ Known_route_revisits_pool [(0%nat, false); (1%nat, false)] /\
  match router_swap the_consts [ex_p0; ex_p1] [(0%nat, false); (1%nat, false)] 70000 [] (Some (DEC / 2)) (Some 100) with
  | Ok (_, out) => (100 <? out) = true /\ router_simulate [ex_p0; ex_p1] [(0%nat, false); (1%nat, false)] 70000 = Ok out
  | _ => False end.
Proof.
  split; [|split].
  - constructor; [|constructor; [|constructor]];
      (eapply run_inv; [apply the_minliq_pos|apply inv_init; [vm_compute; repeat split; congruence|lia]]).
  - intro H. apply H. cbn. repeat constructor; cbn; intuition congruence.
  - vm_compute. split; reflexivity.
Qed.

(* Three-asset stableswap pool, all six directions. `swap_exec` is commands::swap as it runs (balance already containing the
   offer, minus pending fee, minus offer, checked, in the code's order); it IS the pool machine's swap (first theorem), and the
   quote of `simulate3` (queries::query_simulation, state before the offer) is exactly what it pays, records and burns. *)
Theorem C14_trio_exec_path_is_pool_swap : forall p i j x ms, 0 <= x ->
  Stable3Quotes.swap_exec p i j x ms = Stable3Pool.swap p i j x ms.
Proof. exact Stable3QuotesProofs.swap_exec_is_swap. Qed.

Theorem C14_trio_simulation_equals_execution : forall p i j x ms p' e, 0 <= x -> Stable3PoolProofs.pool_inv p ->
  Stable3Quotes.swap_exec p i j x ms = Ok (p', e) ->
  exists s, Stable3Quotes.simulate3 p i j x = Ok s /\
    Stable3Pool.get3 j (Stable3Pool.e_user e) = s_ret s /\ Stable3Pool.get3 i (Stable3Pool.e_user e) = - x /\
    Stable3Pool.get3 j (Stable3Pool.e_burned e) = s_burnfee s /\
    Stable3Pool.get3 j (Stable3Pool.p_fee p') - Stable3Pool.get3 j (Stable3Pool.p_fee p) = s_protfee s /\
    Stable3Pool.get3 j (Stable3Pool.p_all p') - Stable3Pool.get3 j (Stable3Pool.p_all p) = s_protfee s /\
    Stable3Pool.get3 j (Stable3Pool.p_burn p') - Stable3Pool.get3 j (Stable3Pool.p_burn p) = s_burnfee s /\
    Stable3Pool.get3 j (Stable3Pool.p_bal p) - Stable3Pool.get3 j (Stable3Pool.p_bal p') = s_ret s + s_burnfee s /\
    Stable3Pool.get3 i (Stable3Pool.p_bal p') - Stable3Pool.get3 i (Stable3Pool.p_bal p) = x.
Proof. exact Stable3QuotesProofs.sim3_eq_exec. Qed.

(* StableSwap pair type, both directions, any pair of decimals (the offer asset selects the pools AND the precisions in both paths) *)
Theorem C14_stable_pair_exec_path_is_pool_swap : forall p i x ms, 0 <= x ->
  Stable2Quotes.swap2_exec p i x ms = Stable2Pool.swap2 p i x ms.
Proof. exact Stable2QuotesProofs.swap2_exec_is_swap2. Qed.

Theorem C14_stable_pair_simulation_equals_execution : forall p i x ms p' e, 0 <= x ->
  Stable2Quotes.swap2_exec p i x ms = Ok (p', e) ->
  let j := 1 - i in
  (i = 0 \/ i = 1) /\
  exists s, Stable2Quotes.simulate2 p i x = Ok s /\
    Stable2Pool.get2 j (Stable2Pool.f_user e) = s_ret s /\ Stable2Pool.get2 i (Stable2Pool.f_user e) = - x /\
    Stable2Pool.get2 j (Stable2Pool.f_burned e) = s_burnfee s /\
    Stable2Pool.get2 j (Stable2Pool.q_fee p') - Stable2Pool.get2 j (Stable2Pool.q_fee p) = s_protfee s /\
    Stable2Pool.get2 j (Stable2Pool.q_all p') - Stable2Pool.get2 j (Stable2Pool.q_all p) = s_protfee s /\
    Stable2Pool.get2 j (Stable2Pool.q_burn p') - Stable2Pool.get2 j (Stable2Pool.q_burn p) = s_burnfee s /\
    Stable2Pool.get2 j (Stable2Pool.q_bal p) - Stable2Pool.get2 j (Stable2Pool.q_bal p') = s_ret s + s_burnfee s /\
    Stable2Pool.get2 i (Stable2Pool.q_bal p') - Stable2Pool.get2 i (Stable2Pool.q_bal p) = x.
Proof. exact Stable2QuotesProofs.sim2_eq_exec. Qed.

(* vault: the Share query equals what a withdrawal of that many shares pays (vault machine of the C05/C06 development) *)
Theorem C14_vault_share_equals_withdraw : forall u a st st', Vault.withdraw u a st = Ok st' ->
  exists w, Vault.q_share st a = Ok w /\
            Vault.get (Vault.ab st') u = Vault.get (Vault.ab st) u + w /\
            Vault.get (Vault.ab st') Vault.VAULT = Vault.get (Vault.ab st) Vault.VAULT - w /\
            Vault.get (Vault.lp st') u = Vault.get (Vault.lp st) u - a.
Proof. exact VaultQuotes.share_eq_withdraw. Qed.

Example C14_nonvacuous :
  let s := run the_consts (init false true (mkFees 1000000000000000 3000000000000000 500000000000000) 6 5)
             [Provide 1 2000003 1500001 None None; Swap 2 false 70001 None (Some 500000000000000000) None] in
  (0 <? pf1 s) = true /\
  simulate s true 33333 = Ok (mkSwap 46326 1070 139 46 23) /\
  is_ok (step the_consts s (Swap 1 true 33333 None (Some 500000000000000000) None)) = true.
Proof. vm_compute. repeat split; reflexivity. Qed.


(* non-vacuity for the stable pools: states with a pending protocol fee on the offer asset of the next swap *)
Definition ex14_trio : option Stable3Pool.pool :=
  match Stable3Pool.init_pool 1000 100 (mkFees 1000000000000000 3000000000000000 1000000000000000) (false, true, false) 4 with
  | Ok p => Some (Stable3Pool.run p [Stable3Pool.Provide 0%nat (1000000000, 1000000000, 1000000000); Stable3Pool.Swap 1%nat 0 1 5000000 None])
  | _ => None end.
Example C14_trio_nonvacuous :
  match ex14_trio with
  | Some p => Stable3Pool.p_fee p = (0, 4999, 0) /\
              Stable3Quotes.simulate3 p 1 2 7000000 = Ok (mkSwap 6964987 16 20999 6999 6999) /\
              is_ok (Stable3Quotes.swap_exec p 1 2 7000000 None) = true
  | None => False end.
Proof. vm_compute. repeat split; reflexivity. Qed.

Definition ex14_pair2 : Stable2Pool.pool2 :=
  Stable2Pool.run2 (Stable2Pool.init_pool2 100 (6, 18) (mkFees 1000000000000000 3000000000000000 1000000000000000) (false, true) 4)
    [Stable2Pool.Provide2 0%nat (1000000000, 1000000000000000000000); Stable2Pool.Swap2 1%nat 0 5000000 None].
Example C14_stable_pair_nonvacuous :
  Stable2Pool.q_fee ex14_pair2 = (0, 4999752481435184) /\
  Stable2Quotes.simulate2 ex14_pair2 1 7000000000000000000 = Ok (mkSwap 6965207 0 21000 7000 7000) /\
  is_ok (Stable2Quotes.swap2_exec ex14_pair2 1 7000000000000000000 None) = true.
Proof. vm_compute. repeat split; reflexivity. Qed.

Print Assumptions C14_pair_simulation_equals_execution.
Print Assumptions C14_router_simulation_equals_execution.
Print Assumptions C14_refuted_route_revisits_pool.
Print Assumptions C14_vault_share_equals_withdraw.
Print Assumptions C14_trio_exec_path_is_pool_swap.
Print Assumptions C14_trio_simulation_equals_execution.
Print Assumptions C14_stable_pair_exec_path_is_pool_swap.
Print Assumptions C14_stable_pair_simulation_equals_execution.
