(* C14 — quotes are honest: simulation equals execution (statements only).
   Pair: `simulate` transcribes queries::query_simulation (reserves = balance - pending fee, from the state BEFORE the
   offer arrives); `swap` transcribes commands::swap (balance already containing the offer, minus pending fee, minus
   offer, in the code's order, with its checked subtractions). Router and vault: see Router / Vault developments. *)
From WW Require Import Prim CPSwap Slippage CP CPInst Router.
From WW.Proofs Require Import ArithLemmas CPSwapProofs ListLemmas CPProofs SlippageProofs QuotesProofs RouterProofs.
From WW Require Vault.
From WW.Proofs Require VaultQuotes.

Theorem C14_pair_simulation_equals_execution : forall s who dir x b m to s' p, reachable s ->
  step the_consts s (Swap who dir x b m to) = Ok (s', p) ->
  simulate s dir x = Ok (mkSwap (p_ret p) (p_spread p) (p_swapfee p) (p_protfee p) (p_burnfee p)) /\
  (if dir then bal0 s - bal0 s' = p_ret p + p_burnfee p /\ pf0 s' - pf0 s = p_protfee p /\ bu0 s' - bu0 s = p_burnfee p /\ bal1 s' - bal1 s = x
   else bal1 s - bal1 s' = p_ret p + p_burnfee p /\ pf1 s' - pf1 s = p_protfee p /\ bu1 s' - bu1 s = p_burnfee p /\ bal0 s' - bal0 s = x).
Proof. exact sim_eq_exec. Qed.

(* native and cw20 offers take the same path in the model: the asset kind of the OFFER never enters `swap` *)

(* Router, any number of hops. Known class `route_revisits_pool` (see known_findings.json): a route passing twice through
   the same pair is simulated against stale state. For every other route - each hop through a different pair, pools in any
   reachable state (Inv), nothing donated to the router beforehand - the simulation equals what the receiver gets. *)
Theorem C14_router_simulation_equals_execution : forall pools hops offer ms minrecv pools' out,
  Forall (Inv the_consts) pools -> ~ Known_route_revisits_pool hops ->
  router_swap the_consts pools hops offer [] ms minrecv = Ok (pools', out) ->
  router_simulate pools hops offer = Ok out.
Proof. exact router_sim_eq_exec_unless_known. Qed.

Theorem C14_refuted_route_revisits_pool :
  exists pools' out simout,
    router_swap the_consts [rv_pool] [(0%nat, false); (0%nat, true)] 100000 [] (Some (DEC / 2)) None = Ok (pools', out) /\
    router_simulate [rv_pool] [(0%nat, false); (0%nat, true)] 100000 = Ok simout /\ simout <> out.
Proof. exact route_revisit_refuted. Qed.

Definition ex_p0 := run the_consts (init false false (mkFees 1000000000000000 3000000000000000 0) 3 2) [Provide 1 5000000 4000000 None None].
Definition ex_p1 := run the_consts (init false false (mkFees 0 2000000000000000 1000000000000000) 3 2) [Provide 1 3000000 9000000 None None].
Example C14_router_nonvacuous :
  Forall (Inv the_consts) [ex_p0; ex_p1] /\ ~ Known_route_revisits_pool [(0%nat, false); (1%nat, false)] /\
  match router_swap the_consts [ex_p0; ex_p1] [(0%nat, false); (1%nat, false)] 70000 [] (Some (DEC / 2)) (Some 100) with
  | Ok (_, out) => (100 <? out) = true /\ router_simulate [ex_p0; ex_p1] [(0%nat, false); (1%nat, false)] 70000 = Ok out
  | _ => False end.
Proof.
  split; [|split].
  - constructor; [|constructor; [|constructor]];
      (eapply run_inv; [apply the_minliq_pos|apply inv_init; [vm_compute; repeat split; congruence|lia]]).
  - intro H. apply H. cbn. repeat constructor; cbn; intuition congruence.
  - vm_compute. split; reflexivity.
Qed.

(* vault: the Share query equals what a withdrawal of that many shares pays (vault machine of the C05/C06 development) *)
Theorem C14_vault_share_equals_withdraw : forall u a st st', Vault.withdraw u a st = Ok st' ->
  exists w, Vault.q_share st a = Ok w /\
            Vault.get (Vault.ab st') u = Vault.get (Vault.ab st) u + w /\
            Vault.get (Vault.ab st') Vault.VAULT = Vault.get (Vault.ab st) Vault.VAULT - w /\
            Vault.get (Vault.lp st') u = Vault.get (Vault.lp st) u - a.
Proof. exact VaultQuotes.share_eq_withdraw. Qed.

Example C14_nonvacuous :
  let s := run the_consts (init false true (mkFees 1000000000000000 3000000000000000 500000000000000) 6 5)
             [Provide 1 2000003 1500001 None None; Swap 2 false 70001 None (Some 500000000000000000) None] in
  (0 <? pf1 s) = true /\
  simulate s true 33333 = Ok (mkSwap 46326 1070 139 46 23) /\
  is_ok (step the_consts s (Swap 1 true 33333 None (Some 500000000000000000) None)) = true.
Proof. vm_compute. repeat split; reflexivity. Qed.

Print Assumptions C14_pair_simulation_equals_execution.
Print Assumptions C14_router_simulation_equals_execution.
Print Assumptions C14_refuted_route_revisits_pool.
Print Assumptions C14_vault_share_equals_withdraw.
