(* C12 — incentive flows are fully funded and fully returned.
   Only statements, `exact <lemma>`, non-vacuity examples and Print Assumptions live here.
   Model: theories/Incentive.v at version v_fixed (the code with the four `fix:` commits of this property);
   the `_refuted` theorems are about the code as found (one repair switched off each).
   Hypotheses: `well_formed c h` = the fee collector is not the contract itself; callers are not the contract; amounts are
   unsigned; attached funds are bank coins (non-negative, distinct native denoms). `Inv` = the funding invariant, which holds
   in every state reachable from instantiation (C12_reachable).                                                              *)
From WW Require Import Prim Params Incentive.
From WW.Proofs Require Import IncentiveLedger IncentiveFlows IncentiveInv IncentiveC12.

(* flow_cover: for every asset the contract's balance covers funded - claimed of all its flows
   (plus, for the LP asset, the staked positions), after any history *)
Theorem C12_flow_cover : forall c h e b,
  well_formed c h -> (forall a, 0 <= b SELF a) ->
  let st := run_history v_fixed c (init_state e b) h in
  forall a, flows_out a (s_flows st) + (if a =? c_lp c then staked st else 0) <= s_bal st SELF a.
Proof. exact flow_cover. Qed.

Theorem C12_reachable : forall c h e b,
  well_formed c h -> (forall a, 0 <= b SELF a) -> Inv c (run_history v_fixed c (init_state e b) h).
Proof. exact reachable_inv. Qed.

Theorem C12_step_preserves : forall c st o st2,
  cfg_wf c -> op_wf o -> Inv c st -> step v_fixed c st o = Ok st2 -> Inv c st2.
Proof. exact step_inv. Qed.

(* claims never exceed the funded amount *)
Theorem C12_claims_le_funded : forall c h e b,
  well_formed c h -> (forall a, 0 <= b SELF a) ->
  Forall (fun f => f_claimed f <= flow_funded f) (s_flows (run_history v_fixed c (init_state e b) h)).
Proof. exact claims_le_funded. Qed.

(* opening a flow: funded = tokens received by the contract; the fee goes to the collector *)
Theorem C12_open_funds : forall c st sender fs al so eo asset amount label st',
  cfg_wf c -> op_wf (OpenFlow sender fs al so eo asset amount label) -> Inv c st ->
  step v_fixed c st (OpenFlow sender fs al so eo asset amount label) = Ok st' ->
  exists f,
    s_flows st' = flows_insert f (s_flows st) /\ f_id f = s_counter st + 1 /\ ~ In (f_id f) (map f_id (s_flows st)) /\
    f_creator f = sender /\ f_asset f = asset /\ f_claimed f = 0 /\
    flow_funded f = s_bal st' SELF asset - s_bal st SELF asset /\
    (forall s, s_bal st SELF s <= s_bal st' SELF s \/ s = asset) /\
    (forall x s, x <> SELF -> x <> sender ->
       s_bal st' x s = s_bal st x s + if (x =? c_collector c) && (s =? c_fee_asset c) then c_fee c else 0).
Proof. exact open_funds. Qed.

(* expanding a flow: funded - claimed grows by exactly the tokens received *)
Theorem C12_expand_funds : forall c st sender fs al x eo asset amount st',
  cfg_wf c -> op_wf (ExpandFlow sender fs al x eo asset amount) -> Inv c st ->
  step v_fixed c st (ExpandFlow sender fs al x eo asset amount) = Ok st' ->
  exists f f2,
    find_flow x (s_flows st) = Some f /\ f_asset f = asset /\
    s_flows st' = flows_insert f2 (flows_remove (f_start f) (f_id f) (s_flows st)) /\
    f_id f2 = f_id f /\ f_creator f2 = f_creator f /\ f_asset f2 = asset /\
    flow_out f2 = flow_out f + amount /\
    s_bal st' SELF asset = s_bal st SELF asset + amount /\
    (forall s, s_bal st SELF s <= s_bal st' SELF s) /\
    (forall x s, x <> SELF -> x <> sender -> s_bal st' x s = s_bal st x s).
Proof. exact expand_funds. Qed.

(* closing a flow: exactly funded - claimed goes to the creator, the flow is removed, only creator or factory owner *)
Theorem C12_close_returns : forall c st sender x st',
  cfg_wf c -> sender <> SELF -> Inv c st ->
  step v_fixed c st (CloseFlow sender x) = Ok st' ->
  exists f,
    find_flow x (s_flows st) = Some f /\
    (sender = f_creator f \/ sender = c_owner c) /\
    s_flows st' = flows_remove (f_start f) (f_id f) (s_flows st) /\
    ~ In (f_id f) (map f_id (s_flows st')) /\
    (forall a, flows_out a (s_flows st') = flows_out a (s_flows st) - fout a f) /\
    s_bal st' (f_creator f) (f_asset f) = s_bal st (f_creator f) (f_asset f) + (flow_funded f - f_claimed f) /\
    s_bal st' SELF (f_asset f) = s_bal st SELF (f_asset f) - (flow_funded f - f_claimed f) /\
    (forall y s, (y <> SELF /\ y <> f_creator f) \/ s <> f_asset f -> s_bal st' y s = s_bal st y s).
Proof. exact close_returns. Qed.

Theorem C12_close_auth : forall c st sender x f,
  find_flow x (s_flows st) = Some f -> sender <> f_creator f -> sender <> c_owner c ->
  forall v, step v c st (CloseFlow sender x) = Err E_UNAUTH.
Proof. exact close_auth. Qed.

(* a claim pays exactly the increase of the claimed amounts, to the claimer, out of the contract; funding untouched *)
Theorem C12_claim_conserves : forall c st sender st',
  sender <> SELF -> step v_fixed c st (Claim sender) = Ok st' ->
  Forall2 (fun f g => same_frame f g /\ flow_funded g = flow_funded f) (s_flows st) (s_flows st') /\
  (forall a, s_bal st SELF a - s_bal st' SELF a = flows_out a (s_flows st) - flows_out a (s_flows st')) /\
  (forall a, s_bal st' sender a - s_bal st sender a = flows_out a (s_flows st) - flows_out a (s_flows st')) /\
  (forall y a, y <> SELF -> y <> sender -> s_bal st' y a = s_bal st y a).
Proof. exact claim_conserves. Qed.

(* ---- the defects of the code as found (each witness is also a corpus history of harness/src/c12.rs) ------------------ *)
Theorem C12_refuted_open_unfunded : exists c h, well_formed c h /\ ~ cover_at v_no_open_eq c h.
Proof. exact open_funds_refuted. Qed.
Theorem C12_refuted_close_ignores_expansion :
  exists c h f st',
    well_formed c h /\
    let st := run_history v_no_close_hist c (init_state 1 b0) h in
    find_flow (ById 1) (s_flows st) = Some f /\ step v_no_close_hist c st (CloseFlow 1 (ById 1)) = Ok st' /\
    s_bal st' (f_creator f) (f_asset f) < s_bal st (f_creator f) (f_asset f) + (flow_funded f - f_claimed f).
Proof. exact close_returns_refuted. Qed.
Theorem C12_refuted_reset_amount : exists c h, well_formed c h /\ ~ cover_at v_no_reset_own c h.
Proof. exact reset_refuted. Qed.
Theorem C12_refuted_expand_cw20_not_pulled : exists c h, well_formed c h /\ ~ cover_at v_no_expand_pull c h.
Proof. exact expand_cw20_refuted. Qed.

(* ---- non-vacuity: concrete histories meeting the hypotheses, reaching non-trivial states ---------------------------- *)
Definition st_rich : state := run_history v_fixed (cfg0 3 0) (init_state 1 b0) h_rich.

(* flow_cover / reachable / claims_le_funded: two flows, one expanded, claims paid, staked positions *)
Example C12_flow_cover_nonvacuous :
  well_formed (cfg0 3 0) h_rich /\ (forall a, 0 <= b0 SELF a) /\
  map (fun f => (f_id f, f_asset f, flow_funded f, f_claimed f)) (s_flows st_rich) = [(1, 11, 1334333, 255135); (2, 0, 500000, 71426)] /\
  staked st_rich = 12000 /\ s_bal st_rich SELF 11 = 1079198 /\ s_bal st_rich SELF 0 = 428574 /\ s_bal st_rich SELF 3 = 12000.
Proof. split; [wf_history|]. split; [intros; unfold b0; cbn; lia|]. vm_compute. repeat split; reflexivity. Qed.

(* step_preserves / open_funds: an accepted OpenFlow in the fee denom on top of that state *)
Example C12_open_funds_nonvacuous :
  let o := OpenFlow 4 [(0, 78000)] [] None (Some 9) 0 78000 None in
  cfg_wf (cfg0 3 0) /\ op_wf o /\ Inv (cfg0 3 0) st_rich /\ is_ok (step v_fixed (cfg0 3 0) st_rich o) = true.
Proof.
  cbn zeta. split; [unfold cfg_wf; cbn; discriminate|]. split; [wf_op|].
  split; [apply reachable_inv; [wf_history|intros; unfold b0; cbn; lia]|]. vm_compute. reflexivity.
Qed.

Example C12_expand_funds_nonvacuous :
  let o := ExpandFlow 3 [(0, 5)] [] (ByLabel 7) None 0 5 in
  op_wf o /\ is_ok (step v_fixed (cfg0 3 0) st_rich o) = true.
Proof. cbn zeta. split; [wf_op|]. vm_compute. reflexivity. Qed.

(* close_returns: the creator of the expanded, partly claimed flow closes it and receives 1334333 - 255135 *)
Example C12_close_returns_nonvacuous :
  exists st', step v_fixed (cfg0 3 0) st_rich (CloseFlow 1 (ById 1)) = Ok st' /\
    s_bal st' 1 11 - s_bal st_rich 1 11 = 1079198 /\ map f_id (s_flows st') = [2].
Proof. eexists. split; [vm_compute; reflexivity|]. vm_compute. split; reflexivity. Qed.

(* close_auth: carol is neither the creator (alice) nor the owner *)
Example C12_close_auth_nonvacuous :
  exists f, find_flow (ById 1) (s_flows st_rich) = Some f /\ 3 <> f_creator f /\ 3 <> c_owner (cfg0 3 0).
Proof. eexists. split; [vm_compute; reflexivity|]. cbn. split; discriminate. Qed.

(* claim_conserves: after one more epoch bob's claim pays out of both flows *)
Example C12_claim_conserves_nonvacuous :
  exists st', step v_fixed (cfg0 3 0) (run_history v_fixed (cfg0 3 0) st_rich [NewEpoch; Snapshot]) (Claim 2) = Ok st' /\
    map f_claimed (s_flows st') = [262002; 75890].
Proof. eexists. split; [vm_compute; reflexivity|]. vm_compute. reflexivity. Qed.

Print Assumptions C12_flow_cover.
Print Assumptions C12_reachable.
Print Assumptions C12_step_preserves.
Print Assumptions C12_claims_le_funded.
Print Assumptions C12_open_funds.
Print Assumptions C12_expand_funds.
Print Assumptions C12_close_returns.
Print Assumptions C12_close_auth.
Print Assumptions C12_claim_conserves.
Print Assumptions C12_refuted_open_unfunded.
Print Assumptions C12_refuted_close_ignores_expansion.
Print Assumptions C12_refuted_reset_amount.
Print Assumptions C12_refuted_expand_cw20_not_pulled.
