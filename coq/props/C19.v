From WW Require Import Prim Registry.
Theorem C19_placeholder : True. Proof. exact I. Qed.
Print Assumptions C19_placeholder.
