(* C19 — factories and router: one child per asset set; the registry tells the truth; remove / re-create; pagination;
   routes only over registered pairs.
   Only statements, `exact <lemma>`, non-vacuity examples and Print Assumptions live here.
   Model: theories/Registry.v (byte-level keys exactly as state.rs builds them; registries = association lists sorted by the byte
   order of cw-storage-plus; the exclusive `key ++ [1]` cursor; TMP item + reply collapsed into one transactional step).
   Two clauses of the property do NOT hold for arbitrary asset bytes; the proofs force the hypotheses `unambiguous2` and
   `cursor_safe`, both violations were constructed on the real factory (known findings registry_key_concatenation_ambiguous and
   pagination_cursor_skips_key_extension) and are refuted below on the model of the code as it is. *)
From WW Require Import Prim Corr Registry.
From WW.Proofs Require Import RegistryProofs.

(* the key of an asset set does not depend on the order of the assets: 2! and 3! permutations *)
Theorem C19_key_perm_invariant_pair : forall a b, pair_key a b = pair_key b a.
Proof. exact pair_key_comm. Qed.
Theorem C19_key_perm_invariant_trio : forall a b c,
  trio_key a c b = trio_key a b c /\ trio_key b a c = trio_key a b c /\ trio_key b c a = trio_key a b c /\
  trio_key c a b = trio_key a b c /\ trio_key c b a = trio_key a b c.
Proof. exact trio_key_perm. Qed.
Theorem C19_lookup_order_independent : forall U s a b, lookup_pair U s a b = lookup_pair U s b a.
Proof. exact lookup_pair_order. Qed.
Theorem C19_lookup_trio_order_independent : forall U s a b c y, trio_perm (a, b, c) y ->
  (let '(p, q, r) := y in lookup_trio U s p q r) = lookup_trio U s a b c.
Proof. exact lookup_trio_order. Qed.

(* the invariant (registries sorted by key, every entry filed under the key of its own assets) holds after ANY history *)
Theorem C19_invariant_all_histories : forall U ops, inv U (run U init_state ops).
Proof. exact reachable_inv. Qed.

(* at most one child per asset set, in all four registries, whatever the order of the assets *)
Theorem C19_at_most_one_pair_per_set : forall U s k1 e1 k2 e2, inv U s ->
  In (k1, e1) (pairs s) -> In (k2, e2) (pairs s) -> same_set2 (pair_set e1) (pair_set e2) -> k1 = k2 /\ e1 = e2.
Proof. exact at_most_one_pair_per_set. Qed.
Theorem C19_at_most_one_trio_per_set : forall U s k1 e1 k2 e2, inv U s ->
  In (k1, e1) (trios s) -> In (k2, e2) (trios s) ->
  trio_perm (te_a e1, te_b e1, te_c e1) (te_a e2, te_b e2, te_c e2) -> k1 = k2 /\ e1 = e2.
Proof. exact at_most_one_trio_per_set. Qed.
Theorem C19_at_most_one_vault_per_asset : forall U s k1 e1 k2 e2, inv U s ->
  In (k1, e1) (vaults s) -> In (k2, e2) (vaults s) -> ce_a e1 = ce_a e2 -> k1 = k2 /\ e1 = e2.
Proof. exact at_most_one_vault_per_asset. Qed.
Theorem C19_at_most_one_incentive_per_asset : forall U s k1 e1 k2 e2, inv U s ->
  In (k1, e1) (incentives s) -> In (k2, e2) (incentives s) -> ce_a e1 = ce_a e2 -> k1 = k2 /\ e1 = e2.
Proof. exact at_most_one_incentive_per_asset. Qed.
Theorem C19_duplicate_pair_rejected : forall U s k e a b, inv U s -> In (k, e) (pairs s) -> same_set2 (pair_set e) (a, b) ->
  is_ok (step U s (CreatePair a b)) = false.
Proof. exact duplicate_pair_rejected. Qed.

(* the registry tells the truth. FULL statements (no hypothesis on the asset bytes): *)
Definition C19_lookup_sound_full_statement : Prop := forall U s a b e, inv U s ->
  lookup_pair U s a b = Some e -> same_set2 (pair_set e) (a, b).
Definition C19_pagination_full_statement : Prop := forall U ops n, (1 <= n)%nat ->
  all_pages n (pairs (run U init_state ops)) = pairs (run U init_state ops).
(* both are refuted by the code as it is (witnesses replayed on the real factory by the harness) *)
Theorem C19_refuted_registry_key_concatenation_ambiguous :
  let s := run U_ambiguous init_state [CreatePair 0 1] in
  pkey U_ambiguous 0 1 = pkey U_ambiguous 2 3 /\
  lookup_pair U_ambiguous s 2 3 = Some (mkPairE 0 1 0) /\
  is_ok (step U_ambiguous s (CreatePair 2 3)) = false /\
  ~ unambiguous2 U_ambiguous.
Proof. exact refuted_registry_key_concatenation_ambiguous. Qed.
Theorem C19_lookup_sound_full_statement_refuted : ~ C19_lookup_sound_full_statement.
Proof.
  intro H. specialize (H U_ambiguous (run U_ambiguous init_state [CreatePair 0 1]) 2 3 (mkPairE 0 1 0) (reachable_inv _ _) eq_refl).
  destruct H as [[H _]|[H _]]; cbn in H; discriminate.
Qed.
Theorem C19_refuted_pagination_cursor_skips_key_extension :
  let s := run U_cursor init_state [CreatePair 0 1; CreatePair 0 2] in
  length (pairs s) = 2%nat /\ length (all_pages 1 (pairs s)) = 1%nat /\ ~ cursor_safe (map fst (pairs s)).
Proof. exact refuted_pagination_cursor_skips_key_extension. Qed.
Theorem C19_pagination_full_statement_refuted : ~ C19_pagination_full_statement.
Proof.
  intro H. specialize (H U_cursor [CreatePair 0 1; CreatePair 0 2] 1%nat (le_n 1)).
  apply (f_equal (@length _)) in H. vm_compute in H. discriminate.
Qed.

(* ... and hold whenever the known signatures are absent *)
Theorem C19_lookup_pair_sound : forall U s a b e, inv U s -> unambiguous2 U ->
  lookup_pair U s a b = Some e -> same_set2 (pair_set e) (a, b) /\ In (pkey U a b, e) (pairs s).
Proof. exact lookup_pair_sound. Qed.
Theorem C19_fresh_pair_created : forall U s a b, inv U s -> unambiguous2 U ->
  in_universe U a = true -> in_universe U b = true -> a <> b ->
  (forall k e, In (k, e) (pairs s) -> ~ same_set2 (pair_set e) (a, b)) ->
  exists s', step U s (CreatePair a b) = Ok s' /\ lookup_pair U s' a b = Some (mkPairE a b (tick s)) /\ lookup_pair U s' b a = Some (mkPairE a b (tick s)).
Proof. exact fresh_pair_created. Qed.

Theorem C19_pagination_partition : forall U ops n, (1 <= n)%nat ->
  let s := run U init_state ops in
  (cursor_safe (map fst (pairs s)) -> all_pages n (pairs s) = pairs s) /\
  (cursor_safe (map fst (trios s)) -> all_pages n (trios s) = trios s) /\
  (cursor_safe (map fst (vaults s)) -> all_pages n (vaults s) = vaults s) /\
  (cursor_safe (map fst (incentives s)) -> all_pages n (incentives s) = incentives s) /\
  NoDup (map fst (pairs s)) /\ NoDup (map fst (trios s)) /\ NoDup (map fst (vaults s)) /\ NoDup (map fst (incentives s)).
Proof. exact pagination_partition_reachable. Qed.

(* a created entry records the request (assets as given, key of the set, creating operation); the harness compares each entry with
   the child contract's own answer on every operation *)
Theorem C19_entry_matches_request : forall U s a b s', inv U s -> step U s (CreatePair a b) = Ok s' ->
  lookup_pair U s' a b = Some (mkPairE a b (tick s)) /\ lookup_pair U s' b a = Some (mkPairE a b (tick s)) /\
  In (pkey U a b, mkPairE a b (tick s)) (pairs s') /\ a <> b.
Proof. exact entry_matches_request. Qed.

(* a removed entry disappears from lookups and listings and can be created again (any order of the assets); nothing else moves *)
Theorem C19_remove_then_recreate_pair : forall U s k e a b x y, inv U s -> In (k, e) (pairs s) ->
  same_set2 (pair_set e) (a, b) -> same_set2 (a, b) (x, y) -> in_universe U x = true -> in_universe U y = true -> x <> y ->
  exists s1, step U s (RemovePair a b) = Ok s1 /\
    lookup_pair U s1 a b = None /\ lookup_pair U s1 b a = None /\ ~ In (k, e) (pairs s1) /\
    (forall k', k' <> pkey U a b -> reg_get k' (pairs s1) = reg_get k' (pairs s)) /\
    exists s2, step U (bump s1) (CreatePair x y) = Ok s2 /\
      lookup_pair U s2 a b = Some (mkPairE x y (tick s + 1)) /\
      (forall k', k' <> pkey U a b -> reg_get k' (pairs s2) = reg_get k' (pairs s)).
Proof. exact remove_then_recreate_pair. Qed.
Theorem C19_remove_then_recreate_vault : forall U s k e a, inv U s -> In (k, e) (vaults s) -> ce_a e = a -> in_universe U a = true ->
  exists s1, step U s (RemoveVault a) = Ok s1 /\ lookup_vault U s1 a = None /\ ~ In (k, e) (vaults s1) /\
    exists s2, step U (bump s1) (CreateVault a) = Ok s2 /\ lookup_vault U s2 a = Some (mkChildE a (tick s + 1)).
Proof. exact remove_then_recreate_vault. Qed.

(* the router stores a route only if every hop is a registered pair, keeps one route per (offer, ask), and executes a hop only
   through the pair the factory names *)
Theorem C19_routes_only_registered : forall U s offer ask hops s', step U s (AddRoute offer ask hops) = Ok s' ->
  hops <> [] /\ (forall a b, In (a, b) hops -> exists e, lookup_pair U s a b = Some e) /\
  In (mkRoute offer ask hops) (routes s') /\ pairs s' = pairs s.
Proof. exact routes_only_registered. Qed.
Theorem C19_hop_only_through_registered : forall U s a b s', step U s (ExecHop a b) = Ok s' ->
  exists e, lookup_pair U s a b = Some e /\ (pe_a e = a \/ pe_b e = a) /\ s' = s.
Proof. exact hop_only_through_registered. Qed.
Theorem C19_at_most_one_route : forall U s offer ask hops s', step U s (AddRoute offer ask hops) = Ok s' ->
  forall r, In r (routes s') -> route_eqb offer ask r = true -> r = mkRoute offer ask hops.
Proof. exact at_most_one_route. Qed.
Theorem C19_rejected_frame : forall U s o, is_ok (step U s o) = false ->
  let s' := next U s o in pairs s' = pairs s /\ trios s' = trios s /\ vaults s' = vaults s /\ incentives s' = incentives s /\ routes s' = routes s.
Proof. exact rejected_frame. Qed.

(* non-vacuity: uwhale, uusdc, uatom — create in one order, duplicate in the other, remove, re-create, walk the pages one by one *)
Definition U_example : universe :=
  [ mkAsset [117;119;104;97;108;101] [117;119;104;97;108;101]; mkAsset [117;117;115;100;99] [117;117;115;100;99]; mkAsset [117;97;116;111;109] [117;97;116;111;109] ].
Example C19_nonvacuous :
  let ops := [CreatePair 0 1; CreatePair 1 0; CreatePair 2 0; CreatePair 1 2; RemovePair 1 0; CreatePair 1 0; AddRoute 0 2 [(0, 2)]; AddRoute 0 1 [(0, 1); (1, 1)]] in
  let s := run U_example init_state ops in
  map (fun p => pair_obs (snd p)) (pairs s) = [[1; 2; 3]; [2; 0; 2]; [1; 0; 5]] /\
  cursor_safeb (map fst (pairs s)) = true /\
  all_pages 1 (pairs s) = pairs s /\ all_pages 2 (pairs s) = pairs s /\
  lookup_pair U_example s 0 1 = Some (mkPairE 1 0 5) /\
  map r_hops (routes s) = [[(0, 2)]] /\
  is_ok (step U_example s (CreatePair 0 1)) = false /\ is_ok (step U_example s (ExecHop 2 1)) = true /\
  (forall a b c d, In a [0;1;2] -> In b [0;1;2] -> In c [0;1;2] -> In d [0;1;2] -> pkey U_example a b = pkey U_example c d -> same_set2 (a, b) (c, d)).
Proof.
  do 8 (split; [vm_compute; reflexivity|]).
  intros a b c d Ha Hb Hc Hd. cbn in Ha, Hb, Hc, Hd.
  destruct Ha as [<-|[<-|[<-|[]]]]; destruct Hb as [<-|[<-|[<-|[]]]]; destruct Hc as [<-|[<-|[<-|[]]]]; destruct Hd as [<-|[<-|[<-|[]]]];
    vm_compute; intro H; try discriminate H; try (left; split; reflexivity); try (right; split; reflexivity).
Qed.

Print Assumptions C19_key_perm_invariant_pair.
Print Assumptions C19_key_perm_invariant_trio.
Print Assumptions C19_lookup_order_independent.
Print Assumptions C19_lookup_trio_order_independent.
Print Assumptions C19_invariant_all_histories.
Print Assumptions C19_at_most_one_pair_per_set.
Print Assumptions C19_at_most_one_trio_per_set.
Print Assumptions C19_at_most_one_vault_per_asset.
Print Assumptions C19_at_most_one_incentive_per_asset.
Print Assumptions C19_duplicate_pair_rejected.
Print Assumptions C19_refuted_registry_key_concatenation_ambiguous.
Print Assumptions C19_lookup_sound_full_statement_refuted.
Print Assumptions C19_refuted_pagination_cursor_skips_key_extension.
Print Assumptions C19_pagination_full_statement_refuted.
Print Assumptions C19_lookup_pair_sound.
Print Assumptions C19_fresh_pair_created.
Print Assumptions C19_pagination_partition.
Print Assumptions C19_entry_matches_request.
Print Assumptions C19_remove_then_recreate_pair.
Print Assumptions C19_remove_then_recreate_vault.
Print Assumptions C19_routes_only_registered.
Print Assumptions C19_hop_only_through_registered.
Print Assumptions C19_at_most_one_route.
Print Assumptions C19_rejected_frame.
