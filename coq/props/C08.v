(* C08 — whale_lair: every bonded token is bonded, unbonding, or back with its owner.
   Model: theories/Lair.v (the code AFTER the fix: commit; `run false` is the code before it).
   Only statements, `exact <lemma>`, non-vacuity examples and Print Assumptions live here. *)
From WW Require Import Prim Params Lair.
From WW.Proofs Require Import ArithLemmas LairProofs.

(* For every configuration c, every history h (any users, denoms, amounts, block times — equal times included —,
   guards answering anything, calls that are rejected or abort included) and every denom d:
   the contract's bank balance = bonded + pending unbondings (+ what was donated to it outside Bond). *)
Theorem C08_conservation : forall c h d,
  let s := run true c h in
  zget d (bal s) = bsum d (bonds s) + usum d (unbonds s) + donated_total d (effects true c h).
Proof. exact lair_conservation. Qed.

Theorem C08_conservation_plain : forall c h d, no_donations h = true ->
  let s := run true c h in zget d (bal s) = bsum d (bonds s) + usum d (unbonds s).
Proof. exact lair_conservation_plain. Qed.

(* GLOBAL.bonded_amount = sum of all bonds; GLOBAL.bonded_assets[d] = sum of the bonds in d *)
Theorem C08_global_eq_sum : forall c h,
  let s := run true c h in
  g_amt s = btotal (bonds s) /\ forall d, zget d (g_assets s) = bsum d (bonds s).
Proof. exact lair_global_eq_sum. Qed.

(* everything an address ever unbonded in a denom is either still pending for it or was paid out to it: nothing is
   lost and nothing is paid twice *)
Theorem C08_unbond_accounting : forall c h who d,
  unbonded_total who d (effects true c h) = pending who d (run true c h) + paid_total who d (effects true c h).
Proof. exact lair_unbond_accounting. Qed.

(* an accepted Withdraw pays the caller exactly the records it removes; those are the caller's own records of that denom
   and their unbonding period has elapsed; nobody else's pending amount and no bond moves; no matured record is left
   behind (unless the caller holds more than MAX_PAGE_LIMIT records) *)
Theorem C08_withdraw_exact : forall c now s who d s' f,
  withdraw_step c now s who d = Ok (s', f) ->
  (forall e, In e (unbonds s') -> In e (unbonds s)) /\
  (forall e, In e (unbonds s) -> ~ In e (unbonds s') -> umatch who d (fst e) = true /\ uts (fst e) + c_period c <= now) /\
  ((nmatch who d (unbonds s) <= PAGE)%nat ->
     forall e, In e (unbonds s') -> umatch who d (fst e) = true -> now < uts (fst e) + c_period c) /\
  exists x, f = EPay who d x /\ 0 < x /\ x = pending who d s - pending who d s' /\
    (forall a dq, (a =? who) && (dq =? d) = false -> pending a dq s' = pending a dq s) /\
    bonds s' = bonds s.
Proof. exact lair_withdraw_exact. Qed.

(* reachable states are Good, and in a Good state a matured record is withdrawable by its owner, in full *)
Theorem C08_good_reachable : forall c h, Forall wf_event h -> Good (run true c h).
Proof. exact lair_good_reachable. Qed.

Theorem C08_withdraw_live : forall c now s who d e,
  Good s -> In e (unbonds s) -> umatch who d (fst e) = true -> uts (fst e) + c_period c <= now -> 0 <= c_period c ->
  (nmatch who d (unbonds s) <= PAGE)%nat -> pending who d s < P128 ->
  exists s' x, withdraw_step c now s who d = Ok (s', EPay who d x) /\ snd e <= x.
Proof. exact lair_withdraw_live. Qed.

(* only whitelisted native assets can be bonded, and only such are ever recorded *)
Theorem C08_bond_only_whitelisted : forall c now s who native d amt funds guard s' f,
  step true c now s (Bond who native d amt funds guard) = Ok (s', f) ->
  native = true /\ In d (c_whitelist c) /\ funds = [(d, amt)] /\ amt <> 0 /\ guard = false.
Proof. exact lair_bond_only_whitelisted. Qed.

Theorem C08_only_whitelisted_held : forall c h, Listed c (run true c h).
Proof. exact lair_only_whitelisted_held. Qed.

(* the defect repaired by the fix: commit — bond 10, unbond 3 and unbond 4 in one block: the old code keeps one
   record of 4, bonded 3, balance 10 (3 units orphaned); the fixed code keeps a record of 7 *)
Theorem C08_unfixed_code_refuted :
  let s := run false c08_cfg c08_witness in
  zget 0 (bal s) = 10 /\ bsum 0 (bonds s) = 3 /\ usum 0 (unbonds s) = 4 /\
  zget 0 (bal s) <> bsum 0 (bonds s) + usum 0 (unbonds s) + donated_total 0 (effects false c08_cfg c08_witness) /\
  unbonded_total 0 0 (effects false c08_cfg c08_witness) = 7 /\
  (let s' := run true c08_cfg c08_witness in usum 0 (unbonds s') = 7 /\ bsum 0 (bonds s') = 3 /\ zget 0 (bal s') = 10).
Proof. exact lair_unfixed_refuted. Qed.

(* ---- non-vacuity ------------------------------------------------------------------------------ *)
Definition nv_cfg : cfg := mkCfg 1000 DEC [0; 1].
Definition nv_hist : list event :=
  [ (2000000000, Bond 0 true 0 1000 [(0, 1000)] false);
    (2000000000, Bond 1 true 1 777 [(1, 777)] false);
    (5000000000, Unbond 0 true 0 300 false);
    (5000000000, Unbond 0 true 0 44 false);        (* same block, same key *)
    (5000000000, Unbond 1 true 1 777 true);        (* rejected by a guard *)
    (5000000500, Withdraw 0 0);                    (* too early: rejected *)
    (5000001000, Withdraw 0 0);                    (* pays 344 *)
    (5000001000, Donate 0 5);
    (6000000000, Unbond 0 true 0 6 false) ].

(* the history is accepted where it should be: 2 bonds, 3 unbonds, one payout of 344, a donation; all quantities non-zero *)
Example C08_nonvacuous :
  Forall wf_event nv_hist /\
  effects true nv_cfg nv_hist =
    [EBond 0 0 1000; EBond 1 1 777; EUnbond 0 0 300; EUnbond 0 0 44; EPay 0 0 344; EDonate 0 5; EUnbond 0 0 6] /\
  (let s := run true nv_cfg nv_hist in
   zget 0 (bal s) = 661 /\ bsum 0 (bonds s) = 650 /\ usum 0 (unbonds s) = 6 /\ g_amt s = 1427 /\ pending 0 0 s = 6).
Proof.
  split; [repeat constructor; cbn; lia|]. split; [vm_compute; reflexivity|]. vm_compute. repeat split; reflexivity.
Qed.

(* the hypotheses of C08_withdraw_live / C08_withdraw_exact are met by a concrete reachable state *)
Example C08_withdraw_nonvacuous :
  let s := run true nv_cfg (firstn 5 nv_hist) in
  let e := ((0, 0, 5000000000), 344) in
  Good s /\ In e (unbonds s) /\ umatch 0 0 (fst e) = true /\ uts (fst e) + c_period nv_cfg <= 5000001000 /\
  (nmatch 0 0 (unbonds s) <= PAGE)%nat /\ pending 0 0 s < P128 /\
  exists s', withdraw_step nv_cfg 5000001000 s 0 0 = Ok (s', EPay 0 0 344).
Proof.
  cbn zeta. split.
  - apply lair_good_reachable. repeat constructor; cbn; lia.
  - vm_compute. split; [left; reflexivity|]. split; [reflexivity|]. split; [discriminate|]. split; [lia|].
    split; [reflexivity|]. eexists; reflexivity.
Qed.

Print Assumptions C08_conservation.
Print Assumptions C08_conservation_plain.
Print Assumptions C08_global_eq_sum.
Print Assumptions C08_unbond_accounting.
Print Assumptions C08_withdraw_exact.
Print Assumptions C08_good_reachable.
Print Assumptions C08_withdraw_live.
Print Assumptions C08_bond_only_whitelisted.
Print Assumptions C08_only_whitelisted_held.
Print Assumptions C08_unfixed_code_refuted.
