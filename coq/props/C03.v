(* C03 — two-asset stableswap (terraswap_pair, PairType::StableSwap): the invariant never leaks value to traders or depositors.
   Only statements, `exact <lemma>`, non-vacuity examples and Print Assumptions live here. *)
From WW Require Import Prim Params Amp CPSwap Stable2 Stable2Pool.
From WW.Proofs Require Import ArithLemmas Stable3Proofs Stable2Proofs.

(* ================= swaps (exact theorems) ================= *)

(* For every successful compute_swap (any reserves, offer, fee triple, amp, decimals with ask decimals <= 18): the curve output
   g = proceeds + fees equals ask_reserve - y for a y in [0, ask_reserve] — proceeds never exceed the ask reserve —, each fee is
   floor(share * g), and y came out of a Newton step: (y+1)^2 + (b-d)(y+1) > c for the quadratic y^2 + (b-d) y = c the code solves,
   i.e. the reserve the pool keeps is at most ONE unit below that root, whatever the number of iterations *)
Theorem C03_swap_proceeds_le_reserve_fee_identity_newton_post :
  forall op ask x f amp dpo dpa s, compute_swap_stable op ask x f amp dpo dpa = Ok s -> 0 <= dpa <= 18 ->
  exists y g, g = ask - y /\ 0 <= y <= ask /\
    s_ret s + s_swapfee s + s_protfee s + s_burnfee s = g /\
    s_swapfee s = g * f_swap f / DEC /\ s_protfee s = g * f_protocol f / DEC /\ s_burnfee s = g * f_burn f / DEC /\
    0 <= s_ret s /\ s_ret s <= ask /\
    exists d b c, (y + 1) * (y + 1) + (b - d) * (y + 1) > c.
Proof. exact compute_swap_stable_spec. Qed.

Theorem C03_newton_y_post : forall b c d t y', sy_step b c d t = Ok y' ->
  (y' + 1) * (y' + 1) + (b - d) * (y' + 1) > c.
Proof. exact sy_step_post. Qed.

(* link from the code's quadratic to the exact invariant polynomial: closed bounds on the truncated coefficients *)
Theorem C03_coefficient_truncation_bounds : forall ann x d b c, sy_coeffs ann x d = Ok (b, c) -> 0 <= d -> 0 <= x -> 0 <= ann ->
  0 < 2 * x /\ 0 < 2 * ann /\ 0 <= c /\
  (2 * x) * (2 * ann) * c <= d * d * d /\
  d * d * d < (2 * x) * (2 * ann) * (c + 1) + (2 * x) * d /\
  ann * (b - x) <= d < ann * (b - x + 1).
Proof. exact sy_coeffs_bounds. Qed.

(* the same at pool level: for EVERY state of the pair (hence after any history of swap/provide/withdraw/collect by any users) a
   successful Swap pays proceeds + fees = reported ask reserve - y with 0 <= y, moves the reported reserves by exactly
   (+offer, -(curve output - swap fee)) and never leaves a negative reserve *)
Theorem C03_pool_swap_spec : forall p i x ms p' e, swap2 p i x ms = Ok (p', e) -> 0 <= get2 (1 - i) (q_dec p) <= 18 ->
  0 <= f_swap (q_fees p) -> 0 <= f_protocol (q_fees p) -> 0 <= f_burn (q_fees p) ->
  let j := 1 - i in
  let R := fun q t => get2 t (q_bal q) - get2 t (q_fee q) in
  (i = 0 \/ i = 1) /\
  exists s y, compute_swap_stable (R p i) (R p j) x (q_fees p) (q_amp p) (get2 i (q_dec p)) (get2 j (q_dec p)) = Ok s /\
    0 <= y <= R p j /\
    s_ret s + s_swapfee s + s_protfee s + s_burnfee s = R p j - y /\
    get2 j (f_user e) = s_ret s /\ get2 i (f_user e) = - x /\
    0 <= s_ret s /\ 0 <= s_swapfee s /\ 0 <= s_protfee s /\ 0 <= s_burnfee s /\
    R p' j = y + s_swapfee s /\ R p' i = R p i + x.
Proof. exact pool2_swap_spec. Qed.

(* ================= deposits ================= *)

(* a deposit never mints more LP than the proportional increase of the invariant THE CODE COMPUTES (on raw amounts):
   (S + mint) * D0 <= S * D1. For pairs whose assets have the same decimals raw = normalised up to a common factor. *)
Theorem C03_deposit_Dcode_per_lp_monotone : forall amp da db sa sb supply m,
  compute_mint2 amp da db sa sb supply = Ok m -> 0 <= supply ->
  exists d0 d1, compute_d2 amp sa sb = Ok d0 /\ compute_d2 amp (sa + da) (sb + db) = Ok d1 /\
    0 < d0 < d1 /\ m = supply * (d1 - d0) / d0 /\ 0 <= m /\ (supply + m) * d0 <= supply * d1.
Proof. exact compute_mint2_spec. Qed.

(* FULL STATEMENT (as in the property): the exact invariant of the DECIMAL-NORMALISED reserves per LP token never falls across a
   deposit: whatever value per LP token was covered before is still covered afterwards *)
Definition C03_norm_invariant_per_lp_mono_full_statement : Prop :=
  forall amp dp0 dp1 da db sa sb supply m, 0 <= dp0 <= 18 -> 0 <= dp1 <= 18 -> 0 < supply ->
  compute_mint2 amp da db sa sb supply = Ok m ->
  forall D0, 0 <= D0 -> inv_le2 (2 * amp) (sa * 10 ^ (18 - dp0)) (sb * 10 ^ (18 - dp1)) D0 ->
  inv_le2 (2 * amp) ((sa + da) * 10 ^ (18 - dp0)) ((sb + db) * 10 ^ (18 - dp1)) (D0 * (supply + m) / supply).

(* REFUTED for unequal decimals (known finding lp_mint_raw_decimals; replayed on the real pair): decimals (6, 18), amp 100,
   1000 whole tokens of each asset; depositing 1000 whole tokens of the 18-decimal asset mints 58.75 % of the supply *)
Theorem C03_refuted_lp_mint_raw_decimals : ~ C03_norm_invariant_per_lp_mono_full_statement.
Proof.
  intros F. destruct lp_mint_raw_decimals_refuted as (_ & m & EM & B0 & B1 & _).
  specialize (F 100 6 18 1 1000000000000000000000 1000000000 1000000000000000000000 c03_w_supply m
                ltac:(lia) ltac:(lia) ltac:(reflexivity) EM 2000000000000000000000 ltac:(lia)).
  cbv zeta in B0, B1. unfold inv_le2b in B0, B1. apply Z.leb_le in B0. apply Z.leb_gt in B1.
  unfold inv_le2 in F. change (2 * 100) with 200 in F. change (18 - 6) with 12 in F. change (18 - 18) with 0 in F.
  rewrite Z.pow_0_r, !Z.mul_1_r in F. specialize (F B0).
  replace (1000000000000000000000 + 1000000000000000000000) with (2 * 1000000000000000000000) in F by reflexivity. lia.
Qed.

(* exact-curve clauses that are only VALIDATED (independent solver in the harness, every run), not proved:
   (a) the distance between the code's D (Decimal256 Newton, 32 rounds, tolerance 10^-precision) and the exact invariant;
   (b) exact monotonicity of proceeds in the offer (the harness observes falls of up to 2 base units: known finding stable2_rounding_dust);
   (c) Dtrue vs Dcode after a fall-through of the 256-round loop of compute_d. *)

(* non-vacuity *)
Definition f_user_of (r : outcome eff2) : option (Z * Z) := match r with Ok e => Some (f_user e) | _ => None end.
Example C03_swap_nonvacuous :
  compute_swap_stable 1000000000 1000000000000000000000 1000000 (mkFees 1000000000000000 3000000000000000 0) 100 6 18
    = Ok (mkSwap 995990138701831106 9900901775998 2999970297294672 999990099098224 0).
Proof. vm_compute. reflexivity. Qed.
Example C03_pool_nonvacuous :
  let p0 := init_pool2 100 (6, 18) (mkFees 0 0 0) (false, false) 4 in
  let l := [Provide2 0 (1000000000, 1000000000000000000000); Provide2 1 (1, 1000000000000000000000); Withdraw2 1 545220542154377485] in
  f_user_of (snd (apply_op2 (run2 p0 [Provide2 0 (1000000000, 1000000000000000000000); Provide2 1 (1, 1000000000000000000000)]) (Withdraw2 1 545220542154377485)))
    = Some (370079499, 740158997707393378000) /\ q_supply (run2 p0 l) = c03_w_supply.
Proof. vm_compute. split; reflexivity. Qed.
Example C03_mint_nonvacuous :
  compute_mint2 100 1 1000000000000000000000 1000000000 1000000000000000000000 c03_w_supply = Ok 545220542154377485.
Proof. vm_compute. reflexivity. Qed.

Print Assumptions C03_swap_proceeds_le_reserve_fee_identity_newton_post.
Print Assumptions C03_newton_y_post.
Print Assumptions C03_coefficient_truncation_bounds.
Print Assumptions C03_pool_swap_spec.
Print Assumptions C03_deposit_Dcode_per_lp_monotone.
Print Assumptions C03_refuted_lp_mint_raw_decimals.
