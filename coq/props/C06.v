(* C06 — flash loans are repaid with all fees or the whole transaction reverts.
   Only statements, `exact <lemma>`, non-vacuity examples and Print Assumptions live here.

   Vocabulary (coq/theories/Vault.v): `flash_loan who z body st` = ExecuteMsg::FlashLoan sent by contract `who` whose callback
   does `body`; borrower behaviour = a `script` tree (APay / ARepayQ / ALoan (nested) / ADeposit / AWithdraw / ACollect / AFail /
   ATry) interpreted by `run_script`, structurally recursive, so every theorem quantified over `s : script` holds for every
   depth and length. fee_p/fee_f/fee_b st z = floor(share * z / 10^18) at the fee shares of st. loan_free s = no loan inside s. *)
From WW Require Import Prim Vault.
From WW.Proofs Require Import ArithLemmas VaultLedger VaultProofs VaultFunds.

(* a rejected operation (a loan that reverts for whatever reason) changes nothing. In the model this is how `apply` is
   defined (platform atomicity); on the implementation it is OBSERVED on every rejected call by the full dump comparison. *)
Theorem C06_loan_atomic : forall st o, failed (step st o) -> apply st o = st.
Proof. exact loan_atomic. Qed.

(* direct loan, arbitrary loan-free callback: balance up by protocol + flash fee at least, burn fee destroyed and booked,
   fees are exactly floor(share*loan), counter restored, no shares minted *)
Theorem C06_loan_settles_unnested : forall z s st st', Inv st -> loan_free s = true ->
  flash_loan ADV z (run_script z s) st = Ok st' ->
  bal st + fee_p st z + fee_f st z <= bal st' /\ burned st' = burned st + fee_b st z /\ allf st' = allf st + fee_p st z /\
  pend st' <= pend st + fee_p st z /\ counter st' = counter st /\ supply st' <= supply st.
Proof. exact loan_settles_unnested. Qed.

(* the same through the vault router, plus: the router keeps nothing *)
Theorem C06_router_loan_settles : forall u z pre s st st', Inv st -> loan_free s = true -> u <> ROUTER ->
  router_loan u z pre s st = Ok st' ->
  bal st + fee_p st z + fee_f st z <= bal st' /\ burned st' = burned st + fee_b st z /\ allf st' = allf st + fee_p st z /\
  pend st' <= pend st + fee_p st z /\ counter st' = counter st /\ supply st' <= supply st /\ get (ab st') ROUTER = 0.
Proof. exact router_loan_settles. Qed.

(* full strength ("fees of EVERY loan completed within it", nested loans allowed) is FALSE: known finding nested_loan_same_vault *)
Definition C06_loan_settles_full_statement : Prop := loan_settles_full_statement.
Theorem C06_loan_settles_refuted_nested : ~ C06_loan_settles_full_statement.
Proof. exact loan_settles_refuted_nested. Qed.

(* what survives for EVERY script, nested loans included: the outermost loan's own fees are paid, the counter is restored,
   no shares are minted, the ledger invariant holds *)
Theorem C06_loan_outer_all_depths : forall z s st st', Inv st -> flash_loan ADV z (run_script z s) st = Ok st' ->
  bal st + fee_p st z + fee_f st z <= bal st' /\ counter st' = counter st /\ supply st' <= supply st /\ Inv st'.
Proof. exact loan_outer_all_depths. Qed.

Theorem C06_script_all_depths : forall L s st st', Inv st -> run_script L s st = Ok st' ->
  Inv st' /\ counter st' = counter st /\ (0 < counter st -> supply st' <= supply st) /\ get (lp st) VAULT <= get (lp st') VAULT.
Proof. exact script_all_depths. Qed.

(* the loan counter is back where it was after every top-level operation (0 in every reachable state) *)
Theorem C06_counter_restored : forall st o st', Inv st -> step st o = Ok st' -> counter st' = counter st.
Proof. exact step_counter. Qed.

(* no vault shares can be minted while a loan is outstanding *)
Theorem C06_no_deposit_during_loan : forall u z sent st, 0 < counter st -> forall st', deposit u z sent st <> Ok st'.
Proof. exact no_deposit_during_loan. Qed.

(* GetPaybackAmount = loan + the three fees after_trade charges, each floor(share*loan) *)
Theorem C06_payback_query_eq : forall c z q pf ff bf, payback c z = Ok (q, pf, ff, bf) ->
  q = z + pf + ff + bf /\ pf = z * f_prot c / DEC /\ ff = z * f_flash c / DEC /\ bf = z * f_burn c / DEC.
Proof. exact payback_charged. Qed.

(* repaying exactly the quoted payback amount always suffices (given the vault can lend z, the borrower holds the quote, and the
   128-bit ledgers do not overflow) ... *)
Theorem C06_quoted_suffices : forall z st q pf ff bf ab1,
  fl_on (conf st) = true -> 0 <= counter st -> counter st + 1 < P32 ->
  xfer (kind st) (ab st) VAULT ADV z = Ok ab1 -> payback (conf st) z = Ok (q, pf, ff, bf) -> q <= get ab1 ADV ->
  bal st + pf + ff + bf < P128 -> pend st + pf < P128 -> allf st + pf < P128 -> burned st + bf < P128 -> Inv st ->
  exists st', flash_loan ADV z (run_script z (SCons (ARepayQ 0) SNil)) st = Ok st'.
Proof. exact quoted_suffices. Qed.

(* ... and one unit less (or any amount less) never does *)
Theorem C06_one_less_fails : forall d z st st', Inv st -> 0 < z -> d < 0 ->
  flash_loan ADV z (run_script z (SCons (ARepayQ d) SNil)) st <> Ok st'.
Proof. exact underpaid_fails. Qed.

(* the router keeps nothing, whatever the payload script does (nested loans included) *)
Theorem C06_router_keeps_nothing : forall u z pre s st st', Inv st -> u <> ROUTER -> router_loan u z pre s st = Ok st' ->
  get (ab st') ROUTER = 0.
Proof. exact router_keeps_nothing. Qed.

(* CompleteLoan pays the vault exactly the quoted amount and forwards everything else the router holds to the initiator *)
Theorem C06_router_pays_quote : forall u z st st', u <> ROUTER -> u <> VAULT -> complete_loan u z st = Ok st' ->
  exists q pf ff bf, payback (conf st) z = Ok (q, pf, ff, bf) /\
    bal st' = bal st + q /\ get (ab st') ROUTER = 0 /\ get (ab st') u = get (ab st) u + (get (ab st) ROUTER - q).
Proof. exact router_pays_quote. Qed.

(* callbacks are not callable from outside. True by construction of the model (`step` returns the error for these operations);
   what ties it to the code is the correspondence stream, which sends these messages to the real vault and router. *)
(* coins attached to the router's FlashLoan message change nothing: the vault still gains exactly what an un-funded loan
   pays, and the router ends with nothing (the initiator gets the attached coins back with the remaining proceeds) *)
Theorem C06_router_loan_with_attached_funds : forall u z pre s f st st', Inv st -> loan_free s = true -> u <> ROUTER -> u <> VAULT ->
  router_loan_f u z pre s f st = Ok st' ->
  bal st + fee_p st z + fee_f st z <= bal st' /\ burned st' = burned st + fee_b st z /\ allf st' = allf st + fee_p st z /\
  pend st' <= pend st + fee_p st z /\ counter st' = counter st /\ supply st' <= supply st /\ get (ab st') ROUTER = 0.
Proof. exact router_loan_f_settles. Qed.

Theorem C06_callbacks_rejected : forall st u old z,
  step st (OCallbackExt u old z) = Err E_OTHER /\ step st (ONextLoanExt u) = Err E_UNAUTH /\ step st (OCompleteLoanExt u) = Err E_UNAUTH.
Proof. intros. repeat split; reflexivity. Qed.

(* how the theorems about flash_loan / router_loan apply to top-level operations *)
Theorem C06_step_single_loan : forall st z s, step st (ORun (SCons (ALoan z s) SNil)) = flash_loan ADV z (run_script z s) st.
Proof. exact step_single_loan. Qed.
Theorem C06_step_router_loan : forall st u z pre s, is_user st u = true -> step st (ORouterLoan u z pre s) = router_loan u z pre s st.
Proof. exact step_router_loan. Qed.

(* ---- non-vacuity ----------------------------------------------------------------------------------------------------- *)
Definition nv_st : state := run w_st0 [w_deposit].     (* 1 000 000 deposited, fees 1 % / 1 % / 0, borrower holds 5 000 000 *)
Definition nv_script : script := SCons ACollect (SCons (ATry (SCons (ADeposit 5) SNil)) (SCons (ARepayQ 0) SNil)).

Example C06_nonvacuous :
  Inv nv_st /\ loan_free nv_script = true /\
  (* a loan of 300 001 with a loan-free script that collects, tries to deposit (caught) and repays the quote: succeeds *)
  is_ok (flash_loan ADV 300001 (run_script 300001 nv_script) nv_st) = true /\
  fee_p nv_st 300001 = 3000 /\ fee_f nv_st 300001 = 3000 /\
  (* the exact quote suffices, one unit less does not *)
  is_ok (flash_loan ADV 300001 (run_script 300001 (SCons (ARepayQ 0) SNil)) nv_st) = true /\
  is_ok (flash_loan ADV 300001 (run_script 300001 (SCons (ARepayQ (-1)) SNil)) nv_st) = false /\
  (* router loan: loan forwarded to the borrower, who returns loan + fees + 500 to the router: succeeds, initiator earns 500 *)
  is_ok (router_loan 7%nat 300001 300001 (SCons (APay ROUTER 306501) SNil) nv_st) = true /\
  (* a deposit attempted during a loan makes the whole loan fail *)
  is_ok (flash_loan ADV 300001 (run_script 300001 (SCons (ADeposit 5) (SCons (ARepayQ 0) SNil))) nv_st) = false.
Proof.
  split; [apply w_st1_good|]. vm_compute. repeat split; reflexivity.
Qed.

(* the hypotheses of C06_quoted_suffices are met *)
Example C06_quoted_suffices_nonvacuous :
  exists ab1, xfer (kind nv_st) (ab nv_st) VAULT ADV 300001 = Ok ab1 /\
    payback (conf nv_st) 300001 = Ok (306001, 3000, 3000, 0) /\ 306001 <= get ab1 ADV /\ fl_on (conf nv_st) = true /\ counter nv_st = 0.
Proof. eexists. vm_compute. repeat split; try reflexivity. discriminate. Qed.

Print Assumptions C06_loan_atomic.
Print Assumptions C06_loan_settles_unnested.
Print Assumptions C06_router_loan_settles.
Print Assumptions C06_loan_settles_refuted_nested.
Print Assumptions C06_loan_outer_all_depths.
Print Assumptions C06_script_all_depths.
Print Assumptions C06_counter_restored.
Print Assumptions C06_no_deposit_during_loan.
Print Assumptions C06_payback_query_eq.
Print Assumptions C06_quoted_suffices.
Print Assumptions C06_one_less_fails.
Print Assumptions C06_router_keeps_nothing.
Print Assumptions C06_router_pays_quote.
Print Assumptions C06_router_loan_with_attached_funds.
Print Assumptions C06_callbacks_rejected.
Print Assumptions C06_step_single_loan.
Print Assumptions C06_step_router_loan.
