(* C18 — stored configuration is always within its documented bounds, through every write path.
   Only statements, `exact <lemma>`, non-vacuity examples and Print Assumptions live here.
   Model: theories/Config.v (state = the bounded parameters of every pair, trio, vault, distributor, lair, collector;
   operations = instantiate / direct update / factory-mediated update / factory create, by the admin or a stranger).
   The bounds in cfg_ok are the property's literals (proofs/ConfigProofs.v); the constants of the code enter through
   `code_bounds` (generated Params.v) and `C18_constants_within_property_bounds`. *)
From WW Require Import Prim CPSwap Params Config.
From WW.Proofs Require Import ConfigProofs.

(* the invariant holds initially *)
Theorem C18_init : forall h, cfg_ok (init_state h).
Proof. intro h. apply cfg_inv_ok, cfg_inv_init. Qed.

(* the generated constants satisfy what the property's literals demand
   (MIN_AMP >= 1, MAX_AMP <= 10^6, MAX_GRACE_PERIOD <= 30, DAY_IN_NANOSECONDS >= 1 day, BONDING_ASSETS_LIMIT <= 2) *)
Theorem C18_constants_within_property_bounds : bounds_ok code_bounds.
Proof. exact code_bounds_ok. Qed.

(* every operation preserves the (strengthened) invariant, accepted or not *)
Theorem C18_preserved_by_every_op : forall B s o, bounds_ok B -> cfg_inv s -> cfg_inv (next B s o).
Proof. exact next_preserves. Qed.

(* main statement: after ANY sequence of writes the configuration is within bounds — for any constants meeting
   bounds_ok, and in particular for the constants of the code *)
Theorem C18_config_within_bounds_generic : forall B, bounds_ok B -> forall h ops, cfg_ok (run B (init_state h) ops).
Proof. exact cfg_ok_all_histories. Qed.

Theorem C18_config_within_bounds : forall h ops, cfg_ok (run code_bounds (init_state h) ops).
Proof. exact cfg_ok_code. Qed.

(* a rejected update changes nothing *)
Theorem C18_rejected_update_frame : forall B s o, is_ok (step B s o) = false -> next B s o = s.
Proof. exact rejected_update_frame. Qed.

(* the distributor's grace period never decreases along any history *)
Theorem C18_grace_never_decreases : forall B ops s j g d,
  nth_error (dists s) j = Some (g, d) ->
  exists g' d', nth_error (dists (run B s ops)) j = Some (g', d') /\ g <= g'.
Proof. exact grace_never_decreases. Qed.

(* range half of the ramp acceptance test (independent of the factor test, which C04 owns) *)
Theorem C18_ramp_accept_range : forall B h t r t', bounds_ok B -> trio_ok t -> trio_ramp B h t r = Ok t' -> trio_ok t'.
Proof. exact ramp_accept_range. Qed.

(* the amplification in effect at any height (interpolated) is within [1, 10^6] *)
Theorem C18_effective_amp_in_range : forall s t h c,
  cfg_ok s -> In t (trios s) -> compute_amp (t_ia t) (t_fa t) h (t_ib t) (t_fb t) = Ok c -> 1 <= c <= 1000000.
Proof. exact effective_amp_in_range. Qed.

(* factory-token clause: in the default build no vault over a token-factory asset ever exists
   (this is why `factory-asset vault => burn fee 0` holds; the correspondence stream creates such vaults through both paths) *)
Theorem C18_no_factory_asset_vault : forall h ops,
  Forall (fun v => v_factory_asset v = false) (vaults (run code_bounds (init_state h) ops)).
Proof. exact no_factory_asset_vault. Qed.

(* non-vacuity: a history through every contract class with accepted writes on the bounds and rejected ones just outside *)
Example C18_nonvacuous :
  let s := run code_bounds (init_state 12345) c18_example_ops in
  map p_fees (pairs s) = [mkFees 500000000000000000 499999999999999999 0] /\
  map (fun t => (t_ia t, t_fa t, t_ib t, t_fb t)) (trios s) = [(100000, 1000000, 12345, 22345)] /\
  map v_fees (vaults s) = [mkFees 1 1 999999999999999997] /\
  dists s = [(30, 86400000000000)] /\ lairs s = [(1000000000000000000, [false; false])] /\
  colls s = [999999999999999999] /\
  compute_amp 100000 1000000 (height s) 12345 22345 = Ok 550000.
Proof. exact c18_example_final. Qed.

(* non-vacuity of the frame theorem and of bounds_ok: a rejected write exists, and bounds_ok is not satisfied by everything *)
Example C18_frame_nonvacuous :
  is_ok (step code_bounds (run code_bounds (init_state 1) [CollInst]) (CollUpd 0 0 (Some DEC))) = false /\
  is_ok (step code_bounds (run code_bounds (init_state 1) [CollInst]) (CollUpd 0 0 (Some (DEC - 1)))) = true /\
  ~ bounds_ok (mkBounds 1 1000000 10 10000 31 86400000000000 2).
Proof. split; [vm_compute; reflexivity|]. split; [vm_compute; reflexivity|]. unfold bounds_ok; cbn. lia. Qed.

Print Assumptions C18_init.
Print Assumptions C18_constants_within_property_bounds.
Print Assumptions C18_preserved_by_every_op.
Print Assumptions C18_config_within_bounds_generic.
Print Assumptions C18_config_within_bounds.
Print Assumptions C18_rejected_update_frame.
Print Assumptions C18_grace_never_decreases.
Print Assumptions C18_ramp_accept_range.
Print Assumptions C18_effective_amp_in_range.
Print Assumptions C18_no_factory_asset_vault.
