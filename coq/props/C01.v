(* C01 — constant-product pool: solvent, and an LP share never loses value.
   Statements only (`exact <lemma>`), non-vacuity examples, Print Assumptions.
   `reachable s` = s is the state after ANY finite operation list (provide / withdraw / swap with native or cw20
   offers / collect / update_config / third-party transfers to the pool / LP transfers, by any accounts, any
   128-bit amounts, any valid fee triples) from a freshly instantiated pool; constants are the ones extracted
   from the Rust sources (Params.v). res_i = reported reserve = balance - pending protocol fee. *)
From WW Require Import Prim CPSwap Slippage CP CPInst.
From WW.Proofs Require Import ArithLemmas CPSwapProofs ListLemmas CPProofs.

Theorem C01_solvent : forall s, reachable s ->
  0 <= pf0 s <= bal0 s /\ 0 <= pf1 s <= bal1 s /\
  res0 s + pf0 s = bal0 s /\ res1 s + pf1 s = bal1 s /\ 0 <= res0 s /\ 0 <= res1 s.
Proof. exact r_solvent. Qed.

(* sqrt(R0 R1)/S does not decrease, in cross-multiplied form; S stays positive *)
Theorem C01_lp_value_never_falls : forall s o s' p, reachable s ->
  step the_consts s o = Ok (s', p) -> 0 < supply s ->
  0 < supply s' /\
  res0 s * res1 s * (supply s' * supply s') <= res0 s' * res1 s' * (supply s * supply s).
Proof. exact r_value. Qed.

Theorem C01_withdraw_pro_rata : forall s who a s' p, reachable s ->
  step the_consts s (Withdraw who a) = Ok (s', p) ->
  p_ref0 p * supply s <= res0 s * a /\ p_ref1 p * supply s <= res1 s * a /\ a <= getn (lp s) who /\
  bal0 s' = bal0 s - p_ref0 p /\ bal1 s' = bal1 s - p_ref1 p /\ supply s' = supply s - a.
Proof. exact r_withdraw_prorata. Qed.

Theorem C01_mint_pro_rata : forall s who d0 d1 tol rc s' p, reachable s -> 0 < supply s ->
  step the_consts s (Provide who d0 d1 tol rc) = Ok (s', p) ->
  p_minted p * res0 s <= d0 * supply s /\ p_minted p * res1 s <= d1 * supply s /\
  supply s' = supply s + p_minted p /\ bal0 s' = bal0 s + d0 /\ bal1 s' = bal1 s + d1.
Proof. exact r_mint_prorata. Qed.

Theorem C01_deposit_then_withdraw : forall s who d0 d1 tol s1 p1 s2 p2, reachable s ->
  (0 < supply s \/ (res0 s = 0 /\ res1 s = 0)) ->
  step the_consts s (Provide who d0 d1 tol None) = Ok (s1, p1) ->
  step the_consts s1 (Withdraw who (p_minted p1)) = Ok (s2, p2) ->
  p_ref0 p2 <= d0 /\ p_ref1 p2 <= d1.
Proof. exact r_deposit_withdraw. Qed.

Theorem C01_first_deposit_locks_minimum : forall s who d0 d1 tol rc s' p, reachable s -> supply s = 0 ->
  step the_consts s (Provide who d0 d1 tol rc) = Ok (s', p) ->
  getn (lp s') 0 >= getn (lp s) 0 + c_minliq the_consts /\ supply s' = c_minliq the_consts + p_minted p /\
  c_minliq the_consts + p_minted p = isqrt (d0 * d1).
Proof. exact r_first_deposit_locks. Qed.

Theorem C01_minimum_liquidity_locked_forever : forall s ops, reachable s -> 0 < supply s ->
  let s' := run the_consts s ops in
  c_minliq the_consts <= getn (lp s') 0 /\ c_minliq the_consts <= supply s'.
Proof. exact r_locked_forever. Qed.

Theorem C01_failed_operation_changes_nothing : forall s o, ~ is_ok (step the_consts s o) = true -> apply the_consts s o = s.
Proof. intros s o H. unfold apply. destruct (step the_consts s o) as [[? ?]| |]; cbn in H; congruence. Qed.

(* ---- non-vacuity: a concrete history reaching a state with pending fees, three LP holders, and every
        theorem's hypotheses met ------------------------------------------------------------------- *)
Definition ex_fees := mkFees 1000000000000000 3000000000000000 500000000000000.
Definition ex_ops : list op :=
  [Provide 1 2000003 1500001 None None; Swap 2 false 70001 None (Some 500000000000000000) None;
   Provide 3 100000 74000 (Some 100000000000000000) None; Swap 1 true 33333 None (Some 500000000000000000) (Some 3%nat);
   Withdraw 1 50000; Collect 2; Donate true 777].
Definition ex_state := run the_consts (init false true ex_fees 6 5) ex_ops.

Definition ex_deposit_withdraw : bool :=
  match step the_consts ex_state (Provide 2 40000 29500 None None) with
  | Ok (s1, p1) => match step the_consts s1 (Withdraw 2 (p_minted p1)) with
                   | Ok (s2, p2) => (0 <? p_ref0 p2) && (0 <? p_ref1 p2)
                   | _ => false end
  | _ => false end.

Example C01_nonvacuous :
  reachable ex_state /\
  ((0 <? supply ex_state) && (0 <? pf0 ex_state) && (0 <? pf1 ex_state) &&
   is_ok (step the_consts ex_state (Swap 2 false 5000 None None None)) &&
   is_ok (step the_consts ex_state (Withdraw 3 1000)) &&
   is_ok (step the_consts ex_state (Provide 2 40000 29500 None None)) &&
   ex_deposit_withdraw &&
   is_ok (step the_consts (init false true ex_fees 6 5) (Provide 1 2000003 1500001 None None))) = true.
Proof.
  split.
  - exists false, true, ex_fees, 6%nat, 5%nat, ex_ops. split; [|split; [lia|reflexivity]].
    vm_compute. repeat split; congruence.
  - vm_compute. reflexivity.
Qed.

Print Assumptions C01_solvent.
Print Assumptions C01_lp_value_never_falls.
Print Assumptions C01_withdraw_pro_rata.
Print Assumptions C01_mint_pro_rata.
Print Assumptions C01_deposit_then_withdraw.
Print Assumptions C01_first_deposit_locks_minimum.
Print Assumptions C01_minimum_liquidity_locked_forever.
Print Assumptions C01_failed_operation_changes_nothing.
