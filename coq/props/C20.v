(* C20 — epoch clocks only move forward, one epoch at a time, never early.
   Model: theories/Epochs.v (epoch-manager create_epoch + hooks; fee_distributor create_new_epoch).
   Neither model function takes the caller as an argument: creation is open to anyone (AddHook/RemoveHook carry the
   admin bit). A rejected or aborted call leaves the state as it was (mhstep / dhstep). *)
From WW Require Import Prim Epochs.
From WW.Proofs Require Import ArithLemmas EpochsProofs.

(* ---------------- epoch manager ---------------- *)
(* before the current epoch's full duration has elapsed — and hence at any time before the first epoch's start, where
   Timestamp::minus_nanos aborts — CreateEpoch is rejected whoever calls and whatever the hooks do; nothing changes *)
Theorem C20_manager_early_rejected_frame : forall d now s bad,
  now - e_start (m_epoch s) < d ->
  failed (mstep d now s (MCreate bad)) /\ mhstep d s (now, MCreate bad) = s.
Proof. exact manager_early_rejected_frame. Qed.

(* an accepted CreateEpoch: id + 1, start + duration, the full duration has elapsed, the hook list is untouched *)
Theorem C20_manager_step_exact : forall d now s bad s' msgs,
  mcreate d now s bad = Ok (s', msgs) ->
  e_id (m_epoch s') = e_id (m_epoch s) + 1 /\
  e_start (m_epoch s') = e_start (m_epoch s) + d /\
  e_start (m_epoch s) + d <= now /\
  m_hooks s' = m_hooks s /\
  msgs = map (fun h => (h, m_epoch s')) (m_hooks s) /\
  (forall h, In h (m_hooks s) -> ~ In h bad).
Proof. exact mcreate_ok. Qed.

(* every schedule: the k-th epoch created is (id0 + k + 1, start0 + (k+1)*duration), created no earlier than its start *)
Theorem C20_manager_epochs_exact : forall d s0 h k now e msgs,
  NoDup (m_hooks s0) ->
  nth_error (mcreated d s0 h) k = Some (now, e, msgs) ->
  e_id e = e_id (m_epoch s0) + Z.of_nat k + 1 /\
  e_start e = e_start (m_epoch s0) + (Z.of_nat k + 1) * d /\
  e_start e <= now /\
  NoDup (map fst msgs) /\ Forall (fun m => snd m = e) msgs.
Proof. exact manager_epochs_exact. Qed.

Theorem C20_manager_strictly_increasing : forall d s0 h i j ni ei mi nj ej mj,
  0 < d -> NoDup (m_hooks s0) -> (i < j)%nat ->
  nth_error (mcreated d s0 h) i = Some (ni, ei, mi) ->
  nth_error (mcreated d s0 h) j = Some (nj, ej, mj) ->
  e_id ei < e_id ej /\ e_start ei < e_start ej /\
  (j = S i -> e_id ej = e_id ei + 1 /\ e_start ej = e_start ei + d).
Proof. exact manager_strictly_increasing. Qed.

(* every registered hook is notified exactly once per new epoch, with that epoch, and nobody else is *)
Theorem C20_manager_hooks_once : forall d now s bad s' msgs,
  NoDup (m_hooks s) -> mstep d now s (MCreate bad) = Ok (s', msgs) ->
  map fst msgs = m_hooks s /\ NoDup (map fst msgs) /\ Forall (fun m => snd m = m_epoch s') msgs /\ m_hooks s' = m_hooks s.
Proof. exact manager_hooks_once. Qed.

Theorem C20_manager_hooks_nodup : forall d s0 h, NoDup (m_hooks s0) -> NoDup (m_hooks (mrun d s0 h)).
Proof. exact manager_hooks_nodup. Qed.

(* QueryMsg::Epoch { id } is consistent with history: every epoch created along any schedule is afterwards reported, at any
   later point of that schedule, with exactly the id and the start time it was created with *)
Theorem C20_manager_query_agrees_with_history : forall d h s0 k now e msgs,
  0 <= d -> 0 <= e_start (m_epoch s0) < P64 ->
  nth_error (mcreated d s0 h) k = Some (now, e, msgs) ->
  mquery d (mrun d s0 h) (e_id e) = Ok e.
Proof. exact manager_query_history. Qed.

(* ---------------- fee distributor ---------------- *)
Theorem C20_distributor_early_rejected_frame : forall d g now cur ok,
  now - e_start cur < d ->
  failed (dcreate d g now cur ok) /\ dhstep d g cur (now, ok) = cur.
Proof. exact distributor_early_rejected_frame. Qed.

Theorem C20_distributor_not_before_genesis : forall d g now ok,
  now < g -> failed (dcreate d g now (mkEpoch 0 0) ok) /\ dhstep d g (mkEpoch 0 0) (now, ok) = mkEpoch 0 0.
Proof. exact distributor_not_before_genesis. Qed.

Theorem C20_distributor_step_exact : forall d g now cur ok e',
  dcreate d g now cur ok = Ok e' ->
  e_id e' = e_id cur + 1 /\ ok = true /\ e_start cur + d <= now /\
  (if first cur then e_start e' = g /\ g <= now else e_start e' = e_start cur + d).
Proof. exact dcreate_ok. Qed.

(* every schedule from an empty EPOCHS map: the k-th epoch created is (k+1, genesis + k*duration) *)
Theorem C20_distributor_epochs_exact : forall d g h k now e,
  nth_error (dcreated d g (mkEpoch 0 0) h) k = Some (now, e) ->
  e_id e = Z.of_nat k + 1 /\ e_start e = g + Z.of_nat k * d /\ e_start e <= now.
Proof. exact distributor_epochs_exact. Qed.

Theorem C20_distributor_strictly_increasing : forall d g h i j ni ei nj ej,
  0 < d -> (i < j)%nat ->
  nth_error (dcreated d g (mkEpoch 0 0) h) i = Some (ni, ei) ->
  nth_error (dcreated d g (mkEpoch 0 0) h) j = Some (nj, ej) ->
  e_id ei < e_id ej /\ e_start ei < e_start ej /\ g <= e_start ei /\
  (j = S i -> e_id ej = e_id ei + 1 /\ e_start ej = e_start ei + d).
Proof. exact distributor_strictly_increasing. Qed.

(* ---------------- non-vacuity ---------------- *)
Definition DAY : Z := 86400000000000.
Definition nv_m0 : mstate := mkM (mkEpoch 7 1000) [].
Definition nv_msched : list mevent :=
  [ (999, MCreate []);                       (* before start: aborts *)
    (1000, MAddHook true 0); (1000, MAddHook true 0); (1000, MAddHook false 1); (1000, MAddHook true 2);
    (1000 + DAY - 1, MCreate []);            (* 1ns early *)
    (1000 + DAY, MCreate [2]);               (* hook 2 rejects *)
    (1000 + DAY, MCreate []);                (* accepted *)
    (1000 + DAY, MCreate []);                (* again in the same block: rejected *)
    (1000 + 4 * DAY + 5, MCreate []); (1000 + 4 * DAY + 5, MCreate []); (1000 + 4 * DAY + 5, MCreate []);
    (1000 + 4 * DAY + 5, MCreate []) ].      (* caught up: rejected *)

Example C20_manager_nonvacuous :
  map (fun x => (fst (fst x), e_id (snd (fst x)), e_start (snd (fst x)), map fst (snd x))) (mcreated DAY nv_m0 nv_msched) =
  [ (1000 + DAY, 8, 1000 + DAY, [0; 2]); (1000 + 4 * DAY + 5, 9, 1000 + 2 * DAY, [0; 2]);
    (1000 + 4 * DAY + 5, 10, 1000 + 3 * DAY, [0; 2]); (1000 + 4 * DAY + 5, 11, 1000 + 4 * DAY, [0; 2]) ] /\
  m_hooks (mrun DAY nv_m0 nv_msched) = [0; 2] /\
  mstep DAY 999 nv_m0 (MCreate []) = Panic /\ 0 < DAY /\ NoDup (m_hooks nv_m0).
Proof. vm_compute. repeat split; try reflexivity. constructor. Qed.

Example C20_manager_query_nonvacuous :
  map (fun id => mquery DAY (mrun DAY nv_m0 nv_msched) id) [8; 9; 10; 11] =
  [Ok (mkEpoch 8 (1000 + DAY)); Ok (mkEpoch 9 (1000 + 2 * DAY)); Ok (mkEpoch 10 (1000 + 3 * DAY)); Ok (mkEpoch 11 (1000 + 4 * DAY))] /\
  0 <= DAY /\ 0 <= e_start (m_epoch nv_m0) < P64.
Proof. vm_compute. repeat split; try reflexivity; discriminate. Qed.

Definition G0 : Z := 1000 * DAY + 5000.     (* genesis, well after 1970 + one duration *)
Definition nv_dsched : list devent :=
  [ (G0 - 1, true); (G0, true); (G0, true); (G0 + DAY - 1, true); (G0 + DAY, false); (G0 + DAY, true);
    (G0 + 3 * DAY + 1, true); (G0 + 3 * DAY + 1, true); (G0 + 3 * DAY + 1, true) ].
Example C20_distributor_nonvacuous :
  map (fun x => (fst x, e_id (snd x), e_start (snd x))) (dcreated DAY G0 (mkEpoch 0 0) nv_dsched) =
  [ (G0, 1, G0); (G0 + DAY, 2, G0 + DAY); (G0 + 3 * DAY + 1, 3, G0 + 2 * DAY); (G0 + 3 * DAY + 1, 4, G0 + 3 * DAY) ] /\
  dcreate DAY G0 (G0 - 1) (mkEpoch 0 0) true = Err E_OTHER /\ G0 - 1 < G0.
Proof. vm_compute. repeat split; reflexivity. Qed.

Print Assumptions C20_manager_early_rejected_frame.
Print Assumptions C20_manager_step_exact.
Print Assumptions C20_manager_epochs_exact.
Print Assumptions C20_manager_strictly_increasing.
Print Assumptions C20_manager_hooks_once.
Print Assumptions C20_manager_hooks_nodup.
Print Assumptions C20_manager_query_agrees_with_history.
Print Assumptions C20_distributor_early_rejected_frame.
Print Assumptions C20_distributor_not_before_genesis.
Print Assumptions C20_distributor_step_exact.
Print Assumptions C20_distributor_epochs_exact.
Print Assumptions C20_distributor_strictly_increasing.
