(* C17 — pause switches stop exactly the operation they name.
   Only statements, `exact <lemma>`, non-vacuity examples and Print Assumptions live here.

   Part A (pools and any other gated contract): the gate machine of Toggles.v — three switches in front of an ARBITRARY body
   (`core`, `opT`, `kind`, `body` are universally quantified: the pool arithmetic is irrelevant to C17 and is not modelled here).
   Which switch guards which entry path of the pools is the table `ppath_kind`; the correspondence check ties both the table
   and the gate semantics to terraswap_pair / stableswap_3pool / terraswap_router / frontend_helper by running every
   (switches, path, state) combination against an all-enabled twin.
   Part B (vault): the concrete vault model of Vault.v, borrower scripts of every depth included. *)
From WW Require Import Prim Vault Toggles.
From WW.Proofs Require Import ArithLemmas VaultLedger VaultProofs TogglesProofs.

(* ---- Part A: the gate machine --------------------------------------------------------------------- *)
(* a disabled switch rejects every path it guards, with the "disabled" error, and nothing changes *)
Theorem C17_disabled_rejects_frame : forall core opT kind body (g : gstate core) (o : opT) k,
  kind o = Some k -> fget (g_flags g) k = false ->
  gstep core opT kind body g (GOp o) = Err E_DISABLED /\ gapply core opT kind body g (GOp o) = g.
Proof. exact gate_disabled_rejects_frame. Qed.

(* any rejected call leaves everything as it was *)
Theorem C17_rejected_frame : forall core opT kind body (g : gstate core) (o : gop opT),
  failed (gstep core opT kind body g o) -> gapply core opT kind body g o = g.
Proof. exact gate_rejected_frame. Qed.

(* every other operation keeps working: flipping switch k commutes with any operation that is not of kind k *)
Theorem C17_other_ops_unaffected : forall core opT kind body (g : gstate core) (o : gop opT) k b,
  of_kind opT kind k o = false -> is_set opT o = false ->
  gstep core opT kind body (with_flag core k b g) o = omap (with_flag core k b) (gstep core opT kind body g o).
Proof. exact gate_other_unaffected. Qed.

(* with everything enabled the switches are invisible *)
Theorem C17_enabled_transparent : forall core opT kind body (g : gstate core) (o : opT),
  g_flags g = all_on -> gstep core opT kind body g (GOp o) = lift core g (body (g_core g) o).
Proof. exact gate_enabled_transparent. Qed.

(* re-enabling restores the previous behaviour: the state is the one before the switch was turned off *)
Theorem C17_reenable_restores : forall core opT kind body (g : gstate core) k,
  let g1 := gapply core opT kind body g (GSet true (fset (g_flags g) k false)) in
  gapply core opT kind body g1 (GSet true (fset (g_flags g1) k (fget (g_flags g) k))) = g.
Proof. exact gate_reenable_restores. Qed.

(* only the owner moves the switches *)
Theorem C17_only_owner_sets : forall core opT kind body (g : gstate core) f,
  gstep core opT kind body g (GSet false f) = Err E_UNAUTH /\ gapply core opT kind body g (GSet false f) = g.
Proof. exact gate_unauthorized_set. Qed.

(* history level, any number of users and operations: while switch k is off, a history is equivalent to the same history
   with every operation of kind k deleted — "stops exactly the operation it names" *)
Theorem C17_skip_disabled_history : forall core opT kind body h (g : gstate core) k,
  fget (g_flags g) k = false -> forallb (fun o => negb (is_set opT o)) h = true ->
  grun core opT kind body g h = grun core opT kind body g (filter (fun o => negb (of_kind opT kind k o)) h).
Proof. exact gate_skip_disabled. Qed.

(* new pools and vaults start with everything enabled *)
Theorem C17_fresh_all_enabled : forall k, fget all_on k = true.
Proof. exact fresh_all_enabled. Qed.

(* the guard table of the pools: every way of providing is guarded by the deposit switch, the LP-token withdraw hook by the
   withdrawal switch, every way of swapping (direct, cw20 hook, router with native or cw20 offer) by the swap switch *)
Theorem C17_pool_paths_guarded :
  (forall p, ppath_kind p = Some KDep <-> p = PProvide \/ p = PProvideHelper) /\
  (forall p, ppath_kind p = Some KWd <-> p = PWithdrawHook) /\
  (forall p, ppath_kind p = Some KSwap <-> p = PSwapDirect \/ p = PSwapHook \/ p = PSwapRouter \/ p = PSwapRouterHook).
Proof.
  repeat split; intros; destruct p; cbn in *; try discriminate; try tauto;
    repeat match goal with H : _ \/ _ |- _ => destruct H end; try discriminate; auto.
Qed.

(* every ExecuteMsg / Cw20HookMsg variant of pair, 3pool and vault (inventory regenerated from the Rust enums into Params.v on
   every run) is classified: a new entry path added to the source breaks this obligation until it is classified *)
Theorem C17_inventory_classified : inventories_classified = true.
Proof. vm_compute. reflexivity. Qed.

(* ---- Part B: the vault ------------------------------------------------------------------------------ *)
Theorem C17_vault_fresh_all_enabled : forall p f b k bals st, init p f b k bals = Ok st -> vflags st = all_on.
Proof. exact vault_fresh_all_enabled. Qed.

(* every entry path of a disabled vault operation is rejected: user deposit, deposit by a contract, LP-token withdraw hook by
   a user or a contract, flash loan by a contract, flash loan through the vault router *)
Theorem C17_vault_disabled_paths : forall st,
  (dep_on (conf st) = false -> forall u z sent L,
     failed (step st (ODeposit u z sent)) /\
     (is_user st u = true -> kind st || (sent <=? get (ab st) u) = true -> step st (ODeposit u z sent) = Err E_DISABLED) /\
     failed (run_action L (ADeposit z) st) /\
     (kind st || (z <=? get (ab st) ADV) = true -> run_action L (ADeposit z) st = Err E_DISABLED)) /\
  (wd_on (conf st) = false -> forall u a L,
     failed (step st (OWithdraw u a)) /\ failed (run_action L (AWithdraw a) st)) /\
  (fl_on (conf st) = false -> forall u z pre s L,
     run_action L (ALoan z s) st = Err E_DISABLED /\ failed (step st (ORouterLoan u z pre s)) /\
     (is_user st u = true -> step st (ORouterLoan u z pre s) = Err E_DISABLED)).
Proof. exact vault_disabled_paths. Qed.

(* rejected => nothing changed (platform atomicity; observed on the implementation by the dump comparison) *)
Theorem C17_vault_rejected_frame : forall st o, failed (step st o) -> apply st o = st.
Proof. exact loan_atomic. Qed.

(* every operation that does not contain an entry of kind k — including arbitrary borrower scripts — behaves exactly as if
   switch k had not been touched *)
Theorem C17_vault_other_ops_unaffected : forall k b o st, o_uses k o = false ->
  step (sv k b st) o = omap (sv k b) (step st o).
Proof. exact vault_other_ops_unaffected. Qed.

Theorem C17_vault_reenable_restores : forall st k, set_vflag (set_vflag st k false) k (fget (vflags st) k) = st.
Proof. exact set_vflag_reenable. Qed.

(* UpdateConfig by the owner sets exactly the named switches *)
Theorem C17_vault_update_sets_flags : forall st f st',
  update_config (owner (conf st)) (mkUp (Some (f_sw f)) (Some (f_wd f)) (Some (f_dep f)) None None) st = Ok st' ->
  st' = set_vflags st f.
Proof. exact vault_update_sets_flags. Qed.

(* ---- non-vacuity ------------------------------------------------------------------------------------- *)
(* the gate machine instantiated at the twin body used by the correspondence: deposits off, swaps on *)
Example C17_gate_nonvacuous :
  let g := mkG (mkF false true true) tt in
  twin_kind (PProvideHelper, 0) = Some KDep /\ fget (g_flags g) KDep = false /\
  gstep unit (ppath * Z) twin_kind twin_body g (GOp (PProvideHelper, 0)) = Err E_DISABLED /\
  gstep unit (ppath * Z) twin_kind twin_body g (GOp (PSwapRouter, 0)) = Ok g /\
  of_kind (ppath * Z) twin_kind KDep (GOp (PSwapRouter, 0)) = false.
Proof. vm_compute. repeat split; reflexivity. Qed.

(* the vault after a deposit, deposits switched off: a user deposit is rejected as disabled, while a flash loan by the
   borrower contract (which contains no deposit) succeeds exactly as with deposits on *)
Example C17_vault_nonvacuous :
  let st := sv KDep false (run w_st0 [w_deposit]) in
  dep_on (conf st) = false /\ is_user st 7%nat = true /\
  step st (ODeposit 7%nat 5000 5000) = Err E_DISABLED /\
  o_uses KDep (ORun (SCons (ALoan 300001 (SCons (ARepayQ 0) SNil)) SNil)) = false /\
  is_ok (step st (ORun (SCons (ALoan 300001 (SCons (ARepayQ 0) SNil)) SNil))) = true.
Proof. vm_compute. repeat split; reflexivity. Qed.

Print Assumptions C17_disabled_rejects_frame.
Print Assumptions C17_rejected_frame.
Print Assumptions C17_other_ops_unaffected.
Print Assumptions C17_enabled_transparent.
Print Assumptions C17_reenable_restores.
Print Assumptions C17_only_owner_sets.
Print Assumptions C17_skip_disabled_history.
Print Assumptions C17_fresh_all_enabled.
Print Assumptions C17_pool_paths_guarded.
Print Assumptions C17_inventory_classified.
Print Assumptions C17_vault_fresh_all_enabled.
Print Assumptions C17_vault_disabled_paths.
Print Assumptions C17_vault_rejected_frame.
Print Assumptions C17_vault_other_ops_unaffected.
Print Assumptions C17_vault_reenable_restores.
Print Assumptions C17_vault_update_sets_flags.
