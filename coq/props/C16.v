(* C16 — only the owner (or the designated contract) can perform privileged operations.
   Only statements, `exact <lemma>`, non-vacuity examples and Print Assumptions live here.
   Model: theories/Auth.v — `required_role` classifies every ExecuteMsg variant of the 14 message enums (inventories GENERATED
   into Params.v from packages/white-whale-std), `holds` says which caller class satisfies a role before / after the ownership
   transfers, `exec` is the sender check in front of an arbitrary body, `own_run` an ownership history of one contract.
   The tie to the code is the complete matrix run on the real contracts on every check (harness/src/c16.rs, streams c16,
   c16_inv, c16_own), which also diffs all storage and all balances after every rejected call. *)
From WW Require Import Prim Params Auth.
From WW.Proofs Require Import AuthProofs.
From Coq Require Import String.
Open Scope string_scope.

(* every variant of every generated inventory is classified (a new variant without classification breaks this) *)
Theorem C16_inventory_classified : forall c v, In v (inventory c) -> exists r, required_role c v = Some r.
Proof. exact inventory_classified. Qed.
Theorem C16_hooks_classified : forall inv tbl v, In (inv, tbl) hook_tables -> In v inv -> exists r, lookup tbl v = Some r.
Proof. exact hooks_classified. Qed.
(* ... and the tables name no variant the source does not have *)
Theorem C16_classified_only_existing : forall c v r, In (v, r) (roles_of c) -> In v (inventory c).
Proof. exact classified_only_existing. Qed.

(* FULL STATEMENT of the property's who-may-what clause: every operation the property names is guarded as it says *)
Definition C16_full_statement : Prop := forall c v r, property_role c v = Some r -> required_role c v = Some r.
(* it is refuted by the code as it is (known finding router_assert_minimum_receive_unrestricted) ... *)
Theorem C16_refuted_router_assert_minimum_receive_unrestricted :
  property_role Router "AssertMinimumReceive" = Some Self /\
  required_role Router "AssertMinimumReceive" = Some Anyone /\
  known_amr Router "AssertMinimumReceive" = true /\
  (forall phase who, decide Router "AssertMinimumReceive" phase who 1 = 0).
Proof. exact refuted_router_assert_minimum_receive_unrestricted. Qed.
Theorem C16_full_statement_refuted : ~ C16_full_statement.
Proof. intro H. specialize (H Router "AssertMinimumReceive" Self eq_refl). discriminate H. Qed.
(* second known finding (router_routes_open_without_wasm_admin): the router's owner is its WASM ADMIN; deployed without one
   (phase 3) route management is open to every caller, while with an admin only the admin passes *)
Theorem C16_refuted_router_routes_open_without_wasm_admin :
  property_role Router "AddSwapRoutes" = Some Owner /\ property_role Router "RemoveSwapRoutes" = Some Owner /\
  (forall who cmp, decide Router "AddSwapRoutes" 3 who cmp = 0 /\ decide Router "RemoveSwapRoutes" 3 who cmp = 0) /\
  (forall who cmp, who <> CAdmin -> decide Router "AddSwapRoutes" 0 who cmp = 1).
Proof. exact refuted_router_routes_open_without_wasm_admin. Qed.
(* ... and holds for everything else *)
Theorem C16_behaviour_meets_property : forall c v r,
  property_role c v = Some r -> known_amr c v = false -> required_role c v = Some r.
Proof. exact behaviour_meets_property. Qed.

(* an unauthorised attempt is rejected and changes nothing, whatever the guarded body would do *)
Theorem C16_unauth_rejected_frame : forall (S : Type) (body : contract -> string -> caller -> S -> outcome S) c phase who v s r,
  required_role c v = Some r -> holds c r phase who = false ->
  exec S body c phase who v s = Err E_UNAUTH /\ after S body c phase who v s = s.
Proof. exact unauth_rejected_frame. Qed.
Theorem C16_change_implies_authorized : forall (S : Type) (body : contract -> string -> caller -> S -> outcome S) c phase who v s,
  after S body c phase who v s <> s -> exists r, required_role c v = Some r /\ holds c r phase who = true.
Proof. exact change_implies_authorized. Qed.

(* owner-only variants are accepted from exactly the owner of that phase; self-only ones from exactly the contract itself *)
Theorem C16_owner_variants_decided_by_ownership : forall c v phase who cmp,
  required_role c v = Some Owner -> no_admin c phase = false -> (decide c v phase who cmp = 0 <-> who = owner_at c phase).
Proof. exact owner_variants_decided_by_ownership. Qed.
Theorem C16_self_variants_only_self : forall c v phase who cmp,
  required_role c v = Some Self -> (decide c v phase who cmp = 0 <-> who = CSelf).
Proof. exact self_variants_only_self. Qed.
(* after ownership is transferred the old owner loses and the new owner gains these rights *)
Theorem C16_transfer_moves_rights : forall c v cmp, required_role c v = Some Owner ->
  (is_child c = false ->
     decide c v 0 CAdmin cmp = 0 /\ decide c v 0 CNewAdmin cmp = 1 /\
     decide c v 1 CAdmin cmp = 1 /\ decide c v 1 CNewAdmin cmp = 0) /\
  (is_child c = true ->
     decide c v 0 CParent cmp = 0 /\ decide c v 0 CNewAdmin cmp = 1 /\
     decide c v 2 CParent cmp = 1 /\ decide c v 2 CNewAdmin cmp = 0).
Proof. exact transfer_moves_rights. Qed.

(* ownership histories of one contract, arbitrary length, arbitrary senders *)
Theorem C16_ownership_transfer : forall o h o',
  let cur := own_run o h in
  let after := own_run o (h ++ [(cur, Some o')]) in
  after = o' /\ passes_owner_check after o' = true /\ (o' <> cur -> passes_owner_check after cur = false).
Proof. exact ownership_transfer. Qed.
Theorem C16_owner_check_exact : forall o h who, passes_owner_check (own_run o h) who = true <-> who = own_run o h.
Proof. exact owner_check_exact. Qed.
Theorem C16_own_rejected_frame : forall o sender x, sender <> o -> own_next o (sender, x) = o /\ own_step o (sender, x) = Err E_UNAUTH.
Proof. exact own_rejected_frame. Qed.
Theorem C16_ownership_only_by_handover : forall (P : Z -> Prop) h o,
  P o -> (forall sender o', In (sender, Some o') h -> P sender -> P o') -> P (own_run o h).
Proof. exact ownership_only_by_handover. Qed.
Theorem C16_stranger_attempts_irrelevant : forall h1 h2 o sender x,
  sender <> own_run o h1 -> own_run o (h1 ++ (sender, x) :: h2) = own_run o (h1 ++ h2).
Proof. exact stranger_attempts_irrelevant. Qed.

(* non-vacuity: concrete privileged variants, callers and histories *)
Example C16_nonvacuous :
  In "MigratePair" (inventory Factory) /\ required_role Factory "MigratePair" = Some Owner /\
  decide Factory "MigratePair" 0 CAdmin 0 = 0 /\ decide Factory "MigratePair" 0 CUser 0 = 1 /\
  decide Factory "MigratePair" 1 CAdmin 0 = 1 /\ decide Factory "MigratePair" 1 CNewAdmin 0 = 0 /\
  decide Pair "UpdateConfig" 1 CParent 0 = 0 /\ decide Pair "UpdateConfig" 2 CParent 0 = 1 /\ decide Pair "UpdateConfig" 2 CNewAdmin 0 = 0 /\
  decide Vault "Callback" 0 CSelf 0 = 0 /\ decide Vault "Callback" 0 CAdmin 0 = 1 /\
  decide Collector "ForwardFees" 0 CDesignated 0 = 0 /\ decide Collector "ForwardFees" 0 CAdmin 0 = 1 /\
  decide Incentive "CloseFlow" 1 CNewAdmin 0 = 0 /\ decide Incentive "CloseFlow" 1 CAdmin 0 = 1 /\
  property_role Collector "ForwardFees" = Some DistributorOnly /\ known_amr Collector "ForwardFees" = false /\
  holds Factory Owner 0 CUser = false /\
  exec Z (fun _ _ _ s => Ok (s + 1)) Factory 0 CUser "RemovePair" 7 = Err E_UNAUTH /\
  exec Z (fun _ _ _ s => Ok (s + 1)) Factory 0 CAdmin "RemovePair" 7 = Ok 8 /\
  own_run 0 [(2, Some 2); (0, Some 1); (0, Some 3); (1, None); (1, Some 4)] = 4 /\
  own_obs 0 [(2, Some 2); (0, Some 1); (0, Some 3)] = [1; 0; 0; 1; 1; 1].
Proof. split; [cbn; tauto|]. vm_compute. repeat split; auto. Qed.

Print Assumptions C16_inventory_classified.
Print Assumptions C16_hooks_classified.
Print Assumptions C16_classified_only_existing.
Print Assumptions C16_refuted_router_assert_minimum_receive_unrestricted.
Print Assumptions C16_full_statement_refuted.
Print Assumptions C16_refuted_router_routes_open_without_wasm_admin.
Print Assumptions C16_behaviour_meets_property.
Print Assumptions C16_unauth_rejected_frame.
Print Assumptions C16_change_implies_authorized.
Print Assumptions C16_owner_variants_decided_by_ownership.
Print Assumptions C16_self_variants_only_self.
Print Assumptions C16_transfer_moves_rights.
Print Assumptions C16_ownership_transfer.
Print Assumptions C16_owner_check_exact.
Print Assumptions C16_own_rejected_frame.
Print Assumptions C16_ownership_only_by_handover.
Print Assumptions C16_stranger_attempts_irrelevant.
