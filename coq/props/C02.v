(* C02 — constant-product swap: exact price, exact fee split, no free money.
   Only statements, `exact <lemma>`, non-vacuity examples and Print Assumptions live here. *)
From WW Require Import Prim CPSwap.
From WW.Proofs Require Import ArithLemmas CPSwapProofs.

(* domain of the property: reserves and offer in [1, 2^128), fee triple valid (each < 100 %, sum < 100 %) *)

Theorem C02_total : forall op ask x f, dom op -> dom ask -> dom x -> fees_ok f ->
  fits128 (ideal_spread op ask x) = true -> exists s, compute_swap_cp op ask x f = Ok s.
Proof. exact cp_total. Qed.

Theorem C02_never_aborts : forall op ask x f, dom op -> dom ask -> dom x -> fees_ok f ->
  compute_swap_cp op ask x f <> Panic.
Proof. exact cp_never_panics. Qed.

Theorem C02_gross_exact : forall op ask x f, dom op -> dom ask -> dom x -> fees_ok f ->
  forall s, compute_swap_cp op ask x f = Ok s ->
  s_ret s + s_swapfee s + s_protfee s + s_burnfee s = ask * x / (op + x).
Proof. exact cp_gross_exact. Qed.

Theorem C02_fee_exact : forall op ask x f, dom op -> dom ask -> dom x -> fees_ok f ->
  forall s, compute_swap_cp op ask x f = Ok s ->
  let G := ask * x / (op + x) in
  s_swapfee s = G * f_swap f / DEC /\ s_protfee s = G * f_protocol f / DEC /\
  s_burnfee s = G * f_burn f / DEC.
Proof. exact cp_fee_exact. Qed.

Theorem C02_proceeds_lt_reserve : forall op ask x f, dom op -> dom ask -> dom x -> fees_ok f ->
  forall s, compute_swap_cp op ask x f = Ok s -> s_ret s < ask.
Proof. exact cp_proceeds_lt_ask. Qed.

Theorem C02_roundtrip_no_profit : forall op ask x f f2 s ask' s2,
  dom op -> dom ask -> dom x -> fees_ok f -> fees_ok f2 -> op + x < P128 ->
  compute_swap_cp op ask x f = Ok s ->
  ask - gross op ask x <= ask' < P128 ->
  compute_swap_cp ask' (op + x) (s_ret s) f2 = Ok s2 ->
  s_ret s2 <= x.
Proof. exact cp_roundtrip. Qed.

(* the defect repaired by the fix: commit (kept as a regression witness) *)
Theorem C02_unfixed_code_refuted :
  let f := mkFees 0 0 0 in
  compute_swap_cp_unfixed c02_witness_op c02_witness_ask c02_witness_x f = Panic /\
  fits128 (ideal_spread c02_witness_op c02_witness_ask c02_witness_x) = true /\
  compute_swap_cp c02_witness_op c02_witness_ask c02_witness_x f = Ok (mkSwap 2 0 0 0 0).
Proof. exact cp_unfixed_refuted. Qed.

(* non-vacuity: the hypotheses are met by concrete non-trivial inputs (remainders non-zero) *)
Example C02_nonvacuous :
  let f := mkFees 1000000000000000 3000000000000000 500000000000000 in
  dom 1000003 /\ dom 2000001 /\ dom 12347 /\ fees_ok f /\
  compute_swap_cp 1000003 2000001 12347 f = Ok (mkSwap 24283 301 73 24 12).
Proof. vm_compute. intuition congruence. Qed.

Print Assumptions C02_total.
Print Assumptions C02_never_aborts.
Print Assumptions C02_gross_exact.
Print Assumptions C02_fee_exact.
Print Assumptions C02_proceeds_lt_reserve.
Print Assumptions C02_roundtrip_no_profit.
Print Assumptions C02_unfixed_code_refuted.
