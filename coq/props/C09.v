(* C09 — fee distributor: epoch ledgers balance and no epoch is paid twice.
   Model: theories/Distributor.v (single distribution asset; bonding share and first bonded epoch are oracles
   carried by the Claim op: ANY non-negative Decimal, or a failing / aborting query). Histories: any interleaving of
   NewEpoch (any forwarded fee >= 0, collector faults), Claim (any address), grace-period changes and plain bank
   transfers of the distribution asset to the distributor's address by anybody (DStray: they run no contract code and
   belong to no epoch), at any times; rejected and aborting calls leave the state unchanged. *)
From WW Require Import Prim Params Epochs Distributor.
From WW.Proofs Require Import ArithLemmas DistributorProofs DistributorConservation DistributorCursor.

(* in every reachable state: stored ids are exactly n..1; every epoch that still holds funds satisfies
   claimed + available = total; the distributor's balance is exactly the sum of the available amounts plus what plain
   transfers added (k >= 0: in particular it is at least that sum); the grace period is >= 1; and every epoch that left
   the grace window has an empty `available` *)
Theorem C09_invariant : forall c g h, 1 <= g -> dhist_wf h ->
  Inv (strays (dseffects c (dinit g) h)) (dsrun c g h).
Proof. exact distributor_inv. Qed.

Theorem C09_epoch_ledger : forall c g h e, 1 <= g -> dhist_wf h -> In e (d_epochs (dsrun c g h)) ->
  match de_avail e with Some av => 0 <= av /\ oz (de_claimed e) + av = oz (de_total e) | None => True end.
Proof.
  intros c g h e G W I. pose proof (inv_ledger _ _ (distributor_inv c g h G W)) as F.
  rewrite Forall_forall in F. destruct (F e I) as (_ & _ & L). exact L.
Qed.

(* the distributor always holds at least the sum of all epochs' available amounts — exactly that sum plus the plain
   transfers it received; without such transfers, exactly that sum *)
Theorem C09_distributor_solvent : forall c g h, 1 <= g -> dhist_wf h ->
  sum_avail (d_epochs (dsrun c g h)) <= d_bal (dsrun c g h) /\
  d_bal (dsrun c g h) = sum_avail (d_epochs (dsrun c g h)) + strays (dseffects c (dinit g) h).
Proof.
  intros c g h G W. pose proof (inv_bal _ _ (distributor_inv c g h G W)) as B.
  pose proof (strays_nonneg c g h G W). split; [lia | exact B].
Qed.

Theorem C09_distributor_exact_without_transfers : forall c g h, 1 <= g -> dhist_wf h ->
  forallb (fun e => negb (is_stray (snd e))) h = true ->
  d_bal (dsrun c g h) = sum_avail (d_epochs (dsrun c g h)).
Proof.
  intros c g h G W F. pose proof (inv_bal _ _ (distributor_inv c g h G W)) as B.
  rewrite (no_stray_effects c h (dinit g) F) in B. lia.
Qed.

Theorem C09_expired_empty : forall c g h e, 1 <= g -> dhist_wf h ->
  let s := dsrun c g h in
  In e (d_epochs s) -> de_id e <= Z.of_nat (length (d_epochs s)) - d_grace s -> de_avail e = None.
Proof.
  intros c g h e G W s I. pose proof (inv_expired _ _ (distributor_inv c g h G W)) as F.
  unfold expired_empty in F. rewrite Forall_forall in F. apply F. exact I.
Qed.

(* an accepted NewEpoch: the epoch leaving the grace window (the g-th newest, if g epochs exist) has its remainder
   added to the new epoch's total — exactly once, because its `available` is emptied in the same step — and nothing
   else changes; the new epoch starts with available = total and nothing claimed *)
Theorem C09_new_epoch_rollover : forall k c now s ok fee s',
  Inv k s -> 0 <= fee -> new_epoch c now s ok fee = Ok s' ->
  let g := Z.to_nat (d_grace s) in
  d_cursor s' = d_cursor s /\ d_grace s' = d_grace s /\ d_bal s' = d_bal s + fee /\
  exists ne, de_id ne = Z.of_nat (S (length (d_epochs s))) /\ de_avail ne = de_total ne /\ de_claimed ne = None /\
    ((g <= length (d_epochs s))%nat ->
       exists x, nth_error (d_epochs s) (g - 1) = Some x /\
         oz (de_total ne) = fee + oz (de_avail x) /\
         d_epochs s' = ne :: esave (mkDE (de_id x) (de_start x) (de_total x) None (de_claimed x)) (d_epochs s)) /\
    ((length (d_epochs s) < g)%nat -> oz (de_total ne) = fee /\ d_epochs s' = ne :: d_epochs s).
Proof. exact new_epoch_spec. Qed.

(* an accepted Claim: the payout equals the decrease of the available ledgers = the increase of the claimed ledgers =
   the decrease of the balance; ids, start times and totals are untouched; every epoch paid lies in the grace window,
   above the claimer's cursor (or, without a cursor, above its first bonded epoch) and at most the new cursor *)
Theorem C09_claim_exact : forall k s who fb shares s' p,
  Inv k s -> shares_wf shares -> claim s who fb shares = Ok (s', p) ->
  Inv k s' /\ 0 <= p /\
  p = sum_avail (d_epochs s) - sum_avail (d_epochs s') /\
  p = sum_claimed (d_epochs s') - sum_claimed (d_epochs s) /\
  d_bal s' = d_bal s - p /\ d_grace s' = d_grace s /\
  map (fun e => (de_id e, de_start e, de_total e)) (d_epochs s') = map (fun e => (de_id e, de_start e, de_total e)) (d_epochs s) /\
  exists newest rest, claimable s who fb = newest :: rest /\
    d_cursor s' = cset who (de_id newest) (d_cursor s) /\
    (forall e, In e (claimable s who fb) -> de_id e <= de_id newest /\ cursor_ok s who fb (de_id e) /\
        Z.of_nat (length (d_epochs s)) - d_grace s < de_id e).
Proof. exact claim_spec. Qed.

(* over a whole history no address is paid twice for the same epoch *)
Theorem C09_paid_once : forall c g h who, 1 <= g -> dhist_wf h ->
  NoDup (paid_ids who (dseffects c (dinit g) h)).
Proof. exact distributor_paid_once. Qed.

(* the grace period only grows (what the expiry argument rests on) *)
Theorem C09_grace_monotone : forall k s admin g s',
  Inv k s -> set_grace s admin g = Ok s' ->
  Inv k s' /\ admin = true /\ d_grace s <= g <= Params.MAX_GRACE_PERIOD /\ d_grace s' = g /\
  d_epochs s' = d_epochs s /\ d_cursor s' = d_cursor s /\ d_bal s' = d_bal s.
Proof. exact set_grace_spec. Qed.

(* whole-history conservation: at every point of every history, what the collector ever forwarded is either still available in
   some stored epoch or recorded as claimed in some stored epoch (rollovers move it between epochs, never out); the claimed
   ledgers sum to exactly what claimers were paid; and the bank balance is forwarded + plain transfers - paid *)
Theorem C09_conservation : forall c g h, 1 <= g -> dhist_wf h ->
  let s := dsrun c g h in let fs := dseffects c (dinit g) h in
  sum_claimed (d_epochs s) = paid_out fs /\
  d_bal s = fees_in fs + strays fs - paid_out fs /\
  fees_in fs = sum_avail (d_epochs s) + sum_claimed (d_epochs s) /\
  0 <= paid_out fs <= fees_in fs.
Proof. exact distributor_conservation. Qed.

(* the claim cursors over whole histories: a cursor always names a stored epoch (1 .. number of stored epochs), and along any
   continuation of any history no address's cursor ever moves back - with C09_claim_exact (only epochs above the cursor are paid)
   this is why a later claim can never reach an epoch already paid *)
Theorem C09_cursors : forall c g h1 h2, 1 <= g -> dhist_wf h1 -> dhist_wf h2 ->
  cursors_stored (dsrun c g h1) /\ cursors_le (dsrun c g h1) (dsrun c g (h1 ++ h2)).
Proof. exact distributor_cursors. Qed.

(* an accepted claim moves the claimer's cursor strictly forward *)
Theorem C09_claim_moves_cursor : forall k c now s who fb shares s' f,
  Inv k s -> shares_wf shares -> cursors_stored s -> dstep c now s (DClaim who fb shares) = Ok (s', f) ->
  exists v', cfind who (d_cursor s') = Some v' /\
    match cfind who (d_cursor s) with Some v => v < v' | None => True end.
Proof. exact claim_cursor_strict. Qed.

(* ---- non-vacuity -------------------------------------------------------------------------------------- *)
Definition DAY : Z := 86400000000000.
Definition T0 : Z := 1000 * DAY.
Definition Q : Z := 250000000000000000.   (* 0.25 *)
Definition nv_c : dcfg := mkDC DAY T0.
Definition nv_h : list dsevent :=
  [ (T0, DNewEpoch true 10000);
    (T0 + 5, DClaim 2 None [(1, SOk 0)]);                                   (* never bonded: rejected *)
    (T0 + DAY, DNewEpoch true 7777);
    (T0 + DAY + 5, DClaim 0 (Some 0) [(2, SOk Q); (1, SOk Q)]);             (* paid for epochs 2 and 1 *)
    (T0 + DAY + 5, DClaim 0 (Some 0) [(2, SOk Q); (1, SOk Q)]);             (* again: nothing to claim *)
    (T0 + 2 * DAY, DNewEpoch true 0);                                       (* epoch 1 expires: 7500 rolled into epoch 3 *)
    (T0 + 2 * DAY + 5, DSetGrace true 3); (T0 + 2 * DAY + 5, DSetGrace true 2);
    (T0 + 2 * DAY + 5, DStray 1000); (T0 + 2 * DAY + 5, DStray 0);          (* a plain transfer; an empty one is refused *)
    (T0 + 2 * DAY + 6, DClaim 1 (Some 1) [(3, SOk (3 * Q)); (2, SOk (3 * Q)); (1, SPanic)]);
    (T0 + 3 * DAY, DNewEpoch false 99); (T0 + 3 * DAY, DNewEpoch true 99) ].

Example C09_nonvacuous :
  dhist_wf nv_h /\
  dseffects nv_c (dinit 2) nv_h =
    [FNew 1 10000; FNew 2 7777; FPaid 0 [2; 1] 4444; FNew 3 0; FGrace 3; FStray 1000; FPaid 1 [3; 2] 11457; FNew 4 99] /\
  (let s := dsrun nv_c 2 nv_h in
   map (fun e => (de_id e, de_total e, de_avail e, de_claimed e)) (d_epochs s) =
     [(4, Some 99, Some 99, None); (3, Some 7500, Some 1875, Some 5625); (2, Some 7777, Some 1, Some 7776);
      (1, Some 10000, None, Some 2500)] /\
   d_bal s = 2975 /\ sum_avail (d_epochs s) = 1975 /\ d_grace s = 3 /\ d_cursor s = [(0, 2); (1, 3)]).
Proof.
  split.
  - unfold dhist_wf, nv_h, shares_wf. repeat constructor; cbn; unfold Q; try lia; try exact I.
  - vm_compute. repeat split; reflexivity.
Qed.

(* NewEpoch with coins attached (DNewEpochF): the coins join the balance and no epoch; an empty amount and an early call are refused *)
Example C09_nonvacuous_with_attached_coins :
  let h2 := nv_h ++ [ (T0 + 4 * DAY, DNewEpochF true 500 40); (T0 + 4 * DAY, DNewEpochF true 0 0); (T0 + 4 * DAY + 5, DNewEpochF true 1 1) ] in
  dhist_wf h2 /\
  dseffects nv_c (dinit 2) h2 =
    [FNew 1 10000; FNew 2 7777; FPaid 0 [2; 1] 4444; FNew 3 0; FGrace 3; FStray 1000; FPaid 1 [3; 2] 11457; FNew 4 99; FNewF 5 500 40] /\
  (let s := dsrun nv_c 2 h2 in
   map (fun e => (de_id e, de_total e, de_avail e, de_claimed e)) (d_epochs s) =
     [(5, Some 501, Some 501, None); (4, Some 99, Some 99, None); (3, Some 7500, Some 1875, Some 5625);
      (2, Some 7777, None, Some 7776); (1, Some 10000, None, Some 2500)] /\
   d_bal s = 3515 /\ sum_avail (d_epochs s) = 2475 /\ strays (dseffects nv_c (dinit 2) h2) = 1040).
Proof.
  cbn zeta. split.
  - unfold dhist_wf. apply Forall_app. split; [apply C09_nonvacuous|].
    repeat constructor; cbn; lia.
  - vm_compute. repeat split; reflexivity.
Qed.

(* the conservation identities on the history above: 17876 forwarded = 1975 available + 15901 claimed = paid *)
Example C09_conservation_nonvacuous :
  let fs := dseffects nv_c (dinit 2) nv_h in let s := dsrun nv_c 2 nv_h in
  fees_in fs = 17876 /\ paid_out fs = 15901 /\ strays fs = 1000 /\
  sum_avail (d_epochs s) = 1975 /\ sum_claimed (d_epochs s) = 15901 /\ d_bal s = 2975.
Proof. vm_compute. repeat split; reflexivity. Qed.

(* cursors on the history above: address 0 moved to 2, address 1 to 3, both stored epochs; the prefix of 4 events already has 0 at 2 *)
Example C09_cursors_nonvacuous :
  d_cursor (dsrun nv_c 2 (firstn 4 nv_h)) = [(0, 2)] /\ d_cursor (dsrun nv_c 2 nv_h) = [(0, 2); (1, 3)] /\
  length (d_epochs (dsrun nv_c 2 nv_h)) = 4%nat /\ firstn 4 nv_h ++ skipn 4 nv_h = nv_h.
Proof. vm_compute. repeat split; reflexivity. Qed.

Print Assumptions C09_cursors_nonvacuous.
Print Assumptions C09_cursors.
Print Assumptions C09_claim_moves_cursor.
Print Assumptions C09_conservation_nonvacuous.
Print Assumptions C09_conservation.
Print Assumptions C09_nonvacuous_with_attached_coins.
Print Assumptions C09_invariant.
Print Assumptions C09_epoch_ledger.
Print Assumptions C09_distributor_solvent.
Print Assumptions C09_distributor_exact_without_transfers.
Print Assumptions C09_expired_empty.
Print Assumptions C09_new_epoch_rollover.
Print Assumptions C09_claim_exact.
Print Assumptions C09_paid_once.
Print Assumptions C09_grace_monotone.
