(* C11 — incentive contract: staked LP is held one-for-one and returned to its owner.
   Only statements, `exact <lemma>`, non-vacuity examples and Print Assumptions live here.
   Model: theories/Incentive.v at v_fixed, including the frontend helper composed with the incentive contract
   (HelperDeposit; the pair contract is an oracle: whether it accepts and how many LP tokens it mints are inputs). *)
From WW Require Import Prim Params Incentive.
From WW.Proofs Require Import IncentiveLedger IncentiveFlows IncentiveInv IncentiveC12 IncentiveC11.

(* custody, lower bound: after any history the LP balance covers all open and closed positions plus the unclaimed
   funds of flows in the LP asset (nothing a user staked can be missing) *)
Theorem C11_custody_covers : forall c h e b,
  well_formed c h -> (forall a, 0 <= b SELF a) ->
  let st := run_history v_fixed c (init_state e b) h in
  pos_sum (s_open st) + pos_sum (s_closed st) + flows_out (c_lp c) (s_flows st) <= s_bal st SELF (c_lp c).
Proof.
  intros c h e b Hw Hb st. pose proof (flow_cover c h e b Hw Hb (c_lp c)) as H. cbn zeta in H.
  rewrite Z.eqb_refl in H. unfold staked in H. fold st in H. lia.
Qed.

(* custody, equality: as long as nobody hands the contract LP tokens outside the accounted operations (lp_clean: no
   donation of the LP asset, no stray LP-denom coin attached to a flow operation in another asset), the LP balance is
   exactly initial balance + open + closed positions + unclaimed LP-asset flow funds *)
Theorem C11_custody_exact : forall c h e b,
  well_formed c h -> 0 <= c_fee c -> Forall (lp_clean c) h -> (forall a, 0 <= b SELF a) ->
  let st := run_history v_fixed c (init_state e b) h in
  s_bal st SELF (c_lp c) = b SELF (c_lp c) + pos_sum (s_open st) + pos_sum (s_closed st) + flows_out (c_lp c) (s_flows st).
Proof. exact custody_from_init. Qed.

Theorem C11_custody_step : forall c st o st2,
  cfg_wf c -> 0 <= c_fee c -> op_wf o -> lp_clean c o -> Inv c st -> step v_fixed c st o = Ok st2 ->
  surplus c st2 = surplus c st.
Proof. exact step_surplus. Qed.

(* a withdrawal returns exactly the sum of the sender's closed positions, and nobody else's *)
Theorem C11_withdraw_own : forall c st sender st',
  sender <> SELF -> step v_fixed c st (Withdraw sender) = Ok st' ->
  let owed := pos_sum (pos_of sender (s_closed st)) in
  s_closed st' = pos_not sender (s_closed st) /\ s_open st' = s_open st /\
  pos_of sender (s_closed st') = [] /\ (forall u, u <> sender -> pos_of u (s_closed st') = pos_of u (s_closed st)) /\
  s_bal st' sender (c_lp c) = s_bal st sender (c_lp c) + owed /\
  s_bal st' SELF (c_lp c) = s_bal st SELF (c_lp c) - owed /\
  (forall y s, (y <> SELF /\ y <> sender) \/ s <> c_lp c -> s_bal st' y s = s_bal st y s).
Proof. exact withdraw_own. Qed.

(* a position is created (open = true) or expanded (open = false) by `amount` only if `amount` LP was received from
   the sender in the same transaction; for a receiver-directed deposit the position belongs to the receiver *)
Theorem C11_position_needs_funds : forall c st sender fs al amount d recv st' (open : bool),
  sender <> SELF -> funds_wf fs ->
  step v_fixed c st (if open then OpenPosition sender fs al amount d recv else ExpandPosition sender fs al amount d recv) = Ok st' ->
  let r := match recv with Some x => x | None => sender end in
  (if open then s_open st' = s_open st ++ [(r, (amount, d))] /\ has_pos r d (s_open st) = false
   else pos_add r d amount (s_open st) = Some (s_open st')) /\
  s_closed st' = s_closed st /\ amount <> 0 /\
  s_bal st' SELF (c_lp c) = s_bal st SELF (c_lp c) + amount /\
  s_bal st' sender (c_lp c) = s_bal st sender (c_lp c) - amount /\
  (forall y s, y <> SELF -> y <> sender -> s_bal st' y s = s_bal st y s).
Proof. exact position_needs_funds. Qed.

Theorem C11_expand_only_own : forall a d amt l l' u, pos_add a d amt l = Some l' -> u <> a -> pos_of u l' = pos_of u l.
Proof. exact pos_add_others. Qed.

(* closing moves the whole position one-for-one into the sender's closed positions; no token moves *)
Theorem C11_close_moves : forall c st sender d now st',
  step v_fixed c st (ClosePosition sender d now) = Ok st' ->
  exists amount,
    pos_take sender d (s_open st) = Some (amount, s_open st') /\
    s_closed st' = s_closed st ++ [(sender, (amount, now + d))] /\
    (forall y s, s_bal st' y s = s_bal st y s).
Proof. exact close_moves. Qed.
Theorem C11_close_only_own : forall a d l m l' u, pos_take a d l = Some (m, l') -> u <> a -> pos_of u l' = pos_of u l.
Proof. exact pos_take_others. Qed.

(* the frontend helper retains neither LP tokens nor deposited assets; what it stakes goes to the user's position *)
Theorem C11_helper_keeps_nothing : forall c st user fs al a0 d0 a1 d1 dur pair_ok minted st',
  user <> SELF -> user <> HELPER ->
  step v_fixed c st (HelperDeposit user fs al a0 d0 a1 d1 dur pair_ok minted) = Ok st' ->
  let staked_now := s_bal st HELPER (c_lp c) + minted in
  s_bal st' HELPER (c_lp c) = 0 /\
  (forall s, s <> c_lp c -> s_bal st' HELPER s = s_bal st HELPER s) /\
  s_bal st' SELF (c_lp c) = s_bal st SELF (c_lp c) + staked_now /\
  (s_open st' = s_open st ++ [(user, (staked_now, dur))] \/ pos_add user dur staked_now (s_open st) = Some (s_open st')) /\
  s_closed st' = s_closed st /\
  (forall u, u <> user -> pos_of u (s_open st') = pos_of u (s_open st)).
Proof. exact helper_keeps_nothing. Qed.

(* ---- non-vacuity -------------------------------------------------------------------------------------------------------- *)
(* three users, receiver-directed deposits, an LP-asset flow with a claim, close and withdraw; cw20 LP (asset 10) *)
Definition h_custody : list op :=
  [OpenFlow 1 [(0, 1000)] [(10, 900000)] None (Some 4) 10 900000 None;
   OpenPosition 2 [] [(10, 40000)] 40000 259200 (Some 3);
   OpenPosition 1 [] [(10, 777)] 777 86400 None;
   ExpandPosition 4 [] [(10, 5)] 5 259200 (Some 3);
   NewEpoch; Snapshot; Claim 3;
   ClosePosition 3 259200 1684602000;
   OpenPosition 3 [] [(10, 11)] 11 31556926 (Some 2)].
Definition st_custody : state := run_history v_fixed (cfg0 10 0) (init_state 1 b0) h_custody.

Example C11_custody_nonvacuous :
  well_formed (cfg0 10 0) h_custody /\ Forall (lp_clean (cfg0 10 0)) h_custody /\
  s_open st_custody = [(1, (777, 86400)); (2, (11, 31556926))] /\ s_closed st_custody = [(3, (40005, 1684861200))] /\
  flows_out 10 (s_flows st_custody) = 605681 /\ s_bal st_custody SELF 10 = 646474.
Proof.
  split; [wf_history|]. split; [repeat constructor; cbn; try discriminate; try lia; auto|].
  vm_compute. repeat split; reflexivity.
Qed.

Example C11_withdraw_own_nonvacuous :
  exists st', step v_fixed (cfg0 10 0) st_custody (Withdraw 3) = Ok st' /\
    s_bal st' 3 10 - s_bal st_custody 3 10 = 40005 /\ s_closed st' = [] /\ s_open st' = s_open st_custody.
Proof. eexists. split; [vm_compute; reflexivity|]. vm_compute. repeat split; reflexivity. Qed.

Example C11_position_needs_funds_nonvacuous :
  is_ok (step v_fixed (cfg0 10 0) st_custody (ExpandPosition 4 [] [(10, 9)] 9 86400 (Some 1))) = true /\
  is_ok (step v_fixed (cfg0 10 0) st_custody (OpenPosition 4 [] [(10, 8)] 9 86400 None)) = false.
Proof. vm_compute. split; reflexivity. Qed.

Example C11_close_moves_nonvacuous :
  is_ok (step v_fixed (cfg0 10 0) st_custody (ClosePosition 2 31556926 1684602000)) = true.
Proof. vm_compute. reflexivity. Qed.

(* helper: bob deposits through the helper while the helper already holds 7 stray LP tokens; 31622 are minted *)
Example C11_helper_nonvacuous :
  let st0 := run_history v_fixed (cfg0 10 0) (init_state 1 b0) [Gift 4 HELPER 10 7] in
  exists st', step v_fixed (cfg0 10 0) st0 (HelperDeposit 2 [(1, 1000000)] [(11, 1000000)] 1 1000000 11 1000000 86400 true 31622) = Ok st' /\
    s_bal st0 HELPER 10 = 7 /\ s_bal st' HELPER 10 = 0 /\ s_bal st' HELPER 1 = 0 /\ s_bal st' HELPER 11 = 0 /\
    s_open st' = [(2, (31629, 86400))] /\ s_bal st' SELF 10 = 31629.
Proof. cbn zeta. eexists. split; [vm_compute; reflexivity|]. vm_compute. repeat split; reflexivity. Qed.

Print Assumptions C11_custody_covers.
Print Assumptions C11_custody_exact.
Print Assumptions C11_custody_step.
Print Assumptions C11_withdraw_own.
Print Assumptions C11_position_needs_funds.
Print Assumptions C11_expand_only_own.
Print Assumptions C11_close_moves.
Print Assumptions C11_close_only_own.
Print Assumptions C11_helper_keeps_nothing.
