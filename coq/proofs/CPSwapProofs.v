(* CPSwapProofs.v — closed form of compute_swap_cp on the property's domain and the C02 facts *)
From WW Require Import Prim CPSwap.
From WW.Proofs Require Import ArithLemmas.

Definition dom (z : Z) : Prop := 1 <= z < P128.
Definition fees_ok (f : fees) : Prop :=
  0 <= f_protocol f /\ 0 <= f_swap f /\ 0 <= f_burn f /\ poolfee_valid f = true.

Definition gross (op ask x : Z) : Z := ask * x / (op + x).
Definition ideal_spread (op ask x : Z) : Z := ssub (x * (ask * DEC / op) / DEC) (gross op ask x).

Lemma fees_ok_sum f : fees_ok f ->
  0 <= f_protocol f /\ 0 <= f_swap f /\ 0 <= f_burn f /\ f_protocol f + f_swap f + f_burn f < DEC.
Proof.
  intros (Hp & Hs & Hb & Hv). unfold poolfee_valid in Hv.
  repeat (apply andb_true_iff in Hv as [Hv ?]).
  match goal with H : (_ <? DEC) = true |- _ => apply Z.ltb_lt in H end. lia.
Qed.

Lemma gross_lt_ask op ask x : dom op -> dom ask -> 0 <= x -> gross op ask x < ask.
Proof.
  unfold dom, gross. intros Ho Ha Hx. apply Z.div_lt_upper_bound; nia.
Qed.

Lemma gross_nonneg op ask x : dom op -> dom ask -> 0 <= x -> 0 <= gross op ask x.
Proof. unfold dom, gross. intros. apply Z.div_pos; nia. Qed.

Definition dom0 (z : Z) : Prop := 0 <= z < P128.
Lemma gross_le_ask0 op ask x : dom op -> dom0 ask -> 0 <= x -> 0 <= gross op ask x <= ask.
Proof.
  unfold dom, dom0, gross. intros Ho Ha Hx. split. apply Z.div_pos; nia.
  apply Z.div_le_upper_bound; nia.
Qed.

(* closed form *)
Definition swap_closed (op ask x : Z) (f : fees) : outcome swapc :=
  let G := gross op ask x in
  let sf := G * f_swap f / DEC in
  let pf := G * f_protocol f / DEC in
  let bf := G * f_burn f / DEC in
  let sp := ideal_spread op ask x in
  if fits128 sp then Ok (mkSwap (G - sf - pf - bf) sp sf pf bf) else Err E_OTHER.

Lemma big1 a b : 0 <= a < P128 -> 0 <= b < P128 -> 0 <= a * b < P256.
Proof. rewrite P256_eq. intros. nia. Qed.

Lemma compute_swap_cp_closed0 op ask x f :
  dom op -> dom0 ask -> 0 <= x < P128 -> fees_ok f ->
  compute_swap_cp op ask x f = swap_closed op ask x f.
Proof.
  intros Ho Ha Hx Hf. pose proof (fees_ok_sum f Hf) as (Hp & Hs & Hb & Hsum).
  pose proof DEC_pos as HD. pose proof DEC_lt_P64 as HD64.
  pose proof P64_sq as H64. pose proof P256_eq as H256.
  assert (HP128 : 0 < P128) by reflexivity.
  assert (HPD : P128 * DEC < P256) by reflexivity.
  pose proof (gross_le_ask0 op ask x Ho Ha (proj1 Hx)) as [HG0 HG].
  unfold dom, dom0 in *.
  pose proof (big1 x ask ltac:(lia) ltac:(lia)) as Hxa.
  assert (HaD : ask * DEC < P256) by nia.
  unfold compute_swap_cp, swap_closed.
  (* num *)
  unfold pmul. rewrite (fits_intro P256 (ask * x)) by (apply big1; lia). cbn [bind].
  unfold padd. rewrite (fits_intro P256 (op + x)) by (rewrite H256; nia). cbn [bind].
  (* from_ratio *)
  unfold dec_from_ratio. replace (op + x =? 0) with false by (symmetry; apply Z.eqb_neq; lia).
  assert (Hr : 0 <= ask * x * DEC / (op + x) <= ask * DEC).
  { split. apply Z.div_pos; nia. apply Z.div_le_upper_bound; nia. }
  replace (ask * x * DEC / (op + x) <? P256) with true by (symmetry; apply Z.ltb_lt; nia).
  cbn [bind].
  unfold mul_dec at 1. rewrite Z.mul_1_l.
  rewrite (nested_floor (ask * x) (op + x) DEC) by lia.
  fold (gross op ask x).
  replace (gross op ask x <? P256) with true by (symmetry; apply Z.ltb_lt; nia).
  cbn [bind].
  replace (op =? 0) with false by (symmetry; apply Z.eqb_neq; lia).
  assert (Hrate : 0 <= ask * DEC / op <= ask * DEC).
  { split. apply Z.div_pos; nia. apply Z.div_le_upper_bound; nia. }
  replace (ask * DEC / op <? P256) with true by (symmetry; apply Z.ltb_lt; nia).
  cbn [bind].
  assert (Ht : 0 <= x * (ask * DEC / op) / DEC <= x * ask).
  { split. apply Z.div_pos; nia. apply Z.div_le_upper_bound; nia. }
  unfold mul_dec at 1.
  replace (x * (ask * DEC / op) / DEC <? P256) with true by (symmetry; apply Z.ltb_lt; nia).
  cbn [bind].
  unfold fee_compute, mul_dec.
  set (G := gross op ask x) in *.
  assert (Hsf : 0 <= G * f_swap f / DEC <= G).
  { split. apply Z.div_pos; nia. apply Z.div_le_upper_bound; nia. }
  assert (Hpf : 0 <= G * f_protocol f / DEC <= G).
  { split. apply Z.div_pos; nia. apply Z.div_le_upper_bound; nia. }
  assert (Hbf : 0 <= G * f_burn f / DEC <= G).
  { split. apply Z.div_pos; nia. apply Z.div_le_upper_bound; nia. }
  replace (G * f_swap f / DEC <? P256) with true by (symmetry; apply Z.ltb_lt; nia).
  replace (G * f_protocol f / DEC <? P256) with true by (symmetry; apply Z.ltb_lt; nia).
  replace (G * f_burn f / DEC <? P256) with true by (symmetry; apply Z.ltb_lt; nia).
  cbn [bind].
  pose proof (floor_sum3_le G (f_swap f) (f_protocol f) (f_burn f) DEC HG0 Hs Hp Hb HD ltac:(lia)) as Hsum3.
  unfold psub.
  replace (G * f_swap f / DEC <=? G) with true by (symmetry; apply Z.leb_le; lia). cbn [bind].
  replace (G * f_protocol f / DEC <=? G - G * f_swap f / DEC) with true by (symmetry; apply Z.leb_le; lia).
  cbn [bind].
  replace (G * f_burn f / DEC <=? G - G * f_swap f / DEC - G * f_protocol f / DEC) with true
    by (symmetry; apply Z.leb_le; lia).
  cbn [bind].
  unfold to128 at 1. unfold fits128. rewrite (fits_intro P128 (G - _ - _ - _)) by lia. cbn [bind].
  unfold ideal_spread. fold G.
  unfold to128 at 1. unfold fits128.
  destruct (fits P128 (ssub (x * (ask * DEC / op) / DEC) G)) eqn:Hsp; cbn [bind]; [|reflexivity].
  unfold to128, fits128.
  rewrite (fits_intro P128 (G * f_swap f / DEC)) by lia. cbn [bind].
  rewrite (fits_intro P128 (G * f_protocol f / DEC)) by lia. cbn [bind].
  rewrite (fits_intro P128 (G * f_burn f / DEC)) by lia. cbn [bind].
  reflexivity.
Qed.

Lemma compute_swap_cp_closed op ask x f :
  dom op -> dom ask -> 0 <= x < P128 -> fees_ok f ->
  compute_swap_cp op ask x f = swap_closed op ask x f.
Proof. intros Ho Ha. apply compute_swap_cp_closed0; auto. unfold dom, dom0 in *. lia. Qed.

(* ---- C02 facts --------------------------------------------------------- *)
Section Facts.
  Variables (op ask x : Z) (f : fees).
  Hypotheses (Ho : dom op) (Ha : dom ask) (Hx : dom x) (Hf : fees_ok f).

  Let Hx' : 0 <= x < P128. Proof. unfold dom in Hx; lia. Qed.

  Lemma cp_total : fits128 (ideal_spread op ask x) = true -> exists s, compute_swap_cp op ask x f = Ok s.
  Proof.
    intro Hs. rewrite compute_swap_cp_closed by assumption. unfold swap_closed. rewrite Hs. eauto.
  Qed.

  Lemma cp_never_panics : compute_swap_cp op ask x f <> Panic.
  Proof.
    rewrite compute_swap_cp_closed by assumption. unfold swap_closed.
    destruct (fits128 _); discriminate.
  Qed.

  Lemma cp_ok_inv s : compute_swap_cp op ask x f = Ok s ->
    let G := gross op ask x in
    s_swapfee s = G * f_swap f / DEC /\ s_protfee s = G * f_protocol f / DEC /\
    s_burnfee s = G * f_burn f / DEC /\ s_ret s = G - s_swapfee s - s_protfee s - s_burnfee s /\
    s_spread s = ideal_spread op ask x.
  Proof.
    rewrite compute_swap_cp_closed by assumption. unfold swap_closed.
    destruct (fits128 _); [|discriminate]. intro H; inversion H; subst; cbn. repeat split; reflexivity.
  Qed.

  Lemma cp_gross_exact s : compute_swap_cp op ask x f = Ok s ->
    s_ret s + s_swapfee s + s_protfee s + s_burnfee s = ask * x / (op + x).
  Proof. intro H. apply cp_ok_inv in H. cbv zeta in H. unfold gross in H. lia. Qed.

  Lemma cp_fee_exact s : compute_swap_cp op ask x f = Ok s ->
    let G := ask * x / (op + x) in
    s_swapfee s = G * f_swap f / DEC /\ s_protfee s = G * f_protocol f / DEC /\
    s_burnfee s = G * f_burn f / DEC.
  Proof. intro H. apply cp_ok_inv in H. cbv zeta in H. unfold gross in H. cbv zeta. tauto. Qed.

  Lemma cp_amounts_nonneg s : compute_swap_cp op ask x f = Ok s ->
    0 <= s_ret s /\ 0 <= s_swapfee s /\ 0 <= s_protfee s /\ 0 <= s_burnfee s /\ 0 <= s_spread s.
  Proof.
    intro H. apply cp_ok_inv in H. cbv zeta in H. destruct H as (H1 & H2 & H3 & H4 & H5).
    pose proof (fees_ok_sum f Hf) as (Hp & Hs & Hb & Hsum). pose proof DEC_pos.
    pose proof (gross_nonneg op ask x Ho Ha (proj1 Hx')) as HG0.
    pose proof (floor_sum3_le (gross op ask x) (f_swap f) (f_protocol f) (f_burn f) DEC HG0 Hs Hp Hb
                  ltac:(lia) ltac:(lia)).
    assert (0 <= gross op ask x * f_swap f / DEC) by (apply Z.div_pos; nia).
    assert (0 <= gross op ask x * f_protocol f / DEC) by (apply Z.div_pos; nia).
    assert (0 <= gross op ask x * f_burn f / DEC) by (apply Z.div_pos; nia).
    rewrite H5. unfold ideal_spread, ssub. lia.
  Qed.

  Lemma cp_proceeds_lt_ask s : compute_swap_cp op ask x f = Ok s -> s_ret s < ask.
  Proof.
    intro H. pose proof (cp_amounts_nonneg s H) as (? & ? & ? & ? & ?).
    pose proof (cp_gross_exact s H) as HG. pose proof (gross_lt_ask op ask x Ho Ha (proj1 Hx')).
    unfold gross in *. lia.
  Qed.
End Facts.

(* round trip: after the first swap the pool's offer side is op+x and its ask side keeps at least
   ask - gross (the code keeps ask - ret - protocol_fee - burn_fee >= ask - gross). Swapping the
   proceeds straight back returns at most x. *)
Lemma cp_roundtrip op ask x f f2 s ask' s2 :
  dom op -> dom ask -> dom x -> fees_ok f -> fees_ok f2 -> op + x < P128 ->
  compute_swap_cp op ask x f = Ok s ->
  ask - gross op ask x <= ask' < P128 ->
  compute_swap_cp ask' (op + x) (s_ret s) f2 = Ok s2 ->
  s_ret s2 <= x.
Proof.
  intros Ho Ha Hx Hf Hf2 Hox H1 Hask' H2. unfold dom in *.
  pose proof (cp_amounts_nonneg op ask x f Ho Ha Hx Hf s H1) as (Hr0 & Hsf0 & Hpf0 & Hbf0 & _).
  pose proof (cp_gross_exact op ask x f Ho Ha Hx Hf s H1) as HG.
  pose proof (gross_lt_ask op ask x Ho Ha ltac:(lia)) as HGa. unfold gross in *.
  set (G := ask * x / (op + x)) in *.
  assert (Hr1 : s_ret s <= G) by lia.
  assert (Hd1 : dom ask') by (unfold dom; lia).
  assert (Hd2 : dom (op + x)) by (unfold dom; lia).
  assert (Hrr : 0 <= s_ret s < P128) by lia.
  rewrite compute_swap_cp_closed in H2 by assumption.
  unfold swap_closed in H2. destruct (fits128 _) in H2; [|discriminate]. inversion H2; subst s2; cbn.
  clear H2.
  pose proof (fees_ok_sum f2 Hf2) as (Hp & Hs & Hb & Hsum). pose proof DEC_pos.
  set (G2 := gross ask' (op + x) (s_ret s)).
  assert (HG20 : 0 <= G2) by (apply gross_nonneg; assumption || lia).
  assert (0 <= G2 * f_swap f2 / DEC) by (apply Z.div_pos; nia).
  assert (0 <= G2 * f_protocol f2 / DEC) by (apply Z.div_pos; nia).
  assert (0 <= G2 * f_burn f2 / DEC) by (apply Z.div_pos; nia).
  enough (G2 <= x) by lia.
  unfold G2, gross. apply Z.div_le_upper_bound; [lia|].
  (* (op+x) * r <= (ask' + r) * x  where r <= G, ask' >= ask - G, (op+x)*G <= ask*x *)
  assert (HGm : (op + x) * G <= ask * x) by (apply Z.mul_div_le; lia).
  set (r := s_ret s) in *.
  assert (op * r <= x * (ask - G)) by nia.
  nia.
Qed.

(* the pre-fix code aborts on an input whose result fits: the witness replayed on the implementation *)
Definition c02_witness_op  : Z := 4000000000000000000.
Definition c02_witness_ask : Z := 3.
Definition c02_witness_x   : Z := 2^127.
Lemma cp_unfixed_refuted :
  let f := mkFees 0 0 0 in
  compute_swap_cp_unfixed c02_witness_op c02_witness_ask c02_witness_x f = Panic /\
  fits128 (ideal_spread c02_witness_op c02_witness_ask c02_witness_x) = true /\
  compute_swap_cp c02_witness_op c02_witness_ask c02_witness_x f = Ok (mkSwap 2 0 0 0 0).
Proof. vm_compute. repeat split; reflexivity. Qed.
