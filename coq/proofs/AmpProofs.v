(* AmpProofs.v — amplification ramp: interpolation closed form, bounds, acceptance rule, config histories. *)
From WW Require Import Prim Params Amp.
From WW.Proofs Require Import ArithLemmas.

Local Ltac boolprep :=
  repeat match goal with
  | H : (_ <? _) = true |- _ => apply Z.ltb_lt in H
  | H : (_ <? _) = false |- _ => apply Z.ltb_ge in H
  | H : (_ <=? _) = true |- _ => apply Z.leb_le in H
  | H : (_ <=? _) = false |- _ => apply Z.leb_gt in H
  | H : (_ =? _) = true |- _ => apply Z.eqb_eq in H
  | H : (_ =? _) = false |- _ => apply Z.eqb_neq in H
  | H : fits _ _ = true |- _ => apply fits_true in H
  | H : fits64 _ = true |- _ => apply fits_true in H
  | H : fits128 _ = true |- _ => apply fits_true in H
  end.

Lemma fits_false w z : fits w z = false -> z < 0 \/ w <= z.
Proof. unfold fits. rewrite andb_false_iff, Z.leb_gt, Z.ltb_ge. tauto. Qed.

Lemma P64_lt_P128 : P64 < P128. Proof. reflexivity. Qed.
Lemma P64_sq : P64 * P64 = P128. Proof. reflexivity. Qed.
Lemma P64_pos : 0 < P64. Proof. reflexivity. Qed.

(* all five fields are u64 *)
Definition u64 (z : Z) : Prop := 0 <= z < P64.
Definition ramp_u64 (r : ramp) : Prop :=
  u64 (r_a0 r) /\ u64 (r_a1 r) /\ u64 (r_now r) /\ u64 (r_h0 r) /\ u64 (r_h1 r).

(* floor(R*d/T) lies in [0, R] for 0 <= d <= T, T > 0 *)
Lemma interp_bounds R d T : 0 <= R -> 0 <= d <= T -> 0 < T -> 0 <= R * d / T <= R.
Proof.
  intros HR Hd HT. split.
  - apply Z.div_pos; nia.
  - apply Z.div_le_upper_bound; nia.
Qed.

(* the closed form the property speaks about *)
Definition amp_closed (r : ramp) : Z :=
  if r_now r <? r_h1 r then
    if r_a0 r <=? r_a1 r
    then r_a0 r + (r_a1 r - r_a0 r) * (r_now r - r_h0 r) / (r_h1 r - r_h0 r)
    else r_a0 r - (r_a0 r - r_a1 r) * (r_now r - r_h0 r) / (r_h1 r - r_h0 r)
  else r_a1 r.

(* inside a ramp that has started, and after it, the code returns the closed form (never None) *)
Lemma amp_linear r : ramp_u64 r -> r_h0 r <= r_now r -> compute_amp_factor r = Ok (amp_closed r).
Proof.
  intros (Ha0 & Ha1 & Hn & Hh0 & Hh1) Hstart. unfold u64 in *.
  unfold compute_amp_factor, amp_closed.
  destruct (r_now r <? r_h1 r) eqn:Enow; [|reflexivity]. boolprep.
  unfold osub.
  assert (E1 : (r_h0 r <=? r_h1 r) = true) by (apply Z.leb_le; lia). rewrite E1.
  assert (E2 : (r_h0 r <=? r_now r) = true) by (apply Z.leb_le; lia). rewrite E2.
  cbn [bind].
  set (T := r_h1 r - r_h0 r). set (d := r_now r - r_h0 r).
  assert (HT : 0 < T) by (unfold T; lia). assert (Hd : 0 <= d <= T) by (unfold d, T; lia).
  assert (HTd : d < P64) by (unfold d; lia).
  pose proof P64_sq as SQ. pose proof P64_lt_P128 as LT. pose proof P64_pos as PP.
  destruct (r_a0 r <=? r_a1 r) eqn:Edir; boolprep;
    assert (ET : (T =? 0) = false) by (apply Z.eqb_neq; lia).
  - assert (E3 : (r_a0 r <=? r_a1 r) = true) by (apply Z.leb_le; lia). try rewrite E3. cbn [bind].
    set (R := r_a1 r - r_a0 r). assert (HR : 0 <= R < P64) by (unfold R; lia).
    pose proof (interp_bounds R d T ltac:(lia) Hd HT) as B.
    assert (F1 : fits128 (R * d) = true) by (apply fits_intro; nia). rewrite F1. cbn [bind].
    rewrite ET. cbn [bind].
    assert (F2 : fits64 (R * d / T) = true) by (apply fits_intro; lia). rewrite F2. cbn [bind].
    unfold oadd64. assert (F3 : fits64 (r_a0 r + R * d / T) = true) by (apply fits_intro; unfold R in *; lia).
    rewrite F3. reflexivity.
  - assert (E3 : (r_a1 r <=? r_a0 r) = true) by (apply Z.leb_le; lia). rewrite E3. cbn [bind].
    set (R := r_a0 r - r_a1 r). assert (HR : 0 <= R < P64) by (unfold R; lia).
    pose proof (interp_bounds R d T ltac:(lia) Hd HT) as B.
    assert (F1 : fits128 (R * d) = true) by (apply fits_intro; nia). rewrite F1. cbn [bind].
    rewrite ET. cbn [bind].
    assert (F2 : fits64 (R * d / T) = true) by (apply fits_intro; lia). rewrite F2. cbn [bind].
    assert (E4 : (R * d / T <=? r_a0 r) = true) by (apply Z.leb_le; unfold R in *; lia). rewrite E4. reflexivity.
Qed.

Lemma amp_closed_between r : r_h0 r <= r_now r ->
  Z.min (r_a0 r) (r_a1 r) <= amp_closed r <= Z.max (r_a0 r) (r_a1 r).
Proof.
  intros Hs. unfold amp_closed.
  destruct (r_now r <? r_h1 r) eqn:En; boolprep; [|lia].
  destruct (r_a0 r <=? r_a1 r) eqn:Ed; boolprep.
  - pose proof (interp_bounds (r_a1 r - r_a0 r) (r_now r - r_h0 r) (r_h1 r - r_h0 r)). lia.
  - pose proof (interp_bounds (r_a0 r - r_a1 r) (r_now r - r_h0 r) (r_h1 r - r_h0 r)). lia.
Qed.

(* whatever the code returns (for ANY u64 fields, started or not) lies between start and target *)
Lemma amp_between r a : ramp_u64 r -> compute_amp_factor r = Ok a ->
  Z.min (r_a0 r) (r_a1 r) <= a <= Z.max (r_a0 r) (r_a1 r).
Proof.
  intros U H.
  destruct (Z_le_gt_dec (r_h0 r) (r_now r)) as [Hs|Hs].
  - rewrite (amp_linear r U Hs) in H. inversion H; subst. apply amp_closed_between; exact Hs.
  - (* not started: current_ts - start underflows -> None, or the ramp is over *)
    unfold compute_amp_factor in H.
    destruct (r_now r <? r_h1 r) eqn:En.
    + unfold osub in H. destruct (r_h0 r <=? r_h1 r); cbn [bind] in H; [|discriminate].
      assert (E : (r_h0 r <=? r_now r) = false) by (apply Z.leb_gt; lia). rewrite E in H. discriminate.
    + inversion H; subst. lia.
Qed.

(* the value moves towards the target and never overshoots: monotone in the height *)
Lemma amp_closed_monotone r n' : r_h0 r <= r_now r <= n' ->
  let r' := mkRamp (r_a0 r) (r_a1 r) n' (r_h0 r) (r_h1 r) in
  (r_a0 r <= r_a1 r -> amp_closed r <= amp_closed r') /\ (r_a1 r <= r_a0 r -> amp_closed r' <= amp_closed r).
Proof.
  intros Hn r'. unfold amp_closed, r'; cbn [r_a0 r_a1 r_now r_h0 r_h1].
  destruct (r_now r <? r_h1 r) eqn:E1; destruct (n' <? r_h1 r) eqn:E2; boolprep; try lia.
  - destruct (r_a0 r <=? r_a1 r) eqn:Ed; boolprep; split; intros; try lia.
    + apply Zplus_le_compat_l. apply Z.div_le_mono; nia.
    + assert (r_a1 r = r_a0 r) by lia.
      replace (r_a1 r - r_a0 r) with 0 by lia. rewrite !Z.mul_0_l, Zdiv_0_l. lia.
    + apply Z.sub_le_mono_l. apply Z.div_le_mono; nia.
  - destruct (r_a0 r <=? r_a1 r) eqn:Ed; boolprep; split; intros; try lia.
    + pose proof (interp_bounds (r_a1 r - r_a0 r) (r_now r - r_h0 r) (r_h1 r - r_h0 r)). lia.
    + pose proof (interp_bounds (r_a1 r - r_a0 r) (r_now r - r_h0 r) (r_h1 r - r_h0 r)). lia.
    + pose proof (interp_bounds (r_a0 r - r_a1 r) (r_now r - r_h0 r) (r_h1 r - r_h0 r)). lia.
Qed.

(* ---- acceptance rule --------------------------------------------------------------------------- *)
Section Accept.
  Variables MINA MAXA CHG MINB : Z.
  Hypothesis HCHG : 0 < CHG.
  Hypothesis HMIN : 0 <= MINA.

  Lemma change_over_max_spec fa cur b : 0 <= fa -> change_over_max CHG fa cur = Ok b ->
    b = false -> fa <= CHG * cur /\ cur <= CHG * fa.
  Proof.
    unfold change_over_max, mul64, pmul. intros Hfa H Hb; subst b.
    destruct (cur <? fa) eqn:E1; cbn [bind] in H.
    - destruct (fits P64 (cur * CHG)); cbn [bind] in H; [|discriminate].
      destruct (cur * CHG <? fa) eqn:E2; [discriminate|].
      assert (E3 : (fa <? cur) = false) by (boolprep; apply Z.ltb_ge; lia). rewrite E3 in H.
      boolprep. split; nia.
    - destruct (fa <? cur) eqn:E2.
      + destruct (fits P64 (fa * CHG)); cbn [bind] in H; [|discriminate].
        destruct (fa * CHG <? cur) eqn:E3; [discriminate|]. boolprep. split; nia.
      + boolprep. assert (fa = cur) by lia. subst. split; nia.
  Qed.

  (* accepted  ->  the new target is within a factor CHG of the current value, both ways *)
  Lemma ramp_accept_sound c now fa fb c' :
    ramp_step MINA MAXA CHG MINB c now fa fb = Ok c' ->
    exists cur, compute_amp_factor (ramp_of c now) = Ok cur /\ c' = mkAmp cur fa now fb /\
                fa <= CHG * cur /\ cur <= CHG * fa.
  Proof.
    unfold ramp_step, ramp_step_with. intros H.
    destruct (compute_amp_factor (ramp_of c now)) as [cur| |] eqn:EC; cbn [unwrap bind] in H; try discriminate.
    destruct (negb (fa <? MINA)) eqn:E1; cbn [ensure bind] in H; [|discriminate].
    destruct (negb (MAXA <? fa)); cbn [ensure bind] in H; [|discriminate].
    destruct (change_over_max CHG fa cur) as [o| |] eqn:EO; cbn [bind] in H; try discriminate.
    destruct o; cbn [negb ensure bind] in H; [discriminate|].
    unfold padd in H. destruct (fits P64 (now + MINB)); cbn [bind] in H; [|discriminate].
    destruct (negb (fb <? now + MINB)); cbn [ensure bind] in H; [|discriminate].
    inversion H; subst. exists cur. split; [reflexivity|]. split; [reflexivity|].
    apply negb_true_iff in E1. boolprep.
    eapply change_over_max_spec; eauto. lia.
  Qed.

  Lemma ramp_accept_range c now fa fb c' :
    ramp_step MINA MAXA CHG MINB c now fa fb = Ok c' ->
    MINA <= fa <= MAXA /\ now + MINB <= fb /\ c_a1 c' = fa /\ c_h0 c' = now /\ c_h1 c' = fb.
  Proof.
    unfold ramp_step, ramp_step_with. intros H.
    destruct (compute_amp_factor (ramp_of c now)) as [cur| |] eqn:EC; cbn [unwrap bind] in H; try discriminate.
    destruct (negb (fa <? MINA)) eqn:E1; cbn [ensure bind] in H; [|discriminate].
    destruct (negb (MAXA <? fa)) eqn:E2; cbn [ensure bind] in H; [|discriminate].
    destruct (change_over_max CHG fa cur) as [o| |] eqn:EO; cbn [bind] in H; try discriminate.
    destruct o; cbn [negb ensure bind] in H; [discriminate|].
    unfold padd in H. destruct (fits P64 (now + MINB)); cbn [bind] in H; [|discriminate].
    destruct (negb (fb <? now + MINB)) eqn:E3; cbn [ensure bind] in H; [|discriminate].
    inversion H; subst. cbn. apply negb_true_iff in E1, E2, E3. boolprep. lia.
  Qed.

  (* completeness of the repaired rule: every request inside the stated bounds is accepted *)
  Lemma ramp_accept_complete c now fa fb cur :
    compute_amp_factor (ramp_of c now) = Ok cur -> 0 <= cur -> CHG * cur < P64 -> CHG * fa < P64 -> 0 <= fa ->
    MINA <= fa <= MAXA -> fa <= CHG * cur -> cur <= CHG * fa -> 0 <= now + MINB < P64 -> now + MINB <= fb ->
    ramp_step MINA MAXA CHG MINB c now fa fb = Ok (mkAmp cur fa now fb).
  Proof.
    intros EC Hc O1 O2 Hf R B1 B2 HN HB. unfold ramp_step, ramp_step_with. rewrite EC. cbn [unwrap bind].
    assert (E1 : (fa <? MINA) = false) by (apply Z.ltb_ge; lia). rewrite E1. cbn [negb ensure bind].
    assert (E2 : (MAXA <? fa) = false) by (apply Z.ltb_ge; lia). rewrite E2. cbn [negb ensure bind].
    assert (EO : change_over_max CHG fa cur = Ok false).
    { unfold change_over_max, mul64, pmul.
      destruct (cur <? fa) eqn:E3; cbn [bind].
      - assert (F : fits P64 (cur * CHG) = true) by (apply fits_intro; nia). rewrite F. cbn [bind].
        assert (E4 : (cur * CHG <? fa) = false) by (apply Z.ltb_ge; nia). rewrite E4.
        assert (E5 : (fa <? cur) = false) by (boolprep; apply Z.ltb_ge; lia). rewrite E5. reflexivity.
      - destruct (fa <? cur) eqn:E4; [|reflexivity].
        assert (F : fits P64 (fa * CHG) = true) by (apply fits_intro; nia). rewrite F. cbn [bind].
        assert (E5 : (fa * CHG <? cur) = false) by (apply Z.ltb_ge; nia). rewrite E5. reflexivity. }
    rewrite EO. cbn [bind negb ensure].
    unfold padd. assert (F : fits P64 (now + MINB) = true) by (apply fits_intro; lia). rewrite F. cbn [bind].
    assert (E6 : (fb <? now + MINB) = false) by (apply Z.ltb_ge; lia). rewrite E6. reflexivity.
  Qed.

  (* ---- config histories ---- *)
  Hypothesis HMAX : MAXA < P64.
  Hypothesis HMINB : 0 <= MINB.

  (* invariant: both ends in range, the ramp started no later than the current height, everything u64 *)
  Definition amp_inv (st : ampcfg * Z) : Prop :=
    let '(c, h) := st in
    MINA <= c_a0 c <= MAXA /\ MINA <= c_a1 c <= MAXA /\ 0 <= c_h0 c <= h /\ 0 <= c_h1 c < P64.

  Lemma amp_inv_amp c h h' : amp_inv (c, h) -> h <= h' < P64 ->
    exists a, compute_amp_factor (ramp_of c h') = Ok a /\ MINA <= a <= MAXA /\
              Z.min (c_a0 c) (c_a1 c) <= a <= Z.max (c_a0 c) (c_a1 c).
  Proof.
    intros (I0 & I1 & I2 & I3) Hh.
    assert (U : ramp_u64 (ramp_of c h')) by (unfold ramp_u64, ramp_of, u64; cbn [r_a0 r_a1 r_now r_h0 r_h1]; lia).
    exists (amp_closed (ramp_of c h')). split.
    - apply amp_linear; [exact U | cbn; lia].
    - pose proof (amp_closed_between (ramp_of c h') ltac:(cbn; lia)) as B. cbn in B. lia.
  Qed.

  Definition rop_ok (o : rop) : Prop := 0 <= o_dh o /\ 0 <= o_fb o < P64.

  Lemma ramp_apply_inv st o : amp_inv st -> rop_ok o -> snd st + o_dh o < P64 ->
    amp_inv (fst (ramp_apply (ramp_step MINA MAXA CHG MINB) st o)).
  Proof.
    destruct st as [c h]. intros I (Hd & Hfb) Hh. cbn [snd] in Hh.
    unfold ramp_apply.
    destruct (o_owner o).
    - destruct (ramp_step MINA MAXA CHG MINB c (h + o_dh o) (o_fa o) (o_fb o)) as [c'| |] eqn:ES; cbn [fst].
      + destruct (ramp_accept_sound _ _ _ _ _ ES) as (cur & EC & -> & _).
        destruct (ramp_accept_range _ _ _ _ _ ES) as (R & _).
        destruct (amp_inv_amp c h (h + o_dh o) I ltac:(destruct I as (_&_&?&_); lia)) as (a & EA & RA & _).
        rewrite EA in EC. inversion EC; subst. cbn [amp_inv c_a0 c_a1 c_h0 c_h1 fst snd]. destruct I as (_ & _ & I2 & _). lia.
      + destruct I as (I0 & I1 & I2 & I3). cbn [amp_inv c_a0 c_a1 c_h0 c_h1 fst snd]. lia.
      + destruct I as (I0 & I1 & I2 & I3). cbn [amp_inv c_a0 c_a1 c_h0 c_h1 fst snd]. lia.
    - cbn [fst]. destruct I as (I0 & I1 & I2 & I3). cbn [amp_inv c_a0 c_a1 c_h0 c_h1 fst snd]. lia.
  Qed.

  Fixpoint total_dh (l : list rop) : Z := match l with [] => 0 | o :: l' => o_dh o + total_dh l' end.

  Lemma total_dh_nonneg l : Forall rop_ok l -> 0 <= total_dh l.
  Proof. induction 1 as [|o l (H & _) _ IH]; cbn [total_dh]; lia. Qed.

  Lemma ramp_run_height st l : snd (ramp_run (ramp_step MINA MAXA CHG MINB) st l) = snd st + total_dh l.
  Proof.
    revert st; induction l as [|o l IH]; intros [c h]; cbn [ramp_run total_dh snd]; [lia|].
    rewrite IH. unfold ramp_apply.
    destruct (if o_owner o then _ else _); cbn [fst snd]; lia.
  Qed.

  (* over ANY history of config calls by anyone, with the chain height only moving forward (and staying u64),
     the invariant holds, so the effective amp at the end and at every later height is inside [MINA, MAXA] *)
  Lemma amp_inv_run l : forall st, amp_inv st -> Forall rop_ok l -> snd st + total_dh l < P64 ->
    amp_inv (ramp_run (ramp_step MINA MAXA CHG MINB) st l).
  Proof.
    induction l as [|o l IH]; intros st I F Hh; cbn [ramp_run]; [exact I|].
    inversion F as [|? ? Fo Fl]; subst. cbn [total_dh] in Hh.
    pose proof (total_dh_nonneg l Fl) as NN.
    apply IH; [apply ramp_apply_inv; [exact I | exact Fo | lia] | exact Fl |].
    destruct st as [c h]. unfold ramp_apply. cbn [snd] in *.
    destruct (if o_owner o then _ else _); cbn [fst snd]; lia.
  Qed.

  Lemma amp_in_range_history amp h0 c0 l h' :
    MINA <= amp <= MAXA -> 0 <= h0 -> c0 = mkAmp amp amp h0 h0 ->
    Forall rop_ok l -> h0 + total_dh l <= h' < P64 ->
    let st := ramp_run (ramp_step MINA MAXA CHG MINB) (c0, h0) l in
    snd st = h0 + total_dh l /\
    exists a, compute_amp_factor (ramp_of (fst st) h') = Ok a /\ MINA <= a <= MAXA.
  Proof.
    intros Ha Hh -> F Hh' st.
    pose proof (total_dh_nonneg l F) as NN.
    assert (I0 : amp_inv (mkAmp amp amp h0 h0, h0)) by (cbn [amp_inv c_a0 c_a1 c_h0 c_h1 fst snd]; lia).
    pose proof (amp_inv_run l _ I0 F ltac:(cbn [amp_inv c_a0 c_a1 c_h0 c_h1 fst snd]; lia)) as I.
    pose proof (ramp_run_height (mkAmp amp amp h0 h0, h0) l) as HH. cbn [snd] in HH.
    fold st in I, HH. split; [exact HH|].
    destruct st as [c h]. cbn [snd fst] in *. subst h.
    destruct (amp_inv_amp c _ h' I Hh') as (a & EA & RA & _). exists a. auto.
  Qed.
End Accept.

(* ---- instantiation at the constants of contract.rs (re-proved whenever a constant changes) ---- *)
Lemma params_chg_pos : 0 < Params.MAX_AMP_CHANGE. Proof. reflexivity. Qed.
Lemma params_min_nonneg : 0 <= Params.MIN_AMP. Proof. discriminate. Qed.
Lemma params_max_u64 : Params.MAX_AMP < P64. Proof. reflexivity. Qed.
Lemma params_minb_nonneg : 0 <= Params.MIN_RAMP_BLOCKS. Proof. discriminate. Qed.
(* the products in the acceptance test cannot overflow u64 for in-range values *)
Lemma params_no_overflow : Params.MAX_AMP_CHANGE * Params.MAX_AMP < P64. Proof. reflexivity. Qed.

(* ---- the code as found: the decrease test is inverted ---------------------------------------- *)
Definition c04_w_cfg : ampcfg := mkAmp 100 100 12345 12345.
Lemma ramp_unfixed_refuted :
  (* accepted although 100 > 10 * 9 *)
  trio_ramp_step_unfixed c04_w_cfg 12400 9 30000 = Ok (mkAmp 100 9 12400 30000) /\
  trio_ramp_step_unfixed c04_w_cfg 12400 1 30000 = Ok (mkAmp 100 1 12400 30000) /\
  (* rejected although within the factor *)
  trio_ramp_step_unfixed c04_w_cfg 12400 50 30000 = Err E_OTHER /\
  trio_ramp_step_unfixed c04_w_cfg 12400 11 30000 = Err E_OTHER /\
  (* the repaired rule *)
  trio_ramp_step c04_w_cfg 12400 9 30000 = Err E_OTHER /\
  trio_ramp_step c04_w_cfg 12400 50 30000 = Ok (mkAmp 100 50 12400 30000) /\
  trio_ramp_step c04_w_cfg 12400 10 30000 = Ok (mkAmp 100 10 12400 30000).
Proof. vm_compute. repeat split. Qed.
