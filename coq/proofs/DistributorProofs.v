(* DistributorProofs.v — invariants of the fee distributor ledgers (Distributor.v). *)
From Coq Require Import Sorting.Sorted.
From WW Require Import Prim Params Epochs Distributor.
From WW.Proofs Require Import ArithLemmas LairProofs EpochsProofs.

Local Open Scope Z_scope.

(* ---- ids of the stored epochs: exactly n, n-1, ..., 1 (newest first) ------------------------------ *)
Fixpoint down (n : nat) : list Z := match n with O => [] | S k => Z.of_nat (S k) :: down k end.

Lemma down_in n i : In i (down n) <-> 1 <= i <= Z.of_nat n.
Proof.
  induction n as [|k IH]; cbn [down In].
  - split; [tauto | lia].
  - rewrite IH. split; [intros [<-|H]; lia | intro H; destruct (Z.eq_dec i (Z.of_nat (S k))); [left; auto | right; lia]].
Qed.
Lemma down_nodup n : NoDup (down n).
Proof.
  induction n as [|k IH]; cbn [down]; constructor; auto. rewrite down_in. lia.
Qed.
Lemma down_length n : length (down n) = n.
Proof. induction n; cbn; auto. Qed.
Lemma down_nth n i : (i < n)%nat -> nth_error (down n) i = Some (Z.of_nat (n - i)).
Proof.
  revert i. induction n as [|k IH]; intros i L; [lia|].
  destruct i as [|i]; cbn [down nth_error]; [f_equal; lia|]. rewrite IH by lia. f_equal.
Qed.

Definition ids (l : list depoch) : list Z := map de_id l.
Definition ids_exact (l : list depoch) : Prop := ids l = down (length l).

Lemma ids_exact_in l e : ids_exact l -> In e l -> 1 <= de_id e <= Z.of_nat (length l).
Proof. intros X I. apply down_in. rewrite <- X. unfold ids. apply in_map. exact I. Qed.
Lemma ids_exact_nodup l : ids_exact l -> NoDup (ids l).
Proof. intro X. rewrite X. apply down_nodup. Qed.
Lemma ids_exact_nth l i e : ids_exact l -> nth_error l i = Some e -> de_id e = Z.of_nat (length l - i).
Proof.
  intros X H. assert (L : (i < length l)%nat) by (apply nth_error_Some; congruence).
  pose proof (map_nth_error de_id _ _ H) as M. fold (ids l) in M. rewrite X, down_nth in M by auto. congruence.
Qed.
Lemma ids_exact_tail a l : ids_exact (a :: l) -> ids_exact l /\ de_id a = Z.of_nat (S (length l)).
Proof. unfold ids_exact, ids. cbn [map length down]. intro H. inversion H. split; auto. Qed.

Lemma ids_exact_sorted l : ids_exact l -> StronglySorted (fun a b => de_id b < de_id a) l.
Proof.
  induction l as [|a r IH]; intro X; constructor.
  - apply IH. apply (ids_exact_tail _ _ X).
  - destruct (ids_exact_tail _ _ X) as [Xr Ha]. apply Forall_forall. intros b Ib.
    pose proof (ids_exact_in _ _ Xr Ib). lia.
Qed.

(* ---- esave --------------------------------------------------------------------------------------- *)
Lemma esave_ids e l : ids (esave e l) = ids l.
Proof.
  unfold ids. induction l as [|x r IH]; cbn; auto. destruct (de_id x =? de_id e) eqn:E; cbn.
  - apply Z.eqb_eq in E. congruence.
  - congruence.
Qed.
Lemma esave_length e l : length (esave e l) = length l.
Proof. induction l as [|x r IH]; cbn; auto. destruct (de_id x =? de_id e); cbn; auto. Qed.

Lemma Forall_esave (P : depoch -> Prop) e l : Forall P l -> P e -> Forall P (esave e l).
Proof.
  intros F Pe. induction F as [|x r Px F IH]; cbn; [constructor|].
  destruct (de_id x =? de_id e); constructor; auto.
Qed.
Lemma esave_keeps e l y : In y l -> de_id y <> de_id e -> In y (esave e l).
Proof.
  induction l as [|x r IH]; cbn; [tauto|]. intros [H|H] N.
  - subst. destruct (de_id y =? de_id e) eqn:E; [apply Z.eqb_eq in E; contradiction | left; auto].
  - destruct (de_id x =? de_id e); [right; auto | right; auto].
Qed.

Lemma sum_esave (f : depoch -> Z) e e' l :
  NoDup (ids l) -> In e l -> de_id e' = de_id e ->
  sumZ (map f (esave e' l)) = sumZ (map f l) - f e + f e'.
Proof.
  unfold ids. induction l as [|x r IH]; cbn [map esave sumZ In]; [tauto|]. intros N I Eid.
  inversion N; subst. destruct (de_id x =? de_id e') eqn:E.
  - apply Z.eqb_eq in E. destruct I as [->|I]; [cbn; lia|].
    exfalso. apply H1. rewrite E, Eid. apply in_map. exact I.
  - apply Z.eqb_neq in E. destruct I as [->|I]; [congruence|]. cbn [map sumZ]. rewrite IH by auto. lia.
Qed.

(* ---- agg1 ------------------------------------------------------------------------------------------ *)
Lemma agg1_ok a b r : agg1 a b = Ok r -> oz r = oz a + oz b.
Proof.
  destruct a, b; cbn; intro H.
  - apply bind_ok in H as [s [H1 H]]. inversion H; subst. apply cadd_ok in H1 as [-> _]. reflexivity.
  - inversion H; subst; cbn; lia.
  - inversion H; subst; cbn; lia.
  - inversion H; subst; cbn; lia.
Qed.

(* ---- the invariant ------------------------------------------------------------------------------------ *)
Definition ledger_ok (e : depoch) : Prop :=
  0 <= oz (de_total e) /\ 0 <= oz (de_claimed e) /\
  match de_avail e with Some av => 0 <= av /\ oz (de_claimed e) + av = oz (de_total e) | None => True end.

Definition expired_empty (s : dstate) : Prop :=
  Forall (fun e => de_id e <= Z.of_nat (length (d_epochs s)) - d_grace s -> de_avail e = None) (d_epochs s).

(* k = what plain transfers (DStray) have added to the balance so far: the balance is EXACTLY the sum of the available
   ledgers plus k, and k >= 0 — so it is always at least that sum *)
Record Inv (k : Z) (s : dstate) : Prop := mkInv {
  inv_ids : ids_exact (d_epochs s);
  inv_ledger : Forall ledger_ok (d_epochs s);
  inv_bal : d_bal s = sum_avail (d_epochs s) + k;
  inv_grace : 1 <= d_grace s;
  inv_expired : expired_empty s;
  inv_k : 0 <= k
}.

Lemma inv_init g : 1 <= g -> Inv 0 (dinit g).
Proof. intro G. constructor; cbn; auto; try reflexivity; try lia. constructor. Qed.

Lemma cur_epoch_id s : ids_exact (d_epochs s) -> e_id (cur_epoch s) = Z.of_nat (length (d_epochs s)).
Proof.
  unfold cur_epoch. destruct (d_epochs s) as [|a r] eqn:E; [cbn; auto|].
  intro X. apply ids_exact_tail in X as [_ H]. cbn [e_id length]. exact H.
Qed.

Lemma firstn_full_last (l : list depoch) g :
  (1 <= g)%nat -> length (firstn g l) = g ->
  exists x rest, rev (firstn g l) = x :: rest /\ nth_error l (g - 1) = Some x.
Proof.
  intros G L. assert (Lg : (g <= length l)%nat) by (rewrite firstn_length in L; lia).
  destruct (nth_error l (g - 1)) as [x|] eqn:N; [|apply nth_error_None in N; lia].
  exists x. assert (firstn g l = firstn (g - 1) l ++ [x]) as ->.
  { replace g with (S (g - 1)) at 1 by lia. clear L. revert N. generalize (g - 1)%nat as k.
    revert Lg. clear G. intros _ k. revert l. induction k as [|k IH]; intros l N.
    - destruct l; cbn in *; [discriminate|]. inversion N; subst. reflexivity.
    - destruct l as [|a l]; cbn in N; [discriminate|]. cbn [firstn app]. f_equal. apply IH. exact N. }
  rewrite rev_app_distr. cbn. eauto.
Qed.

(* what an accepted NewEpoch does to the ledgers *)
Lemma new_epoch_spec k c now s ok fee s' :
  Inv k s -> 0 <= fee -> new_epoch c now s ok fee = Ok s' ->
  let g := Z.to_nat (d_grace s) in
  d_cursor s' = d_cursor s /\ d_grace s' = d_grace s /\ d_bal s' = d_bal s + fee /\
  exists ne, de_id ne = Z.of_nat (S (length (d_epochs s))) /\ de_avail ne = de_total ne /\ de_claimed ne = None /\
    ((g <= length (d_epochs s))%nat ->
       exists x, nth_error (d_epochs s) (g - 1) = Some x /\
         oz (de_total ne) = fee + oz (de_avail x) /\
         d_epochs s' = ne :: esave (mkDE (de_id x) (de_start x) (de_total x) None (de_claimed x)) (d_epochs s)) /\
    ((length (d_epochs s) < g)%nat -> oz (de_total ne) = fee /\ d_epochs s' = ne :: d_epochs s).
Proof.
  intros I F H. cbn zeta. unfold new_epoch in H.
  apply bind_ok in H as [e' [Hc H]]. apply dcreate_ok in Hc as (Hid & _ & _ & _).
  rewrite (cur_epoch_id s (inv_ids k s I)) in Hid.
  set (g := Z.to_nat (d_grace s)) in *.
  assert (G1 : (1 <= g)%nat) by (pose proof (inv_grace k s I); lia).
  assert (OT : oz (if 0 <? fee then Some fee else None) = fee).
  { destruct (0 <? fee) eqn:E; cbn; [reflexivity | apply Z.ltb_ge in E; lia]. }
  destruct (length (firstn g (d_epochs s)) =? g)%nat eqn:EL.
  - apply Nat.eqb_eq in EL. destruct (firstn_full_last _ _ G1 EL) as (x & rest & R & N).
    rewrite R in H. apply bind_ok in H as [fees [Ha H]]. apply agg1_ok in Ha. rewrite OT in Ha.
    inversion H; subst; clear H. cbn [d_epochs d_cursor d_grace d_bal]. repeat split; auto.
    exists (mkDE (e_id e') (e_start e') fees fees None). cbn [de_id de_avail de_total de_claimed].
    split; [rewrite Hid; lia|]. split; [reflexivity|]. split; [reflexivity|]. split.
    + intros _. exists x. repeat split; auto.
    + intro L. rewrite firstn_length in EL. lia.
  - apply Nat.eqb_neq in EL. inversion H; subst; clear H. cbn [d_epochs d_cursor d_grace d_bal]. repeat split; auto.
    exists (mkDE (e_id e') (e_start e') (if 0 <? fee then Some fee else None) (if 0 <? fee then Some fee else None) None).
    cbn [de_id de_avail de_total de_claimed].
    split; [rewrite Hid; lia|]. split; [reflexivity|]. split; [reflexivity|]. split.
    + intro L. rewrite firstn_length in EL. lia.
    + intros _. split; auto.
Qed.

Lemma esave_in e l y : In y (esave e l) -> y = e \/ In y l.
Proof.
  induction l as [|x r IH]; cbn; [tauto|]. destruct (de_id x =? de_id e).
  - intros [H|H]; auto.
  - intros [H|H]; auto. destruct (IH H); auto.
Qed.

Lemma esave_in_strong e l y :
  NoDup (ids l) -> In y (esave e l) -> y = e \/ (In y l /\ de_id y <> de_id e).
Proof.
  unfold ids. induction l as [|x r IH]; cbn [esave map In]; [tauto|]. intros ND H. inversion ND; subst.
  destruct (de_id x =? de_id e) eqn:E.
  - apply Z.eqb_eq in E. destruct H as [H|H]; auto. right. split; auto.
    intro Q. apply H2. rewrite E, <- Q. apply in_map. exact H.
  - apply Z.eqb_neq in E. destruct H as [H|H]; [subst; right; split; auto|].
    destruct (IH H3 H) as [->|[A B]]; auto.
Qed.

Lemma in_firstn_nth {A} (e : A) g l : In e (firstn g l) -> exists i, (i < g)%nat /\ nth_error l i = Some e.
Proof.
  revert l. induction g as [|g IH]; intros l; cbn; [tauto|].
  destruct l as [|a l]; cbn; [tauto|]. intros [<-|H].
  - exists 0%nat. split; [lia | reflexivity].
  - destruct (IH _ H) as (i & L & N). exists (S i). split; [lia | exact N].
Qed.
Lemma in_firstn_in {A} (e : A) g l : In e (firstn g l) -> In e l.
Proof. intro H. destruct (in_firstn_nth _ _ _ H) as (i & _ & N). eapply nth_error_In; eauto. Qed.

Lemma window_id l g e :
  ids_exact l -> In e (firstn g l) -> Z.of_nat (length l) - Z.of_nat g < de_id e.
Proof.
  intros X I. destruct (in_firstn_nth _ _ _ I) as (i & L & N).
  rewrite (ids_exact_nth _ _ _ X N). assert ((i < length l)%nat) by (apply nth_error_Some; congruence). lia.
Qed.

Lemma new_epoch_inv k c now s ok fee s' :
  Inv k s -> 0 <= fee -> new_epoch c now s ok fee = Ok s' -> Inv k s'.
Proof.
  intros I F H. pose proof (new_epoch_spec _ _ _ _ _ _ _ I F H) as SP. cbn zeta in SP.
  destruct SP as (Hc & Hg & Hb & ne & Nid & Nav & Ncl & Full & NotFull).
  set (g := Z.to_nat (d_grace s)) in *. set (l := d_epochs s) in *.
  pose proof (inv_grace k s I) as G1. pose proof (inv_ids k s I) as X. fold l in X.
  assert (Gz : Z.of_nat g = d_grace s) by (unfold g; lia).
  destruct (le_lt_dec g (length l)) as [LE|LT].
  - destruct (Full LE) as (x & N & OT & E). clear Full NotFull.
    set (x' := mkDE (de_id x) (de_start x) (de_total x) None (de_claimed x)) in *.
    assert (Ix : In x l) by (eapply nth_error_In; eauto).
    assert (Lx : ledger_ok x) by (pose proof (inv_ledger k s I) as FL; rewrite Forall_forall in FL; apply FL; auto).
    assert (IDx : de_id x = Z.of_nat (length l) + 1 - Z.of_nat g).
    { rewrite (ids_exact_nth _ _ _ X N). lia. }
    assert (AVx : 0 <= oz (de_avail x)) by (destruct Lx as (_ & _ & A); destruct (de_avail x); cbn; [tauto | lia]).
    constructor; rewrite ?E, ?Hg, ?Hb.
    + unfold ids_exact, ids. cbn [map length down]. rewrite esave_length. f_equal; [exact Nid|].
      fold (ids (esave x' l)). rewrite esave_ids. exact X.
    + constructor.
      * unfold ledger_ok. rewrite Ncl, Nav. cbn [oz]. repeat split; try lia.
        destruct (de_total ne) eqn:T; cbn [oz] in *; [lia | exact Logic.I].
      * apply Forall_esave; [apply (inv_ledger k s I)|]. unfold ledger_ok, x'. cbn. destruct Lx as (A & B & _). auto.
    + unfold sum_avail. cbn [map sumZ]. rewrite (sum_esave (fun e => oz (de_avail e)) x x' l); auto.
      * rewrite Nav, OT. cbn [x' de_avail oz]. pose proof (inv_bal k s I) as B. unfold sum_avail in B. fold l in B. lia.
      * apply ids_exact_nodup; auto.
    + exact G1.
    + unfold expired_empty. rewrite E. cbn [length]. rewrite esave_length. constructor.
      * intro L. rewrite Nid in L. lia.
      * apply Forall_forall. intros y Iy L.
        apply (esave_in_strong _ _ _ (ids_exact_nodup _ X)) in Iy as [->|[Iy Ne]]; [reflexivity|].
        pose proof (inv_expired k s I) as EX. unfold expired_empty in EX. fold l in EX. rewrite Forall_forall in EX.
        cbn [x' de_id] in Ne. apply EX; auto. lia.
    + apply (inv_k k s I).
  - destruct (NotFull LT) as (OT & E). clear Full NotFull.
    constructor; rewrite ?E, ?Hg, ?Hb.
    + unfold ids_exact, ids. cbn [map length down]. f_equal; [exact Nid | exact X].
    + constructor; [|apply (inv_ledger k s I)].
      unfold ledger_ok. rewrite Ncl, Nav. cbn [oz]. repeat split; try lia.
      destruct (de_total ne) eqn:T; cbn [oz] in *; [lia | exact Logic.I].
    + unfold sum_avail. cbn [map sumZ]. rewrite Nav, OT. pose proof (inv_bal k s I) as B. unfold sum_avail in B. fold l in B. lia.
    + exact G1.
    + unfold expired_empty. rewrite E. cbn [length]. apply Forall_forall. intros y Iy L. exfalso.
      assert (1 <= de_id y).
      { destruct Iy as [<-|Iy]; [rewrite Nid; lia | apply (ids_exact_in _ _ X Iy)]. }
      lia.
    + apply (inv_k k s I).
Qed.

(* ---- Claim ------------------------------------------------------------------------------------------- *)
Definition share_wf (sh : share) : Prop := match sh with SOk d => 0 <= d | _ => True end.
Definition shares_wf (l : list (Z * share)) : Prop := Forall (fun p => share_wf (snd p)) l.
Lemma sfind_wf k l : shares_wf l -> share_wf (sfind k l).
Proof.
  induction 1 as [|[k' v] r Hv F IH]; cbn; auto. destruct (k =? k'); auto.
Qed.

Lemma claim_epoch_spec e sh e' r :
  ledger_ok e -> share_wf sh -> claim_epoch e sh = Ok (e', r) ->
  de_id e' = de_id e /\ de_start e' = de_start e /\ de_total e' = de_total e /\
  0 <= r /\ oz (de_avail e') = oz (de_avail e) - r /\ oz (de_claimed e') = oz (de_claimed e) + r /\
  ledger_ok e' /\ (de_avail e = None -> e' = e /\ r = 0) /\ (de_avail e' = None -> de_avail e = None) /\
  (0 < r -> exists d, sh = SOk d /\ r = oz (de_total e) * d / DEC).
Proof.
  intros (T0 & C0 & LA) W H. unfold claim_epoch in H.
  destruct sh as [d| |]; try discriminate. cbn in W.
  destruct (de_total e) as [tot|] eqn:ET.
  2:{ inversion H; subst. repeat split; auto; try lia; try (rewrite ET; cbn; lia); try (rewrite ET; exact LA). }
  cbn [oz] in T0.
  apply bind_ok in H as [u [H1 H]]. apply ensure_ok in H1. apply Z.ltb_lt in H1.
  assert (R0 : 0 <= tot * d / DEC) by (apply div_nonneg; [nia | reflexivity]).
  destruct (tot * d / DEC =? 0) eqn:EZ.
  - inversion H; subst. repeat split; auto; try lia; try (rewrite ET; cbn; lia); try (rewrite ET; exact LA).
  - apply Z.eqb_neq in EZ. destruct (de_avail e) as [av|] eqn:EA; [|discriminate].
    apply bind_ok in H as [u2 [H2 H]]. apply ensure_ok in H2. apply Z.leb_le in H2.
    apply bind_ok in H as [cl [H3 H]]. inversion H; subst; clear H. cbn [de_id de_start de_total de_avail de_claimed oz].
    destruct LA as [A0 AE].
    assert (CL : cl = oz (de_claimed e) + tot * d / DEC).
    { destruct (de_claimed e) as [c0|]; cbn [oz] in *; [apply cadd_ok in H3 as [-> _]; reflexivity | inversion H3; lia]. }
    repeat split; auto; try lia; try discriminate; cbn [de_total de_claimed de_avail oz] in *; try lia.
    intros _. exists d. auto.
Qed.

Lemma nodup_map_filter {A B} (f : A -> B) p l : NoDup (map f l) -> NoDup (map f (filter p l)).
Proof.
  induction l as [|a r IH]; cbn; auto. intro N. inversion N; subst.
  destruct (p a); cbn; auto. constructor; auto. intro I. apply H1.
  apply in_map_iff in I as (y & <- & Iy). apply in_map. apply filter_In in Iy. tauto.
Qed.
Lemma nodup_map_firstn {A B} (f : A -> B) k l : NoDup (map f l) -> NoDup (map f (firstn k l)).
Proof.
  revert l. induction k as [|k IH]; intros l N; cbn; [constructor|].
  destruct l as [|a r]; cbn; [constructor|]. cbn in N. inversion N; subst. constructor; auto.
  intro I. apply H1. apply in_map_iff in I as (y & <- & Iy). apply in_map. eapply in_firstn_in; eauto.
Qed.

(* the claim loop over a duplicate-free selection `es` of the stored epochs *)
Lemma claim_loop_spec shares : shares_wf shares -> forall es all acc all' acc',
  NoDup (ids all) -> NoDup (ids es) -> Forall (fun e => In e all) es -> Forall ledger_ok all ->
  claim_loop es shares all acc = Ok (all', acc') ->
  ids all' = ids all /\ length all' = length all /\ acc <= acc' /\
  sum_avail all' = sum_avail all - (acc' - acc) /\
  sum_claimed all' = sum_claimed all + (acc' - acc) /\
  Forall ledger_ok all' /\
  Forall (fun y => In y all \/ (In (de_id y) (ids es) /\ de_avail y <> None)) all' /\
  map (fun e => (de_id e, de_start e, de_total e)) all' = map (fun e => (de_id e, de_start e, de_total e)) all.
Proof.
  intros W es. induction es as [|e r IH]; intros all acc all' acc' NA NE FI FL H; cbn [claim_loop] in H.
  - inversion H; subst. repeat split; auto; try lia. apply Forall_forall. auto.
  - inversion NE as [|? ? NEh NEt]; subst. inversion FI as [|? ? Ie FIr]; subst.
    apply bind_ok in H as [[e' rw] [H1 H]]. cbn [fst snd] in H.
    apply bind_ok in H as [acc1 [H2 H]]. apply cadd_ok in H2 as [-> _].
    assert (Le : ledger_ok e) by (rewrite Forall_forall in FL; auto).
    pose proof (claim_epoch_spec _ _ _ _ Le (sfind_wf _ _ W) H1) as (Eid & Est & Eto & R0 & EA & EC & Le' & ENone & ENone' & _).
    assert (NA1 : NoDup (ids (esave e' all))) by (rewrite esave_ids; auto).
    assert (FI1 : Forall (fun x => In x (esave e' all)) r).
    { apply Forall_forall. intros x Ix. rewrite Forall_forall in FIr. apply esave_keeps; auto.
      rewrite Eid. intro Q. apply NEh. unfold ids. rewrite <- Q. apply in_map. exact Ix. }
    assert (FL1 : Forall ledger_ok (esave e' all)) by (apply Forall_esave; auto).
    destruct (IH _ _ _ _ NA1 NEt FI1 FL1 H) as (I1 & I2 & I3 & I4 & I5 & I6 & I7 & I8).
    rewrite esave_ids in I1. rewrite esave_length in I2.
    unfold sum_avail in *. unfold sum_claimed in *.
    rewrite (sum_esave (fun x => oz (de_avail x)) e e' all NA Ie Eid) in I4.
    rewrite (sum_esave (fun x => oz (de_claimed x)) e e' all NA Ie Eid) in I5.
    repeat split; auto; try lia.
    + apply Forall_forall. intros y Iy. rewrite Forall_forall in I7. destruct (I7 y Iy) as [Q|[Q Q2]].
      * apply esave_in in Q as [->|Q]; auto.
        destruct (de_avail e') eqn:EAv.
        -- right. split; [rewrite Eid; cbn; auto | discriminate].
        -- left. destruct (ENone (ENone' eq_refl)) as [-> _]. exact Ie.
      * right. split; auto. cbn. auto.
    + rewrite I8. clear -NA Ie Eid Est Eto. unfold ids in NA.
      induction all as [|a t IHt]; cbn [esave map]; auto.
      cbn in NA. inversion NA; subst. destruct (de_id a =? de_id e') eqn:E.
      * apply Z.eqb_eq in E. destruct Ie as [->|Ie].
        -- cbn [map]. rewrite Eid, Est, Eto. reflexivity.
        -- exfalso. apply H1. rewrite E, Eid. apply in_map. exact Ie.
      * apply Z.eqb_neq in E. destruct Ie as [->|Ie]; [congruence|]. cbn [map]. f_equal. apply IHt; auto.
Qed.

Definition cursor_ok (s : dstate) (who : Z) (fb : option Z) (i : Z) : Prop :=
  match cfind who (d_cursor s) with
  | Some c => c < i
  | None => exists f, fb = Some f /\ f < i
  end.

Lemma claimable_in s who fb e :
  In e (claimable s who fb) ->
  In e (firstn (Z.to_nat (d_grace s)) (d_epochs s)) /\ de_avail e <> None /\ cursor_ok s who fb (de_id e).
Proof.
  unfold claimable, cursor_ok. intro H. apply filter_In in H as [H A].
  assert (AV : de_avail e <> None) by (destruct (de_avail e); [discriminate | discriminate]).
  destruct (cfind who (d_cursor s)) as [c|].
  - apply filter_In in H as [H L]. apply Z.ltb_lt in L. auto.
  - destruct fb as [f|]; [|destruct H]. apply filter_In in H as [H L]. apply Z.ltb_lt in L. repeat split; eauto.
Qed.

Lemma claimable_nodup s who fb : NoDup (ids (d_epochs s)) -> NoDup (ids (claimable s who fb)).
Proof.
  intro N. unfold claimable, ids. apply nodup_map_filter.
  destruct (cfind who (d_cursor s)); [apply nodup_map_filter, nodup_map_firstn; auto|].
  destruct fb; [apply nodup_map_filter, nodup_map_firstn; auto | constructor].
Qed.

Lemma SS_filter {A} (R : A -> A -> Prop) p l : StronglySorted R l -> StronglySorted R (filter p l).
Proof.
  induction 1 as [|a r S IH F]; cbn; [constructor|]. destruct (p a); auto. constructor; auto.
  apply Forall_forall. intros y Iy. apply filter_In in Iy as [Iy _]. rewrite Forall_forall in F. auto.
Qed.
Lemma SS_firstn {A} (R : A -> A -> Prop) k l : StronglySorted R l -> StronglySorted R (firstn k l).
Proof.
  revert l. induction k as [|k IH]; intros l S; cbn; [constructor|]. destruct l as [|a r]; [constructor|].
  inversion S; subst. constructor; auto. apply Forall_forall. intros y Iy. rewrite Forall_forall in H2.
  apply H2. eapply in_firstn_in; eauto.
Qed.
Lemma claimable_sorted s who fb :
  ids_exact (d_epochs s) -> StronglySorted (fun a b => de_id b < de_id a) (claimable s who fb).
Proof.
  intro X. pose proof (ids_exact_sorted _ X) as S. unfold claimable. apply SS_filter.
  destruct (cfind who (d_cursor s)); [apply SS_filter, SS_firstn; auto|].
  destruct fb; [apply SS_filter, SS_firstn; auto | constructor].
Qed.

(* an accepted Claim *)
Lemma claim_spec k s who fb shares s' p :
  Inv k s -> shares_wf shares -> claim s who fb shares = Ok (s', p) ->
  Inv k s' /\ 0 <= p /\
  p = sum_avail (d_epochs s) - sum_avail (d_epochs s') /\
  p = sum_claimed (d_epochs s') - sum_claimed (d_epochs s) /\
  d_bal s' = d_bal s - p /\ d_grace s' = d_grace s /\
  map (fun e => (de_id e, de_start e, de_total e)) (d_epochs s') = map (fun e => (de_id e, de_start e, de_total e)) (d_epochs s) /\
  exists newest rest, claimable s who fb = newest :: rest /\
    d_cursor s' = cset who (de_id newest) (d_cursor s) /\
    (forall e, In e (claimable s who fb) -> de_id e <= de_id newest /\ cursor_ok s who fb (de_id e) /\
        Z.of_nat (length (d_epochs s)) - d_grace s < de_id e).
Proof.
  intros I W H. unfold claim in H.
  destruct (claimable s who fb) as [|newest rest] eqn:EC; [discriminate|].
  apply bind_ok in H as [[all' acc'] [HL H]]. cbn [fst snd] in H.
  apply bind_ok in H as [u [HB H]]. inversion H; subst; clear H.
  pose proof (inv_ids k s I) as X. pose proof (ids_exact_nodup _ X) as ND.
  assert (NDc : NoDup (ids (newest :: rest))) by (rewrite <- EC; apply claimable_nodup; auto).
  assert (FIc : Forall (fun e => In e (d_epochs s)) (newest :: rest)).
  { apply Forall_forall. intros e Ie. rewrite <- EC in Ie. apply claimable_in in Ie as [Ie _]. eapply in_firstn_in; eauto. }
  destruct (claim_loop_spec shares W _ _ _ _ _ ND NDc FIc (inv_ledger k s I) HL) as (I1 & I2 & I3 & I4 & I5 & I6 & I7 & I8).
  pose proof (inv_grace k s I) as G1.
  assert (WIN : forall e, In e (newest :: rest) -> Z.of_nat (length (d_epochs s)) - d_grace s < de_id e).
  { intros e Ie. rewrite <- EC in Ie. apply claimable_in in Ie as [Ie _].
    pose proof (window_id _ _ _ X Ie). lia. }
  cbn [d_epochs d_bal d_grace d_cursor]. split; [|repeat split; auto; try lia].
  - constructor; cbn [d_epochs d_bal d_grace d_cursor]; auto.
    + unfold ids_exact. rewrite I1, I2. exact X.
    + rewrite I4. pose proof (inv_bal k s I). lia.
    + unfold expired_empty. cbn [d_epochs d_grace]. rewrite I2. apply Forall_forall. intros y Iy L.
      rewrite Forall_forall in I7. destruct (I7 y Iy) as [Q|[Q _]].
      * pose proof (inv_expired k s I) as EX. unfold expired_empty in EX. rewrite Forall_forall in EX. auto.
      * unfold ids in Q. apply in_map_iff in Q as (e & Eid & Ie). specialize (WIN e Ie). lia.
    + apply (inv_k k s I).
  - exists newest, rest. repeat split; auto.
    + pose proof (claimable_sorted s who fb X) as S. rewrite EC in S. inversion S; subst.
      destruct H as [<-|H]; [lia|]. rewrite Forall_forall in H3. specialize (H3 e H). lia.
    + rewrite <- EC in H. apply claimable_in in H. tauto.
Qed.

Lemma set_grace_spec k s admin g s' :
  Inv k s -> set_grace s admin g = Ok s' ->
  Inv k s' /\ admin = true /\ d_grace s <= g <= Params.MAX_GRACE_PERIOD /\ d_grace s' = g /\
  d_epochs s' = d_epochs s /\ d_cursor s' = d_cursor s /\ d_bal s' = d_bal s.
Proof.
  intros I H. unfold set_grace in H.
  apply bind_ok in H as [u1 [H1 H]]. apply ensure_ok in H1.
  apply bind_ok in H as [u2 [H2 H]]. apply ensure_ok in H2. apply andb_true_iff in H2 as [A B].
  apply Z.leb_le in A, B.
  apply bind_ok in H as [u3 [H3 H]]. apply ensure_ok in H3. apply Z.leb_le in H3.
  inversion H; subst; clear H. cbn. repeat split; auto; try lia.
  - apply (inv_ids k s I).
  - apply (inv_ledger k s I).
  - apply (inv_bal k s I).
  - unfold expired_empty. cbn. pose proof (inv_expired k s I) as EX. unfold expired_empty in EX.
    eapply Forall_impl; [|exact EX]. cbn. intros e Q L. apply Q. lia.
  - apply (inv_k k s I).
Qed.

(* ---- histories ------------------------------------------------------------------------------------------ *)
Definition dop_wf (o : dop) : Prop :=
  match o with
  | DNewEpoch _ fee => 0 <= fee
  | DClaim _ _ shares => shares_wf shares
  | DSetGrace _ _ => True
  | DNewEpochF _ fee _ => 0 <= fee
  | DStray _ => True
  end.
Definition dhist_wf (h : list dsevent) : Prop := Forall (fun e => dop_wf (snd e)) h.

Lemma dstep_inv k c now s o s' f : Inv k s -> dop_wf o -> dstep c now s o = Ok (s', f) -> Inv (k + stray_of f) s'.
Proof.
  intros I W H. destruct o as [ok fee|who fb shares|admin g|ok fee x|x]; cbn [dstep] in H.
  - apply bind_ok in H as [s1 [H1 H]]. inversion H; subst. cbn [stray_of]. rewrite Z.add_0_r. eapply new_epoch_inv; eauto.
  - apply bind_ok in H as [[s1 p] [H1 H]]. inversion H; subst. cbn [fst stray_of]. rewrite Z.add_0_r. eapply claim_spec; eauto.
  - apply bind_ok in H as [s1 [H1 H]]. inversion H; subst. cbn [stray_of]. rewrite Z.add_0_r. eapply set_grace_spec; eauto.
  - apply bind_ok in H as [u [H0 H]]. apply ensure_ok in H0. apply Z.ltb_lt in H0.
    apply bind_ok in H as [s1 [H1 H]]. inversion H; subst. cbn [stray_of]. cbn [dop_wf] in W.
    pose proof (new_epoch_inv _ _ _ _ _ _ _ I W H1) as I1.
    constructor; cbn [d_epochs d_bal d_grace d_cursor].
    + apply (inv_ids k s1 I1).
    + apply (inv_ledger k s1 I1).
    + pose proof (inv_bal k s1 I1). lia.
    + apply (inv_grace k s1 I1).
    + apply (inv_expired k s1 I1).
    + pose proof (inv_k k s1 I1). lia.
  - apply bind_ok in H as [u [H1 H]]. apply ensure_ok in H1. apply Z.ltb_lt in H1. inversion H; subst. cbn [stray_of].
    constructor; cbn [d_epochs d_bal d_grace d_cursor].
    + apply (inv_ids k s I).
    + apply (inv_ledger k s I).
    + pose proof (inv_bal k s I). lia.
    + apply (inv_grace k s I).
    + apply (inv_expired k s I).
    + pose proof (inv_k k s I). lia.
Qed.

Lemma dsrun_inv_from c h : forall k s, Inv k s -> dhist_wf h ->
  Inv (k + strays (dseffects c s h)) (fold_left (dshstep c) h s).
Proof.
  induction h as [|e r IH]; intros k s I W; cbn [fold_left dseffects].
  - unfold strays. cbn. rewrite Z.add_0_r. exact I.
  - inversion W; subst. unfold dshstep at 2.
    destruct (dstep c (fst e) s (snd e)) as [[s' f]| |] eqn:E; auto.
    unfold strays. cbn [map sumZ]. fold (strays (dseffects c s' r)). rewrite Z.add_assoc.
    apply IH; auto. eapply dstep_inv; eauto.
Qed.

Theorem distributor_inv c g h : 1 <= g -> dhist_wf h -> Inv (strays (dseffects c (dinit g) h)) (dsrun c g h).
Proof. intros G W. apply (dsrun_inv_from c h 0 (dinit g)); auto. apply inv_init; auto. Qed.

Lemma strays_nonneg c g h : 1 <= g -> dhist_wf h -> 0 <= strays (dseffects c (dinit g) h).
Proof. intros G W. apply (inv_k _ _ (distributor_inv c g h G W)). Qed.

(* without plain transfers the balance is exactly the sum of the available ledgers *)
Definition is_stray (o : dop) : bool := match o with DStray _ | DNewEpochF _ _ _ => true | _ => false end.
Lemma no_stray_effects c h : forall s, forallb (fun e => negb (is_stray (snd e))) h = true -> strays (dseffects c s h) = 0.
Proof.
  induction h as [|e r IH]; intros s F; cbn [dseffects]; [reflexivity|].
  cbn [forallb] in F. apply andb_true_iff in F as [F1 F2].
  destruct (dstep c (fst e) s (snd e)) as [[s' f]| |] eqn:E; auto.
  unfold strays. cbn [map sumZ]. fold (strays (dseffects c s' r)). rewrite IH by auto.
  destruct (snd e) as [ok fee|who fb shares|admin g|ok fee x|x]; cbn [is_stray negb] in F1; try discriminate; cbn [dstep] in E.
  - apply bind_ok in E as [s1 [_ E]]. inversion E; subst. reflexivity.
  - apply bind_ok in E as [s1 [_ E]]. inversion E; subst. reflexivity.
  - apply bind_ok in E as [s1 [_ E]]. inversion E; subst. reflexivity.
Qed.

(* ---- an address is paid at most once per epoch ---------------------------------------------------------- *)
Definition paid_ids_of (who : Z) (f : deffect) : list Z :=
  match f with FPaid w l _ => if w =? who then l else [] | _ => [] end.
Definition paid_ids (who : Z) (fs : list deffect) : list Z := flat_map (paid_ids_of who) fs.

Lemma cfind_cset_same k v l : cfind k (cset k v l) = Some v.
Proof.
  induction l as [|[k' v'] r IH]; cbn; [rewrite Z.eqb_refl; auto|].
  destruct (k =? k') eqn:E; cbn; rewrite E; auto.
Qed.
Lemma cfind_cset_other k k2 v l : k2 <> k -> cfind k2 (cset k v l) = cfind k2 l.
Proof.
  intro N. induction l as [|[k' v'] r IH]; cbn.
  - destruct (k2 =? k) eqn:E; [apply Z.eqb_eq in E; congruence | reflexivity].
  - destruct (k =? k') eqn:E; cbn.
    + apply Z.eqb_eq in E; subst k'. destruct (k2 =? k) eqn:E2; [apply Z.eqb_eq in E2; congruence | reflexivity].
    + destruct (k2 =? k'); auto.
Qed.
Lemma NoDup_app_intro {A} (a b : list A) : NoDup a -> NoDup b -> (forall x, In x a -> ~ In x b) -> NoDup (a ++ b).
Proof.
  intros NA NB. induction NA as [|x r N ND IH]; intro D; cbn [app]; auto. constructor.
  - intro I. apply in_app_or in I. destruct I as [I|I].
    + apply N. exact I.
    + apply (D x); [left; reflexivity | exact I].
  - apply IH. intros y Iy. apply D. right. exact Iy.
Qed.

Definition Paid (who : Z) (s : dstate) (pre : list deffect) : Prop :=
  NoDup (paid_ids who pre) /\
  forall i, In i (paid_ids who pre) -> exists cu, cfind who (d_cursor s) = Some cu /\ i <= cu.

Lemma paid_step k c who now s o s' f pre :
  Inv k s -> dop_wf o -> dstep c now s o = Ok (s', f) -> Paid who s pre -> Paid who s' (pre ++ [f]).
Proof.
  intros I W H [ND LE]. unfold Paid, paid_ids in *. rewrite flat_map_app. cbn [flat_map]. rewrite app_nil_r.
  destruct o as [ok fee|w fb shares|admin g|ok fee x|x]; cbn [dstep] in H.
  - apply bind_ok in H as [s1 [H1 H]]. inversion H; subst. cbn [paid_ids_of]. rewrite app_nil_r.
    destruct (new_epoch_spec _ _ _ _ _ _ _ I W H1) as (Hc & _). rewrite Hc. auto.
  - apply bind_ok in H as [[s1 p] [H1 H]]. inversion H; subst. cbn [fst snd paid_ids_of].
    destruct (claim_spec _ _ _ _ _ _ _ I W H1) as (_ & _ & _ & _ & _ & _ & _ & newest & rest & EC & CU & FA).
    destruct (w =? who) eqn:Ew.
    + apply Z.eqb_eq in Ew; subst w. rewrite CU. split.
      * apply NoDup_app_intro; auto.
        -- apply (claimable_nodup s who fb). apply ids_exact_nodup, (inv_ids k s I).
        -- intros i Ii Q. apply in_map_iff in Q as (e & <- & Ie). destruct (FA e Ie) as (_ & CO & _).
           destruct (LE _ Ii) as (cu & Hcu & Lcu). unfold cursor_ok in CO. rewrite Hcu in CO. lia.
      * intros i Ii. exists (de_id newest). rewrite cfind_cset_same. split; auto.
        apply in_app_or in Ii as [Ii|Ii].
        -- destruct (LE _ Ii) as (cu & Hcu & Lcu).
           assert (In newest (claimable s who fb)) as In0 by (rewrite EC; left; auto).
           destruct (FA _ In0) as (_ & CO & _). unfold cursor_ok in CO. rewrite Hcu in CO. lia.
        -- apply in_map_iff in Ii as (e & <- & Ie). apply (FA e Ie).
    + apply Z.eqb_neq in Ew. rewrite app_nil_r, CU. split; auto.
      intros i Ii. rewrite cfind_cset_other by auto. auto.
  - apply bind_ok in H as [s1 [H1 H]]. inversion H; subst. cbn [paid_ids_of]. rewrite app_nil_r.
    destruct (set_grace_spec _ _ _ _ _ I H1) as (_ & _ & _ & _ & _ & Hc & _). rewrite Hc. auto.
  - apply bind_ok in H as [u [_ H]]. apply bind_ok in H as [s1 [H1 H]]. inversion H; subst. cbn [paid_ids_of d_cursor]. rewrite app_nil_r.
    destruct (new_epoch_spec _ _ _ _ _ _ _ I W H1) as (Hc & _). rewrite Hc. auto.
  - apply bind_ok in H as [u [H1 H]]. inversion H; subst. cbn [paid_ids_of d_cursor]. rewrite app_nil_r. auto.
Qed.

Lemma paid_run c who h : forall k s pre, Inv k s -> dhist_wf h -> Paid who s pre ->
  NoDup (paid_ids who (pre ++ dseffects c s h)).
Proof.
  induction h as [|e r IH]; intros k s pre I W P; cbn [dseffects].
  - rewrite app_nil_r. apply P.
  - inversion W; subst. destruct (dstep c (fst e) s (snd e)) as [[s' f]| |] eqn:E; eauto.
    replace (pre ++ f :: dseffects c s' r) with ((pre ++ [f]) ++ dseffects c s' r) by (rewrite <- app_assoc; reflexivity).
    apply (IH (k + stray_of f)); auto.
    + eapply dstep_inv; eauto.
    + eapply paid_step; eauto.
Qed.

Theorem distributor_paid_once c g h who :
  1 <= g -> dhist_wf h -> NoDup (paid_ids who (dseffects c (dinit g) h)).
Proof.
  intros G W. apply (paid_run c who h 0 (dinit g) []); auto.
  - apply inv_init; auto.
  - split; [constructor | intros i []].
Qed.
