(* VaultFees.v — the vault's fee ledgers over WHOLE histories (any operations, any borrower scripts, loans nested to any
   depth, rejected operations rolled back), stated on real balances instead of ghost variables:

     circ + burned is constant        every burned unit leaves the circulating amount of the vault asset, nothing else does
     allf, burned only grow           the all-time counters
     (allf - pend) grows by at most what the fee collector's balance grows by, and by EXACTLY that amount when no borrower
     script pays the collector directly (APay COLL): pending = charged - transferred to the collector.                       *)
From WW Require Import Prim Vault.
From WW.Proofs Require Import ArithLemmas VaultLedger VaultProofs.

Local Open Scope Z_scope.

Definition coll (st : state) : Z := get (ab st) COLL.
Definition circ (st : state) : Z := sumZ (ab st).
Definition settled (st : state) : Z := allf st - pend st.     (* protocol fees charged so far and no longer pending *)

(* x = true: exact *)
Definition FL (x : bool) (st st' : state) : Prop :=
  allf st <= allf st' /\ burned st <= burned st' /\
  circ st' + burned st' = circ st + burned st /\
  settled st' - settled st <= coll st' - coll st /\
  (x = true -> settled st' - settled st = coll st' - coll st).

(* a borrower script that never pays the fee collector directly *)
Fixpoint nopay_a (a : action) : bool :=
  match a with
  | APay tgt _ => negb (Nat.eqb tgt COLL)
  | ALoan _ s => nopay s
  | ATry s => nopay s
  | _ => true
  end
with nopay (s : script) : bool :=
  match s with SNil => true | SCons a r => nopay_a a && nopay r end.
Definition op_nopay (o : op) : bool :=
  match o with ORun s => nopay s | ORouterLoan _ _ _ s => nopay s | ORouterLoanF _ _ _ s _ => nopay s | _ => true end.

Lemma FL_refl x st : FL x st st.
Proof. unfold FL. repeat split; lia. Qed.

Lemma FL_trans x y a b c : FL x a b -> FL y b c -> FL (x && y) a c.
Proof.
  unfold FL. intros (A1 & B1 & C1 & D1 & E1) (A2 & B2 & C2 & D2 & E2).
  repeat split; try lia. intro H. apply andb_true_iff in H as [Hx Hy]. specialize (E1 Hx). specialize (E2 Hy). lia.
Qed.

Lemma FL_weaken x y a b : (y = true -> x = true) -> FL x a b -> FL y a b.
Proof. unfold FL. intros W (A & B & C & D & E). repeat split; auto. Qed.

Lemma FL_trans_true x a b c : FL true a b -> FL x b c -> FL x a c.
Proof. intros H1 H2. pose proof (FL_trans _ _ _ _ _ H1 H2) as H. exact H. Qed.
Lemma FL_trans_true_r x a b c : FL x a b -> FL true b c -> FL x a c.
Proof. intros H1 H2. pose proof (FL_trans _ _ _ _ _ H1 H2) as H. rewrite andb_true_r in H. exact H. Qed.

(* a transfer that does not come from the collector *)
Lemma FL_xfer k from to z st st' :
  xfer k (ab st) from to z = Ok (ab st') -> allf st' = allf st -> pend st' = pend st -> burned st' = burned st ->
  from <> COLL -> FL (negb (Nat.eqb to COLL)) st st'.
Proof.
  intros X A P B F. unfold FL, circ, coll, settled. rewrite A, P, B.
  rewrite (xfer_sum _ _ _ _ _ _ X). rewrite (xfer_get _ _ _ _ _ _ COLL X).
  pose proof (xfer_ok _ _ _ _ _ _ X) as (_ & _ & Z0 & _).
  destruct (Nat.eqb_spec COLL from) as [e|_]; [congruence|].
  destruct (Nat.eqb_spec COLL to) as [e|n].
  - subst to. rewrite Nat.eqb_refl. cbn. repeat split; try lia; try discriminate.
  - destruct (Nat.eqb_spec to COLL) as [e|_]; [congruence|]. cbn. repeat split; lia.
Qed.

Lemma FL_same x st st' :
  ab st' = ab st -> allf st' = allf st -> pend st' = pend st -> burned st' = burned st -> FL x st st'.
Proof. intros A B C D. unfold FL, circ, coll, settled. rewrite A, B, C, D. repeat split; lia. Qed.

Lemma VAULT_ne_COLL : VAULT <> COLL. Proof. unfold VAULT, COLL. lia. Qed.
Lemma ADV_ne_COLL : ADV <> COLL. Proof. unfold ADV, COLL. lia. Qed.
Lemma ROUTER_ne_COLL : ROUTER <> COLL. Proof. unfold ROUTER, COLL. lia. Qed.
Lemma user_ne_COLL st u : is_user st u = true -> u <> COLL.
Proof. unfold is_user. rewrite andb_true_iff. intros [_ H]. apply Nat.leb_le in H. unfold COLL. lia. Qed.

Lemma negb_eqb_true a b : a <> b -> negb (Nat.eqb a b) = true.
Proof. intro H. destruct (Nat.eqb_spec a b); [congruence|reflexivity]. Qed.

(* ---- primitives ------------------------------------------------------------ *)
Lemma deposit_FL u z sent st st' : u <> COLL -> deposit u z sent st = Ok st' -> FL true st st'.
Proof.
  intros U H. apply deposit_spec in H as (_ & _ & _ & _ & ab' & locked & share & _ & [[_ ->]|[_ X]] & ->).
  - apply FL_same; reflexivity.
  - eapply FL_weaken; [|eapply FL_xfer with (st' := set_lp (set_ab st ab') _); simp; eauto]. intros _.
    apply negb_eqb_true, VAULT_ne_COLL.
Qed.

Lemma withdraw_FL u a st st' : u <> COLL -> withdraw u a st = Ok st' -> FL true st st'.
Proof.
  intros U H. apply withdraw_spec in H as (_ & _ & _ & _ & _ & _ & ab' & X & ->).
  eapply FL_weaken; [|eapply FL_xfer with (st' := set_lp (set_ab st ab') _); simp; eauto using VAULT_ne_COLL].
  intros _. apply negb_eqb_true, U.
Qed.

Lemma collect_FL st st' : collect st = Ok st' -> FL true st st'.
Proof.
  intros H. apply collect_spec in H as [[P ->]|(P & ab' & X & ->)].
  - unfold FL, circ, coll, settled; simp. rewrite P. repeat split; lia.
  - unfold FL, circ, coll, settled; simp.
    rewrite (xfer_sum _ _ _ _ _ _ X). rewrite (xfer_get _ _ _ _ _ _ COLL X).
    destruct (Nat.eqb_spec COLL VAULT) as [e|_]; [symmetry in e; destruct (VAULT_ne_COLL e)|].
    rewrite Nat.eqb_refl. repeat split; lia.
Qed.

Lemma after_trade_FL old z st st' :
  Inv st -> 0 <= z -> (VAULT < length (ab st))%nat -> after_trade old z st = Ok st' -> FL true st st'.
Proof.
  intros I Z0 L H. apply after_trade_spec in H. cbv zeta in H. destruct H as (_ & _ & ->).
  pose proof (fees_valid_true _ _ _ (i_fees _ I)) as (P0 & F0 & B0 & _).
  pose proof (fee_floor_nonneg z _ Z0 P0) as Hp. pose proof (fee_floor_nonneg z _ Z0 B0) as Hb.
  unfold FL, circ, coll, settled, bal; simp.
  rewrite sumZ_upd by exact L. rewrite get_upd_other by exact VAULT_ne_COLL.
  repeat split; lia.
Qed.

Lemma flash_loan_FL x who z body st st' :
  who <> COLL ->
  (forall s1 s2, Inv s1 -> body s1 = Ok s2 -> Q s1 s2 /\ FL x s1 s2) ->
  Inv st -> flash_loan who z body st = Ok st' -> FL x st st'.
Proof.
  intros W HB I H. apply flash_loan_spec in H as (_ & Hc & ab1 & st2 & Hx & Hbody & Hat).
  set (st1 := set_counter (set_ab st ab1) (counter st + 1)) in *.
  assert (I1 : Inv st1).
  { destruct I as [Iab Ilp Ipend Iallf Iburned Icounter Ifees Ilocked].
    constructor; unfold st1; simp; auto; try lia. apply (xfer_nonneg _ _ _ _ _ _ Iab Hx). }
  destruct (HB _ _ I1 Hbody) as ((I2 & _ & _ & LA2 & _) & F12).
  pose proof (xfer_ok _ _ _ _ _ _ Hx) as (Hv & _ & Hz & _).
  assert (Hlen1 : length (ab st1) = length (ab st)) by (unfold st1; simp; eapply xfer_length; eauto).
  assert (F01 : FL true st st1).
  { eapply FL_weaken; [|eapply FL_xfer with (st' := st1); unfold st1; simp; eauto using VAULT_ne_COLL].
    intros _. apply negb_eqb_true, W. }
  assert (F2 : FL true st2 st').
  { eapply after_trade_FL; eauto. lia. }
  eapply FL_trans_true; [exact F01|]. eapply FL_trans_true_r; [exact F12|exact F2].
Qed.

(* ---- borrower scripts of any depth ----------------------------------------- *)
Theorem script_FL :
  (forall a L st st', Inv st -> run_action L a st = Ok st' -> FL (nopay_a a) st st') /\
  (forall s L st st', Inv st -> run_script L s st = Ok st' -> FL (nopay s) st st').
Proof.
  destruct script_Q as [QA QS].
  apply action_script_ind.
  - (* APay *) intros tgt z L st st' I H. cbn [run_action] in H. bind_inv H. inversion H; subst. cbn [nopay_a].
    eapply FL_xfer with (st' := set_ab st v); simp; eauto using ADV_ne_COLL.
  - (* ARepayQ *) intros d L st st' I H. cbn [nopay_a].
    apply repayq_inv in H as (q & pf & ff & bf & _ & [[_ ->]|(_ & ab' & Hx & ->)]).
    + apply FL_refl.
    + eapply FL_weaken; [|eapply FL_xfer with (st' := set_ab st ab'); simp; eauto using ADV_ne_COLL].
      intros _. apply negb_eqb_true, VAULT_ne_COLL.
  - (* ALoan *) intros z s IH L st st' I H. cbn [run_action] in H. cbn [nopay_a].
    eapply (flash_loan_FL (nopay s) ADV z (run_script z s)); [apply ADV_ne_COLL | | exact I | exact H].
    intros s1 s2 I1 HB. split; [eapply QS; eauto | eapply IH; eauto].
  - (* ADeposit *) intros z L st st' I H. cbn [run_action] in H. cbn [nopay_a]. eapply (deposit_FL ADV); [apply ADV_ne_COLL | exact H].
  - (* AWithdraw *) intros a L st st' I H. cbn [run_action] in H. cbn [nopay_a]. eapply (withdraw_FL ADV); [apply ADV_ne_COLL | exact H].
  - (* ACollect *) intros L st st' I H. cbn [run_action] in H. cbn [nopay_a]. eapply collect_FL; eauto.
  - (* AFail *) intros L st st' I H. discriminate H.
  - (* ATry *) intros s IH L st st' I H. cbn [run_action] in H. cbn [nopay_a].
    destruct (run_script L s st) eqn:E; inversion H; subst; try apply FL_refl. eapply IH; eauto.
  - (* SNil *) intros L st st' I H. inversion H; subst. apply FL_refl.
  - (* SCons *) intros a IHa s IHs L st st' I H. cbn [run_script] in H. cbn [nopay]. bind_inv H.
    eapply FL_trans; [eapply IHa; eauto|]. eapply IHs; eauto. apply (QA _ _ _ _ I E).
Qed.

(* ---- the router path -------------------------------------------------------- *)
Lemma complete_loan_FL u z st st' : u <> COLL -> complete_loan u z st = Ok st' -> FL true st st'.
Proof.
  intros U H. apply complete_loan_spec in H as (q & pf & ff & bf & ab1 & _ & _ & Hx & [[_ ->]|(_ & ab2 & Hx2 & ->)]).
  - eapply FL_weaken; [|eapply FL_xfer with (st' := set_ab st ab1); simp; eauto using ROUTER_ne_COLL].
    intros _. apply negb_eqb_true, VAULT_ne_COLL.
  - assert (F1 : FL true st (set_ab st ab1)).
    { eapply FL_weaken; [|eapply FL_xfer with (st' := set_ab st ab1); simp; eauto using ROUTER_ne_COLL].
      intros _. apply negb_eqb_true, VAULT_ne_COLL. }
    assert (F2 : FL true (set_ab st ab1) (set_ab st ab2)).
    { eapply FL_weaken; [|eapply FL_xfer with (st := set_ab st ab1) (st' := set_ab st ab2); simp; eauto using ROUTER_ne_COLL].
      intros _. apply negb_eqb_true, U. }
    eapply FL_trans_true; eauto.
Qed.

Lemma router_body_FL u z pre s s1 s2 : u <> COLL -> Inv s1 -> router_body u z pre s s1 = Ok s2 ->
  Q s1 s2 /\ FL (nopay s) s1 s2.
Proof.
  intros U I H. split; [eapply router_body_Q; eauto|].
  unfold router_body in H. destruct script_Q as [_ QS]. destruct script_FL as [_ FS].
  bind_as H sa EA. bind_as H sb EB.
  assert (QA : Q s1 sa /\ FL true s1 sa).
  { destruct (pre =? 0); [inversion EA; subst; split; [apply Q_refl; auto | apply FL_refl]|].
    bind_as EA ab' EX. inversion EA; subst. split; [eapply Q_xfer; eauto |].
    eapply FL_weaken; [|eapply FL_xfer with (st' := set_ab s1 ab'); simp; eauto using ROUTER_ne_COLL].
    intros _. apply negb_eqb_true, ADV_ne_COLL. }
  destruct QA as [QA FA]. assert (Ia : Inv sa) by apply QA.
  pose proof (FS _ _ _ _ Ia EB) as FB.
  pose proof (complete_loan_FL _ _ _ _ U H) as FC.
  eapply FL_trans_true; [exact FA|]. eapply FL_trans_true_r; eauto.
Qed.

Lemma router_loan_FL u z pre s st st' : u <> COLL -> Inv st -> router_loan u z pre s st = Ok st' -> FL (nopay s) st st'.
Proof.
  intros U I H. unfold router_loan in H. bind_as H uu EH.
  eapply (flash_loan_FL (nopay s) ROUTER z (router_body u z pre s)); [apply ROUTER_ne_COLL | | exact I | exact H].
  intros s1 s2 I1 HB. eapply router_body_FL; eauto.
Qed.

(* ---- top-level operations, histories ----------------------------------------- *)
Lemma step_FL st o st' : Inv st -> step st o = Ok st' -> FL (op_nopay o) st st'.
Proof.
  intros I H. destruct o; cbn [step] in H; cbn [op_nopay].
  - bind_as H uu EU. apply ensure_ok' in EU. eapply (deposit_FL u); [eapply user_ne_COLL; exact EU | exact H].
  - bind_as H uu EU. apply ensure_ok' in EU. eapply (withdraw_FL u); [eapply user_ne_COLL; exact EU | exact H].
  - discriminate H.
  - eapply collect_FL; eauto.
  - assert (HU : exists s, update_config s p st = Ok st').
    { destruct via_factory; [bind_as H uu EU|]; eauto. }
    destruct HU as [s HU]. unfold update_config in HU. bind_as HU uu EU. bind_as HU fees EF.
    destruct fees as [[a b] d]. inversion HU; subst. apply FL_same; reflexivity.
  - bind_as H uu EU. apply ensure_ok' in EU. bind_as H ab' EX. inversion H; subst.
    eapply FL_weaken; [|eapply (FL_xfer (kind st) u VAULT z st (set_ab st ab')); simp; eauto; eapply user_ne_COLL; exact EU].
    intros _. apply negb_eqb_true, VAULT_ne_COLL.
  - bind_as H uu EU. bind_as H uu2 EA. inversion H; subst. apply FL_same; reflexivity.
  - destruct script_FL as [_ FS]. eapply FS; eauto.
  - bind_as H uu EU. apply ensure_ok' in EU. eapply (router_loan_FL u); [eapply user_ne_COLL; exact EU | exact I | exact H].
  - destruct (n =? 0); inversion H; subst; apply FL_refl.
  - discriminate H.
  - discriminate H.
  - discriminate H.
  - bind_as H uu EU. apply ensure_ok' in EU. pose proof (user_ne_COLL _ _ EU) as U.
    unfold router_loan_f in H. destruct (f =? 0).
    + eapply router_loan_FL; eauto.
    + bind_as H ab' EX.
      assert (F1 : FL true st (set_ab st ab')).
      { eapply FL_weaken; [|eapply FL_xfer with (st' := set_ab st ab'); simp; eauto].
        intros _. apply negb_eqb_true, ROUTER_ne_COLL. }
      eapply FL_trans_true; [exact F1|]. eapply router_loan_FL; eauto.
      pose proof (Q_xfer _ _ _ _ _ _ I EX) as Q1. apply Q1.
Qed.

Lemma apply_FL st o : Inv st -> FL (op_nopay o) st (apply st o).
Proof.
  intros I. unfold apply. destruct (step st o) eqn:E; try apply FL_refl. eapply step_FL; eauto.
Qed.

Theorem run_FL h : forall st, Inv st -> FL (forallb op_nopay h) st (run st h).
Proof.
  unfold run. induction h as [|o r IH]; intros st I; cbn [fold_left forallb].
  - apply FL_refl.
  - eapply FL_trans; [apply apply_FL; exact I|]. apply IH. apply (apply_W st o I).
Qed.
