(* PipelineProofs.v — the fee pipeline (Pipeline.v): take rate exact, forwarded = epoch total - rollover, conservation,
   untouched-or-swapped-entirely, only the distributor forwards. *)
From WW Require Import Prim Params Epochs Distributor Lair Pipeline.
From WW.Proofs Require Import ArithLemmas LairProofs EpochsProofs DistributorProofs.

Local Open Scope Z_scope.

Ltac splits := repeat match goal with |- _ /\ _ => split end.

Definition sum_asset (a : Z) (ts : list (Z * Z)) : Z := sumZ (map (fun t => if fst t =? a then snd t else 0) ts).

Lemma sum_dist_eq ts : sum_dist ts = sum_asset DIST ts.
Proof. reflexivity. Qed.

Lemma credit_get a ts : forall b, zget a (credit ts b) = zget a b + sum_asset a ts.
Proof.
  unfold sum_asset. induction ts as [|[k x] r IH]; intro b; cbn [credit map sumZ fst snd]; [lia|].
  rewrite IH, zget_zset. rewrite (Z.eqb_sym k a). destruct (a =? k) eqn:E; [apply Z.eqb_eq in E; subst|]; lia.
Qed.

Definition nonneg (b : list (Z * Z)) : Prop := forall a, 0 <= zget a b.
Definition ts_wf (ts : list (Z * Z)) : Prop := Forall (fun t => 0 <= snd t) ts.
Definition swap_wf (sw : swap) : Prop := match sw with Swapped r => 0 <= r | _ => True end.
Definition assets_wf (l : list (Z * swap)) : Prop := Forall (fun p => swap_wf (snd p)) l.

Lemma sum_asset_nonneg a ts : ts_wf ts -> 0 <= sum_asset a ts.
Proof. unfold sum_asset. induction 1 as [|t r H F IH]; cbn [map sumZ]; [lia|]. destruct (fst t =? a); lia. Qed.
Lemma credit_nonneg ts b : ts_wf ts -> nonneg b -> nonneg (credit ts b).
Proof. intros W N a. rewrite credit_get. pose proof (sum_asset_nonneg a ts W). specialize (N a). lia. Qed.

Lemma collect_ok ok ts b b' : collect ok ts b = Ok b' -> ok = true /\ b' = credit ts b.
Proof. unfold collect. intro H. apply bind_ok in H as [u [H1 H]]. apply ensure_ok in H1. inversion H; auto. Qed.

(* what aggregation does to the distribution asset, and to every other asset *)
Lemma aggregate_dist assets : forall b b', aggregate_fees assets b = Ok b' -> zget DIST b' = zget DIST b + proceeds assets b.
Proof.
  induction assets as [|[a sw] r IH]; intros b b' H; cbn [aggregate_fees proceeds] in *.
  - inversion H; subst. lia.
  - destruct (a =? DIST) eqn:ED; [apply IH; auto|].
    destruct (MINAGG <? zget a b); [|apply IH; auto].
    destruct sw; try (apply IH; auto; fail); [|discriminate].
    rewrite (IH _ _ H). rewrite zget_zset_same. lia.
Qed.

Lemma aggregate_other assets : forall b b' a, a <> DIST -> aggregate_fees assets b = Ok b' ->
  zget a b' = zget a b \/ (zget a b' = 0 /\ exists r, In (a, Swapped r) assets).
Proof.
  induction assets as [|[k sw] r IH]; intros b b' a N H; cbn [aggregate_fees] in H.
  - inversion H; subst. auto.
  - destruct (k =? DIST) eqn:ED.
    { destruct (IH _ _ a N H) as [Q|[Q [x Ix]]]; [auto | right; split; auto; exists x; right; auto]. }
    destruct (MINAGG <? zget k b) eqn:EM.
    2:{ destruct (IH _ _ a N H) as [Q|[Q [x Ix]]]; [auto | right; split; auto; exists x; right; auto]. }
    destruct sw as [| |out|]; try discriminate;
      try (destruct (IH _ _ a N H) as [Q|[Q [x Ix]]]; [auto | right; split; auto; exists x; right; auto]; fail).
    apply Z.eqb_neq in ED.
    destruct (IH _ _ a N H) as [Q|[Q [x Ix]]].
    + rewrite zget_zset_other in Q by auto. rewrite zget_zset in Q.
      destruct (a =? k) eqn:EK.
      * apply Z.eqb_eq in EK; subst. right. split; [exact Q | exists out; left; reflexivity].
      * left. exact Q.
    + right; split; auto; exists x; right; auto.
Qed.

(* a swapped asset was above the threshold when its turn came *)
Lemma aggregate_nonneg assets : forall b b', assets_wf assets -> nonneg b -> aggregate_fees assets b = Ok b' -> nonneg b' /\ 0 <= proceeds assets b.
Proof.
  induction assets as [|[k sw] r IH]; intros b b' W N H; cbn [aggregate_fees proceeds] in *.
  - inversion H; subst. split; auto; lia.
  - inversion W; subst. destruct (k =? DIST) eqn:ED; [apply IH; auto|].
    destruct (MINAGG <? zget k b); [|apply IH; auto].
    destruct sw as [| |out|]; try discriminate; try (apply IH; auto; fail).
    cbn in H2.
    assert (N1 : nonneg (zset DIST (zget DIST b + out) (zset k 0 b))).
    { intro a. rewrite zget_zset. destruct (a =? DIST); [specialize (N DIST); lia|]. rewrite zget_zset. destruct (a =? k); [lia | apply N]. }
    destruct (IH _ _ H3 N1 H) as [A B]. split; auto. lia.
Qed.

(* ---- the invariant of the whole pipeline ---------------------------------------------------------------- *)
Record PInv (s : pstate) : Prop := mkPInv {
  pi_dist : exists k, Inv k (p_dist s);      (* k = what plain transfers added to the distributor's balance *)
  pi_rate : 0 <= p_rate s < DEC;
  pi_bal : nonneg (p_bal s);
  pi_dao : 0 <= p_dao s
}.

Definition feeds_wf (fd : feeds) : Prop :=
  ts_wf (f_vault_transfers fd) /\ ts_wf (f_pool_transfers fd) /\ assets_wf (f_vault_assets fd) /\ assets_wf (f_pool_assets fd).

Lemma take_rate_fee_bound s B : 0 <= p_rate s < DEC -> 0 <= B -> 0 <= take_rate_fee s B <= B.
Proof.
  intros R HB. unfold take_rate_fee. destruct (p_active s && negb (p_rate s =? 0) && p_dao_set s); [|lia].
  assert (0 <= B * p_rate s / DEC <= B).
  { split; [apply div_nonneg; [nia | reflexivity] | apply mul_div_le_l; try lia; reflexivity]. }
  destruct (B * p_rate s / DEC <? P128); lia.
Qed.

(* an accepted NewEpoch, end to end *)
Theorem pipeline_new_epoch c now s fd s' :
  PInv s -> feeds_wf fd -> new_epoch_pipeline c now s fd = Ok s' ->
  let b1 := credit (f_vault_transfers fd) (p_bal s) in
  let b2 := credit (f_pool_transfers fd) b1 in
  exists b3 b4,
    aggregate_fees (f_vault_assets fd) b2 = Ok b3 /\ aggregate_fees (f_pool_assets fd) b3 = Ok b4 /\
    f_collect_ok fd = true /\
    let B := zget DIST b4 in
    let fee := take_rate_fee s B in
    (* what the collector held of the distribution asset when its reply ran *)
    B = zget DIST (p_bal s) + sum_dist (f_vault_transfers fd) + sum_dist (f_pool_transfers fd)
        + proceeds (f_vault_assets fd) b2 + proceeds (f_pool_assets fd) b3 /\
    (* take rate: exactly floor(rate * B) when active, rate <> 0 and a DAO address is set; nothing otherwise *)
    0 <= fee <= B /\ p_dao s' = p_dao s + fee /\
    (p_active s && negb (p_rate s =? 0) && p_dao_set s = true -> B * p_rate s / DEC < P128 -> fee = B * p_rate s / DEC) /\
    (p_active s && negb (p_rate s =? 0) && p_dao_set s = false -> fee = 0) /\
    (* recorded per epoch (only when something was taken) *)
    p_history s' = (if fee =? 0 then p_history s else zset (e_id (cur_epoch (p_dist s)) + 1) fee (p_history s)) /\
    (* everything else of the distribution asset goes to the distributor; the collector keeps none *)
    zget DIST (p_bal s') = 0 /\
    new_epoch c now (p_dist s) true (B - fee) = Ok (p_dist s') /\
    d_bal (p_dist s') = d_bal (p_dist s) + (B - fee) /\
    (* other assets: swapped entirely (then a Swapped answer was listed for them) or exactly what arrived *)
    (forall a, a <> DIST ->
       zget a (p_bal s') = zget a (p_bal s) + sum_asset a (f_vault_transfers fd) + sum_asset a (f_pool_transfers fd) \/
       (zget a (p_bal s') = 0 /\ exists r, In (a, Swapped r) (f_vault_assets fd ++ f_pool_assets fd))) /\
    p_active s' = p_active s /\ p_rate s' = p_rate s /\ p_dao_set s' = p_dao_set s /\
    PInv s'.
Proof.
  intros I (W1 & W2 & W3 & W4) H. destruct (pi_dist s I) as [k ID]. cbn zeta. unfold new_epoch_pipeline in H.
  apply bind_ok in H as [e0 [_ H]].
  apply bind_ok in H as [b1 [H1 H]]. apply collect_ok in H1 as [OK ->].
  apply bind_ok in H as [b2 [H2 H]]. apply collect_ok in H2 as [_ ->].
  apply bind_ok in H as [b3 [H3 H]]. apply bind_ok in H as [b4 [H4 H]].
  apply bind_ok in H as [d' [H5 H]]. inversion H; subst; clear H. cbn [p_bal p_dao p_active p_rate p_dao_set p_history p_dist].
  set (bb1 := credit (f_vault_transfers fd) (p_bal s)) in *.
  set (bb2 := credit (f_pool_transfers fd) bb1) in *.
  assert (N2 : nonneg bb2) by (apply credit_nonneg; auto; apply credit_nonneg; auto; apply (pi_bal s I)).
  destruct (aggregate_nonneg _ _ _ W3 N2 H3) as [N3 P3].
  destruct (aggregate_nonneg _ _ _ W4 N3 H4) as [N4 P4].
  pose proof (take_rate_fee_bound s (zget DIST b4) (pi_rate s I) (N4 DIST)) as FB.
  assert (SS : ssub (zget DIST b4) (take_rate_fee s (zget DIST b4)) = zget DIST b4 - take_rate_fee s (zget DIST b4)) by (unfold ssub; lia).
  rewrite SS in H5.
  assert (F0 : 0 <= zget DIST b4 - take_rate_fee s (zget DIST b4)) by lia.
  pose proof (new_epoch_spec _ _ _ _ _ _ _ ID F0 H5) as SP. cbn zeta in SP. destruct SP as (_ & _ & HB & _).
  exists b3, b4. cbn zeta. splits; auto; try lia.
  - rewrite (aggregate_dist _ _ _ H4), (aggregate_dist _ _ _ H3). unfold bb2, bb1. rewrite !credit_get. unfold sum_dist, sum_asset. lia.
  - intros C L. unfold take_rate_fee. rewrite C. apply Z.ltb_lt in L. rewrite L. reflexivity.
  - intros C. unfold take_rate_fee. rewrite C. reflexivity.
  - apply zget_zset_same.
  - intros a N. rewrite zget_zset_other by auto.
    destruct (aggregate_other _ _ _ a N H4) as [Q|[Q [x Ix]]].
    + destruct (aggregate_other _ _ _ a N H3) as [Q'|[Q' [x Ix]]].
      * left. rewrite Q, Q'. unfold bb2, bb1. rewrite !credit_get. lia.
      * right. split; [lia|]. exists x. apply in_or_app. auto.
    + right. split; auto. exists x. apply in_or_app. auto.
  - constructor; cbn [p_bal p_dao p_active p_rate p_dao_set p_history p_dist].
    + exists k. eapply new_epoch_inv; eauto.
    + apply (pi_rate s I).
    + intro a. rewrite zget_zset. destruct (a =? DIST); [lia | apply N4].
    + pose proof (pi_dao s I). lia.
Qed.

(* conservation of the distribution asset over collector + DAO + distributor: it changes exactly by what pools and
   vaults handed over and by the swap proceeds *)
Corollary pipeline_conservation c now s fd s' :
  PInv s -> feeds_wf fd -> new_epoch_pipeline c now s fd = Ok s' ->
  let b2 := credit (f_pool_transfers fd) (credit (f_vault_transfers fd) (p_bal s)) in
  exists b3, aggregate_fees (f_vault_assets fd) b2 = Ok b3 /\
  zget DIST (p_bal s') + p_dao s' + d_bal (p_dist s')
  = zget DIST (p_bal s) + p_dao s + d_bal (p_dist s)
    + sum_dist (f_vault_transfers fd) + sum_dist (f_pool_transfers fd)
    + proceeds (f_vault_assets fd) b2 + proceeds (f_pool_assets fd) b3.
Proof.
  intros I W H. destruct (pipeline_new_epoch _ _ _ _ _ I W H) as (b3 & b4 & A3 & A4 & _ & R). cbn zeta in R.
  destruct R as (HB & _ & HD & _ & _ & _ & HZ & _ & HDB & _).
  exists b3. split; auto. rewrite HZ, HD, HDB. lia.
Qed.

(* the forwarded amount is the new epoch's total minus what was rolled over from the expiring epoch *)
Corollary pipeline_forward_eq_total c now s fd s' :
  PInv s -> feeds_wf fd -> new_epoch_pipeline c now s fd = Ok s' ->
  let g := Z.to_nat (d_grace (p_dist s)) in
  let forwarded := d_bal (p_dist s') - d_bal (p_dist s) in
  exists ne, hd_error (d_epochs (p_dist s')) = Some ne /\
    ((g <= length (d_epochs (p_dist s)))%nat ->
       exists x, nth_error (d_epochs (p_dist s)) (g - 1) = Some x /\ oz (de_total ne) = forwarded + oz (de_avail x)) /\
    ((length (d_epochs (p_dist s)) < g)%nat -> oz (de_total ne) = forwarded).
Proof.
  intros I W H. destruct (pipeline_new_epoch _ _ _ _ _ I W H) as (b3 & b4 & _ & _ & _ & R). cbn zeta in R.
  destruct R as (_ & FB & _ & _ & _ & _ & _ & HN & HDB & _).
  assert (F0 : 0 <= zget DIST b4 - take_rate_fee s (zget DIST b4)) by lia.
  destruct (pi_dist s I) as [k ID].
  pose proof (new_epoch_spec _ _ _ _ _ _ _ ID F0 HN) as SP. cbn zeta in SP.
  destruct SP as (_ & _ & _ & ne & _ & _ & _ & Full & NotFull).
  cbn zeta. rewrite HDB. replace (d_bal (p_dist s) + (zget DIST b4 - take_rate_fee s (zget DIST b4)) - d_bal (p_dist s))
    with (zget DIST b4 - take_rate_fee s (zget DIST b4)) by lia.
  exists ne. split; [|split].
  - destruct (le_lt_dec (Z.to_nat (d_grace (p_dist s))) (length (d_epochs (p_dist s)))) as [L|L].
    + destruct (Full L) as (x & _ & _ & E). rewrite E. reflexivity.
    + destruct (NotFull L) as (_ & E). rewrite E. reflexivity.
  - intro L. destruct (Full L) as (x & N & T & _). exists x. auto.
  - intro L. apply (NotFull L).
Qed.

(* ---- every step keeps the invariant; histories -------------------------------------------------------------- *)
Definition pop_wf (o : pop) : Prop :=
  match o with
  | PNewEpoch fd => feeds_wf fd
  | PCollect _ ts => ts_wf ts
  | PAggregate assets => assets_wf assets
  | PConfig _ _ rate _ => match rate with Some r => 0 <= r | None => True end
  | PForwardDirect => True
  | PStray _ => True
  end.

Lemma pstep_inv c now s o s' : PInv s -> pop_wf o -> pstep c now s o = Ok s' -> PInv s'.
Proof.
  intros I W H. destruct o as [fd| |ok ts|assets|admin active rate dao|x]; cbn [pstep] in H.
  - destruct (pipeline_new_epoch _ _ _ _ _ I W H) as (b3 & b4 & _ & _ & _ & R). cbn zeta in R. apply R.
  - discriminate.
  - apply bind_ok in H as [b [H1 H]]. apply collect_ok in H1 as [_ ->]. inversion H; subst.
    constructor; cbn; try apply I. apply credit_nonneg; auto. apply I.
  - apply bind_ok in H as [b [H1 H]]. inversion H; subst.
    constructor; cbn; try apply I. apply (aggregate_nonneg _ _ _ W (pi_bal s I) H1).
  - apply bind_ok in H as [u1 [H1 H]]. apply bind_ok in H as [u2 [H2 H]]. apply ensure_ok in H2. inversion H; subst.
    constructor; cbn; try apply I. destruct rate as [r|]; [apply Z.ltb_lt in H2; cbn in W; lia | apply I].
  - apply bind_ok in H as [[d' f] [H1 H]]. inversion H; subst. destruct (pi_dist s I) as [k ID].
    constructor; cbn [p_bal p_dao p_active p_rate p_dao_set p_history p_dist fst]; try apply I.
    exists (k + stray_of f). eapply dstep_inv; eauto. exact Logic.I.
Qed.

Definition phist_wf (h : list pevent) : Prop := Forall (fun e => pop_wf (snd e)) h.

Lemma pinv_init g : 1 <= g -> PInv (pinit g).
Proof.
  intro G. constructor; cbn; try lia.
  - exists 0. apply inv_init; auto.
  - split; [lia | reflexivity].
  - intro a. cbn. lia.
Qed.

Theorem pipeline_inv c g h : 1 <= g -> phist_wf h -> PInv (prun c g h).
Proof.
  intros G W. unfold prun. assert (I : PInv (pinit g)) by (apply pinv_init; auto).
  revert I. generalize (pinit g). induction h as [|e r IH]; intros s I; cbn [fold_left]; auto.
  inversion W; subst. apply IH; auto. unfold phstep.
  destruct (pstep c (fst e) s (snd e)) as [s'| |] eqn:E; auto. eapply pstep_inv; eauto.
Qed.

(* in every reachable state the distributor holds at least what its epochs still account for *)
Theorem pipeline_distributor_solvent c g h : 1 <= g -> phist_wf h ->
  sum_avail (d_epochs (p_dist (prun c g h))) <= d_bal (p_dist (prun c g h)).
Proof.
  intros G W. destruct (pi_dist _ (pipeline_inv c g h G W)) as [k ID].
  pose proof (inv_bal _ _ ID). pose proof (inv_k _ _ ID). lia.
Qed.

(* a plain transfer of the distribution asset to the distributor adds to its balance and touches nothing else *)
Theorem pipeline_plain_transfer_frame c now s x s' :
  pstep c now s (PStray x) = Ok s' ->
  0 < x /\ p_bal s' = p_bal s /\ p_dao s' = p_dao s /\ p_history s' = p_history s /\
  p_active s' = p_active s /\ p_rate s' = p_rate s /\ p_dao_set s' = p_dao_set s /\
  d_bal (p_dist s') = d_bal (p_dist s) + x /\ d_epochs (p_dist s') = d_epochs (p_dist s) /\
  d_cursor (p_dist s') = d_cursor (p_dist s) /\ d_grace (p_dist s') = d_grace (p_dist s).
Proof.
  intro H. cbn [pstep dstep] in H. apply bind_ok in H as [[d' f] [H1 H]]. inversion H; subst; clear H.
  apply bind_ok in H1 as [u [H0 H1]]. apply ensure_ok in H0. apply Z.ltb_lt in H0. inversion H1; subst.
  cbn. repeat split; auto.
Qed.

(* only the fee distributor can trigger forwarding; a rejected / failing step changes nothing *)
Theorem pipeline_only_distributor_forwards c now s :
  pstep c now s PForwardDirect = Err E_UNAUTH /\ phstep c s (now, PForwardDirect) = s.
Proof. split; reflexivity. Qed.

Theorem pipeline_failed_step_frame c s e : failed (pstep c (fst e) s (snd e)) -> phstep c s e = s.
Proof. unfold phstep. destruct (pstep c (fst e) s (snd e)); cbn; tauto. Qed.

(* the public CollectFees / AggregateFees never pay the DAO or the distributor and never touch the ledgers *)
Theorem pipeline_collect_aggregate_frame c now s o s' :
  (exists ok ts, o = PCollect ok ts) \/ (exists assets, o = PAggregate assets) ->
  pstep c now s o = Ok s' ->
  p_dao s' = p_dao s /\ p_dist s' = p_dist s /\ p_history s' = p_history s /\
  p_active s' = p_active s /\ p_rate s' = p_rate s /\ p_dao_set s' = p_dao_set s.
Proof.
  intros [[ok [ts ->]]|[assets ->]] H; cbn [pstep] in H; apply bind_ok in H as [b [_ H]]; inversion H; subst; cbn; repeat split; reflexivity.
Qed.
