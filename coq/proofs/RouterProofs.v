(* RouterProofs.v — C14 (router simulation = execution) and C15 (minimum receive) *)
From WW Require Import Prim CPSwap Slippage CP CPInst Router.
From WW.Proofs Require Import ArithLemmas CPSwapProofs ListLemmas CPProofs SlippageProofs QuotesProofs.

Lemma nth_error_upd_same {A} (l : list A) i v : (i < length l)%nat -> nth_error (upd l i v) i = Some v.
Proof. revert i; induction l as [|x l IH]; intros [|i] H; cbn in *; try lia; auto. apply IH; lia. Qed.
Lemma nth_error_upd_other {A} (l : list A) i j v : i <> j -> nth_error (upd l i v) j = nth_error l j.
Proof. revert i j; induction l as [|x l IH]; intros [|i] [|j] H; cbn; auto; try congruence. Qed.
Lemma Forall_upd {A} (P : A -> Prop) l i v : Forall P l -> P v -> Forall P (upd l i v).
Proof. intros H Hv. revert i; induction H; intros [|i]; cbn; constructor; auto. Qed.

Lemma route_sim_upd_notin pools i s' hops a : ~ In i (map fst hops) ->
  route_sim (upd pools i s') hops a = route_sim pools hops a.
Proof.
  revert a. induction hops as [|[j d] rest IH]; intros a Hn; cbn [route_sim]; [reflexivity|].
  cbn [map fst In] in Hn.
  rewrite nth_error_upd_other by (intro; subst; apply Hn; left; reflexivity).
  destruct (nth_error pools j) as [s|]; [|reflexivity].
  destruct (simulate s d a) as [c| |]; cbn [bind]; try reflexivity.
  apply IH. intro; apply Hn; right; assumption.
Qed.

(* every hop through a different pool, nothing donated to the router: the simulation equals what the receiver gets *)
Theorem route_sim_eq_exec k pools hops amount ms pools' out : 0 < c_minliq k ->
  Forall (Inv k) pools -> NoDup (map fst hops) ->
  route_exec k pools hops amount [] ms = Ok (pools', out) ->
  route_sim pools hops amount = Ok out.
Proof.
  intros Hm. revert pools amount. induction hops as [|[i d] rest IH]; intros pools amount HI Hnd H.
  - cbn in *. inversion H. reflexivity.
  - cbn [route_exec route_sim] in *. cbn [map fst] in Hnd. inversion Hnd as [|? ? Hnotin Hnd']; subst.
    destruct (nth_error pools i) as [s|] eqn:En; [|discriminate].
    assert (HIs : Inv k s). { rewrite Forall_forall in HI. apply HI. eapply nth_error_In; eauto. }
    cbn [hd tl] in H. rewrite Z.add_0_r in H.
    destruct (step k s (Swap 1 d amount None ms None)) as [[s' p]| |] eqn:Es; cbn [bind] in H; try discriminate.
    pose proof Es as Es2. unfold step in Es2.
    destruct (op_wf _) eqn:Ewf; cbn [negb] in Es2; [|discriminate]. cbn [op_wf] in Ewf.
    apply andb_true_iff in Ewf as [Ewf _]. apply andb_true_iff in Ewf as [W0 _].
    pose proof (swap_checks _ _ _ _ _ _ _ _ _ _ HIs W0 Es2) as [Hsim _].
    rewrite Hsim. cbn [bind s_ret].
    pose proof (step_inv _ _ _ _ _ Hm HIs Es) as [HIs' _].
    specialize (IH (upd pools i s') (p_ret p) (Forall_upd _ _ _ _ HI HIs') Hnd' H).
    rewrite route_sim_upd_notin in IH by assumption. exact IH.
Qed.

Theorem router_sim_eq_exec k pools hops offer ms minrecv pools' out : 0 < c_minliq k ->
  Forall (Inv k) pools -> NoDup (map fst hops) ->
  router_swap k pools hops offer [] ms minrecv = Ok (pools', out) ->
  router_simulate pools hops offer = Ok out.
Proof.
  intros Hm HI Hnd H. unfold router_swap, router_simulate in *. destruct hops as [|h rest]; [discriminate|].
  destruct (route_exec k pools (h :: rest) offer [] ms) as [[pl o]| |] eqn:E; cbn [bind] in H; try discriminate.
  assert (o = out /\ pl = pools') as [-> ->].
  { destruct minrecv as [m|]. destruct (o <? m); [discriminate|]. inversion H; auto. inversion H; auto. }
  eapply route_sim_eq_exec; eauto.
Qed.

(* minimum receive: a successful router swap delivered at least m; and a request whose outcome is at least m is not
   rejected by the assertion *)
Theorem min_receive_sound k pools hops offer pre ms m pools' out :
  router_swap k pools hops offer pre ms (Some m) = Ok (pools', out) -> m <= out.
Proof.
  unfold router_swap. destruct hops; [discriminate|].
  destruct (route_exec _ _ _ _ _ _) as [[pl o]| |]; cbn [bind]; try discriminate.
  destruct (o <? m) eqn:E; [discriminate|]. intro H; inversion H; subst. apply Z.ltb_ge in E. assumption.
Qed.

Theorem min_receive_complete k pools hops offer pre ms m pools' out :
  router_swap k pools hops offer pre ms None = Ok (pools', out) -> m <= out ->
  router_swap k pools hops offer pre ms (Some m) = Ok (pools', out).
Proof.
  unfold router_swap. destruct hops; [discriminate|].
  destruct (route_exec _ _ _ _ _ _) as [[pl o]| |]; cbn [bind]; try discriminate.
  intros H Hle. inversion H; subst. replace (out <? m) with false by (symmetry; apply Z.ltb_ge; lia). reflexivity.
Qed.

Theorem min_receive_only_rejects_shortfall k pools hops offer pre ms m pools' out :
  router_swap k pools hops offer pre ms None = Ok (pools', out) -> out < m ->
  router_swap k pools hops offer pre ms (Some m) = Err E_SLIPPAGE.
Proof.
  unfold router_swap. destruct hops; [discriminate|].
  destruct (route_exec _ _ _ _ _ _) as [[pl o]| |]; cbn [bind]; try discriminate.
  intros H Hlt. inversion H; subst. replace (out <? m) with true by (symmetry; apply Z.ltb_lt; lia). reflexivity.
Qed.

From Coq Require Import ListDec.
Definition Known_route_revisits_pool (hops : list hop) : Prop := ~ NoDup (map fst hops).
Lemma router_sim_eq_exec_unless_known pools hops offer ms minrecv pools' out :
  Forall (Inv the_consts) pools -> ~ Known_route_revisits_pool hops ->
  router_swap the_consts pools hops offer [] ms minrecv = Ok (pools', out) ->
  router_simulate pools hops offer = Ok out.
Proof.
  intros HI Hk H. eapply router_sim_eq_exec; eauto. apply the_minliq_pos.
  unfold Known_route_revisits_pool in Hk.
  destruct (NoDup_dec Nat.eq_dec (map fst hops)); [assumption|contradiction].
Qed.

(* known class: a route that passes twice through the same pair is simulated against the pair's state BEFORE the
   first pass, but executed against the state after it *)
Definition rv_pool : pstate :=
  mkP false false 1000000 1000000 0 0 0 0 0 0 1000000 [1000; 999000] 0 0 (mkFees 0 0 0) true true true 1%nat.
Lemma route_revisit_refuted :
  exists pools' out simout,
    router_swap the_consts [rv_pool] [(0%nat, false); (0%nat, true)] 100000 [] (Some (DEC / 2)) None = Ok (pools', out) /\
    router_simulate [rv_pool] [(0%nat, false); (0%nat, true)] 100000 = Ok simout /\ simout <> out.
Proof. vm_compute. do 3 eexists. repeat split. discriminate. Qed.
