(* FeesProofs.v — C07 on the constant-product pool machine: the pending ledger equals charges minus transfers
   to the collector; all-time counters equal the sums of the individual charges; collection frame. *)
From WW Require Import Prim CPSwap Slippage CP CPInst.
From WW.Proofs Require Import ArithLemmas CPSwapProofs ListLemmas CPProofs.

(* ghost history variables: protocol fees charged and burn fees charged so far, per asset *)
Record ghost := mkG { g_ch0 : Z; g_ch1 : Z; g_bn0 : Z; g_bn1 : Z }.
Definition g0 := mkG 0 0 0 0.

Definition charge (o : op) (p : payout) (g : ghost) : ghost :=
  match o with
  | Swap _ dir _ _ _ _ =>
      if dir then mkG (g_ch0 g + p_protfee p) (g_ch1 g) (g_bn0 g + p_burnfee p) (g_bn1 g)
      else mkG (g_ch0 g) (g_ch1 g + p_protfee p) (g_bn0 g) (g_bn1 g + p_burnfee p)
  | _ => g
  end.

Definition gapply (k : consts) (sg : pstate * ghost) (o : op) : pstate * ghost :=
  match step k (fst sg) o with
  | Ok (s', p) => (s', charge o p (snd sg))
  | _ => sg
  end.
Definition grun (k : consts) (sg : pstate * ghost) (ops : list op) := fold_left (gapply k) ops sg.

Lemma grun_fst k sg ops : fst (grun k sg ops) = run k (fst sg) ops.
Proof.
  revert sg; induction ops as [|o ops IH]; intros sg; cbn [grun run fold_left]; [reflexivity|].
  unfold grun, run in IH. rewrite IH. f_equal. unfold gapply, apply.
  destruct (step k (fst sg) o) as [[s' p]| |]; reflexivity.
Qed.

Definition Ledger (sg : pstate * ghost) : Prop :=
  let s := fst sg in let g := snd sg in
  pf0 s = g_ch0 g - col0 s /\ pf1 s = g_ch1 g - col1 s /\
  at0 s = g_ch0 g /\ at1 s = g_ch1 g /\ bu0 s = g_bn0 g /\ bu1 s = g_bn1 g.

Lemma ledger_step k s g o s' p : 0 < c_minliq k -> Inv k s -> Ledger (s, g) -> step k s o = Ok (s', p) ->
  Ledger (s', charge o p g).
Proof.
  intros Hm HI HL H. unfold Ledger in *. cbn [fst snd] in *. unfold step in H.
  destruct (op_wf o) eqn:Ewf; cbn [negb] in H; [|discriminate].
  destruct HL as (L0 & L1 & L2 & L3 & L4 & L5).
  destruct o; cbn [op_wf] in Ewf; cbn [charge].
  - apply andb_true_iff in Ewf as [Ewf _]. apply andb_true_iff in Ewf as [W0 W1].
    pose proof (provide_ok _ _ _ _ _ _ _ _ _ HI Hm W0 W1 H) as Hk. cbv zeta in Hk.
    destruct Hk as (_ & _ & _ & _ & _ & _ & _ & _ & _ & _ & _ & _ & P0 & P1 & _ & A0 & A1 & U0 & U1 & C0 & C1 & _).
    rewrite P0, P1, A0, A1, U0, U1, C0, C1. auto 10.
  - pose proof (withdraw_ok _ _ _ _ _ _ HI Ewf H) as Hk.
    destruct Hk as (_ & _ & _ & _ & _ & _ & _ & _ & _ & _ & _ & _ & _ & _ & _ & _ & _ & _ & P0 & P1 & _ & A0 & A1 & U0 & U1 & C0 & C1).
    rewrite P0, P1, A0, A1, U0, U1, C0, C1. auto 10.
  - apply andb_true_iff in Ewf as [Ewf _]. apply andb_true_iff in Ewf as [W0 _].
    pose proof (swap_ok _ _ _ _ _ _ _ _ _ _ HI W0 H) as Hk. cbv zeta in Hk.
    destruct Hk as (_ & _ & _ & _ & _ & _ & _ & _ & _ & _ & _ & _ & _ & _ & _ & _ & _ & _ & _ & _ & C0 & C1 & Hd).
    destruct dir; destruct Hd as (D1 & D2 & D3 & D4 & D5 & D6 & D7 & D8 & D9); cbn [g_ch0 g_ch1 g_bn0 g_bn1];
      rewrite ?D2, ?D3, ?D4, ?D6, ?D7, ?D8, ?C0, ?C1; repeat split; lia.
  - pose proof (collect_ok _ _ _ _ HI H) as (_ & _ & _ & _ & _ & _ & _ & P0 & P1 & _ & _ & _ & _ & A0 & A1 & U0 & U1 & _).
    rewrite P0, P1, A0, A1, U0, U1. repeat split; lia.
  - pose proof (update_config_ok _ _ _ _ _ _ _ H) as (_ & _ & _ & P0 & P1 & _ & _ & A0 & A1 & U0 & U1 & C0 & C1 & _).
    rewrite P0, P1, A0, A1, U0, U1, C0, C1. auto 10.
  - pose proof (donate_ok _ _ _ _ _ H) as (_ & P0 & P1 & _ & _ & _ & _ & A0 & A1 & U0 & U1 & C0 & C1 & _).
    rewrite P0, P1, A0, A1, U0, U1, C0, C1. auto 10.
  - pose proof (transfer_lp_ok _ _ _ _ _ _ H) as (_ & _ & _ & _ & _ & _ & P0 & P1 & _ & _ & A0 & A1 & U0 & U1 & C0 & C1 & _).
    rewrite P0, P1, A0, A1, U0, U1, C0, C1. auto 10.
  - discriminate.
  - destruct (en_s s); discriminate.
  - destruct (en_d s); discriminate.
  - destruct (en_s s); discriminate.
  - destruct (en_s s); discriminate.
Qed.

Theorem ledger_run k sg ops : 0 < c_minliq k -> Inv k (fst sg) -> Ledger sg -> Ledger (grun k sg ops).
Proof.
  intros Hm. revert sg. induction ops as [|o ops IH]; intros [s g] HI HL; cbn [grun fold_left]; [exact HL|].
  apply IH; unfold gapply; cbn [fst snd] in *.
  - destruct (step k s o) as [[s' p]| |] eqn:E; cbn [fst]; try exact HI. eapply step_inv; eauto.
  - destruct (step k s o) as [[s' p]| |] eqn:E; try exact HL. eapply ledger_step; eauto.
Qed.

(* from a freshly instantiated pool *)
Lemma ledger_reachable c0 c1 f n own ops : fees_ok f -> (1 <= n)%nat ->
  Ledger (grun the_consts (init c0 c1 f n own, g0) ops).
Proof.
  intros Hf Hn. apply ledger_run. apply the_minliq_pos. apply inv_init; assumption.
  unfold Ledger, init, g0; cbn. repeat split; lia.
Qed.

(* charges only grow, so the all-time counters only grow *)
Lemma charge_mono k s o s' p g : Inv k s -> step k s o = Ok (s', p) ->
  g_ch0 g <= g_ch0 (charge o p g) /\ g_ch1 g <= g_ch1 (charge o p g) /\
  g_bn0 g <= g_bn0 (charge o p g) /\ g_bn1 g <= g_bn1 (charge o p g).
Proof.
  intros HI H. destruct o; cbn [charge]; try lia. unfold step in H.
  destruct (op_wf _) eqn:Ewf; cbn [negb] in H; [|discriminate]. cbn [op_wf] in Ewf.
  apply andb_true_iff in Ewf as [Ewf _]. apply andb_true_iff in Ewf as [W0 _].
  pose proof (swap_ok _ _ _ _ _ _ _ _ _ _ HI W0 H) as Hk. cbv zeta in Hk.
  destruct Hk as (_ & _ & _ & _ & _ & K6 & K7 & _).
  destruct dir; cbn; lia.
Qed.

(* the fee charged by a swap is floor(share * gross) of the gross amount floor(ask*x/(offer+x)) *)
Lemma swap_charges s who dir x b m to s' p : reachable s ->
  step the_consts s (Swap who dir x b m to) = Ok (s', p) ->
  let op_ := if dir then res1 s else res0 s in
  let ask := if dir then res0 s else res1 s in
  let G := ask * x / (op_ + x) in
  p_protfee p = G * f_protocol (pfees s) / DEC /\ p_burnfee p = G * f_burn (pfees s) / DEC /\
  p_swapfee p = G * f_swap (pfees s) / DEC /\ p_ret p + p_swapfee p + p_protfee p + p_burnfee p = G.
Proof.
  intros Hr H. apply reachable_inv in Hr. unfold step in H.
  destruct (op_wf _) eqn:Ewf; cbn [negb] in H; [|discriminate]. cbn [op_wf] in Ewf.
  apply andb_true_iff in Ewf as [Ewf _]. apply andb_true_iff in Ewf as [W0 _].
  pose proof (swap_ok _ _ _ _ _ _ _ _ _ _ Hr W0 H) as Hk. cbv zeta in Hk. unfold gross in Hk. cbv zeta. intuition.
Qed.

(* collection: exactly the pending amounts above the threshold move, from the pool to the collector; reserves,
   counters, LP supply and LP balances do not change *)
Lemma collect_frame s who s' p : reachable s -> step the_consts s (Collect who) = Ok (s', p) ->
  res0 s' = res0 s /\ res1 s' = res1 s /\ supply s' = supply s /\ lp s' = lp s /\
  bal0 s - bal0 s' = col0 s' - col0 s /\ bal1 s - bal1 s' = col1 s' - col1 s /\
  pf0 s - pf0 s' = col0 s' - col0 s /\ pf1 s - pf1 s' = col1 s' - col1 s /\
  col0 s' - col0 s = (if c_mincollect the_consts <? pf0 s then pf0 s else 0) /\
  col1 s' - col1 s = (if c_mincollect the_consts <? pf1 s then pf1 s else 0) /\
  at0 s' = at0 s /\ at1 s' = at1 s /\ bu0 s' = bu0 s /\ bu1 s' = bu1 s.
Proof.
  intros Hr H. apply reachable_inv in Hr. unfold step in H. cbn [op_wf negb] in H.
  pose proof (collect_ok _ _ _ _ Hr H) as Hk. intuition lia.
Qed.

(* the defect repaired by the fix: the pre-fix collection wrote off pending fees at or below the threshold *)
Definition c07_witness : pstate :=
  mkP false false 1000090 1000000 90 0 90 0 0 0 1000000 [1000; 999000] 0 0 (mkFees 0 0 0) true true true 1%nat.
Lemma collect_unfixed_refuted :
  exists s' p, collect_unfixed the_consts c07_witness = Ok (s', p) /\
    pf0 s' = 0 /\ col0 s' = 0 /\ res0 s' = res0 c07_witness + 90 /\
    (exists s2 p2, collect the_consts c07_witness = Ok (s2, p2) /\ pf0 s2 = 90 /\ res0 s2 = res0 c07_witness).
Proof. vm_compute. do 2 eexists. repeat split. do 2 eexists. repeat split. Qed.
