(* ListLemmas.v — balances as lists indexed by account *)
From WW Require Import Prim CPSwap Slippage CP.

Lemma setn_length l i v : length (setn l i v) = length l.
Proof. revert i; induction l as [|x l IH]; intros [|i]; cbn; auto. Qed.

Lemma getn_setn_same l i v : (i < length l)%nat -> getn (setn l i v) i = v.
Proof.
  unfold getn. revert i; induction l as [|x l IH]; intros [|i] H; cbn in *; try lia; auto.
  apply IH; lia.
Qed.

Lemma getn_setn_other l i j v : i <> j -> getn (setn l i v) j = getn l j.
Proof.
  unfold getn. revert i j; induction l as [|x l IH]; intros [|i] [|j] H; cbn; auto; try congruence.
Qed.

Lemma sumZ_setn l i v : (i < length l)%nat -> sumZ (setn l i v) = sumZ l - getn l i + v.
Proof.
  unfold getn. revert i; induction l as [|x l IH]; intros [|i] H; cbn in *; try lia.
  rewrite IH by lia. lia.
Qed.

Lemma Forall_setn l i v : Forall (fun z => 0 <= z) l -> 0 <= v -> Forall (fun z => 0 <= z) (setn l i v).
Proof.
  intros H Hv. revert i; induction H as [|x l Hx Hl IH]; intros [|i]; cbn; constructor; auto.
Qed.

Lemma getn_nonneg l i : Forall (fun z => 0 <= z) l -> 0 <= getn l i.
Proof.
  unfold getn. intro H. revert i; induction H as [|x l Hx Hl IH]; intros [|i]; cbn; try lia; auto.
Qed.

Lemma sumZ_nonneg l : Forall (fun z => 0 <= z) l -> 0 <= sumZ l.
Proof. induction 1; cbn; lia. Qed.

Lemma getn_le_sum l i : Forall (fun z => 0 <= z) l -> getn l i <= sumZ l.
Proof.
  unfold getn. intro H. revert i; induction H as [|x l Hx Hl IH]; intros [|i]; cbn; try lia.
  - pose proof (sumZ_nonneg l Hl). lia.
  - specialize (IH i). lia.
Qed.

Lemma getn_two_le_sum l i j : Forall (fun z => 0 <= z) l -> i <> j -> getn l i + getn l j <= sumZ l.
Proof.
  unfold getn. intro H. revert i j; induction H as [|x l Hx Hl IH]; intros [|i] [|j] Hij; cbn; try lia.
  - pose proof (getn_le_sum l j Hl). unfold getn in *. lia.
  - pose proof (getn_le_sum l i Hl). unfold getn in *. lia.
  - specialize (IH i j ltac:(congruence)). lia.
Qed.

Lemma sumZ_repeat0 n : sumZ (repeat 0 n) = 0.
Proof. induction n; cbn; lia. Qed.
Lemma Forall_repeat0 n : Forall (fun z => 0 <= z) (repeat 0 n).
Proof. induction n; cbn; constructor; auto; lia. Qed.
