(* Stable2Proofs.v — facts about the StableSwap arm of terraswap_pair (Stable2.v). *)
From WW Require Import Prim Params Amp CPSwap Stable2.
From WW.Proofs Require Import ArithLemmas MonadLemmas Stable3Proofs.

#[local] Opaque NEWTON2 D2_FUEL.

Lemma e256_ok z v : e256 z = Ok v -> v = z /\ 0 <= z < P256.
Proof. unfold e256, fits256. destruct (fits P256 z) eqn:E; intros H; inversion H; subst. apply fits_true in E. auto. Qed.
Lemma umul_ok a b v : umul a b = Ok v -> v = a * b /\ 0 <= a * b < P256. Proof. apply e256_ok. Qed.
Lemma uadd_ok a b v : uadd a b = Ok v -> v = a + b /\ 0 <= a + b < P256. Proof. apply e256_ok. Qed.
Lemma usub_ok a b v : usub a b = Ok v -> v = a - b /\ b <= a.
Proof. unfold usub, dsub. destruct (b <=? a) eqn:E; intros H; inversion H. apply Z.leb_le in E. auto. Qed.
Lemma udiv_ok a b v : udiv a b = Ok v -> v = a / b /\ b <> 0.
Proof. unfold udiv. destruct (b =? 0) eqn:E; intros H; inversion H. apply Z.eqb_neq in E. auto. Qed.
Lemma mulratio_ok a n d v : mulratio a n d = Ok v -> v = a * n / d /\ d <> 0 /\ 0 <= a * n / d < P256.
Proof. unfold mulratio. destruct (d =? 0) eqn:E; [discriminate|]. apply Z.eqb_neq in E. intros H. apply e256_ok in H as [-> ?]. auto. Qed.

Ltac u_inv :=
  repeat match goal with
  | H : umul _ _ = Ok _ |- _ => apply umul_ok in H as [? ?]
  | H : uadd _ _ = Ok _ |- _ => apply uadd_ok in H as [? ?]
  | H : usub _ _ = Ok _ |- _ => apply usub_ok in H as [? ?]
  | H : udiv _ _ = Ok _ |- _ => apply udiv_ok in H as [? ?]
  | H : mulratio _ _ _ = Ok _ |- _ => apply mulratio_ok in H as (? & ? & ?)
  end.

(* ---- one Newton step for y: the same post-condition as in the three-asset pool ---- *)
Lemma sy_step_post b c d t y' : sy_step b c d t = Ok y' -> (y' + 1) * (y' + 1) + (b - d) * (y' + 1) > c.
Proof.
  unfold sy_step. intros H. repeat bind_inv H. u_inv. subst.
  set (den := t + t + b - d) in *. assert (Hden : 0 < den) by lia.
  set (num := t * t + c) in *.
  pose proof (Z.mul_succ_div_gt num den Hden) as G. unfold Z.succ in G.
  set (v := num / den + 1) in *.
  pose proof (Z.square_nonneg (v - t)) as SQ.
  replace (b - d) with (den - 2 * t) by (unfold den; lia). unfold num in G. nia.
Qed.
Lemma sy_step_nonneg b c d t y' : sy_step b c d t = Ok y' -> 0 <= y'.
Proof. unfold sy_step. intros H. repeat bind_inv H. u_inv. subst. apply Z.div_pos; lia. Qed.

(* the loop only ever returns the output of a step (or fails) *)
Lemma sy_loop_post b c d : forall fuel y0 y, sy_loop fuel b c d y0 = Ok y -> y_post b c d y /\ 0 <= y < P128.
Proof.
  induction fuel as [|f IH]; intros y0 y H; cbn [sy_loop] in H; [discriminate|].
  bind_inv H. destruct (within v y0 1).
  - destruct (fits128 v) eqn:F; [|discriminate]. inversion H; subst. unfold fits128 in F. apply fits_true in F.
    split; [eapply sy_step_post; eauto|lia].
  - eauto.
Qed.

(* ---- truncation of the coefficients: with X = 2*pool_sum, A = 2*ann:  X A c <= d^3 < X A (c+1) + X d ---- *)
Lemma sy_coeffs_bounds ann x d b c : sy_coeffs ann x d = Ok (b, c) -> 0 <= d -> 0 <= x -> 0 <= ann ->
  0 < 2 * x /\ 0 < 2 * ann /\ 0 <= c /\
  (2 * x) * (2 * ann) * c <= d * d * d /\
  d * d * d < (2 * x) * (2 * ann) * (c + 1) + (2 * x) * d /\
  ann * (b - x) <= d < ann * (b - x + 1).
Proof.
  intros H Hd Hx Ha. unfold sy_coeffs in H. repeat bind_inv H. inversion H; subst; clear H. u_inv. subst.
  set (X := x * 2) in *. set (A := ann * 2) in *.
  assert (HX : 0 < X) by lia. assert (HA : 0 < A) by lia. assert (Hann : 0 < ann) by lia.
  set (c1 := d * d / X) in *. set (c2 := c1 * d / A) in *.
  pose proof (Z.mul_div_le (d * d) X HX) as L1. pose proof (Z.mul_succ_div_gt (d * d) X HX) as G1.
  pose proof (Z.mul_div_le (c1 * d) A HA) as L2. pose proof (Z.mul_succ_div_gt (c1 * d) A HA) as G2.
  fold c1 in L1, G1. fold c2 in L2, G2. unfold Z.succ in *.
  assert (N1 : 0 <= c1) by (apply Z.div_pos; nia).
  assert (N2 : 0 <= c2) by (apply Z.div_pos; nia).
  pose proof (Z.mul_div_le d ann Hann) as LB. pose proof (Z.mul_succ_div_gt d ann Hann) as GB. unfold Z.succ in GB.
  replace (2 * x) with X by (unfold X; lia). replace (2 * ann) with A by (unfold A; lia).
  repeat split; try lia.
  - assert (S1 : X * (A * c2) <= X * (c1 * d)) by nia. nia.
  - destruct (Z.eq_dec d 0) as [->|Hd0]; [nia|].
    assert (T1 : d * d * d < X * (c1 + 1) * d) by nia.
    assert (T2 : X * (c1 * d) < X * (A * (c2 + 1))) by nia. nia.
Qed.

(* ---- compute_swap, StableSwap arm ---- *)
Lemma from_to_precision v p a : 0 <= p <= 18 -> from_atomics v p = Ok a -> to_precision a p = Ok v.
Proof.
  intros Hp H. unfold from_atomics in H. assert (E : (p <=? 18) = true) by (apply Z.leb_le; lia). rewrite E in H.
  apply e256_ok in H as [-> _]. unfold to_precision. assert (E2 : (18 <? p) = false) by (apply Z.ltb_ge; lia). rewrite E2.
  f_equal. apply Z.div_mul. apply Z.pow_nonzero; lia.
Qed.

(* proceeds + fees = ask reserve - y for a y >= 0 that came out of a Newton step: so proceeds never exceed the ask reserve, the
   fees are floor(share * curve output), and the ask reserve the pool keeps is at most one unit below the root of the code's quadratic *)
Lemma compute_swap_stable_spec op ask x f amp dpo dpa s : compute_swap_stable op ask x f amp dpo dpa = Ok s -> 0 <= dpa <= 18 ->
  exists y g, g = ask - y /\ 0 <= y <= ask /\
    s_ret s + s_swapfee s + s_protfee s + s_burnfee s = g /\
    s_swapfee s = g * f_swap f / DEC /\ s_protfee s = g * f_protocol f / DEC /\ s_burnfee s = g * f_burn f / DEC /\
    0 <= s_ret s /\ s_ret s <= ask /\
    exists d b c, y_post b c d y.
Proof.
  unfold compute_swap_stable, fee_compute. intros H Hp.
  apply bind_ok in H as (opd & E1 & H). apply bind_ok in H as (apd & E2 & H). apply bind_ok in H as (oad & E3 & H).
  apply bind_ok in H as (y & EY & H). apply bind_ok in H as (askp & EA & H).
  rewrite (from_to_precision _ _ _ Hp E2) in EA. inversion EA; subst askp; clear EA.
  apply bind_ok in H as (ret & ER & H). apply bind_ok in H as (oap & EO & H).
  apply bind_ok in H as (sf & ES & H). apply bind_ok in H as (pf & EP & H). apply bind_ok in H as (bf & EB & H).
  apply bind_ok in H as (r1 & R1 & H). apply bind_ok in H as (r2 & R2 & H). apply bind_ok in H as (r3 & R3 & H).
  do 5 bind_inv H. inversion H; subst; clear H.
  repeat match goal with H : to128 _ = Ok _ |- _ => apply to128_ok in H as [? ?] end.
  u_inv. prim_inv. subst.
  unfold stableswap_y, stableswap_y_fuel in EY.
  apply bind_ok in EY as (ann & _ & EY). apply bind_ok in EY as (dd & _ & EY). apply bind_ok in EY as (dv & _ & EY).
  apply bind_ok in EY as (sm & _ & EY). apply bind_ok in EY as (ps & _ & EY). apply bind_ok in EY as (bc & _ & EY).
  destruct bc as [b c]. cbn [fst snd] in EY.
  destruct (sy_loop_post _ _ _ _ _ _ EY) as [P Y].
  exists y, (ask - y). cbn [s_ret s_swapfee s_protfee s_burnfee].
  repeat split; try lia. exists dv, b, c. exact P.
Qed.

(* ---- LP minting (raw amounts): the code's own invariant per LP token never falls ---- *)
Lemma next_d2_nonneg amp d p s v : next_d2 amp d p s = Ok v -> 0 <= v.
Proof. unfold next_d2. intros H. repeat bind_inv H. prim_inv. subst. apply Z.div_pos; lia. Qed.
Lemma d2_step_nonneg amp a2 b2 s d v : d2_step amp a2 b2 s d = Ok v -> 0 <= v.
Proof. unfold d2_step. intros H. repeat bind_inv H. prim_inv. eapply next_d2_nonneg; eauto. Qed.
Lemma d2_loop_nonneg amp a2 b2 s : forall fuel d v, 0 <= d -> d2_loop fuel amp a2 b2 s d = Ok v -> 0 <= v.
Proof.
  induction fuel as [|f IH]; intros d v Hd H; cbn [d2_loop] in H.
  - inversion H; subst; auto.
  - bind_inv H. pose proof (d2_step_nonneg _ _ _ _ _ _ E). destruct (within v0 d 1); [inversion H; subst; auto|eauto].
Qed.
Lemma compute_d2_nonneg amp a b v : compute_d2 amp a b = Ok v -> 0 <= v.
Proof.
  unfold compute_d2. generalize D2_FUEL. intros fuel. unfold compute_d2_fuel. intros H. bind_inv H. prim_inv.
  destruct (v0 =? 0). { inversion H; subst; lia. }
  do 2 bind_inv H. eapply d2_loop_nonneg; [|eauto]. lia.
Qed.

Lemma compute_mint2_spec amp da db sa sb supply m : compute_mint2 amp da db sa sb supply = Ok m -> 0 <= supply ->
  exists d0 d1, compute_d2 amp sa sb = Ok d0 /\ compute_d2 amp (sa + da) (sb + db) = Ok d1 /\
    0 < d0 < d1 /\ m = supply * (d1 - d0) / d0 /\ 0 <= m /\ (supply + m) * d0 <= supply * d1.
Proof.
  unfold compute_mint2. intros H HS.
  apply bind_ok in H as (d0 & E0 & H). apply bind_ok in H as (na & Ea & H). apply bind_ok in H as (nb & Eb & H).
  apply bind_ok in H as (d1 & E1 & H). prim_inv. subst.
  destruct (d1 <=? d0) eqn:C; [discriminate|]. apply Z.leb_gt in C.
  apply bind_ok in H as (diff & Ed & H). apply bind_ok in H as (mm & Em & H). apply bind_ok in H as (q & Eq & H).
  destruct (fits128 q) eqn:F; [|discriminate]. inversion H; subst; clear H. prim_inv. subst.
  pose proof (compute_d2_nonneg _ _ _ _ E0) as N0.
  exists d0, d1. repeat split; auto; try lia.
  - apply Z.div_pos; nia.
  - assert (P0 : 0 < d0) by lia. pose proof (Z.mul_div_le (supply * (d1 - d0)) d0 P0). nia.
Qed.

(* ---- the exact two-asset invariant as an integer predicate (any common unit; ann = 2*amp) ---- *)
Definition inv_le2 (ann x y D : Z) : Prop := D * D * D + (ann - 1) * D * (4 * x * y) <= ann * (x + y) * (4 * x * y).
Definition inv_le2b (ann x y D : Z) : bool := D * D * D + (ann - 1) * D * (4 * x * y) <=? ann * (x + y) * (4 * x * y).

(* decimals (6, 18), amp 100, 1000 whole tokens each; LP supply = what the first provide minted. A deposit of 1000 whole tokens of
   the 18-decimal asset (plus the obligatory single base unit of the other) mints 58.75 % of the supply although the
   decimal-normalised invariant grows by at most 50 % *)
Definition c03_w_supply : Z := 928031945063022259.
Lemma lp_mint_raw_decimals_refuted :
  compute_d2 100 1000000000 1000000000000000000000 = Ok c03_w_supply /\
  exists m, compute_mint2 100 1 1000000000000000000000 1000000000 1000000000000000000000 c03_w_supply = Ok m /\
    let X0 := 1000000000 * 10 ^ 12 in let Y0 := 1000000000000000000000 in
    let X1 := (1000000000 + 1) * 10 ^ 12 in let Y1 := 2 * 1000000000000000000000 in
    let D0 := 2000000000000000000000 in
    inv_le2b 200 X0 Y0 D0 = true /\                                         (* D0 is (not above) the invariant before *)
    inv_le2b 200 X1 Y1 (D0 * (c03_w_supply + m) / c03_w_supply) = false /\  (* the same value per LP token is above the invariant after *)
    (c03_w_supply + m) * 10000 / c03_w_supply = 15875.
Proof. split; [vm_compute; reflexivity|]. eexists. split; [vm_compute; reflexivity|]. vm_compute. repeat split. Qed.

(* ---- the pair machine: every successful pool swap, in any state of any history ---- *)
From WW Require Import Stable2Pool.
Lemma reserve2_ok i p v : reserve2 i p = Ok v -> v = get2 i (q_bal p) - get2 i (q_fee p) /\ 0 <= v.
Proof. unfold reserve2, csub. destruct (_ <=? _) eqn:E; intros H; inversion H. apply Z.leb_le in E. lia. Qed.

Lemma pool2_swap_spec p i x ms p' e : swap2 p i x ms = Ok (p', e) -> 0 <= get2 (1 - i) (q_dec p) <= 18 ->
  0 <= f_swap (q_fees p) -> 0 <= f_protocol (q_fees p) -> 0 <= f_burn (q_fees p) ->
  let j := 1 - i in
  let R := fun q t => get2 t (q_bal q) - get2 t (q_fee q) in
  (i = 0 \/ i = 1) /\
  exists s y, compute_swap_stable (R p i) (R p j) x (q_fees p) (q_amp p) (get2 i (q_dec p)) (get2 j (q_dec p)) = Ok s /\
    0 <= y <= R p j /\
    s_ret s + s_swapfee s + s_protfee s + s_burnfee s = R p j - y /\
    get2 j (f_user e) = s_ret s /\ get2 i (f_user e) = - x /\
    0 <= s_ret s /\ 0 <= s_swapfee s /\ 0 <= s_protfee s /\ 0 <= s_burnfee s /\
    R p' j = y + s_swapfee s /\ R p' i = R p i + x.
Proof.
  intros H Hd F1 F2 F3.
  assert (Ci : i = 0 \/ i = 1).
  { unfold swap2 in H. apply bind_ok in H as (r0 & _ & H). apply bind_ok in H as (r1 & _ & H).
    apply bind_ok in H as (u0 & EI & H). apply ensure_ok in EI. apply orb_true_iff in EI.
    destruct EI as [EI|EI]; apply Z.eqb_eq in EI; auto. }
  cbv zeta. split; [exact Ci|].
  assert (DP : 0 < DEC) by reflexivity.
  destruct p as [[b0 b1] [g0 g1] al bu S lp lps amp dec fs kinds].
  destruct Ci as [-> | ->]; [change (1 - 0) with 1 in *|change (1 - 1) with 0 in *];
    unfold swap2 in H; cbn [q_bal q_fee q_all q_burn q_fees q_amp q_dec q_supply q_lp q_lp_self q_cw20 Z.eqb orb] in H;
    change (1 - 0) with 1 in H; change (1 - 1) with 0 in H;
    apply bind_ok in H as (r0 & E0 & H); apply bind_ok in H as (r1 & E1 & H); apply bind_ok in H as (u0 & _ & H);
    apply bind_ok in H as (s & EC & H); apply bind_ok in H as (f1 & _ & H); apply bind_ok in H as (fsum & _ & H);
    apply bind_ok in H as (tot & _ & H); apply bind_ok in H as (u1 & _ & H); apply bind_ok in H as (u2 & _ & H);
    inversion H; subst; clear H;
    apply reserve2_ok in E0 as [-> N0]; apply reserve2_ok in E1 as [-> N1];
    cbn [q_bal q_fee q_fees q_amp q_dec get2 fst snd Z.eqb Pos.eqb] in *;
    destruct (compute_swap_stable_spec _ _ _ _ _ _ _ _ EC Hd) as (y & g & -> & Y & SUM & FS & FP & FB & RN & RL & _);
    (assert (P1 : 0 <= s_swapfee s) by (rewrite FS; apply Z.div_pos; [apply Z.mul_nonneg_nonneg|]; lia));
    (assert (P2 : 0 <= s_protfee s) by (rewrite FP; apply Z.div_pos; [apply Z.mul_nonneg_nonneg|]; lia));
    (assert (P3 : 0 <= s_burnfee s) by (rewrite FB; apply Z.div_pos; [apply Z.mul_nonneg_nonneg|]; lia));
    exists s, y; cbn [q_bal q_fee q_fees q_amp q_dec f_user get2 upd2 fst snd Z.eqb Pos.eqb zero2];
    repeat split; try assumption; try lia.
Qed.
