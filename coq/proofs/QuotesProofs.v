(* QuotesProofs.v — C14 (simulation = execution) and the machine-level part of C15 on the pool machine *)
From WW Require Import Prim CPSwap Slippage CP CPInst.
From WW.Proofs Require Import ArithLemmas CPSwapProofs ListLemmas CPProofs SlippageProofs.

Lemma unit_eta (u : unit) : u = tt. Proof. destruct u; reflexivity. Qed.

(* a successful swap passed the spread assertion on (offer, proceeds + fees, spread), and the simulation query
   (computed from the state BEFORE the offer arrives) returns exactly the five executed amounts *)
Lemma swap_checks k s who dir x b m to s' p : Inv k s -> fits128 x = true ->
  swap k s who dir x b m to = Ok (s', p) ->
  simulate s dir x = Ok (mkSwap (p_ret p) (p_spread p) (p_swapfee p) (p_protfee p) (p_burnfee p)) /\
  assert_max_spread (c_default_spread k) (c_max_spread k) b m x
      (p_ret p + (p_swapfee p + p_protfee p + p_burnfee p)) (p_spread p) = Ok tt.
Proof.
  intros HI Hx H. destruct HI as [Hp0 Hp1 Hb0 Hb1 _ _ _ _ Hf].
  apply fits_true in Hx. unfold swap in H. unfold simulate.
  dstep H. dstep H.
  assert (S0 : csub (bal0 s) (pf0 s) = Ok (bal0 s - pf0 s)) by (unfold csub; replace (pf0 s <=? bal0 s) with true by (symmetry; apply Z.leb_le; lia); reflexivity).
  assert (S1 : csub (bal1 s) (pf1 s) = Ok (bal1 s - pf1 s)) by (unfold csub; replace (pf1 s <=? bal1 s) with true by (symmetry; apply Z.leb_le; lia); reflexivity).
  rewrite S0, S1. cbn [bind].
  destruct dir; cbv iota in H; cbn [bind] in H; cbv iota.
  - dstep H. dstep H. dstep H.
    apply csub_ok in E1 as [? ->]. apply csub_ok in E2 as [? ->]. apply csub_ok in E3 as [? ->].
    replace (bal1 s + x - pf1 s - x) with (bal1 s - pf1 s) in H by lia.
    dstep H. dstep H. dstep H. dstep H. dstep H. dstep H. dstep H. dstep H.
    apply cadd_ok in E2 as [-> _]. apply cadd_ok in E3 as [-> _]. apply cadd_ok in E4 as [-> _].
    inversion H; subst s' p; sproj. split.
    + match goal with |- Ok ?c = _ => destruct c; reflexivity end.
    + match goal with Ea : assert_max_spread _ _ _ _ _ _ _ = Ok ?u |- _ => rewrite <- (unit_eta u); exact Ea end.
  - dstep H. dstep H. dstep H.
    apply csub_ok in E1 as [? ->]. apply csub_ok in E2 as [? ->]. apply csub_ok in E3 as [? ->].
    replace (bal0 s + x - pf0 s - x) with (bal0 s - pf0 s) in H by lia.
    dstep H. dstep H. dstep H. dstep H. dstep H. dstep H. dstep H. dstep H.
    apply cadd_ok in E2 as [-> _]. apply cadd_ok in E3 as [-> _]. apply cadd_ok in E4 as [-> _].
    inversion H; subst s' p; sproj. split.
    + match goal with |- Ok ?c = _ => destruct c; reflexivity end.
    + match goal with Ea : assert_max_spread _ _ _ _ _ _ _ = Ok ?u |- _ => rewrite <- (unit_eta u); exact Ea end.
Qed.

(* the query never changes state (it is a pure function of the state), so quoting then executing is the same
   as executing: the statement of C14 for the pair *)
Lemma sim_eq_exec s who dir x b m to s' p : reachable s ->
  step the_consts s (Swap who dir x b m to) = Ok (s', p) ->
  simulate s dir x = Ok (mkSwap (p_ret p) (p_spread p) (p_swapfee p) (p_protfee p) (p_burnfee p)) /\
  (* and the executed swap transfers / records exactly those amounts *)
  (if dir then bal0 s - bal0 s' = p_ret p + p_burnfee p /\ pf0 s' - pf0 s = p_protfee p /\ bu0 s' - bu0 s = p_burnfee p /\ bal1 s' - bal1 s = x
   else bal1 s - bal1 s' = p_ret p + p_burnfee p /\ pf1 s' - pf1 s = p_protfee p /\ bu1 s' - bu1 s = p_burnfee p /\ bal0 s' - bal0 s = x).
Proof.
  intros Hr H. apply reachable_inv in Hr. unfold step in H.
  destruct (op_wf _) eqn:Ewf; cbn [negb] in H; [|discriminate]. cbn [op_wf] in Ewf.
  apply andb_true_iff in Ewf as [Ewf _]. apply andb_true_iff in Ewf as [W0 _].
  split. eapply swap_checks; eauto.
  pose proof (swap_ok _ _ _ _ _ _ _ _ _ _ Hr W0 H) as Hk. cbv zeta in Hk.
  destruct Hk as (_ & _ & _ & _ & _ & _ & _ & _ & _ & _ & _ & _ & _ & _ & _ & _ & _ & _ & _ & _ & _ & _ & Hd).
  destruct dir; destruct Hd as (D1 & D2 & D3 & D4 & D5 & D6 & D7 & D8 & D9); repeat split; lia.
Qed.

(* C15 on the machine: a swap that succeeded without belief price had floor(spread*1e18/(gross+spread)) <= s_eff *)
Lemma swap_respects_max_spread s who dir x m to s' p : reachable s ->
  step the_consts s (Swap who dir x None m to) = Ok (s', p) ->
  let g := p_ret p + (p_swapfee p + p_protfee p + p_burnfee p) in
  0 < g + p_spread p /\
  p_spread p * DEC / (g + p_spread p) <= eff_spread (c_default_spread the_consts) (c_max_spread the_consts) m /\
  p_spread p * DEC < (eff_spread (c_default_spread the_consts) (c_max_spread the_consts) m + 1) * (g + p_spread p).
Proof.
  intros Hr H. apply reachable_inv in Hr. unfold step in H.
  destruct (op_wf _) eqn:Ewf; cbn [negb] in H; [|discriminate]. cbn [op_wf] in Ewf.
  apply andb_true_iff in Ewf as [Ewf _]. apply andb_true_iff in Ewf as [W0 _].
  pose proof (swap_checks _ _ _ _ _ _ _ _ _ _ Hr W0 H) as [_ Ha].
  pose proof (swap_ok _ _ _ _ _ _ _ _ _ _ Hr W0 H) as Hk. cbv zeta in Hk.
  destruct Hk as (_ & _ & _ & _ & _ & _ & _ & K8 & _).
  cbv zeta. pose proof (max_spread_sound _ _ _ _ _ _ Ha) as [Hp Hle]. split; [assumption|]. split; [assumption|].
  eapply max_spread_sound_rational; eauto.
Qed.

Lemma swap_respects_belief_price s who dir x bp m to s' p : reachable s -> 0 < bp ->
  step the_consts s (Swap who dir x (Some bp) m to) = Ok (s', p) ->
  let g := p_ret p + (p_swapfee p + p_protfee p + p_burnfee p) in
  let er := expected_return x bp in
  g * DEC + er > er * (DEC - eff_spread (c_default_spread the_consts) (c_max_spread the_consts) m) \/ er <= g.
Proof.
  intros Hr Hbp H. apply reachable_inv in Hr. unfold step in H.
  destruct (op_wf _) eqn:Ewf; cbn [negb] in H; [|discriminate]. cbn [op_wf] in Ewf.
  apply andb_true_iff in Ewf as [Ewf _]. apply andb_true_iff in Ewf as [W0 _].
  pose proof (swap_checks _ _ _ _ _ _ _ _ _ _ Hr W0 H) as [_ Ha].
  pose proof (swap_ok _ _ _ _ _ _ _ _ _ _ Hr W0 H) as Hk. cbv zeta in Hk.
  destruct Hk as (_ & _ & _ & K4 & K5 & K6 & K7 & _).
  apply fits_true in W0.
  eapply belief_sound; eauto; lia.
Qed.

(* a deposit into a pool with liquidity that succeeded with tolerance t satisfied the documented ratio bound *)
Lemma provide_respects_tolerance s who d0 d1 t rc s' p : reachable s -> 0 < supply s ->
  step the_consts s (Provide who d0 d1 (Some t) rc) = Ok (s', p) ->
  t <= DEC /\ tol_bound t d0 d1 (res0 s) (res1 s).
Proof.
  intros Hr HS H. apply reachable_inv in Hr. unfold step in H.
  destruct (op_wf _) eqn:Ewf; cbn [negb] in H; [|discriminate]. cbn [op_wf] in Ewf.
  unfold provide in H.
  destruct (en_d s); cbn [negb] in H; [|discriminate].
  destruct ((d0 =? 0) || (d1 =? 0)); [discriminate|].
  dstep H. dstep H. apply csub_ok in E as [? ->]. apply csub_ok in E0 as [? ->].
  destruct (supply s =? 0) eqn:Es; [apply Z.eqb_eq in Es; lia|].
  dstep H. dstep H. dstep H. dstep H. dstep H.
  apply tolerance_sound. unfold res0, res1.
  match goal with Ea : assert_slippage_cp _ _ _ _ _ = Ok ?u |- _ => rewrite <- (unit_eta u); exact Ea end.
Qed.
