(* VaultLedger.v — list-ledger facts (upd / get / sumZ / xfer) and outcome-monad inversion used by VaultProofs.v *)
From WW Require Import Prim Vault.
From WW.Proofs Require Import ArithLemmas.

Lemma has_true l i : has l i = true <-> (i < length l)%nat.
Proof. unfold has. apply Nat.ltb_lt. Qed.

Lemma length_upd l : forall i v, length (upd l i v) = length l.
Proof. induction l as [|x r IH]; intros [|i] v; cbn; auto. Qed.

Lemma get_upd_same l : forall i v, (i < length l)%nat -> get (upd l i v) i = v.
Proof.
  unfold get. induction l as [|x r IH]; intros [|i] v H; cbn in *; try lia; auto.
  apply IH. lia.
Qed.

Lemma get_upd_other l : forall i j v, i <> j -> get (upd l i v) j = get l j.
Proof.
  unfold get. induction l as [|x r IH]; intros [|i] [|j] v H; cbn; auto; try congruence.
Qed.

Lemma upd_get_same l : forall i, upd l i (get l i) = l.
Proof.
  unfold get. induction l as [|x r IH]; intros [|i]; cbn; auto. f_equal. apply IH.
Qed.

Lemma get_out l : forall i, (length l <= i)%nat -> get l i = 0.
Proof. intros. unfold get. apply nth_overflow. lia. Qed.

Lemma sumZ_upd l : forall i v, (i < length l)%nat -> sumZ (upd l i v) = sumZ l - get l i + v.
Proof.
  unfold get. induction l as [|x r IH]; intros [|i] v H; cbn in *; try lia.
  rewrite IH by lia. lia.
Qed.

Lemma sumZ_upd_any l i v : sumZ (upd l i v) = sumZ l + (if has l i then v - get l i else 0).
Proof.
  destruct (has l i) eqn:E.
  - apply has_true in E. rewrite sumZ_upd by auto. lia.
  - assert (length l <= i)%nat by (unfold has in E; apply Nat.ltb_ge in E; lia).
    assert (upd l i v = l) as ->; [|lia].
    clear E. revert i H. induction l as [|x r IH]; intros [|i] H; cbn in *; auto; try lia. f_equal. apply IH. lia.
Qed.

Definition nonneg (l : list Z) : Prop := Forall (fun x => 0 <= x) l.

Lemma nonneg_upd l : forall i v, nonneg l -> 0 <= v -> nonneg (upd l i v).
Proof.
  unfold nonneg. induction l as [|x r IH]; intros [|i] v H Hv; cbn; auto; inversion H; subst; constructor; auto.
Qed.

Lemma nonneg_get l i : nonneg l -> 0 <= get l i.
Proof.
  intros H. unfold get. destruct (Nat.lt_ge_cases i (length l)).
  - unfold nonneg in H. rewrite Forall_forall in H. apply H. apply nth_In. auto.
  - rewrite nth_overflow by lia. lia.
Qed.

Lemma nonneg_sum l : nonneg l -> 0 <= sumZ l.
Proof. induction 1; cbn; lia. Qed.

Lemma get_le_sum l i : nonneg l -> get l i <= sumZ l.
Proof.
  intros H. revert i. induction H as [|x r Hx Hr IH]; intros [|i]; unfold get in *; cbn; try lia.
  - pose proof (nonneg_sum r Hr). lia.
  - specialize (IH i). lia.
Qed.

(* the sum of two different entries is below the total *)
Lemma get2_le_sum l i j : nonneg l -> i <> j -> get l i + get l j <= sumZ l.
Proof.
  intros H. revert i j. induction H as [|x r Hx Hr IH]; intros [|i] [|j] Hij; unfold get in *; cbn; try lia.
  - pose proof (get_le_sum r j Hr). unfold get in *. lia.
  - pose proof (get_le_sum r i Hr). unfold get in *. lia.
  - assert (i <> j) by congruence. specialize (IH i j H). lia.
Qed.

Lemma nonneg_map0 (l : list Z) : nonneg (map (fun _ => 0) l).
Proof. induction l; cbn; constructor; auto; lia. Qed.
Lemma sumZ_map0 (l : list Z) : sumZ (map (fun _ => 0) l) = 0.
Proof. induction l; cbn; lia. Qed.

(* ---- outcome inversion --------------------------------------------------- *)
Lemma ensure_ok b c : ensure b c = Ok tt <-> b = true.
Proof. destruct b; cbn; split; congruence. Qed.
Lemma ensure_ok' b c u : ensure b c = Ok u -> b = true.
Proof. destruct b; cbn; congruence. Qed.
Lemma must_ok' b u : must b = Ok u -> b = true.
Proof. destruct b; cbn; congruence. Qed.
Lemma cadd_ok w a b r : cadd w a b = Ok r -> r = a + b /\ 0 <= a + b < w.
Proof. unfold cadd. destruct (fits w (a + b)) eqn:E; intros H; inversion H. apply fits_true in E. auto. Qed.
Lemma csub_ok a b r : csub a b = Ok r -> r = a - b /\ b <= a.
Proof. unfold csub. destruct (b <=? a) eqn:E; intros H; inversion H. apply Z.leb_le in E. auto. Qed.
Lemma cdiv_ok a b r : cdiv a b = Ok r -> r = a / b /\ b <> 0.
Proof. unfold cdiv. destruct (b =? 0) eqn:E; intros H; inversion H. apply Z.eqb_neq in E. auto. Qed.
Lemma fee_ok z sh r : fee z sh = Ok r -> r = z * sh / DEC /\ r < P128.
Proof. unfold fee. destruct (z * sh / DEC <? P128) eqn:E; intros H; inversion H. apply Z.ltb_lt in E. subst. auto. Qed.
Lemma dec_from_ratio_ok w n d r : dec_from_ratio w n d = Ok r -> r = n * DEC / d /\ d <> 0.
Proof.
  unfold dec_from_ratio. destruct (d =? 0) eqn:E; [discriminate|]. apply Z.eqb_neq in E.
  destruct (n * DEC / d <? w); intros H; inversion H. auto.
Qed.
Lemma mul_dec_ok w u d r : mul_dec w u d = Ok r -> r = u * d / DEC.
Proof. unfold mul_dec. destruct (u * d / DEC <? w); intros H; inversion H. auto. Qed.

(* split `bind m f = Ok r` *)
Lemma bind_ok {A B} (m : outcome A) (f : A -> outcome B) r : bind m f = Ok r -> exists a, m = Ok a /\ f a = Ok r.
Proof. destruct m; cbn; intros H; try discriminate. eauto. Qed.

Ltac bind_inv H :=
  let a := fresh "v" in let E := fresh "E" in
  apply bind_ok in H; destruct H as (a & E & H).
Tactic Notation "bind_as" hyp(H) ident(a) ident(E) :=
  apply bind_ok in H; destruct H as (a & E & H).

(* ---- xfer ----------------------------------------------------------------- *)
Lemma xfer_ok k l from to z l' : xfer k l from to z = Ok l' ->
  (from < length l)%nat /\ (to < length l)%nat /\ 0 <= z /\ (k = false -> 0 < z) /\ z <= get l from /\
  l' = upd (upd l from (get l from - z)) to (get (upd l from (get l from - z)) to + z).
Proof.
  unfold xfer. intros H. bind_inv H. bind_inv H. bind_inv H. inversion H; subst; clear H.
  apply ensure_ok' in E, E0, E1. apply andb_true_iff in E as [E E']. apply has_true in E, E'. apply Z.leb_le in E1.
  repeat split; auto.
  - destruct k; [apply Z.leb_le in E0; lia | apply Z.ltb_lt in E0; lia].
  - intros ->. apply Z.ltb_lt in E0. lia.
Qed.

Lemma xfer_length k l from to z l' : xfer k l from to z = Ok l' -> length l' = length l.
Proof. intros H. apply xfer_ok in H as (_ & _ & _ & _ & _ & ->). rewrite !length_upd. auto. Qed.

Lemma xfer_sum k l from to z l' : xfer k l from to z = Ok l' -> sumZ l' = sumZ l.
Proof.
  intros H. apply xfer_ok in H as (Hf & Ht & _ & _ & _ & ->).
  rewrite sumZ_upd by (rewrite length_upd; auto). rewrite sumZ_upd by auto. lia.
Qed.

Lemma xfer_nonneg k l from to z l' : nonneg l -> xfer k l from to z = Ok l' -> nonneg l'.
Proof.
  intros Hn H. apply xfer_ok in H as (Hf & Ht & Hz & _ & Hle & ->).
  apply nonneg_upd; [apply nonneg_upd; auto; lia|].
  assert (0 <= get (upd l from (get l from - z)) to); [|lia].
  apply nonneg_get. apply nonneg_upd; auto. lia.
Qed.

Lemma xfer_get k l from to z l' j : xfer k l from to z = Ok l' ->
  get l' j = get l j - (if Nat.eqb j from then z else 0) + (if Nat.eqb j to then z else 0).
Proof.
  intros H. apply xfer_ok in H as (Hf & Ht & _ & _ & _ & ->).
  destruct (Nat.eqb_spec j to) as [->|Hjt].
  - rewrite get_upd_same by (rewrite length_upd; auto).
    destruct (Nat.eqb_spec to from) as [->|Hne].
    + rewrite get_upd_same by auto. lia.
    + rewrite get_upd_other by auto. lia.
  - rewrite get_upd_other by auto.
    destruct (Nat.eqb_spec j from) as [->|Hjf].
    + rewrite get_upd_same by auto. lia.
    + rewrite get_upd_other by auto. lia.
Qed.
