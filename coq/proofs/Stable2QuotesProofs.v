(* Stable2QuotesProofs.v — StableSwap pair: the simulation query quotes exactly what a swap of the same offer in the same
   state transfers and records (C14), both directions, any decimals, native and cw20 offers. *)
From WW Require Import Prim Params Amp CPSwap Stable2 Stable2Pool Stable2Quotes.
From WW.Proofs Require Import ArithLemmas MonadLemmas Stable3Proofs Stable2Proofs.

Local Open Scope Z_scope.

Lemma exec_reserve2_eq i x k p : 0 <= x -> exec_reserve2 i x k p = reserve2 k p.
Proof.
  intro X. unfold exec_reserve2, reserve2, csub.
  destruct (k =? i).
  - destruct (get2 k (q_fee p) <=? get2 k (q_bal p) + x) eqn:A; destruct (get2 k (q_fee p) <=? get2 k (q_bal p)) eqn:B; cbn [bind].
    + assert ((x <=? get2 k (q_bal p) + x - get2 k (q_fee p)) = true) as -> by (apply Z.leb_le; apply Z.leb_le in B; lia).
      f_equal. lia.
    + assert ((x <=? get2 k (q_bal p) + x - get2 k (q_fee p)) = false) as -> by (apply Z.leb_gt; apply Z.leb_gt in B; lia).
      reflexivity.
    + apply Z.leb_gt in A. apply Z.leb_le in B. lia.
    + reflexivity.
  - rewrite Z.add_0_r. destruct (get2 k (q_fee p) <=? get2 k (q_bal p)); reflexivity.
Qed.

Theorem swap2_exec_is_swap2 p i x ms : 0 <= x -> swap2_exec p i x ms = swap2 p i x ms.
Proof. intro X. unfold swap2_exec, swap2. rewrite !exec_reserve2_eq by exact X. reflexivity. Qed.

Theorem sim2_eq_exec p i x ms p' e : 0 <= x -> swap2_exec p i x ms = Ok (p', e) ->
  let j := 1 - i in
  (i = 0 \/ i = 1) /\
  exists s, simulate2 p i x = Ok s /\
    get2 j (f_user e) = s_ret s /\ get2 i (f_user e) = - x /\ get2 j (f_burned e) = s_burnfee s /\
    get2 j (q_fee p') - get2 j (q_fee p) = s_protfee s /\
    get2 j (q_all p') - get2 j (q_all p) = s_protfee s /\
    get2 j (q_burn p') - get2 j (q_burn p) = s_burnfee s /\
    get2 j (q_bal p) - get2 j (q_bal p') = s_ret s + s_burnfee s /\
    get2 i (q_bal p') - get2 i (q_bal p) = x.
Proof.
  intros X H. rewrite swap2_exec_is_swap2 in H by exact X. cbv zeta.
  assert (Ci : i = 0 \/ i = 1).
  { unfold swap2 in H. apply bind_ok in H as (r0 & _ & H). apply bind_ok in H as (r1 & _ & H).
    apply bind_ok in H as (u0 & EI & H). apply ensure_ok in EI. apply orb_true_iff in EI.
    destruct EI as [EI|EI]; apply Z.eqb_eq in EI; auto. }
  split; [exact Ci|].
  unfold swap2 in H. unfold simulate2.
  apply bind_ok in H as (r0 & E0 & H). apply bind_ok in H as (r1 & E1 & H). apply bind_ok in H as (u0 & EI & H).
  apply bind_ok in H as (s & EC & H). apply bind_ok in H as (f1 & _ & H). apply bind_ok in H as (fsum & _ & H).
  apply bind_ok in H as (tot & _ & H). apply bind_ok in H as (u1 & _ & H). apply bind_ok in H as (u2 & _ & H).
  inversion H; subst; clear H.
  exists s. rewrite E0, E1. cbn [bind]. rewrite EI. cbn [bind]. split; [exact EC|].
  cbn [f_user f_burned q_fee q_all q_burn q_bal].
  destruct (q_bal p) as [b0 b1], (q_fee p) as [g0 g1], (q_all p) as [a0 a1], (q_burn p) as [u0' u1'].
  destruct Ci as [-> | ->]; cbn; repeat split; lia.
Qed.
