(* ArithLemmas.v — floor-division facts used across the developments *)
From WW Require Import Prim.

Lemma DEC_pos : 0 < DEC. Proof. reflexivity. Qed.
Lemma P128_val : P128 = 340282366920938463463374607431768211456. Proof. reflexivity. Qed.
Lemma P256_eq : P256 = P128 * P128. Proof. reflexivity. Qed.
Lemma DEC_lt_P64 : DEC < P64. Proof. reflexivity. Qed.
Lemma P64_sq : P64 * P64 = P128. Proof. reflexivity. Qed.

Lemma nested_floor n d k : 0 < d -> 0 < k -> (n * k / d) / k = n / d.
Proof.
  intros Hd Hk. rewrite Z.div_div by lia. rewrite (Z.mul_comm d k).
  rewrite Z.mul_comm. apply Z.div_mul_cancel_l; lia.
Qed.

Lemma div_le_self_pos a b : 0 <= a -> 0 < b -> a / b <= a.
Proof. intros. apply Z.div_le_upper_bound; nia. Qed.

Lemma div_nonneg a b : 0 <= a -> 0 < b -> 0 <= a / b.
Proof. intros. apply Z.div_pos; lia. Qed.

Lemma mul_div_le_l a b c : 0 <= a -> 0 <= b -> 0 < c -> b <= c -> a * b / c <= a.
Proof. intros. apply Z.div_le_upper_bound; nia. Qed.

Lemma div_mul_le_pos a b : 0 < b -> b * (a / b) <= a.
Proof. intros. apply Z.mul_div_le; lia. Qed.

Lemma div_lt_upper a b c : 0 < b -> a < c * b -> a / b < c.
Proof. intros. apply Z.div_lt_upper_bound; lia. Qed.

Lemma floor_sum3_le g a b c k : 0 <= g -> 0 <= a -> 0 <= b -> 0 <= c -> 0 < k -> a + b + c <= k ->
  g * a / k + g * b / k + g * c / k <= g.
Proof.
  intros Hg Ha Hb Hc Hk Hs.
  pose proof (div_mul_le_pos (g*a) k Hk). pose proof (div_mul_le_pos (g*b) k Hk).
  pose proof (div_mul_le_pos (g*c) k Hk).
  assert (k * (g * a / k + g * b / k + g * c / k) <= k * g) by nia.
  nia.
Qed.

Lemma fits_true w z : fits w z = true <-> 0 <= z < w.
Proof. unfold fits. rewrite andb_true_iff, Z.leb_le, Z.ltb_lt. tauto. Qed.
Lemma fits_intro w z : 0 <= z < w -> fits w z = true.
Proof. apply fits_true. Qed.
