(* VaultProofs.v — invariants of the vault model: specs of the primitive operations, the relations preserved by
   borrower scripts of every depth (Q), by loan-free scripts (LF) and by un-nested operations (Good / PM = share
   price monotone), and the theorems behind props/C05.v and props/C06.v. *)
From WW Require Import Prim Vault.
From WW.Proofs Require Import ArithLemmas VaultLedger.

Arguments Z.mul : simpl never.
Arguments Z.div : simpl never.
Arguments Z.add : simpl never.
Arguments Z.sub : simpl never.
Arguments Z.pow : simpl never.

Lemma MIN_LIQ_pos : 0 < MIN_LIQ. Proof. reflexivity. Qed.

Ltac simp := cbn [ab lp pend allf burned counter conf set_ab set_lp set_pend set_allf set_burned set_counter set_conf
                  f_prot f_flash f_burn dep_on wd_on fl_on owner is_cw20 fst snd] in *.

(* ---- the basic invariant ------------------------------------------------- *)
Record Inv (st : state) : Prop := mkInv {
  i_ab : nonneg (ab st);
  i_lp : nonneg (lp st);
  i_pend : 0 <= pend st;
  i_allf : 0 <= allf st;
  i_burned : 0 <= burned st;
  i_counter : 0 <= counter st;
  i_fees : fees_valid (f_prot (conf st)) (f_flash (conf st)) (f_burn (conf st)) = true;
  i_locked : 0 < supply st -> MIN_LIQ <= get (lp st) VAULT }.

Lemma fees_valid_true p f b : fees_valid p f b = true -> 0 <= p /\ 0 <= f /\ 0 <= b /\ p + f + b < DEC.
Proof.
  unfold fees_valid. rewrite !andb_true_iff, !Z.leb_le, !Z.ltb_lt. tauto.
Qed.

Lemma fee_floor_nonneg z sh : 0 <= z -> 0 <= sh -> 0 <= z * sh / DEC.
Proof. intros. apply Z.div_pos; [nia | reflexivity]. Qed.

(* ---- specs of the primitive operations ----------------------------------- *)
Lemma deposit_spec u z sent st st' : deposit u z sent st = Ok st' ->
  dep_on (conf st) = true /\ counter st = 0 /\ sent = z /\ (u < length (lp st))%nat /\
  exists ab' locked share,
    ((supply st = 0 /\ locked = MIN_LIQ /\ share = z - MIN_LIQ /\ 0 < share) \/
     (supply st <> 0 /\ locked = 0 /\ pend st <= bal st /\ backing st <> 0 /\ share = z * supply st / backing st)) /\
    ((z = 0 /\ ab' = ab st) \/ (z <> 0 /\ xfer (kind st) (ab st) u VAULT z = Ok ab')) /\
    st' = set_lp (set_ab st ab')
            (upd (upd (lp st) VAULT (get (lp st) VAULT + locked)) u
                 (get (upd (lp st) VAULT (get (lp st) VAULT + locked)) u + share)).
Proof.
  unfold deposit. intros H.
  bind_as H uu0 EFUNDS.
  bind_inv H. apply ensure_ok' in E.
  bind_inv H. apply ensure_ok' in E0. apply Z.eqb_eq in E0.
  bind_inv H. apply ensure_ok' in E1. apply Z.eqb_eq in E1.
  bind_inv H. apply ensure_ok' in E2. apply has_true in E2.
  bind_as H mint EM. destruct mint as [locked share].
  bind_as H ab' EX. bind_inv H. inversion H; subst st'; clear H.
  repeat split; auto.
  exists ab', locked, share. split; [|split; auto].
  - destruct (supply st =? 0) eqn:ES.
    + apply Z.eqb_eq in ES. left. bind_as EM sh ES1. bind_as EM uu ES2. inversion EM; subst.
      apply csub_ok in ES1 as [-> Hle]. apply ensure_ok' in ES2. apply negb_true_iff, Z.eqb_neq in ES2.
      repeat split; auto. lia.
    + apply Z.eqb_neq in ES. right. bind_as EM t ES1. bind_as EM l ES2. bind_as EM uu ES3. inversion EM; subst.
      apply csub_ok in ES1 as [-> Hle]. apply cdiv_ok in ES2 as [-> Hne]. unfold backing. repeat split; auto.
  - destruct (z =? 0) eqn:EZ.
    + apply Z.eqb_eq in EZ. inversion EX; subst. left; auto.
    + apply Z.eqb_neq in EZ. right; auto.
Qed.

Lemma withdraw_spec u a st st' : withdraw u a st = Ok st' ->
  (u < length (lp st))%nat /\ u <> VAULT /\ 0 <= a <= get (lp st) u /\ wd_on (conf st) = true /\
  pend st <= bal st /\ supply st <> 0 /\
  exists ab', xfer (kind st) (ab st) VAULT u (backing st * (a * DEC / supply st) / DEC) = Ok ab' /\
    st' = set_lp (set_ab st ab') (upd (lp st) u (get (lp st) u - a)).
Proof.
  unfold withdraw. intros H.
  bind_inv H. apply ensure_ok' in E. apply andb_true_iff in E as [E E']. apply has_true in E.
  apply negb_true_iff, Nat.eqb_neq in E'.
  bind_inv H. apply ensure_ok' in E0. apply andb_true_iff in E0 as [E0 E0']. apply Z.leb_le in E0, E0'.
  bind_inv H. apply ensure_ok' in E1.
  bind_as H t ET. apply csub_ok in ET as [-> Hle].
  bind_as H r ER. apply dec_from_ratio_ok in ER as [-> Hne].
  bind_as H w EW. apply mul_dec_ok in EW as ->.
  bind_as H ab' EX. inversion H; subst st'; clear H.
  repeat split; auto. exists ab'. split; auto.
Qed.

Lemma collect_spec st st' : collect st = Ok st' ->
  (pend st = 0 /\ st' = set_pend st 0) \/
  (pend st <> 0 /\ exists ab', xfer (kind st) (ab st) VAULT COLL (pend st) = Ok ab' /\ st' = set_ab (set_pend st 0) ab').
Proof.
  unfold collect. destruct (pend st =? 0) eqn:E; intros H.
  - apply Z.eqb_eq in E. inversion H. left; auto.
  - apply Z.eqb_neq in E. bind_as H ab' EX. inversion H. right. split; auto. exists ab'. split; auto.
Qed.

Lemma after_trade_spec old z st st' : after_trade old z st = Ok st' ->
  let c := conf st in
  let pf := z * f_prot c / DEC in let ff := z * f_flash c / DEC in let bf := z * f_burn c / DEC in
  old + pf + ff + bf <= bal st /\ 0 <= old + pf + ff + bf < P128 /\
  st' = mkSt (upd (ab st) VAULT (bal st - bf)) (lp st) (pend st + pf) (allf st + pf) (burned st + bf)
             (ssub (counter st) 1) (conf st).
Proof.
  unfold after_trade. intros H. cbv zeta.
  bind_inv H. apply fee_ok in E as [-> _].
  bind_inv H. apply fee_ok in E as [-> _].
  bind_inv H. apply fee_ok in E as [-> _].
  bind_inv H. apply cadd_ok in E as [-> B1].
  bind_inv H. apply cadd_ok in E as [-> B2].
  bind_inv H. apply cadd_ok in E as [-> B3].
  bind_inv H. apply ensure_ok' in E. apply Z.leb_le in E.
  bind_inv H. apply cadd_ok in E0 as [-> B4].
  bind_inv H. apply cadd_ok in E0 as [-> B5].
  split; [lia|]. split; [lia|].
  destruct (z * f_burn (conf st) / DEC =? 0) eqn:EB.
  - apply Z.eqb_eq in EB. inversion H; subst st'; clear H. rewrite EB.
    unfold bal. replace (get (ab st) VAULT - 0) with (get (ab st) VAULT) by lia. rewrite upd_get_same.
    unfold set_counter, set_allf, set_pend; simp. f_equal. lia.
  - bind_inv H. apply cadd_ok in E0 as [-> B6]. inversion H; subst st'; clear H.
    unfold set_ab, set_burned, set_counter, set_allf, set_pend, bal; simp. reflexivity.
Qed.

Lemma flash_loan_spec who z body st st' : flash_loan who z body st = Ok st' ->
  fl_on (conf st) = true /\ 0 <= counter st + 1 < P32 /\
  exists ab1 st2, xfer (kind st) (ab st) VAULT who z = Ok ab1 /\
    body (set_counter (set_ab st ab1) (counter st + 1)) = Ok st2 /\
    after_trade (bal st) z st2 = Ok st'.
Proof.
  unfold flash_loan. intros H.
  bind_inv H. apply ensure_ok' in E.
  bind_inv H. apply cadd_ok in E0 as [-> B].
  bind_as H ab1 EX. bind_as H st2 EB.
  repeat split; auto; try lia. exists ab1, st2. auto.
Qed.

Lemma payback_spec c z q pf ff bf : payback c z = Ok (q, pf, ff, bf) ->
  pf = z * f_prot c / DEC /\ ff = z * f_flash c / DEC /\ bf = z * f_burn c / DEC /\ q = z + pf + ff + bf /\ q < P128.
Proof.
  unfold payback. intros H.
  bind_inv H. apply fee_ok in E as [-> _].
  bind_inv H. apply fee_ok in E as [-> _].
  bind_inv H. apply fee_ok in E as [-> _].
  bind_inv H. apply cadd_ok in E as [-> B1].
  bind_inv H. apply cadd_ok in E as [-> B2].
  bind_inv H. apply cadd_ok in E as [-> B3].
  inversion H; subst. repeat split; auto; lia.
Qed.

(* ---- Q: what every borrower script, of any depth, preserves --------------- *)
Definition Q (st st' : state) : Prop :=
  Inv st' /\ counter st' = counter st /\ conf st' = conf st /\
  length (ab st') = length (ab st) /\ length (lp st') = length (lp st) /\
  (0 < counter st -> supply st' <= supply st) /\
  get (lp st) VAULT <= get (lp st') VAULT.

Lemma Q_refl st : Inv st -> Q st st.
Proof. intros. unfold Q. split; [assumption|]. repeat split; lia. Qed.

Lemma Q_trans a b c : Q a b -> Q b c -> Q a c.
Proof.
  unfold Q. intros (I1 & C1 & F1 & LA1 & LL1 & S1 & V1) (I2 & C2 & F2 & LA2 & LL2 & S2 & V2).
  split; [exact I2|]. split; [congruence|]. split; [congruence|]. split; [congruence|]. split; [congruence|]. split; [|lia].
  intros Hc. rewrite C1 in S2. specialize (S1 Hc). specialize (S2 Hc). lia.
Qed.

Ltac splitQ := unfold Q; split; [|split; [|split; [|split; [|split; [|split]]]]].

Lemma Inv_set_ab st ab' : Inv st -> nonneg ab' -> Inv (set_ab st ab').
Proof. intros I H. destruct I. constructor; simp; auto. Qed.

(* a state that differs only in the asset ledger *)
Lemma Q_set_ab st ab' : Inv st -> nonneg ab' -> length ab' = length (ab st) -> Q st (set_ab st ab').
Proof.
  intros I Hn Hl. splitQ; simp; auto; try lia. apply Inv_set_ab; auto. unfold supply; simp; lia.
Qed.

Lemma Q_xfer st k from to z ab' : Inv st -> xfer k (ab st) from to z = Ok ab' -> Q st (set_ab st ab').
Proof.
  intros I H. apply Q_set_ab; auto.
  - eapply xfer_nonneg; eauto. apply I.
  - eapply xfer_length; eauto.
Qed.

Lemma supply_pos_of_locked st : Inv st -> 0 < get (lp st) VAULT -> 0 < supply st.
Proof. intros I H. pose proof (get_le_sum (lp st) VAULT (i_lp _ I)). unfold supply. lia. Qed.

Lemma deposit_Q u z sent st st' : Inv st -> deposit u z sent st = Ok st' ->
  Q st st' /\ exists locked share, 0 <= locked /\ 0 <= share /\ supply st' = supply st + locked + share.
Proof.
  intros I H. apply deposit_spec in H as (_ & Hc & _ & Hu & ab' & locked & share & Hcase & Hx & ->).
  assert (Hv : (VAULT < length (lp st))%nat) by (unfold VAULT; lia).
  assert (Hab : nonneg ab' /\ length ab' = length (ab st)).
  { destruct Hx as [[_ ->]|[_ Hx]]; [split; auto; apply I|]. split; [eapply xfer_nonneg; eauto; apply I | eapply xfer_length; eauto]. }
  destruct Hab as [Hn Hl].
  pose proof (nonneg_sum _ (i_lp _ I)) as HS. fold (supply st) in HS.
  assert (Hls : 0 <= locked /\ 0 <= share).
  { destruct Hcase as [(_ & -> & -> & Hp)|(Hs & -> & Hle & Hb & ->)].
    - pose proof MIN_LIQ_pos. lia.
    - split; [lia|]. unfold backing in *.
      destruct (Z.eq_dec z 0) as [->|Hz].
      + rewrite Z.mul_0_l. rewrite Z.div_0_l by lia. lia.
      + destruct Hx as [[Hz0 _]|[_ Hx]]; [lia|]. apply xfer_ok in Hx as (_ & _ & Hz0 & _).
        apply Z.div_pos; [nia | lia]. }
  destruct Hls as [Hl0 Hs0].
  set (lp1 := upd (lp st) VAULT (get (lp st) VAULT + locked)).
  assert (Hn1 : nonneg lp1). { apply nonneg_upd; [apply I|]. pose proof (nonneg_get (lp st) VAULT (i_lp _ I)). lia. }
  assert (Hlen1 : length lp1 = length (lp st)) by (unfold lp1; apply length_upd).
  assert (Hn2 : nonneg (upd lp1 u (get lp1 u + share))).
  { apply nonneg_upd; auto. pose proof (nonneg_get lp1 u Hn1). lia. }
  assert (Hvault : get (lp st) VAULT + locked <= get (upd lp1 u (get lp1 u + share)) VAULT).
  { destruct (Nat.eq_dec u VAULT) as [->|Hne].
    - rewrite get_upd_same by lia. unfold lp1. rewrite get_upd_same by lia. lia.
    - rewrite get_upd_other by auto. unfold lp1. rewrite get_upd_same by lia. lia. }
  assert (Hsup : sumZ (upd lp1 u (get lp1 u + share)) = supply st + locked + share).
  { rewrite sumZ_upd by lia. unfold lp1. rewrite sumZ_upd by lia. unfold supply. lia. }
  split.
  - splitQ; simp; auto; try lia.
    + destruct I. constructor; simp; auto. intros _. pose proof (nonneg_get (lp st) VAULT i_lp0).
      destruct Hcase as [(Hs0' & -> & _)|(Hs & -> & _)]; [lia|].
      assert (Hsp : 0 < supply st) by lia. specialize (i_locked0 Hsp). lia.
    + rewrite length_upd. auto.
  - exists locked, share. repeat split; auto.
Qed.

Lemma withdraw_facts u a st st' : Inv st -> withdraw u a st = Ok st' ->
  Q st st' /\ supply st' = supply st - a /\ lp st' = upd (lp st) u (get (lp st) u - a) /\ 0 <= a /\
  exists w, w = backing st * (a * DEC / supply st) / DEC /\ xfer (kind st) (ab st) VAULT u w = Ok (ab st') /\
            w * supply st <= a * backing st /\ 0 <= w /\ 0 < supply st /\ 0 <= backing st /\ u <> VAULT.
Proof.
  intros I H. apply withdraw_spec in H as (Hu & Hne & Ha & _ & Hle & Hs & ab' & Hx & ->).
  pose proof (nonneg_sum _ (i_lp _ I)) as HS. fold (supply st) in HS.
  assert (HSp : 0 < supply st) by lia.
  assert (Hn : nonneg (upd (lp st) u (get (lp st) u - a))) by (apply nonneg_upd; [apply I | lia]).
  assert (Hsup : sumZ (upd (lp st) u (get (lp st) u - a)) = supply st - a) by (rewrite sumZ_upd by auto; unfold supply; lia).
  split; [|split; [|split; [|split]]]; simp; auto; try lia.
  - splitQ; simp; auto; try lia.
    + destruct I. constructor; simp; auto.
      * apply (xfer_nonneg _ _ _ _ _ _ i_ab0 Hx).
      * intros Hp. rewrite get_upd_other by auto. apply i_locked0. unfold supply in *. lia.
    + eapply xfer_length; eauto.
    + rewrite length_upd; auto.
    + unfold supply in *; simp. lia.
    + rewrite get_upd_other by auto. lia.
  - eexists; split; [reflexivity|]. split; auto.
    assert (HT : 0 <= backing st) by (unfold backing; lia).
    set (T := backing st) in *. set (S := supply st) in *.
    assert (Hr : 0 <= a * DEC / S) by (apply Z.div_pos; [pose proof DEC_pos; nia | lia]).
    pose proof (Z.mul_div_le (a * DEC) S HSp) as H1.
    pose proof (Z.mul_div_le (T * (a * DEC / S)) DEC DEC_pos) as H2.
    assert (Hw : 0 <= T * (a * DEC / S) / DEC) by (apply Z.div_pos; [nia | reflexivity]).
    repeat split; auto.
    pose proof DEC_pos.
    assert (DEC * (T * (a * DEC / S) / DEC * S) <= DEC * (a * T)); [|nia].
    nia.
Qed.

Lemma collect_Q st st' : Inv st -> collect st = Ok st' -> Q st st' /\ pend st' = 0 /\ allf st' = allf st /\ burned st' = burned st /\
  backing st' = backing st /\ lp st' = lp st.
Proof.
  intros I H. apply collect_spec in H as [[Hp ->]|(Hp & ab' & Hx & ->)]; simp.
  - split; [|repeat split; auto].
    + splitQ; simp; auto; try lia; try (unfold supply in *; simp; lia). destruct I. constructor; simp; auto. lia.
    + unfold backing, bal; simp. lia.
  - assert (nonneg ab') by (eapply xfer_nonneg; eauto; apply I).
    split; [|repeat split; auto].
    + splitQ; simp; auto; try lia; try (unfold supply in *; simp; lia). { destruct I. constructor; simp; auto. lia. } eapply xfer_length; eauto.
    + unfold backing, bal; simp. rewrite (xfer_get _ _ _ _ _ _ VAULT Hx). cbn. lia.
Qed.

Lemma after_trade_Q old z st st' : Inv st -> 0 <= old -> 0 <= z -> (VAULT < length (ab st))%nat -> after_trade old z st = Ok st' ->
  Inv st' /\ counter st' = ssub (counter st) 1 /\ conf st' = conf st /\ lp st' = lp st /\ length (ab st') = length (ab st).
Proof.
  intros I Ho Hz Hv H. apply after_trade_spec in H. cbv zeta in H. destruct H as (Hle & Hb & ->). simp.
  destruct (fees_valid_true _ _ _ (i_fees _ I)) as (Hp & Hf & Hbn & _).
  pose proof (fee_floor_nonneg z _ Hz Hp). pose proof (fee_floor_nonneg z _ Hz Hf). pose proof (fee_floor_nonneg z _ Hz Hbn).
  split; [|repeat split; auto; apply length_upd].
  destruct I. constructor; simp; auto; try lia.
  - apply nonneg_upd; auto. lia.
  - unfold ssub. lia.
Qed.

Lemma flash_loan_Q who z body st st' :
  (forall s1 s2, Inv s1 -> body s1 = Ok s2 -> Q s1 s2) ->
  Inv st -> flash_loan who z body st = Ok st' -> Q st st' /\ supply st' <= supply st.
Proof.
  intros HB I H. apply flash_loan_spec in H as (_ & Hc & ab1 & st2 & Hx & Hbody & Hat).
  set (st1 := set_counter (set_ab st ab1) (counter st + 1)) in *.
  assert (I1 : Inv st1).
  { destruct I. constructor; unfold st1; simp; auto; try lia. apply (xfer_nonneg _ _ _ _ _ _ i_ab0 Hx). }
  destruct (HB _ _ I1 Hbody) as (I2 & C2 & F2 & LA2 & LL2 & S2 & V2).
  pose proof (xfer_ok _ _ _ _ _ _ Hx) as (Hv & _ & Hz & _).
  assert (Hlen1 : length (ab st1) = length (ab st)) by (unfold st1; simp; eapply xfer_length; eauto).
  pose proof (i_counter _ I) as Hcn.
  apply after_trade_Q in Hat as (I' & C' & F' & L' & LA'); auto; try lia.
  2:{ unfold bal. apply nonneg_get, I. }
  unfold st1 in *; simp.
  assert (Hsup : supply st' <= supply st) by (unfold supply in *; rewrite L'; apply S2; lia).
  split; auto.
  splitQ; auto; try congruence; try lia.
  - rewrite C', C2. unfold ssub. lia.
Qed.

Scheme action_mut := Induction for action Sort Prop
  with script_mut := Induction for script Sort Prop.
Combined Scheme action_script_ind from action_mut, script_mut.

Lemma repayq_inv L d st st' : run_action L (ARepayQ d) st = Ok st' ->
  exists q pf ff bf, payback (conf st) L = Ok (q, pf, ff, bf) /\
    ((q + d <= 0 /\ st' = st) \/ (0 < q + d /\ exists ab', xfer (kind st) (ab st) ADV VAULT (q + d) = Ok ab' /\ st' = set_ab st ab')).
Proof.
  cbn [run_action]. intros H. bind_inv H. destruct v as [[[q pf] ff] bf]. exists q, pf, ff, bf. split; auto. simp.
  destruct (q + d <=? 0) eqn:E0.
  - apply Z.leb_le in E0. inversion H. left; auto.
  - apply Z.leb_gt in E0. bind_inv H. bind_as H ab' EX. inversion H. right. split; auto. eauto.
Qed.

Theorem script_Q :
  (forall a L st st', Inv st -> run_action L a st = Ok st' -> Q st st') /\
  (forall s L st st', Inv st -> run_script L s st = Ok st' -> Q st st').
Proof.
  apply action_script_ind.
  - (* APay *) intros tgt z L st st' I H. cbn [run_action] in H. bind_inv H. inversion H; subst. eapply Q_xfer; eauto.
  - (* ARepayQ *) intros d L st st' I H. apply repayq_inv in H as (q & pf & ff & bf & _ & [[_ ->]|(_ & ab' & Hx & ->)]).
    + apply Q_refl; auto.
    + eapply Q_xfer; eauto.
  - (* ALoan *) intros z s IH L st st' I H. cbn [run_action] in H.
    eapply flash_loan_Q in H; eauto. apply H.
  - (* ADeposit *) intros z L st st' I H. cbn [run_action] in H. eapply deposit_Q in H; eauto. apply H.
  - (* AWithdraw *) intros a L st st' I H. cbn [run_action] in H. eapply withdraw_facts in H; eauto. apply H.
  - (* ACollect *) intros L st st' I H. cbn [run_action] in H. eapply collect_Q in H; eauto. apply H.
  - (* AFail *) intros L st st' I H. discriminate H.
  - (* ATry *) intros s IH L st st' I H. cbn [run_action] in H.
    destruct (run_script L s st) eqn:E; inversion H; subst; try (apply Q_refl; auto). eapply IH; eauto.
  - (* SNil *) intros L st st' I H. inversion H; subst. apply Q_refl; auto.
  - (* SCons *) intros a IHa s IHs L st st' I H. cbn [run_script] in H. bind_inv H.
    pose proof (IHa _ _ _ I E) as Q1. eapply Q_trans; eauto. eapply IHs; eauto. apply Q1.
Qed.

(* ---- LF: loan-free scripts do not touch the fee ledgers except by collecting ---- *)
Definition LF (st st' : state) : Prop :=
  allf st' = allf st /\ burned st' = burned st /\ pend st' <= pend st.

Ltac lf_triv := unfold LF; simp; repeat split; lia.
Lemma LF_refl st : LF st st. Proof. unfold LF. repeat split; lia. Qed.
Lemma LF_trans a b c : LF a b -> LF b c -> LF a c.
Proof. unfold LF. intros (A1 & B1 & P1) (A2 & B2 & P2). repeat split; try congruence; lia. Qed.

Theorem script_LF :
  (forall a, loan_free_a a = true -> forall L st st', Inv st -> run_action L a st = Ok st' -> LF st st') /\
  (forall s, loan_free s = true -> forall L st st', Inv st -> run_script L s st = Ok st' -> LF st st').
Proof.
  apply action_script_ind.
  - intros tgt z _ L st st' I H. cbn [run_action] in H. bind_inv H. inversion H; subst. lf_triv.
  - intros d _ L st st' I H. apply repayq_inv in H as (q & pf & ff & bf & _ & [[_ ->]|(_ & ab' & Hx & ->)]); lf_triv.
  - intros z s _ Hlf. discriminate Hlf.
  - intros z _ L st st' I H. cbn [run_action] in H.
    apply deposit_spec in H as (_ & _ & _ & _ & ab' & locked & share & _ & _ & ->). lf_triv.
  - intros a _ L st st' I H. cbn [run_action] in H.
    apply withdraw_spec in H as (_ & _ & _ & _ & _ & _ & ab' & _ & ->). lf_triv.
  - intros _ L st st' I H. cbn [run_action] in H. apply collect_Q in H as (_ & Hp & Ha & Hb & _); auto.
    unfold LF. repeat split; auto. pose proof (i_pend _ I). lia.
  - intros _ L st st' I H. discriminate H.
  - intros s IH Hlf L st st' I H. cbn [run_action] in H. cbn [loan_free_a] in Hlf.
    destruct (run_script L s st) eqn:E; inversion H; subst; try lf_triv. eapply IH; eauto.
  - intros _ L st st' I H. inversion H; subst. lf_triv.
  - intros a IHa s IHs Hlf L st st' I H. cbn [run_script] in H. cbn [loan_free] in Hlf. apply andb_true_iff in Hlf as [Hla Hls].
    bind_inv H. eapply LF_trans; [eapply IHa; eauto|]. eapply IHs; eauto.
    destruct script_Q as [QA _]. apply (QA _ _ _ _ I E).
Qed.

(* ---- one loan: what after_trade guarantees -------------------------------- *)
Definition fee_p (st : state) (z : Z) : Z := z * f_prot (conf st) / DEC.
Definition fee_f (st : state) (z : Z) : Z := z * f_flash (conf st) / DEC.
Definition fee_b (st : state) (z : Z) : Z := z * f_burn (conf st) / DEC.

(* any body that preserves Q (i.e. any borrower script, of any depth): the OUTER loan's fees are paid *)
Lemma loan_settles_outer who z body st st' :
  (forall s1 s2, Inv s1 -> body s1 = Ok s2 -> Q s1 s2) ->
  Inv st -> flash_loan who z body st = Ok st' ->
  bal st + fee_p st z + fee_f st z <= bal st' /\ counter st' = counter st /\ supply st' <= supply st /\ Q st st' /\
  0 <= z /\ 0 <= fee_p st z /\ 0 <= fee_f st z /\ 0 <= fee_b st z.
Proof.
  intros HB I H. pose proof (flash_loan_Q _ _ _ _ _ HB I H) as [HQ Hsup].
  apply flash_loan_spec in H as (_ & Hc & ab1 & st2 & Hx & Hbody & Hat).
  set (st1 := set_counter (set_ab st ab1) (counter st + 1)) in *.
  assert (I1 : Inv st1).
  { destruct I. constructor; unfold st1; simp; auto; try lia. apply (xfer_nonneg _ _ _ _ _ _ i_ab0 Hx). }
  destruct (HB _ _ I1 Hbody) as (I2 & C2 & F2 & LA2 & LL2 & S2 & V2).
  pose proof (xfer_ok _ _ _ _ _ _ Hx) as (Hv & _ & Hz & _).
  assert (Hlen2 : (VAULT < length (ab st2))%nat).
  { rewrite LA2. unfold st1; simp. rewrite (xfer_length _ _ _ _ _ _ Hx). auto. }
  apply after_trade_spec in Hat. cbv zeta in Hat. destruct Hat as (Hle & Hb & ->).
  rewrite F2 in *. unfold st1 in *; simp.
  destruct (fees_valid_true _ _ _ (i_fees _ I)) as (Hp & Hf & Hbn & _).
  pose proof (fee_floor_nonneg z _ Hz Hp). pose proof (fee_floor_nonneg z _ Hz Hf). pose proof (fee_floor_nonneg z _ Hz Hbn).
  unfold fee_p, fee_f, fee_b. split; [|split; [|split; [|split; [|split; [|split; [|split]]]]]]; auto; try apply HQ.
  unfold bal at 2; simp. rewrite get_upd_same by auto. fold (bal st2). lia.
Qed.

(* a body that is also loan-free: full settlement of this loan *)
Lemma loan_settles who z body st st' :
  (forall s1 s2, Inv s1 -> body s1 = Ok s2 -> Q s1 s2 /\ LF s1 s2) ->
  Inv st -> flash_loan who z body st = Ok st' ->
  bal st + fee_p st z + fee_f st z <= bal st' /\
  burned st' = burned st + fee_b st z /\ allf st' = allf st + fee_p st z /\ pend st' <= pend st + fee_p st z /\
  counter st' = counter st /\ supply st' <= supply st /\ Q st st' /\ 0 <= fee_f st z.
Proof.
  intros HB I H.
  assert (HBQ : forall s1 s2, Inv s1 -> body s1 = Ok s2 -> Q s1 s2) by (intros; eapply HB; eauto).
  pose proof (loan_settles_outer _ _ _ _ _ HBQ I H) as (Hbal & Hcnt & Hsup & HQ & Hz & _ & Hff & _).
  apply flash_loan_spec in H as (_ & Hc & ab1 & st2 & Hx & Hbody & Hat).
  set (st1 := set_counter (set_ab st ab1) (counter st + 1)) in *.
  assert (I1 : Inv st1).
  { destruct I. constructor; unfold st1; simp; auto; try lia. apply (xfer_nonneg _ _ _ _ _ _ i_ab0 Hx). }
  destruct (HB _ _ I1 Hbody) as ((I2 & C2 & F2 & _) & (A2 & B2 & P2)).
  apply after_trade_spec in Hat. cbv zeta in Hat. destruct Hat as (Hle & Hb & ->).
  rewrite F2 in *. unfold st1 in *; simp. unfold fee_p, fee_f, fee_b in *.
  split; [|split; [|split; [|split; [|split; [|split; [|split]]]]]]; auto; simp; try lia.
Qed.

(* ---- share price ----------------------------------------------------------- *)
Definition Solvent (st : state) : Prop := pend st <= bal st.
Definition Good (st : state) : Prop := Inv st /\ Solvent st /\ counter st = 0.
(* the assets backing one share do not decrease: backing/supply <= backing'/supply', cross-multiplied *)
Definition PM (st st' : state) : Prop :=
  0 < supply st -> 0 < supply st' /\ backing st * supply st' <= backing st' * supply st.

Lemma PM_refl st : PM st st.
Proof. unfold PM. intros. split; auto; lia. Qed.

Lemma PM_trans a b c : PM a b -> PM b c -> PM a c.
Proof.
  unfold PM. intros H1 H2 Ha. destruct (H1 Ha) as [Hb L1]. destruct (H2 Hb) as [Hc L2]. split; auto.
  assert (supply b * (backing a * supply c) <= supply b * (backing c * supply a)); [|nia].
  assert (backing a * supply b * supply c <= backing b * supply a * supply c) by nia.
  assert (backing b * supply c * supply a <= backing c * supply b * supply a) by nia.
  nia.
Qed.

Lemma PM_of st st' : 0 <= backing st -> backing st <= backing st' -> supply st' <= supply st ->
  (0 < supply st -> 0 < supply st') -> PM st st'.
Proof. unfold PM. intros HT Hle HS Hp H0. split; auto. nia. Qed.

Lemma Q_supply_pos st st' : Inv st -> Q st st' -> 0 < supply st -> 0 < supply st'.
Proof.
  intros I (I' & _ & _ & _ & _ & _ & V) Hp. pose proof (i_locked _ I Hp). pose proof MIN_LIQ_pos.
  apply supply_pos_of_locked; auto. lia.
Qed.

Lemma good_backing st : Good st -> 0 <= backing st.
Proof. intros (_ & S & _). unfold Solvent, backing in *. lia. Qed.

(* change of the asset ledger that does not lower the vault balance *)
Lemma good_set_ab st ab' : Good st -> nonneg ab' -> length ab' = length (ab st) -> bal st <= get ab' VAULT ->
  Good (set_ab st ab') /\ PM st (set_ab st ab').
Proof.
  intros G Hn Hl Hb. pose proof (good_backing _ G). destruct G as (I & S & C).
  split.
  - split; [apply Inv_set_ab; auto|]. split; [unfold Solvent, bal in *; simp; lia | simp; auto].
  - apply PM_of; auto; unfold backing, bal, supply in *; simp; lia.
Qed.

Lemma good_xfer_in st k from to z ab' : Good st -> from <> VAULT -> xfer k (ab st) from to z = Ok ab' ->
  Good (set_ab st ab') /\ PM st (set_ab st ab').
Proof.
  intros G Hne Hx. apply good_set_ab; auto.
  - eapply xfer_nonneg; eauto. apply G.
  - eapply xfer_length; eauto.
  - rewrite (xfer_get _ _ _ _ _ _ VAULT Hx). pose proof (xfer_ok _ _ _ _ _ _ Hx) as (_ & _ & Hz & _).
    destruct (Nat.eqb_spec VAULT from); [congruence|]. unfold bal. destruct (Nat.eqb VAULT to); lia.
Qed.

Lemma deposit_good u z sent st st' : Good st -> u <> VAULT -> deposit u z sent st = Ok st' ->
  Good st' /\ PM st st' /\
  (0 < supply st -> (get (lp st') u - get (lp st) u) * backing st <= z * supply st /\
                    supply st' = supply st + (get (lp st') u - get (lp st) u)) /\
  bal st' = bal st + z /\ 0 <= z /\ pend st' = pend st.
Proof.
  intros G Hne H. pose proof (good_backing _ G) as HT. destruct G as (I & S & C).
  pose proof (deposit_Q _ _ _ _ _ I H) as (HQ & _).
  apply deposit_spec in H as (_ & Hc & _ & Hu & ab' & locked & share & Hcase & Hx & ->).
  assert (Hv : (VAULT < length (lp st))%nat) by (unfold VAULT; lia).
  pose proof (nonneg_sum _ (i_lp _ I)) as HS. fold (supply st) in HS.
  assert (Hbal : get ab' VAULT = bal st + z /\ 0 <= z).
  { destruct Hx as [[-> ->]|[Hz Hx]]; [unfold bal; lia|].
    rewrite (xfer_get _ _ _ _ _ _ VAULT Hx). pose proof (xfer_ok _ _ _ _ _ _ Hx) as (_ & _ & Hz0 & _).
    destruct (Nat.eqb_spec VAULT u); [congruence|]. cbn. unfold bal. lia. }
  destruct Hbal as [Hbal Hz].
  set (lp1 := upd (lp st) VAULT (get (lp st) VAULT + locked)) in *.
  assert (Hlen1 : length lp1 = length (lp st)) by (unfold lp1; apply length_upd).
  assert (Hgu : get (upd lp1 u (get lp1 u + share)) u - get (lp st) u = share).
  { rewrite get_upd_same by lia. unfold lp1. rewrite get_upd_other by auto. lia. }
  assert (Hsup : sumZ (upd lp1 u (get lp1 u + share)) = supply st + locked + share).
  { rewrite sumZ_upd by lia. unfold lp1. rewrite sumZ_upd by lia. unfold supply. lia. }
  split; [|split; [|split; [|split; [|split]]]]; simp; auto.
  - split; [apply HQ|]. split; [unfold Solvent, bal in *; simp; lia | simp; auto].
  - unfold PM. intros Hp. split; [eapply Q_supply_pos; eauto|].
    destruct Hcase as [(Hs0 & _)|(Hs & -> & Hle & Hb & ->)]; [lia|].
    unfold backing, bal, supply in *; simp. rewrite Hbal, Hsup.
    set (T := get (ab st) VAULT - pend st) in *. set (S0 := sumZ (lp st)) in *.
    assert (0 < T) by lia. pose proof (Z.mul_div_le (z * S0) T H). nia.
  - intros Hp. rewrite Hgu. destruct Hcase as [(Hs0 & _)|(Hs & -> & Hle & Hb & ->)]; [lia|].
    unfold supply in *; simp. rewrite Hsup. split; [|lia].
    assert (0 < backing st) by lia. pose proof (Z.mul_div_le (z * sumZ (lp st)) (backing st) H). nia.
Qed.

Lemma withdraw_good u a st st' : Good st -> withdraw u a st = Ok st' ->
  Good st' /\ PM st st' /\
  (bal st - bal st') * supply st <= a * backing st /\ get (ab st') u = get (ab st) u + (bal st - bal st') /\
  supply st' = supply st - a /\ 0 <= bal st - bal st'.
Proof.
  intros G H. destruct G as (I & S & C).
  pose proof (withdraw_facts _ _ _ _ I H) as (HQ & Hsup & Hlp & Ha & w & Hw & Hx & Hle & Hw0 & HSp & HT & Hne).
  assert (Hbal : bal st' = bal st - w).
  { unfold bal. rewrite (xfer_get _ _ _ _ _ _ VAULT Hx). destruct (Nat.eqb_spec VAULT u); [congruence|]. cbn. lia. }
  assert (Hu : get (ab st') u = get (ab st) u + w).
  { rewrite (xfer_get _ _ _ _ _ _ u Hx). destruct (Nat.eqb_spec u VAULT); [congruence|]. rewrite Nat.eqb_refl. lia. }
  assert (Hp : pend st' = pend st).
  { apply withdraw_spec in H as (_ & _ & _ & _ & _ & _ & ab' & _ & ->). reflexivity. }
  assert (HaS : a <= supply st).
  { apply withdraw_spec in H as (_ & _ & Hal & _). pose proof (get_le_sum (lp st) u (i_lp _ I)). unfold supply. lia. }
  assert (HwT : w <= backing st) by nia.
  split; [|split; [|repeat split]]; auto; try lia.
  - split; [apply HQ|]. split; [unfold Solvent, backing in *; lia | destruct HQ as (_ & -> & _); auto].
  - unfold PM. intros _. split; [eapply Q_supply_pos; eauto|].
    unfold backing in *. rewrite Hbal, Hp, Hsup. nia.
Qed.

Lemma collect_good st st' : Good st -> collect st = Ok st' -> Good st' /\ PM st st'.
Proof.
  intros G H. pose proof (good_backing _ G) as HT. destruct G as (I & S & C).
  pose proof (collect_Q _ _ I H) as (HQ & Hp & _ & _ & Hb & Hlp).
  split.
  - split; [apply HQ|]. split; [unfold Solvent, backing in *; lia | destruct HQ as (_ & -> & _); auto].
  - apply PM_of; auto; try lia; unfold supply; rewrite Hlp; lia.
Qed.

Theorem script_G :
  (forall a, unnested_a a = true -> forall L st st', Good st -> run_action L a st = Ok st' -> Good st' /\ PM st st') /\
  (forall s, unnested s = true -> forall L st st', Good st -> run_script L s st = Ok st' -> Good st' /\ PM st st').
Proof.
  destruct script_Q as [QA QS]. destruct script_LF as [LA LS].
  apply action_script_ind.
  - (* APay *) intros tgt z _ L st st' G H. cbn [run_action] in H. bind_as H ab' EX. inversion H; subst.
    refine (good_xfer_in _ _ ADV _ _ _ G _ EX); unfold ADV, VAULT; lia.
  - (* ARepayQ *) intros d _ L st st' G H. apply repayq_inv in H as (q & pf & ff & bf & _ & [[_ ->]|(_ & ab' & Hx & ->)]).
    + split; auto. apply PM_refl.
    + refine (good_xfer_in _ _ ADV _ _ _ G _ Hx); unfold ADV, VAULT; lia.
  - (* ALoan *) intros z s _ Hlf L st st' G H. cbn [unnested_a] in Hlf. cbn [run_action] in H.
    pose proof (good_backing _ G) as HT. destruct G as (I & S & C).
    assert (HB : forall s1 s2, Inv s1 -> run_script z s s1 = Ok s2 -> Q s1 s2 /\ LF s1 s2) by (intros; split; eauto).
    pose proof (loan_settles _ _ _ _ _ HB I H) as (Hbal & _ & _ & Hp & Hc & Hsup & HQ & Hff).
    split.
    + split; [apply HQ|]. split; [unfold Solvent in *; lia | lia].
    + apply PM_of; auto; [unfold backing in *; lia|]. eapply Q_supply_pos; eauto.
  - (* ADeposit *) intros z _ L st st' G H. cbn [run_action] in H.
    eapply deposit_good in H; eauto; [|unfold ADV, VAULT; lia]. split; apply H.
  - (* AWithdraw *) intros a _ L st st' G H. cbn [run_action] in H. eapply withdraw_good in H; eauto. split; apply H.
  - (* ACollect *) intros _ L st st' G H. cbn [run_action] in H. eapply collect_good; eauto.
  - intros _ L st st' G H. discriminate H.
  - (* ATry *) intros s IH Hu L st st' G H. cbn [run_action] in H. cbn [unnested_a] in Hu.
    destruct (run_script L s st) eqn:E; inversion H; subst; try (split; auto; apply PM_refl). eapply IH; eauto.
  - intros _ L st st' G H. inversion H; subst. split; auto. apply PM_refl.
  - intros a IHa s IHs Hu L st st' G H. cbn [run_script] in H. cbn [unnested] in Hu. apply andb_true_iff in Hu as [Hua Hus].
    bind_as H st1 E1. destruct (IHa Hua _ _ _ G E1) as [G1 P1]. destruct (IHs Hus _ _ _ G1 H) as [G2 P2].
    split; auto. eapply PM_trans; eauto.
Qed.

(* ---- config updates -------------------------------------------------------- *)
Lemma update_config_facts sender p st st' : Inv st -> update_config sender p st = Ok st' ->
  sender = owner (conf st) /\ Inv st' /\ ab st' = ab st /\ lp st' = lp st /\ pend st' = pend st /\ allf st' = allf st /\
  burned st' = burned st /\ counter st' = counter st /\ is_cw20 (conf st') = is_cw20 (conf st).
Proof.
  unfold update_config. intros I H.
  bind_as H uu EO. apply ensure_ok' in EO. apply Nat.eqb_eq in EO.
  bind_as H fees EF. destruct fees as [[a b] d]. inversion H; subst st'; clear H. simp.
  split; auto. split; [|repeat split; auto].
  assert (HV : fees_valid a b d = true).
  { destruct (u_fees p) as [[[a' b'] d']|].
    - bind_as EF uu2 EV. apply ensure_ok' in EV. inversion EF; subst. auto.
    - inversion EF; subst. apply I. }
  destruct I. constructor; simp; auto.
Qed.

(* ---- the router's part of a loan ------------------------------------------- *)
Lemma complete_loan_spec u z st st' : complete_loan u z st = Ok st' ->
  exists q pf ff bf ab1, payback (conf st) z = Ok (q, pf, ff, bf) /\ q <= get (ab st) ROUTER /\
    xfer (kind st) (ab st) ROUTER VAULT q = Ok ab1 /\
    ((get (ab st) ROUTER - q = 0 /\ st' = set_ab st ab1) \/
     (get (ab st) ROUTER - q <> 0 /\ exists ab2, xfer (kind st) ab1 ROUTER u (get (ab st) ROUTER - q) = Ok ab2 /\ st' = set_ab st ab2)).
Proof.
  unfold complete_loan. intros H. bind_as H qq EQ. destruct qq as [[[q pf] ff] bf]. simp.
  bind_as H profit EP. apply csub_ok in EP as [-> Hle].
  bind_as H ab1 EX. exists q, pf, ff, bf, ab1. repeat split; auto.
  destruct (get (ab st) ROUTER - q =? 0) eqn:E0.
  - apply Z.eqb_eq in E0. inversion H. left; auto.
  - apply Z.eqb_neq in E0. bind_as H ab2 EX2. inversion H. right. split; auto. eauto.
Qed.

Lemma complete_loan_Q u z st st' : Inv st -> complete_loan u z st = Ok st' -> Q st st' /\ LF st st'.
Proof.
  intros I H. apply complete_loan_spec in H as (q & pf & ff & bf & ab1 & _ & _ & Hx & [[_ ->]|(_ & ab2 & Hx2 & ->)]).
  - split; [eapply Q_xfer; eauto | lf_triv].
  - split; [|lf_triv]. apply Q_set_ab; auto.
    + eapply xfer_nonneg; [|eauto]. eapply xfer_nonneg; [|eauto]. apply I.
    + rewrite (xfer_length _ _ _ _ _ _ Hx2). eapply xfer_length; eauto.
Qed.

Lemma router_body_Q u z pre s s1 s2 : Inv s1 -> router_body u z pre s s1 = Ok s2 ->
  Q s1 s2 /\ (loan_free s = true -> LF s1 s2).
Proof.
  unfold router_body. intros I H. destruct script_Q as [_ QS]. destruct script_LF as [_ LS].
  bind_as H sa EA. bind_as H sb EB.
  assert (QA : Q s1 sa /\ LF s1 sa).
  { destruct (pre =? 0); [inversion EA; subst; split; [apply Q_refl; auto | apply LF_refl]|].
    bind_as EA ab' EX. inversion EA; subst. split; [eapply Q_xfer; eauto | lf_triv]. }
  destruct QA as [QA LA].
  assert (Ia : Inv sa) by apply QA.
  pose proof (QS _ _ _ _ Ia EB) as QB. assert (Ib : Inv sb) by apply QB.
  destruct (complete_loan_Q _ _ _ _ Ib H) as [QC LC].
  split; [eapply Q_trans; [eauto|]; eapply Q_trans; eauto|].
  intros Hlf. eapply LF_trans; [eauto|]. eapply LF_trans; [|eauto]. eapply LS; eauto.
Qed.

Lemma router_keeps_nothing u z pre s st st' : Inv st -> u <> ROUTER -> router_loan u z pre s st = Ok st' ->
  get (ab st') ROUTER = 0.
Proof.
  unfold router_loan. intros I Hu H. bind_as H uu EH.
  apply flash_loan_spec in H as (_ & _ & ab1 & st2 & _ & Hbody & Hat).
  apply after_trade_spec in Hat. cbv zeta in Hat. destruct Hat as (_ & _ & ->). simp.
  rewrite get_upd_other by (unfold VAULT, ROUTER; lia).
  unfold router_body in Hbody. bind_as Hbody sa EA. bind_as Hbody sb EB.
  apply complete_loan_spec in Hbody as (q & pf & ff & bf & abx & _ & Hq & Hx & [[Hz ->]|(Hnz & ab2 & Hx2 & ->)]); simp.
  - rewrite (xfer_get _ _ _ _ _ _ ROUTER Hx). cbn. lia.
  - rewrite (xfer_get _ _ _ _ _ _ ROUTER Hx2). rewrite (xfer_get _ _ _ _ _ _ ROUTER Hx). rewrite Nat.eqb_refl.
    destruct (Nat.eqb_spec ROUTER u); [congruence|]. cbn. lia.
Qed.

(* the settlement step of the router: the vault receives exactly the quote, the initiator everything else *)
Lemma complete_loan_effect u z st st' : u <> ROUTER -> u <> VAULT -> complete_loan u z st = Ok st' ->
  exists q pf ff bf, payback (conf st) z = Ok (q, pf, ff, bf) /\
    bal st' = bal st + q /\ get (ab st') ROUTER = 0 /\ get (ab st') u = get (ab st) u + (get (ab st) ROUTER - q) /\
    lp st' = lp st /\ pend st' = pend st.
Proof.
  intros Hr Hv H. apply complete_loan_spec in H as (q & pf & ff & bf & ab1 & Hp & Hq & Hx & Hcase).
  exists q, pf, ff, bf. split; auto.
  assert (RV : ROUTER <> VAULT) by (unfold ROUTER, VAULT; lia).
  destruct Hcase as [[Hz ->]|(Hnz & ab2 & Hx2 & ->)]; unfold bal; simp.
  - rewrite !(xfer_get _ _ _ _ _ _ _ Hx). rewrite !Nat.eqb_refl.
    destruct (Nat.eqb_spec VAULT ROUTER); [congruence|]. destruct (Nat.eqb_spec ROUTER VAULT); [congruence|].
    destruct (Nat.eqb_spec u ROUTER); [congruence|]. destruct (Nat.eqb_spec u VAULT); [congruence|].
    repeat split; auto; lia.
  - rewrite !(xfer_get _ _ _ _ _ _ _ Hx2). rewrite !(xfer_get _ _ _ _ _ _ _ Hx). rewrite !Nat.eqb_refl.
    destruct (Nat.eqb_spec VAULT ROUTER); [congruence|]. destruct (Nat.eqb_spec ROUTER VAULT); [congruence|].
    destruct (Nat.eqb_spec u ROUTER); [congruence|]. destruct (Nat.eqb_spec u VAULT); [congruence|].
    destruct (Nat.eqb_spec VAULT u); [congruence|]. destruct (Nat.eqb_spec ROUTER u); [congruence|].
    repeat split; auto; lia.
Qed.

(* ---- top-level operations --------------------------------------------------- *)
Lemma is_user_ne st u : is_user st u = true -> u <> VAULT /\ u <> ROUTER /\ u <> ADV /\ (u < length (ab st))%nat.
Proof.
  unfold is_user. rewrite andb_true_iff. intros [H1 H2]. apply has_true in H1. apply Nat.leb_le in H2.
  unfold VAULT, ROUTER, ADV. lia.
Qed.

(* what every operation preserves, nested loans included *)
Definition W (st st' : state) : Prop :=
  Inv st' /\ counter st' = counter st /\ get (lp st) VAULT <= get (lp st') VAULT /\ is_cw20 (conf st') = is_cw20 (conf st).

Lemma W_of_Q st st' : Q st st' -> W st st'.
Proof. intros (I & C & F & _ & _ & _ & V). unfold W. rewrite F. auto. Qed.

Lemma step_W st o st' : Inv st -> step st o = Ok st' -> W st st'.
Proof.
  intros I H. destruct o; cbn [step] in H.
  - bind_as H uu EU. apply W_of_Q. eapply deposit_Q in H; eauto. apply H.
  - bind_as H uu EU. apply W_of_Q. eapply withdraw_facts in H; eauto. apply H.
  - discriminate H.
  - apply W_of_Q. eapply collect_Q in H; eauto. apply H.
  - assert (HU : exists s, update_config s p st = Ok st').
    { destruct via_factory; [bind_as H uu EU|]; eauto. }
    destruct HU as [s HU]. apply update_config_facts in HU as (_ & I' & _ & Hlp & _ & _ & _ & Hc & Hk); auto.
    unfold W. rewrite Hlp. split; [exact I'|]. split; [auto|]. split; [lia | auto].
  - bind_as H uu EU. bind_as H ab' EX. inversion H; subst. apply W_of_Q. eapply Q_xfer; eauto.
  - bind_as H uu EU. bind_as H uu2 EA. inversion H; subst; clear H.
    apply ensure_ok' in EU. apply is_user_ne in EU as (Hv & _). apply ensure_ok' in EA. apply andb_true_iff in EA as [Ha1 Ha2]. apply Z.leb_le in Ha1, Ha2.
    unfold W; simp. rewrite get_upd_other by auto. split; [|split; [auto|split; [lia|auto]]].
    destruct I. constructor; simp; auto.
    + apply nonneg_upd; auto. lia.
    + intros Hp. rewrite get_upd_other by auto. apply i_locked0. unfold supply in *; simp.
      rewrite sumZ_upd_any in Hp. destruct (has (lp st) u); lia.
  - apply W_of_Q. destruct script_Q as [_ QS]. eapply QS; eauto.
  - bind_as H uu EU. unfold router_loan in H. bind_as H uu2 EH. apply W_of_Q.
    eapply flash_loan_Q in H; eauto; [apply H|]. intros s1 s2 I1 HB. eapply router_body_Q; eauto.
  - destruct (n =? 0); inversion H; subst. apply W_of_Q, Q_refl; auto.
  - discriminate H.
  - discriminate H.
  - discriminate H.
  - bind_as H uu EU. unfold router_loan_f in H. destruct (f =? 0).
    + unfold router_loan in H. bind_as H uu2 EH. apply W_of_Q.
      eapply flash_loan_Q in H; eauto; [apply H|]. intros s1 s2 I1 HB. eapply router_body_Q; eauto.
    + bind_as H ab' EX. pose proof (Q_xfer _ _ _ _ _ _ I EX) as Q1.
      unfold router_loan in H. bind_as H uu2 EH. apply W_of_Q. eapply Q_trans; [exact Q1|].
      assert (I1 : Inv (set_ab st ab')) by apply Q1.
      eapply flash_loan_Q in H; eauto; [apply H|]. intros s1 s2 I2 HB. eapply router_body_Q; eauto.
Qed.

Lemma step_good st o st' : Good st -> op_unnested o = true -> step st o = Ok st' -> Good st' /\ PM st st'.
Proof.
  intros G Hun H. pose proof G as (I & S & C). destruct o; cbn [step] in H; cbn [op_unnested] in Hun.
  - bind_as H uu EU. apply ensure_ok' in EU. apply is_user_ne in EU as (Hv & _).
    eapply deposit_good in H; eauto. split; apply H.
  - bind_as H uu EU. eapply withdraw_good in H; eauto. split; apply H.
  - discriminate H.
  - eapply collect_good; eauto.
  - assert (HU : exists s, update_config s p st = Ok st').
    { destruct via_factory; [bind_as H uu EU|]; eauto. }
    destruct HU as [s HU]. apply update_config_facts in HU as (_ & I' & Hab & Hlp & Hp & _ & _ & Hc & _); auto.
    split.
    + split; auto. split; [unfold Solvent, bal in *; rewrite Hab, Hp; auto | lia].
    + apply PM_of; unfold Solvent, backing, bal, supply in *; rewrite ?Hab, ?Hp, ?Hlp; auto; lia.
  - bind_as H uu EU. apply ensure_ok' in EU. apply is_user_ne in EU as (Hv & _).
    bind_as H ab' EX. inversion H; subst. eapply good_xfer_in; eauto.
  - pose proof (step_W st (OBurnLP u a) st' I H) as (I' & Hc & _).
    bind_as H uu EU. bind_as H uu2 EA. inversion H; subst; clear H.
    apply ensure_ok' in EU. apply is_user_ne in EU as (Hv & _ & _ & Hlen).
    apply ensure_ok' in EA. apply andb_true_iff in EA as [Ha1 Ha2]. apply Z.leb_le in Ha1, Ha2.
    pose proof (good_backing _ G) as HT.
    assert (Hsup : supply (set_lp st (upd (lp st) u (get (lp st) u - a))) <= supply st).
    { unfold supply; simp. rewrite sumZ_upd_any. destruct (has (lp st) u); lia. }
    split.
    + split; auto.
    + apply PM_of; auto; [unfold backing, bal; simp; lia|].
      intros Hp. apply supply_pos_of_locked; auto. simp. rewrite get_upd_other by auto.
      pose proof (i_locked _ I Hp). pose proof MIN_LIQ_pos. lia.
  - destruct script_G as [_ GS]. eapply GS; eauto.
  - bind_as H uu EU. unfold router_loan in H. bind_as H uu2 EH.
    pose proof (good_backing _ G) as HT.
    assert (HB : forall s1 s2, Inv s1 -> router_body u z pre s s1 = Ok s2 -> Q s1 s2 /\ LF s1 s2).
    { intros s1 s2 I1 HB. pose proof (router_body_Q _ _ _ _ _ _ I1 HB) as [HQ HL]. split; auto. }
    pose proof (loan_settles _ _ _ _ _ HB I H) as (Hbal & _ & _ & Hp & Hc & Hsup & HQ & Hff).
    split.
    + split; [apply HQ|]. split; [unfold Solvent in *; lia | lia].
    + apply PM_of; auto; [unfold backing in *; lia|]. eapply Q_supply_pos; eauto.
  - destruct (n =? 0); inversion H; subst. split; auto. apply PM_refl.
  - discriminate H.
  - discriminate H.
  - discriminate H.
  - bind_as H uu EU. unfold router_loan_f in H.
    assert (HL : forall st0, Good st0 -> router_loan u z pre s st0 = Ok st' -> Good st' /\ PM st0 st').
    { intros st0 G0 H0. pose proof G0 as (I0 & S0 & C0). unfold router_loan in H0. bind_as H0 uu2 EH.
      pose proof (good_backing _ G0) as HT.
      assert (HB : forall s1 s2, Inv s1 -> router_body u z pre s s1 = Ok s2 -> Q s1 s2 /\ LF s1 s2).
      { intros s1 s2 I1 HB. pose proof (router_body_Q _ _ _ _ _ _ I1 HB) as [HQ HL]. split; auto. }
      pose proof (loan_settles _ _ _ _ _ HB I0 H0) as (Hbal & _ & _ & Hp & Hc & Hsup & HQ & Hff).
      split.
      + split; [apply HQ|]. split; [unfold Solvent in *; lia | lia].
      + apply PM_of; auto; [unfold backing in *; lia|]. eapply Q_supply_pos; eauto. }
    destruct (f =? 0); [apply HL; auto|].
    bind_as H ab' EX. apply ensure_ok' in EU. apply is_user_ne in EU as (Hv & _).
    pose proof (good_xfer_in _ _ _ _ _ _ G Hv EX) as [G1 P1].
    destruct (HL _ G1 H) as [G2 P2]. split; [exact G2|]. eapply PM_trans; eauto.
Qed.

(* ---- histories -------------------------------------------------------------- *)
Lemma run_app st h1 h2 : run st (h1 ++ h2) = run (run st h1) h2.
Proof. unfold run. apply fold_left_app. Qed.

Lemma W_refl st : Inv st -> W st st.
Proof. intros. unfold W. split; [assumption|]. split; [auto|]. split; [lia|auto]. Qed.
Lemma W_trans a b c : W a b -> W b c -> W a c.
Proof. unfold W. intros (I1 & C1 & V1 & K1) (I2 & C2 & V2 & K2). split; [assumption|]. split; [congruence|]. split; [lia|congruence]. Qed.

Lemma apply_W st o : Inv st -> W st (apply st o).
Proof.
  intros I. unfold apply. destruct (step st o) eqn:E; try (apply W_refl; auto). eapply step_W; eauto.
Qed.

Lemma run_W h : forall st, Inv st -> W st (run st h).
Proof.
  induction h as [|o h IH]; intros st I; cbn.
  - apply W_refl; auto.
  - pose proof (apply_W st o I) as W1. eapply W_trans; eauto. apply IH. apply W1.
Qed.

Lemma unnested_iff h : ~ has_nested_loan h <-> forallb op_unnested h = true.
Proof.
  unfold has_nested_loan. induction h as [|o h IH]; cbn.
  - split; [auto | intros _ H; discriminate H].
  - destruct (op_unnested o); cbn.
    + exact IH.
    + split; [intros H; exfalso; apply H; auto | discriminate].
Qed.

Lemma run_good h : forall st, Good st -> forallb op_unnested h = true -> Good (run st h) /\ PM st (run st h).
Proof.
  induction h as [|o h IH]; intros st G Hun; cbn in *.
  - split; auto. apply PM_refl.
  - apply andb_true_iff in Hun as [Ho Hh].
    assert (G1 : Good (apply st o) /\ PM st (apply st o)).
    { unfold apply. destruct (step st o) eqn:E; try (split; auto; apply PM_refl). eapply step_good; eauto. }
    destruct G1 as [G1 P1]. destruct (IH _ G1 Hh) as [G2 P2]. split; auto. eapply PM_trans; eauto.
Qed.

Lemma init_good p f b k bals st : nonneg bals -> init p f b k bals = Ok st -> Good st /\ supply st = 0.
Proof.
  unfold init. intros Hn H. bind_as H uu EV. apply ensure_ok' in EV. inversion H; subst; clear H.
  assert (HS : supply (mkSt bals (map (fun _ : Z => 0) bals) 0 0 0 0 (mkCfg p f b true true true FACT k)) = 0)
    by (unfold supply; simp; apply sumZ_map0).
  split; auto. split; [|split; [unfold Solvent, bal; simp; apply nonneg_get; auto | reflexivity]].
  constructor; simp; auto; try lia; try apply nonneg_map0.
Qed.

(* ==== statements used by props/C05.v ========================================== *)
Lemma share_price_step st o st' : Good st -> op_unnested o = true -> step st o = Ok st' -> PM st st' /\ Good st'.
Proof. intros G U H. destruct (step_good _ _ _ G U H). auto. Qed.

Lemma share_price_history st h1 h2 : Good st -> ~ has_nested_loan (h1 ++ h2) ->
  PM (run st h1) (run st (h1 ++ h2)) /\ Good (run st (h1 ++ h2)).
Proof.
  intros G Hn. apply unnested_iff in Hn. rewrite forallb_app in Hn. apply andb_true_iff in Hn as [U1 U2].
  destruct (run_good h1 st G U1) as [G1 _]. rewrite run_app. destruct (run_good h2 _ G1 U2) as [G2 P2]. auto.
Qed.

Lemma first_deposit_facts u z sent st st' : Inv st -> u <> VAULT -> supply st = 0 -> deposit u z sent st = Ok st' ->
  get (lp st') VAULT = get (lp st) VAULT + MIN_LIQ /\ get (lp st') u = get (lp st) u + (z - MIN_LIQ) /\
  supply st' = z /\ MIN_LIQ < z.
Proof.
  intros I Hne HS H. apply deposit_spec in H as (_ & _ & _ & Hu & ab' & locked & share & Hcase & _ & ->).
  assert (Hv : (VAULT < length (lp st))%nat) by (unfold VAULT; lia).
  destruct Hcase as [(_ & -> & -> & Hp)|(Hs & _)]; [|lia]. simp.
  set (lp1 := upd (lp st) VAULT (get (lp st) VAULT + MIN_LIQ)).
  assert (Hlen1 : length lp1 = length (lp st)) by (unfold lp1; apply length_upd).
  repeat split; try lia.
  - rewrite get_upd_other by auto. unfold lp1. rewrite get_upd_same by lia. lia.
  - rewrite get_upd_same by lia. unfold lp1. rewrite get_upd_other by auto. lia.
  - unfold supply in *; simp. rewrite sumZ_upd by lia. unfold lp1. rewrite sumZ_upd by lia. lia.
Qed.

Lemma deposit_withdraw_le u z sent st st1 st2 : Good st -> u <> VAULT ->
  0 < supply st \/ backing st = 0 ->
  deposit u z sent st = Ok st1 ->
  withdraw u (get (lp st1) u - get (lp st) u) st1 = Ok st2 ->
  get (ab st2) u - get (ab st1) u <= z.
Proof.
  intros G Hne Hdom HD HW.
  pose proof (deposit_good _ _ _ _ _ G Hne HD) as (G1 & _ & Hpr & Hbal & Hz & Hp).
  pose proof (withdraw_good _ _ _ _ G1 HW) as (_ & _ & Hw & Hu & Hs2 & Hw0).
  set (m := get (lp st1) u - get (lp st) u) in *. set (paid := bal st1 - bal st2) in *.
  replace (get (ab st2) u - get (ab st1) u) with paid by lia.
  assert (HT1 : backing st1 = backing st + z) by (unfold backing; lia).
  pose proof (good_backing _ G) as HT.
  destruct G as (I & _ & _).
  pose proof (nonneg_sum _ (i_lp _ I)) as HS. fold (supply st) in HS.
  destruct (Z.lt_ge_cases 0 (supply st)) as [Hpos|Hzero].
  - destruct (Hpr Hpos) as [Hm HS1]. rewrite HT1, HS1 in Hw.
    assert (0 <= m).
    { destruct (deposit_Q _ _ _ _ _ I HD) as (_ & l & sh & Hl & Hsh & Hsum). unfold m.
      apply deposit_spec in HD as (_ & _ & _ & Hu' & ab' & locked & share & Hcase & _ & ->). simp.
      assert (Hv : (VAULT < length (lp st))%nat) by (unfold VAULT; lia).
      rewrite get_upd_same by (rewrite length_upd; lia). rewrite get_upd_other by auto.
      destruct Hcase as [(Hs0 & _)|(_ & -> & Hle & Hb & ->)]; [lia|].
      assert (0 <= z * supply st / backing st); [|lia]. apply Z.div_pos; [nia | lia]. }
    assert (paid * (supply st + m) <= z * (supply st + m)) by nia. nia.
  - assert (HS0 : supply st = 0) by lia. destruct Hdom as [Hd|Hd]; [lia|].
    destruct (first_deposit_facts _ _ _ _ _ I Hne HS0 HD) as (_ & Hm & HS1 & Hzm).
    assert (Hmm : m = z - MIN_LIQ) by (unfold m; lia).
    rewrite HT1, HS1, Hmm, Hd in Hw. pose proof MIN_LIQ_pos. nia.
Qed.

Lemma locked_forever st h : Inv st ->
  Inv (run st h) /\ get (lp st) VAULT <= get (lp (run st h)) VAULT /\ counter (run st h) = counter st /\
  (0 < supply (run st h) -> MIN_LIQ <= get (lp (run st h)) VAULT).
Proof.
  intros I. destruct (run_W h st I) as (I' & C & V & _). split; [exact I'|]. split; [lia|]. split; [auto|]. apply I'.
Qed.

(* ==== statements used by props/C06.v ========================================== *)
Lemma loan_atomic st o : failed (step st o) -> apply st o = st.
Proof. unfold apply. destruct (step st o); cbn; tauto. Qed.

Lemma script_body_QLF z s : loan_free s = true ->
  forall s1 s2, Inv s1 -> run_script z s s1 = Ok s2 -> Q s1 s2 /\ LF s1 s2.
Proof.
  intros Hlf s1 s2 I H. destruct script_Q as [_ QS]. destruct script_LF as [_ LS]. split; eauto.
Qed.

Lemma router_body_QLF u z pre s : loan_free s = true ->
  forall s1 s2, Inv s1 -> router_body u z pre s s1 = Ok s2 -> Q s1 s2 /\ LF s1 s2.
Proof. intros Hlf s1 s2 I H. destruct (router_body_Q _ _ _ _ _ _ I H). auto. Qed.

Lemma no_deposit_during_loan u z sent st : 0 < counter st -> forall st', deposit u z sent st <> Ok st'.
Proof. intros Hc st' H. apply deposit_spec in H as (_ & H0 & _). lia. Qed.

Lemma step_counter st o st' : Inv st -> step st o = Ok st' -> counter st' = counter st.
Proof. intros I H. apply (step_W _ _ _ I H). Qed.

Lemma payback_charged c z q pf ff bf : payback c z = Ok (q, pf, ff, bf) ->
  q = z + pf + ff + bf /\ pf = z * f_prot c / DEC /\ ff = z * f_flash c / DEC /\ bf = z * f_burn c / DEC.
Proof. intros H. apply payback_spec in H. tauto. Qed.

(* repaying less than the quote never suffices *)
Lemma underpaid_fails d z st st' : Inv st -> 0 < z -> d < 0 ->
  flash_loan ADV z (run_script z (SCons (ARepayQ d) SNil)) st <> Ok st'.
Proof.
  intros I Hz Hd H. apply flash_loan_spec in H as (_ & _ & ab1 & st2 & Hx & Hbody & Hat).
  apply after_trade_spec in Hat. cbv zeta in Hat. destruct Hat as (Hle & _ & _).
  cbn [run_script] in Hbody. bind_as Hbody sb EB. inversion Hbody; subst sb; clear Hbody.
  apply repayq_inv in EB as (q & pf & ff & bf & Hq & Hcase). simp.
  apply payback_spec in Hq as (-> & -> & -> & -> & _). simp.
  assert (AV : ADV <> VAULT) by (unfold ADV, VAULT; lia).
  assert (Hb1 : get ab1 VAULT = bal st - z).
  { rewrite (xfer_get _ _ _ _ _ _ VAULT Hx). rewrite Nat.eqb_refl. destruct (Nat.eqb_spec VAULT ADV); [congruence|]. unfold bal. lia. }
  destruct (fees_valid_true _ _ _ (i_fees _ I)) as (Hp & Hf & Hbn & _).
  assert (0 <= z) by lia.
  pose proof (fee_floor_nonneg z _ H Hp). pose proof (fee_floor_nonneg z _ H Hf). pose proof (fee_floor_nonneg z _ H Hbn).
  destruct Hcase as [[Hneg ->]|(Hpos & ab' & Hx2 & ->)]; simp.
  - unfold bal in Hle at 2; simp. lia.
  - unfold bal in Hle at 2; simp. rewrite (xfer_get _ _ _ _ _ _ VAULT Hx2) in Hle. rewrite Nat.eqb_refl in Hle.
    destruct (Nat.eqb_spec VAULT ADV); [congruence|]. lia.
Qed.

Lemma xfer_succeeds k l from to z : (from < length l)%nat -> (to < length l)%nat -> 0 <= z -> (k = false -> 0 < z) ->
  z <= get l from -> exists l', xfer k l from to z = Ok l'.
Proof.
  intros Hf Ht Hz Hzk Hle. unfold xfer.
  assert (E1 : has l from && has l to = true) by (apply andb_true_iff; split; apply has_true; auto).
  assert (E2 : (if k then 0 <=? z else 0 <? z) = true) by (destruct k; [apply Z.leb_le | apply Z.ltb_lt]; auto).
  assert (E3 : (z <=? get l from) = true) by (apply Z.leb_le; auto).
  rewrite E1, E2, E3. cbn. eauto.
Qed.

(* repaying exactly the quoted amount always suffices *)
Lemma quoted_suffices z st q pf ff bf ab1 :
  fl_on (conf st) = true -> 0 <= counter st -> counter st + 1 < P32 ->
  xfer (kind st) (ab st) VAULT ADV z = Ok ab1 ->               (* the vault can lend z *)
  payback (conf st) z = Ok (q, pf, ff, bf) ->                  (* the quote *)
  q <= get ab1 ADV ->                                           (* the borrower holds the quote after receiving the loan *)
  bal st + pf + ff + bf < P128 -> pend st + pf < P128 -> allf st + pf < P128 -> burned st + bf < P128 ->
  Inv st ->
  exists st', flash_loan ADV z (run_script z (SCons (ARepayQ 0) SNil)) st = Ok st'.
Proof.
  intros Hfl Hc0 Hc Hx Hq Hfund B1 B2 B3 B4 I.
  pose proof (payback_spec _ _ _ _ _ _ Hq) as (Epf & Eff & Ebf & Eq & Bq).
  pose proof (xfer_ok _ _ _ _ _ _ Hx) as (Hv & Ha & Hz & Hzk & Hzb & _).
  destruct (fees_valid_true _ _ _ (i_fees _ I)) as (Hp & Hf & Hbn & _).
  pose proof (fee_floor_nonneg z _ Hz Hp). pose proof (fee_floor_nonneg z _ Hz Hf). pose proof (fee_floor_nonneg z _ Hz Hbn).
  assert (AV : ADV <> VAULT) by (unfold ADV, VAULT; lia).
  assert (Hb1 : get ab1 VAULT = bal st - z).
  { rewrite (xfer_get _ _ _ _ _ _ VAULT Hx). rewrite Nat.eqb_refl. destruct (Nat.eqb_spec VAULT ADV); [congruence|]. unfold bal. lia. }
  pose proof (nonneg_get (ab st) VAULT (i_ab _ I)) as Hbal0. fold (bal st) in Hbal0.
  unfold flash_loan. rewrite Hfl. cbn [ensure bind]. unfold cadd at 1. rewrite (fits_intro P32 (counter st + 1)) by lia.
  cbn [bind]. rewrite Hx. cbn [bind].
  set (st1 := set_counter (set_ab st ab1) (counter st + 1)).
  assert (Hlen1 : length ab1 = length (ab st)) by (eapply xfer_length; eauto).
  (* the script *)
  assert (HS : exists st2, run_script z (SCons (ARepayQ 0) SNil) st1 = Ok st2 /\ bal st2 = bal st + pf + ff + bf /\
            lp st2 = lp st /\ pend st2 = pend st /\ allf st2 = allf st /\ burned st2 = burned st /\ counter st2 = counter st + 1 /\
            conf st2 = conf st /\ (VAULT < length (ab st2))%nat).
  { cbn [run_script run_action]. unfold st1 at 1; simp. rewrite Hq. cbn [bind fst]. rewrite Z.add_0_r.
    destruct (q <=? 0) eqn:E0.
    - apply Z.leb_le in E0. cbn [bind]. eexists; split; [reflexivity|]. unfold st1, bal in *; simp. repeat split; auto; lia.
    - apply Z.leb_gt in E0. rewrite (proj2 (Z.ltb_lt q P128) Bq). cbn [ensure bind].
      destruct (xfer_succeeds (kind st1) (ab st1) ADV VAULT q) as [ab2 Hx2]; unfold st1; simp; try lia.
      unfold st1 in Hx2; simp. unfold kind in *; simp. rewrite Hx2. cbn [bind].
      eexists; split; [reflexivity|]. unfold bal; simp.
      rewrite (xfer_get _ _ _ _ _ _ VAULT Hx2). rewrite Nat.eqb_refl. destruct (Nat.eqb_spec VAULT ADV); [congruence|].
      rewrite (xfer_length _ _ _ _ _ _ Hx2). unfold bal in *. repeat split; auto; lia. }
  destruct HS as (st2 & -> & Hb2 & Hlp2 & Hp2 & Ha2 & Hbu2 & Hc2 & Hcf2 & Hv2). cbn [bind].
  unfold after_trade. rewrite Hcf2. unfold fee.
  rewrite <- Epf, <- Eff, <- Ebf.
  assert (Fp : (pf <? P128) = true) by (apply Z.ltb_lt; lia).
  assert (Ff : (ff <? P128) = true) by (apply Z.ltb_lt; lia).
  assert (Fb : (bf <? P128) = true) by (apply Z.ltb_lt; lia).
  rewrite Fp, Ff, Fb. cbn [bind]. unfold cadd.
  rewrite (fits_intro P128 (bal st + pf)) by lia. cbn [bind].
  rewrite (fits_intro P128 (bal st + pf + ff)) by lia. cbn [bind].
  rewrite (fits_intro P128 (bal st + pf + ff + bf)) by lia. cbn [bind].
  rewrite Hb2. rewrite (proj2 (Z.leb_le _ _)) by lia. cbn [ensure bind].
  rewrite Hp2, Ha2. pose proof (i_pend _ I). pose proof (i_allf _ I). pose proof (i_burned _ I).
  rewrite (fits_intro P128 (pend st + pf)) by lia. cbn [bind].
  rewrite (fits_intro P128 (allf st + pf)) by lia. cbn [bind].
  destruct (bf =? 0); [eauto|]. simp. rewrite Hbu2.
  rewrite (fits_intro P128 (burned st + bf)) by lia. cbn [bind]. eauto.
Qed.

(* ---- witnesses of the known findings ----------------------------------------- *)
Definition w_fee : Z := 10000000000000000.     (* 1 % *)
Definition w_st0 : state :=
  mkSt [0; 0; 5000000; 0; 0; 0; 4000000; 5000000; 0] [0; 0; 0; 0; 0; 0; 0; 0; 0] 0 0 0 0 (mkCfg w_fee w_fee 0 true true true FACT false).
Definition w_deposit : op := ODeposit 6%nat 1000000 1000000.
Definition w_nested : op :=
  ORun (SCons (ALoan 100000 (SCons (ALoan 800000 (SCons (APay VAULT 816000) SNil)) (SCons (APay VAULT 86000) SNil))) SNil).

Lemma w_st0_good : Good w_st0.
Proof.
  split; [|split; [unfold Solvent; vm_compute; discriminate | reflexivity]].
  constructor; try (vm_compute; discriminate); try reflexivity.
  - unfold nonneg. cbn. repeat constructor; discriminate.
  - unfold nonneg. cbn. repeat constructor; discriminate.
Qed.

(* after the nested loan: balance 1 002 000, pending protocol fee 9 000, supply unchanged: backing fell from 1 000 000 to 993 000 *)
Lemma nested_witness_values :
  let st1 := run w_st0 [w_deposit] in let st2 := run w_st0 [w_deposit; w_nested] in
  step st1 w_nested = Ok st2 /\ supply st1 = 1000000 /\ supply st2 = 1000000 /\ backing st1 = 1000000 /\ backing st2 = 993000 /\
  bal st1 = 1000000 /\ bal st2 = 1002000 /\ pend st2 = 9000 /\ allf st2 = 9000 /\ counter st2 = 0.
Proof. vm_compute. repeat split; reflexivity. Qed.

(* donation to an empty vault, first deposit, immediate redemption of the minted shares *)
Definition d_st0 : state :=
  mkSt [0; 0; 0; 0; 0; 0; 4000000; 5000000; 0] [0; 0; 0; 0; 0; 0; 0; 0; 0] 0 0 0 0 (mkCfg 0 0 0 true true true FACT false).
Lemma donation_witness_values :
  let st1 := run d_st0 [ODonate 7%nat 1000000] in
  let st2 := run d_st0 [ODonate 7%nat 1000000; ODeposit 6%nat 2000 2000] in
  let st3 := run d_st0 [ODonate 7%nat 1000000; ODeposit 6%nat 2000 2000; OWithdraw 6%nat 1000] in
  deposit 6%nat 2000 2000 st1 = Ok st2 /\ get (lp st2) 6%nat - get (lp st1) 6%nat = 1000 /\ withdraw 6%nat 1000 st2 = Ok st3 /\
  supply st1 = 0 /\ backing st1 = 1000000 /\ get (ab st3) 6%nat - get (ab st2) 6%nat = 501000.
Proof. vm_compute. repeat split; reflexivity. Qed.

Lemma d_st0_good : Good d_st0.
Proof.
  split; [|split; [unfold Solvent; vm_compute; discriminate | reflexivity]].
  constructor; try (vm_compute; discriminate); try reflexivity.
  - unfold nonneg. cbn. repeat constructor; discriminate.
  - unfold nonneg. cbn. repeat constructor; discriminate.
Qed.

(* ---- glue for props/C05.v ------------------------------------------------------ *)
Lemma share_price_from_init p f b k bals st0 h1 h2 : nonneg bals -> init p f b k bals = Ok st0 ->
  ~ has_nested_loan (h1 ++ h2) -> PM (run st0 h1) (run st0 (h1 ++ h2)).
Proof. intros Hn Hi Hu. destruct (init_good _ _ _ _ _ _ Hn Hi) as [G _]. apply (share_price_history _ _ _ G Hu). Qed.

Lemma deposit_prorata u z sent st st' : Good st -> u <> VAULT -> 0 < supply st -> deposit u z sent st = Ok st' ->
  (get (lp st') u - get (lp st) u) * backing st <= z * supply st /\
  supply st' = supply st + (get (lp st') u - get (lp st) u) /\ bal st' = bal st + z.
Proof.
  intros G Hne Hp H. destruct (deposit_good _ _ _ _ _ G Hne H) as (_ & _ & Hpr & Hb & _). destruct (Hpr Hp). auto.
Qed.

Lemma withdraw_prorata u a st st' : Good st -> withdraw u a st = Ok st' ->
  (bal st - bal st') * supply st <= a * backing st /\ get (ab st') u = get (ab st) u + (bal st - bal st') /\
  supply st' = supply st - a.
Proof. intros G H. destruct (withdraw_good _ _ _ _ G H) as (_ & _ & H1 & H2 & H3 & _). auto. Qed.

Definition share_price_full_statement : Prop := forall st h, Good st -> PM st (run st h).

Lemma w_st1_good : Good (run w_st0 [w_deposit]).
Proof. apply (run_good [w_deposit] w_st0 w_st0_good). reflexivity. Qed.

Lemma share_price_refuted_nested :
  exists st h, Good st /\ has_nested_loan h /\ ~ PM st (run st h).
Proof.
  exists (run w_st0 [w_deposit]), [w_nested]. split; [apply w_st1_good|]. split; [reflexivity|].
  intros HP. pose proof nested_witness_values as V. cbv zeta in V.
  destruct V as (_ & S1 & S2 & B1 & B2 & _).
  change (run (run w_st0 [w_deposit]) [w_nested]) with (run w_st0 [w_deposit; w_nested]) in HP.
  unfold PM in HP. rewrite S1, S2, B1, B2 in HP. destruct HP as [_ HP]; [reflexivity|]. vm_compute in HP. apply HP. reflexivity.
Qed.

Lemma share_price_full_statement_refuted : ~ share_price_full_statement.
Proof.
  intros F. destruct share_price_refuted_nested as (st & h & G & _ & N). apply N. apply F. exact G.
Qed.

Definition deposit_withdraw_full_statement : Prop :=
  forall u z sent st st1 st2, Good st -> u <> VAULT -> deposit u z sent st = Ok st1 ->
    withdraw u (get (lp st1) u - get (lp st) u) st1 = Ok st2 -> get (ab st2) u - get (ab st1) u <= z.

Lemma deposit_withdraw_refuted_donated_empty :
  exists u z sent st st1 st2, Good st /\ u <> VAULT /\ supply st = 0 /\ 0 < backing st /\ deposit u z sent st = Ok st1 /\
    withdraw u (get (lp st1) u - get (lp st) u) st1 = Ok st2 /\ z < get (ab st2) u - get (ab st1) u.
Proof.
  pose proof donation_witness_values as V. cbv zeta in V. destruct V as (HD & Hm & HW & S1 & B1 & Hpaid).
  exists 6%nat, 2000, 2000, (run d_st0 [ODonate 7%nat 1000000]),
         (run d_st0 [ODonate 7%nat 1000000; ODeposit 6%nat 2000 2000]),
         (run d_st0 [ODonate 7%nat 1000000; ODeposit 6%nat 2000 2000; OWithdraw 6%nat 1000]).
  split; [apply (run_good [ODonate 7%nat 1000000] d_st0 d_st0_good); reflexivity|].
  split; [unfold VAULT; lia|]. split; [exact S1|]. split; [rewrite B1; reflexivity|]. split; [exact HD|].
  rewrite Hm. split; [exact HW|]. rewrite Hpaid. reflexivity.
Qed.

(* ---- glue for props/C06.v ------------------------------------------------------ *)
(* sum of protocol + flash fees over every loan of a script tree, at the fee shares of state st *)
Fixpoint fees_in_a (st : state) (a : action) : Z :=
  match a with
  | ALoan z s => fee_p st z + fee_f st z + fees_in st s
  | ATry s => fees_in st s
  | _ => 0
  end
with fees_in (st : state) (s : script) : Z :=
  match s with SNil => 0 | SCons a r => fees_in_a st a + fees_in st r end.

(* full strength, for scripts without Try: the balance grows by the fees of EVERY loan completed within the transaction *)
Definition loan_settles_full_statement : Prop :=
  forall st z s st', Good st -> flash_loan ADV z (run_script z s) st = Ok st' ->
    bal st + fee_p st z + fee_f st z + fees_in st s <= bal st'.

Lemma loan_settles_refuted_nested : ~ loan_settles_full_statement.
Proof.
  intros F.
  pose proof nested_witness_values as V. cbv zeta in V. destruct V as (HS & _ & _ & _ & _ & Hb1 & Hb2 & _).
  specialize (F (run w_st0 [w_deposit]) 100000 (SCons (ALoan 800000 (SCons (APay VAULT 816000) SNil)) (SCons (APay VAULT 86000) SNil))
                (run w_st0 [w_deposit; w_nested]) w_st1_good).
  cbn [step w_nested run_script run_action bind] in HS.
  assert (HF : flash_loan ADV 100000 (run_script 100000 (SCons (ALoan 800000 (SCons (APay VAULT 816000) SNil)) (SCons (APay VAULT 86000) SNil)))
                 (run w_st0 [w_deposit]) = Ok (run w_st0 [w_deposit; w_nested])).
  { destruct (flash_loan ADV 100000 _ (run w_st0 [w_deposit])) eqn:E; cbn [bind] in HS; try discriminate HS. exact HS. }
  specialize (F HF). rewrite Hb1, Hb2 in F. vm_compute in F. apply F. reflexivity.
Qed.

Lemma loan_settles_unnested z s st st' : Inv st -> loan_free s = true ->
  flash_loan ADV z (run_script z s) st = Ok st' ->
  bal st + fee_p st z + fee_f st z <= bal st' /\ burned st' = burned st + fee_b st z /\ allf st' = allf st + fee_p st z /\
  pend st' <= pend st + fee_p st z /\ counter st' = counter st /\ supply st' <= supply st.
Proof.
  intros I Hlf H. destruct (loan_settles _ _ _ _ _ (script_body_QLF z s Hlf) I H) as (A & B & C & D & E & F & _).
  repeat split; assumption.
Qed.

Lemma router_loan_settles u z pre s st st' : Inv st -> loan_free s = true -> u <> ROUTER ->
  router_loan u z pre s st = Ok st' ->
  bal st + fee_p st z + fee_f st z <= bal st' /\ burned st' = burned st + fee_b st z /\ allf st' = allf st + fee_p st z /\
  pend st' <= pend st + fee_p st z /\ counter st' = counter st /\ supply st' <= supply st /\ get (ab st') ROUTER = 0.
Proof.
  intros I Hlf Hu H. pose proof (router_keeps_nothing _ _ _ _ _ _ I Hu H) as HR.
  unfold router_loan in H. bind_as H uu EH.
  destruct (loan_settles _ _ _ _ _ (router_body_QLF u z pre s Hlf) I H) as (A & B & C & D & E & F & _). repeat split; auto.
Qed.

Lemma loan_outer_all_depths z s st st' : Inv st -> flash_loan ADV z (run_script z s) st = Ok st' ->
  bal st + fee_p st z + fee_f st z <= bal st' /\ counter st' = counter st /\ supply st' <= supply st /\ Inv st'.
Proof.
  intros I H. destruct script_Q as [_ QS].
  assert (HB : forall s1 s2, Inv s1 -> run_script z s s1 = Ok s2 -> Q s1 s2) by (intros; eauto).
  destruct (loan_settles_outer _ _ _ _ _ HB I H) as (A & B & C & D & _).
  split; [exact A|]. split; [exact B|]. split; [exact C|]. apply D.
Qed.

Lemma script_all_depths L s st st' : Inv st -> run_script L s st = Ok st' ->
  Inv st' /\ counter st' = counter st /\ (0 < counter st -> supply st' <= supply st) /\ get (lp st) VAULT <= get (lp st') VAULT.
Proof.
  intros I H. destruct script_Q as [_ QS]. destruct (QS _ _ _ _ I H) as (A & B & _ & _ & _ & C & D).
  split; [exact A|]. split; [exact B|]. split; [exact C|exact D].
Qed.

Lemma bind_ret {A} (m : outcome A) : bind m (fun x => Ok x) = m.
Proof. destruct m; reflexivity. Qed.

(* the top-level operation "borrower takes one loan" is exactly flash_loan with the scripted body *)
Lemma step_single_loan st z s : step st (ORun (SCons (ALoan z s) SNil)) = flash_loan ADV z (run_script z s) st.
Proof. cbn [step run_script run_action]. apply bind_ret. Qed.

Lemma step_router_loan st u z pre s : is_user st u = true -> step st (ORouterLoan u z pre s) = router_loan u z pre s st.
Proof. intros H. cbn [step]. rewrite H. reflexivity. Qed.

Lemma router_pays_quote u z st st' : u <> ROUTER -> u <> VAULT -> complete_loan u z st = Ok st' ->
  exists q pf ff bf, payback (conf st) z = Ok (q, pf, ff, bf) /\
    bal st' = bal st + q /\ get (ab st') ROUTER = 0 /\ get (ab st') u = get (ab st) u + (get (ab st) ROUTER - q).
Proof.
  intros Hr Hv H. destruct (complete_loan_effect _ _ _ _ Hr Hv H) as (q & pf & ff & bf & A & B & C & D & _).
  exists q, pf, ff, bf. auto.
Qed.
