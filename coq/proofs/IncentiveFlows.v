(* IncentiveFlows.v — lemmas about the flow store, asset histories and the claim loops. *)
From WW Require Import Prim Params Incentive.
From WW.Proofs Require Import IncentiveLedger.
From Coq Require Import Lia.

(* ---- outstanding funds of flows ---------------------------------------------------------------------- *)
Definition flow_out (f : flow) : Z := flow_funded f - f_claimed f.
Fixpoint flows_out (a : Z) (l : list flow) : Z :=
  match l with [] => 0 | f :: r => (if f_asset f =? a then flow_out f else 0) + flows_out a r end.
Definition fout (a : Z) (f : flow) : Z := if f_asset f =? a then flow_out f else 0.

Lemma flows_out_insert a f l : flows_out a (flows_insert f l) = fout a f + flows_out a l.
Proof.
  induction l as [|g r IH]; cbn; [unfold fout; lia|].
  destruct (key_lt _ _ _ _); cbn; unfold fout in *; lia.
Qed.

Lemma key_eq_true s1 i1 s2 i2 : key_eq s1 i1 s2 i2 = true -> s1 = s2 /\ i1 = i2.
Proof. unfold key_eq. intros H. apply andb_true_iff in H as [H1 H2]. apply Z.eqb_eq in H1, H2. auto. Qed.

Lemma flows_remove_in s i l x : In x (flows_remove s i l) -> In x l.
Proof.
  induction l as [|g r IH]; cbn; [tauto|]. destruct (key_eq _ _ _ _); cbn; intuition.
Qed.

Lemma flows_remove_Forall (P : flow -> Prop) s i l : Forall P l -> Forall P (flows_remove s i l).
Proof.
  intros H. apply Forall_forall. intros x Hx. apply flows_remove_in in Hx. eapply Forall_forall; eauto.
Qed.

Lemma flows_insert_in f l x : In x (flows_insert f l) <-> x = f \/ In x l.
Proof.
  induction l as [|g r IH]; cbn; [intuition|]. destruct (key_lt _ _ _ _); cbn; intuition.
Qed.

Lemma flows_insert_Forall (P : flow -> Prop) f l : P f -> Forall P l -> Forall P (flows_insert f l).
Proof.
  intros Hf H. apply Forall_forall. intros x Hx. apply flows_insert_in in Hx as [->|Hx]; [assumption|].
  eapply Forall_forall; eauto.
Qed.

Lemma flows_insert_ids f l : forall x, In x (map f_id (flows_insert f l)) <-> x = f_id f \/ In x (map f_id l).
Proof.
  intros x. rewrite !in_map_iff. split.
  - intros [g [<- Hg]]. apply flows_insert_in in Hg as [->|Hg]; [left; reflexivity|right; eauto].
  - intros [->|[g [<- Hg]]]; [exists f|exists g]; split; try reflexivity; apply flows_insert_in; auto.
Qed.

Lemma flows_insert_nodup f l : ~ In (f_id f) (map f_id l) -> NoDup (map f_id l) -> NoDup (map f_id (flows_insert f l)).
Proof.
  induction l as [|g r IH]; cbn; intros Hn Hd.
  - constructor; [tauto|constructor].
  - destruct (key_lt _ _ _ _); cbn.
    + constructor; [cbn; tauto|assumption].
    + inversion Hd; subst. constructor.
      * intros Hin. apply flows_insert_ids in Hin as [E|Hin]; [tauto|contradiction].
      * apply IH; [tauto|assumption].
Qed.

Lemma flows_remove_nodup s i l : NoDup (map f_id l) -> NoDup (map f_id (flows_remove s i l)).
Proof.
  induction l as [|g r IH]; cbn; intros Hd; [constructor|]. inversion Hd; subst.
  destruct (key_eq _ _ _ _); cbn; [assumption|]. constructor; [|auto].
  intros Hin. apply in_map_iff in Hin as [x [Ex Hx]]. apply flows_remove_in in Hx. apply H1. rewrite <- Ex. apply in_map. assumption.
Qed.

(* removing the key of a stored flow removes exactly that flow *)
Lemma flows_remove_out a f l :
  In f l -> NoDup (map f_id l) ->
  flows_out a (flows_remove (f_start f) (f_id f) l) = flows_out a l - fout a f /\
  ~ In (f_id f) (map f_id (flows_remove (f_start f) (f_id f) l)).
Proof.
  induction l as [|g r IH]; cbn; intros Hin Hd; [tauto|]. inversion Hd; subst.
  destruct (key_eq (f_start g) (f_id g) (f_start f) (f_id f)) eqn:E.
  - apply key_eq_true in E as [Es Ei].
    destruct Hin as [->|Hin].
    + split; [unfold fout; lia|assumption].
    + exfalso. apply H1. rewrite Ei. apply in_map. assumption.
  - destruct Hin as [->|Hin].
    + unfold key_eq in E. rewrite !Z.eqb_refl in E. discriminate.
    + destruct (IH Hin H2) as [IH1 IH2]. cbn. split; [unfold fout in *; lia|].
      intros [Eg|Hx]; [|contradiction]. apply H1. rewrite Eg. apply in_map. assumption.
Qed.

Lemma find_flow_in x l f : find_flow x l = Some f -> In f l.
Proof.
  induction l as [|g r IH]; cbn; [discriminate|]. destruct (ident_matches x g); [intros H; inversion H; auto|auto].
Qed.

(* ---- asset histories --------------------------------------------------------------------------------- *)
(* keys strictly increasing and bounded *)
Fixpoint hist_ok (bound : Z) (h : hist) : Prop :=
  match h with
  | [] => True
  | (k, _) :: r => k <= bound /\ match r with [] => True | (k', _) :: _ => k < k' end /\ hist_ok bound r
  end.

Lemma hist_ok_mono b b' h : b <= b' -> hist_ok b h -> hist_ok b' h.
Proof.
  intros Hb. induction h as [|[k v] r IH]; cbn; [tauto|]. intros [H1 [H2 H3]]. repeat split; [lia|assumption|auto].
Qed.

Lemma hist_ok_head_le b k v r : hist_ok b ((k, v) :: r) -> Forall (fun x => k <= fst x) r.
Proof.
  revert k v. induction r as [|[k' v'] r IH]; intros k v H; [constructor|].
  cbn in H. destruct H as [H1 [H2 [H3 [H4 H5]]]]. constructor; [cbn; lia|].
  assert (Hr : hist_ok b ((k', v') :: r)) by (cbn; tauto).
  specialize (IH _ _ Hr). eapply Forall_impl; [|exact IH]. cbn. intros; lia.
Qed.

Lemma hist_last_cons x (l : hist) : l <> [] -> hist_last (x :: l) = hist_last l.
Proof. destruct l; [congruence|]. intros _. destruct x. reflexivity. Qed.
Lemma hist_last_some (l : hist) : l <> [] -> exists v, hist_last l = Some v.
Proof.
  induction l as [|[k v] r IH]; [congruence|]. intros _. destruct r as [|p r']; [exists v; reflexivity|].
  rewrite (hist_last_cons (k, v) (p :: r')) by discriminate. apply IH. discriminate.
Qed.
Lemma hist_put_nonempty k v h : hist_put k v h <> [].
Proof. destruct h as [|[k' v'] r]; cbn; [discriminate|]. destruct (k <? k'); [discriminate|]. destruct (k =? k'); discriminate. Qed.

(* the entry at the top key, if present, is the last one; putting at the top key makes it the last *)
Lemma hist_put_top b h v' :
  hist_ok b h ->
  hist_last (hist_put b v' h) = Some v' /\ hist_ok b (hist_put b v' h) /\
  (forall v, hist_get b h = Some v -> hist_last h = Some v) /\
  (hist_get b h = None -> forall acc, hist_at (b - 1) h acc = match hist_last h with Some v => Some v | None => acc end).
Proof.
  induction h as [|[k v] r IH]; intros Hok.
  - cbn. repeat split; try lia; try discriminate; try (intros; reflexivity).
  - cbn in Hok. destruct Hok as [H1 [H2 H3]]. specialize (IH H3). destruct IH as [I1 [I2 [I3 I4]]].
    cbn [hist_put hist_get].
    destruct (b <? k) eqn:Elt; [apply Z.ltb_lt in Elt; lia|].
    destruct (b =? k) eqn:Eeq.
    + apply Z.eqb_eq in Eeq. subst k. rewrite Z.eqb_refl.
      destruct r as [|[k' v2] r'].
      * cbn. repeat split; try lia. { intros v0 E; inversion E; reflexivity. } { discriminate. }
      * cbn in H3. lia.
    + apply Z.eqb_neq in Eeq. rewrite (proj2 (Z.eqb_neq k b)) by lia.
      split; [|split; [|split]].
      * rewrite hist_last_cons by apply hist_put_nonempty. exact I1.
      * cbn [hist_ok]. split; [lia|]. split; [|exact I2].
        destruct r as [|[k' v2] r']; cbn [hist_put].
        { lia. }
        { destruct (b <? k') eqn:E1; [lia|]. destruct (b =? k') eqn:E2; [apply Z.eqb_eq in E2; lia|lia]. }
      * intros v0 Hg. specialize (I3 _ Hg). destruct r as [|p r']; [cbn in Hg; discriminate|]. rewrite (hist_last_cons (k, v) (p :: r')) by discriminate. exact I3.
      * intros Hg acc. cbn [hist_at]. destruct (k <=? b - 1) eqn:E1; [|apply Z.leb_gt in E1; lia].
        rewrite (I4 Hg). destruct r as [|p r']; [reflexivity|]. rewrite (hist_last_cons (k, v) (p :: r')) by discriminate.
        destruct (hist_last_some (p :: r')) as [vl El]; [discriminate|]. rewrite El. reflexivity.
Qed.

(* ---- frame of a flow under claims: only claimed_amount and emitted_tokens move ------------------------- *)
Definition same_frame (f g : flow) : Prop :=
  f_id g = f_id f /\ f_label g = f_label f /\ f_creator g = f_creator f /\ f_asset g = f_asset f /\
  f_amount g = f_amount f /\ f_start g = f_start f /\ f_end g = f_end f /\ f_hist g = f_hist f.

Lemma same_frame_refl f : same_frame f f.
Proof. unfold same_frame; tauto. Qed.
Lemma same_frame_trans f g h : same_frame f g -> same_frame g h -> same_frame f h.
Proof. unfold same_frame; intuition congruence. Qed.
Lemma same_frame_funded f g : same_frame f g -> flow_funded g = flow_funded f.
Proof. unfold same_frame, flow_funded, flow_latest. intros [_ [_ [_ [_ [Ha [_ [He Hh]]]]]]]. rewrite Hh, Ha, He. reflexivity. Qed.
Lemma same_frame_set_claimed f c : same_frame f (set_claimed f c).
Proof. unfold same_frame; cbn; tauto. Qed.
Lemma same_frame_set_emitted f m : same_frame f (set_emitted f m).
Proof. unfold same_frame; cbn; tauto. Qed.

(* the inner loop of claim *)
Lemma claim_epochs_spec v fuel : forall e cur count ea ee awh snap s s',
  claim_epochs v fuel e cur count ea ee awh snap s = Ok s' ->
  same_frame (l_flow s) (l_flow s') /\
  (exists extra, l_rewards s' = l_rewards s ++ extra /\ f_claimed (l_flow s') = f_claimed (l_flow s) + sumZ extra) /\
  (f_claimed (l_flow s) <= ea -> f_claimed (l_flow s') <= ea).
Proof.
  induction fuel as [|fuel IH]; intros e cur count ea ee awh snap s s' H.
  - cbn in H. inversion H; subst. split; [apply same_frame_refl|]. split; [exists []; rewrite app_nil_r; cbn; split; [reflexivity|lia]|tauto].
  - cbn [claim_epochs] in H.
    assert (Hdone : forall s0, Ok s0 = Ok s' -> s0 = s ->
              same_frame (l_flow s) (l_flow s') /\
              (exists extra, l_rewards s' = l_rewards s ++ extra /\ f_claimed (l_flow s') = f_claimed (l_flow s) + sumZ extra) /\
              (f_claimed (l_flow s) <= ea -> f_claimed (l_flow s') <= ea)).
    { intros s0 E1 E2. inversion E1; subst. split; [apply same_frame_refl|]. split; [exists []; rewrite app_nil_r; cbn; split; [reflexivity|lia]|tauto]. }
    destruct (cur <? e); [eapply Hdone; eauto|].
    destruct (CLAIM_CAP <? count + 1); [eapply Hdone; eauto|].
    destruct (e <? f_start (l_flow s)).
    { destruct (if v_skip_scan v then aget e awh else None) as [w0|]; [|eapply IH; eauto]. apply IH in H. cbn in H. exact H. }
    destruct (ee <=? e); [eapply Hdone; eauto|].
    apply bind_ok in H as [[emission emitted] [Eem H]].
    apply bind_ok in H as [f1 [Ef1 H]].
    assert (Hf1 : same_frame (l_flow s) f1 /\ f_claimed f1 = f_claimed (l_flow s)).
    { destruct (aget e (f_emitted (l_flow s))).
      - inversion Ef1; subst. split; [apply same_frame_refl|reflexivity].
      - apply bind_ok in Ef1 as [vv [_ Ef1]]. inversion Ef1; subst. split; [apply same_frame_set_emitted|reflexivity]. }
    destruct Hf1 as [Hfr Hcl].
    (* every continuation runs the loop on a state whose flow is f1 or f1 with claimed advanced *)
    assert (Hcont : forall lu lw, claim_epochs v fuel (e + 1) cur (count + 1) ea ee awh snap (mkLoop f1 lu lw (l_rewards s) (l_log s)) = Ok s' ->
              same_frame (l_flow s) (l_flow s') /\
              (exists extra, l_rewards s' = l_rewards s ++ extra /\ f_claimed (l_flow s') = f_claimed (l_flow s) + sumZ extra) /\
              (f_claimed (l_flow s) <= ea -> f_claimed (l_flow s') <= ea)).
    { intros lu lw Hc. apply IH in Hc. cbn in Hc. destruct Hc as [C1 [[extra [C2 C3]] C4]].
      split; [eapply same_frame_trans; eauto|]. split; [exists extra; split; [assumption|lia]|]. intros; apply C4; lia. }
    destruct (weight_lookup awh e (l_lu s) (l_lw s)) as [[[uw lu1] lw1]|]; [|eapply Hcont; eauto].
    destruct (aget0 e snap =? 0); [eapply Hcont; eauto|].
    apply bind_ok in H as [r [Er H]]. apply bind_ok in H as [tot [Etot H]]. apply bind_ok in H as [u [Eg H]].
    apply ensure_ok in Eg. apply andb_true_iff in Eg as [Eg1 Eg2]. apply Z.leb_le in Eg2.
    apply cadd_ok in Etot.
    destruct (r =? 0); [eapply Hcont; eauto|].
    apply IH in H. cbn in H. destruct H as [C1 [[extra [C2 C3]] C4]].
    split; [eapply same_frame_trans; [exact Hfr|]; eapply same_frame_trans; [apply (same_frame_set_claimed f1 tot)|exact C1]|].
    split.
    + exists (r :: extra). split; [rewrite C2, <- app_assoc; reflexivity|]. cbn. lia.
    + intros _. apply C4. assumption.
Qed.

Definition ind (x y : Z) : Z := if x =? y then 1 else 0.

Lemma msdelta_sends user asset rs x s :
  msdelta (map (fun a => MSend user asset a) rs) x s = (if s =? asset then sumZ rs else 0) * (ind x user - ind x SELF).
Proof.
  induction rs as [|r rs IH]; cbn; [destruct (s =? asset); lia|]. rewrite IH. unfold tdelta, ind.
  destruct (s =? asset), (x =? user), (x =? SELF); lia.
Qed.

(* the outer loop of claim: flows keep their frame, claimed stays within funded, and the messages pay exactly
   the increase of the claimed amounts, asset by asset *)
Lemma claim_flows_spec v fl : forall cur last awh snap user lw fl' ms lw',
  claim_flows v fl cur last awh snap user lw = Ok (fl', ms, lw') ->
  Forall2 (fun f g => same_frame f g /\ (f_claimed f <= flow_funded f -> f_claimed g <= flow_funded g)) fl fl' /\
  (forall x s, msdelta ms x s = (flows_out s fl - flows_out s fl') * (ind x user - ind x SELF)).
Proof.
  induction fl as [|f r IH]; intros cur last awh snap user lw fl' ms lw' H.
  - cbn in H. inversion H; subst. split; [constructor|]. intros; cbn; lia.
  - cbn [claim_flows] in H.
    assert (Hskip : forall x0, claim_flows v r cur last awh snap user lw = Ok x0 ->
                      (let '(r', ms0, lw0) := x0 in Ok (f :: r', ms0, lw0)) = Ok (fl', ms, lw') ->
              Forall2 (fun f g => same_frame f g /\ (f_claimed f <= flow_funded f -> f_claimed g <= flow_funded g)) (f :: r) fl' /\
              (forall x s, msdelta ms x s = (flows_out s (f :: r) - flows_out s fl') * (ind x user - ind x SELF))).
    { intros [[r' ms0] lw0] E1 E2. inversion E2; subst. apply IH in E1 as [I1 I2]. split.
      - constructor; [split; [apply same_frame_refl|tauto]|assumption].
      - intros x s. rewrite I2. cbn. lia. }
    destruct (cur <? f_start f).
    { apply bind_ok in H as [x0 [E1 H]]. eapply Hskip; eauto. }
    destruct (flow_latest f) as [exp_amt exp_end] eqn:Elat.
    destruct ((exp_end <? cur) && (f_claimed f =? exp_amt)).
    { apply bind_ok in H as [x0 [E1 H]]. eapply Hskip; eauto. }
    destruct (earliest awh) as [lu0 lw0].
    apply bind_ok in H as [first [Efirst H]]. apply bind_ok in H as [ls [Es H]].
    apply bind_ok in H as [[[r' ms0] lw1] [Er H]]. inversion H; subst; clear H.
    apply claim_epochs_spec in Es. cbn in Es. destruct Es as [S1 [[extra [S2 S3]] S4]].
    apply IH in Er as [I1 I2].
    assert (Hfund : flow_funded f = exp_amt) by (unfold flow_funded; rewrite Elat; reflexivity).
    split.
    + constructor; [|assumption]. split; [assumption|]. rewrite (same_frame_funded _ _ S1), Hfund. exact S4.
    + intros x s. rewrite msdelta_app, I2, msdelta_sends. cbn in S2. subst.
      cbn [flows_out]. unfold flow_out. rewrite (same_frame_funded _ _ S1).
      destruct S1 as [_ [_ [_ [Ha _]]]]. rewrite Ha. rewrite (Z.eqb_sym s (f_asset f)).
      destruct (f_asset f =? s); lia.
Qed.
