(* IncentiveC12.v — the C12 statements about single operations, derived from the handler specifications. *)
From WW Require Import Prim Params Incentive.
From WW.Proofs Require Import IncentiveLedger IncentiveFlows IncentiveInv.
From Coq Require Import Lia.

Lemma fdelta_other sender fs x s : x <> SELF -> x <> sender -> fdelta sender fs x s = 0.
Proof.
  intros H1 H2. induction fs as [|[d a] r IH]; cbn; [reflexivity|]. rewrite IH. unfold tdelta.
  destruct (x =? SELF) eqn:E1; [apply Z.eqb_eq in E1; congruence|].
  destruct (x =? sender) eqn:E2; [apply Z.eqb_eq in E2; congruence|]. destruct (s =? d); lia.
Qed.

(* reachable states: the invariant holds after every well-formed history from the instantiated contract *)
Theorem reachable_inv c h e b :
  well_formed c h -> (forall a, 0 <= b SELF a) -> Inv c (run_history v_fixed c (init_state e b) h).
Proof. intros Hw Hb. apply history_inv; [assumption|]. apply init_inv. assumption. Qed.

Theorem flow_cover c h e b :
  well_formed c h -> (forall a, 0 <= b SELF a) ->
  let st := run_history v_fixed c (init_state e b) h in
  forall a, flows_out a (s_flows st) + (if a =? c_lp c then staked st else 0) <= s_bal st SELF a.
Proof. intros Hw Hb st a. exact (inv_cover _ _ (reachable_inv c h e b Hw Hb) a). Qed.

Theorem claims_le_funded c h e b :
  well_formed c h -> (forall a, 0 <= b SELF a) ->
  Forall (fun f => f_claimed f <= flow_funded f) (s_flows (run_history v_fixed c (init_state e b) h)).
Proof. intros Hw Hb. exact (inv_claimed _ _ (reachable_inv c h e b Hw Hb)). Qed.

Theorem open_funds c st sender fs al so eo asset amount label st' :
  cfg_wf c -> op_wf (OpenFlow sender fs al so eo asset amount label) -> Inv c st ->
  step v_fixed c st (OpenFlow sender fs al so eo asset amount label) = Ok st' ->
  exists f,
    s_flows st' = flows_insert f (s_flows st) /\ f_id f = s_counter st + 1 /\ ~ In (f_id f) (map f_id (s_flows st)) /\
    f_creator f = sender /\ f_asset f = asset /\ f_claimed f = 0 /\
    (* funded = what the contract received of the flow asset (net of the fee) *)
    flow_funded f = s_bal st' SELF asset - s_bal st SELF asset /\
    (* no other asset of the contract decreases *)
    (forall s, s_bal st SELF s <= s_bal st' SELF s \/ s = asset) /\
    (* the fee goes to the collector and nobody else's balance moves *)
    (forall x s, x <> SELF -> x <> sender ->
       s_bal st' x s = s_bal st x s + if (x =? c_collector c) && (s =? c_fee_asset c) then c_fee c else 0).
Proof.
  intros Hc [Hs [Hfw Hamt]] HI Hstep. cbn [step] in Hstep.
  apply call_ok in Hstep as [st1 [ms [Eh [Hbal Est]]]].
  destruct (open_flow_spec _ _ _ _ _ _ _ _ _ _ _ _ Eh Hs Hc Hfw) as [f [E1 [Fid [Fcl [Fh [Fcr [Fas [_ [_ [_ [Fnn [M1 [M2 M3]]]]]]]]]]]]].
  assert (Habs : ~ In (f_id f) (map f_id (s_flows st))).
  { intros Hin. apply in_map_iff in Hin as [g [Eg Hg]]. pose proof (proj1 (Forall_forall _ _) (inv_ctr _ _ HI) g Hg) as Hle. cbn in Hle. lia. }
  exists f. rewrite Est, E1. cbn [s_flows s_bal with_bal with_flows].
  split; [unfold flows_save; rewrite flows_remove_absent by exact Habs; reflexivity|].
  repeat (split; [assumption|]).
  split; [rewrite Hbal, fdelta_self by assumption; rewrite flow_funded_hist, Fh; cbn; lia|].
  split.
  - intros s. destruct (Z.eq_dec s asset) as [->|Hne]; [right; reflexivity|left].
    rewrite Hbal, fdelta_self by assumption. specialize (M2 s Hne). lia.
  - intros x s Hx1 Hx2. rewrite Hbal, fdelta_other, M3 by assumption. lia.
Qed.

Theorem expand_funds c st sender fs al x eo asset amount st' :
  cfg_wf c -> op_wf (ExpandFlow sender fs al x eo asset amount) -> Inv c st ->
  step v_fixed c st (ExpandFlow sender fs al x eo asset amount) = Ok st' ->
  exists f f2,
    find_flow x (s_flows st) = Some f /\ f_asset f = asset /\
    s_flows st' = flows_insert f2 (flows_remove (f_start f) (f_id f) (s_flows st)) /\
    f_id f2 = f_id f /\ f_creator f2 = f_creator f /\ f_asset f2 = asset /\
    (* funded - claimed grows by exactly what the contract received *)
    flow_out f2 = flow_out f + amount /\
    s_bal st' SELF asset = s_bal st SELF asset + amount /\
    (forall s, s_bal st SELF s <= s_bal st' SELF s) /\
    (forall x s, x <> SELF -> x <> sender -> s_bal st' x s = s_bal st x s).
Proof.
  intros Hc [Hs [Hfw Hamt]] HI Hstep. cbn [step] in Hstep.
  apply call_ok in Hstep as [st1 [ms [Eh [Hbal Est]]]].
  destruct (expand_flow_spec _ _ _ _ _ _ _ _ _ _ _ Eh HI Hs Hfw) as [f [f2 [Ef [Hin [Fas [Fid [_ [Fcr [Fas2 [Fout [Fcl [Fh [E1 [M1 [M2 M3]]]]]]]]]]]]]]].
  exists f, f2. rewrite Est, E1. cbn [s_flows s_bal with_bal with_flows].
  repeat (split; [first [assumption | reflexivity]|]).
  split; [rewrite Hbal, fdelta_self by assumption; lia|].
  split.
  - intros s. rewrite Hbal, fdelta_self by assumption. destruct (Z.eq_dec s asset) as [->|Hne]; [lia|]. specialize (M2 s Hne). lia.
  - intros y s Hy1 Hy2. rewrite Hbal, fdelta_other, M3 by assumption. lia.
Qed.

Theorem close_returns c st sender x st' :
  cfg_wf c -> sender <> SELF -> Inv c st ->
  step v_fixed c st (CloseFlow sender x) = Ok st' ->
  exists f,
    find_flow x (s_flows st) = Some f /\
    (sender = f_creator f \/ sender = c_owner c) /\
    s_flows st' = flows_remove (f_start f) (f_id f) (s_flows st) /\
    ~ In (f_id f) (map f_id (s_flows st')) /\
    (forall a, flows_out a (s_flows st') = flows_out a (s_flows st) - fout a f) /\
    (* the creator receives funded - claimed, out of the contract's balance; nobody else's balance moves *)
    s_bal st' (f_creator f) (f_asset f) = s_bal st (f_creator f) (f_asset f) + (flow_funded f - f_claimed f) /\
    s_bal st' SELF (f_asset f) = s_bal st SELF (f_asset f) - (flow_funded f - f_claimed f) /\
    (forall y s, (y <> SELF /\ y <> f_creator f) \/ s <> f_asset f -> s_bal st' y s = s_bal st y s).
Proof.
  intros Hc Hs HI Hstep. cbn [step] in Hstep.
  apply call_ok in Hstep as [st1 [ms [Eh [Hbal Est]]]].
  destruct (close_flow_spec _ _ _ _ _ _ Eh) as [f [Ef [Hin [Hauth [E1 Ems]]]]].
  pose proof (proj1 (Forall_forall _ _) (inv_claimed _ _ HI) f Hin) as Hcl. cbn in Hcl.
  pose proof (proj1 (Forall_forall _ _) (inv_creator _ _ HI) f Hin) as Hcr. cbn in Hcr.
  exists f. rewrite Est, E1. cbn [s_flows s_bal with_bal with_flows].
  split; [assumption|]. split; [destruct Hauth; auto|]. split; [reflexivity|].
  split; [apply (flows_remove_out 0 f); [assumption|exact (inv_ids _ _ HI)]|].
  split; [intros a; apply (flows_remove_out a f); [assumption|exact (inv_ids _ _ HI)]|].
  rewrite Ems in Hbal. cbn [fdelta msdelta mdelta] in Hbal. unfold tdelta in Hbal. rewrite ssub_le in Hbal by lia.
  split; [|split].
  - rewrite Hbal, !Z.eqb_refl. destruct (f_creator f =? SELF) eqn:E; [apply Z.eqb_eq in E; congruence|]. lia.
  - rewrite Hbal, !Z.eqb_refl. destruct (SELF =? f_creator f) eqn:E; [apply Z.eqb_eq in E; congruence|]. lia.
  - intros y s Hy. rewrite Hbal. destruct (s =? f_asset f) eqn:E; [|lia]. apply Z.eqb_eq in E.
    destruct Hy as [[Hy1 Hy2]|Hy]; [|congruence].
    destruct (y =? f_creator f) eqn:E8; [apply Z.eqb_eq in E8; congruence|].
    destruct (y =? SELF) eqn:E9; [apply Z.eqb_eq in E9; congruence|]. lia.
Qed.

Theorem close_auth c st sender x f :
  find_flow x (s_flows st) = Some f -> sender <> f_creator f -> sender <> c_owner c ->
  forall v, step v c st (CloseFlow sender x) = Err E_UNAUTH.
Proof.
  intros Ef H1 H2 v. cbn [step]. unfold call. cbn [attach bind]. unfold close_flow. rewrite Ef.
  destruct (f_creator f =? sender) eqn:E1; [apply Z.eqb_eq in E1; congruence|].
  destruct (sender =? c_owner c) eqn:E2; [apply Z.eqb_eq in E2; congruence|]. reflexivity.
Qed.

Theorem claim_conserves c st sender st' :
  sender <> SELF -> step v_fixed c st (Claim sender) = Ok st' ->
  Forall2 (fun f g => same_frame f g /\ flow_funded g = flow_funded f) (s_flows st) (s_flows st') /\
  (forall a, s_bal st SELF a - s_bal st' SELF a = flows_out a (s_flows st) - flows_out a (s_flows st')) /\
  (forall a, s_bal st' sender a - s_bal st sender a = flows_out a (s_flows st) - flows_out a (s_flows st')) /\
  (forall y a, y <> SELF -> y <> sender -> s_bal st' y a = s_bal st y a).
Proof.
  intros Hs Hstep. cbn [step] in Hstep.
  apply call_ok in Hstep as [st1 [ms [Eh [Hbal Est]]]].
  destruct (claim_spec _ _ _ _ _ Eh) as [fl' [HR [E1 [E2 [E3 [E4 [E5 [E6 [_ [_ [_ Hms]]]]]]]]]]].
  rewrite Est. cbn [s_flows s_bal with_bal]. rewrite E1.
  split.
  { clear -HR. induction HR as [|f g l l' [R _] _ IH]; constructor; [|assumption]. split; [assumption|apply same_frame_funded; assumption]. }
  unfold ind in Hms.
  split; [|split].
  - intros a. rewrite Hbal, Hms. cbn [fdelta]. rewrite Z.eqb_refl.
    destruct (SELF =? sender) eqn:E; [apply Z.eqb_eq in E; congruence|]. lia.
  - intros a. rewrite Hbal, Hms. cbn [fdelta]. rewrite Z.eqb_refl.
    destruct (sender =? SELF) eqn:E; [apply Z.eqb_eq in E; congruence|]. lia.
  - intros y a Hy1 Hy2. rewrite Hbal, Hms. cbn [fdelta].
    destruct (y =? sender) eqn:E8; [apply Z.eqb_eq in E8; congruence|].
    destruct (y =? SELF) eqn:E9; [apply Z.eqb_eq in E9; congruence|]. lia.
Qed.

(* ---- the code as found: each missing repair refutes the statement (witnesses computed on the model; the same
        histories are replayed on the real contracts by the harness corpus) ------------------------------------------- *)
Definition b0 : Z -> Z -> Z := fun acct _ => if (0 <=? acct) && (acct <=? 4) then 1000000000000 else 0.
Definition cfg0 (lp fee_asset : Z) : cfg := mkCfg lp fee_asset 1000 7 14 86400 31556926 0 9.

Definition cover_at (v : ver) (c : cfg) (h : list op) : Prop :=
  let st := run_history v c (init_state 1 b0) h in
  forall a, flows_out a (s_flows st) + (if a =? c_lp c then staked st else 0) <= s_bal st SELF a.

Ltac wf_op := cbn; repeat split; try discriminate; try lia; repeat (constructor; cbn; try lia; try tauto; try (intros [?|?]; try lia; try tauto)).
Ltac wf_history := split; [unfold cfg_wf; cbn; discriminate|];
  repeat (constructor; [cbn; repeat split; try discriminate; try lia; repeat (constructor; cbn; try lia; try tauto; try (intros [?|?]; try lia; try tauto))|]); try constructor.

(* (i) open_flow without the equality check: 501000 declared, only the 1000 fee sent *)
Definition v_no_open_eq : ver := mkVer false true true true true true true true true.
Definition h_open_unfunded : list op :=
  [OpenFlow 2 [(0, 1001000)] [] None None 0 1001000 None;
   OpenFlow 1 [(0, 1000)] [] None None 0 501000 None].
Theorem open_funds_refuted :
  exists c h, well_formed c h /\ ~ cover_at v_no_open_eq c h.
Proof.
  exists (cfg0 10 0), h_open_unfunded. split; [wf_history|].
  intros H. specialize (H 0). vm_compute in H. apply H. reflexivity.
Qed.

(* (ii) close_flow ignoring the expansion: 1000000 + 300000 funded, 1000000 returned *)
Definition v_no_close_hist : ver := mkVer true false true true true true true true true.
Definition h_expanded : list op :=
  [OpenFlow 1 [(0, 1000); (1, 1000000)] [] None None 1 1000000 None;
   ExpandFlow 3 [(1, 300000)] [] (ById 1) None 1 300000].
Theorem close_returns_refuted :
  exists c h f st',
    well_formed c h /\
    let st := run_history v_no_close_hist c (init_state 1 b0) h in
    find_flow (ById 1) (s_flows st) = Some f /\ step v_no_close_hist c st (CloseFlow 1 (ById 1)) = Ok st' /\
    s_bal st' (f_creator f) (f_asset f) < s_bal st (f_creator f) (f_asset f) + (flow_funded f - f_claimed f).
Proof.
  exists (cfg0 10 0), h_expanded.
  eexists. eexists. split; [wf_history|]. cbn zeta. split; [vm_compute; reflexivity|]. split; [vm_compute; reflexivity|].
  vm_compute. reflexivity.
Qed.

(* (iii) reset with an empty asset history taking the expansion amount as the flow amount *)
Definition v_no_reset_own : ver := mkVer true true false true true true true true true.
Definition h_reset : list op :=
  [OpenFlow 2 [(0, 1000); (1, 5000000)] [] None None 1 5000000 None;
   OpenFlow 1 [(0, 1000); (1, 1000)] [] None (Some 190) 1 1000 None;
   ExpandFlow 1 [(1, 1000000)] [] (ById 2) None 1 1000000].
Theorem reset_refuted :
  exists c h, well_formed c h /\ ~ cover_at v_no_reset_own c h.
Proof.
  exists (cfg0 3 0), h_reset. split; [wf_history|].
  intros H. specialize (H 1). vm_compute in H. apply H. reflexivity.
Qed.

(* (iv) expand_flow dropping its cw20 TransferFrom *)
Definition v_no_expand_pull : ver := mkVer true true true true false true true true true.
Definition h_expand_cw20 : list op :=
  [OpenFlow 1 [(0, 1000)] [(11, 1000000)] None None 11 1000000 None;
   ExpandFlow 4 [] [(11, 333333)] (ById 1) None 11 333333].
Theorem expand_cw20_refuted :
  exists c h, well_formed c h /\ ~ cover_at v_no_expand_pull c h.
Proof.
  exists (cfg0 3 0), h_expand_cw20. split; [wf_history|].
  intros H. specialize (H 11). vm_compute in H. apply H. reflexivity.
Qed.

(* the same four histories are harmless on the repaired code (they are rejected or fully funded) *)
Lemma witnesses_fixed :
  cover_at v_fixed (cfg0 10 0) h_open_unfunded /\ cover_at v_fixed (cfg0 3 0) h_reset /\ cover_at v_fixed (cfg0 3 0) h_expand_cw20.
Proof.
  repeat split; unfold cover_at; cbn zeta; intros a; apply (flow_cover _ _ 1 b0); try wf_history; intros; unfold b0; cbn; lia.
Qed.

(* ---- non-vacuity material: a history with flows in three assets, expansions, claims and a close --------------------- *)
Definition h_rich : list op :=
  [OpenFlow 1 [(0, 1000)] [(11, 1001000)] None (Some 6) 11 1001000 None;
   OpenFlow 2 [(0, 501000)] [] None None 0 501000 (Some 7);
   OpenPosition 2 [(3, 5000)] [] 5000 86400 None;
   OpenPosition 3 [(3, 7000)] [] 7000 15778463 None;
   NewEpoch; Snapshot; Claim 2;
   ExpandFlow 4 [] [(11, 333333)] (ById 1) None 11 333333;
   NewEpoch; Snapshot; Claim 3; Claim 2].
