(* Stable3Proofs.v — facts about the transcription of curve.rs (Stable3.v). *)
From WW Require Import Prim Params Amp CPSwap Stable3.
From WW.Proofs Require Import ArithLemmas MonadLemmas.

(* the literals 3 / 4 of the model are N_COINS / N_COINS + 1 of curve.rs *)
Lemma n_coins_is_3 : Params.TRIO_N_COINS = 3. Proof. reflexivity. Qed.
Lemma y_fuel_pos : exists f, Y_FUEL = S f.
Proof. exists (Z.to_nat (Params.TRIO_Y_ITERATIONS - 1)). unfold Y_FUEL. rewrite <- Z2Nat.inj_succ by (vm_compute; discriminate). reflexivity. Qed.
Lemma d_fuel_pos : exists f, D_FUEL = S f.
Proof. exists (Z.to_nat (Params.TRIO_D_ITERATIONS - 1)). unfold D_FUEL. rewrite <- Z2Nat.inj_succ by (vm_compute; discriminate). reflexivity. Qed.

(* keep the iteration bounds folded during unification (the loops are never unrolled in proofs) *)
#[local] Opaque D_FUEL Y_FUEL.

(* ---- one Newton step for y: post-condition, whatever the iterate ------------------------------- *)
(* y' = floor((t^2 + c) / (2t + b - d))  ==>  (y'+1)^2 + (b-d)(y'+1) > c   [ = (y'+1-t)^2 + slack ] *)
Lemma y_step_post b c d t y' : y_step b c d t = Ok y' ->
  (y' + 1) * (y' + 1) + (b - d) * (y' + 1) > c.
Proof.
  unfold y_step. intros H. repeat bind_inv H. prim_inv. subst.
  set (den := t * 2 + b - d) in *.
  assert (Hden : 0 < den) by lia.
  set (num := t * t + c) in *.
  pose proof (Z.mul_succ_div_gt num den Hden) as G. unfold Z.succ in G.
  set (v := num / den + 1) in *.
  pose proof (Z.square_nonneg (v - t)) as SQ.
  replace (b - d) with (den - 2 * t) by (unfold den; lia).
  unfold num in G. nia.
Qed.

Definition y_post (b c d y : Z) : Prop := (y + 1) * (y + 1) + (b - d) * (y + 1) > c.

Lemma y_loop_post b c d : forall fuel y0 y, y_loop fuel b c d y0 = Ok y -> y = y0 \/ y_post b c d y.
Proof.
  induction fuel as [|f IH]; intros y0 y H; cbn [y_loop] in H.
  - inversion H; auto.
  - bind_inv H. destruct (close1 v y0).
    + inversion H; subst. right. eapply y_step_post; eauto.
    + destruct (IH _ _ H) as [->|P]; [|auto]. right. eapply y_step_post; eauto.
Qed.

Lemma y_loop_post_S b c d f y0 y : y_loop (S f) b c d y0 = Ok y -> y_post b c d y.
Proof.
  cbn [y_loop]. intros H. bind_inv H. destruct (close1 v y0).
  - inversion H; subst. eapply y_step_post; eauto.
  - destruct (y_loop_post b c d _ _ _ H) as [->|P]; [|auto]. eapply y_step_post; eauto.
Qed.

(* results of y steps are non-negative when c >= 0 *)
Lemma y_step_nonneg b c d t y' : y_step b c d t = Ok y' -> 0 <= y'.
Proof.
  unfold y_step. intros H. repeat bind_inv H. prim_inv. subst.
  apply Z.div_pos; lia.
Qed.

Lemma y_loop_nonneg b c d : forall fuel y0 y, 0 <= y0 -> y_loop fuel b c d y0 = Ok y -> 0 <= y.
Proof.
  induction fuel as [|f IH]; intros y0 y H0 H; cbn [y_loop] in H.
  - inversion H; subst; auto.
  - bind_inv H. pose proof (y_step_nonneg _ _ _ _ _ E). destruct (close1 v y0); [inversion H; subst; auto|eauto].
Qed.

(* ---- truncation of the quadratic's coefficients: closed bounds ---------------------------------- *)
(* with X = 3*swap_in, U = 3*no_swap, A = 3*ann:  X*U*A*c <= d^4 < X*U*A*(c+1) + X*U*d + X*d^2
   and  ann*(b - swap_in - no_swap) <= d < ann*(b - swap_in - no_swap + 1) *)
Lemma y_coeffs_bounds ann x u d b c : y_coeffs ann x u d = Ok (b, c) -> 0 <= d -> 0 <= x -> 0 <= u -> 0 <= ann ->
  let X := 3 * x in let U := 3 * u in let A := 3 * ann in
  0 < X /\ 0 < U /\ 0 < A /\ 0 <= c /\
  X * U * A * c <= d * d * d * d /\
  d * d * d * d < X * U * A * (c + 1) + X * U * d + X * d * d /\
  ann * (b - x - u) <= d < ann * (b - x - u + 1).
Proof.
  intros H Hd Hx Hu Ha X U A. unfold y_coeffs in H. repeat bind_inv H. inversion H; subst; clear H. prim_inv. subst.
  assert (HX : 0 < X) by (unfold X; lia). assert (HU : 0 < U) by (unfold U; lia). assert (HA : 0 < A) by (unfold A; lia).
  replace (x * 3) with X in * by (unfold X; lia). replace (u * 3) with U in * by (unfold U; lia).
  replace (ann * 3) with A in * by (unfold A; lia).
  set (c1 := d * d / X) in *.
  set (c2 := c1 * d / U) in *.
  set (c3 := c2 * d / A) in *.
  pose proof (Z.mul_div_le (d * d) X HX) as L1. pose proof (Z.mul_succ_div_gt (d * d) X HX) as G1.
  pose proof (Z.mul_div_le (c1 * d) U HU) as L2. pose proof (Z.mul_succ_div_gt (c1 * d) U HU) as G2.
  pose proof (Z.mul_div_le (c2 * d) A HA) as L3. pose proof (Z.mul_succ_div_gt (c2 * d) A HA) as G3.
  fold c1 in L1, G1. fold c2 in L2, G2. fold c3 in L3, G3. unfold Z.succ in *.
  assert (N1 : 0 <= c1) by (apply Z.div_pos; nia).
  assert (N2 : 0 <= c2) by (apply Z.div_pos; nia).
  assert (N3 : 0 <= c3) by (apply Z.div_pos; nia).
  assert (Hann : 0 < ann) by lia.
  pose proof (Z.mul_div_le d ann Hann) as LB. pose proof (Z.mul_succ_div_gt d ann Hann) as GB. unfold Z.succ in GB.
  repeat split; try lia.
  - (* X U A c3 <= d^4 *)
    assert (S1 : U * A * c3 <= U * (c2 * d)) by nia.
    assert (S2 : U * (c2 * d) <= c1 * d * d) by nia.
    assert (S3 : X * (c1 * d * d) <= d * d * (d * d)) by nia.
    nia.
  - (* d^4 < X U A (c3+1) + X U d + X d^2 *)
    assert (T1 : d * d * (d * d) < X * (c1 + 1) * (d * d) \/ d = 0) by (destruct (Z.eq_dec d 0); [auto|left; nia]).
    destruct T1 as [T1| ->]; [|nia].
    assert (T2 : X * d * (c1 * d) < X * d * (U * (c2 + 1)) \/ d = 0) by (destruct (Z.eq_dec d 0); [auto|left; nia]).
    destruct T2 as [T2| ->]; [|nia].
    assert (T3 : X * U * (c2 * d) < X * U * (A * (c3 + 1))) by nia.
    nia.
Qed.

(* ---- compute_d is non-negative -------------------------------------------------------------------- *)
Lemma compute_next_d_nonneg amp d p s v : compute_next_d amp d p s = Ok v -> 0 <= v.
Proof.
  unfold compute_next_d. intros H. repeat bind_inv H. prim_inv. subst. apply Z.div_pos; lia.
Qed.
Lemma d_step_nonneg amp a3 b3 c3 s d v : d_step amp a3 b3 c3 s d = Ok v -> 0 <= v.
Proof.
  unfold d_step. intros H. repeat bind_inv H. prim_inv. eapply compute_next_d_nonneg; eauto.
Qed.
Lemma d_loop_nonneg amp a3 b3 c3 s : forall fuel d v, 0 <= d -> d_loop fuel amp a3 b3 c3 s d = Ok v -> 0 <= v.
Proof.
  induction fuel as [|f IH]; intros d v Hd H; cbn [d_loop] in H.
  - inversion H; subst; auto.
  - bind_inv H. pose proof (d_step_nonneg _ _ _ _ _ _ _ E). destruct (close1 v0 d).
    + inversion H; subst; auto.
    + eapply IH; eauto.
Qed.
Lemma compute_d_nonneg r a b c v : compute_d r a b c = Ok v -> 0 <= v.
Proof.
  unfold compute_d. generalize D_FUEL. intros fuel. unfold compute_d_fuel. intros H. do 2 bind_inv H. prim_inv.
  destruct (v1 =? 0). { inversion H; subst; lia. }
  do 4 bind_inv H. eapply d_loop_nonneg; [|eauto]. lia.
Qed.

(* ---- swap_to ----------------------------------------------------------------------------------- *)
(* what a successful swap_to did: the reserve it leaves is y+1 for a y that came out of a Newton step on the code's quadratic *)
Lemma swap_to_spec r amount src dst uns res : swap_to r amount src dst uns = Ok res ->
  exists d amp b c y,
    compute_d r src dst uns = Ok d /\ compute_amp_factor r = Ok amp /\
    y_coeffs (amp * 3) (src + amount) uns d = Ok (b, c) /\
    new_src res = src + amount /\ new_dst res = y + 1 /\ swapped res = dst - y - 1 /\
    0 <= y /\ 0 <= swapped res /\ new_dst res + swapped res = dst /\
    y_post b c d y.
Proof.
  unfold swap_to. intros H. do 7 bind_inv H. inversion H; subst; clear H. prim_inv. subst.
  unfold compute_y in E1. bind_inv E1. destruct (fits128 v) eqn:F; [|discriminate]. inversion E1; subst; clear E1.
  unfold compute_y_raw, compute_y_raw_fuel in E. do 3 bind_inv E. prim_inv. subst.
  destruct v3 as [b c]. cbn [fst snd] in E.
  destruct y_fuel_pos as (f & HF). rewrite HF in E.
  exists v0, v, b, c, v1. cbn [new_src new_dst swapped].
  assert (P : y_post b c v0 v1) by (eapply y_loop_post_S; eauto).
  assert (N : 0 <= v1).
  { eapply y_loop_nonneg; [|exact E]. eapply compute_d_nonneg; eauto. }
  repeat split; auto; try lia.
Qed.

(* the link from the code's quadratic to the exact invariant polynomial (for D = the code's D):
   with X = 3(src+amount), U = 3*uns, ann = 3*amp, v = the reserve kept,
     X U (3 ann) v^2 + X U (3 ann) (x + u - D) v + 3 X U D v  +  [ X U D + X D^2 ]  >  D^4
   i.e. the exact curve equation  ann*27xu*v^2 + (ann(x+u) - (ann-1)D)*27xu*v >= D^4  holds up to the bracketed slack,
   which is worth at most 1/3 + D/(9u) base units of v. *)
Lemma swap_to_exact_curve_partial r amount src dst uns res :
  swap_to r amount src dst uns = Ok res -> 0 <= src -> 0 <= amount -> 0 <= uns ->
  exists d amp, compute_d r src dst uns = Ok d /\ compute_amp_factor r = Ok amp /\
    let x := src + amount in let ann := amp * 3 in let v := new_dst res in
    let X := 3 * x in let U := 3 * uns in let A := 3 * ann in
    X * U * A * (v * v) + X * U * A * ((x + uns - d) * v) + 3 * X * U * (d * v) + (X * U * d + X * d * d) > d * d * d * d.
Proof.
  intros H Hs Ha Hu. destruct (swap_to_spec _ _ _ _ _ _ H) as (d & amp & b & c & y & ED & EA & EC & _ & Hv & _ & Hy & _ & _ & P).
  exists d, amp. split; [auto|]. split; [auto|]. cbv zeta. rewrite Hv.
  pose proof (compute_d_nonneg _ _ _ _ _ ED) as Hd.
  assert (Hann : 0 <= amp * 3).
  { unfold y_coeffs in EC. repeat bind_inv EC. prim_inv. lia. }
  destruct (y_coeffs_bounds _ _ _ _ _ _ EC Hd ltac:(lia) Hu Hann) as (HX & HU & HA & Hc & CL & CU & BL & BU).
  cbv zeta in *. unfold y_post in P.
  set (x := src + amount) in *. set (ann := amp * 3) in *. set (v := y + 1) in *.
  set (X := 3 * x) in *. set (U := 3 * uns) in *. set (A := 3 * ann) in *.
  assert (Hv0 : 0 < v) by (unfold v; lia).
  (* P : v*v + (b-d)*v > c, integers: >= c+1 *)
  assert (P1 : X * U * A * (v * v + (b - d) * v) >= X * U * A * (c + 1)) by nia.
  (* b <= x + u + d/ann : A*(b - x - u) <= 3 d *)
  assert (B1 : A * (b - x - uns) <= 3 * d) by (unfold A; lia).
  assert (B2 : X * U * (A * (b - x - uns)) * v <= X * U * (3 * d) * v) by nia.
  nia.
Qed.

(* ---- helpers::compute_swap: proceeds + fees = curve output --------------------------------------- *)
Lemma to128_ok z v : to128 z = Ok v -> v = z /\ 0 <= z < P128.
Proof. unfold to128, fits128. destruct (fits P128 z) eqn:E; intros H; inversion H; subst. apply fits_true in E. auto. Qed.

Lemma compute_swap3_spec r op ask uns x f s : compute_swap3 r op ask uns x f = Ok s ->
  exists res, swap_to r x op ask uns = Ok res /\
    s_ret s + s_swapfee s + s_protfee s + s_burnfee s = swapped res /\
    s_swapfee s = swapped res * f_swap f / DEC /\
    s_protfee s = swapped res * f_protocol f / DEC /\
    s_burnfee s = swapped res * f_burn f / DEC /\
    0 <= s_ret s /\ s_spread s = Z.abs (x - swapped res).
Proof.
  unfold compute_swap3, fee_compute. intros H. do 12 bind_inv H. inversion H; subst; clear H.
  repeat match goal with H : to128 _ = Ok _ |- _ => apply to128_ok in H as [? ?] end.
  prim_inv. subst. exists v. cbn [s_ret s_spread s_swapfee s_protfee s_burnfee].
  repeat split; auto; try lia.
  destruct (swapped v <? x) eqn:C; [apply Z.ltb_lt in C|apply Z.ltb_ge in C]; lia.
Qed.

(* ---- deposit: the pool's own invariant per LP token never falls ----------------------------------- *)
Lemma compute_mint_spec r da db dc sa sb sc supply m : compute_mint r da db dc sa sb sc supply = Ok m -> 0 <= supply ->
  exists d0 d1, compute_d r sa sb sc = Ok d0 /\ compute_d r (sa + da) (sb + db) (sc + dc) = Ok d1 /\
    0 < d0 < d1 /\ m = supply * (d1 - d0) / d0 /\ 0 <= m /\
    (supply + m) * d0 <= supply * d1.
Proof.
  unfold compute_mint. intros H HS.
  apply bind_ok in H as (d0 & E0 & H). apply bind_ok in H as (na & Ea & H). apply bind_ok in H as (nb & Eb & H).
  apply bind_ok in H as (nc & Ec & H). apply bind_ok in H as (d1 & E1 & H). prim_inv. subst.
  destruct (d1 <=? d0) eqn:C; [discriminate|]. apply Z.leb_gt in C.
  apply bind_ok in H as (diff & Ed & H). apply bind_ok in H as (mm & Em & H). apply bind_ok in H as (q & Eq & H).
  destruct (fits128 q) eqn:F; [|discriminate]. inversion H; subst; clear H. prim_inv. subst.
  pose proof (compute_d_nonneg _ _ _ _ _ E0) as N0.
  exists d0, d1. repeat split; auto; try lia.
  - apply Z.div_pos; nia.
  - assert (P0 : 0 < d0) by lia. pose proof (Z.mul_div_le (supply * (d1 - d0)) d0 P0). nia.
Qed.

(* ---- pool selection: a bijection between ordered pairs of distinct pool assets and role assignments ----- *)
Definition third (i j : Z) : Z := 3 - i - j.
Definition nth3 {A} (i : Z) (p0 p1 p2 : A) : A := if i =? 0 then p0 else if i =? 1 then p1 else p2.

Lemma select_pools_spec {A} (offer ask : Z) (p0 p1 p2 : A) :
  (0 <= offer <= 2 /\ 0 <= ask <= 2 /\ offer <> ask ->
     select_pools offer ask p0 p1 p2 = Ok (nth3 offer p0 p1 p2, nth3 ask p0 p1 p2, nth3 (third offer ask) p0 p1 p2)) /\
  (~ (0 <= offer <= 2 /\ 0 <= ask <= 2 /\ offer <> ask) -> select_pools offer ask p0 p1 p2 = Err E_OTHER).
Proof.
  split.
  - intros (Ho & Ha & Hne).
    assert (C : (offer = 0 \/ offer = 1 \/ offer = 2) /\ (ask = 0 \/ ask = 1 \/ ask = 2)) by lia.
    destruct C as [[-> | [-> | ->]] [-> | [-> | ->]]]; try lia; reflexivity.
  - intros N. unfold select_pools.
    destruct (ask =? 0) eqn:A0; [apply Z.eqb_eq in A0; subst|].
    { destruct (offer =? 1) eqn:O1; [apply Z.eqb_eq in O1; subst; exfalso; apply N; lia|].
      destruct (offer =? 2) eqn:O2; [apply Z.eqb_eq in O2; subst; exfalso; apply N; lia|]. reflexivity. }
    destruct (ask =? 1) eqn:A1; [apply Z.eqb_eq in A1; subst|].
    { destruct (offer =? 0) eqn:O1; [apply Z.eqb_eq in O1; subst; exfalso; apply N; lia|].
      destruct (offer =? 2) eqn:O2; [apply Z.eqb_eq in O2; subst; exfalso; apply N; lia|]. reflexivity. }
    destruct (ask =? 2) eqn:A2; [apply Z.eqb_eq in A2; subst|reflexivity].
    { destruct (offer =? 0) eqn:O1; [apply Z.eqb_eq in O1; subst; exfalso; apply N; lia|].
      destruct (offer =? 1) eqn:O2; [apply Z.eqb_eq in O2; subst; exfalso; apply N; lia|]. reflexivity. }
Qed.

(* the six accepted (offer, ask) pairs yield six different role assignments, each a permutation of the three pools *)
Lemma select_pools_bijection :
  let pairs := [(0,1);(0,2);(1,0);(1,2);(2,0);(2,1)] in
  map (fun p => select_pools (fst p) (snd p) 0 1 2) pairs =
    [Ok (0,1,2); Ok (0,2,1); Ok (1,0,2); Ok (1,2,0); Ok (2,0,1); Ok (2,1,0)].
Proof. reflexivity. Qed.

(* ---- the strict exact-curve clauses are refuted by rounding dust (faithful model; replayed on the real code) ---- *)
Definition flat (a : Z) : ramp := mkRamp a a 12345 12345 12345.
(* amp 1, reserves (1066000000, 709000000, 729000000): 2132000000 of asset 0 -> asset 2 and straight back returns one unit more *)
Lemma roundtrip_refuted :
  exists res back, swap_to (flat 1) 2132000000 1066000000 729000000 709000000 = Ok res /\
    swap_to (flat 1) (swapped res) (new_dst res) (new_src res) 709000000 = Ok back /\
    swapped back = 2132000001.
Proof. eexists. eexists. split; [vm_compute; reflexivity|]. split; vm_compute; reflexivity. Qed.
(* amp 10, reserves (98406000000, 606646000000, 877641000000): 1 unit of asset 1 -> asset 2 and back returns 2 *)
Lemma roundtrip_refuted_small :
  exists res back, swap_to (flat 10) 1 606646000000 877641000000 98406000000 = Ok res /\
    swap_to (flat 10) (swapped res) (new_dst res) (new_src res) 98406000000 = Ok back /\
    swapped back = 2.
Proof. eexists. eexists. split; [vm_compute; reflexivity|]. split; vm_compute; reflexivity. Qed.

(* ---- the exact invariant, as an integer predicate ------------------------------------------------------- *)
(* D is not above the exact invariant of reserves (x0,x1,x2) at ann = 3*amp:  D^4/(27 x0 x1 x2) + (ann-1) D <= ann (x0+x1+x2) *)
Definition inv_le (ann x0 x1 x2 D : Z) : Prop :=
  D * D * D * D + (ann - 1) * D * (27 * x0 * x1 * x2) <= ann * (x0 + x1 + x2) * (27 * x0 * x1 * x2).
Definition inv_leb (ann x0 x1 x2 D : Z) : bool :=
  D * D * D * D + (ann - 1) * D * (27 * x0 * x1 * x2) <=? ann * (x0 + x1 + x2) * (27 * x0 * x1 * x2).

(* amp 2, reserves (15924, 18988, 6363): D = 39835 is below the exact invariant before a swap of 5189 and above it afterwards *)
Lemma exact_invariant_monotone_refuted :
  exists res, swap_to (flat 2) 5189 15924 18988 6363 = Ok res /\
    inv_leb 6 15924 18988 6363 39835 = true /\ inv_leb 6 (new_src res) (new_dst res) 6363 39835 = false.
Proof. eexists. split; [vm_compute; reflexivity|]. split; vm_compute; reflexivity. Qed.
