(* EpochsProofs.v — the epoch clocks (Epochs.v): never early, one id at a time, start = previous start + duration
   (genesis for the distributor's first), gap-free and strictly increasing over any schedule, hooks notified once. *)
From WW Require Import Prim Epochs.
From WW.Proofs Require Import ArithLemmas LairProofs.

Local Open Scope Z_scope.

Ltac ib H x Hx := apply bind_ok in H; destruct H as [x [Hx H]].

Lemma psub_ok a b r : psub a b = Ok r -> r = a - b /\ b <= a.
Proof. unfold psub. destruct (b <=? a) eqn:E; intro H; inversion H. apply Z.leb_le in E. lia. Qed.
Lemma padd_ok w a b r : padd w a b = Ok r -> r = a + b /\ 0 <= a + b < w.
Proof. unfold padd. destruct (fits w (a + b)) eqn:E; intro H; inversion H. apply fits_true in E. lia. Qed.

(* ================= epoch manager ================= *)
Section Manager.
Variable d : Z.     (* epoch_config.duration *)

Lemma mcreate_ok now s bad s' msgs :
  mcreate d now s bad = Ok (s', msgs) ->
  e_id (m_epoch s') = e_id (m_epoch s) + 1 /\
  e_start (m_epoch s') = e_start (m_epoch s) + d /\
  e_start (m_epoch s) + d <= now /\
  m_hooks s' = m_hooks s /\
  msgs = map (fun h => (h, m_epoch s')) (m_hooks s) /\
  (forall h, In h (m_hooks s) -> ~ In h bad).
Proof.
  unfold mcreate. intro H.
  ib H el H1. apply psub_ok in H1 as [-> L].
  ib H u2 H2. apply ensure_ok in H2. apply negb_true_iff, Z.ltb_ge in H2.
  ib H id' H3. apply cadd_ok in H3 as [-> _].
  ib H st' H4. apply padd_ok in H4 as [-> _].
  ib H u5 Hb2. apply ensure_ok in Hb2. apply negb_true_iff in Hb2.
  inversion H; subst; clear H. cbn. repeat split; auto; try lia.
  intros h I B. assert (existsb (fun h0 => existsb (Z.eqb h0) bad) (m_hooks s) = true); [|congruence].
  apply existsb_exists. exists h. split; auto. apply existsb_exists. exists h. split; auto. apply Z.eqb_refl.
Qed.

(* an attempt before the current epoch's full duration has elapsed (this includes any time before the first
   epoch's start, where the subtraction aborts) is never accepted, whoever makes it and whatever the hooks do *)
Lemma mcreate_early now s bad :
  now - e_start (m_epoch s) < d -> failed (mcreate d now s bad).
Proof.
  intro E. unfold mcreate, psub.
  destruct (e_start (m_epoch s) <=? now) eqn:L; cbn; auto.
  assert ((now - e_start (m_epoch s) <? d) = true) as -> by (apply Z.ltb_lt; lia). cbn. auto.
Qed.

Lemma mstep_hooks_only now s o s' msgs :
  mstep d now s o = Ok (s', msgs) -> match o with MCreate _ => True | _ => m_epoch s' = m_epoch s /\ msgs = [] end.
Proof.
  destruct o; cbn; auto; intro H; ib H u1 H1; try (ib H u2 H2); inversion H; subst; auto.
Qed.

(* chain: consecutive ids, starts exactly one duration apart, never created before their start,
   each notification list duplicate-free and carrying the new epoch *)
Fixpoint mchain (id start : Z) (l : list (Z * epoch * list (Z * epoch))) : Prop :=
  match l with
  | [] => True
  | (now, e, msgs) :: r =>
      e_id e = id + 1 /\ e_start e = start + d /\ e_start e <= now /\
      NoDup (map fst msgs) /\ Forall (fun m => snd m = e) msgs /\
      mchain (id + 1) (start + d) r
  end.

Lemma remove_first_in h x l : In x (remove_first h l) -> In x l.
Proof.
  induction l as [|y r IH]; cbn; auto. destruct (y =? h); auto. intros [A|A]; auto.
Qed.
Lemma NoDup_remove_first h l : NoDup l -> NoDup (remove_first h l).
Proof.
  induction 1 as [|y r N ND IH]; cbn; [constructor|]. destruct (y =? h); auto.
  constructor; auto. intro I. apply N. eapply remove_first_in; eauto.
Qed.
Lemma remove_first_gone h l : NoDup l -> ~ In h (remove_first h l).
Proof.
  induction 1 as [|y r N ND IH]; cbn; auto. destruct (y =? h) eqn:E.
  - apply Z.eqb_eq in E; subst. auto.
  - apply Z.eqb_neq in E. intros [A|A]; auto.
Qed.
Lemma existsb_eqb_in h l : existsb (Z.eqb h) l = true <-> In h l.
Proof.
  rewrite existsb_exists. split.
  - intros [x [I E]]. apply Z.eqb_eq in E; subst; auto.
  - intro I. exists h. split; auto. apply Z.eqb_refl.
Qed.

Lemma NoDup_snoc (l : list Z) x : NoDup l -> ~ In x l -> NoDup (l ++ [x]).
Proof.
  induction 1 as [|y r N ND IH]; cbn; intro NI.
  - constructor; auto. constructor.
  - constructor.
    + intro I. apply in_app_or in I as [I|[I|[]]]; auto.
    + apply IH. auto.
Qed.

Lemma mstep_nodup now s o s' msgs : NoDup (m_hooks s) -> mstep d now s o = Ok (s', msgs) -> NoDup (m_hooks s').
Proof.
  intros N H. destruct o as [bad|admin h|admin h|admin g]; cbn [mstep] in H.
  4:{ ib H u1 H1. inversion H; subst. exact N. }
  - apply mcreate_ok in H as (_ & _ & _ & -> & _). auto.
  - ib H u1 H1. ib H u2 H2. apply ensure_ok in H2. apply negb_true_iff in H2.
    inversion H; subst; cbn. apply NoDup_snoc; auto.
    intro I. apply existsb_eqb_in in I. congruence.
  - ib H u1 H1. ib H u2 H2. inversion H; subst; cbn. apply NoDup_remove_first; auto.
Qed.

Lemma map_fst_const (e : epoch) (l : list Z) : map fst (map (fun h => (h, e)) l) = l.
Proof. induction l; cbn; congruence. Qed.

Lemma mcreated_chain h : forall s, NoDup (m_hooks s) ->
  mchain (e_id (m_epoch s)) (e_start (m_epoch s)) (mcreated d s h).
Proof.
  induction h as [|[now o] r IH]; intros s N; cbn [mcreated]; [exact I|].
  destruct (mstep d now s o) as [[s' msgs]| |] eqn:E; auto.
  pose proof (mstep_nodup _ _ _ _ _ N E) as N'.
  destruct o as [bad|admin x|admin x|admin x].
  - cbn [mstep] in E. apply mcreate_ok in E as (A & B & C & Hh & M & _).
    cbn [mchain]. repeat split; try lia.
    + subst msgs. rewrite map_fst_const. auto.
    + subst msgs. apply Forall_forall. intros m Im. apply in_map_iff in Im as [y [<- _]]. reflexivity.
    + rewrite <- A, <- B. apply IH; auto.
  - apply mstep_hooks_only in E as [Ee _]. rewrite <- Ee. apply IH; auto.
  - apply mstep_hooks_only in E as [Ee _]. rewrite <- Ee. apply IH; auto.
  - apply mstep_hooks_only in E as [Ee _]. rewrite <- Ee. apply IH; auto.
Qed.

Lemma mchain_nth l : forall id start k now e msgs,
  mchain id start l -> nth_error l k = Some (now, e, msgs) ->
  e_id e = id + Z.of_nat k + 1 /\ e_start e = start + (Z.of_nat k + 1) * d /\ e_start e <= now /\
  NoDup (map fst msgs) /\ Forall (fun m => snd m = e) msgs.
Proof.
  induction l as [|[[n0 e0] m0] r IH]; intros id start k now e msgs C H.
  - destruct k; discriminate.
  - cbn [mchain] in C. destruct C as (A & B & L & ND & FA & C).
    destruct k as [|k].
    + cbn in H. inversion H; subst. repeat split; auto; lia.
    + cbn [nth_error] in H. destruct (IH _ _ _ _ _ _ C H) as (A' & B' & L' & R).
      repeat split; try tauto; try lia.
Qed.

End Manager.

(* for every duration, every initial state and every schedule (any times, repeated attempts, any callers,
   hooks added/removed/failing in between): the k-th epoch created has id0+k+1 and starts at start0+(k+1)*duration *)
Theorem manager_epochs_exact d s0 h k now e msgs :
  NoDup (m_hooks s0) ->
  nth_error (mcreated d s0 h) k = Some (now, e, msgs) ->
  e_id e = e_id (m_epoch s0) + Z.of_nat k + 1 /\
  e_start e = e_start (m_epoch s0) + (Z.of_nat k + 1) * d /\
  e_start e <= now /\
  NoDup (map fst msgs) /\ Forall (fun m => snd m = e) msgs.
Proof. intros N H. eapply mchain_nth; eauto. apply mcreated_chain; auto. Qed.

Theorem manager_strictly_increasing d s0 h i j ni ei mi nj ej mj :
  0 < d -> NoDup (m_hooks s0) -> (i < j)%nat ->
  nth_error (mcreated d s0 h) i = Some (ni, ei, mi) ->
  nth_error (mcreated d s0 h) j = Some (nj, ej, mj) ->
  e_id ei < e_id ej /\ e_start ei < e_start ej /\
  (j = S i -> e_id ej = e_id ei + 1 /\ e_start ej = e_start ei + d).
Proof.
  intros D N L Hi Hj.
  destruct (manager_epochs_exact _ _ _ _ _ _ _ N Hi) as (A & B & _).
  destruct (manager_epochs_exact _ _ _ _ _ _ _ N Hj) as (A' & B' & _).
  repeat split; try nia.
Qed.

Theorem manager_hooks_nodup d s0 h : NoDup (m_hooks s0) -> NoDup (m_hooks (mrun d s0 h)).
Proof.
  unfold mrun. revert s0. induction h as [|e r IH]; intros s N; cbn [fold_left]; auto.
  apply IH. unfold mhstep. destruct (mstep d (fst e) s (snd e)) as [[s' m]| |] eqn:E; auto.
  eapply mstep_nodup; eauto.
Qed.

(* ---- QueryMsg::Epoch { id } agrees with history: every epoch ever created is reported, at any later point of any
   schedule, with exactly the id and start time it was created with ---- *)
Lemma mcreate_start_fits d now s bad s' msgs :
  mcreate d now s bad = Ok (s', msgs) -> 0 <= e_start (m_epoch s') < P64.
Proof.
  unfold mcreate. intro H.
  ib H el H1. ib H u2 H2. ib H id' H3. ib H st' H4. apply padd_ok in H4 as [-> F].
  ib H u5 H5. inversion H; subst; cbn. exact F.
Qed.

Lemma mstep_offset d now s o s' msgs :
  mstep d now s o = Ok (s', msgs) ->
  0 <= e_start (m_epoch s) < P64 ->
  0 <= e_start (m_epoch s') < P64 /\ ((e_id (m_epoch s') = e_id (m_epoch s) /\ e_start (m_epoch s') = e_start (m_epoch s)) \/
   (e_id (m_epoch s') = e_id (m_epoch s) + 1 /\ e_start (m_epoch s') = e_start (m_epoch s) + d)).
Proof.
  intros E F. destruct o as [bad|a x|a x|a x].
  - cbn [mstep] in E. pose proof (mcreate_start_fits _ _ _ _ _ _ E) as F'.
    apply mcreate_ok in E as (A & B & _). split; auto.
  - apply mstep_hooks_only in E as [-> _]. split; auto.
  - apply mstep_hooks_only in E as [-> _]. split; auto.
  - apply mstep_hooks_only in E as [-> _]. split; auto.
Qed.

Lemma mrun_offset d h : forall s, 0 <= e_start (m_epoch s) < P64 ->
  exists n, 0 <= n /\ e_id (m_epoch (mrun d s h)) = e_id (m_epoch s) + n /\ e_start (m_epoch (mrun d s h)) = e_start (m_epoch s) + n * d /\ 0 <= e_start (m_epoch (mrun d s h)) < P64.
Proof.
  unfold mrun. induction h as [|[now o] r IH]; intros s F; cbn [fold_left].
  - exists 0. repeat split; lia.
  - assert (Hs : mhstep d s (now, o) = match mstep d now s o with Ok (s', _) => s' | _ => s end) by reflexivity.
    rewrite Hs; clear Hs.
    destruct (mstep d now s o) as [[s' msgs]| |] eqn:E; try (apply IH; exact F).
    destruct (mstep_offset _ _ _ _ _ _ E F) as [F' [[A B]|[A B]]];
      destruct (IH s' F') as (n & N & I & S & FF).
    + exists n. rewrite I, S, A, B. repeat split; auto; lia.
    + exists (n + 1). rewrite I, S, A, B. repeat split; auto; lia.
Qed.

Lemma mquery_back d s e n :
  0 <= d -> 0 <= n -> 0 <= e_start e ->
  e_id (m_epoch s) = e_id e + n -> e_start (m_epoch s) = e_start e + n * d ->
  0 <= e_start (m_epoch s) < P64 ->
  (n = 0 -> m_epoch s = e) ->
  mquery d s (e_id e) = Ok e.
Proof.
  intros D N S0 I S F Z0. unfold mquery.
  destruct (e_id (m_epoch s) =? e_id e) eqn:Q.
  - apply Z.eqb_eq in Q. rewrite Z0; auto. lia.
  - apply Z.eqb_neq in Q.
    assert (Z.max 0 (e_id (m_epoch s) - e_id e) = n) as -> by lia.
    unfold pmul. assert (fits P64 (d * n) = true) as ->.
    { apply fits_true. nia. }
    cbn [bind]. unfold psub. assert ((d * n <=? e_start (m_epoch s)) = true) as -> by (apply Z.leb_le; nia).
    cbn [bind]. f_equal. destruct e as [i st]. cbn in *. f_equal. nia.
Qed.

Theorem manager_query_history d h : forall s0 k now e msgs,
  0 <= d -> 0 <= e_start (m_epoch s0) < P64 ->
  nth_error (mcreated d s0 h) k = Some (now, e, msgs) ->
  mquery d (mrun d s0 h) (e_id e) = Ok e.
Proof.
  induction h as [|[now0 o] r IH]; intros s0 k now e msgs D F H; cbn [mcreated] in H.
  - destruct k; discriminate.
  - unfold mrun. cbn [fold_left].
    assert (Hs : mhstep d s0 (now0, o) = match mstep d now0 s0 o with Ok (s', _) => s' | _ => s0 end) by reflexivity.
    rewrite Hs; clear Hs. fold (mrun d).
    destruct (mstep d now0 s0 o) as [[s' ms]| |] eqn:E; try (eapply IH; eauto; fail).
    destruct (mstep_offset _ _ _ _ _ _ E F) as [F' _].
    destruct o as [bad|a x|a x|a x]; try (eapply IH; eauto; fail).
    destruct k as [|k]; [|cbn [nth_error] in H; eapply IH; eauto].
    cbn [nth_error] in H. inversion H; subst; clear H.
    destruct (mrun_offset d r s' F') as (n & N & I & S & FF).
    eapply mquery_back with (n := n); eauto; try lia.
    intro Z0. subst n.
    fold (mrun d s' r). destruct (m_epoch (mrun d s' r)) as [i st], (m_epoch s') as [i' st']. cbn in *. f_equal; lia.
Qed.

(* ================= fee distributor clock ================= *)
Section Distributor.
Variables d g : Z.    (* epoch_config.duration, epoch_config.genesis_epoch *)

Definition first (cur : epoch) : bool := (e_id cur =? 0) && (e_start cur =? 0).

Lemma dcreate_ok now cur ok e' :
  dcreate d g now cur ok = Ok e' ->
  e_id e' = e_id cur + 1 /\ ok = true /\ e_start cur + d <= now /\
  (if first cur then e_start e' = g /\ g <= now else e_start e' = e_start cur + d).
Proof.
  unfold dcreate. intro H.
  ib H el H1. apply psub_ok in H1 as [-> L].
  ib H u2 H2. apply ensure_ok in H2. apply negb_true_iff, Z.ltb_ge in H2.
  ib H st' H3. ib H id' H4. apply cadd_ok in H4 as [-> _].
  ib H u5 H5. apply ensure_ok in H5. inversion H; subst; clear H. cbn.
  repeat split; auto; try lia.
  unfold first. destruct ((e_id cur =? 0) && (e_start cur =? 0)).
  - ib H3 u6 H6. apply ensure_ok in H6. apply negb_true_iff, Z.ltb_ge in H6. inversion H3; subst. lia.
  - apply padd_ok in H3 as [-> _]. reflexivity.
Qed.

Lemma dcreate_early now cur ok : now - e_start cur < d -> failed (dcreate d g now cur ok).
Proof.
  intro E. unfold dcreate, psub.
  destruct (e_start cur <=? now) eqn:L; cbn; auto.
  assert ((now - e_start cur <? d) = true) as -> by (apply Z.ltb_lt; lia). cbn. auto.
Qed.

Lemma dcreate_before_genesis now ok : now < g -> failed (dcreate d g now (mkEpoch 0 0) ok).
Proof.
  intro E. unfold dcreate, psub. cbn.
  destruct (0 <=? now); cbn; auto. destruct (now - 0 <? d); cbn; auto.
  assert ((now <? g) = true) as -> by (apply Z.ltb_lt; lia). cbn. auto.
Qed.

Fixpoint dchain (id start : Z) (l : list (Z * epoch)) : Prop :=
  match l with
  | [] => True
  | (now, e) :: r => e_id e = id + 1 /\ e_start e = start + d /\ e_start e <= now /\ dchain (id + 1) (start + d) r
  end.

Lemma dcreated_chain h : forall cur, 1 <= e_id cur -> dchain (e_id cur) (e_start cur) (dcreated d g cur h).
Proof.
  induction h as [|[now ok] r IH]; intros cur P; cbn [dcreated]; [exact I|].
  destruct (dcreate d g now cur ok) as [e'| |] eqn:E; auto.
  apply dcreate_ok in E as (A & _ & L & F).
  assert (first cur = false) as Hf by (unfold first; destruct (e_id cur =? 0) eqn:Z0; [apply Z.eqb_eq in Z0; lia | reflexivity]).
  rewrite Hf in F. cbn [dchain]. repeat split; try lia.
  rewrite <- A, <- F. apply IH. lia.
Qed.

Lemma dchain_nth l : forall id start k now e,
  dchain id start l -> nth_error l k = Some (now, e) ->
  e_id e = id + Z.of_nat k + 1 /\ e_start e = start + (Z.of_nat k + 1) * d /\ e_start e <= now.
Proof.
  induction l as [|[n0 e0] r IH]; intros id start k now e C H.
  - destruct k; discriminate.
  - cbn [dchain] in C. destruct C as (A & B & L & C). destruct k as [|k].
    + cbn in H. inversion H; subst. repeat split; auto; lia.
    + cbn [nth_error] in H. destruct (IH _ _ _ _ _ C H) as (A' & B' & L'). repeat split; lia.
Qed.

(* from an empty EPOCHS map: the k-th epoch created (k = 0, 1, ...) has id k+1 and starts at genesis + k*duration,
   never after the block it was created in; so nothing is created before genesis *)
Theorem distributor_epochs_exact h k now e :
  nth_error (dcreated d g (mkEpoch 0 0) h) k = Some (now, e) ->
  e_id e = Z.of_nat k + 1 /\ e_start e = g + Z.of_nat k * d /\ e_start e <= now.
Proof.
  revert k. induction h as [|[n0 ok] r IH]; intros k H; cbn [dcreated] in H.
  - destruct k; discriminate.
  - destruct (dcreate d g n0 (mkEpoch 0 0) ok) as [e'| |] eqn:E; auto.
    apply dcreate_ok in E as (A & _ & L & F). cbn in A, F. destruct F as [F1 F2].
    destruct k as [|k].
    + cbn in H. inversion H; subst. repeat split; lia.
    + cbn [nth_error] in H.
      assert (P : 1 <= e_id e') by lia.
      pose proof (dcreated_chain r e' P) as C.
      destruct (dchain_nth _ _ _ _ _ _ C H) as (A' & B' & L'). repeat split; try lia.
Qed.

End Distributor.

Theorem distributor_strictly_increasing d g h i j ni ei nj ej :
  0 < d -> (i < j)%nat ->
  nth_error (dcreated d g (mkEpoch 0 0) h) i = Some (ni, ei) ->
  nth_error (dcreated d g (mkEpoch 0 0) h) j = Some (nj, ej) ->
  e_id ei < e_id ej /\ e_start ei < e_start ej /\ g <= e_start ei /\
  (j = S i -> e_id ej = e_id ei + 1 /\ e_start ej = e_start ei + d).
Proof.
  intros D L Hi Hj.
  destruct (distributor_epochs_exact _ _ _ _ _ _ Hi) as (A & B & _).
  destruct (distributor_epochs_exact _ _ _ _ _ _ Hj) as (A' & B' & _).
  repeat split; try nia.
Qed.

(* ---- statements used by props/C20.v ------------------------------------------------------------ *)
Lemma failed_not_ok {A} (m : outcome A) : failed m -> forall a, m <> Ok a.
Proof. destruct m; cbn; intros F x; [contradiction | discriminate | discriminate]. Qed.

Theorem manager_early_rejected_frame d now s bad :
  now - e_start (m_epoch s) < d ->
  failed (mstep d now s (MCreate bad)) /\ mhstep d s (now, MCreate bad) = s.
Proof.
  intro E. pose proof (mcreate_early d now s bad E) as F. split; [exact F|].
  unfold mhstep. cbn [fst snd mstep]. destruct (mcreate d now s bad); cbn in F; tauto.
Qed.

Theorem manager_hooks_once d now s bad s' msgs :
  NoDup (m_hooks s) -> mstep d now s (MCreate bad) = Ok (s', msgs) ->
  map fst msgs = m_hooks s /\ NoDup (map fst msgs) /\ Forall (fun m => snd m = m_epoch s') msgs /\ m_hooks s' = m_hooks s.
Proof.
  intros N H. cbn [mstep] in H. apply mcreate_ok in H as (_ & _ & _ & Hh & M & _). subst msgs.
  rewrite map_fst_const. repeat split; auto.
  apply Forall_forall. intros m Im. apply in_map_iff in Im as [y [<- _]]. reflexivity.
Qed.

Theorem distributor_early_rejected_frame d g now cur ok :
  now - e_start cur < d ->
  failed (dcreate d g now cur ok) /\ dhstep d g cur (now, ok) = cur.
Proof.
  intro E. pose proof (dcreate_early d g now cur ok E) as F. split; [exact F|].
  unfold dhstep. cbn [fst snd]. destruct (dcreate d g now cur ok); cbn in F; tauto.
Qed.

Theorem distributor_not_before_genesis d g now ok :
  now < g -> failed (dcreate d g now (mkEpoch 0 0) ok) /\ dhstep d g (mkEpoch 0 0) (now, ok) = mkEpoch 0 0.
Proof.
  intro E. pose proof (dcreate_before_genesis d g now ok E) as F. split; [exact F|].
  unfold dhstep. cbn [fst snd]. destruct (dcreate d g now (mkEpoch 0 0) ok); cbn in F; tauto.
Qed.
