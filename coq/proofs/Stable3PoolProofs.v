(* Stable3PoolProofs.v — the pool machine of Stable3Pool.v: solvency, ledgers, conservation, over all histories. *)
From WW Require Import Prim Params Amp CPSwap Stable3 Stable3Pool.
From WW.Proofs Require Import ArithLemmas MonadLemmas Stable3Proofs.

#[local] Opaque D_FUEL Y_FUEL.

Definition sum3 (t : t3) : Z := match t with (a, b, c) => a + b + c end.
Definition le3 (t u : t3) : Prop := match t, u with (a, b, c), (x, y, z) => a <= x /\ b <= y /\ c <= z end.
Definition nonneg3 (t : t3) : Prop := le3 zero3 t.

(* ---- list helpers ---- *)
Lemma set_nth_go_length n v : forall l k, length ((fix go (k : nat) (l : list Z) := match l with [] => [] | x :: r => (if Nat.eqb k n then v else x) :: go (S k) r end) k l) = length l.
Proof. induction l as [|x l IH]; intros k; cbn; [reflexivity|]. rewrite IH. reflexivity. Qed.
Lemma set_nth_length n v l : length (set_nth n v l) = length l.
Proof. apply set_nth_go_length. Qed.

Lemma set_nth_go_sum n v : forall l k, (k <= n)%nat -> (n < k + length l)%nat ->
  sumZ ((fix go (k : nat) (l : list Z) := match l with [] => [] | x :: r => (if Nat.eqb k n then v else x) :: go (S k) r end) k l)
  = sumZ l - nth (n - k) l 0 + v.
Proof.
  induction l as [|x l IH]; intros k Hk Hn; cbn [length] in Hn; [lia|].
  cbn [sumZ]. destruct (Nat.eqb k n) eqn:E.
  - apply Nat.eqb_eq in E. subst k. replace (n - n)%nat with O by lia. cbn [nth].
    (* the rest is unchanged *)
    assert (R : forall l k, (n < k)%nat ->
      (fix go (k : nat) (l : list Z) := match l with [] => [] | x :: r => (if Nat.eqb k n then v else x) :: go (S k) r end) k l = l).
    { clear. induction l as [|y l IH]; intros k Hk; [reflexivity|].
      assert (E : Nat.eqb k n = false) by (apply Nat.eqb_neq; lia). rewrite E. rewrite IH by lia. reflexivity. }
    rewrite R by lia. cbn [sumZ]. lia.
  - apply Nat.eqb_neq in E. rewrite IH by lia.
    replace (n - k)%nat with (S (n - S k)) by lia. cbn [nth sumZ]. lia.
Qed.
Lemma set_nth_sum n v l : (n < length l)%nat -> sumZ (set_nth n v l) = sumZ l - nth n l 0 + v.
Proof. intros H. unfold set_nth. rewrite set_nth_go_sum by lia. replace (n - 0)%nat with n by lia. reflexivity. Qed.

Lemma set_nth_go_nonneg n v : 0 <= v -> forall l k, Forall (fun z => 0 <= z) l ->
  Forall (fun z => 0 <= z) ((fix go (k : nat) (l : list Z) := match l with [] => [] | x :: r => (if Nat.eqb k n then v else x) :: go (S k) r end) k l).
Proof.
  intros Hv. induction l as [|x l IH]; intros k F; [constructor|]. inversion F; subst.
  constructor; [destruct (Nat.eqb k n); auto|apply IH; auto].
Qed.
Lemma set_nth_nonneg n v l : 0 <= v -> Forall (fun z => 0 <= z) l -> Forall (fun z => 0 <= z) (set_nth n v l).
Proof. intros. apply set_nth_go_nonneg; auto. Qed.

Lemma nth_le_sum : forall l n, Forall (fun z => 0 <= z) l -> 0 <= nth n l 0 <= sumZ l.
Proof.
  induction l as [|x l IH]; intros n F; cbn [sumZ]. { destruct n; cbn; lia. }
  inversion F; subst. destruct n; cbn [nth].
  - assert (0 <= sumZ l) by (specialize (IH O H2); lia). lia.
  - specialize (IH n H2). lia.
Qed.

(* ---- the invariant ---- *)
Definition fees_nonneg (f : fees) : Prop := 0 <= f_protocol f /\ 0 <= f_swap f /\ 0 <= f_burn f.

Definition pool_inv (p : pool) : Prop :=
  le3 zero3 (p_fee p) /\ le3 (p_fee p) (p_bal p) /\                      (* the pool holds the protocol fees it owes ... *)
  p_supply p = sumZ (p_lp p) + p_lp_self p /\                            (* ... every LP token is accounted for *)
  Forall (fun z => 0 <= z) (p_lp p) /\ 0 <= p_lp_self p /\
  le3 zero3 (p_burn p) /\ le3 (p_fee p) (p_all p) /\
  fees_nonneg (p_fees p).

(* well-formed requests: amounts are unsigned, users exist *)
Definition op_ok (n : nat) (o : op) : Prop :=
  match o with
  | Provide u (d0, d1, d2) => (u < n)%nat /\ 0 <= d0 /\ 0 <= d1 /\ 0 <= d2
  | Withdraw u a => (u < n)%nat /\ 0 <= a
  | Swap u i j x _ => 0 <= x
  | Donate i x => 0 <= x
  | Advance dh => 0 <= dh
  | SetFees _ f => fees_nonneg f
  | _ => True
  end.

(* tokens that entered the pool from outside the (user, collector, burn) flows: donations *)
Definition donated (o : op) : t3 := match o with Donate i x => upd3 i (fun _ => x) zero3 | _ => zero3 end.

Lemma reserve_ok i p v : reserve i p = Ok v -> v = get3 i (p_bal p) - get3 i (p_fee p) /\ 0 <= v.
Proof. unfold reserve, csub. destruct (_ <=? _) eqn:E; intros H; inversion H. apply Z.leb_le in E. lia. Qed.
Lemma cadd_ok w a b v : cadd w a b = Ok v -> v = a + b.
Proof. unfold cadd. destruct (fits w (a + b)); intros H; inversion H; auto. Qed.
Lemma csub_ok a b v : csub a b = Ok v -> v = a - b /\ b <= a.
Proof. unfold csub. destruct (b <=? a) eqn:E; intros H; inversion H. apply Z.leb_le in E. auto. Qed.
Lemma dec_from_ratio_ok w n d v : dec_from_ratio w n d = Ok v -> d <> 0 /\ v = n * DEC / d.
Proof.
  unfold dec_from_ratio. destruct (d =? 0) eqn:E; [discriminate|]. apply Z.eqb_neq in E.
  destruct (_ <? w); intros H; inversion H; auto.
Qed.
Lemma DEC_pos : 0 < DEC. Proof. reflexivity. Qed.

(* the three components of a pool, opened *)
Ltac open_pool p :=
  let b0 := fresh "b0" in let b1 := fresh "b1" in let b2 := fresh "b2" in
  let g0 := fresh "g0" in let g1 := fresh "g1" in let g2 := fresh "g2" in
  let a0 := fresh "a0" in let a1 := fresh "a1" in let a2 := fresh "a2" in
  let u0 := fresh "u0" in let u1 := fresh "u1" in let u2 := fresh "u2" in
  destruct p as [[[b0 b1] b2] [[g0 g1] g2] [[a0 a1] a2] [[u0 u1] u2] S lp lps cfg h fs kinds].

(* ---- swap ---- *)
(* what a successful swap did, in terms of the curve output dy = swapped res *)
Lemma swap_spec p i j x ms p' e : swap p i j x ms = Ok (p', e) -> 0 <= x -> pool_inv p ->
  exists s res ri rj rk k,
    0 <= i <= 2 /\ 0 <= j <= 2 /\ i <> j /\ k = third i j /\
    ri = get3 i (p_bal p) - get3 i (p_fee p) /\ rj = get3 j (p_bal p) - get3 j (p_fee p) /\ rk = get3 k (p_bal p) - get3 k (p_fee p) /\
    compute_swap3 (ramp_of (p_cfg p) (p_height p)) ri rj rk x (p_fees p) = Ok s /\
    swap_to (ramp_of (p_cfg p) (p_height p)) x ri rj rk = Ok res /\
    s_ret s + s_swapfee s + s_protfee s + s_burnfee s = swapped res /\
    0 <= s_ret s /\ 0 <= s_swapfee s /\ 0 <= s_protfee s /\ 0 <= s_burnfee s /\
    1 <= new_dst res /\ new_dst res + swapped res = rj /\
    p' = mkPool (upd3 j (fun b => b - (s_ret s + s_burnfee s)) (upd3 i (fun b => b + x) (p_bal p)))
                (upd3 j (fun f => f + s_protfee s) (p_fee p)) (upd3 j (fun f => f + s_protfee s) (p_all p))
                (upd3 j (fun f => f + s_burnfee s) (p_burn p))
                (p_supply p) (p_lp p) (p_lp_self p) (p_cfg p) (p_height p) (p_fees p) (p_cw20 p) /\
    e = mkEff (upd3 j (fun _ => s_ret s) (upd3 i (fun _ => - x) zero3)) zero3 (upd3 j (fun _ => s_burnfee s) zero3) 0.
Proof.
  unfold swap. intros H Hx I.
  apply bind_ok in H as (r0 & E0 & H). apply bind_ok in H as (r1 & E1 & H). apply bind_ok in H as (r2 & E2 & H).
  apply bind_ok in H as (sel & ES & H). destruct sel as [[opool apool] upool].
  apply bind_ok in H as (s & EC & H). apply bind_ok in H as (f1 & EF1 & H). apply bind_ok in H as (fsum & EF2 & H).
  apply bind_ok in H as (tot & ET & H). apply bind_ok in H as (u1 & EM & H). apply bind_ok in H as (u2 & EO & H).
  inversion H; subst; clear H.
  apply reserve_ok in E0 as [-> N0]. apply reserve_ok in E1 as [-> N1]. apply reserve_ok in E2 as [-> N2].
  destruct I as (_ & _ & _ & _ & _ & _ & _ & (FN1 & FN2 & FN3)).
  pose proof DEC_pos as DP.
  assert (CASES : (i, j, opool, apool, upool) = (1, 0, get3 1 (p_bal p) - get3 1 (p_fee p), get3 0 (p_bal p) - get3 0 (p_fee p), get3 2 (p_bal p) - get3 2 (p_fee p)) \/
                  (i, j, opool, apool, upool) = (2, 0, get3 2 (p_bal p) - get3 2 (p_fee p), get3 0 (p_bal p) - get3 0 (p_fee p), get3 1 (p_bal p) - get3 1 (p_fee p)) \/
                  (i, j, opool, apool, upool) = (0, 1, get3 0 (p_bal p) - get3 0 (p_fee p), get3 1 (p_bal p) - get3 1 (p_fee p), get3 2 (p_bal p) - get3 2 (p_fee p)) \/
                  (i, j, opool, apool, upool) = (2, 1, get3 2 (p_bal p) - get3 2 (p_fee p), get3 1 (p_bal p) - get3 1 (p_fee p), get3 0 (p_bal p) - get3 0 (p_fee p)) \/
                  (i, j, opool, apool, upool) = (0, 2, get3 0 (p_bal p) - get3 0 (p_fee p), get3 2 (p_bal p) - get3 2 (p_fee p), get3 1 (p_bal p) - get3 1 (p_fee p)) \/
                  (i, j, opool, apool, upool) = (1, 2, get3 1 (p_bal p) - get3 1 (p_fee p), get3 2 (p_bal p) - get3 2 (p_fee p), get3 0 (p_bal p) - get3 0 (p_fee p))).
  { unfold select_pools in ES.
    destruct (Z.eqb_spec j 0); [subst j|destruct (Z.eqb_spec j 1); [subst j|destruct (Z.eqb_spec j 2); [subst j|discriminate]]];
    (destruct (Z.eqb_spec i 0); [subst i|destruct (Z.eqb_spec i 1); [subst i|destruct (Z.eqb_spec i 2); [subst i|try discriminate]]]);
    try discriminate; inversion ES; subst; tauto. }
  clear ES.
  destruct (compute_swap3_spec _ _ _ _ _ _ _ EC) as (res & EST & SUM & FS & FP & FB & RN & _).
  destruct (swap_to_spec _ _ _ _ _ _ EST) as (d & amp & bq & cq & y & _ & _ & _ & _ & ND & _ & Y0 & SW0 & NS & _).
  assert (P1 : 0 <= s_swapfee s) by (rewrite FS; apply Z.div_pos; [apply Z.mul_nonneg_nonneg|]; lia).
  assert (P2 : 0 <= s_protfee s) by (rewrite FP; apply Z.div_pos; [apply Z.mul_nonneg_nonneg|]; lia).
  assert (P3 : 0 <= s_burnfee s) by (rewrite FB; apply Z.div_pos; [apply Z.mul_nonneg_nonneg|]; lia).
  exists s, res, opool, apool, upool, (third i j).
  destruct CASES as [C|[C|[C|[C|[C|C]]]]]; inversion C; subst i j;
    (repeat split; try reflexivity; try lia; try assumption; try congruence).
Qed.

Lemma swap_inv p i j x ms p' e : swap p i j x ms = Ok (p', e) -> 0 <= x -> pool_inv p -> pool_inv p'.
Proof.
  intros H Hx I. destruct (swap_spec _ _ _ _ _ _ _ H Hx I) as (s & res & ri & rj & rk & k & Hi & Hj & Hne & -> & -> & Erj & -> & _ & _ & SUM & R0 & S0 & P0 & B0 & ND & NS & -> & _).
  destruct I as (I1 & I2 & I3 & I4 & I5 & I6 & I7 & (I8 & I9 & I10)).
  open_pool p. cbn [p_bal p_fee p_all p_burn p_supply p_lp p_lp_self p_cfg p_height p_fees p_cw20] in *.
  unfold pool_inv, fees_nonneg, le3, zero3 in *. cbn [p_bal p_fee p_all p_burn p_supply p_lp p_lp_self p_cfg p_height p_fees p_cw20].
  assert (Ci : i = 0 \/ i = 1 \/ i = 2) by lia. assert (Cj : j = 0 \/ j = 1 \/ j = 2) by lia.
  destruct Ci as [-> | [-> | ->]]; destruct Cj as [-> | [-> | ->]]; try lia;
    cbn [upd3 get3 Z.eqb Pos.eqb] in *; repeat split; try assumption; try lia.
Qed.

(* ---- withdraw ---- *)
Lemma withdraw_spec p u a p' e : withdraw p u a = Ok (p', e) -> 0 <= a -> pool_inv p ->
  exists ratio, p_supply p <> 0 /\ ratio = a * DEC / p_supply p /\ a <= lp_of u p /\
    let f := fun k => (get3 k (p_bal p) - get3 k (p_fee p)) * ratio / DEC in
    p' = mkPool (zip3 Z.sub (p_bal p) (f 0, f 1, f 2)) (p_fee p) (p_all p) (p_burn p) (p_supply p - a)
                (set_nth u (lp_of u p - a) (p_lp p)) (p_lp_self p) (p_cfg p) (p_height p) (p_fees p) (p_cw20 p) /\
    e = mkEff (f 0, f 1, f 2) zero3 zero3 (- a) /\
    (forall k, 0 <= k <= 2 -> 0 <= get3 k (p_bal p) - get3 k (p_fee p)).
Proof.
  unfold withdraw. intros H Ha I.
  apply bind_ok in H as (u0 & EL & H). apply ensure_ok in EL. apply Z.leb_le in EL.
  apply bind_ok in H as (ratio & ER & H). apply dec_from_ratio_ok in ER as [SN ->].
  apply bind_ok in H as (r0 & E0 & H). apply bind_ok in H as (r1 & E1 & H). apply bind_ok in H as (r2 & E2 & H).
  apply bind_ok in H as (x0 & _ & H). apply bind_ok in H as (x1 & _ & H). apply bind_ok in H as (x2 & _ & H).
  inversion H; subst; clear H.
  apply reserve_ok in E0 as [-> N0]. apply reserve_ok in E1 as [-> N1]. apply reserve_ok in E2 as [-> N2].
  eexists. split; [exact SN|]. split; [reflexivity|]. split; [exact EL|]. cbv zeta.
  split; [reflexivity|]. split; [reflexivity|].
  intros k Hk. assert (C : k = 0 \/ k = 1 \/ k = 2) by lia. destruct C as [-> | [-> | ->]]; assumption.
Qed.

(* pro-rata: each refund is at most the sender's share of that reserve, rounded down *)
Lemma refund_bound R a S : 0 <= R -> 0 <= a <= S -> 0 < S ->
  0 <= R * (a * DEC / S) / DEC /\ R * (a * DEC / S) / DEC * S <= R * a /\ R * (a * DEC / S) / DEC <= R.
Proof.
  intros HR Ha HS. pose proof DEC_pos as DP.
  assert (Q0 : 0 <= a * DEC / S) by (apply Z.div_pos; nia).
  assert (Q1 : a * DEC / S * S <= a * DEC) by (pose proof (Z.mul_div_le (a * DEC) S HS); lia).
  assert (Q2 : a * DEC / S <= DEC) by (apply Z.div_le_upper_bound; nia).
  set (q := a * DEC / S) in *.
  assert (F0 : 0 <= R * q / DEC) by (apply Z.div_pos; nia).
  assert (F1 : R * q / DEC * DEC <= R * q) by (pose proof (Z.mul_div_le (R * q) DEC DP); lia).
  repeat split; auto.
  - (* f*S*DEC <= R*q*S <= R*a*DEC *) assert (R * q / DEC * S * DEC <= R * a * DEC) by nia. nia.
  - apply Z.div_le_upper_bound; nia.
Qed.

Lemma withdraw_inv n p u a p' e : withdraw p u a = Ok (p', e) -> 0 <= a -> (u < n)%nat -> length (p_lp p) = n ->
  pool_inv p -> pool_inv p' /\ length (p_lp p') = n.
Proof.
  intros H Ha Hu HL I. destruct (withdraw_spec _ _ _ _ _ H Ha I) as (ratio & SN & -> & AL & -> & _ & RN).
  destruct I as (I1 & I2 & I3 & I4 & I5 & I6 & I7 & (I8 & I9 & I10)).
  assert (LU : 0 <= lp_of u p <= sumZ (p_lp p)) by (apply nth_le_sum; auto).
  assert (SP : 0 < p_supply p) by lia.
  pose proof (refund_bound _ a (p_supply p) (RN 0 ltac:(lia)) ltac:(lia) SP) as (A0 & _ & A0').
  pose proof (refund_bound _ a (p_supply p) (RN 1 ltac:(lia)) ltac:(lia) SP) as (A1 & _ & A1').
  pose proof (refund_bound _ a (p_supply p) (RN 2 ltac:(lia)) ltac:(lia) SP) as (A2 & _ & A2').
  split; [|cbn [p_lp]; rewrite set_nth_length; auto].
  unfold pool_inv. cbn [p_bal p_fee p_all p_burn p_supply p_lp p_lp_self p_cfg p_height p_fees p_cw20].
  rewrite set_nth_sum by lia. unfold lp_of in *.
  repeat split; auto; try lia.
  - open_pool p. cbn [p_bal p_fee get3 zip3 Z.eqb Pos.eqb] in *. unfold le3 in *. cbn [get3 Z.eqb] in *. lia.
  - apply set_nth_nonneg; auto. lia.
Qed.

(* ---- provide ---- *)
Lemma provide_inv n p u d p' e : provide p u d = Ok (p', e) -> op_ok n (Provide u d) -> length (p_lp p) = n ->
  pool_inv p -> pool_inv p' /\ length (p_lp p') = n /\ p_bal p' = zip3 Z.add (p_bal p) d /\ p_fee p' = p_fee p /\
  p_all p' = p_all p /\ p_burn p' = p_burn p /\ e_user e = map3 Z.opp d /\ e_coll e = zero3 /\ e_burned e = zero3 /\
  p_supply p <= p_supply p'.
Proof.
  unfold provide. destruct d as [[d0 d1] d2]. intros H (Hu & D0 & D1 & D2) HL I.
  apply bind_ok in H as (x0 & _ & H).
  apply bind_ok in H as (r0 & E0 & H). apply bind_ok in H as (r1 & E1 & H). apply bind_ok in H as (r2 & E2 & H).
  apply bind_ok in H as (sh & ESH & H). destruct sh as [share locked].
  apply bind_ok in H as (s1 & ES1 & H). apply bind_ok in H as (s2 & ES2 & H). inversion H; subst; clear H. prim_inv. subst.
  destruct I as (I1 & I2 & I3 & I4 & I5 & I6 & I7 & (I8 & I9 & I10)).
  assert (LU : 0 <= lp_of u p <= sumZ (p_lp p)) by (apply nth_le_sum; auto).
  assert (SH : 0 <= share /\ 0 <= locked).
  { destruct (p_supply p =? 0).
    - apply bind_ok in ESH as (dd & ED & ESH). apply bind_ok in ESH as (dd' & ED' & ESH).
      apply bind_ok in ESH as (shr & ESR & ESH). apply bind_ok in ESH as (x1 & _ & ESH). inversion ESH; subst; clear ESH.
      apply csub_ok in ESR as [-> ?]. split; [lia|unfold MIN_LIQ; vm_compute; discriminate].
    - apply bind_ok in ESH as (am & EA & ESH). inversion ESH; subst; clear ESH. apply unwrap_ok in EA.
      apply reserve_ok in E0 as [_ N0].
      destruct (compute_mint_spec _ _ _ _ _ _ _ _ _ EA ltac:(lia)) as (dd0 & dd1 & _ & _ & _ & _ & MN & _). lia. }
  cbn [p_bal p_fee p_all p_burn p_supply p_lp p_lp_self e_user e_coll e_burned].
  split; [|repeat split; try reflexivity; [rewrite set_nth_length; auto|lia]].
  unfold pool_inv. cbn [p_bal p_fee p_all p_burn p_supply p_lp p_lp_self p_cfg p_height p_fees p_cw20].
  rewrite set_nth_sum by lia. unfold lp_of in *.
  repeat split; auto; try lia.
  - open_pool p. cbn [p_bal p_fee zip3] in *. unfold le3 in *. lia.
  - apply set_nth_nonneg; auto. lia.
Qed.

(* ---- collect ---- *)
Lemma collect_inv p p' e : collect p = Ok (p', e) -> pool_inv p ->
  pool_inv p' /\ p_lp p' = p_lp p /\ e_user e = zero3 /\ e_burned e = zero3 /\
  p_bal p' = zip3 Z.sub (p_bal p) (e_coll e) /\ p_fee p' = zip3 Z.sub (p_fee p) (e_coll e) /\ p_all p' = p_all p /\ p_burn p' = p_burn p /\
  nonneg3 (e_coll e).
Proof.
  unfold collect. intros H I. inversion H; subst; clear H.
  cbn [p_bal p_fee p_all p_burn p_supply p_lp p_lp_self e_user e_coll e_burned].
  destruct I as (I1 & I2 & I3 & I4 & I5 & I6 & I7 & (I8 & I9 & I10)).
  split; [|repeat split; try reflexivity].
  - unfold pool_inv. cbn [p_bal p_fee p_all p_burn p_supply p_lp p_lp_self p_cfg p_height p_fees p_cw20].
    open_pool p. cbn [p_bal p_fee p_all p_burn p_supply p_lp p_lp_self p_fees map3 zip3] in *. unfold le3, zero3 in *.
    repeat split; auto; try (destruct (MIN_COLLECT <? g0), (MIN_COLLECT <? g1), (MIN_COLLECT <? g2); lia).
  - open_pool p. cbn [p_fee map3] in *. unfold nonneg3, le3, zero3 in *.
    destruct (MIN_COLLECT <? g0), (MIN_COLLECT <? g1), (MIN_COLLECT <? g2); lia.
Qed.

Ltac t3eq := unfold zero3; repeat match goal with |- (_, _) = (_, _) => f_equal end; lia.

(* ---- one step ---- *)
Definition t3_eq_sub (a b c : t3) : Prop := a = zip3 Z.sub b c.

Theorem step_inv n p o p' e : step p o = Ok (p', e) -> op_ok n o -> length (p_lp p) = n -> pool_inv p ->
  pool_inv p' /\ length (p_lp p') = n.
Proof.
  intros H OK HL I. destruct o as [u d|u a|u i j x ms| |owner fa fb|i x|dh|owner f]; cbn [step] in H.
  - destruct (provide_inv n _ _ _ _ _ H OK HL I) as (? & ? & _). auto.
  - destruct OK as [Hu Ha]. eapply withdraw_inv; eauto.
  - cbn [op_ok] in OK. destruct (swap_spec _ _ _ _ _ _ _ H OK I) as (s & res & ri & rj & rk & k & _ & _ & _ & _ & _ & _ & _ & _ & _ & _ & _ & _ & _ & _ & _ & _ & EP & _).
    split; [eapply swap_inv; eauto|]. subst p'. cbn [p_lp]. auto.
  - destruct (collect_inv _ _ _ H I) as (? & EL & _). split; auto. rewrite EL. auto.
  - destruct owner; [|discriminate]. apply bind_ok in H as (c & _ & H). inversion H; subst; clear H. split; auto.
  - inversion H; subst; clear H. split; auto.
    destruct I as (I1 & I2 & I3 & I4 & I5 & I6 & I7 & (I8 & I9 & I10)). cbn [op_ok] in OK.
    unfold pool_inv, with_bal. cbn [p_bal p_fee p_all p_burn p_supply p_lp p_lp_self p_cfg p_height p_fees p_cw20].
    repeat split; auto. open_pool p. cbn [p_bal p_fee upd3] in *. unfold le3 in *.
    destruct (i =? 0); [|destruct (i =? 1)]; lia.
  - inversion H; subst; clear H. split; auto.
  - destruct owner; [|discriminate]. destruct (poolfee_valid f); [|discriminate]. inversion H; subst; clear H. split; auto.
    destruct I as (I1 & I2 & I3 & I4 & I5 & I6 & I7 & _). cbn [op_ok] in OK.
    unfold pool_inv. cbn [p_bal p_fee p_all p_burn p_supply p_lp p_lp_self p_cfg p_height p_fees p_cw20]. repeat split; auto; apply OK.
Qed.

(* conservation: every token that left (entered) the pool went to (came from) the acting user, the collector, a burn — or was donated *)
Theorem step_conserve p o p' e : step p o = Ok (p', e) -> op_ok (length (p_lp p)) o -> pool_inv p ->
  p_bal p' = zip3 Z.add (zip3 Z.sub (zip3 Z.sub (zip3 Z.sub (p_bal p) (e_user e)) (e_coll e)) (e_burned e)) (donated o) /\
  (* the all-time ledger grows exactly by what is added to the pending ledger plus what is paid to the collector; the burn ledger by what is burned *)
  zip3 Z.sub (p_all p') (p_all p) = zip3 Z.add (zip3 Z.sub (p_fee p') (p_fee p)) (e_coll e) /\
  zip3 Z.sub (p_burn p') (p_burn p) = e_burned e.
Proof.
  intros H OK I. destruct o as [u d|u a|u i j x ms| |owner fa fb|i x|dh|owner f]; cbn [step] in H; cbn [donated].
  - destruct (provide_inv _ _ _ _ _ _ H OK eq_refl I) as (_ & _ & EB & EF & EA & EU & EE & EC & EBu & _).
    rewrite EB, EF, EA, EU, EE, EC, EBu. destruct d as [[d0 d1] d2]. open_pool p. cbn. repeat split; t3eq.
  - destruct OK as [Hu Ha]. destruct (withdraw_spec _ _ _ _ _ H Ha I) as (ratio & _ & _ & _ & -> & -> & _).
    open_pool p. cbn. repeat split; t3eq.
  - cbn [op_ok] in OK. destruct (swap_spec _ _ _ _ _ _ _ H OK I) as (s & res & ri & rj & rk & k & Hi & Hj & Hne & _ & _ & _ & _ & _ & _ & _ & _ & _ & _ & _ & _ & _ & -> & ->).
    open_pool p. cbn [p_bal p_fee p_all p_burn e_user e_coll e_burned].
    assert (Ci : i = 0 \/ i = 1 \/ i = 2) by lia. assert (Cj : j = 0 \/ j = 1 \/ j = 2) by lia.
    destruct Ci as [-> | [-> | ->]]; destruct Cj as [-> | [-> | ->]]; try lia; cbn; repeat split; t3eq.
  - destruct (collect_inv _ _ _ H I) as (_ & _ & EU & EBu & EB & EF & EA & EBn & _).
    rewrite EB, EF, EA, EBn, EU, EBu. destruct (e_coll e) as [[c0 c1] c2]. open_pool p. cbn. repeat split; t3eq.
  - destruct owner; [|discriminate]. apply bind_ok in H as (c & _ & H). inversion H; subst; clear H.
    open_pool p. cbn. repeat split; t3eq.
  - inversion H; subst; clear H. open_pool p. cbn [p_bal p_fee p_all p_burn with_bal no_eff e_user e_coll e_burned upd3 zero3].
    destruct (i =? 0); [|destruct (i =? 1)]; cbn; repeat split; t3eq.
  - inversion H; subst; clear H. open_pool p. cbn. repeat split; t3eq.
  - destruct owner; [|discriminate]. destruct (poolfee_valid f); [|discriminate]. inversion H; subst; clear H.
    open_pool p. cbn. repeat split; t3eq.
Qed.

(* ---- histories ---- *)
Lemma apply_op_inv n p o : op_ok n o -> length (p_lp p) = n -> pool_inv p ->
  pool_inv (fst (apply_op p o)) /\ length (p_lp (fst (apply_op p o))) = n.
Proof.
  intros OK HL I. unfold apply_op. destruct (step p o) as [[p' e]| |] eqn:ES; cbn [fst]; auto.
  eapply step_inv; eauto.
Qed.

Theorem run_inv n : forall l p, Forall (op_ok n) l -> length (p_lp p) = n -> pool_inv p ->
  pool_inv (run p l) /\ length (p_lp (run p l)) = n.
Proof.
  induction l as [|o l IH]; intros p F HL I; cbn [run]; [auto|].
  apply Forall_cons_iff in F as [OK Fl]. destruct (apply_op_inv n p o OK HL I) as [I' HL']. apply IH; auto.
Qed.

Lemma init_pool_inv amp h f kinds n p : init_pool amp h f kinds n = Ok p -> fees_nonneg f ->
  pool_inv p /\ length (p_lp p) = n /\ p_all p = zero3 /\ p_fee p = zero3 /\ p_burn p = zero3 /\ p_bal p = zero3.
Proof.
  unfold init_pool. intros H (FN1 & FN2 & FN3). apply bind_ok in H as (c & _ & H). inversion H; subst; clear H.
  cbn [p_lp p_all p_fee p_burn p_bal]. rewrite repeat_length. repeat split; auto; cbn; try lia.
  - clear. induction n; cbn; lia.
  - clear. induction n; cbn; constructor; auto; lia.
Qed.

(* totals paid to the collector / burned over a history *)
Fixpoint run_totals (p : pool) (l : list op) (coll burned : t3) : pool * t3 * t3 :=
  match l with
  | [] => (p, coll, burned)
  | o :: l' => match apply_op p o with
               | (p', Ok e) => run_totals p' l' (zip3 Z.add coll (e_coll e)) (zip3 Z.add burned (e_burned e))
               | (p', _) => run_totals p' l' coll burned
               end
  end.

Lemma run_totals_run : forall l p c b, fst (fst (run_totals p l c b)) = run p l.
Proof.
  induction l as [|o l IH]; intros p c b; cbn [run_totals run]; [reflexivity|].
  destruct (apply_op p o) as [p' [e| |]] eqn:EA; cbn [fst]; rewrite IH; reflexivity.
Qed.

Lemma t3_ledger x y f g c k : zip3 Z.sub x y = zip3 Z.add (zip3 Z.sub f g) k -> y = zip3 Z.add g c -> x = zip3 Z.add f (zip3 Z.add c k).
Proof.
  destruct x as [[x0 x1] x2], y as [[y0 y1] y2], f as [[f0 f1] f2], g as [[g0 g1] g2], c as [[c0 c1] c2], k as [[k0 k1] k2].
  cbn. intros LA EA. inversion LA. inversion EA. t3eq.
Qed.
Lemma t3_burn x y k b : zip3 Z.sub x y = k -> y = b -> x = zip3 Z.add b k.
Proof.
  destruct x as [[x0 x1] x2], y as [[y0 y1] y2], k as [[k0 k1] k2], b as [[b0 b1] b2].
  cbn. intros LB EB. inversion LB. inversion EB. t3eq.
Qed.

(* all-time ledger = pending ledger + everything ever paid to the collector; burn ledger = everything ever burned *)
Theorem ledgers_over_histories n : forall l p c b, Forall (op_ok n) l -> length (p_lp p) = n -> pool_inv p ->
  p_all p = zip3 Z.add (p_fee p) c -> p_burn p = b ->
  let '(p', c', b') := run_totals p l c b in
  p_all p' = zip3 Z.add (p_fee p') c' /\ p_burn p' = b' /\ pool_inv p'.
Proof.
  induction l as [|o l IH]; intros p c b F HL I EA EB; cbn [run_totals]; [auto|].
  apply Forall_cons_iff in F as [OK Fl].
  unfold apply_op. destruct (step p o) as [[p' e]| |] eqn:ES.
  - destruct (step_inv n _ _ _ _ ES OK HL I) as [I' HL'].
    destruct (step_conserve _ _ _ _ ES ltac:(rewrite HL; exact OK) I) as (_ & LA & LB).
    apply IH; auto; [eapply t3_ledger; eauto | eapply t3_burn; eauto].
  - apply IH; auto.
  - apply IH; auto.
Qed.

(* ---- statements used by props/C04.v ---- *)
(* a successful pool swap pays exactly the curve output split into proceeds and the three fees, and leaves a positive ask reserve *)
Theorem pool_swap_fee_identity p i j x ms p' e : swap p i j x ms = Ok (p', e) -> 0 <= x -> pool_inv p ->
  exists s res, let k := third i j in
    let R := fun q t => get3 t (p_bal q) - get3 t (p_fee q) in
    swap_to (ramp_of (p_cfg p) (p_height p)) x (R p i) (R p j) (R p k) = Ok res /\
    get3 j (e_user e) = s_ret s /\ get3 i (e_user e) = - x /\ get3 j (e_burned e) = s_burnfee s /\
    get3 j (p_fee p') - get3 j (p_fee p) = s_protfee s /\
    s_ret s + s_swapfee s + s_protfee s + s_burnfee s = swapped res /\
    s_swapfee s = swapped res * f_swap (p_fees p) / DEC /\ s_protfee s = swapped res * f_protocol (p_fees p) / DEC /\
    s_burnfee s = swapped res * f_burn (p_fees p) / DEC /\
    R p' j = R p j - swapped res + s_swapfee s /\ R p' i = R p i + x /\ R p' k = R p k /\ 1 <= R p' j.
Proof.
  intros H Hx I.
  destruct (swap_spec _ _ _ _ _ _ _ H Hx I) as (s & res & ri & rj & rk & k & Hi & Hj & Hne & -> & -> & -> & -> & EC & EST & SUM & R0 & S0 & P0 & B0 & ND & NS & -> & ->).
  destruct (compute_swap3_spec _ _ _ _ _ _ _ EC) as (res' & EST' & _ & FS & FP & FB & _).
  rewrite EST in EST'. inversion EST'; subst res'.
  exists s, res. cbv zeta. split; [exact EST|].
  open_pool p. cbn [p_bal p_fee p_all p_burn p_fees e_user e_burned] in *.
  assert (Ci : i = 0 \/ i = 1 \/ i = 2) by lia. assert (Cj : j = 0 \/ j = 1 \/ j = 2) by lia.
  destruct Ci as [-> | [-> | ->]]; destruct Cj as [-> | [-> | ->]]; try lia;
    cbn [third upd3 get3 Z.eqb Pos.eqb Z.sub Z.add Z.opp Z.pos_sub Pos.add Pos.succ zero3 Z.double Z.succ_double Z.pred_double Pos.pred_double] in *;
    repeat split; try assumption; try lia.
Qed.

(* withdrawal: every refund is at most the pro-rata share (rounded down) of the reported reserve, and exactly the LP sent is burned *)
Theorem pool_withdraw_pro_rata p u a p' e : withdraw p u a = Ok (p', e) -> 0 <= a -> pool_inv p ->
  let R := fun t => get3 t (p_bal p) - get3 t (p_fee p) in
  (forall t, 0 <= t <= 2 -> 0 <= get3 t (e_user e) /\ get3 t (e_user e) * p_supply p <= R t * a /\ get3 t (e_user e) <= R t) /\
  p_supply p' = p_supply p - a /\ lp_of u p' = lp_of u p - a \/ (length (p_lp p) <= u)%nat.
Proof.
  intros H Ha I. destruct (withdraw_spec _ _ _ _ _ H Ha I) as (ratio & SN & -> & AL & -> & -> & RN).
  destruct (Nat.lt_ge_cases u (length (p_lp p))) as [Hu|Hu]; [left|right; exact Hu].
  destruct I as (I1 & I2 & I3 & I4 & I5 & I6 & I7 & I8).
  assert (LU : 0 <= lp_of u p <= sumZ (p_lp p)) by (apply nth_le_sum; auto).
  assert (SP : 0 < p_supply p) by lia.
  cbv zeta. cbn [e_user p_supply p_lp]. split; [|split; [reflexivity|]].
  - intros t Ht. assert (C : t = 0 \/ t = 1 \/ t = 2) by lia.
    destruct C as [-> | [-> | ->]]; cbn [get3 Z.eqb]; apply refund_bound; try lia; apply RN; lia.
  - unfold lp_of. cbn [p_lp]. clear - Hu. unfold set_nth.
    (* reading back the entry that was written *)
    assert (G : forall l k, (k <= u)%nat -> (u < k + length l)%nat ->
      nth (u - k) ((fix go (k : nat) (l : list Z) := match l with [] => [] | x :: r => (if Nat.eqb k u then (nth u (p_lp p) 0 - a) else x) :: go (S k) r end) k l) 0
      = nth u (p_lp p) 0 - a).
    { induction l as [|x l IH]; intros k Hk Hl; cbn [length] in Hl; [lia|].
      destruct (Nat.eqb k u) eqn:E.
      - apply Nat.eqb_eq in E. subst k. replace (u - u)%nat with O by lia. reflexivity.
      - apply Nat.eqb_neq in E. replace (u - k)%nat with (S (u - S k)) by lia. cbn [nth]. apply IH; lia. }
    specialize (G (p_lp p) O ltac:(lia) ltac:(lia)). replace (u - 0)%nat with u in G by lia. exact G.
Qed.
