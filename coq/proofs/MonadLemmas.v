(* MonadLemmas.v — inversion lemmas for the outcome monad and the primitive checked operations (additive helper file). *)
From WW Require Import Prim Amp.
From WW.Proofs Require Import ArithLemmas.

Lemma bind_ok {A B} (m : outcome A) (f : A -> outcome B) v :
  bind m f = Ok v -> exists a, m = Ok a /\ f a = Ok v.
Proof. destruct m; cbn; intros H; try discriminate. eauto. Qed.

Lemma unwrap_ok {A} (m : outcome A) v : unwrap m = Ok v -> m = Ok v.
Proof. destruct m; cbn; congruence. Qed.

Lemma pmul_ok w a b v : pmul w a b = Ok v -> v = a * b /\ 0 <= a * b < w.
Proof. unfold pmul. destruct (fits w (a * b)) eqn:E; intros H; inversion H. apply fits_true in E. auto. Qed.
Lemma padd_ok w a b v : padd w a b = Ok v -> v = a + b /\ 0 <= a + b < w.
Proof. unfold padd. destruct (fits w (a + b)) eqn:E; intros H; inversion H. apply fits_true in E. auto. Qed.
Lemma psub_ok a b v : psub a b = Ok v -> v = a - b /\ b <= a.
Proof. unfold psub. destruct (b <=? a) eqn:E; intros H; inversion H. apply Z.leb_le in E. auto. Qed.
Lemma pdiv_ok a b v : pdiv a b = Ok v -> v = a / b /\ b <> 0.
Proof. unfold pdiv. destruct (b =? 0) eqn:E; intros H; inversion H. apply Z.eqb_neq in E. auto. Qed.
Lemma osub_ok a b v : osub a b = Ok v -> v = a - b /\ b <= a.
Proof. unfold osub. destruct (b <=? a) eqn:E; intros H; inversion H. apply Z.leb_le in E. auto. Qed.
Lemma omul64_ok a b v : omul64 a b = Ok v -> v = a * b /\ 0 <= a * b < P64.
Proof. unfold omul64, fits64. destruct (fits P64 (a * b)) eqn:E; intros H; inversion H. apply fits_true in E. auto. Qed.
Lemma mul_dec_ok w u d v : mul_dec w u d = Ok v -> v = u * d / DEC /\ u * d / DEC < w.
Proof. unfold mul_dec. destruct (u * d / DEC <? w) eqn:E; intros H; inversion H. apply Z.ltb_lt in E. auto. Qed.
Lemma ensure_ok b c u : ensure b c = Ok u -> b = true.
Proof. destruct b; cbn; congruence. Qed.

(* peel `do x <- m; k` hypotheses *)
Ltac bind_inv H :=
  let x := fresh "v" in let Hx := fresh "E" in
  apply bind_ok in H as (x & Hx & H).
Ltac prim_inv :=
  repeat match goal with
  | H : pmul _ _ _ = Ok _ |- _ => apply pmul_ok in H as [? ?]
  | H : padd _ _ _ = Ok _ |- _ => apply padd_ok in H as [? ?]
  | H : psub _ _ = Ok _ |- _ => apply psub_ok in H as [? ?]
  | H : pdiv _ _ = Ok _ |- _ => apply pdiv_ok in H as [? ?]
  | H : osub _ _ = Ok _ |- _ => apply osub_ok in H as [? ?]
  | H : omul64 _ _ = Ok _ |- _ => apply omul64_ok in H as [? ?]
  | H : mul_dec _ _ _ = Ok _ |- _ => apply mul_dec_ok in H as [? ?]
  | H : unwrap _ = Ok _ |- _ => apply unwrap_ok in H
  end.
