(* IncentiveInv.v — the funding invariant of the incentive contract (repaired code, v_fixed) and the exact
   effect of every operation on the contract's balances and on what it owes:
     balance(SELF, a) >= sum over flows of asset a (funded - claimed) + (a = lp ? open + closed positions : 0)   *)
From WW Require Import Prim Params Incentive.
From WW.Proofs Require Import IncentiveLedger IncentiveFlows.
From Coq Require Import Lia.

(* ---- well-formed inputs: unsigned amounts, callers are not the contract itself ---------------------------- *)
(* attached funds are bank coins: non-negative amounts, distinct native denoms *)
Definition funds_wf (fs : list (Z * Z)) : Prop :=
  coins_nonneg fs /\ NoDup (map fst fs) /\ Forall (fun x => is_native (fst x) = true) fs.
Definition op_wf (o : op) : Prop :=
  match o with
  | NewEpoch | Snapshot => True
  | Donate sender _ amount => sender <> SELF /\ 0 <= amount
  | Gift sender _ _ amount => sender <> SELF /\ 0 <= amount
  | HelperDeposit user fs _ _ _ _ _ _ _ _ => user <> SELF /\ funds_wf fs
  | OpenFlow sender fs _ _ _ _ amount _ => sender <> SELF /\ funds_wf fs /\ 0 <= amount
  | ExpandFlow sender fs _ _ _ _ amount => sender <> SELF /\ funds_wf fs /\ 0 <= amount
  | OpenPosition sender fs _ amount _ _ => sender <> SELF /\ funds_wf fs /\ 0 <= amount
  | ExpandPosition sender fs _ amount _ _ => sender <> SELF /\ funds_wf fs /\ 0 <= amount
  | CloseFlow sender _ | Claim sender | ClosePosition sender _ _ | Withdraw sender => sender <> SELF
  end.
Definition cfg_wf (c : cfg) : Prop := c_collector c <> SELF.

(* ---- what the contract owes --------------------------------------------------------------------------- *)
Definition staked (st : state) : Z := pos_sum (s_open st) + pos_sum (s_closed st).
Definition oblig (c : cfg) (st : state) (a : Z) : Z :=
  flows_out a (s_flows st) + (if a =? c_lp c then staked st else 0).

Record Inv (c : cfg) (st : state) : Prop := mkInv {
  inv_claimed : Forall (fun f => f_claimed f <= flow_funded f) (s_flows st);
  inv_ids : NoDup (map f_id (s_flows st));
  inv_ctr : Forall (fun f => f_id f <= s_counter st) (s_flows st);
  inv_hist : Forall (fun f => hist_ok (s_epoch st + 1) (f_hist f)) (s_flows st);
  inv_creator : Forall (fun f => f_creator f <> SELF) (s_flows st);
  inv_cover : forall a, oblig c st a <= s_bal st SELF a
}.

(* ---- coins ----------------------------------------------------------------------------------------------- *)
Lemma coin_sum_notin a fs : ~ In a (map fst fs) -> coin_sum a fs = 0.
Proof.
  induction fs as [|[d v] r IH]; cbn; [reflexivity|]. intros H.
  destruct (d =? a) eqn:E; [apply Z.eqb_eq in E; tauto|]. rewrite IH; [lia|tauto].
Qed.

Lemma coin_sum_aget a fs paid : NoDup (map fst fs) -> aget a fs = Some paid -> coin_sum a fs = paid.
Proof.
  induction fs as [|[d v] r IH]; cbn; [discriminate|]. intros Hd H. apply NoDup_cons_iff in Hd as [Hni Hd].
  destruct (d =? a) eqn:E.
  - apply Z.eqb_eq in E. subst. inversion H; subst. rewrite coin_sum_notin by assumption. lia.
  - rewrite IH by assumption. lia.
Qed.

Lemma coin_sum_has a v fs : NoDup (map fst fs) -> has_coin a v fs = true -> coin_sum a fs = v.
Proof.
  unfold has_coin. induction fs as [|[d w] r IH]; cbn; [discriminate|]. intros Hd H. apply NoDup_cons_iff in Hd as [Hni Hd].
  destruct (d =? a) eqn:E.
  - apply Z.eqb_eq in E. subst. cbn in H. destruct (w =? v) eqn:Ew.
    + apply Z.eqb_eq in Ew. subst. rewrite coin_sum_notin by assumption. lia.
    + cbn in H. exfalso. apply existsb_exists in H as [[d' w'] [Hin Hx]]. cbn in Hx.
      apply andb_true_iff in Hx as [Hx _]. apply Z.eqb_eq in Hx. subst. apply Hni. apply in_map_iff. exists (a, w'). auto.
  - cbn in H. rewrite IH by assumption. lia.
Qed.

Lemma coin_sum_cw20 a fs : is_native a = false -> Forall (fun x => is_native (fst x) = true) fs -> coin_sum a fs = 0.
Proof.
  intros Ha. induction 1 as [|[d v] r H _ IH]; cbn in *; [reflexivity|].
  destruct (d =? a) eqn:E; [apply Z.eqb_eq in E; congruence|]. lia.
Qed.

Lemma must_pay_sum fs d paid : must_pay fs d = Ok paid -> forall a, coin_sum a fs = if d =? a then paid else 0.
Proof.
  unfold must_pay. destruct fs as [|[d' v] [|? ?]]; try discriminate.
  destruct (v =? 0); [discriminate|]. destruct (d' =? d) eqn:E; [|discriminate].
  apply Z.eqb_eq in E. subst. intros H a. inversion H; subst. cbn. destruct (d =? a); lia.
Qed.

(* ---- message effects on the contract's own balance ------------------------------------------------------------ *)
Definition amt_if (s a amt : Z) : Z := if s =? a then amt else 0.

Lemma mdelta_send_self to a amt s : to <> SELF -> mdelta (MSend to a amt) SELF s = - amt_if s a amt.
Proof.
  intros H. cbn. unfold tdelta, amt_if. rewrite Z.eqb_refl.
  destruct (SELF =? to) eqn:E; [apply Z.eqb_eq in E; congruence|]. destruct (s =? a); lia.
Qed.
Lemma mdelta_pull_in owner a amt s : owner <> SELF -> mdelta (MPull owner SELF a amt) SELF s = amt_if s a amt.
Proof.
  intros H. cbn. unfold tdelta, amt_if. rewrite Z.eqb_refl.
  destruct (SELF =? owner) eqn:E; [apply Z.eqb_eq in E; congruence|]. destruct (s =? a); lia.
Qed.
Lemma mdelta_pull_other owner to a amt s : owner <> SELF -> to <> SELF -> mdelta (MPull owner to a amt) SELF s = 0.
Proof.
  intros H1 H2. cbn. unfold tdelta.
  destruct (SELF =? owner) eqn:E; [apply Z.eqb_eq in E; congruence|].
  destruct (SELF =? to) eqn:E2; [apply Z.eqb_eq in E2; congruence|]. destruct (s =? a); lia.
Qed.

(* ---- open_flow ---------------------------------------------------------------------------------------------- *)
(* the three shapes of the fee part *)
Lemma open_flow_fee_shape c sender fs al asset amount amount1 ms :
  open_flow_fee v_fixed c sender fs al asset amount = Ok (amount1, ms) -> NoDup (map fst fs) ->
  let fa := c_fee_asset c in let fee := c_fee c in
  (is_native fa = true /\ is_native asset = true /\ asset = fa /\
     coin_sum fa fs = amount1 + fee /\ ms = [MSend (c_collector c) fa fee]) \/
  (is_native fa = true /\ (is_native asset = false \/ asset <> fa) /\ amount1 = amount /\ fee <= coin_sum fa fs /\
     (ms = [MSend (c_collector c) fa fee] \/
      (is_native asset = true /\ ms = [MSend sender fa (coin_sum fa fs - fee); MSend (c_collector c) fa fee]))) \/
  (is_native fa = false /\ amount1 = amount /\ ms = [MPull sender (c_collector c) fa fee]).
Proof.
  unfold open_flow_fee. intros H Hnd. cbn zeta.
  destruct (is_native (c_fee_asset c)) eqn:Enf.
  - destruct (aget (c_fee_asset c) fs) as [paid|] eqn:Epaid; [|discriminate].
    pose proof (coin_sum_aget _ _ _ Hnd Epaid) as Hsum. rewrite Hsum.
    apply bind_ok in H as [a1 [Ea1 H]].
    destruct (paid <? c_fee c) eqn:Elt; [discriminate|]. apply Z.ltb_ge in Elt.
    apply bind_ok in H as [u [Eeq H]]. inversion H; subst; clear H.
    destruct (is_native asset) eqn:Ena; cbn [andb] in *.
    + destruct (asset =? c_fee_asset c) eqn:Eaf.
      * apply Z.eqb_eq in Eaf. left.
        destruct (ssub amount (c_fee c) <? MIN_FLOW); [discriminate|]. inversion Ea1 as [Ha1]; clear Ea1.
        cbn in Eeq. apply bind_ok in Eeq as [sm [Esm Eeq]]. apply cadd_ok in Esm. apply ensure_ok in Eeq. apply Z.eqb_eq in Eeq.
        cbn [negb]. rewrite andb_false_r. cbn [app]. repeat split; auto; lia.
      * apply Z.eqb_neq in Eaf. right; left. inversion Ea1 as [Ha1]; clear Ea1. cbn [negb]. rewrite !andb_true_r.
        repeat split; auto. destruct (c_fee c <? coin_sum (c_fee_asset c) fs); cbn [app]; [right; auto|left; auto].
    + right; left. inversion Ea1 as [Ha1]; clear Ea1. rewrite andb_false_r. cbn. repeat split; auto.
  - apply bind_ok in H as [u [_ H]]. inversion H; subst; clear H. right; right. auto.
Qed.

Lemma open_flow_asset_shape c sender fs al asset amount1 amount2 ms :
  open_flow_asset c sender fs al asset amount1 = Ok (amount2, ms) -> NoDup (map fst fs) ->
  let fa := c_fee_asset c in
  (is_native asset = true /\ amount2 = amount1 /\ ms = [] /\ (is_native fa = true /\ fa = asset \/ coin_sum asset fs = amount1)) \/
  (is_native asset = false /\ ms = [MPull sender SELF asset amount2]).
Proof.
  unfold open_flow_asset. intros H Hnd. cbn zeta.
  destruct (is_native asset) eqn:Ena.
  - left. destruct (is_native (c_fee_asset c) && (c_fee_asset c =? asset)) eqn:E.
    + inversion H; subst. apply andb_true_iff in E as [E1 E2]. apply Z.eqb_eq in E2. repeat split; auto.
    + apply bind_ok in H as [u [Eh H]]. inversion H; subst. apply ensure_ok in Eh.
      repeat split; auto. right. apply coin_sum_has; assumption.
  - right. destruct (is_native (c_fee_asset c)).
    + apply bind_ok in H as [u [_ H]]. inversion H; subst. auto.
    + destruct (c_fee_asset c =? asset).
      * apply bind_ok in H as [sm [_ H]]. apply bind_ok in H as [u [_ H]]. inversion H; subst. auto.
      * apply bind_ok in H as [u [_ H]]. inversion H; subst. auto.
Qed.

Lemma open_flow_fee_amount c sender fs al asset amount amount1 ms :
  open_flow_fee v_fixed c sender fs al asset amount = Ok (amount1, ms) -> amount1 = amount \/ amount1 = ssub amount (c_fee c).
Proof.
  unfold open_flow_fee. intros H. destruct (is_native (c_fee_asset c)).
  - destruct (aget (c_fee_asset c) fs); [|discriminate]. apply bind_ok in H as [a1 [Ea1 H]].
    destruct (_ <? c_fee c); [discriminate|]. apply bind_ok in H as [u [_ H]]. inversion H; subst.
    destruct (is_native asset && (asset =? c_fee_asset c)).
    + destruct (_ <? MIN_FLOW); [discriminate|]. inversion Ea1; auto.
    + inversion Ea1; auto.
  - apply bind_ok in H as [u [_ H]]. inversion H; auto.
Qed.
Lemma open_flow_asset_amount c sender fs al asset amount1 amount2 ms :
  open_flow_asset c sender fs al asset amount1 = Ok (amount2, ms) -> amount2 = amount1 \/ amount2 = ssub amount1 (c_fee c).
Proof.
  unfold open_flow_asset. intros H. destruct (is_native asset).
  - destruct (_ && _); [inversion H; auto|]. apply bind_ok in H as [u [_ H]]. inversion H; auto.
  - destruct (is_native (c_fee_asset c)); [apply bind_ok in H as [u [_ H]]; inversion H; auto|].
    destruct (_ =? asset).
    + apply bind_ok in H as [sm [_ H]]. apply bind_ok in H as [u [_ H]]. inversion H; auto.
    + apply bind_ok in H as [u [_ H]]. inversion H; auto.
Qed.

(* open_flow as a whole *)
Lemma open_flow_spec c st sender fs al so eo asset amount label st1 ms :
  open_flow v_fixed c st sender fs al so eo asset amount label = Ok (st1, ms) ->
  sender <> SELF -> cfg_wf c -> funds_wf fs ->
  exists f,
    st1 = with_flows st (flows_save f (s_flows st)) (s_counter st + 1) /\
    f_id f = s_counter st + 1 /\ f_claimed f = 0 /\ f_hist f = [] /\ f_creator f = sender /\ f_asset f = asset /\ f_label f = label /\
    s_epoch st <= f_end f /\ f_start f <= f_end f /\ (0 <= amount -> 0 <= f_amount f) /\
    (* the contract receives exactly the recorded amount of the flow asset, and never loses any other asset *)
    coin_sum asset fs + msdelta ms SELF asset = f_amount f /\
    (forall s, s <> asset -> 0 <= coin_sum s fs + msdelta ms SELF s) /\
    (* the fee goes to the collector; no third party is touched *)
    (forall x s, x <> SELF -> x <> sender -> msdelta ms x s = if (x =? c_collector c) && (s =? c_fee_asset c) then c_fee c else 0).
Proof.
  unfold open_flow. intros H Hs Hc [Hnn [Hnd Hnat]].
  apply bind_ok in H as [u0 [_ H]].
  apply bind_ok in H as [[amount1 ms1] [Efee H]].
  apply bind_ok in H as [u1 [_ H]].
  apply bind_ok in H as [[amount2 ms2] [Easset H]].
  apply bind_ok in H as [dflt [_ H]].
  apply bind_ok in H as [u2 [Ecur H]]. apply ensure_ok in Ecur. apply Z.leb_le in Ecur.
  apply bind_ok in H as [u3 [Ese H]]. apply ensure_ok in Ese. apply Z.leb_le in Ese.
  apply bind_ok in H as [lim [_ H]].
  apply bind_ok in H as [u4 [_ H]].
  apply bind_ok in H as [id [Eid H]]. apply padd_ok in Eid. inversion H; subst; clear H.
  eexists. split; [reflexivity|]. cbn [f_id f_claimed f_hist f_creator f_asset f_label f_end f_start f_amount].
  repeat (split; [first [reflexivity | assumption]|]).
  split.
  { intros Hamt. pose proof (open_flow_fee_amount _ _ _ _ _ _ _ _ Efee) as [-> | ->];
      pose proof (open_flow_asset_amount _ _ _ _ _ _ _ _ Easset) as [-> | ->]; unfold ssub; lia. }
  pose proof (open_flow_fee_shape _ _ _ _ _ _ _ _ Efee Hnd) as Hfee. cbn zeta in Hfee.
  pose proof (open_flow_asset_shape _ _ _ _ _ _ _ _ Easset Hnd) as Has. cbn zeta in Has.
  assert (Hcn : forall s, 0 <= coin_sum s fs) by (intros; apply coin_sum_nonneg; assumption).
  unfold cfg_wf in Hc.
  (* third parties *)
  assert (H3 : forall x s, x <> SELF -> x <> sender ->
            msdelta (ms1 ++ ms2) x s = if (x =? c_collector c) && (s =? c_fee_asset c) then c_fee c else 0).
  { intros x s Hx1 Hx2. rewrite msdelta_app.
    assert (E2 : msdelta ms2 x s = 0).
    { destruct Has as [[_ [_ [-> _]]]|[_ ->]]; [reflexivity|]. cbn. unfold tdelta.
      destruct (x =? SELF) eqn:E1; [apply Z.eqb_eq in E1; congruence|].
      destruct (x =? sender) eqn:E3; [apply Z.eqb_eq in E3; congruence|]. destruct (s =? asset); lia. }
    rewrite E2.
    destruct (x =? SELF) eqn:E1; [apply Z.eqb_eq in E1; congruence|].
    destruct (x =? sender) eqn:E3; [apply Z.eqb_eq in E3; congruence|].
    destruct Hfee as [[_ [_ [_ [_ ->]]]]|[[_ [_ [_ [_ [->|[_ ->]]]]]]|[_ [_ ->]]]]; cbn; unfold tdelta; rewrite ?E1, ?E3;
      destruct (s =? c_fee_asset c), (x =? c_collector c); cbn; lia. }
  split; [|split; [|exact H3]].
  - (* the flow asset *)
    rewrite msdelta_app.
    destruct Hfee as [[Enf [Ena [Eaf [Hsum ->]]]]|[[Enf [Hdiff [-> [Hge Hms]]]]|[Enf [-> ->]]]].
    + (* same native denom *)
      subst asset. destruct Has as [[_ [-> [-> _]]]|[Ena2 _]]; [|congruence].
      cbn [msdelta]. rewrite mdelta_send_self by assumption. unfold amt_if. rewrite Z.eqb_refl. lia.
    + destruct Has as [[Ena [-> [-> Hc2]]]|[Ena ->]].
      * destruct Hdiff as [Hd|Hd]; [congruence|].
        destruct Hc2 as [[_ Hc2]|Hc2]; [congruence|].
        destruct Hms as [->|[_ ->]]; cbn [msdelta]; rewrite ?mdelta_send_self by assumption; unfold amt_if;
          (destruct (asset =? c_fee_asset c) eqn:E; [apply Z.eqb_eq in E; congruence|]); lia.
      * assert (Hne : asset <> c_fee_asset c) by (intros ->; congruence).
        rewrite (coin_sum_cw20 asset fs) by assumption.
        destruct Hms as [->|[Hx _]]; [|congruence]. cbn [msdelta]. rewrite mdelta_send_self, mdelta_pull_in by assumption.
        unfold amt_if. rewrite Z.eqb_refl. destruct (asset =? c_fee_asset c) eqn:E; [apply Z.eqb_eq in E; congruence|]. lia.
    + destruct Has as [[Ena [-> [-> Hc2]]]|[Ena ->]].
      * destruct Hc2 as [[Hx _]|Hc2]; [congruence|]. cbn [msdelta]. rewrite mdelta_pull_other by assumption. lia.
      * rewrite (coin_sum_cw20 asset fs) by assumption. cbn [msdelta]. rewrite mdelta_pull_other, mdelta_pull_in by assumption.
        unfold amt_if. rewrite Z.eqb_refl. lia.
  - (* every other asset *)
    intros s Hsa. rewrite msdelta_app. specialize (Hcn s).
    assert (E2 : msdelta ms2 SELF s = 0).
    { destruct Has as [[_ [_ [-> _]]]|[_ ->]]; [reflexivity|]. cbn [msdelta]. rewrite mdelta_pull_in by assumption.
      unfold amt_if. destruct (s =? asset) eqn:E; [apply Z.eqb_eq in E; congruence|]. lia. }
    rewrite E2.
    destruct Hfee as [[Enf [Ena [Eaf [Hsum ->]]]]|[[Enf [Hdiff [-> [Hge Hms]]]]|[Enf [-> ->]]]].
    + cbn [msdelta]. rewrite mdelta_send_self by assumption. unfold amt_if.
      destruct (s =? c_fee_asset c) eqn:E; [apply Z.eqb_eq in E; congruence|]. lia.
    + destruct Hms as [->|[_ ->]]; cbn [msdelta]; rewrite ?mdelta_send_self by assumption; unfold amt_if;
        (destruct (s =? c_fee_asset c) eqn:E; [apply Z.eqb_eq in E; subst s|]); lia.
    + cbn [msdelta]. rewrite mdelta_pull_other by assumption. lia.
Qed.

(* ---- expand_flow -------------------------------------------------------------------------------------------- *)
Lemma expand_payment_spec sender fs al asset amount ms :
  expand_payment sender fs al asset amount = Ok ms -> sender <> SELF -> funds_wf fs ->
  coin_sum asset fs + msdelta ms SELF asset = amount /\
  (forall s, s <> asset -> 0 <= coin_sum s fs + msdelta ms SELF s) /\
  (forall x s, x <> SELF -> x <> sender -> msdelta ms x s = 0).
Proof.
  unfold expand_payment. intros H Hs [Hnn [Hnd Hnat]].
  destruct (is_native asset) eqn:Ena.
  - apply bind_ok in H as [paid [Ep H]]. destruct (paid =? amount) eqn:E; [|discriminate]. apply Z.eqb_eq in E. subst paid.
    inversion H; subst. split; [|split; [|reflexivity]].
    + rewrite (must_pay_sum _ _ _ Ep). cbn. rewrite Z.eqb_refl. lia.
    + intros s Hne. pose proof (coin_sum_nonneg s fs Hnn). cbn. lia.
  - destruct (aget0 asset al <? amount); [discriminate|]. inversion H; subst. split; [|split].
    + cbn [msdelta]. rewrite mdelta_pull_in by assumption. unfold amt_if. rewrite Z.eqb_refl.
      rewrite (coin_sum_cw20 asset fs) by assumption. lia.
    + intros s Hne. pose proof (coin_sum_nonneg s fs Hnn). cbn [msdelta]. rewrite mdelta_pull_in by assumption. unfold amt_if.
      destruct (s =? asset) eqn:E; [apply Z.eqb_eq in E; congruence|]. lia.
    + intros x s Hx1 Hx2. cbn. unfold tdelta.
      destruct (x =? SELF) eqn:E1; [apply Z.eqb_eq in E1; congruence|].
      destruct (x =? sender) eqn:E3; [apply Z.eqb_eq in E3; congruence|]. destruct (s =? asset); lia.
Qed.

Lemma flows_remove_absent s i l : ~ In i (map f_id l) -> flows_remove s i l = l.
Proof.
  induction l as [|g r IH]; cbn; [reflexivity|]. intros H.
  destruct (key_eq (f_start g) (f_id g) s i) eqn:E; [apply key_eq_true in E as [_ E]; tauto|]. rewrite IH; tauto.
Qed.

Lemma flow_funded_hist f : flow_funded f = match hist_last (f_hist f) with Some (a, _) => a | None => f_amount f end.
Proof. unfold flow_funded, flow_latest. destruct (hist_last (f_hist f)) as [[a e]|]; reflexivity. Qed.

Lemma expand_record_spec f1 cur end_e amount f2 :
  hist_ok (cur + 1) (f_hist f1) ->
  expand_record f1 cur (cur + 1) end_e amount = Ok f2 ->
  f_id f2 = f_id f1 /\ f_label f2 = f_label f1 /\ f_creator f2 = f_creator f1 /\ f_asset f2 = f_asset f1 /\ f_start f2 = f_start f1 /\
  f_claimed f2 = f_claimed f1 /\ flow_funded f2 = flow_funded f1 + amount /\ hist_ok (cur + 1) (f_hist f2).
Proof.
  unfold expand_record. intros Hok H.
  destruct (hist_get (cur + 1) (f_hist f1)) as [[existing e0]|] eqn:Eg.
  - apply bind_ok in H as [a [Ea H]]. apply cadd_ok in Ea. inversion H; subst; clear H. cbn.
    destruct (hist_put_top (cur + 1) (f_hist f1) (existing + amount, end_e) Hok) as [P1 [P2 [P3 _]]].
    repeat split; auto. rewrite !flow_funded_hist. cbn. rewrite P1, (P3 _ Eg). reflexivity.
  - apply bind_ok in H as [a [Ea H]]. apply cadd_ok in Ea. inversion H; subst; clear H. cbn.
    destruct (hist_put_top (cur + 1) (f_hist f1) (get_flow_asset_amount_at_epoch f1 cur + amount, end_e) Hok) as [P1 [P2 [_ P4]]].
    repeat split; auto. rewrite !flow_funded_hist. cbn. rewrite P1. unfold get_flow_asset_amount_at_epoch.
    specialize (P4 Eg None). replace (cur + 1 - 1) with cur in P4 by lia. rewrite P4.
    destruct (hist_last (f_hist f1)) as [[a e]|]; reflexivity.
Qed.

Lemma expand_flow_spec c st sender fs al x eo asset amount st1 ms :
  expand_flow v_fixed c st sender fs al x eo asset amount = Ok (st1, ms) ->
  Inv c st -> sender <> SELF -> funds_wf fs ->
  exists f f2,
    find_flow x (s_flows st) = Some f /\ In f (s_flows st) /\ f_asset f = asset /\
    f_id f2 = f_id f /\ f_label f2 = f_label f /\ f_creator f2 = f_creator f /\ f_asset f2 = asset /\
    flow_funded f2 - f_claimed f2 = flow_funded f - f_claimed f + amount /\
    f_claimed f2 <= flow_funded f2 - amount /\
    hist_ok (s_epoch st + 1) (f_hist f2) /\
    st1 = with_flows st (flows_insert f2 (flows_remove (f_start f) (f_id f) (s_flows st))) (s_counter st) /\
    coin_sum asset fs + msdelta ms SELF asset = amount /\
    (forall s, s <> asset -> 0 <= coin_sum s fs + msdelta ms SELF s) /\
    (forall x s, x <> SELF -> x <> sender -> msdelta ms x s = 0).
Proof.
  unfold expand_flow. intros H HI Hs Hwf.
  destruct (find_flow x (s_flows st)) as [f|] eqn:Ef; [|discriminate].
  pose proof (find_flow_in _ _ _ Ef) as Hin.
  apply bind_ok in H as [u0 [_ H]].
  apply bind_ok in H as [u1 [Eas H]]. apply ensure_ok in Eas. apply Z.eqb_eq in Eas.
  apply bind_ok in H as [ms0 [Epay H]].
  apply bind_ok in H as [eu [_ H]].
  apply bind_ok in H as [u2 [_ H]].
  apply bind_ok in H as [next [En H]]. apply cadd_ok in En. subst next.
  apply bind_ok in H as [f2 [Erec H]].
  apply bind_ok in H as [u3 [_ H]].
  apply bind_ok in H as [u4 [_ H]].
  inversion H; subst st1 ms; clear H.
  destruct (expand_payment_spec _ _ _ _ _ _ Epay Hs Hwf) as [M1 [M2 M3]].
  pose proof (proj1 (Forall_forall _ _) (inv_claimed _ _ HI) f Hin) as Hcl. cbn in Hcl.
  pose proof (proj1 (Forall_forall _ _) (inv_hist _ _ HI) f Hin) as Hh. cbn in Hh.
  pose proof (flows_remove_out 0 f (s_flows st) Hin (inv_ids _ _ HI)) as [_ Habs].
  exists f, f2. split; [reflexivity|]. split; [assumption|]. split; [assumption|].
  destruct (EXP_LIMIT <? ssub (get_flow_end_epoch f) (f_start f)) eqn:Er.
  - (* reset *)
    assert (Hok1 : hist_ok (s_epoch st + 1) (f_hist (expand_reset v_fixed f (s_epoch st) (get_flow_end_epoch f) asset amount))) by (cbn; exact I).
    destruct (expand_record_spec _ _ _ _ _ Hok1 Erec) as [R1 [R2 [R3 [R4 [R5 [R6 [R7 R8]]]]]]]. cbn in R1, R2, R3, R4, R5, R6.
    assert (Hf1 : flow_funded (expand_reset v_fixed f (s_epoch st) (get_flow_end_epoch f) asset amount) = flow_funded f - f_claimed f).
    { rewrite flow_funded_hist. cbn. rewrite (flow_funded_hist f) in *. destruct (hist_last (f_hist f)) as [[a e]|]; apply ssub_le; lia. }
    rewrite R7, R6, Hf1.
    repeat (split; [first [assumption | lia | congruence]|]).
    split; [|auto].
    unfold flows_save. rewrite R5, R1. cbn [f_start expand_reset].
    rewrite (flows_remove_absent (s_epoch st) (f_id f)) by exact Habs. reflexivity.
  - destruct (expand_record_spec _ _ _ _ _ Hh Erec) as [R1 [R2 [R3 [R4 [R5 [R6 [R7 R8]]]]]]].
    rewrite R7, R6.
    repeat (split; [first [assumption | lia | congruence]|]).
    split; [|auto].
    unfold flows_save. rewrite R5, R1. reflexivity.
Qed.

(* ---- close_flow --------------------------------------------------------------------------------------------- *)
Lemma close_flow_spec c st sender x st1 ms :
  close_flow v_fixed c st sender x = Ok (st1, ms) ->
  exists f,
    find_flow x (s_flows st) = Some f /\ In f (s_flows st) /\
    (f_creator f = sender \/ sender = c_owner c) /\
    st1 = with_flows st (flows_remove (f_start f) (f_id f) (s_flows st)) (s_counter st) /\
    ms = [MSend (f_creator f) (f_asset f) (ssub (flow_funded f) (f_claimed f))].
Proof.
  unfold close_flow. intros H. destruct (find_flow x (s_flows st)) as [f|] eqn:Ef; [|discriminate].
  apply bind_ok in H as [u [Ea H]]. apply ensure_ok in Ea. apply orb_true_iff in Ea. inversion H; subst; clear H.
  exists f. repeat split; eauto using find_flow_in.
  destruct Ea as [E|E]; apply Z.eqb_eq in E; auto.
Qed.

(* ---- claim ---------------------------------------------------------------------------------------------------- *)
Definition claim_rel (f g : flow) : Prop :=
  same_frame f g /\ (f_claimed f <= flow_funded f -> f_claimed g <= flow_funded g).

Lemma claim_spec c st sender st1 ms :
  claim v_fixed c st sender = Ok (st1, ms) ->
  exists fl',
    Forall2 claim_rel (s_flows st) fl' /\
    s_flows st1 = fl' /\ s_counter st1 = s_counter st /\ s_epoch st1 = s_epoch st /\ s_bal st1 = s_bal st /\
    s_open st1 = s_open st /\ s_closed st1 = s_closed st /\ s_gw st1 = s_gw st /\ s_aw st1 = s_aw st /\ s_snap st1 = s_snap st /\
    (forall x s, msdelta ms x s = (flows_out s (s_flows st) - flows_out s fl') * (ind x sender - ind x SELF)).
Proof.
  unfold claim. intros H. destruct (aget (s_epoch st) (s_snap st)); [|discriminate].
  apply bind_ok in H as [u [_ H]]. apply bind_ok in H as [[[fl ms0] lw] [Ecl H]]. apply bind_ok in H as [nxt [_ H]].
  inversion H; subst; clear H. apply claim_flows_spec in Ecl as [C1 C2].
  exists fl. cbn. repeat split; auto.
Qed.

Lemma claim_rel_ids l l' : Forall2 claim_rel l l' -> map f_id l' = map f_id l.
Proof. induction 1 as [|f g l l' [[E _] _] _ IH]; cbn; [reflexivity|]. rewrite E, IH. reflexivity. Qed.

Lemma claim_rel_Forall (P : flow -> Prop) l l' :
  (forall f g, claim_rel f g -> P f -> P g) -> Forall2 claim_rel l l' -> Forall P l -> Forall P l'.
Proof.
  intros HP. induction 1 as [|f g l l' R _ IH]; intros H; [constructor|]. inversion H; subst. constructor; eauto.
Qed.

(* ---- positions -------------------------------------------------------------------------------------------------- *)
Lemma validate_funds_spec c sender fs al amount ms :
  validate_funds_sent c sender fs al amount = Ok ms -> sender <> SELF -> funds_wf fs ->
  coin_sum (c_lp c) fs + msdelta ms SELF (c_lp c) = amount /\
  (forall s, s <> c_lp c -> 0 <= coin_sum s fs + msdelta ms SELF s) /\
  (forall x s, x <> SELF -> x <> sender -> msdelta ms x s = 0) /\
  (forall s, msdelta ms sender s + fdelta sender fs sender s = - amt_if s (c_lp c) amount - (if s =? c_lp c then 0 else coin_sum s fs)).
Proof.
  unfold validate_funds_sent. intros H Hs [Hnn [Hnd Hnat]].
  destruct (amount =? 0); [discriminate|].
  assert (Hfd : forall s, fdelta sender fs sender s = - coin_sum s fs).
  { intros s. clear -Hs. induction fs as [|[d a] r IH]; cbn; [lia|]. rewrite IH. unfold tdelta. rewrite Z.eqb_refl.
    destruct (sender =? SELF) eqn:E; [apply Z.eqb_eq in E; congruence|]. rewrite (Z.eqb_sym s d). destruct (d =? s); lia. }
  destruct (is_native (c_lp c)) eqn:Ena.
  - apply bind_ok in H as [paid [Ep H]]. destruct (paid =? amount) eqn:E; [|discriminate]. apply Z.eqb_eq in E. subst paid.
    inversion H; subst. split; [|split; [|split; [reflexivity|]]].
    + rewrite (must_pay_sum _ _ _ Ep). cbn. rewrite Z.eqb_refl. lia.
    + intros s Hne. pose proof (coin_sum_nonneg s fs Hnn). cbn. lia.
    + intros s. rewrite Hfd. cbn. rewrite (must_pay_sum _ _ _ Ep). unfold amt_if. rewrite (Z.eqb_sym s (c_lp c)). destruct (c_lp c =? s); lia.
  - destruct (aget0 (c_lp c) al <? amount); [discriminate|]. inversion H; subst. split; [|split; [|split]].
    + cbn [msdelta]. rewrite mdelta_pull_in by assumption. unfold amt_if. rewrite Z.eqb_refl.
      rewrite (coin_sum_cw20 (c_lp c) fs) by assumption. lia.
    + intros s Hne. pose proof (coin_sum_nonneg s fs Hnn). cbn [msdelta]. rewrite mdelta_pull_in by assumption. unfold amt_if.
      destruct (s =? c_lp c) eqn:E; [apply Z.eqb_eq in E; congruence|]. lia.
    + intros x s Hx1 Hx2. cbn. unfold tdelta.
      destruct (x =? SELF) eqn:E1; [apply Z.eqb_eq in E1; congruence|].
      destruct (x =? sender) eqn:E3; [apply Z.eqb_eq in E3; congruence|]. destruct (s =? c_lp c); lia.
    + intros s. rewrite Hfd. cbn. unfold tdelta, amt_if. rewrite Z.eqb_refl.
      destruct (sender =? SELF) eqn:E; [apply Z.eqb_eq in E; congruence|].
      destruct (s =? c_lp c) eqn:E2; [apply Z.eqb_eq in E2; subst s; rewrite (coin_sum_cw20 (c_lp c) fs) by assumption|]; lia.
Qed.

Lemma pos_sum_app l1 l2 : pos_sum (l1 ++ l2) = pos_sum l1 + pos_sum l2.
Proof. unfold pos_sum. induction l1; cbn; lia. Qed.

Lemma pos_add_sum a d amt l l' : pos_add a d amt l = Some l' -> pos_sum l' = pos_sum l + amt.
Proof.
  revert l'. induction l as [|[a' [m d']] r IH]; cbn; intros l' H; [discriminate|].
  destruct ((a' =? a) && (d' =? d)).
  - inversion H; subst. unfold pos_sum. cbn. lia.
  - destruct (pos_add a d amt r) as [r'|]; [|discriminate]. inversion H; subst. specialize (IH _ eq_refl).
    unfold pos_sum in *. cbn. lia.
Qed.

Lemma pos_take_sum a d l m l' : pos_take a d l = Some (m, l') -> pos_sum l' = pos_sum l - m.
Proof.
  revert m l'. induction l as [|[a' [m0 d']] r IH]; cbn; intros m l' H; [discriminate|].
  destruct ((a' =? a) && (d' =? d)).
  - inversion H; subst. unfold pos_sum. cbn. lia.
  - destruct (pos_take a d r) as [[m' r']|]; [|discriminate]. inversion H; subst. specialize (IH _ _ eq_refl).
    unfold pos_sum in *. cbn. lia.
Qed.

Lemma pos_split a l : pos_sum l = pos_sum (pos_of a l) + pos_sum (pos_not a l).
Proof.
  unfold pos_sum, pos_of, pos_not. induction l as [|p r IH]; cbn; [reflexivity|].
  destruct (fst p =? a); cbn; lia.
Qed.

(* ---- the invariant is preserved by every operation ---------------------------------------------------------------- *)
Local Arguments pos_sum : simpl never.
Local Arguments flows_out : simpl never.
Lemma MIN_FLOW_nonneg : 0 <= MIN_FLOW.
Proof. unfold MIN_FLOW, Params.MIN_FLOW_AMOUNT. lia. Qed.

Lemma Forall_impl2 {A} (P Q : A -> Prop) l : (forall x, In x l -> P x -> Q x) -> Forall P l -> Forall Q l.
Proof. intros H HP. apply Forall_forall. intros x Hx. apply H; [assumption|]. eapply Forall_forall; eauto. Qed.

Lemma msdelta_self_send to a amt s : to <> SELF -> msdelta [MSend to a amt] SELF s = - amt_if s a amt.
Proof. intros. cbn [msdelta]. rewrite mdelta_send_self by assumption. lia. Qed.

(* position operations as calls (used for direct calls and for the frontend helper) *)
Lemma inv_same_self c st b :
  Inv c st -> (forall a, b SELF a = s_bal st SELF a) ->
  Inv c (mkState (s_epoch st) b (s_flows st) (s_counter st) (s_open st) (s_closed st) (s_gw st) (s_aw st) (s_snap st) (s_awh st) (s_last st)).
Proof.
  intros [Icl Iid Ictr Ihist Icre Icov] Hb. constructor; cbn; auto.
  intros a. rewrite Hb. specialize (Icov a). unfold oblig, staked in *. cbn. exact Icov.
Qed.

Lemma open_position_inv c st sender fs al amount d recv st2 :
  Inv c st -> sender <> SELF -> funds_wf fs ->
  call st sender fs al (open_position c st sender fs al amount d recv) = Ok st2 -> Inv c st2.
Proof.
  intros [Icl Iid Ictr Ihist Icre Icov] Hs Hfw Hstep.
  apply call_ok in Hstep as [st1 [ms [Eh [Hbal Est]]]].
  unfold open_position in Eh. apply bind_ok in Eh as [u0 [_ Eh]]. apply bind_ok in Eh as [ms0 [Ev Eh]].
  apply bind_ok in Eh as [u1 [_ Eh]]. apply bind_ok in Eh as [w [_ Eh]]. apply bind_ok in Eh as [[[gw aw] awh] [_ Eh]].
  inversion Eh; subst st1 ms; clear Eh.
  destruct (validate_funds_spec _ _ _ _ _ _ Ev Hs Hfw) as [M1 [M2 _]].
  rewrite Est. constructor; cbn; auto.
  intros a. rewrite Hbal, fdelta_self by assumption. unfold oblig, staked. cbn. rewrite pos_sum_app.
  specialize (Icov a). unfold oblig, staked in Icov. unfold pos_sum at 2. cbn.
  destruct (a =? c_lp c) eqn:E.
  + apply Z.eqb_eq in E. subst a. lia.
  + apply Z.eqb_neq in E. specialize (M2 a E). lia.
Qed.

Lemma expand_position_inv c st sender fs al amount d recv st2 :
  Inv c st -> sender <> SELF -> funds_wf fs ->
  call st sender fs al (expand_position c st sender fs al amount d recv) = Ok st2 -> Inv c st2.
Proof.
  intros [Icl Iid Ictr Ihist Icre Icov] Hs Hfw Hstep.
  apply call_ok in Hstep as [st1 [ms [Eh [Hbal Est]]]].
  unfold expand_position in Eh. apply bind_ok in Eh as [ms0 [Ev Eh]].
  destruct (pos_add _ d amount (s_open st)) as [op'|] eqn:Ep; [|discriminate].
  apply bind_ok in Eh as [u1 [_ Eh]]. apply bind_ok in Eh as [w [_ Eh]]. apply bind_ok in Eh as [[[gw aw] awh] [_ Eh]].
  inversion Eh; subst st1 ms; clear Eh.
  destruct (validate_funds_spec _ _ _ _ _ _ Ev Hs Hfw) as [M1 [M2 _]].
  rewrite Est. constructor; cbn; auto.
  intros a. rewrite Hbal, fdelta_self by assumption. unfold oblig, staked. cbn. rewrite (pos_add_sum _ _ _ _ _ Ep).
  specialize (Icov a). unfold oblig, staked in Icov.
  destruct (a =? c_lp c) eqn:E.
  + apply Z.eqb_eq in E. subst a. lia.
  + apply Z.eqb_neq in E. specialize (M2 a E). lia.
Qed.

(* ---- frontend helper: its ledger moves never touch the incentive contract's own balances ----------------------------- *)
Lemma transfer_other b from to a amt b' x s : transfer b from to a amt = Ok b' -> x <> from -> x <> to -> b' x s = b x s.
Proof.
  intros H H1 H2. rewrite (transfer_delta _ _ _ _ _ _ H). unfold tdelta.
  destruct (x =? to) eqn:E1; [apply Z.eqb_eq in E1; congruence|].
  destruct (x =? from) eqn:E2; [apply Z.eqb_eq in E2; congruence|]. destruct (s =? a); lia.
Qed.
Lemma move_coins_other fs : forall b from to b' x s, move_coins fs b from to = Ok b' -> x <> from -> x <> to -> b' x s = b x s.
Proof.
  induction fs as [|[d a] r IH]; cbn; intros b from to b' x s H H1 H2; [inversion H; reflexivity|].
  apply bind_ok in H as [b1 [E H]]. rewrite (IH _ _ _ _ _ _ H H1 H2). eapply transfer_other; eauto.
Qed.
Lemma HELPER_not_SELF : HELPER <> SELF. Proof. discriminate. Qed.
Lemma PAIR_not_SELF : PAIR <> SELF. Proof. discriminate. Qed.

Lemma helper_deposit_self v c st user fs al a0 d0 a1 d1 dur pair_ok minted oh eh r b6 lpb :
  helper_deposit v c st user fs al a0 d0 a1 d1 dur pair_ok minted oh eh = Ok (r, b6, lpb) -> user <> SELF ->
  (forall a, b6 SELF a = s_bal st SELF a) /\
  (if has_pos user dur (s_open st)
   then eh (mkState (s_epoch st) b6 (s_flows st) (s_counter st) (s_open st) (s_closed st) (s_gw st) (s_aw st) (s_snap st) (s_awh st) (s_last st)) lpb
   else oh (mkState (s_epoch st) b6 (s_flows st) (s_counter st) (s_open st) (s_closed st) (s_gw st) (s_aw st) (s_snap st) (s_awh st) (s_last st)) lpb) = Ok r.
Proof.
  unfold helper_deposit. intros H Hu.
  apply bind_ok in H as [u0 [_ H]]. apply bind_ok in H as [b0 [E0 H]]. apply bind_ok in H as [b1 [E1 H]].
  apply bind_ok in H as [b2 [E2 H]]. apply bind_ok in H as [u1 [_ H]]. apply bind_ok in H as [b3 [E3 H]].
  apply bind_ok in H as [b4 [E4 H]]. apply bind_ok in H as [b5 [E5 H]]. apply bind_ok in H as [u2 [_ H]].
  apply bind_ok in H as [u3 [_ H]]. apply bind_ok in H as [r0 [Er H]]. inversion H; subst; clear H.
  split; [|exact Er].
  intros a. unfold upd_bal. destruct (SELF =? HELPER) eqn:E; [discriminate|]. cbn [andb].
  assert (H5 : b5 SELF a = b4 SELF a).
  { unfold helper_forward in E5. destruct (is_native a1); [inversion E5; reflexivity|]. eapply (transfer_other _ _ _ _ _ _ SELF a); [exact E5|discriminate|discriminate]. }
  assert (H4 : b4 SELF a = b3 SELF a).
  { unfold helper_forward in E4. destruct (is_native a0); [inversion E4; reflexivity|]. eapply (transfer_other _ _ _ _ _ _ SELF a); [exact E4|discriminate|discriminate]. }
  assert (H3 : b3 SELF a = b2 SELF a) by (eapply (move_coins_other _ _ _ _ _ SELF a); [exact E3|discriminate|discriminate]).
  assert (H2 : b2 SELF a = b1 SELF a).
  { unfold helper_pull in E2. destruct (is_native a1); [inversion E2; reflexivity|]. destruct (_ =? d1); [|discriminate]. eapply (transfer_other _ _ _ _ _ _ SELF a); [exact E2|congruence|discriminate]. }
  assert (H1 : b1 SELF a = b0 SELF a).
  { unfold helper_pull in E1. destruct (is_native a0); [inversion E1; reflexivity|]. destruct (_ =? d0); [|discriminate]. eapply (transfer_other _ _ _ _ _ _ SELF a); [exact E1|congruence|discriminate]. }
  assert (H0 : b0 SELF a = s_bal st SELF a) by (eapply (move_coins_other _ _ _ _ _ SELF a); [exact E0|congruence|discriminate]).
  congruence.
Qed.

Theorem step_inv c st o st2 :
  cfg_wf c -> op_wf o -> Inv c st -> step v_fixed c st o = Ok st2 -> Inv c st2.
Proof.
  intros Hc Hwf HI Hstep. destruct HI as [Icl Iid Ictr Ihist Icre Icov].
  destruct o; cbn [step op_wf] in *.
  - (* NewEpoch *)
    apply bind_ok in Hstep as [e [Ee H]]. apply padd_ok in Ee. inversion H; subst; clear H.
    constructor; cbn; auto.
    eapply Forall_impl; [|exact Ihist]. cbn. intros f Hf. eapply hist_ok_mono; [|exact Hf]. lia.
  - (* Donate *)
    destruct Hwf as [Hs Hamt]. apply bind_ok in Hstep as [b [Eb H]]. inversion H; subst; clear H.
    constructor; cbn; auto. intros a. rewrite (transfer_delta _ _ _ _ _ _ Eb). unfold tdelta.
    rewrite Z.eqb_refl. destruct (SELF =? sender) eqn:E; [apply Z.eqb_eq in E; congruence|].
    specialize (Icov a). unfold oblig, staked in *. cbn. destruct (a =? asset), (a =? c_lp c); lia.
  - (* Gift *)
    destruct Hwf as [Hs Hamt]. apply bind_ok in Hstep as [b [Eb H]]. inversion H; subst; clear H.
    constructor; cbn; auto. intros a. rewrite (transfer_delta _ _ _ _ _ _ Eb). unfold tdelta.
    destruct (SELF =? sender) eqn:E; [apply Z.eqb_eq in E; congruence|].
    specialize (Icov a). unfold oblig, staked in *. cbn [s_flows s_open s_closed s_bal with_bal]. destruct (a =? asset), (SELF =? to), (a =? c_lp c); lia.
  - (* Snapshot *)
    apply call_ok in Hstep as [st1 [ms [Eh [Hbal Est]]]]. unfold take_snapshot in Eh.
    destruct (aget (s_epoch st) (s_snap st)); [discriminate|]. inversion Eh; subst st1 ms; clear Eh.
    rewrite Est. constructor; cbn; auto. intros a. rewrite Hbal. cbn. specialize (Icov a). unfold oblig, staked in *. cbn. lia.
  - (* OpenFlow *)
    destruct Hwf as [Hs [Hfw Hamt]]. apply call_ok in Hstep as [st1 [ms [Eh [Hbal Est]]]].
    destruct (open_flow_spec _ _ _ _ _ _ _ _ _ _ _ _ Eh Hs Hc Hfw) as [f [E1 [Fid [Fcl [Fh [Fcr [Fas [_ [_ [_ [Fnn [M1 [M2 _]]]]]]]]]]]]].
    assert (Habs : ~ In (f_id f) (map f_id (s_flows st))).
    { intros Hin. apply in_map_iff in Hin as [g [Eg Hg]]. pose proof (proj1 (Forall_forall _ _) Ictr g Hg) as Hle. cbn in Hle. lia. }
    assert (Efl : flows_save f (s_flows st) = flows_insert f (s_flows st)).
    { unfold flows_save. rewrite flows_remove_absent by exact Habs. reflexivity. }
    rewrite Est, E1. constructor; cbn [s_flows s_counter s_epoch s_bal with_bal with_flows]; rewrite ?Efl.
    + apply flows_insert_Forall; [|assumption]. rewrite flow_funded_hist, Fh, Fcl. cbn. auto.
    + apply flows_insert_nodup; assumption.
    + apply flows_insert_Forall; [lia|]. eapply Forall_impl; [|exact Ictr]. cbn. intros; lia.
    + apply flows_insert_Forall; [rewrite Fh; exact I|assumption].
    + apply flows_insert_Forall; [congruence|assumption].
    + intros a. rewrite Hbal, fdelta_self by assumption. unfold oblig, staked. cbn [s_flows s_open s_closed with_bal with_flows].
      rewrite ?Efl, flows_out_insert. specialize (Icov a). unfold oblig, staked in Icov.
      unfold fout, flow_out. rewrite Fas, flow_funded_hist, Fh, Fcl. cbn [hist_last].
      destruct (asset =? a) eqn:E.
      * apply Z.eqb_eq in E. subst a. lia.
      * apply Z.eqb_neq in E. specialize (M2 a). lia.
  - (* ExpandFlow *)
    destruct Hwf as [Hs [Hfw Hamt]]. apply call_ok in Hstep as [st1 [ms [Eh [Hbal Est]]]].
    pose proof (mkInv c st Icl Iid Ictr Ihist Icre Icov) as HI.
    destruct (expand_flow_spec _ _ _ _ _ _ _ _ _ _ _ Eh HI Hs Hfw) as [f [f2 [_ [Hin [Fas [Fid [_ [Fcr [Fas2 [Fout [Fcl [Fh [E1 [M1 [M2 _]]]]]]]]]]]]]]].
    destruct (flows_remove_out 0 f (s_flows st) Hin Iid) as [_ Habs].
    rewrite Est, E1. constructor; cbn [s_flows s_counter s_epoch s_bal with_bal with_flows].
    + apply flows_insert_Forall; [lia|]. apply flows_remove_Forall. assumption.
    + apply flows_insert_nodup; [rewrite Fid; assumption|]. apply flows_remove_nodup. assumption.
    + apply flows_insert_Forall; [|apply flows_remove_Forall; assumption].
      rewrite Fid. exact (proj1 (Forall_forall _ _) Ictr f Hin).
    + apply flows_insert_Forall; [assumption|apply flows_remove_Forall; assumption].
    + apply flows_insert_Forall; [|apply flows_remove_Forall; assumption].
      rewrite Fcr. exact (proj1 (Forall_forall _ _) Icre f Hin).
    + intros a. rewrite Hbal, fdelta_self by assumption. unfold oblig, staked. cbn [s_flows s_open s_closed with_bal with_flows].
      rewrite flows_out_insert. destruct (flows_remove_out a f (s_flows st) Hin Iid) as [Ho _]. rewrite Ho.
      specialize (Icov a). unfold oblig, staked in Icov. unfold fout, flow_out. rewrite Fas2, Fas.
      destruct (asset =? a) eqn:E.
      * apply Z.eqb_eq in E. subst a. lia.
      * apply Z.eqb_neq in E. specialize (M2 a). lia.
  - (* CloseFlow *)
    apply call_ok in Hstep as [st1 [ms [Eh [Hbal Est]]]].
    destruct (close_flow_spec _ _ _ _ _ _ Eh) as [f [_ [Hin [_ [E1 Ems]]]]].
    pose proof (proj1 (Forall_forall _ _) Icl f Hin) as Hcl. cbn in Hcl.
    pose proof (proj1 (Forall_forall _ _) Icre f Hin) as Hcr. cbn in Hcr.
    rewrite Est, E1. constructor; cbn [s_flows s_counter s_epoch s_bal with_bal with_flows].
    + apply flows_remove_Forall; assumption.
    + apply flows_remove_nodup; assumption.
    + apply flows_remove_Forall; assumption.
    + apply flows_remove_Forall; assumption.
    + apply flows_remove_Forall; assumption.
    + intros a. rewrite Hbal, Ems, msdelta_self_send by assumption. cbn [fdelta].
      unfold oblig, staked. cbn [s_flows s_open s_closed with_bal with_flows].
      destruct (flows_remove_out a f (s_flows st) Hin Iid) as [Ho _]. rewrite Ho.
      specialize (Icov a). unfold oblig, staked in Icov. unfold fout, flow_out, amt_if. rewrite ssub_le by lia.
      rewrite (Z.eqb_sym a (f_asset f)). destruct (f_asset f =? a); lia.
  - (* Claim *)
    apply call_ok in Hstep as [st1 [ms [Eh [Hbal Est]]]].
    destruct (claim_spec _ _ _ _ _ Eh) as [fl' [HR [E1 [E2 [E3 [E4 [E5 [E6 [_ [_ [_ Hms]]]]]]]]]]].
    rewrite Est. constructor; cbn [s_flows s_counter s_epoch s_bal with_bal]; rewrite ?E1, ?E2, ?E3.
    + eapply claim_rel_Forall; [|exact HR|exact Icl]. cbn. intros f g [_ H] Hf. auto.
    + rewrite (claim_rel_ids _ _ HR). assumption.
    + eapply claim_rel_Forall; [|exact HR|exact Ictr]. cbn. intros f g [[E _] _] Hf. lia.
    + eapply claim_rel_Forall; [|exact HR|exact Ihist]. cbn. intros f g [[_ [_ [_ [_ [_ [_ [_ E]]]]]]] _] Hf. rewrite E. assumption.
    + eapply claim_rel_Forall; [|exact HR|exact Icre]. cbn. intros f g [[_ [_ [E _]]] _] Hf. congruence.
    + intros a. rewrite Hbal, Hms. cbn [fdelta]. unfold oblig, staked. cbn [s_flows s_open s_closed with_bal]. rewrite E1, E5, E6.
      specialize (Icov a). unfold oblig, staked in Icov. unfold ind. rewrite Z.eqb_refl.
      destruct (SELF =? sender) eqn:E; [apply Z.eqb_eq in E; congruence|]. lia.
  - (* OpenPosition *)
    destruct Hwf as [Hs [Hfw Hamt]]. eapply open_position_inv; eauto. constructor; assumption.
  - (* ExpandPosition *)
    destruct Hwf as [Hs [Hfw Hamt]]. eapply expand_position_inv; eauto. constructor; assumption.
  - (* ClosePosition *)
    apply call_ok in Hstep as [st1 [ms [Eh [Hbal Est]]]].
    unfold close_position in Eh. apply bind_ok in Eh as [u0 [_ Eh]].
    destruct (pos_take sender d (s_open st)) as [[amount op']|] eqn:Ep; [|discriminate].
    apply bind_ok in Eh as [ts [_ Eh]]. apply bind_ok in Eh as [w [_ Eh]]. apply bind_ok in Eh as [u1 [_ Eh]].
    inversion Eh; subst st1 ms; clear Eh.
    rewrite Est. constructor; cbn; auto.
    intros a. rewrite Hbal. cbn. unfold oblig, staked. cbn. rewrite pos_sum_app, (pos_take_sum _ _ _ _ _ Ep).
    specialize (Icov a). unfold oblig, staked in Icov. unfold pos_sum at 3. cbn. destruct (a =? c_lp c); lia.
  - (* Withdraw *)
    apply call_ok in Hstep as [st1 [ms [Eh [Hbal Est]]]].
    unfold withdraw in Eh. apply bind_ok in Eh as [u0 [_ Eh]].
    pose proof (pos_split sender (s_closed st)) as Hsp.
    destruct (pos_sum (pos_of sender (s_closed st)) =? 0) eqn:Ez; inversion Eh; subst st1 ms; clear Eh;
      rewrite Est; constructor; cbn [s_flows s_counter s_epoch s_bal with_bal with_positions]; auto;
      intros a; rewrite Hbal; unfold oblig, staked; cbn [s_flows s_open s_closed with_bal with_positions fdelta];
      specialize (Icov a); unfold oblig, staked in Icov.
    + apply Z.eqb_eq in Ez. cbn. destruct (a =? c_lp c); lia.
    + rewrite msdelta_self_send by assumption. unfold amt_if. destruct (a =? c_lp c); lia.
  - (* HelperDeposit *)
    destruct Hwf as [Hu Hfw]. apply bind_ok in Hstep as [[[r b6] lpb] [Eh Hstep]].
    destruct (helper_deposit_self _ _ _ _ _ _ _ _ _ _ _ _ _ _ _ _ _ _ Eh Hu) as [Hself Hr].
    pose proof (inv_same_self c st b6 (mkInv c st Icl Iid Ictr Ihist Icre Icov) Hself) as HI1.
    assert (Hfw0 : funds_wf []) by (repeat split; constructor).
    destruct (has_pos user dur (s_open st)); rewrite <- Hr in Hstep.
    + eapply expand_position_inv; [exact HI1|exact HELPER_not_SELF|exact Hfw0|exact Hstep].
    + eapply open_position_inv; [exact HI1|exact HELPER_not_SELF|exact Hfw0|exact Hstep].
Qed.

Definition well_formed (c : cfg) (h : list op) : Prop := cfg_wf c /\ Forall op_wf h.

Theorem history_inv c h : forall st,
  well_formed c h -> Inv c st -> Inv c (run_history v_fixed c st h).
Proof.
  induction h as [|o r IH]; intros st [Hc Hw] HI; [exact HI|]. inversion Hw; subst. cbn.
  apply IH; [split; assumption|]. unfold step_total.
  destruct (step v_fixed c st o) as [st'| |] eqn:E; [|assumption|assumption].
  eapply step_inv; eauto.
Qed.

Lemma init_inv c e b : (forall a, 0 <= b SELF a) -> Inv c (init_state e b).
Proof.
  intros Hb. constructor; cbn; try constructor. intros a. unfold oblig, staked, pos_sum. cbn. destruct (a =? c_lp c); apply Hb.
Qed.
