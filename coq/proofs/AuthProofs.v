(* AuthProofs.v — C16: the classification covers the generated inventories, the guard rejects and frames,
   ownership moves only by the owner's own act. *)
From WW Require Import Prim Params Auth.
From Coq Require Import String Lia.
Open Scope string_scope.

(* ---- inventories ---------------------------------------------------------------------------------------- *)
Lemma all_classified_true : all_classified = true.
Proof. vm_compute. reflexivity. Qed.
Lemma no_stale_entries_true : no_stale_entries = true.
Proof. vm_compute. reflexivity. Qed.

Lemma all_contracts_complete : forall c, In c all_contracts.
Proof. destruct c; cbn; tauto. Qed.

Theorem inventory_classified : forall c v, In v (inventory c) -> exists r, required_role c v = Some r.
Proof.
  intros c v Hin. pose proof all_classified_true as H. unfold all_classified in H.
  apply andb_true_iff in H as [H _]. rewrite forallb_forall in H.
  specialize (H c (all_contracts_complete c)). rewrite forallb_forall in H. specialize (H v Hin).
  unfold classified in H. unfold required_role. destruct (lookup (roles_of c) v) as [r|]; [eauto | discriminate].
Qed.

Theorem hooks_classified : forall inv tbl v, In (inv, tbl) hook_tables -> In v inv -> exists r, lookup tbl v = Some r.
Proof.
  intros inv tbl v Ht Hv. pose proof all_classified_true as H. unfold all_classified in H.
  apply andb_true_iff in H as [_ H]. rewrite forallb_forall in H. specialize (H _ Ht). cbn in H.
  rewrite forallb_forall in H. specialize (H v Hv). unfold classified in H.
  destruct (lookup tbl v) as [r|]; [eauto | discriminate].
Qed.

Theorem classified_only_existing : forall c v r, In (v, r) (roles_of c) -> In v (inventory c).
Proof.
  intros c v r Hin. pose proof no_stale_entries_true as H. unfold no_stale_entries in H.
  rewrite forallb_forall in H. specialize (H c (all_contracts_complete c)). rewrite forallb_forall in H.
  specialize (H _ Hin). cbn in H. apply existsb_exists in H as (x & Hx & E). apply String.eqb_eq in E. subst. assumption.
Qed.

(* ---- lookup ------------------------------------------------------------------------------------------------- *)
Lemma lookup_Some_In l v r : lookup l v = Some r -> In (v, r) l.
Proof.
  unfold lookup. destruct (find (fun p => fst p =? v) l) as [p|] eqn:E; [|discriminate].
  intro H; inversion H; subst. apply find_some in E as [Hin Heq]. apply String.eqb_eq in Heq.
  destruct p as [a b]; cbn in *; subst. assumption.
Qed.

(* ---- the property's own list against the behaviour ----------------------------------------------------------- *)
Definition property_table_met (c : contract) : bool :=
  forallb (fun p => known_amr c (fst p) ||
                    match required_role c (fst p) with Some r => role_eqb r (snd p) | None => false end) (property_table c).
Lemma property_tables_met : forallb property_table_met all_contracts = true.
Proof. vm_compute. reflexivity. Qed.

Lemma role_eqb_eq a b : role_eqb a b = true -> a = b.
Proof. destruct a, b; cbn; intro H; try discriminate; reflexivity. Qed.

(* everything the property names as owner-only / designated-only is guarded exactly so in the code — except the known finding *)
Theorem behaviour_meets_property : forall c v r,
  property_role c v = Some r -> known_amr c v = false -> required_role c v = Some r.
Proof.
  intros c v r Hp Hk. unfold property_role in Hp. apply lookup_Some_In in Hp.
  pose proof property_tables_met as H. rewrite forallb_forall in H. specialize (H c (all_contracts_complete c)).
  unfold property_table_met in H. rewrite forallb_forall in H. specialize (H _ Hp). cbn [fst snd] in H.
  rewrite Hk in H. cbn in H. destruct (required_role c v) as [r'|]; [|discriminate].
  apply role_eqb_eq in H. subst. reflexivity.
Qed.

(* the known finding, as a theorem about the model of the code as it is *)
Theorem refuted_router_assert_minimum_receive_unrestricted :
  property_role Router "AssertMinimumReceive" = Some Self /\
  required_role Router "AssertMinimumReceive" = Some Anyone /\
  known_amr Router "AssertMinimumReceive" = true /\
  (forall phase who, decide Router "AssertMinimumReceive" phase who 1 = 0).
Proof. repeat split. Qed.

(* ---- the guard -------------------------------------------------------------------------------------------------- *)
Section GuardFacts.
  Variable S : Type.
  Variable body : contract -> string -> caller -> S -> outcome S.

  Theorem unauth_rejected_frame : forall c phase who v s r,
    required_role c v = Some r -> holds c r phase who = false ->
    exec S body c phase who v s = Err E_UNAUTH /\ after S body c phase who v s = s.
  Proof.
    intros c phase who v s r Hr Hh. unfold after, exec. rewrite Hr, Hh. split; reflexivity.
  Qed.

  Theorem authorized_runs_body : forall c phase who v s r,
    required_role c v = Some r -> holds c r phase who = true -> exec S body c phase who v s = body c v who s.
  Proof. intros c phase who v s r Hr Hh. unfold exec. rewrite Hr, Hh. reflexivity. Qed.

  (* whatever the body does, a state change implies the caller held the required role *)
  Theorem change_implies_authorized : forall c phase who v s,
    after S body c phase who v s <> s -> exists r, required_role c v = Some r /\ holds c r phase who = true.
  Proof.
    intros c phase who v s Hne. unfold after, exec in Hne.
    destruct (required_role c v) as [r|] eqn:Hr; [|congruence].
    destruct (holds c r phase who) eqn:Hh; [eauto | congruence].
  Qed.
End GuardFacts.

(* ---- who passes an Owner check, before and after the transfers --------------------------------------------------- *)
Lemma caller_eqb_eq a b : caller_eqb a b = true <-> a = b.
Proof. destruct a, b; cbn; split; intro H; try discriminate; try reflexivity. Qed.

Theorem owner_variants_decided_by_ownership : forall c v phase who cmp,
  required_role c v = Some Owner -> no_admin c phase = false -> (decide c v phase who cmp = 0 <-> who = owner_at c phase).
Proof.
  intros c v phase who cmp Hr Hna. unfold decide. rewrite Hr. cbn [holds]. rewrite Hna, orb_false_r.
  destruct (caller_eqb who (owner_at c phase)) eqn:E.
  - apply caller_eqb_eq in E. tauto.
  - split; [discriminate|]. intro H. apply caller_eqb_eq in H. congruence.
Qed.

(* old owner loses, new owner gains: top-level contracts in phase 1, children in phase 2 *)
Theorem transfer_moves_rights : forall c v cmp, required_role c v = Some Owner ->
  (is_child c = false ->
     decide c v 0 CAdmin cmp = 0 /\ decide c v 0 CNewAdmin cmp = 1 /\
     decide c v 1 CAdmin cmp = 1 /\ decide c v 1 CNewAdmin cmp = 0) /\
  (is_child c = true ->
     decide c v 0 CParent cmp = 0 /\ decide c v 0 CNewAdmin cmp = 1 /\
     decide c v 2 CParent cmp = 1 /\ decide c v 2 CNewAdmin cmp = 0).
Proof.
  intros c v cmp Hr. unfold decide. rewrite Hr. cbn [holds]. unfold owner_at, no_admin.
  split; intro Hc; rewrite Hc; cbn; rewrite ?andb_false_r; cbn; repeat split.
Qed.

(* the second known finding, as a theorem about the model of the code as it is *)
Theorem refuted_router_routes_open_without_wasm_admin :
  property_role Router "AddSwapRoutes" = Some Owner /\ property_role Router "RemoveSwapRoutes" = Some Owner /\
  (forall who cmp, decide Router "AddSwapRoutes" 3 who cmp = 0 /\ decide Router "RemoveSwapRoutes" 3 who cmp = 0) /\
  (forall who cmp, who <> CAdmin -> decide Router "AddSwapRoutes" 0 who cmp = 1).
Proof.
  repeat split; try reflexivity.
  - destruct who; reflexivity.
  - destruct who; reflexivity.
  - destruct who; try reflexivity. congruence.
Qed.

Theorem self_variants_only_self : forall c v phase who cmp,
  required_role c v = Some Self -> (decide c v phase who cmp = 0 <-> who = CSelf).
Proof.
  intros c v phase who cmp Hr. unfold decide. rewrite Hr. cbn [holds].
  destruct (caller_eqb who CSelf) eqn:E.
  - apply caller_eqb_eq in E. tauto.
  - split; [discriminate|]. intro H. apply caller_eqb_eq in H. congruence.
Qed.

(* ---- ownership histories ----------------------------------------------------------------------------------------- *)
Lemma own_next_cases o sender x :
  (sender = o /\ own_next o (sender, x) = match x with Some o' => o' | None => o end) \/
  (sender <> o /\ own_next o (sender, x) = o /\ own_step o (sender, x) = Err E_UNAUTH).
Proof.
  unfold own_next, own_step. destruct (Z.eqb_spec sender o).
  - left. split; [assumption | reflexivity].
  - right. repeat split; assumption || reflexivity.
Qed.

(* a rejected attempt changes nothing; only the current owner's attempt can change the owner *)
Theorem own_rejected_frame : forall o sender x, sender <> o -> own_next o (sender, x) = o /\ own_step o (sender, x) = Err E_UNAUTH.
Proof. intros o sender x H. destruct (own_next_cases o sender x) as [[E _]|[_ R]]; [contradiction | exact R]. Qed.

Theorem own_change_only_by_owner : forall o sender x, own_next o (sender, x) <> o -> sender = o.
Proof. intros o sender x H. destruct (own_next_cases o sender x) as [[E _]|[_ [R _]]]; [assumption | contradiction]. Qed.

Lemma own_run_app o h1 h2 : own_run o (h1 ++ h2) = own_run (own_run o h1) h2.
Proof. unfold own_run. apply fold_left_app. Qed.

(* exactly the current owner passes an owner check, after any history *)
Theorem owner_check_exact : forall o h who, passes_owner_check (own_run o h) who = true <-> who = own_run o h.
Proof. intros. unfold passes_owner_check. apply Z.eqb_eq. Qed.

(* after the owner hands over to o' <> owner: the old owner fails, o' passes every owner check — at the end of any history *)
Theorem ownership_transfer : forall o h o',
  let cur := own_run o h in
  let after := own_run o (h ++ [(cur, Some o')]) in
  after = o' /\ passes_owner_check after o' = true /\ (o' <> cur -> passes_owner_check after cur = false).
Proof.
  intros o h o' cur after. unfold after. rewrite own_run_app. fold cur. cbn.
  unfold own_next, own_step. rewrite Z.eqb_refl. cbn. repeat split.
  - unfold passes_owner_check. apply Z.eqb_refl.
  - intro Hne. unfold passes_owner_check. apply Z.eqb_neq. congruence.
Qed.

(* nobody becomes owner unless a chain of owners named them: any property of addresses that holds of the first owner and is
   passed on by every hand-over made by a holder holds of the final owner *)
Theorem ownership_only_by_handover : forall (P : Z -> Prop) h o,
  P o -> (forall sender o', In (sender, Some o') h -> P sender -> P o') -> P (own_run o h).
Proof.
  intros P h. induction h as [|[sender x] r IH]; intros o Ho Hstep; cbn; [assumption|].
  apply IH.
  - destruct (own_next_cases o sender x) as [[E R]|[_ [R _]]]; rewrite R.
    + destruct x as [o'|]; [|assumption]. apply (Hstep sender o'); [left; reflexivity | subst; assumption].
    + assumption.
  - intros s o' Hin Hs. apply (Hstep s o'); [right; assumption | assumption].
Qed.

(* attempts by non-owners can be deleted from a history without changing the outcome *)
Theorem stranger_attempts_irrelevant : forall h1 h2 o sender x,
  sender <> own_run o h1 -> own_run o (h1 ++ (sender, x) :: h2) = own_run o (h1 ++ h2).
Proof.
  intros h1 h2 o sender x Hne. rewrite !own_run_app. cbn.
  destruct (own_rejected_frame (own_run o h1) sender x Hne) as [R _]. rewrite R. reflexivity.
Qed.
