(* IncentiveC13.v — the C13 statements: weights add up, shares of an epoch <= 100 %, the share query and the claims use the
   weight the history holds for the epoch, a second claim in an epoch is rejected, a claim never pays more than an epoch's
   emission, a successful claim pays what the rewards query reported. *)
From WW Require Import Prim Params Incentive.
From WW.Proofs Require Import IncentiveLedger IncentiveFlows IncentiveInv IncentiveWeight IncentiveWeights.
From Coq Require Import Lia.

(* ---- A. reachable states ------------------------------------------------------------------------------------------------ *)
Theorem reachable_winv c h e b : Forall op_wf_w h -> 0 <= e -> WInv (run_history v_fixed c (init_state e b) h).
Proof. intros Hw He. apply history_winv; [assumption|]. apply init_winv. assumption. Qed.

Theorem global_eq_sum_weights c h e b :
  Forall op_wf_w h -> 0 <= e ->
  let st := run_history v_fixed c (init_state e b) h in
  s_gw st = vals_sum (s_aw st) /\ NoDup (map fst (s_aw st)) /\ Forall (fun x => 0 <= snd x) (s_aw st).
Proof. intros Hw He st. pose proof (reachable_winv c h e b Hw He) as W. repeat split; apply W. Qed.

Lemma floor_sum (x : Z -> Z) g L :
  0 < g -> (forall u, 0 <= x u) -> sumZ (map (fun u => x u * DEC / g) L) <= sumZ (map x L) * DEC / g.
Proof.
  intros Hg Hx. pose proof DEC_pos as HD. induction L as [|u L IH]; cbn [map sumZ]; [rewrite Z.mul_0_l, Z.div_0_l; lia|].
  replace ((x u + sumZ (map x L)) * DEC) with (x u * DEC + sumZ (map x L) * DEC) by lia.
  pose proof (Z.div_mod (x u * DEC) g ltac:(lia)). pose proof (Z.div_mod (sumZ (map x L) * DEC) g ltac:(lia)).
  pose proof (Z.mod_pos_bound (x u * DEC) g Hg). pose proof (Z.mod_pos_bound (sumZ (map x L) * DEC) g Hg).
  assert (x u * DEC / g + sumZ (map x L) * DEC / g <= (x u * DEC + sumZ (map x L) * DEC) / g) by (apply Z.div_le_lower_bound; lia).
  lia.
Qed.

(* in every epoch, for every placement of the snapshot, the shares of any set of addresses add up to at most 100 % *)
Theorem shares_le_one c h e b :
  Forall op_wf_w h -> 0 <= e ->
  let st := run_history v_fixed c (init_state e b) h in
  forall ep g, aget ep (s_snap st) = Some g -> 0 < g ->
  forall L, NoDup L -> sumZ (map (fun u => eff (s_awh st u) ep * DEC / g) L) <= DEC.
Proof.
  intros Hw He st ep g Hg Hpos L HL. pose proof (reachable_winv c h e b Hw He) as W. fold st in W.
  eapply Z.le_trans; [apply (floor_sum (fun u => eff (s_awh st u) ep) g L Hpos)|].
  - intros u. apply eff_nonneg. apply (w_hist_nn _ W).
  - pose proof (w_share _ W ep g Hg L HL) as Hs. unfold share_sum in Hs. pose proof DEC_pos.
    apply Z.div_le_upper_bound; [lia|]. nia.
Qed.

(* ---- B. the share query reports the weight the history holds for the current epoch ----------------------------------------- *)
(* on a list sorted by key whose keys are all >= e0, scanning the epochs e0 .. cur reads exactly the entries with key <= cur *)
Lemma keys_above b h : wh_ok b h -> forall k0 v0 r, h = (k0, v0) :: r -> Forall (fun x => k0 < fst x) r.
Proof.
  intros Hok k0 v0 r ->. revert k0 v0 Hok. induction r as [|[k1 v1] r IH]; intros k0 v0 Hok; [constructor|].
  cbn in Hok. destruct Hok as [H1 [H2 [H3 [H4 H5]]]]. constructor; [cbn; lia|].
  assert (Hr : wh_ok b ((k1, v1) :: r)) by (cbn; tauto).
  specialize (IH k1 v1 Hr). eapply Forall_impl; [|exact IH]. cbn. intros; lia.
Qed.

Lemma aget_none_below h e : Forall (fun x => e < fst x) h -> aget e h = None.
Proof.
  induction 1 as [|[k v] r H _ IH]; cbn; [reflexivity|]. cbn in H. destruct (k =? e) eqn:E; [apply Z.eqb_eq in E; lia|exact IH].
Qed.

Lemma eff_acc_none_below h e acc : Forall (fun x => e < fst x) h -> eff_acc h e acc = acc.
Proof.
  destruct 1 as [|[k v] r H _]; cbn; [reflexivity|]. cbn in H. destruct (k <=? e) eqn:E; [apply Z.leb_le in E; lia|reflexivity].
Qed.

Lemma share_loop_eff b : forall fuel h e0 cur lw,
  wh_ok b h -> Forall (fun x => e0 <= fst x) h -> (Z.to_nat (cur - e0 + 1) <= fuel)%nat ->
  share_loop fuel e0 cur h lw = eff_acc h cur lw.
Proof.
  induction fuel as [|fuel IH]; intros h e0 cur lw Hok Hge Hf.
  - assert (cur < e0) by lia. cbn. rewrite eff_acc_none_below; [reflexivity|]. eapply Forall_impl; [|exact Hge]. cbn. intros; lia.
  - cbn [share_loop]. destruct (cur <? e0) eqn:Ec.
    + apply Z.ltb_lt in Ec. rewrite eff_acc_none_below; [reflexivity|]. eapply Forall_impl; [|exact Hge]. cbn. intros; lia.
    + apply Z.ltb_ge in Ec.
      destruct h as [|[k v] r].
      * cbn. clear. revert e0 lw. induction fuel; intros; cbn; [reflexivity|]. destruct (cur <? e0 + 1); [reflexivity|]. apply IHfuel.
      * pose proof (keys_above b _ Hok k v r eq_refl) as Hab.
        apply Forall_cons_iff in Hge as [Hk Hge]. cbn in Hk.
        destruct (Z.eq_dec k e0) as [->|Hne].
        -- (* the head entry is read now; the rest has keys > e0 *)
           cbn [aget]. rewrite Z.eqb_refl. cbn [eff_acc]. destruct (e0 <=? cur) eqn:E; [|apply Z.leb_gt in E; lia].
           (* continue on the same list: the head is never hit again *)
           assert (Hgen : forall f e1 lw1, e0 < e1 -> share_loop f e1 cur ((e0, v) :: r) lw1 = share_loop f e1 cur r lw1).
           { induction f as [|f IHf]; intros e1 lw1 He1; cbn; [reflexivity|]. destruct (cur <? e1); [reflexivity|].
             destruct (e0 =? e1) eqn:E2; [apply Z.eqb_eq in E2; lia|]. apply IHf. lia. }
           rewrite Hgen by lia. apply IH.
           ++ cbn in Hok. tauto.
           ++ eapply Forall_impl; [|exact Hab]. cbn. intros; lia.
           ++ lia.
        -- assert (e0 < k) by lia. cbn [aget]. destruct (k =? e0) eqn:E2; [apply Z.eqb_eq in E2; lia|].
           rewrite (aget_none_below r e0) by (eapply Forall_impl; [|exact Hab]; cbn; intros; lia).
           apply IH; [exact Hok| |lia]. constructor; [cbn; lia|]. eapply Forall_impl; [|exact Hab]. cbn. intros; lia.
Qed.

Theorem share_query_eff c h e b u g w s :
  Forall op_wf_w h -> 0 <= e ->
  let st := run_history v_fixed c (init_state e b) h in
  rewards_share v_fixed st u = Ok (g, w, s) ->
  w = eff (s_awh st u) (s_epoch st) /\ (s_awh st u = [] \/ (aget (s_epoch st) (s_snap st) = Some g /\ dec_from_ratio P256 w g = Ok s)).
Proof.
  intros Hw He st Hq. pose proof (reachable_winv c h e b Hw He) as W. fold st in W.
  unfold rewards_share in Hq. destruct (s_awh st u) as [|[lu0 lw0] r] eqn:Eh.
  - inversion Hq; subst. split; [reflexivity|left; reflexivity].
  - destruct (aget (s_epoch st) (s_snap st)) as [g0|] eqn:Eg; [|discriminate].
    apply bind_ok in Hq as [sh [Esh Hq]]. inversion Hq; subst g w s; clear Hq.
    pose proof (w_hist _ W u) as Hok. rewrite Eh in Hok.
    pose proof (keys_above _ _ Hok lu0 lw0 r eq_refl) as Hab.
    assert (Hw0 : share_loop (loop_fuel lu0 (s_epoch st)) lu0 (s_epoch st) ((lu0, lw0) :: r)
                    (if v_share_cur v_fixed && (s_epoch st <? lu0) then 0 else lw0) = eff ((lu0, lw0) :: r) (s_epoch st)).
    { rewrite (share_loop_eff _ _ _ _ _ _ Hok); [| |unfold loop_fuel; lia].
      - unfold eff. cbn [eff_acc v_share_cur v_fixed andb]. destruct (lu0 <=? s_epoch st) eqn:E.
        + reflexivity.
        + apply Z.leb_gt in E. destruct (s_epoch st <? lu0) eqn:E2; [reflexivity|apply Z.ltb_ge in E2; lia].
      - constructor; [cbn; lia|]. eapply Forall_impl; [|exact Hab]. cbn. intros; lia. }
    cbn [v_share_cur v_fixed andb] in Hw0, Esh. split; [exact Hw0|]. right. split; [reflexivity|]. exact Esh.
Qed.

(* ---- C. the claim loop uses, for every epoch, the weight the history holds for that epoch ------------------------------------- *)
Lemma eff_at_key b h : wh_ok b h -> forall e w acc, aget e h = Some w -> eff_acc h e acc = w.
Proof.
  induction h as [|[k v] r IH]; intros Hok e w acc Hg; [discriminate|].
  pose proof (keys_above b _ Hok k v r eq_refl) as Hab. cbn in Hg. cbn [eff_acc].
  destruct (k =? e) eqn:E.
  - apply Z.eqb_eq in E. subst k. inversion Hg; subst. rewrite Z.leb_refl. apply eff_acc_none_below. exact Hab.
  - apply Z.eqb_neq in E. destruct (k <=? e) eqn:E2.
    + apply IH; [cbn in Hok; tauto|exact Hg].
    + apply Z.leb_gt in E2. rewrite (aget_none_below r e) in Hg; [discriminate|]. eapply Forall_impl; [|exact Hab]. cbn. intros; lia.
Qed.

Lemma eff_no_key h : forall e acc, aget e h = None -> eff_acc h e acc = eff_acc h (e - 1) acc.
Proof.
  induction h as [|[k v] r IH]; intros e acc Hg; [reflexivity|]. cbn in Hg. cbn [eff_acc].
  destruct (k =? e) eqn:E; [discriminate|]. apply Z.eqb_neq in E.
  destruct (k <=? e) eqn:E1; destruct (k <=? e - 1) eqn:E2.
  - apply IH. exact Hg.
  - apply Z.leb_le in E1. apply Z.leb_gt in E2. lia.
  - apply Z.leb_gt in E1. apply Z.leb_le in E2. lia.
  - reflexivity.
Qed.

(* scanning state of the loops: (lu, lw) = the entry in force just before epoch e *)
Definition lstate (h : list (Z * Z)) (e lu lw : Z) : Prop :=
  match h with
  | [] => lu = 0 /\ lw = 0
  | (k0, v0) :: _ => (k0 < e /\ 0 < lu < e /\ lw = eff h (e - 1)) \/ (e <= k0 /\ lu = k0 /\ lw = v0)
  end.

Lemma first_key_le b h k0 v0 r e w : wh_ok b h -> h = (k0, v0) :: r -> aget e h = Some w -> k0 <= e.
Proof.
  intros Hok -> Hg. pose proof (keys_above b _ Hok k0 v0 r eq_refl) as Hab. cbn in Hg.
  destruct (k0 =? e) eqn:E; [apply Z.eqb_eq in E; lia|].
  destruct (Z_le_gt_dec k0 e); [assumption|]. rewrite (aget_none_below r e) in Hg; [discriminate|].
  eapply Forall_impl; [|exact Hab]. cbn. intros; lia.
Qed.

Lemma lstate_skip b h e lu lw :
  wh_ok b h -> Forall (fun x => 0 < fst x) h -> lstate h e lu lw ->
  match aget e h with Some w => lstate h (e + 1) e w | None => lstate h (e + 1) lu lw end.
Proof.
  intros Hok Hpos Hl. destruct (aget e h) as [w|] eqn:Eg.
  - destruct h as [|[k0 v0] r]; [discriminate|]. unfold lstate. left.
    pose proof (first_key_le b _ k0 v0 r e w Hok eq_refl Eg) as Hk.
    assert (He : 0 < e).
    { pose proof (aget_in _ _ _ Eg) as Hin. rewrite Forall_forall in Hpos. specialize (Hpos _ Hin). exact Hpos. }
    replace (e + 1 - 1) with e by lia. unfold eff. rewrite (eff_at_key b _ Hok e w 0 Eg). lia.
  - destruct h as [|[k0 v0] r]; [exact Hl|]. unfold lstate in *. destruct Hl as [[H1 [H2 H3]]|[H1 [H2 H3]]].
    + left. replace (e + 1 - 1) with e by lia. unfold eff in *. rewrite (eff_no_key _ e 0 Eg). repeat split; try lia; try exact H3.
    + right. assert (k0 <> e). { intros ->. cbn in Eg. rewrite Z.eqb_refl in Eg. discriminate. } repeat split; try lia; assumption.
Qed.

Lemma lookup_step b h e lu lw :
  wh_ok b h -> Forall (fun x => 0 < fst x) h -> lstate h e lu lw ->
  match weight_lookup h e lu lw with
  | Some (uw, lu', lw') => uw = eff h e /\ lstate h (e + 1) lu' lw'
  | None => eff h e = 0 /\ lstate h (e + 1) lu lw
  end.
Proof.
  intros Hok Hpos Hl. unfold weight_lookup. pose proof (lstate_skip b h e lu lw Hok Hpos Hl) as Hs.
  destruct (aget e h) as [w|] eqn:Eg.
  - split; [|exact Hs]. unfold eff. symmetry. apply (eff_at_key b _ Hok e w 0 Eg).
  - destruct h as [|[k0 v0] r].
    + destruct Hl as [-> ->]. cbn. split; [reflexivity|exact Hs].
    + unfold lstate in Hl. destruct Hl as [[H1 [H2 H3]]|[H1 [H2 H3]]].
      * destruct (lu =? 0) eqn:E0; [apply Z.eqb_eq in E0; lia|]. destruct (lu <=? e) eqn:E1; [|apply Z.leb_gt in E1; lia]. cbn [negb andb].
        split; [|exact Hs]. unfold eff in *. rewrite (eff_no_key _ e 0 Eg). exact H3.
      * assert (k0 <> e). { intros ->. cbn in Eg. rewrite Z.eqb_refl in Eg. discriminate. }
        destruct (lu <=? e) eqn:E1; [apply Z.leb_le in E1; lia|]. rewrite andb_false_r. split; [|exact Hs].
        unfold eff. cbn. destruct (k0 <=? e) eqn:E2; [apply Z.leb_le in E2; lia|reflexivity].
Qed.

(* every reward the claim loop pays: for epoch e' it is emission * (weight of e' / snapshot of e'), at most the emission *)
Definition log_ok (h snap : list (Z * Z)) (x : Z * Z * Z) : Prop :=
  let '(e', r, em) := x in
  aget0 e' snap <> 0 /\ reward_of em (eff h e') (aget0 e' snap) = Ok r /\ r <= em /\ r <> 0.

Lemma claim_epochs_log b h : forall fuel e cur count ea ee snap s s',
  wh_ok b h -> Forall (fun x => 0 < fst x) h -> lstate h e (l_lu s) (l_lw s) ->
  claim_epochs v_fixed fuel e cur count ea ee h snap s = Ok s' ->
  exists extra, l_log s' = l_log s ++ extra /\ Forall (log_ok h snap) extra /\
                l_rewards s' = l_rewards s ++ map (fun x => snd (fst x)) extra.
Proof.
  induction fuel as [|fuel IH]; intros e cur count ea ee snap s s' Hok Hpos Hl H.
  - cbn in H. inversion H; subst. exists []. rewrite !app_nil_r. repeat split; constructor.
  - cbn [claim_epochs] in H.
    assert (Hdone : Ok s = Ok s' -> exists extra, l_log s' = l_log s ++ extra /\ Forall (log_ok h snap) extra /\
                                      l_rewards s' = l_rewards s ++ map (fun x => snd (fst x)) extra).
    { intros E. inversion E; subst. exists []. rewrite !app_nil_r. repeat split; constructor. }
    destruct (cur <? e); [apply Hdone; exact H|].
    destruct (CLAIM_CAP <? count + 1); [apply Hdone; exact H|].
    destruct (e <? f_start (l_flow s)).
    { cbn [v_skip_scan v_fixed] in H. pose proof (lstate_skip b h e _ _ Hok Hpos Hl) as Hs.
      destruct (aget e h) as [w0|]; (eapply IH in H; [|exact Hok|exact Hpos|cbn; exact Hs]); cbn in H; exact H. }
    destruct (ee <=? e); [apply Hdone; exact H|].
    apply bind_ok in H as [[emission emitted] [Eem H]].
    apply bind_ok in H as [f1 [Ef1 H]].
    pose proof (lookup_step b h e _ _ Hok Hpos Hl) as Hlk.
    destruct (weight_lookup h e (l_lu s) (l_lw s)) as [[[uw lu1] lw1]|].
    + destruct Hlk as [Huw Hl1].
      destruct (aget0 e snap =? 0) eqn:Eg.
      { eapply IH in H; [|exact Hok|exact Hpos|cbn; exact Hl1]. cbn in H. exact H. }
      apply Z.eqb_neq in Eg.
      apply bind_ok in H as [r [Er H]]. apply bind_ok in H as [tot [Etot H]]. apply bind_ok in H as [u [Egd H]].
      apply ensure_ok in Egd. apply andb_true_iff in Egd as [Eg1 Eg2]. apply Z.leb_le in Eg1.
      destruct (r =? 0) eqn:Er0.
      { eapply IH in H; [|exact Hok|exact Hpos|cbn; exact Hl1]. cbn in H. exact H. }
      apply Z.eqb_neq in Er0.
      eapply IH in H; [|exact Hok|exact Hpos|cbn; exact Hl1]. cbn in H. destruct H as [extra [H1 [H2 H3]]].
      exists ((e, r, emission) :: extra). rewrite H1, H3, <- !app_assoc. cbn. repeat split.
      constructor; [|exact H2]. unfold log_ok. subst uw. repeat split; assumption.
    + destruct Hlk as [_ Hl1]. eapply IH in H; [|exact Hok|exact Hpos|cbn; exact Hl1]. cbn in H. exact H.
Qed.

(* in reachable states the loop starts in a proper scanning state, for every flow *)
Lemma claim_start_state st u f first :
  WInv st -> first_claimable (aget u (s_last st)) f (fst (earliest (s_awh st u))) = Ok first ->
  lstate (s_awh st u) first (fst (earliest (s_awh st u))) (snd (earliest (s_awh st u))).
Proof.
  intros W Hf. unfold first_claimable in Hf. destruct (s_awh st u) as [|[k0 v0] r] eqn:Eh.
  - cbn. auto.
  - cbn [earliest fst snd lstate] in *. right.
    destruct (aget u (s_last st)) as [l|] eqn:El.
    + apply padd_ok in Hf. subst first. destruct (w_last _ W u l El) as [_ L2]. rewrite Eh in L2.
      apply Forall_cons_iff in L2 as [L2 _]. cbn in L2. repeat split; lia.
    + inversion Hf. destruct (k0 <? f_start f) eqn:E; [|apply Z.ltb_ge in E]; repeat split; lia.
Qed.

(* ---- D. a second claim in the same epoch is rejected ------------------------------------------------------------------------ *)
Ltac inv_all H :=
  repeat (first [ apply bind_ok in H as [? [_ H]]
                | match type of H with (match ?x with _ => _ end) = Ok _ => destruct x; try discriminate end ]).

Lemma step_epoch_last c st o st2 :
  step v_fixed c st o = Ok st2 ->
  match o with
  | NewEpoch => s_epoch st2 = s_epoch st + 1 /\ s_last st2 = s_last st
  | Claim u => s_epoch st2 = s_epoch st /\ s_last st2 = aset u (s_epoch st) (s_last st)
  | _ => s_epoch st2 = s_epoch st /\ s_last st2 = s_last st
  end.
Proof.
  intros Hstep.
  assert (Hflow : match o with Donate _ _ _ | Gift _ _ _ _ | OpenFlow _ _ _ _ _ _ _ _ | ExpandFlow _ _ _ _ _ _ _ | CloseFlow _ _ | Withdraw _ => True | _ => False end ->
                  s_epoch st2 = s_epoch st /\ s_last st2 = s_last st).
  { intros Ho. destruct (flow_ops_wsame c st o st2 Ho Hstep) as [E1 [_ [_ [_ [_ E6]]]]]. auto. }
  destruct o; try (apply Hflow; exact I); clear Hflow; cbn [step] in Hstep.
  - apply bind_ok in Hstep as [e [Ee H]]. apply padd_ok in Ee. inversion H; subst. cbn. auto.
  - apply call_ok in Hstep as [st1 [ms [Eh [_ Est]]]]. unfold take_snapshot in Eh. inv_all Eh. inversion Eh; subst. rewrite Est. cbn. auto.
  - apply call_ok in Hstep as [st1 [ms [Eh [_ Est]]]]. unfold claim in Eh.
    destruct (aget (s_epoch st) (s_snap st)); [|discriminate].
    apply bind_ok in Eh as [u [_ Eh]]. apply bind_ok in Eh as [[[fl ms0] lw] [_ Eh]]. apply bind_ok in Eh as [nxt [_ Eh]].
    inversion Eh; subst. rewrite Est. cbn. auto.
  - apply call_ok in Hstep as [st1 [ms [Eh [_ Est]]]]. unfold open_position in Eh.
    apply bind_ok in Eh as [u0 [_ Eh]]. apply bind_ok in Eh as [ms0 [_ Eh]]. apply bind_ok in Eh as [u1 [_ Eh]].
    apply bind_ok in Eh as [w [_ Eh]]. apply bind_ok in Eh as [[[gw aw] awh] [_ Eh]]. inversion Eh; subst. rewrite Est. cbn. auto.
  - apply call_ok in Hstep as [st1 [ms [Eh [_ Est]]]]. unfold expand_position in Eh.
    apply bind_ok in Eh as [ms0 [_ Eh]]. destruct (pos_add _ _ _ _); [|discriminate]. apply bind_ok in Eh as [u1 [_ Eh]].
    apply bind_ok in Eh as [w [_ Eh]]. apply bind_ok in Eh as [[[gw aw] awh] [_ Eh]]. inversion Eh; subst. rewrite Est. cbn. auto.
  - apply call_ok in Hstep as [st1 [ms [Eh [_ Est]]]]. unfold close_position in Eh.
    apply bind_ok in Eh as [u0 [_ Eh]]. destruct (pos_take _ _ _) as [[am op']|]; [|discriminate].
    apply bind_ok in Eh as [ts [_ Eh]]. apply bind_ok in Eh as [w [_ Eh]]. apply bind_ok in Eh as [u1 [_ Eh]].
    inversion Eh; subst. rewrite Est. cbn. auto.
  - apply bind_ok in Hstep as [[[r b6] lpb] [Eh Hstep]]. apply call_ok in Hstep as [st1 [ms [Er [_ Est]]]].
    inversion Er; subst r. unfold helper_deposit in Eh.
    apply bind_ok in Eh as [u0 [_ H]]. apply bind_ok in H as [b0 [_ H]]. apply bind_ok in H as [b1 [_ H]].
    apply bind_ok in H as [b2 [_ H]]. apply bind_ok in H as [u1 [_ H]]. apply bind_ok in H as [b3 [_ H]].
    apply bind_ok in H as [b4 [_ H]]. apply bind_ok in H as [b5 [_ H]]. apply bind_ok in H as [u2 [_ H]].
    apply bind_ok in H as [u3 [_ H]]. apply bind_ok in H as [r0 [Eh H]]. inversion H; subst; clear H.
    destruct (has_pos user dur (s_open st)).
    + unfold expand_position in Eh. apply bind_ok in Eh as [ms0 [_ Eh]]. cbn [s_open] in Eh. destruct (pos_add _ _ _ _); [|discriminate].
      apply bind_ok in Eh as [u5 [_ Eh]]. apply bind_ok in Eh as [w [_ Eh]]. apply bind_ok in Eh as [[[gw aw] awh] [_ Eh]].
      inversion Eh; subst. rewrite Est. cbn. auto.
    + unfold open_position in Eh. apply bind_ok in Eh as [u5 [_ Eh]]. apply bind_ok in Eh as [ms0 [_ Eh]]. apply bind_ok in Eh as [u6 [_ Eh]].
      apply bind_ok in Eh as [w [_ Eh]]. apply bind_ok in Eh as [[[gw aw] awh] [_ Eh]]. inversion Eh; subst. rewrite Est. cbn. auto.
Qed.

Theorem claimed_epoch_rejects v c st u :
  aget u (s_last st) = Some (s_epoch st) -> step v c st (Claim u) = Err E_OTHER.
Proof.
  intros Hl. cbn [step]. unfold call. cbn [attach bind]. unfold claim.
  destruct (aget (s_epoch st) (s_snap st)); [|reflexivity]. rewrite Hl, Z.eqb_refl. reflexivity.
Qed.

Definition no_new_epoch (h : list op) : Prop := Forall (fun o => o <> NewEpoch) h.

(* after a successful claim, whatever happens within the same epoch, a further claim of the same address fails *)
Theorem second_claim_nothing c st u st1 h :
  step v_fixed c st (Claim u) = Ok st1 -> no_new_epoch h ->
  step v_fixed c (run_history v_fixed c st1 h) (Claim u) = Err E_OTHER.
Proof.
  intros Hc Hh. apply claimed_epoch_rejects.
  pose proof (step_epoch_last _ _ _ _ Hc) as [E1 E2]. cbn in E1, E2.
  assert (H1 : aget u (s_last st1) = Some (s_epoch st1)) by (rewrite E2, E1, aget_aset, Z.eqb_refl; reflexivity).
  clear Hc E1 E2. revert st1 H1. induction Hh as [|o r Ho _ IH]; intros st1 H1; [exact H1|].
  change (run_history v_fixed c st1 (o :: r)) with (run_history v_fixed c (step_total v_fixed c st1 o) r).
  apply IH. unfold step_total. destruct (step v_fixed c st1 o) as [st2| |] eqn:E; [|exact H1|exact H1].
  pose proof (step_epoch_last _ _ _ _ E) as Hs. destruct o; try (destruct Hs as [-> ->]; exact H1); [congruence|].
  destruct Hs as [-> ->]. rewrite aget_aset. destruct (u =? sender); [reflexivity|exact H1].
Qed.

(* ---- F. a successful claim pays exactly what the rewards query reports (when at most CLAIM_CAP epochs are unclaimed) -------- *)
Lemma reward_nonneg em uw g r : 0 <= em -> 0 <= uw -> 0 < g -> reward_of em uw g = Ok r -> 0 <= r.
Proof.
  unfold reward_of, dec_from_ratio. intros He Hu Hg H. destruct (g =? 0) eqn:E; [apply Z.eqb_eq in E; lia|].
  destruct (uw * DEC / g <? P256); [|discriminate]. cbn [bind] in H. apply bind_ok in H as [u0 [_ H]].
  destruct (em * (uw * DEC / g) / DEC <? P128); [|discriminate]. inversion H; subst. pose proof DEC_pos.
  apply Z.div_pos; [|lia]. apply Z.mul_nonneg_nonneg; [lia|]. apply Z.div_pos; [nia|lia].
Qed.

Lemma emission_nonneg f emap e em emitted : epoch_emission f emap e = Ok (em, emitted) -> 0 <= em.
Proof.
  unfold epoch_emission. intros H. apply bind_ok in H as [span [Es H]]. apply bind_ok in H as [q [Eq H]]. inversion H; subst.
  unfold psub in Es. destruct (e <=? _) eqn:E1; [|discriminate]. apply Z.leb_le in E1. inversion Es; subst.
  unfold cdiv in Eq. destruct (_ =? 0) eqn:E2; [discriminate|]. apply Z.eqb_neq in E2. inversion Eq; subst.
  apply Z.div_pos; [apply ssub_nonneg|lia].
Qed.

Lemma weight_lookup_nonneg h e lu lw uw lu1 lw1 :
  Forall (fun x => 0 <= snd x) h -> 0 <= lw -> weight_lookup h e lu lw = Some (uw, lu1, lw1) -> 0 <= uw /\ 0 <= lw1.
Proof.
  unfold weight_lookup. intros Hh Hlw H. destruct (aget e h) as [w|] eqn:Eg.
  - inversion H; subst. rewrite Forall_forall in Hh. specialize (Hh _ (aget_in _ _ _ Eg)). cbn in Hh. lia.
  - destruct (negb (lu =? 0) && (lu <=? e)); [|discriminate]. inversion H; subst. lia.
Qed.

Lemma aget0_pos e snap : Forall (fun x => 0 <= snd x) snap -> aget0 e snap <> 0 -> 0 < aget0 e snap.
Proof. intros H Hn. pose proof (aget0_nonneg e snap H). lia. Qed.

Lemma same_frame_emission f g emap e : same_frame f g -> epoch_emission g emap e = epoch_emission f emap e.
Proof.
  intros [_ [_ [_ [_ [Ha [_ [He Hh]]]]]]]. unfold epoch_emission, get_flow_asset_amount_at_epoch, get_flow_current_end_epoch.
  rewrite Hh, Ha, He. reflexivity.
Qed.
Lemma same_frame_start f g : same_frame f g -> f_start g = f_start f.
Proof. intros [_ [_ [_ [_ [_ [Hs _]]]]]]. exact Hs. Qed.
Lemma same_frame_sym f g : same_frame f g -> same_frame g f.
Proof. unfold same_frame. intuition congruence. Qed.

Lemma claim_vs_rewards : forall fuel e cur count ea ee h snap s s' f0 total,
  claim_epochs v_fixed fuel e cur count ea ee h snap s = Ok s' ->
  count + (cur - e + 1) <= CLAIM_CAP \/ cur < e ->
  same_frame f0 (l_flow s) -> 0 <= f_claimed f0 -> total = f_claimed (l_flow s) - f_claimed f0 -> 0 <= total ->
  Forall (fun x => 0 <= snd x) h -> 0 <= l_lw s -> Forall (fun x => 0 <= snd x) snap ->
  rewards_epochs v_fixed fuel e cur f0 ea ee h snap (f_emitted (l_flow s)) (l_lu s) (l_lw s) total = Ok (f_claimed (l_flow s') - f_claimed f0).
Proof.
  induction fuel as [|fuel IH]; intros e cur count ea ee h snap s s' f0 total H Hcap Hfr Hc0 Ht Ht0 Hh Hlw Hsn.
  - cbn in H. inversion H; subst. cbn. reflexivity.
  - cbn [claim_epochs] in H. cbn [rewards_epochs].
    destruct (cur <? e) eqn:Ece; [inversion H; subst; reflexivity|]. apply Z.ltb_ge in Ece.
    destruct Hcap as [Hcap|Hcap]; [|lia].
    destruct (CLAIM_CAP <? count + 1) eqn:Ecap; [apply Z.ltb_lt in Ecap; lia|].
    rewrite (same_frame_start _ _ Hfr) in H.
    destruct (e <? f_start f0) eqn:Est.
    { cbn [v_skip_scan v_fixed] in *. destruct (aget e h) as [w0|] eqn:Eg.
      - pose proof (IH _ _ _ _ _ _ _ _ _ f0 total H) as Hrec. cbn in Hrec. apply Hrec; try assumption; try lia.
        rewrite Forall_forall in Hh. specialize (Hh _ (aget_in _ _ _ Eg)). exact Hh.
      - pose proof (IH _ _ _ _ _ _ _ _ _ f0 total H) as Hrec. apply Hrec; try assumption; try lia. }
    destruct (ee <=? e); [inversion H; subst; reflexivity|].
    rewrite (same_frame_emission _ _ _ _ Hfr) in H.
    apply bind_ok in H as [[emission emitted] [Eem H]]. rewrite Eem. cbn [bind].
    pose proof (emission_nonneg _ _ _ _ _ Eem) as Hem.
    apply bind_ok in H as [f1 [Ef1 H]].
    (* the emitted map evolves identically *)
    assert (Hf1 : same_frame (l_flow s) f1 /\ f_claimed f1 = f_claimed (l_flow s) /\
                  (match aget e (f_emitted (l_flow s)) with
                   | None => do v <- cadd P128 emission emitted; Ok (f_emitted (l_flow s) ++ [(e, v)])
                   | Some _ => Ok (f_emitted (l_flow s)) end) = Ok (f_emitted f1)).
    { destruct (aget e (f_emitted (l_flow s))).
      - inversion Ef1; subst. split; [apply same_frame_refl|split; reflexivity].
      - apply bind_ok in Ef1 as [vv [Evv Ef1]]. inversion Ef1; subst. rewrite Evv. cbn. split; [apply same_frame_set_emitted|split; reflexivity]. }
    destruct Hf1 as [Hfr1 [Hcl1 Hem1]]. rewrite Hem1. cbn [bind].
    assert (Hfr01 : same_frame f0 f1) by (eapply same_frame_trans; eauto).
    destruct (weight_lookup h e (l_lu s) (l_lw s)) as [[[uw lu1] lw1]|] eqn:Elk.
    + destruct (weight_lookup_nonneg _ _ _ _ _ _ _ Hh Hlw Elk) as [Huw Hlw1].
      destruct (aget0 e snap =? 0) eqn:Eg.
      { pose proof (IH _ _ _ _ _ _ _ _ _ f0 total H) as Hrec. cbn in Hrec. apply Hrec; try assumption; try lia. }
      apply Z.eqb_neq in Eg. pose proof (aget0_pos _ _ Hsn Eg) as Hg.
      apply bind_ok in H as [r [Er H]]. rewrite Er. cbn [bind].
      pose proof (reward_nonneg _ _ _ _ Hem Huw Hg Er) as Hr.
      apply bind_ok in H as [tot [Etot H]]. apply bind_ok in H as [u [Egd H]].
      apply ensure_ok in Egd. apply andb_true_iff in Egd as [Eg1 Eg2]. apply Z.leb_le in Eg1, Eg2.
      unfold cadd in Etot. destruct (fits P128 (r + f_claimed f1)) eqn:Efit; [|discriminate]. inversion Etot; subst tot.
      unfold fits in Efit. apply andb_true_iff in Efit as [Ef0 EfP]. apply Z.leb_le in Ef0. apply Z.ltb_lt in EfP.
      (* the query's guard and accumulation *)
      assert (Hq1 : cadd P128 r (f_claimed f0) = Ok (r + f_claimed f0)).
      { unfold cadd, fits. replace (0 <=? r + f_claimed f0) with true by (symmetry; apply Z.leb_le; lia).
        replace (r + f_claimed f0 <? P128) with true by (symmetry; apply Z.ltb_lt; lia). reflexivity. }
      rewrite Hq1. cbn [bind].
      assert (Hq2 : ensure ((r <=? emission) && (r + f_claimed f0 <=? ea)) E_OTHER = Ok tt).
      { unfold ensure. replace (r <=? emission) with true by (symmetry; apply Z.leb_le; lia).
        replace (r + f_claimed f0 <=? ea) with true by (symmetry; apply Z.leb_le; lia). reflexivity. }
      rewrite Hq2. cbn [bind].
      assert (Hq3 : padd P128 total r = Ok (total + r)).
      { unfold padd, fits. replace (0 <=? total + r) with true by (symmetry; apply Z.leb_le; lia).
        replace (total + r <? P128) with true by (symmetry; apply Z.ltb_lt; lia). reflexivity. }
      rewrite Hq3. cbn [bind].
      destruct (r =? 0) eqn:Er0.
      * apply Z.eqb_eq in Er0. subst r. replace (total + 0) with total by lia.
        pose proof (IH _ _ _ _ _ _ _ _ _ f0 total H) as Hrec. cbn in Hrec. apply Hrec; try assumption; try lia.
      * pose proof (IH _ _ _ _ _ _ _ _ _ f0 (total + r) H) as Hrec. cbn in Hrec. apply Hrec; try assumption; try lia; try (eapply same_frame_trans; [exact Hfr01|apply same_frame_set_claimed]).
    + pose proof (IH _ _ _ _ _ _ _ _ _ f0 total H) as Hrec. cbn in Hrec. apply Hrec; try assumption; try lia.
Qed.

(* what a claim paid, flow by flow in storage order: (asset, claimed' - claimed), zero entries dropped *)
Fixpoint payouts (fl fl' : list flow) : list (Z * Z) :=
  match fl, fl' with
  | f :: r, g :: r' => (if 0 <? f_claimed g - f_claimed f then [(f_asset f, f_claimed g - f_claimed f)] else []) ++ payouts r r'
  | _, _ => []
  end.

Lemma earliest_nonneg h : Forall (fun x => 0 <= snd x) h -> 0 <= snd (earliest h).
Proof. destruct 1 as [|x r H _]; cbn; [lia|exact H]. Qed.

Lemma claim_flows_vs_rewards : forall fl cur last h snap user lw fl' ms lw',
  claim_flows v_fixed fl cur last h snap user lw = Ok (fl', ms, lw') ->
  (forall f first, In f fl -> first_claimable last f (fst (earliest h)) = Ok first -> cur - first + 1 <= CLAIM_CAP) ->
  Forall (fun f => 0 <= f_claimed f) fl -> Forall (fun x => 0 <= snd x) h -> Forall (fun x => 0 <= snd x) snap ->
  rewards_flows v_fixed fl cur last h snap = Ok (payouts fl fl').
Proof.
  induction fl as [|f r IH]; intros cur last h snap user lw fl' ms lw' H Hcap Hcl Hh Hsn.
  - cbn in H. inversion H; subst. reflexivity.
  - cbn [claim_flows] in H. cbn [rewards_flows]. apply Forall_cons_iff in Hcl as [Hcf Hcl].
    assert (Hcap' : forall f0 first, In f0 r -> first_claimable last f0 (fst (earliest h)) = Ok first -> cur - first + 1 <= CLAIM_CAP)
      by (intros; eapply Hcap; [right; eassumption|eassumption]).
    assert (Hskip : forall x0, claim_flows v_fixed r cur last h snap user lw = Ok x0 ->
                      (let '(r', ms0, lw0) := x0 in Ok (f :: r', ms0, lw0)) = Ok (fl', ms, lw') ->
                      rewards_flows v_fixed r cur last h snap = Ok (payouts (f :: r) fl')).
    { intros [[r' ms0] lw0] E1 E2. inversion E2; subst. cbn [payouts]. rewrite Z.sub_diag. cbn. eapply IH; eauto. }
    destruct (cur <? f_start f).
    { apply bind_ok in H as [x0 [E1 H]]. eapply Hskip; eauto. }
    destruct (flow_latest f) as [exp_amt exp_end] eqn:Elat.
    destruct ((exp_end <? cur) && (f_claimed f =? exp_amt)).
    { apply bind_ok in H as [x0 [E1 H]]. eapply Hskip; eauto. }
    destruct (earliest h) as [lu0 lw0] eqn:Eea.
    apply bind_ok in H as [first [Efirst H]]. rewrite Efirst. cbn [bind].
    apply bind_ok in H as [ls [Es H]]. apply bind_ok in H as [[[r' ms0] lw1] [Er H]]. inversion H; subst; clear H.
    pose proof (claim_vs_rewards _ _ _ _ _ _ _ _ _ _ f 0 Es) as Hq. cbn [l_flow l_lu l_lw] in Hq.
    rewrite Hq; cbn [bind].
    + rewrite <- Eea in Hcap'. rewrite (IH _ _ _ _ _ _ _ _ _ Er Hcap' Hcl Hh Hsn). cbn [bind payouts].
      destruct (0 <? f_claimed (l_flow ls) - f_claimed f); reflexivity.
    + left. specialize (Hcap f first (or_introl eq_refl)). cbn [fst] in Hcap. specialize (Hcap Efirst). lia.
    + apply same_frame_refl.
    + exact Hcf.
    + lia.
    + lia.
    + exact Hh.
    + pose proof (earliest_nonneg h Hh) as He. rewrite Eea in He. exact He.
    + exact Hsn.
Qed.

Theorem claim_eq_query c st u st' :
  WInv st -> Forall (fun f => 0 <= f_claimed f) (s_flows st) ->
  (forall f first, In f (s_flows st) ->
     first_claimable (aget u (s_last st)) f (fst (earliest (s_awh st u))) = Ok first -> s_epoch st - first + 1 <= CLAIM_CAP) ->
  step v_fixed c st (Claim u) = Ok st' ->
  get_rewards v_fixed st u = Ok (payouts (s_flows st) (s_flows st')).
Proof.
  intros W Hcl Hcap Hstep. cbn [step] in Hstep. apply call_ok in Hstep as [st1 [ms [Eh [_ Est]]]].
  unfold claim in Eh. destruct (aget (s_epoch st) (s_snap st)); [|discriminate].
  apply bind_ok in Eh as [u0 [Elast Eh]]. apply ensure_ok in Elast.
  apply bind_ok in Eh as [[[fl ms0] lw] [Ecf Eh]]. apply bind_ok in Eh as [nxt [_ Eh]]. inversion Eh; subst st1 ms; clear Eh.
  rewrite Est. cbn [s_flows with_bal].
  pose proof (claim_flows_vs_rewards _ _ _ _ _ _ _ _ _ _ Ecf Hcap Hcl (w_hist_nn _ W u)) as Hq.
  assert (Hsn : Forall (fun x => 0 <= snd x) (s_snap st)).
  { eapply Forall_impl; [|apply (w_snap _ W)]. cbn. intros; tauto. }
  specialize (Hq Hsn). unfold get_rewards.
  destruct (aget u (s_last st)) as [l|]; [|exact Hq].
  apply negb_true_iff in Elast. rewrite Elast. exact Hq.
Qed.

(* ---- G. claimed amounts are unsigned in every reachable state (discharges the hypothesis of claim_eq_query) ------------------ *)
Lemma claim_epochs_nonneg : forall fuel e cur count ea ee h snap s s',
  claim_epochs v_fixed fuel e cur count ea ee h snap s = Ok s' ->
  Forall (fun x => 0 <= snd x) h -> 0 <= l_lw s -> Forall (fun x => 0 <= snd x) snap ->
  f_claimed (l_flow s) <= f_claimed (l_flow s').
Proof.
  induction fuel as [|fuel IH]; intros e cur count ea ee h snap s s' H Hh Hlw Hsn.
  - cbn in H. inversion H; subst. lia.
  - cbn [claim_epochs] in H.
    destruct (cur <? e); [inversion H; subst; lia|].
    destruct (CLAIM_CAP <? count + 1); [inversion H; subst; lia|].
    destruct (e <? f_start (l_flow s)).
    { cbn [v_skip_scan v_fixed] in H. destruct (aget e h) as [w0|] eqn:Eg.
      - pose proof (IH _ _ _ _ _ _ _ _ _ H Hh) as Hrec. cbn in Hrec. apply Hrec; [|exact Hsn].
        rewrite Forall_forall in Hh. specialize (Hh _ (aget_in _ _ _ Eg)). exact Hh.
      - exact (IH _ _ _ _ _ _ _ _ _ H Hh Hlw Hsn). }
    destruct (ee <=? e); [inversion H; subst; lia|].
    apply bind_ok in H as [[emission emitted] [Eem H]]. pose proof (emission_nonneg _ _ _ _ _ Eem) as Hem.
    apply bind_ok in H as [f1 [Ef1 H]].
    assert (Hcl1 : f_claimed f1 = f_claimed (l_flow s)).
    { destruct (aget e (f_emitted (l_flow s))); [inversion Ef1; reflexivity|]. apply bind_ok in Ef1 as [vv [_ Ef1]]. inversion Ef1; reflexivity. }
    destruct (weight_lookup h e (l_lu s) (l_lw s)) as [[[uw lu1] lw1]|] eqn:Elk.
    + destruct (weight_lookup_nonneg _ _ _ _ _ _ _ Hh Hlw Elk) as [Huw Hlw1].
      destruct (aget0 e snap =? 0) eqn:Eg.
      { pose proof (IH _ _ _ _ _ _ _ _ _ H Hh) as Hrec. cbn in Hrec. specialize (Hrec Hlw1 Hsn). lia. }
      apply Z.eqb_neq in Eg. pose proof (aget0_pos _ _ Hsn Eg) as Hg.
      apply bind_ok in H as [r [Er H]]. pose proof (reward_nonneg _ _ _ _ Hem Huw Hg Er) as Hr.
      apply bind_ok in H as [tot [Etot H]]. apply cadd_ok in Etot. apply bind_ok in H as [u [_ H]].
      destruct (r =? 0); pose proof (IH _ _ _ _ _ _ _ _ _ H Hh) as Hrec; cbn in Hrec; specialize (Hrec Hlw1 Hsn); lia.
    + pose proof (IH _ _ _ _ _ _ _ _ _ H Hh) as Hrec. cbn in Hrec. specialize (Hrec Hlw Hsn). lia.
Qed.

Lemma claim_flows_nonneg : forall fl cur last h snap user lw fl' ms lw',
  claim_flows v_fixed fl cur last h snap user lw = Ok (fl', ms, lw') ->
  Forall (fun x => 0 <= snd x) h -> Forall (fun x => 0 <= snd x) snap ->
  Forall (fun f => 0 <= f_claimed f) fl -> Forall (fun f => 0 <= f_claimed f) fl'.
Proof.
  induction fl as [|f r IH]; intros cur last h snap user lw fl' ms lw' H Hh Hsn Hcl.
  - cbn in H. inversion H; subst. constructor.
  - cbn [claim_flows] in H. apply Forall_cons_iff in Hcl as [Hcf Hcl].
    assert (Hskip : forall x0, claim_flows v_fixed r cur last h snap user lw = Ok x0 ->
                      (let '(r', ms0, lw0) := x0 in Ok (f :: r', ms0, lw0)) = Ok (fl', ms, lw') -> Forall (fun f => 0 <= f_claimed f) fl').
    { intros [[r' ms0] lw0] E1 E2. inversion E2; subst. constructor; [exact Hcf|]. eapply IH; eauto. }
    destruct (cur <? f_start f).
    { apply bind_ok in H as [x0 [E1 H]]. eapply Hskip; eauto. }
    destruct (flow_latest f) as [exp_amt exp_end].
    destruct ((exp_end <? cur) && (f_claimed f =? exp_amt)).
    { apply bind_ok in H as [x0 [E1 H]]. eapply Hskip; eauto. }
    destruct (earliest h) as [lu0 lw0] eqn:Eea.
    apply bind_ok in H as [first [_ H]]. apply bind_ok in H as [ls [Es H]].
    apply bind_ok in H as [[[r' ms0] lw1] [Er H]]. inversion H; subst; clear H.
    pose proof (earliest_nonneg h Hh) as He. rewrite Eea in He. cbn in He.
    pose proof (claim_epochs_nonneg _ _ _ _ _ _ _ _ _ _ Es Hh He Hsn) as Hge. cbn in Hge.
    constructor; [lia|]. eapply IH; eauto.
Qed.

Definition CInv (st : state) : Prop := Forall (fun f => 0 <= f_claimed f) (s_flows st).

Lemma expand_flow_claimed c st sender fs al x eo asset amount st1 ms :
  expand_flow v_fixed c st sender fs al x eo asset amount = Ok (st1, ms) -> CInv st -> CInv st1.
Proof.
  unfold CInv, expand_flow. intros H HC. destruct (find_flow x (s_flows st)) as [f|] eqn:Ef; [|discriminate].
  pose proof (find_flow_in _ _ _ Ef) as Hin.
  apply bind_ok in H as [u0 [_ H]]. apply bind_ok in H as [u1 [_ H]]. apply bind_ok in H as [ms0 [_ H]].
  apply bind_ok in H as [eu [_ H]]. apply bind_ok in H as [u2 [_ H]]. apply bind_ok in H as [next [_ H]].
  apply bind_ok in H as [f3 [Erec H]]. apply bind_ok in H as [u3 [_ H]]. apply bind_ok in H as [u4 [_ H]].
  inversion H; subst; clear H. cbn [s_flows with_flows]. unfold flows_save.
  apply flows_insert_Forall.
  - unfold expand_record in Erec.
    assert (Hsrc : 0 <= f_claimed (if EXP_LIMIT <? ssub (get_flow_end_epoch f) (f_start f)
                                   then expand_reset v_fixed f (s_epoch st) (get_flow_end_epoch f) asset amount else f)).
    { destruct (EXP_LIMIT <? _); [cbn; lia|]. rewrite Forall_forall in HC. apply HC. exact Hin. }
    destruct (hist_get _ _) as [[ex e0]|]; apply bind_ok in Erec as [a [_ Erec]]; inversion Erec; subst; cbn; exact Hsrc.
  - apply flows_remove_Forall. destruct (EXP_LIMIT <? _); [apply flows_remove_Forall|]; exact HC.
Qed.

Lemma step_flows_frame c st o st2 :
  match o with OpenPosition _ _ _ _ _ _ | ExpandPosition _ _ _ _ _ _ | ClosePosition _ _ _ | Withdraw _ | HelperDeposit _ _ _ _ _ _ _ _ _ _ => True | _ => False end ->
  step v_fixed c st o = Ok st2 -> s_flows st2 = s_flows st.
Proof.
  intros Ho Hstep. destruct o; try contradiction; cbn [step] in Hstep.
  - apply call_ok in Hstep as [st1 [ms [Eh [_ Est]]]]. unfold open_position in Eh.
    apply bind_ok in Eh as [u0 [_ Eh]]. apply bind_ok in Eh as [ms0 [_ Eh]]. apply bind_ok in Eh as [u1 [_ Eh]].
    apply bind_ok in Eh as [w [_ Eh]]. apply bind_ok in Eh as [[[gw aw] awh] [_ Eh]]. inversion Eh; subst. rewrite Est. reflexivity.
  - apply call_ok in Hstep as [st1 [ms [Eh [_ Est]]]]. unfold expand_position in Eh.
    apply bind_ok in Eh as [ms0 [_ Eh]]. destruct (pos_add _ _ _ _); [|discriminate]. apply bind_ok in Eh as [u1 [_ Eh]].
    apply bind_ok in Eh as [w [_ Eh]]. apply bind_ok in Eh as [[[gw aw] awh] [_ Eh]]. inversion Eh; subst. rewrite Est. reflexivity.
  - apply call_ok in Hstep as [st1 [ms [Eh [_ Est]]]]. unfold close_position in Eh.
    apply bind_ok in Eh as [u0 [_ Eh]]. destruct (pos_take _ _ _) as [[am op']|]; [|discriminate].
    apply bind_ok in Eh as [ts [_ Eh]]. apply bind_ok in Eh as [w [_ Eh]]. apply bind_ok in Eh as [u1 [_ Eh]].
    inversion Eh; subst. rewrite Est. reflexivity.
  - apply call_ok in Hstep as [st1 [ms [Eh [_ Est]]]]. unfold withdraw in Eh.
    apply bind_ok in Eh as [u0 [_ Eh]]. destruct (_ =? 0); inversion Eh; subst; rewrite Est; reflexivity.
  - apply bind_ok in Hstep as [[[r b6] lpb] [Eh Hstep]]. apply call_ok in Hstep as [st1 [ms [Er [_ Est]]]].
    inversion Er; subst r. unfold helper_deposit in Eh.
    apply bind_ok in Eh as [u0 [_ H]]. apply bind_ok in H as [b0 [_ H]]. apply bind_ok in H as [b1 [_ H]].
    apply bind_ok in H as [b2 [_ H]]. apply bind_ok in H as [u1 [_ H]]. apply bind_ok in H as [b3 [_ H]].
    apply bind_ok in H as [b4 [_ H]]. apply bind_ok in H as [b5 [_ H]]. apply bind_ok in H as [u2 [_ H]].
    apply bind_ok in H as [u3 [_ H]]. apply bind_ok in H as [r0 [Eh H]]. inversion H; subst; clear H.
    destruct (has_pos user dur (s_open st)).
    + unfold expand_position in Eh. apply bind_ok in Eh as [ms0 [_ Eh]]. cbn [s_open] in Eh. destruct (pos_add _ _ _ _); [|discriminate].
      apply bind_ok in Eh as [u5 [_ Eh]]. apply bind_ok in Eh as [w [_ Eh]]. apply bind_ok in Eh as [[[gw aw] awh] [_ Eh]].
      inversion Eh; subst. rewrite Est. reflexivity.
    + unfold open_position in Eh. apply bind_ok in Eh as [u5 [_ Eh]]. apply bind_ok in Eh as [ms0 [_ Eh]]. apply bind_ok in Eh as [u6 [_ Eh]].
      apply bind_ok in Eh as [w [_ Eh]]. apply bind_ok in Eh as [[[gw aw] awh] [_ Eh]]. inversion Eh; subst. rewrite Est. reflexivity.
Qed.

Lemma step_cinv c st o st2 : WInv st -> CInv st -> step v_fixed c st o = Ok st2 -> CInv st2.
Proof.
  intros W HC Hstep.
  assert (Hfr : match o with OpenPosition _ _ _ _ _ _ | ExpandPosition _ _ _ _ _ _ | ClosePosition _ _ _ | Withdraw _ | HelperDeposit _ _ _ _ _ _ _ _ _ _ => True | _ => False end -> CInv st2).
  { intros Ho. unfold CInv. rewrite (step_flows_frame c st o st2 Ho Hstep). exact HC. }
  destruct o; try (apply Hfr; exact I); clear Hfr; cbn [step] in Hstep.
  - apply bind_ok in Hstep as [e [_ H]]. inversion H; subst. exact HC.
  - apply bind_ok in Hstep as [b [_ H]]. inversion H; subst. exact HC.
  - apply bind_ok in Hstep as [b [_ H]]. inversion H; subst. exact HC.
  - apply call_ok in Hstep as [st1 [ms [Eh [_ Est]]]]. unfold take_snapshot in Eh.
    destruct (aget (s_epoch st) (s_snap st)); [discriminate|]. inversion Eh; subst. rewrite Est. exact HC.
  - apply call_ok in Hstep as [st1 [ms [Eh [_ Est]]]]. rewrite Est. unfold open_flow in Eh.
    apply bind_ok in Eh as [u0 [_ Eh]]. apply bind_ok in Eh as [[a1 m1] [_ Eh]]. apply bind_ok in Eh as [u1 [_ Eh]].
    apply bind_ok in Eh as [[a2 m2] [_ Eh]]. apply bind_ok in Eh as [dflt [_ Eh]]. apply bind_ok in Eh as [u2 [_ Eh]].
    apply bind_ok in Eh as [u3 [_ Eh]]. apply bind_ok in Eh as [lim [_ Eh]]. apply bind_ok in Eh as [u4 [_ Eh]].
    apply bind_ok in Eh as [id [_ Eh]]. inversion Eh; subst. unfold CInv. cbn [s_flows with_bal with_flows]. unfold flows_save.
    apply flows_insert_Forall; [cbn; lia|apply flows_remove_Forall; exact HC].
  - apply call_ok in Hstep as [st1 [ms [Eh [_ Est]]]]. rewrite Est. unfold CInv. cbn [s_flows with_bal].
    exact (expand_flow_claimed _ _ _ _ _ _ _ _ _ _ _ Eh HC).
  - apply call_ok in Hstep as [st1 [ms [Eh [_ Est]]]].
    destruct (close_flow_spec _ _ _ _ _ _ Eh) as [f [_ [_ [_ [E1 _]]]]]. rewrite Est, E1. unfold CInv. cbn. apply flows_remove_Forall. exact HC.
  - apply call_ok in Hstep as [st1 [ms [Eh [_ Est]]]]. unfold claim in Eh.
    destruct (aget (s_epoch st) (s_snap st)); [|discriminate].
    apply bind_ok in Eh as [u0 [_ Eh]]. apply bind_ok in Eh as [[[fl ms0] lw] [Ecf Eh]]. apply bind_ok in Eh as [nxt [_ Eh]].
    inversion Eh; subst. rewrite Est. unfold CInv. cbn.
    eapply claim_flows_nonneg; [exact Ecf|apply (w_hist_nn _ W)| |exact HC].
    eapply Forall_impl; [|apply (w_snap _ W)]. cbn. intros; tauto.
Qed.

(* everything that holds in a reachable state *)
Theorem reachable_cinv c h : forall st, Forall op_wf_w h -> WInv st -> CInv st -> CInv (run_history v_fixed c st h) /\ WInv (run_history v_fixed c st h).
Proof.
  induction h as [|o r IH]; intros st Hw W HC; [split; assumption|]. inversion Hw; subst.
  change (run_history v_fixed c st (o :: r)) with (run_history v_fixed c (step_total v_fixed c st o) r).
  unfold step_total. destruct (step v_fixed c st o) as [st2| |] eqn:E; try (apply IH; assumption).
  apply IH; [assumption|eapply step_winv; eauto|eapply step_cinv; eauto].
Qed.

(* claim = query, for states reached from instantiation *)
Theorem claim_eq_query_reachable c h e b u st' :
  Forall op_wf_w h -> 0 <= e ->
  let st := run_history v_fixed c (init_state e b) h in
  (forall f first, In f (s_flows st) ->
     first_claimable (aget u (s_last st)) f (fst (earliest (s_awh st u))) = Ok first -> s_epoch st - first + 1 <= CLAIM_CAP) ->
  step v_fixed c st (Claim u) = Ok st' ->
  get_rewards v_fixed st u = Ok (payouts (s_flows st) (s_flows st')).
Proof.
  intros Hw He st Hcap Hstep.
  destruct (reachable_cinv c h (init_state e b) Hw (init_winv e b He) ltac:(constructor)) as [HC W].
  eapply claim_eq_query; eauto.
Qed.

(* claim_le_emission, read off the log: every logged reward is at most the emission of its epoch *)
Lemma log_ok_le h snap l : Forall (log_ok h snap) l -> Forall (fun x => snd (fst x) <= snd x /\ snd (fst x) <> 0) l.
Proof. induction 1 as [|[[e r] em] l H _ IH]; constructor; [|exact IH]. unfold log_ok in H. cbn [fst snd]. destruct H as [_ [_ [H1 H2]]]. auto. Qed.

(* ---- the code as found: each missing repair refutes a clause (witnesses = corpus of harness/src/c13.rs) --------------------- *)
From WW.Proofs Require Import IncentiveC12.
Definition c13 : cfg := cfg0 3 0.
Definition op_pos (s a d : Z) : op := OpenPosition s [(3, a)] [] a d None.
Definition ex_pos (s a d : Z) : op := ExpandPosition s [(3, a)] [] a d None.
Definition fl13 (s asset amt : Z) (e : option Z) : op :=
  OpenFlow s (if asset =? 0 then [(0, amt)] else [(0, 1000); (asset, amt)]) [] None e asset amt None.

(* (i) weight of a sum > sum of weights, saturating subtraction *)
Definition v_no_clamp : ver := mkVer true true true false true true true true true.
Definition h_desync : list op := [op_pos 2 1000 31556926; op_pos 1 3 15778463; ex_pos 1 3 15778463; ClosePosition 1 15778463 1684342900].
Theorem weight_desync_refuted :
  let st := run_history v_no_clamp c13 (init_state 1 b0) h_desync in
  Forall op_wf_w h_desync /\ s_gw st = 15998 /\ vals_sum (s_aw st) = 15999.
Proof. cbn zeta. split; [repeat constructor; cbn; lia|]. vm_compute. split; reflexivity. Qed.

(* (ii) close before the epoch's snapshot *)
Definition v_no_close_snap : ver := mkVer true true true true true false true true true.
Definition h_close_before_snap : list op :=
  [fl13 3 1 1000000 (Some 11); op_pos 1 1000 86400; op_pos 2 1000 86400; NewEpoch; Snapshot; Claim 1; Claim 2; NewEpoch;
   ClosePosition 1 86400 1684515600; Snapshot].
Theorem close_before_snapshot_refuted :
  let st := run_history v_no_close_snap c13 (init_state 1 b0) h_close_before_snap in
  Forall op_wf_w h_close_before_snap /\ aget 3 (s_snap st) = Some 1000 /\ share_sum (s_awh st) 3 [1; 2] = 2000.
Proof. cbn zeta. split; [repeat constructor; cbn; lia|]. vm_compute. split; reflexivity. Qed.

(* (iii) claim writes the last weight its loop saw: a closed position keeps its weight *)
Definition v_no_claim_cur : ver := mkVer true true true true true true false true true.
Definition h_resurrect : list op :=
  [fl13 3 1 1000000 (Some 2); op_pos 1 1000 86400; op_pos 2 1000 86400; NewEpoch; Snapshot; Claim 1; Claim 2; NewEpoch; Snapshot;
   ClosePosition 1 86400 1684515600; Claim 1; NewEpoch; Snapshot].
Theorem claim_rewrites_weight_refuted :
  let st := run_history v_no_claim_cur c13 (init_state 1 b0) h_resurrect in
  Forall op_wf_w h_resurrect /\ aget 4 (s_snap st) = Some 1000 /\ aget0 1 (s_aw st) = 0 /\ share_sum (s_awh st) 4 [1; 2] = 2000.
Proof. cbn zeta. split; [repeat constructor; cbn; lia|]. vm_compute. repeat split; reflexivity. Qed.

(* (v) the share query reports a weight that only starts next epoch *)
Definition v_no_share_cur : ver := mkVer true true true true true true true false true.
Definition h_share_future : list op := [op_pos 1 1000 86400; NewEpoch; Snapshot; op_pos 2 1000 86400].
Theorem share_query_refuted :
  let st := run_history v_no_share_cur c13 (init_state 1 b0) h_share_future in
  rewards_share v_no_share_cur st 2 = Ok (1000, 1000, DEC) /\ rewards_share v_no_share_cur st 1 = Ok (1000, 1000, DEC) /\
  eff (s_awh st 2) (s_epoch st) = 0.
Proof. vm_compute. repeat split; reflexivity. Qed.

(* (vi) a flow starting after several weight changes: the claim loop used the earliest weight *)
Definition v_no_skip_scan : ver := mkVer true true true true true true true true false.
Definition h_stale : list op :=
  [op_pos 1 1000 86400; op_pos 2 1000 86400; NewEpoch; Snapshot; NewEpoch; Snapshot; ClosePosition 1 86400 1684515600;
   NewEpoch; Snapshot; NewEpoch; Snapshot; fl13 3 1 1000000 (Some 15); NewEpoch; Snapshot].
Theorem stale_weight_refuted :
  let st := run_history v_no_skip_scan c13 (init_state 1 b0) h_stale in
  eff (s_awh st 1) 5 = 0 /\ eff (s_awh st 1) 6 = 0 /\ aget0 1 (s_aw st) = 0 /\
  get_rewards v_no_skip_scan st 1 = Ok [(1, 200000)] /\
  exists st', step v_no_skip_scan c13 st (Claim 1) = Ok st' /\ s_bal st' 1 1 - s_bal st 1 1 = 200000.
Proof.
  cbn zeta. split; [vm_compute; reflexivity|]. split; [vm_compute; reflexivity|]. split; [vm_compute; reflexivity|]. split; [vm_compute; reflexivity|].
  eexists. split; [vm_compute; reflexivity|]. vm_compute. reflexivity.
Qed.

(* the same histories on the repaired code *)
Lemma witnesses_fixed_c13 :
  (let st := run_history v_fixed c13 (init_state 1 b0) h_desync in s_gw st = vals_sum (s_aw st)) /\
  (let st := run_history v_fixed c13 (init_state 1 b0) h_close_before_snap in share_sum (s_awh st) 3 [1; 2] <= aget0 3 (s_snap st)) /\
  (let st := run_history v_fixed c13 (init_state 1 b0) h_resurrect in share_sum (s_awh st) 4 [1; 2] <= aget0 4 (s_snap st)) /\
  (let st := run_history v_fixed c13 (init_state 1 b0) h_stale in get_rewards v_fixed st 1 = Ok []).
Proof. vm_compute. repeat split; try reflexivity; discriminate. Qed.
