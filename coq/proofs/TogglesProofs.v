(* TogglesProofs.v — pause switches: generic gate machine, and the concrete vault model *)
From WW Require Import Prim Vault Toggles.
From WW.Proofs Require Import ArithLemmas VaultLedger VaultProofs.

Lemma K_eqb_eq a b : K_eqb a b = true <-> a = b.
Proof. destruct a, b; cbn; split; congruence. Qed.
Lemma K_eqb_refl a : K_eqb a a = true.
Proof. destruct a; reflexivity. Qed.

Lemma fget_fset_same f k b : fget (fset f k b) k = b.
Proof. destruct k; reflexivity. Qed.
Lemma fget_fset_other f k k' b : k <> k' -> fget (fset f k b) k' = fget f k'.
Proof. destruct k, k'; cbn; congruence. Qed.
Lemma fset_fset f k b b' : fset (fset f k b) k b' = fset f k b'.
Proof. destruct k; reflexivity. Qed.
Lemma fset_same f k : fset f k (fget f k) = f.
Proof. destruct f, k; reflexivity. Qed.
Lemma fget_all_on k : fget all_on k = true.
Proof. destruct k; reflexivity. Qed.

Section GateProofs.
  Variable core : Type.
  Variable opT : Type.
  Variable kind : opT -> option K.
  Variable body : core -> opT -> outcome core.

  Notation gstate := (gstate core).
  Notation gstep := (gstep core opT kind body).
  Notation gapply := (gapply core opT kind body).
  Notation grun := (grun core opT kind body).
  Notation of_kind := (of_kind opT kind).

  Definition with_flag (k : K) (b : bool) (g : gstate) : gstate := mkG (fset (g_flags g) k b) (g_core g).

  (* a disabled switch rejects every path it guards, and nothing changes *)
  Lemma gate_disabled_rejects_frame g o k : kind o = Some k -> fget (g_flags g) k = false ->
    gstep g (GOp o) = Err E_DISABLED /\ gapply g (GOp o) = g.
  Proof. intros Hk Hf. unfold Toggles.gapply. cbn [Toggles.gstep]. rewrite Hk, Hf. split; reflexivity. Qed.

  Lemma gate_rejected_frame g o : failed (gstep g o) -> gapply g o = g.
  Proof. unfold Toggles.gapply. destruct (gstep g o); cbn; tauto. Qed.

  (* ... and it stops exactly that: every other operation behaves as if the switch had not been touched *)
  Lemma gate_other_unaffected g o k b : of_kind k o = false -> is_set opT o = false ->
    gstep (with_flag k b g) o = omap (with_flag k b) (gstep g o).
  Proof.
    intros Hk Hs. destruct o as [o|a f]; [|discriminate Hs]. cbn [Toggles.gstep Toggles.of_kind] in *.
    destruct g as [f c]. unfold with_flag. cbn [g_flags g_core].
    destruct (kind o) as [k'|] eqn:E.
    - assert (k <> k') by (intros ->; rewrite K_eqb_refl in Hk; discriminate).
      rewrite fget_fset_other by auto.
      destruct (fget f k'); [|reflexivity].
      destruct (body c o); reflexivity.
    - destruct (body c o); reflexivity.
  Qed.

  Lemma gate_other_unaffected_apply g o k b : of_kind k o = false -> is_set opT o = false ->
    gapply (with_flag k b g) o = with_flag k b (gapply g o).
  Proof.
    intros Hk Hs. unfold Toggles.gapply. rewrite gate_other_unaffected by auto. destruct (gstep g o); reflexivity.
  Qed.

  (* with every switch on, the gate is invisible: the machine is its body (this is the "twin" of the correspondence) *)
  Lemma gate_enabled_transparent g o : g_flags g = all_on -> gstep g (GOp o) = lift core g (body (g_core g) o).
  Proof. intros H. cbn [Toggles.gstep]. rewrite H. destruct (kind o) as [k|]; [rewrite fget_all_on|]; reflexivity. Qed.

  (* re-enabling restores the previous behaviour: the state is literally the one before the switch was turned off *)
  Lemma gate_reenable_restores g k :
    let g1 := gapply g (GSet true (fset (g_flags g) k false)) in
    gapply g1 (GSet true (fset (g_flags g1) k (fget (g_flags g) k))) = g.
  Proof.
    cbv zeta. unfold Toggles.gapply. cbn [Toggles.gstep g_flags g_core]. rewrite fset_fset, fset_same. destruct g; reflexivity.
  Qed.

  (* only the owner moves the switches *)
  Lemma gate_unauthorized_set g f : gstep g (GSet false f) = Err E_UNAUTH /\ gapply g (GSet false f) = g.
  Proof. split; reflexivity. Qed.

  (* history level: while switch k is off (no config update in between), the history is equivalent to the one with every
     operation of kind k deleted — those operations do nothing, all the others are unaffected *)
  Lemma gate_skip_disabled h : forall g k, fget (g_flags g) k = false -> forallb (fun o => negb (is_set opT o)) h = true ->
    grun g h = grun g (filter (fun o => negb (of_kind k o)) h).
  Proof.
    induction h as [|o h IH]; intros g k Hf Hs; [reflexivity|].
    cbn [forallb] in Hs. apply andb_true_iff in Hs as [Ho Hs]. apply negb_true_iff in Ho.
    cbn [filter]. destruct (of_kind k o) eqn:Ek; cbn [negb].
    - (* an operation of the disabled kind: rejected, state unchanged *)
      destruct o as [o|a f]; [|discriminate Ho]. cbn [Toggles.of_kind] in Ek.
      destruct (kind o) as [k'|] eqn:E; [|discriminate Ek]. apply K_eqb_eq in Ek. subst k'.
      destruct (gate_disabled_rejects_frame g o k E Hf) as [_ Hfr].
      unfold Toggles.grun in *. cbn [fold_left]. fold (gapply g (GOp o)). rewrite Hfr. apply IH; auto.
    - unfold Toggles.grun in *. cbn [fold_left].
      apply IH; auto.
      (* the flag is still off afterwards: operations never touch the switches *)
      destruct o as [o|a f]; [|discriminate Ho]. unfold Toggles.gapply. cbn [Toggles.gstep].
      destruct (kind o) as [k'|].
      + destruct (fget (g_flags g) k'); [|exact Hf]. destruct (body (g_core g) o); exact Hf.
      + destruct (body (g_core g) o); exact Hf.
  Qed.

  (* the switches of a history without config updates never change *)
  Lemma gate_flags_stable h : forall g, forallb (fun o => negb (is_set opT o)) h = true -> g_flags (grun g h) = g_flags g.
  Proof.
    induction h as [|o h IH]; intros g Hs; [reflexivity|].
    cbn [forallb] in Hs. apply andb_true_iff in Hs as [Ho Hs]. apply negb_true_iff in Ho.
    unfold Toggles.grun in *. cbn [fold_left]. rewrite IH by auto.
    destruct o as [o|a f]; [|discriminate Ho]. unfold Toggles.gapply. cbn [Toggles.gstep].
    destruct (kind o) as [k'|].
    - destruct (fget (g_flags g) k'); [|reflexivity]. destruct (body (g_core g) o); reflexivity.
    - destruct (body (g_core g) o); reflexivity.
  Qed.
End GateProofs.

(* fresh pools / vaults: everything enabled *)
Lemma fresh_all_enabled k : fget all_on k = true.
Proof. apply fget_all_on. Qed.

(* ---- the correspondence function of the pools is the gate machine on the twin body --------------- *)
Definition pool_g (f : flags) : gstate unit := mkG f tt.
Definition gcode {A} (m : outcome A) : Z :=
  match m with Ok _ => 0 | Err c => if c =? E_DISABLED then 2 else if c =? E_UNAUTH then 3 else 1 | Panic => 1 end.

(* ---- the vault ------------------------------------------------------------------------------------ *)
Lemma vault_fresh_all_enabled p f b k bals st : init p f b k bals = Ok st -> vflags st = all_on.
Proof. unfold init. intros H. bind_as H uu E. inversion H; subst. reflexivity. Qed.

Lemma vflags_set_vflag st k b : vflags (set_vflag st k b) = fset (vflags st) k b.
Proof. destruct k; reflexivity. Qed.

Lemma set_vflag_reenable st k : set_vflag (set_vflag st k false) k (fget (vflags st) k) = st.
Proof. destruct st as [a l p al bu c cf]. destruct cf. destruct k; reflexivity. Qed.

(* every entry path of a disabled vault operation is rejected with the "disabled" error *)
Lemma vault_deposit_disabled u z sent st : dep_on (conf st) = false ->
  failed (deposit u z sent st) /\
  (kind st || (sent <=? get (ab st) u) = true -> deposit u z sent st = Err E_DISABLED).
Proof.
  intros H. unfold deposit. rewrite H. split.
  - destruct (ensure (kind st || (sent <=? get (ab st) u)) E_OTHER); cbn; auto.
  - intros ->. reflexivity.
Qed.

Lemma vault_withdraw_disabled u a st : wd_on (conf st) = false -> failed (withdraw u a st) /\
  (has (lp st) u && negb (Nat.eqb u VAULT) = true -> 0 <= a <= get (lp st) u -> withdraw u a st = Err E_DISABLED).
Proof.
  intros H. unfold withdraw. rewrite H. split.
  - destruct (ensure (has (lp st) u && negb (u =? VAULT)%nat) E_OTHER); cbn; auto.
    destruct (ensure ((0 <=? a) && (a <=? get (lp st) u)) E_OTHER); cbn; auto.
  - intros H1 [H2 H3]. rewrite H1. cbn [ensure bind].
    rewrite (proj2 (Z.leb_le 0 a) H2), (proj2 (Z.leb_le _ _) H3). reflexivity.
Qed.

Lemma vault_loan_disabled who z body st : fl_on (conf st) = false -> flash_loan who z body st = Err E_DISABLED.
Proof. intros H. unfold flash_loan. rewrite H. reflexivity. Qed.

Lemma failed_bind_failed {A B} (m : outcome A) (f : A -> outcome B) : (forall a, failed (f a)) -> failed (bind m f).
Proof. intros H. destruct m; cbn [bind failed]; auto. Qed.

Lemma vault_disabled_paths st :
  (dep_on (conf st) = false -> forall u z sent L,
     failed (step st (ODeposit u z sent)) /\
     (is_user st u = true -> kind st || (sent <=? get (ab st) u) = true -> step st (ODeposit u z sent) = Err E_DISABLED) /\
     failed (run_action L (ADeposit z) st) /\
     (kind st || (z <=? get (ab st) ADV) = true -> run_action L (ADeposit z) st = Err E_DISABLED)) /\
  (wd_on (conf st) = false -> forall u a L,
     failed (step st (OWithdraw u a)) /\ failed (run_action L (AWithdraw a) st)) /\
  (fl_on (conf st) = false -> forall u z pre s L,
     run_action L (ALoan z s) st = Err E_DISABLED /\ failed (step st (ORouterLoan u z pre s)) /\
     (is_user st u = true -> step st (ORouterLoan u z pre s) = Err E_DISABLED)).
Proof.
  split; [|split].
  - intros H u z sent L. cbn [step run_action].
    destruct (vault_deposit_disabled u z sent st H) as [F1 E1]. destruct (vault_deposit_disabled ADV z z st H) as [F2 E2].
    split; [|split; [|split]]; auto.
    + apply failed_bind_failed. intros _. exact F1.
    + intros -> Hf. cbn [ensure bind]. auto.
  - intros H u a L. cbn [step run_action]. destruct (vault_withdraw_disabled u a st H) as [F _].
    split; [|apply vault_withdraw_disabled; auto]. apply failed_bind_failed. intros _. exact F.
  - intros H u z pre s L. cbn [step run_action]. unfold router_loan. rewrite !vault_loan_disabled by auto.
    split; [|split]; auto.
    + apply failed_bind_failed. intros _. apply failed_bind_failed. intros _. exact I.
    + intros Hu. rewrite Hu. cbn [ensure bind]. unfold is_user in Hu. apply andb_true_iff in Hu as [Hh _]. rewrite Hh. reflexivity.
Qed.

(* ---- non-interference on the concrete vault: primitives that do not read switch k commute with setting it ---- *)
Definition sv (k : K) (b : bool) (st : state) : state := set_vflag st k b.

Ltac unf := unfold sv, set_vflag, set_vflags, vflags, fset, kind, bal, supply, backing in *; simp; cbn [f_dep f_wd f_sw] in *; simp.
Ltac crunch :=
  repeat match goal with
  | |- context [bind ?m _] => destruct m; cbn [bind omap]
  | |- context [match ?m with Ok _ => _ | Err _ => _ | Panic => _ end] => destruct m; cbn [bind omap]
  | |- context [if ?c then _ else _] => destruct c; cbn [bind omap]
  | |- context [let '(_, _) := ?p in _] => destruct p
  end; try reflexivity.

Lemma deposit_commute k b u z sent st : k <> KDep -> deposit u z sent (sv k b st) = omap (sv k b) (deposit u z sent st).
Proof. intros Hk. unfold deposit. destruct k; [congruence| |]; unf; simp; crunch. Qed.

Lemma withdraw_commute k b u a st : k <> KWd -> withdraw u a (sv k b st) = omap (sv k b) (withdraw u a st).
Proof. intros Hk. unfold withdraw. destruct k; [|congruence|]; unf; simp; crunch. Qed.

Lemma collect_commute k b st : collect (sv k b st) = omap (sv k b) (collect st).
Proof. unfold collect. destruct k; unf; simp; crunch. Qed.

Lemma after_trade_commute k b old z st : after_trade old z (sv k b st) = omap (sv k b) (after_trade old z st).
Proof. unfold after_trade. destruct k; unf; simp; crunch. Qed.

Lemma pay_commute k b from tgt z st :
  (do ab' <- xfer (kind (sv k b st)) (ab (sv k b st)) from tgt z; Ok (set_ab (sv k b st) ab')) =
  omap (sv k b) (do ab' <- xfer (kind st) (ab st) from tgt z; Ok (set_ab st ab')).
Proof. destruct k; unf; simp; crunch. Qed.

Lemma flash_loan_commute k b who z body st : k <> KSwap ->
  (forall s, body (sv k b s) = omap (sv k b) (body s)) ->
  flash_loan who z body (sv k b st) = omap (sv k b) (flash_loan who z body st).
Proof.
  intros Hk HB. unfold flash_loan.
  assert (E1 : fl_on (conf (sv k b st)) = fl_on (conf st)) by (destruct k; [| |congruence]; reflexivity).
  rewrite E1. destruct (ensure (fl_on (conf st)) E_DISABLED); cbn [bind omap]; try reflexivity.
  assert (E2 : counter (sv k b st) = counter st) by (destruct k; reflexivity). rewrite E2.
  destruct (cadd P32 (counter st) 1) as [c1| |]; cbn [bind omap]; try reflexivity.
  assert (E3 : kind (sv k b st) = kind st) by (destruct k; reflexivity).
  assert (E4 : ab (sv k b st) = ab st) by (destruct k; reflexivity). rewrite E3, E4.
  destruct (xfer (kind st) (ab st) VAULT who z) as [ab1| |]; cbn [bind omap]; try reflexivity.
  assert (E5 : set_counter (set_ab (sv k b st) ab1) c1 = sv k b (set_counter (set_ab st ab1) c1)) by (destruct k; reflexivity).
  rewrite E5, HB.
  assert (E6 : bal (sv k b st) = bal st) by (destruct k; reflexivity). rewrite E6.
  destruct (body (set_counter (set_ab st ab1) c1)); cbn [bind omap]; try reflexivity.
  apply after_trade_commute.
Qed.

Theorem script_commute k b :
  (forall a, a_uses k a = false -> forall L st, run_action L a (sv k b st) = omap (sv k b) (run_action L a st)) /\
  (forall s, s_uses k s = false -> forall L st, run_script L s (sv k b st) = omap (sv k b) (run_script L s st)).
Proof.
  apply action_script_ind.
  - (* APay *) intros tgt z _ L st. cbn [run_action]. apply pay_commute.
  - (* ARepayQ *) intros d _ L st. cbn [run_action].
    assert (E : payback (conf (sv k b st)) L = payback (conf st) L) by (destruct k; reflexivity). rewrite E.
    destruct (payback (conf st) L) as [q| |]; cbn [bind omap]; try reflexivity.
    destruct (fst (fst (fst q)) + d <=? 0); [reflexivity|].
    destruct (ensure (fst (fst (fst q)) + d <? P128) E_OTHER); cbn [bind omap]; try reflexivity.
    apply pay_commute.
  - (* ALoan *) intros z s IH Hu L st. cbn [a_uses] in Hu. apply orb_false_iff in Hu as [Hk Hs].
    cbn [run_action]. apply flash_loan_commute.
    + intros ->. discriminate Hk.
    + intros s0. apply IH. exact Hs.
  - (* ADeposit *) intros z Hu L st. cbn [a_uses] in Hu. cbn [run_action]. apply deposit_commute.
    intros ->. discriminate Hu.
  - (* AWithdraw *) intros a Hu L st. cbn [a_uses] in Hu. cbn [run_action]. apply withdraw_commute.
    intros ->. discriminate Hu.
  - intros _ L st. cbn [run_action]. apply collect_commute.
  - intros _ L st. reflexivity.
  - (* ATry *) intros s IH Hu L st. cbn [a_uses] in Hu. cbn [run_action]. rewrite IH by auto.
    destruct (run_script L s st); reflexivity.
  - intros _ L st. reflexivity.
  - intros a IHa s IHs Hu L st. cbn [s_uses] in Hu. apply orb_false_iff in Hu as [Ha Hs].
    cbn [run_script]. rewrite IHa by auto. destruct (run_action L a st); cbn [bind omap]; try reflexivity. apply IHs. auto.
Qed.

Lemma complete_loan_commute k b u z st : complete_loan u z (sv k b st) = omap (sv k b) (complete_loan u z st).
Proof. unfold complete_loan, payback. destruct k; unf; simp; crunch. Qed.

Lemma is_user_sv k b st u : is_user (sv k b st) u = is_user st u.
Proof. destruct k; reflexivity. Qed.

(* every operation that contains no entry of kind k behaves exactly as if switch k had not been touched *)
Theorem vault_other_ops_unaffected k b o st : o_uses k o = false ->
  step (sv k b st) o = omap (sv k b) (step st o).
Proof.
  intros Hu. destruct script_commute with (k := k) (b := b) as [_ SC].
  destruct o; cbn [o_uses] in Hu; cbn [step]; try rewrite is_user_sv; try reflexivity; try discriminate Hu.
  - destruct (ensure (is_user st u) E_OTHER); cbn [bind omap]; try reflexivity. apply deposit_commute. intros ->. discriminate Hu.
  - destruct (ensure (is_user st u) E_OTHER); cbn [bind omap]; try reflexivity. apply withdraw_commute. intros ->. discriminate Hu.
  - apply collect_commute.
  - destruct (ensure (is_user st u) E_OTHER); cbn [bind omap]; try reflexivity. apply pay_commute.
  - destruct (ensure (is_user st u) E_OTHER); cbn [bind omap]; try reflexivity.
    assert (E : lp (sv k b st) = lp st) by (destruct k; reflexivity). rewrite E.
    destruct (ensure ((0 <=? a) && (a <=? get (lp st) u)) E_OTHER); cbn [bind omap]; try reflexivity.
  - apply SC. exact Hu.
  - apply orb_false_iff in Hu as [Hk Hs].
    destruct (ensure (is_user st u) E_OTHER); cbn [bind omap]; try reflexivity.
    unfold router_loan. assert (E : ab (sv k b st) = ab st) by (destruct k; reflexivity). rewrite E.
    destruct (ensure (has (ab st) u) E_OTHER); cbn [bind omap]; try reflexivity.
    apply flash_loan_commute; [intros ->; discriminate Hk|].
    intros s0. unfold router_body.
    assert (EP : (if pre =? 0 then Ok (sv k b s0) else do ab' <- xfer (kind (sv k b s0)) (ab (sv k b s0)) ROUTER ADV pre; Ok (set_ab (sv k b s0) ab'))
                 = omap (sv k b) (if pre =? 0 then Ok s0 else do ab' <- xfer (kind s0) (ab s0) ROUTER ADV pre; Ok (set_ab s0 ab'))).
    { destruct (pre =? 0); [reflexivity|]. apply pay_commute. }
    rewrite EP. destruct (if pre =? 0 then Ok s0 else _) as [sa| |]; cbn [bind omap]; try reflexivity.
    rewrite SC by auto. destruct (run_script z s sa); cbn [bind omap]; try reflexivity. apply complete_loan_commute.
  - destruct (n =? 0); reflexivity.
  - apply orb_false_iff in Hu as [Hk Hs].
    destruct (ensure (is_user st u) E_OTHER); cbn [bind omap]; try reflexivity.
    assert (HRL : forall st0, router_loan u z pre s (sv k b st0) = omap (sv k b) (router_loan u z pre s st0)).
    { intros st0. unfold router_loan. assert (E : ab (sv k b st0) = ab st0) by (destruct k; reflexivity). rewrite E.
      destruct (ensure (has (ab st0) u) E_OTHER); cbn [bind omap]; try reflexivity.
      apply flash_loan_commute; [intros ->; discriminate Hk|].
      intros s0. unfold router_body.
      assert (EP : (if pre =? 0 then Ok (sv k b s0) else do ab' <- xfer (kind (sv k b s0)) (ab (sv k b s0)) ROUTER ADV pre; Ok (set_ab (sv k b s0) ab'))
                   = omap (sv k b) (if pre =? 0 then Ok s0 else do ab' <- xfer (kind s0) (ab s0) ROUTER ADV pre; Ok (set_ab s0 ab'))).
      { destruct (pre =? 0); [reflexivity|]. apply pay_commute. }
      rewrite EP. destruct (if pre =? 0 then Ok s0 else _) as [sa| |]; cbn [bind omap]; try reflexivity.
      rewrite SC by auto. destruct (run_script z s sa); cbn [bind omap]; try reflexivity. apply complete_loan_commute. }
    unfold router_loan_f. destruct (f =? 0); [apply HRL|].
    pose proof (pay_commute k b u ROUTER f st) as HP.
    destruct (xfer (kind st) (ab st) u ROUTER f) as [ab1| |] eqn:EX; cbn [bind omap] in HP |- *.
    + destruct (xfer (kind (sv k b st)) (ab (sv k b st)) u ROUTER f) as [ab2| |] eqn:EX2; cbn [bind omap] in HP |- *; try discriminate HP.
      injection HP as HE. rewrite HE. replace (set_ab (sv k b st) ab1) with (sv k b (set_ab st ab1)) by (destruct k; reflexivity). apply HRL.
    + destruct (xfer (kind (sv k b st)) (ab (sv k b st)) u ROUTER f) as [ab2| |] eqn:EX2; cbn [bind omap] in HP |- *; try discriminate HP.
      inversion HP. reflexivity.
    + destruct (xfer (kind (sv k b st)) (ab (sv k b st)) u ROUTER f) as [ab2| |] eqn:EX2; cbn [bind omap] in HP |- *; try discriminate HP.
      reflexivity.
Qed.

(* the owner's UpdateConfig moves exactly the named switches and nothing else *)
Lemma vault_update_sets_flags st f st' :
  update_config (owner (conf st)) (mkUp (Some (f_sw f)) (Some (f_wd f)) (Some (f_dep f)) None None) st = Ok st' ->
  st' = set_vflags st f.
Proof.
  unfold update_config. rewrite Nat.eqb_refl. cbn. intros H. inversion H. destruct f; reflexivity.
Qed.
