(* DistributorConservation.v — whole-history conservation for the fee distributor (C09):
   everything the collector ever forwarded is, at every point of every history, either still in some epoch's `available`
   or recorded in some epoch's `claimed`; the sum of the `claimed` ledgers is exactly what was paid out to claimers; and
   the bank balance is exactly forwarded + plain transfers - paid. *)
From WW Require Import Prim Params Epochs Distributor.
From WW.Proofs Require Import ArithLemmas LairProofs EpochsProofs DistributorProofs.

Local Open Scope Z_scope.

Definition fee_of (f : deffect) : Z := match f with FNew _ fee => fee | FNewF _ fee _ => fee | _ => 0 end.
Definition paid_of (f : deffect) : Z := match f with FPaid _ _ a => a | _ => 0 end.
Definition fees_in (fs : list deffect) : Z := sumZ (map fee_of fs).
Definition paid_out (fs : list deffect) : Z := sumZ (map paid_of fs).

Lemma new_epoch_claimed k c now s ok fee s' :
  Inv k s -> 0 <= fee -> new_epoch c now s ok fee = Ok s' ->
  sum_claimed (d_epochs s') = sum_claimed (d_epochs s) /\ d_bal s' = d_bal s + fee.
Proof.
  intros I F H. pose proof (new_epoch_spec _ _ _ _ _ _ _ I F H) as S. cbn zeta in S.
  destruct S as (_ & _ & B & ne & _ & _ & NC & Hfull & Hshort). split; [|exact B].
  destruct (le_lt_dec (Z.to_nat (d_grace s)) (length (d_epochs s))) as [L|L].
  - destruct (Hfull L) as (x & Nx & _ & E). rewrite E. unfold sum_claimed. cbn [map sumZ]. rewrite NC. cbn [oz].
    rewrite (sum_esave (fun e => oz (de_claimed e)) x).
    + cbn [de_claimed]. lia.
    + apply ids_exact_nodup. apply (inv_ids k s I).
    + eapply nth_error_In; eauto.
    + reflexivity.
  - destruct (Hshort L) as (_ & E). rewrite E. unfold sum_claimed. cbn [map sumZ]. rewrite NC. cbn [oz]. lia.
Qed.

Lemma dstep_flows k c now s o s' f : Inv k s -> dop_wf o -> dstep c now s o = Ok (s', f) ->
  sum_claimed (d_epochs s') = sum_claimed (d_epochs s) + paid_of f /\
  d_bal s' = d_bal s + fee_of f + stray_of f - paid_of f /\ 0 <= paid_of f /\ 0 <= fee_of f.
Proof.
  intros I W H. destruct o as [ok fee|who fb shares|admin g|ok fee x|x]; cbn [dstep] in H; cbn [dop_wf] in W.
  - apply bind_ok in H as [s1 [H1 H]]. inversion H; subst. cbn [fee_of paid_of stray_of].
    destruct (new_epoch_claimed _ _ _ _ _ _ _ I W H1). lia.
  - apply bind_ok in H as [[s1 p] [H1 H]]. inversion H; subst. cbn [fst snd fee_of paid_of stray_of].
    destruct (claim_spec _ _ _ _ _ _ _ I W H1) as (_ & P0 & _ & PC & PB & _). lia.
  - apply bind_ok in H as [s1 [H1 H]]. inversion H; subst. cbn [fee_of paid_of stray_of].
    destruct (set_grace_spec _ _ _ _ _ I H1) as (_ & _ & _ & _ & E & _ & B). rewrite E, B. lia.
  - apply bind_ok in H as [u [H0 H]]. apply bind_ok in H as [s1 [H1 H]]. inversion H; subst.
    cbn [fee_of paid_of stray_of d_epochs d_bal].
    destruct (new_epoch_claimed _ _ _ _ _ _ _ I W H1). lia.
  - apply bind_ok in H as [u [H1 H]]. inversion H; subst. cbn [fee_of paid_of stray_of d_epochs d_bal]. lia.
Qed.

Lemma dsrun_flows_from c h : forall k s, Inv k s -> dhist_wf h ->
  let s' := fold_left (dshstep c) h s in let fs := dseffects c s h in
  sum_claimed (d_epochs s') = sum_claimed (d_epochs s) + paid_out fs /\
  d_bal s' = d_bal s + fees_in fs + strays fs - paid_out fs /\ 0 <= paid_out fs /\ 0 <= fees_in fs.
Proof.
  induction h as [|e r IH]; intros k s I W; cbn [fold_left dseffects]; cbn zeta.
  - unfold paid_out, fees_in, strays. cbn. lia.
  - inversion W; subst. unfold dshstep at 2 4.
    destruct (dstep c (fst e) s (snd e)) as [[s' f]| |] eqn:E.
    + pose proof (dstep_flows _ _ _ _ _ _ _ I H1 E) as (A1 & A2 & A3 & A4).
      pose proof (dstep_inv _ _ _ _ _ _ _ I H1 E) as I'.
      specialize (IH _ _ I' H2). cbn zeta in IH. destruct IH as (B1 & B2 & B3 & B4).
      unfold paid_out, fees_in, strays in *. cbn [map sumZ]. lia.
    + apply (IH _ _ I H2).
    + apply (IH _ _ I H2).
Qed.

Lemma sum_avail_nonneg l : Forall ledger_ok l -> 0 <= sum_avail l.
Proof.
  unfold sum_avail. induction 1 as [|e l He Hl IHl]; cbn [map sumZ]; [lia|].
  destruct He as (_ & _ & He). destruct (de_avail e) as [av|]; cbn [oz]; [destruct He; lia | lia].
Qed.

(* every reachable state of every history *)
Theorem distributor_conservation c g h : 1 <= g -> dhist_wf h ->
  let s := dsrun c g h in let fs := dseffects c (dinit g) h in
  sum_claimed (d_epochs s) = paid_out fs /\
  d_bal s = fees_in fs + strays fs - paid_out fs /\
  fees_in fs = sum_avail (d_epochs s) + sum_claimed (d_epochs s) /\
  0 <= paid_out fs <= fees_in fs.
Proof.
  intros G W. cbn zeta.
  pose proof (dsrun_flows_from c h 0 (dinit g) (inv_init g G) W) as F. cbn zeta in F.
  destruct F as (F1 & F2 & F3 & F4). fold (dsrun c g h) in F1, F2.
  pose proof (distributor_inv c g h G W) as I. pose proof (inv_bal _ _ I) as B.
  pose proof (sum_avail_nonneg _ (inv_ledger _ _ I)) as SA.
  unfold sum_claimed in F1 at 2. cbn [dinit d_epochs d_bal map sumZ] in F1, F2.
  repeat split; lia.
Qed.
