(* Stable3QuotesProofs.v — three-asset pool: the simulation query quotes exactly what a swap of the same offer in the same
   state transfers and records (C14), for all six directions, native and cw20 offers (the kind never enters either path). *)
From WW Require Import Prim Params Amp CPSwap Stable3 Stable3Pool Stable3Quotes.
From WW.Proofs Require Import ArithLemmas MonadLemmas Stable3Proofs Stable3PoolProofs.

Local Open Scope Z_scope.

(* the execution path's reserves are the state-before reserves: (bal + x) - fee - x fails exactly when bal - fee does *)
Lemma exec_reserve_eq i x k p : 0 <= x -> exec_reserve i x k p = reserve k p.
Proof.
  intro X. unfold exec_reserve, reserve, csub.
  destruct (k =? i).
  - destruct (get3 k (p_fee p) <=? get3 k (p_bal p) + x) eqn:A; destruct (get3 k (p_fee p) <=? get3 k (p_bal p)) eqn:B; cbn [bind].
    + assert ((x <=? get3 k (p_bal p) + x - get3 k (p_fee p)) = true) as -> by (apply Z.leb_le; apply Z.leb_le in B; lia).
      f_equal. lia.
    + assert ((x <=? get3 k (p_bal p) + x - get3 k (p_fee p)) = false) as -> by (apply Z.leb_gt; apply Z.leb_gt in B; lia).
      reflexivity.
    + apply Z.leb_gt in A. apply Z.leb_le in B. lia.
    + reflexivity.
  - rewrite Z.add_0_r. destruct (get3 k (p_fee p) <=? get3 k (p_bal p)); reflexivity.
Qed.

Theorem swap_exec_is_swap p i j x ms : 0 <= x -> swap_exec p i j x ms = swap p i j x ms.
Proof. intro X. unfold swap_exec, swap. rewrite !exec_reserve_eq by exact X. reflexivity. Qed.

Lemma get3_upd3_same j f t : get3 j (upd3 j f t) = f (get3 j t).
Proof. destruct t as [[a b] c]. unfold get3, upd3. destruct (j =? 0); [reflexivity|]. destruct (j =? 1); reflexivity. Qed.

Lemma get3_upd3_other i j f t : 0 <= i <= 2 -> 0 <= j <= 2 -> i <> j -> get3 j (upd3 i f t) = get3 j t.
Proof.
  intros Hi Hj N. destruct t as [[a b] c]. unfold get3, upd3.
  destruct (Z.eqb_spec i 0); destruct (Z.eqb_spec j 0); try lia; try reflexivity;
  destruct (Z.eqb_spec i 1); destruct (Z.eqb_spec j 1); try lia; reflexivity.
Qed.

Theorem sim3_eq_exec p i j x ms p' e : 0 <= x -> pool_inv p -> swap_exec p i j x ms = Ok (p', e) ->
  exists s, simulate3 p i j x = Ok s /\
    get3 j (e_user e) = s_ret s /\ get3 i (e_user e) = - x /\ get3 j (e_burned e) = s_burnfee s /\
    get3 j (p_fee p') - get3 j (p_fee p) = s_protfee s /\
    get3 j (p_all p') - get3 j (p_all p) = s_protfee s /\
    get3 j (p_burn p') - get3 j (p_burn p) = s_burnfee s /\
    get3 j (p_bal p) - get3 j (p_bal p') = s_ret s + s_burnfee s /\
    get3 i (p_bal p') - get3 i (p_bal p) = x.
Proof.
  intros X I H. rewrite swap_exec_is_swap in H by exact X.
  assert (SIM : exists s, simulate3 p i j x = Ok s /\
                  exists f1 fsum tot u1 u2, cadd P128 (s_swapfee s) (s_protfee s) = Ok f1 /\ cadd P128 f1 (s_burnfee s) = Ok fsum /\
                    cadd P128 (s_ret s) fsum = Ok tot /\ assert_max_spread_none ms tot (s_spread s) = Ok u1 /\
                    ensure (s_ret s + s_burnfee s <=? get3 j (p_bal p)) E_OTHER = Ok u2 /\
                    (p', e) = (mkPool (upd3 j (fun b => b - (s_ret s + s_burnfee s)) (upd3 i (fun b => b + x) (p_bal p)))
                                (upd3 j (fun f => f + s_protfee s) (p_fee p)) (upd3 j (fun f => f + s_protfee s) (p_all p))
                                (upd3 j (fun f => f + s_burnfee s) (p_burn p))
                                (p_supply p) (p_lp p) (p_lp_self p) (p_cfg p) (p_height p) (p_fees p) (p_cw20 p),
                              mkEff (upd3 j (fun _ => s_ret s) (upd3 i (fun _ => - x) zero3)) zero3 (upd3 j (fun _ => s_burnfee s) zero3) 0)).
  { unfold swap in H. unfold simulate3.
    apply bind_ok in H as (r0 & E0 & H). apply bind_ok in H as (r1 & E1 & H). apply bind_ok in H as (r2 & E2 & H).
    apply bind_ok in H as (sel & ES & H). destruct sel as [[opool apool] upool].
    apply bind_ok in H as (s & EC & H). apply bind_ok in H as (f1 & EF1 & H). apply bind_ok in H as (fsum & EF2 & H).
    apply bind_ok in H as (tot & ET & H). apply bind_ok in H as (u1 & EM & H). apply bind_ok in H as (u2 & EO & H).
    exists s. rewrite E0, E1, E2. cbn [bind]. rewrite ES. cbn [bind]. split; [exact EC|].
    exists f1, fsum, tot, u1, u2. inversion H; subst. repeat split; auto. }
  destruct SIM as (s & ES & _).
  destruct (swap_spec _ _ _ _ _ _ _ H X I) as (s' & res & ri & rj & rk & k & Hi & Hj & Nij & Hk & Ri & Rj & Rk & EC & _ & _ & _ & _ & _ & _ & _ & _ & -> & ->).
  assert (s' = s).
  { unfold simulate3 in ES.
    apply bind_ok in ES as (r0 & E0 & ES). apply bind_ok in ES as (r1 & E1 & ES). apply bind_ok in ES as (r2 & E2 & ES).
    apply bind_ok in ES as (sel & ESel & ES). destruct sel as [[opool apool] upool].
    apply reserve_ok in E0 as [-> _]. apply reserve_ok in E1 as [-> _]. apply reserve_ok in E2 as [-> _].
    assert ((opool, apool, upool) = (ri, rj, rk)).
    { subst ri rj rk k. unfold select_pools in ESel.
      destruct (Z.eqb_spec j 0); [subst j|destruct (Z.eqb_spec j 1); [subst j|destruct (Z.eqb_spec j 2); [subst j|discriminate]]];
      (destruct (Z.eqb_spec i 0); [subst i|destruct (Z.eqb_spec i 1); [subst i|destruct (Z.eqb_spec i 2); [subst i|try discriminate]]]);
      try discriminate; try lia; inversion ESel; subst; reflexivity. }
    inversion H0; subst opool apool upool. rewrite EC in ES. inversion ES. reflexivity. }
  subst s'. exists s. split; [exact ES|].
  cbn [e_user e_burned p_fee p_all p_burn p_bal].
  rewrite !get3_upd3_same.
  rewrite !(get3_upd3_other j i) by (auto; lia).
  rewrite !get3_upd3_same.
  rewrite ?(get3_upd3_other i j) by (auto; lia).
  cbv beta. repeat split; lia.
Qed.
