(* DistributorCursor.v — the claim cursors (LAST_CLAIMED_EPOCH) over whole histories (C09):
   a cursor always names a stored epoch, and along any history an address's cursor never moves back (an accepted claim
   moves it strictly forward) — the reason a later claim can never reach an epoch already paid. *)
From WW Require Import Prim Params Epochs Distributor.
From WW.Proofs Require Import ArithLemmas LairProofs EpochsProofs DistributorProofs.

Local Open Scope Z_scope.

Definition cursors_stored (s : dstate) : Prop :=
  forall who v, cfind who (d_cursor s) = Some v -> 1 <= v <= Z.of_nat (length (d_epochs s)).

(* s' is "ahead of" s: every cursor of s is still there and has not moved back *)
Definition cursors_le (s s' : dstate) : Prop :=
  forall who v, cfind who (d_cursor s) = Some v -> exists v', cfind who (d_cursor s') = Some v' /\ v <= v'.

Lemma cursors_le_refl s : cursors_le s s.
Proof. intros who v H. exists v. split; [exact H | lia]. Qed.

Lemma cursors_le_trans a b c : cursors_le a b -> cursors_le b c -> cursors_le a c.
Proof.
  intros AB BC who v H. destruct (AB who v H) as (v1 & H1 & L1). destruct (BC who v1 H1) as (v2 & H2 & L2).
  exists v2. split; [exact H2 | lia].
Qed.

Lemma new_epoch_length k c now d ok fee d' :
  Inv k d -> 0 <= fee -> new_epoch c now d ok fee = Ok d' ->
  length (d_epochs d') = S (length (d_epochs d)) /\ d_cursor d' = d_cursor d.
Proof.
  intros I F H. pose proof (new_epoch_spec _ _ _ _ _ _ _ I F H) as S0. cbn zeta in S0.
  destruct S0 as (C & _ & _ & ne & _ & _ & _ & Hfull & Hshort). split; [|exact C].
  destruct (le_lt_dec (Z.to_nat (d_grace d)) (length (d_epochs d))) as [L|L].
  - destruct (Hfull L) as (x & _ & _ & E). rewrite E. cbn [length]. rewrite esave_length. reflexivity.
  - destruct (Hshort L) as (_ & E). rewrite E. reflexivity.
Qed.

Lemma map_eq_length {A B} (f : A -> B) l l' : map f l = map f l' -> length l = length l'.
Proof. intro H. rewrite <- (map_length f l), <- (map_length f l'), H. reflexivity. Qed.

Lemma dstep_cursor k c now s o s' f : Inv k s -> dop_wf o -> cursors_stored s -> dstep c now s o = Ok (s', f) ->
  cursors_stored s' /\ cursors_le s s' /\
  (forall who fb shares, o = DClaim who fb shares ->
     exists v', cfind who (d_cursor s') = Some v' /\
       match cfind who (d_cursor s) with Some v => v < v' | None => True end).
Proof.
  intros I W CS H. destruct o as [ok fee|who fb shares|admin g|ok fee x|x]; cbn [dstep] in H; cbn [dop_wf] in W.
  - apply bind_ok in H as [s1 [H1 H]]. inversion H; subst.
    destruct (new_epoch_length _ _ _ _ _ _ _ I W H1) as (L & C). split; [|split].
    + intros w v Hv. rewrite C in Hv. specialize (CS w v Hv). rewrite L. lia.
    + intros w v Hv. exists v. rewrite C. split; [exact Hv | lia].
    + intros w fb sh E. discriminate E.
  - apply bind_ok in H as [[s1 p] [H1 H]]. inversion H; subst. cbn [fst].
    destruct (claim_spec _ _ _ _ _ _ _ I W H1) as (_ & _ & _ & _ & _ & _ & M & newest & rest & CL & CU & ALL).
    pose proof (map_eq_length _ _ _ M) as LEN.
    assert (INn : In newest (claimable s who fb)) by (rewrite CL; left; reflexivity).
    destruct (claimable_in _ _ _ _ INn) as (INw & _ & COK).
    pose proof (ids_exact_in _ _ (inv_ids _ _ I) (in_firstn_in _ _ _ INw)) as RNG.
    split; [|split].
    + intros w v Hv. rewrite CU in Hv. rewrite LEN. destruct (Z.eq_dec w who) as [->|NE].
      * rewrite cfind_cset_same in Hv. inversion Hv; subst. exact RNG.
      * rewrite cfind_cset_other in Hv by exact NE. apply (CS w v Hv).
    + intros w v Hv. rewrite CU. destruct (Z.eq_dec w who) as [->|NE].
      * exists (de_id newest). rewrite cfind_cset_same. split; [reflexivity|].
        unfold cursor_ok in COK. rewrite Hv in COK. lia.
      * exists v. rewrite cfind_cset_other by exact NE. split; [exact Hv | lia].
    + intros w fb' sh E. inversion E; subst. exists (de_id newest). rewrite CU, cfind_cset_same. split; [reflexivity|].
      unfold cursor_ok in COK. destruct (cfind w (d_cursor s)); [exact COK | exact Logic.I].
  - apply bind_ok in H as [s1 [H1 H]]. inversion H; subst.
    destruct (set_grace_spec _ _ _ _ _ I H1) as (_ & _ & _ & _ & E & C & _). split; [|split].
    + intros w v Hv. rewrite C in Hv. rewrite E. apply (CS w v Hv).
    + intros w v Hv. exists v. rewrite C. split; [exact Hv | lia].
    + intros w fb sh E0. discriminate E0.
  - apply bind_ok in H as [u [_ H]]. apply bind_ok in H as [s1 [H1 H]]. inversion H; subst. cbn [d_cursor d_epochs].
    destruct (new_epoch_length _ _ _ _ _ _ _ I W H1) as (L & C). split; [|split].
    + intros w v Hv. cbn [d_cursor d_epochs] in *. rewrite C in Hv. specialize (CS w v Hv). rewrite L. lia.
    + intros w v Hv. exists v. cbn [d_cursor]. rewrite C. split; [exact Hv | lia].
    + intros w fb sh E. discriminate E.
  - apply bind_ok in H as [u [_ H]]. inversion H; subst. split; [|split].
    + intros w v Hv. cbn [d_cursor d_epochs] in *. apply (CS w v Hv).
    + intros w v Hv. exists v. cbn [d_cursor]. split; [exact Hv | lia].
    + intros w fb sh E. discriminate E.
Qed.

Lemma dsrun_cursor_from c h : forall k s, Inv k s -> dhist_wf h -> cursors_stored s ->
  cursors_stored (fold_left (dshstep c) h s) /\ cursors_le s (fold_left (dshstep c) h s).
Proof.
  induction h as [|e r IH]; intros k s I W CS; cbn [fold_left].
  - split; [exact CS | apply cursors_le_refl].
  - inversion W; subst. unfold dshstep at 2 4.
    destruct (dstep c (fst e) s (snd e)) as [[s' f]| |] eqn:E; try (apply (IH k s); assumption).
    destruct (dstep_cursor _ _ _ _ _ _ _ I H1 CS E) as (CS' & LE & _).
    destruct (IH _ s' (dstep_inv _ _ _ _ _ _ _ I H1 E) H2 CS') as (A & B).
    split; [exact A | eapply cursors_le_trans; eauto].
Qed.

(* every reachable state: a cursor names a stored epoch; cursors never move back along any continuation of a history *)
Theorem distributor_cursors c g h1 h2 : 1 <= g -> dhist_wf h1 -> dhist_wf h2 ->
  cursors_stored (dsrun c g h1) /\ cursors_le (dsrun c g h1) (dsrun c g (h1 ++ h2)).
Proof.
  intros G W1 W2.
  assert (CS0 : cursors_stored (dinit g)) by (intros w v Hv; cbn in Hv; discriminate).
  destruct (dsrun_cursor_from c h1 0 (dinit g) (inv_init g G) W1 CS0) as (A & _).
  split; [exact A|].
  unfold dsrun. rewrite fold_left_app. fold (dsrun c g h1).
  pose proof (distributor_inv c g h1 G W1) as I1.
  apply (dsrun_cursor_from c h2 _ (dsrun c g h1) I1 W2 A).
Qed.

(* an accepted claim moves the claimer's cursor strictly forward *)
Theorem claim_cursor_strict k c now s who fb shares s' f :
  Inv k s -> shares_wf shares -> cursors_stored s -> dstep c now s (DClaim who fb shares) = Ok (s', f) ->
  exists v', cfind who (d_cursor s') = Some v' /\
    match cfind who (d_cursor s) with Some v => v < v' | None => True end.
Proof.
  intros I W CS H. assert (W' : dop_wf (DClaim who fb shares)) by exact W.
  destruct (dstep_cursor _ _ _ _ _ _ _ I W' CS H) as (_ & _ & X). eapply X. reflexivity.
Qed.
