(* SlippageProofs.v — C15: soundness and completeness of assert_max_spread / assert_slippage_cp *)
From WW Require Import Prim Slippage.
From WW.Proofs Require Import ArithLemmas.

Lemma floor_le_iff a b s : 0 < b -> (a / b <= s <-> a < (s + 1) * b).
Proof.
  intros Hb. split; intro H.
  - pose proof (Z.mul_div_le a b Hb). pose proof (Z.mod_pos_bound a b Hb).
    pose proof (Z.div_mod a b ltac:(lia)). nia.
  - assert (a / b < s + 1) by (apply Z.div_lt_upper_bound; nia). lia.
Qed.

Section MaxSpread.
  Variables (dflt maxs : Z).

  Definition s_eff (m : option Z) := eff_spread dflt maxs m.

  (* no belief price: accepted -> floor(spread*10^18/(ret+spread)) <= s_eff, i.e. spread/(ret+spread) < s_eff + 10^-18 *)
  Lemma max_spread_sound m offer ret spread :
    assert_max_spread dflt maxs None m offer ret spread = Ok tt ->
    0 < ret + spread /\ spread * DEC / (ret + spread) <= s_eff m.
  Proof.
    unfold assert_max_spread, padd, dec_from_ratio. fold (s_eff m).
    destruct (fits P128 (ret + spread)) eqn:Ef; cbn [bind]; [|discriminate].
    destruct (ret + spread =? 0) eqn:Ez; cbn [bind]; [discriminate|].
    destruct (spread * DEC / (ret + spread) <? P256) eqn:El; cbn [bind]; [|discriminate].
    destruct (s_eff m <? spread * DEC / (ret + spread)) eqn:Ec; [discriminate|].
    intros _. apply fits_true in Ef. apply Z.eqb_neq in Ez. apply Z.ltb_ge in Ec. lia.
  Qed.

  Lemma max_spread_sound_rational m offer ret spread : 0 <= spread ->
    assert_max_spread dflt maxs None m offer ret spread = Ok tt ->
    spread * DEC < (s_eff m + 1) * (ret + spread).
  Proof.
    intros Hs H. apply max_spread_sound in H as [Hp Hle]. apply floor_le_iff in Hle; lia.
  Qed.

  (* converse: a request within the limit is not rejected (and does not abort) *)
  Lemma max_spread_complete m offer ret spread :
    0 <= ret -> 0 <= spread -> 0 < ret + spread < P128 ->
    spread * DEC <= s_eff m * (ret + spread) ->
    assert_max_spread dflt maxs None m offer ret spread = Ok tt.
  Proof.
    intros Hr Hs Hd Hle. unfold assert_max_spread, padd, dec_from_ratio. fold (s_eff m).
    rewrite (fits_intro P128 (ret + spread)) by lia. cbn [bind].
    replace (ret + spread =? 0) with false by (symmetry; apply Z.eqb_neq; lia).
    pose proof DEC_pos.
    assert (Hq : spread * DEC / (ret + spread) <= s_eff m).
    { apply floor_le_iff; [lia|]. nia. }
    assert (Hq2 : spread * DEC / (ret + spread) <= DEC).
    { apply Z.div_le_upper_bound; [lia|]. nia. }
    replace (spread * DEC / (ret + spread) <? P256) with true
      by (symmetry; apply Z.ltb_lt; assert (DEC < P256) by reflexivity; lia).
    cbn [bind].
    replace (s_eff m <? spread * DEC / (ret + spread)) with false by (symmetry; apply Z.ltb_ge; lia).
    reflexivity.
  Qed.

  Lemma max_spread_rejects_only_for_slippage m offer ret spread :
    0 <= ret -> 0 <= spread -> 0 < ret + spread < P128 ->
    assert_max_spread dflt maxs None m offer ret spread = Ok tt \/
    (assert_max_spread dflt maxs None m offer ret spread = Err E_SLIPPAGE /\ s_eff m < spread * DEC / (ret + spread)).
  Proof.
    intros Hr Hs Hd. unfold assert_max_spread, padd, dec_from_ratio. fold (s_eff m).
    rewrite (fits_intro P128 (ret + spread)) by lia. cbn [bind].
    replace (ret + spread =? 0) with false by (symmetry; apply Z.eqb_neq; lia).
    pose proof DEC_pos.
    assert (Hq2 : spread * DEC / (ret + spread) <= DEC) by (apply Z.div_le_upper_bound; [lia|]; nia).
    replace (spread * DEC / (ret + spread) <? P256) with true
      by (symmetry; apply Z.ltb_lt; assert (DEC < P256) by reflexivity; lia).
    cbn [bind].
    destruct (s_eff m <? spread * DEC / (ret + spread)) eqn:Ec; [right|left; reflexivity].
    apply Z.ltb_lt in Ec. auto.
  Qed.

  (* with a belief price p: er = floor(offer * floor(10^36/p) / 10^18) is the expected return the code computes.
     accepted -> ret >= er, or (er - ret)/er <= s_eff at 18-decimal resolution, i.e.
     ret * 10^18 + er > er * (10^18 - s_eff): the proceeds are at least er*(1-s) up to er*10^-18 base units *)
  Definition expected_return (offer p : Z) : Z := offer * (DEC * DEC / p) / DEC.

  Lemma belief_sound m p offer ret spread : 0 < p -> 0 <= offer -> 0 <= ret ->
    assert_max_spread dflt maxs (Some p) m offer ret spread = Ok tt ->
    let er := expected_return offer p in
    ret * DEC + er > er * (DEC - s_eff m) \/ er <= ret.
  Proof.
    intros Hp Ho Hr. unfold assert_max_spread, mul_dec, dec_from_ratio. fold (s_eff m).
    replace (p =? 0) with false by (symmetry; apply Z.eqb_neq; lia).
    fold (expected_return offer p).
    destruct (expected_return offer p <? P128) eqn:El; cbn [bind]; [|discriminate].
    destruct (ret <? expected_return offer p) eqn:Er; [|intros _; right; apply Z.ltb_ge in Er; lia].
    apply Z.ltb_lt in Er.
    replace (expected_return offer p =? 0) with false by (symmetry; apply Z.eqb_neq; lia).
    set (er := expected_return offer p) in *.
    destruct (ssub er ret * DEC / er <? P256); cbn [bind]; [|discriminate].
    destruct (s_eff m <? ssub er ret * DEC / er) eqn:Ec; [discriminate|]. intros _. cbv zeta.
    apply Z.ltb_ge in Ec. unfold ssub in Ec. rewrite Z.max_r in Ec by lia.
    apply floor_le_iff in Ec; [|lia]. left. nia.
  Qed.

  (* the code's expected return against the exact offer/p: er*p <= offer*10^18 < (er+1)*p + offer*p*10^-18 *)
  Lemma expected_return_bounds offer p : 0 < p -> 0 <= offer ->
    let er := expected_return offer p in
    er * p <= offer * DEC /\ offer * DEC * DEC < (er + 1) * DEC * p + offer * p.
  Proof.
    intros Hp Ho. cbv zeta. unfold expected_return. pose proof DEC_pos as HD.
    set (inv := DEC * DEC / p).
    assert (Hi : inv * p <= DEC * DEC /\ DEC * DEC < (inv + 1) * p).
    { unfold inv. pose proof (Z.mul_div_le (DEC*DEC) p Hp). pose proof (Z.mod_pos_bound (DEC*DEC) p Hp).
      pose proof (Z.div_mod (DEC*DEC) p ltac:(lia)). nia. }
    assert (He : DEC * (offer * inv / DEC) <= offer * inv /\ offer * inv < DEC * (offer * inv / DEC + 1)).
    { pose proof (Z.mul_div_le (offer*inv) DEC HD). pose proof (Z.mod_pos_bound (offer*inv) DEC HD).
      pose proof (Z.div_mod (offer*inv) DEC ltac:(lia)). nia. }
    set (er := offer * inv / DEC) in *.
    assert (0 <= inv) by (unfold inv; apply Z.div_pos; nia).
    split.
    - assert (DEC * (er * p) <= DEC * (offer * DEC)) by nia. nia.
    - nia.
  Qed.

  (* against the exact quotient: ret + 1 + (er + offer)*10^-18 > (offer/p)*(1 - s_eff); for amounts below 10^18 base
     units the slack is below 3 units, for larger amounts it grows with the 18-decimal truncation of 1/p *)
  Lemma belief_sound_exact m p offer ret spread : 0 < p -> 0 <= offer -> 0 <= ret -> 0 <= s_eff m <= DEC ->
    assert_max_spread dflt maxs (Some p) m offer ret spread = Ok tt ->
    let er := expected_return offer p in
    (ret + 1) * DEC * p + (er + offer) * p > offer * DEC * (DEC - s_eff m) \/ er <= ret.
  Proof.
    intros Hp Ho Hr Hs H. cbv zeta.
    destruct (belief_sound m p offer ret spread Hp Ho Hr H) as [H1|H1]; [|right; exact H1]. left.
    pose proof (expected_return_bounds offer p Hp Ho) as [B1 B2]. cbv zeta in B1, B2.
    set (er := expected_return offer p) in *. set (t := DEC - s_eff m) in *. pose proof DEC_pos as HD.
    assert (Ht : 0 <= t <= DEC) by (unfold t; lia).
    assert (Her : 0 <= er). { unfold er, expected_return. apply Z.div_pos; [|lia]. apply Z.mul_nonneg_nonneg; [lia|]. apply Z.div_pos; nia. }
    (* (1) ret*D + er > er*t ; (2) offer*D*D < (er+1)*D*p + offer*p *)
    assert (A : ret * DEC * (DEC * p) + er * (DEC * p) > er * t * (DEC * p)) by nia.
    assert (B : er * (DEC * p) * t >= (offer * DEC * DEC - DEC * p - offer * p) * t) by nia.
    assert (C : (DEC * p + offer * p) * t <= (DEC * p + offer * p) * DEC) by nia.
    assert (E : DEC * ((ret + 1) * DEC * p + (er + offer) * p) > DEC * (offer * DEC * t)) by nia.
    nia.
  Qed.

  Lemma belief_complete m p offer ret spread : 0 < p -> 0 <= offer -> 0 <= ret ->
    expected_return offer p < P128 ->
    let er := expected_return offer p in
    (er <= ret \/ (er - ret) * DEC <= s_eff m * er) ->
    assert_max_spread dflt maxs (Some p) m offer ret spread = Ok tt.
  Proof.
    intros Hp Ho Hr Hl. cbv zeta. intros Hc.
    unfold assert_max_spread, mul_dec, dec_from_ratio. fold (s_eff m).
    replace (p =? 0) with false by (symmetry; apply Z.eqb_neq; lia).
    fold (expected_return offer p). set (er := expected_return offer p) in *.
    replace (er <? P128) with true by (symmetry; apply Z.ltb_lt; lia). cbn [bind].
    destruct (ret <? er) eqn:Er; [|reflexivity]. apply Z.ltb_lt in Er.
    destruct Hc as [Hc|Hc]; [lia|].
    replace (er =? 0) with false by (symmetry; apply Z.eqb_neq; lia).
    unfold ssub. rewrite Z.max_r by lia. pose proof DEC_pos.
    assert (Hq : (er - ret) * DEC / er <= s_eff m) by (apply floor_le_iff; [lia|]; nia).
    assert (Hq2 : (er - ret) * DEC / er <= DEC) by (apply Z.div_le_upper_bound; [lia|]; nia).
    replace ((er - ret) * DEC / er <? P256) with true
      by (symmetry; apply Z.ltb_lt; assert (DEC < P256) by reflexivity; lia).
    cbn [bind].
    replace (s_eff m <? (er - ret) * DEC / er) with false by (symmetry; apply Z.ltb_ge; lia).
    reflexivity.
  Qed.
End MaxSpread.

(* effective spread: default when absent, capped at the maximum *)
Lemma eff_spread_cap dflt maxs m : eff_spread dflt maxs m <= maxs.
Proof. unfold eff_spread. lia. Qed.
Lemma eff_spread_le_requested dflt maxs s : eff_spread dflt maxs (Some s) <= s.
Proof. unfold eff_spread. lia. Qed.

(* ---- liquidity slippage tolerance, constant product ----------------------------------------------- *)
Definition ratio (a b : Z) : Z := a * DEC / b.
Definition tol_bound (t d0 d1 r0 r1 : Z) : Prop :=
  ratio d0 d1 * (DEC - t) / DEC <= ratio r0 r1 /\ ratio d1 d0 * (DEC - t) / DEC <= ratio r1 r0.

Lemma tolerance_sound t d0 d1 r0 r1 :
  assert_slippage_cp (Some t) d0 d1 r0 r1 = Ok tt -> t <= DEC /\ tol_bound t d0 d1 r0 r1.
Proof.
  unfold assert_slippage_cp, dec_from_ratio, dec_mul, tol_bound, ratio.
  destruct (DEC <? t) eqn:Et; [discriminate|]. apply Z.ltb_ge in Et.
  destruct (d1 =? 0); cbn [bind]; [discriminate|].
  destruct (d0 * DEC / d1 <? P256); cbn [bind]; [|discriminate].
  destruct (d0 * DEC / d1 * (DEC - t) / DEC <? P256); cbn [bind]; [|discriminate].
  destruct (r1 =? 0); cbn [bind]; [discriminate|].
  destruct (r0 * DEC / r1 <? P256); cbn [bind]; [|discriminate].
  destruct (r0 * DEC / r1 <? d0 * DEC / d1 * (DEC - t) / DEC) eqn:E1; [discriminate|].
  destruct (d0 =? 0); cbn [bind]; [discriminate|].
  destruct (d1 * DEC / d0 <? P256); cbn [bind]; [|discriminate].
  destruct (d1 * DEC / d0 * (DEC - t) / DEC <? P256); cbn [bind]; [|discriminate].
  destruct (r0 =? 0); cbn [bind]; [discriminate|].
  destruct (r1 * DEC / r0 <? P256); cbn [bind]; [|discriminate].
  destruct (r1 * DEC / r0 <? d1 * DEC / d0 * (DEC - t) / DEC) eqn:E2; [discriminate|].
  intros _. apply Z.ltb_ge in E1, E2. lia.
Qed.

Lemma tolerance_gt_one_rejected t d0 d1 r0 r1 : DEC < t -> assert_slippage_cp (Some t) d0 d1 r0 r1 = Err E_OTHER.
Proof. intro H. unfold assert_slippage_cp. replace (DEC <? t) with true by (symmetry; apply Z.ltb_lt; lia). reflexivity. Qed.

Lemma tolerance_none_accepts d0 d1 r0 r1 : assert_slippage_cp None d0 d1 r0 r1 = Ok tt.
Proof. reflexivity. Qed.

Lemma tolerance_complete t d0 d1 r0 r1 :
  0 <= t <= DEC -> 0 < d0 < P128 -> 0 < d1 < P128 -> 0 < r0 < P128 -> 0 < r1 < P128 ->
  tol_bound t d0 d1 r0 r1 -> assert_slippage_cp (Some t) d0 d1 r0 r1 = Ok tt.
Proof.
  intros Ht Hd0 Hd1 Hr0 Hr1 [B1 B2]. unfold tol_bound, ratio in *.
  unfold assert_slippage_cp, dec_from_ratio, dec_mul.
  replace (DEC <? t) with false by (symmetry; apply Z.ltb_ge; lia).
  pose proof DEC_pos as HD. assert (HPD : P128 * DEC < P256) by reflexivity.
  assert (Hb : forall a b, 0 < a < P128 -> 0 < b < P128 -> 0 <= a * DEC / b < P256).
  { intros a b Ha Hb. split. apply Z.div_pos; nia. apply Z.div_lt_upper_bound; [lia|].
    assert (a * DEC < P256) by nia. assert (0 < P256) by reflexivity. nia. }
  assert (Hm : forall q, 0 <= q < P256 -> 0 <= q * (DEC - t) / DEC < P256).
  { intros q Hq. split. apply Z.div_pos; nia. apply Z.div_lt_upper_bound; nia. }
  replace (d1 =? 0) with false by (symmetry; apply Z.eqb_neq; lia).
  replace (d0 * DEC / d1 <? P256) with true by (symmetry; apply Z.ltb_lt; apply Hb; lia). cbn [bind].
  replace (d0 * DEC / d1 * (DEC - t) / DEC <? P256) with true by (symmetry; apply Z.ltb_lt; apply Hm; apply Hb; lia). cbn [bind].
  replace (r1 =? 0) with false by (symmetry; apply Z.eqb_neq; lia).
  replace (r0 * DEC / r1 <? P256) with true by (symmetry; apply Z.ltb_lt; apply Hb; lia). cbn [bind].
  replace (r0 * DEC / r1 <? d0 * DEC / d1 * (DEC - t) / DEC) with false by (symmetry; apply Z.ltb_ge; lia).
  replace (d0 =? 0) with false by (symmetry; apply Z.eqb_neq; lia).
  replace (d1 * DEC / d0 <? P256) with true by (symmetry; apply Z.ltb_lt; apply Hb; lia). cbn [bind].
  replace (d1 * DEC / d0 * (DEC - t) / DEC <? P256) with true by (symmetry; apply Z.ltb_lt; apply Hm; apply Hb; lia). cbn [bind].
  replace (r0 =? 0) with false by (symmetry; apply Z.eqb_neq; lia).
  replace (r1 * DEC / r0 <? P256) with true by (symmetry; apply Z.ltb_lt; apply Hb; lia). cbn [bind].
  replace (r1 * DEC / r0 <? d1 * DEC / d0 * (DEC - t) / DEC) with false by (symmetry; apply Z.ltb_ge; lia).
  reflexivity.
Qed.

(* ---- liquidity slippage tolerance, stableswap pools ---------------------------------------------------------- *)
Definition stable_tol_bound (t dep_total pool_total amount supply : Z) : Prop :=
  ratio pool_total supply * (DEC - t) / DEC <= ratio dep_total amount.

Lemma stable_tolerance_sound t dt pt amount supply :
  assert_slippage_stable (Some t) dt pt amount supply = Ok tt ->
  t <= DEC /\ supply <> 0 /\ amount <> 0 /\ stable_tol_bound t dt pt amount supply.
Proof.
  unfold assert_slippage_stable, dec_from_ratio, dec_mul, stable_tol_bound, ratio.
  destruct (DEC <? t) eqn:Et; [discriminate|]. apply Z.ltb_ge in Et.
  destruct (supply =? 0) eqn:Es; cbn [bind]; [discriminate|]. apply Z.eqb_neq in Es.
  destruct (pt * DEC / supply <? P256); cbn [bind]; [|discriminate].
  destruct (amount =? 0) eqn:Ea; cbn [bind]; [discriminate|]. apply Z.eqb_neq in Ea.
  destruct (dt * DEC / amount <? P256); cbn [bind]; [|discriminate].
  destruct (pt * DEC / supply * (DEC - t) / DEC <? P256); cbn [bind]; [|discriminate].
  destruct (dt * DEC / amount <? pt * DEC / supply * (DEC - t) / DEC) eqn:E1; [discriminate|].
  intros _. apply Z.ltb_ge in E1. auto.
Qed.

Lemma stable_tolerance_gt_one_rejected t dt pt amount supply : DEC < t ->
  assert_slippage_stable (Some t) dt pt amount supply = Err E_OTHER.
Proof. intro H. unfold assert_slippage_stable. replace (DEC <? t) with true by (symmetry; apply Z.ltb_lt; lia). reflexivity. Qed.

Lemma stable_tolerance_complete t dt pt amount supply :
  0 <= t <= DEC -> 0 <= dt < 4 * P128 -> 0 <= pt < 4 * P128 -> 0 < amount < P128 -> 0 < supply < P128 ->
  stable_tol_bound t dt pt amount supply -> assert_slippage_stable (Some t) dt pt amount supply = Ok tt.
Proof.
  intros Ht Hd Hp Ha Hs B. unfold stable_tol_bound, ratio in B.
  unfold assert_slippage_stable, dec_from_ratio, dec_mul.
  replace (DEC <? t) with false by (symmetry; apply Z.ltb_ge; lia).
  pose proof DEC_pos as HD. assert (HPD : 4 * P128 * DEC < P256) by reflexivity. assert (0 < P256) by reflexivity.
  assert (Hb : forall a b, 0 <= a < 4 * P128 -> 0 < b < P128 -> 0 <= a * DEC / b < P256).
  { intros a b Ha' Hb'. split. apply Z.div_pos; nia. apply Z.div_lt_upper_bound; [lia|]. assert (a * DEC < P256) by nia. nia. }
  assert (Hm : forall q, 0 <= q < P256 -> 0 <= q * (DEC - t) / DEC < P256).
  { intros q Hq. split. apply Z.div_pos; nia. apply Z.div_lt_upper_bound; nia. }
  replace (supply =? 0) with false by (symmetry; apply Z.eqb_neq; lia).
  replace (pt * DEC / supply <? P256) with true by (symmetry; apply Z.ltb_lt; apply Hb; lia). cbn [bind].
  replace (amount =? 0) with false by (symmetry; apply Z.eqb_neq; lia).
  replace (dt * DEC / amount <? P256) with true by (symmetry; apply Z.ltb_lt; apply Hb; lia). cbn [bind].
  replace (pt * DEC / supply * (DEC - t) / DEC <? P256) with true by (symmetry; apply Z.ltb_lt; apply Hm; apply Hb; lia). cbn [bind].
  replace (dt * DEC / amount <? pt * DEC / supply * (DEC - t) / DEC) with false by (symmetry; apply Z.ltb_ge; lia).
  reflexivity.
Qed.
