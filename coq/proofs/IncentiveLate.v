(* IncentiveLate.v — known class `first_claim_beyond_epoch_cap` (C13): an address that never claimed and first gets weight more
   than CLAIM_CAP epochs after a flow's start. The claim loop starts at the flow's start epoch and stops after CLAIM_CAP epochs,
   before reaching the epochs in which the address has weight: the rewards query reports rewards, the claim succeeds, pays nothing
   and marks the epochs as claimed. Holds for the repaired code (v_fixed) as well. *)
From WW Require Import Prim Incentive.
From WW Require Import Params.
From WW.Proofs Require Import IncentiveLedger IncentiveFlows IncentiveInv IncentiveWeight IncentiveWeights IncentiveC12 IncentiveC13.

Fixpoint epochs (n : nat) : list op := match n with O => [] | S k => NewEpoch :: Snapshot :: epochs k end.

Definition h_late : list op :=
  [fl13 3 1 13000000 (Some 131); op_pos 1 1000 86400] ++ epochs 103 ++ [op_pos 2 1000 86400] ++ epochs 3.

Theorem first_claim_beyond_cap_refuted :
  let st := run_history v_fixed c13 (init_state 1 b0) h_late in
  (* the late joiner has weight only in the last 2 epochs, and never claimed *)
  aget 2 (s_last st) = None /\ eff (s_awh st 2) (s_epoch st) = 1000 /\ eff (s_awh st 2) (s_epoch st - 3) = 0 /\
  get_rewards v_fixed st 2 = Ok [(1, 150000)] /\
  exists st', step v_fixed c13 st (Claim 2) = Ok st' /\ payouts (s_flows st) (s_flows st') = [] /\
              aget 2 (s_last st') = Some (s_epoch st).
Proof. vm_compute. repeat split. eexists. repeat split. Qed.
