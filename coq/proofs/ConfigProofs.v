(* ConfigProofs.v — C18: the configuration invariant and its preservation by every write path. *)
From WW Require Import Prim CPSwap Params Config.
From Coq Require Import Lia.

(* ---- the property's bounds (its literals, not the code's constants) --------------------------- *)
Definition fees_lt1 (f : fees) : Prop :=
  f_protocol f < DEC /\ f_swap f < DEC /\ f_burn f < DEC /\ f_protocol f + f_swap f + f_burn f < DEC.
Definition amp_ok (a : Z) : Prop := 1 <= a <= 1000000.
Definition pair_ok (p : pair_cfg) : Prop := fees_lt1 (p_fees p).
Definition trio_ok (t : trio_cfg) : Prop := fees_lt1 (t_fees t) /\ amp_ok (t_ia t) /\ amp_ok (t_fa t).
Definition vault_ok (v : vault_cfg) : Prop :=
  fees_lt1 (v_fees v) /\ (v_factory_asset v = true -> f_burn (v_fees v) = 0).
Definition dist_ok (d : Z * Z) : Prop := 1 <= fst d <= 30 /\ 86400000000000 <= snd d.
Definition lair_ok (l : Z * list bool) : Prop :=
  fst l <= DEC /\ (length (snd l) <= 2)%nat /\ forallb negb (snd l) = true.
Definition coll_ok (r : Z) : Prop := r < DEC.

Definition cfg_ok (s : state) : Prop :=
  Forall pair_ok (pairs s) /\ Forall trio_ok (trios s) /\ Forall vault_ok (vaults s) /\
  Forall dist_ok (dists s) /\ Forall lair_ok (lairs s) /\ Forall coll_ok (colls s).

(* the inductive strengthening: no vault over a token-factory asset exists at all *)
Definition vault_inv (v : vault_cfg) : Prop := fees_lt1 (v_fees v) /\ v_factory_asset v = false.
Definition cfg_inv (s : state) : Prop :=
  Forall pair_ok (pairs s) /\ Forall trio_ok (trios s) /\ Forall vault_inv (vaults s) /\
  Forall dist_ok (dists s) /\ Forall lair_ok (lairs s) /\ Forall coll_ok (colls s).

(* what the generated constants must satisfy for the code's validators to imply the property's bounds *)
Definition bounds_ok (B : bounds) : Prop :=
  1 <= b_min_amp B /\ b_max_amp B <= 1000000 /\ b_max_grace B <= 30 /\
  86400000000000 <= b_day B /\ b_limit B <= 2.

(* ---- instantiation at the generated constants -------------------------------------------------- *)
Lemma params_min_amp : 1 <= Params.TRIO_MIN_AMP. Proof. vm_compute. discriminate. Qed.
Lemma params_max_amp : Params.TRIO_MAX_AMP <= 1000000. Proof. vm_compute. discriminate. Qed.
Lemma params_max_grace : Params.MAX_GRACE_PERIOD <= 30. Proof. vm_compute. discriminate. Qed.
Lemma params_day : 86400000000000 <= Params.DAY_IN_NANOSECONDS. Proof. vm_compute. discriminate. Qed.
Lemma params_bonding_limit : Params.BONDING_ASSETS_LIMIT <= 2. Proof. vm_compute. discriminate. Qed.
Lemma code_bounds_ok : bounds_ok code_bounds.
Proof.
  unfold bounds_ok, code_bounds; cbn [b_min_amp b_max_amp b_max_grace b_day b_limit].
  repeat split; [apply params_min_amp | apply params_max_amp | apply params_max_grace | apply params_day | apply params_bonding_limit].
Qed.

(* ---- small tools --------------------------------------------------------------------------------- *)
Lemma ensure_ok b c u : ensure b c = Ok u -> b = true.
Proof. unfold ensure; destruct b; [reflexivity | discriminate]. Qed.
Lemma must_ok b u : must b = Ok u -> b = true.
Proof. unfold must; destruct b; [reflexivity | discriminate]. Qed.

(* peel one `do x <- m; k` whose result is Ok *)
Ltac peel H :=
  match type of H with
  | bind (ensure ?b ?c) _ = Ok _ =>
      let E := fresh "E" in destruct (ensure b c) as [[]| |] eqn:E; cbn [bind] in H; [apply ensure_ok in E | discriminate H | discriminate H]
  | bind (must ?b) _ = Ok _ =>
      let E := fresh "E" in destruct (must b) as [[]| |] eqn:E; cbn [bind] in H; [apply must_ok in E | discriminate H | discriminate H]
  | bind ?m _ = Ok _ =>
      let E := fresh "E" in let x := fresh "x" in destruct m as [x| |] eqn:E; cbn [bind] in H; [ | discriminate H | discriminate H]
  end.

Lemma poolfee_valid_lt1 f : poolfee_valid f = true -> fees_lt1 f.
Proof.
  unfold poolfee_valid, fee_valid, fees_lt1. intro H.
  repeat (apply andb_true_iff in H; destruct H as [H ?]).
  repeat match goal with H : (_ <? _) = true |- _ => apply Z.ltb_lt in H end. lia.
Qed.

Lemma opt_fees_ok valid o old f :
  (forall g, valid g = true -> fees_lt1 g) -> fees_lt1 old -> opt_fees valid o old = Ok f -> fees_lt1 f.
Proof.
  intros Hv Hold H. unfold opt_fees in H. destruct o as [g|].
  - destruct (valid g) eqn:E; [|discriminate]. inversion H; subst. auto.
  - inversion H; subst; auto.
Qed.

Lemma upd_nth_Forall {A} (P : A -> Prop) (f : A -> outcome A) :
  (forall a a', P a -> f a = Ok a' -> P a') ->
  forall i l l', Forall P l -> upd_nth i f l = Ok l' -> Forall P l'.
Proof.
  intros Hf i. induction i as [|i IH]; intros [|a r] l' HF H; cbn in H; try discriminate.
  - inversion HF; subst. peel H. inversion H; subst. constructor; eauto.
  - inversion HF; subst. peel H. inversion H; subst. constructor; eauto.
Qed.
Lemma at_idx_Forall {A} (P : A -> Prop) (f : A -> outcome A) :
  (forall a a', P a -> f a = Ok a' -> P a') ->
  forall i l l', Forall P l -> at_idx i f l = Ok l' -> Forall P l'.
Proof.
  intros Hf i l l' HF H. unfold at_idx in H. destruct (i <? 0); [discriminate|]. eapply upd_nth_Forall; eauto.
Qed.
Lemma Forall_snoc {A} (P : A -> Prop) l a : Forall P l -> P a -> Forall P (l ++ [a]).
Proof. intros. apply Forall_app; split; auto. Qed.

(* ---- amplification ------------------------------------------------------------------------------- *)
Lemma compute_amp_between lo hi ia fa cur ib fb c :
  lo <= ia <= hi -> lo <= fa <= hi -> compute_amp ia fa cur ib fb = Ok c -> lo <= c <= hi.
Proof.
  intros Hi Hf H. unfold compute_amp in H.
  destruct (cur <? fb) eqn:Ecur.
  - apply Z.ltb_lt in Ecur.
    peel H. peel H. peel H.
    apply Z.leb_le in E, E0. apply negb_true_iff, Z.eqb_neq in E1.
    assert (Hr : 0 < fb - ib) by lia.
    assert (Hd : 0 <= cur - ib <= fb - ib) by lia.
    destruct (fa >=? ia) eqn:Edir.
    + apply Z.geb_le in Edir. peel H. inversion H; subst c.
      assert (0 <= (fa - ia) * (cur - ib) / (fb - ib)) by (apply Z.div_pos; nia).
      assert ((fa - ia) * (cur - ib) / (fb - ib) <= fa - ia) by (apply Z.div_le_upper_bound; nia).
      lia.
    + assert (fa < ia) by (destruct (Z.geb_spec fa ia); [discriminate | lia]).
      peel H. inversion H; subst c.
      assert (0 <= (ia - fa) * (cur - ib) / (fb - ib)) by (apply Z.div_pos; nia).
      assert ((ia - fa) * (cur - ib) / (fb - ib) <= ia - fa) by (apply Z.div_le_upper_bound; nia).
      lia.
  - inversion H; subst; lia.
Qed.

(* the range half of the ramp acceptance test: independent of the factor test *)
Lemma ramp_accept_range B h t r t' :
  bounds_ok B -> trio_ok t -> trio_ramp B h t r = Ok t' -> trio_ok t'.
Proof.
  intros (Hmin & Hmax & _) (Hf & Hia & Hfa) H. destruct r as [a fblk]. unfold trio_ramp in H.
  peel H. peel H. peel H. peel H. peel H. peel H. inversion H; subst t'. clear H.
  apply Z.leb_le in E0, E1.
  unfold trio_ok, amp_ok in *; cbn [t_fees t_ia t_fa].
  split; [assumption|]. split.
  - eapply (compute_amp_between 1 1000000 (t_ia t) (t_fa t)); [exact Hia | exact Hfa | exact E].
  - lia.
Qed.

(* ---- per-contract preservation --------------------------------------------------------------------- *)
Lemma pair_inst_ok o f p : pair_inst o f = Ok p -> pair_ok p.
Proof. unfold pair_inst; intro H. peel H. inversion H; subst. apply poolfee_valid_lt1; assumption. Qed.
Lemma pair_upd_ok who o p p' : pair_ok p -> pair_upd who o p = Ok p' -> pair_ok p'.
Proof.
  unfold pair_upd, pair_ok; intros Hp H. peel H. peel H. inversion H; subst; cbn.
  eapply opt_fees_ok; eauto using poolfee_valid_lt1.
Qed.

Lemma trio_inst_ok B h o f amp t : bounds_ok B -> trio_inst B h o f amp = Ok t -> trio_ok t.
Proof.
  intros (Hmin & Hmax & _) H. unfold trio_inst in H. peel H. peel H. peel H. inversion H; subst.
  apply Z.leb_le in E0, E1. unfold trio_ok, amp_ok; cbn. split; [apply poolfee_valid_lt1; assumption | lia].
Qed.
Lemma trio_upd_ok B h who o r t t' : bounds_ok B -> trio_ok t -> trio_upd B h who o r t = Ok t' -> trio_ok t'.
Proof.
  intros HB (Hf & Hia & Hfa) H. unfold trio_upd in H. peel H. peel H.
  assert (Hf' : fees_lt1 x) by (eapply opt_fees_ok; eauto using poolfee_valid_lt1).
  destruct r as [r|].
  - eapply ramp_accept_range; eauto. unfold trio_ok; cbn; auto.
  - inversion H; subst. unfold trio_ok; cbn; auto.
Qed.

Lemma vault_inst_inv o f fa tf v : vault_inst o f fa tf = Ok v -> vault_inv v.
Proof.
  unfold vault_inst; intro H. peel H. peel H. peel H. peel H. inversion H; subst.
  unfold vault_inv; cbn. split; [apply poolfee_valid_lt1; assumption|].
  apply negb_true_iff in E2. assumption.
Qed.
Lemma vault_upd_inv who o v v' : vault_inv v -> vault_upd who o v = Ok v' -> vault_inv v'.
Proof.
  unfold vault_upd, vault_inv; intros [Hf Hfa] H. peel H. peel H. inversion H; subst; cbn. split; [|assumption].
  eapply opt_fees_ok; eauto. unfold vaultfee_valid. apply poolfee_valid_lt1.
Qed.

Lemma dist_inst_ok B g d c : bounds_ok B -> dist_inst B g d = Ok c -> dist_ok c.
Proof.
  intros (_ & _ & Hg & Hd & _) H. unfold dist_inst in H. peel H. peel H. inversion H; subst.
  unfold grace_valid in E. apply andb_true_iff in E as [E1 E2]. apply Z.leb_le in E1, E2, E0.
  unfold dist_ok; cbn. lia.
Qed.
Lemma dist_upd_ok B who g d c c' : bounds_ok B -> dist_ok c -> dist_upd B who g d c = Ok c' -> dist_ok c' /\ fst c <= fst c'.
Proof.
  intros (_ & _ & Hg & Hd & _) [Hc1 Hc2] H. unfold dist_upd in H. peel H. peel H. peel H. inversion H; subst c'. clear H.
  unfold dist_ok; cbn [fst snd].
  assert (86400000000000 <= x).
  { destruct d as [d|]; [peel E0; inversion E0; subst; apply Z.leb_le in E2; lia | inversion E0; subst; assumption]. }
  assert (1 <= x0 <= 30 /\ fst c <= x0).
  { destruct g as [g|].
    - peel E1. peel E1. inversion E1; subst. unfold grace_valid in E2. apply andb_true_iff in E2 as [G1 G2].
      apply Z.leb_le in G1, G2, E3. lia.
    - inversion E1; subst. lia. }
  lia.
Qed.

Lemma lair_inst_ok B g a c : bounds_ok B -> lair_inst B g a = Ok c -> lair_ok c.
Proof.
  intros (_ & _ & _ & _ & Hl) H. unfold lair_inst in H. peel H. peel H. peel H. peel H. inversion H; subst.
  apply Z.leb_le in E, E0. unfold lair_ok; cbn. repeat split; [lia | lia | assumption].
Qed.
Lemma lair_upd_ok who g c c' : lair_ok c -> lair_upd who g c = Ok c' -> lair_ok c'.
Proof.
  intros (H1 & H2 & H3) H. unfold lair_upd in H. peel H. destruct g as [g|].
  - peel H. inversion H; subst. apply Z.leb_le in E0. unfold lair_ok; cbn. auto.
  - inversion H; subst. unfold lair_ok; auto.
Qed.
Lemma coll_upd_ok who r c c' : coll_ok c -> coll_upd who r c = Ok c' -> coll_ok c'.
Proof.
  unfold coll_upd, coll_ok; intros Hc H. peel H. destruct r as [r|].
  - peel H. inversion H; subst. apply Z.ltb_lt in E0. assumption.
  - inversion H; subst; assumption.
Qed.

(* ---- the invariant ---------------------------------------------------------------------------------- *)
Lemma cfg_inv_init h : cfg_inv (init_state h).
Proof. unfold cfg_inv, init_state; cbn. repeat split; constructor. Qed.

Lemma cfg_inv_ok s : cfg_inv s -> cfg_ok s.
Proof.
  intros (Hp & Ht & Hv & Hd & Hl & Hc). unfold cfg_ok. repeat split; auto.
  eapply Forall_impl; [|exact Hv]. intros v [Hf Hfa]. split; [assumption|]. rewrite Hfa; discriminate.
Qed.

Lemma step_preserves B s o s' : bounds_ok B -> cfg_inv s -> step B s o = Ok s' -> cfg_inv s'.
Proof.
  intros HB (Hp & Ht & Hv & Hd & Hl & Hc) H. destruct o; cbn [step] in H.
  - (* Advance *) destruct (dh <? 0); [discriminate|]. inversion H; subst. unfold cfg_inv; cbn. auto 10.
  - (* PairInst *) peel H. inversion H; subst. unfold cfg_inv; cbn. repeat split; auto. apply Forall_snoc; eauto using pair_inst_ok.
  - (* PairCreate *) peel H. peel H. peel H. peel H. inversion H; subst. unfold cfg_inv; cbn. repeat split; auto.
    apply Forall_snoc; eauto using pair_inst_ok.
  - (* PairUpd *) peel H. peel H. inversion H; subst. unfold cfg_inv; cbn. repeat split; auto.
    eapply at_idx_Forall; [| exact Hp | exact E0]. intros; eapply pair_upd_ok; eauto.
  - (* TrioInst *) peel H. inversion H; subst. unfold cfg_inv; cbn. repeat split; auto. apply Forall_snoc; eauto using trio_inst_ok.
  - (* TrioCreate *) peel H. peel H. peel H. peel H. inversion H; subst. unfold cfg_inv; cbn. repeat split; auto.
    apply Forall_snoc; eauto using trio_inst_ok.
  - (* TrioUpd *) peel H. peel H. inversion H; subst. unfold cfg_inv; cbn. repeat split; auto.
    eapply at_idx_Forall; [| exact Ht | exact E0]. intros; eapply trio_upd_ok; eauto.
  - (* VaultInst *) peel H. inversion H; subst. unfold cfg_inv; cbn. repeat split; auto. apply Forall_snoc; eauto using vault_inst_inv.
  - (* VaultCreate *) peel H. peel H. peel H. peel H. inversion H; subst. unfold cfg_inv; cbn. repeat split; auto.
    apply Forall_snoc; eauto using vault_inst_inv.
  - (* VaultUpd *) peel H. peel H. inversion H; subst. unfold cfg_inv; cbn. repeat split; auto.
    eapply at_idx_Forall; [| exact Hv | exact E0]. intros; eapply vault_upd_inv; eauto.
  - (* DistInst *) peel H. inversion H; subst. unfold cfg_inv; cbn. repeat split; auto. apply Forall_snoc; eauto using dist_inst_ok.
  - (* DistUpd *) peel H. inversion H; subst. unfold cfg_inv; cbn. repeat split; auto.
    eapply at_idx_Forall; [| exact Hd | exact E]. intros a a' Ha Hu. eapply dist_upd_ok in Hu; eauto. tauto.
  - (* LairInst *) peel H. inversion H; subst. unfold cfg_inv; cbn. repeat split; auto. apply Forall_snoc; eauto using lair_inst_ok.
  - (* LairUpd *) peel H. inversion H; subst. unfold cfg_inv; cbn. repeat split; auto.
    eapply at_idx_Forall; [| exact Hl | exact E]. intros; eapply lair_upd_ok; eauto.
  - (* CollInst *) inversion H; subst. unfold cfg_inv; cbn. repeat split; auto. apply Forall_snoc; auto. unfold coll_ok. reflexivity.
  - (* CollUpd *) peel H. inversion H; subst. unfold cfg_inv; cbn. repeat split; auto.
    eapply at_idx_Forall; [| exact Hc | exact E]. intros; eapply coll_upd_ok; eauto.
Qed.

Lemma next_preserves B s o : bounds_ok B -> cfg_inv s -> cfg_inv (next B s o).
Proof.
  intros HB Hs. unfold next. destruct (step B s o) eqn:E; auto. eapply step_preserves; eauto.
Qed.

Lemma run_preserves B ops : bounds_ok B -> forall s, cfg_inv s -> cfg_inv (run B s ops).
Proof.
  intro HB. induction ops as [|o r IH]; intros s Hs; cbn; auto. apply IH. apply next_preserves; assumption.
Qed.

Theorem cfg_ok_all_histories B : bounds_ok B -> forall h ops, cfg_ok (run B (init_state h) ops).
Proof. intros HB h ops. apply cfg_inv_ok. apply run_preserves; auto using cfg_inv_init. Qed.

Theorem cfg_ok_code : forall h ops, cfg_ok (run code_bounds (init_state h) ops).
Proof. apply cfg_ok_all_histories, code_bounds_ok. Qed.

Theorem no_factory_asset_vault : forall h ops,
  Forall (fun v => v_factory_asset v = false) (vaults (run code_bounds (init_state h) ops)).
Proof.
  intros h ops. pose proof (run_preserves code_bounds ops code_bounds_ok _ (cfg_inv_init h)) as (_ & _ & Hv & _).
  eapply Forall_impl; [|exact Hv]. intros v [_ H]; exact H.
Qed.

(* a rejected / aborted operation changes nothing *)
Theorem rejected_update_frame B s o : is_ok (step B s o) = false -> next B s o = s.
Proof. unfold next. destruct (step B s o); cbn; [discriminate | reflexivity | reflexivity]. Qed.

(* the amplification the pool actually uses (interpolated between the stored ones) is in range too *)
Theorem effective_amp_in_range s t h c :
  cfg_ok s -> In t (trios s) -> compute_amp (t_ia t) (t_fa t) h (t_ib t) (t_fb t) = Ok c -> 1 <= c <= 1000000.
Proof.
  intros (_ & Ht & _) Hin H. rewrite Forall_forall in Ht. destruct (Ht _ Hin) as (_ & Hia & Hfa).
  eapply (compute_amp_between 1 1000000 (t_ia t) (t_fa t)); [exact Hia | exact Hfa | exact H].
Qed.

(* ---- the grace period never decreases ---------------------------------------------------------------- *)
Lemma upd_nth_nth {A} (f : A -> outcome A) (R : A -> A -> Prop) :
  (forall a, R a a) -> (forall a a', f a = Ok a' -> R a a') ->
  forall i l l', upd_nth i f l = Ok l' ->
  forall j a, nth_error l j = Some a -> exists a', nth_error l' j = Some a' /\ R a a'.
Proof.
  intros Hrefl Hf i. induction i as [|i IH]; intros [|b r] l' H j a Hj; cbn in H; try discriminate.
  - peel H. inversion H; subst. destruct j; cbn in *.
    + inversion Hj; subst. eauto.
    + eauto.
  - peel H. inversion H; subst. destruct j; cbn in *.
    + inversion Hj; subst. eauto.
    + eapply IH; eauto.
Qed.

Definition grace_le (a a' : Z * Z) : Prop := fst a <= fst a'.

Lemma step_grace B s o s' : step B s o = Ok s' ->
  forall j a, nth_error (dists s) j = Some a -> exists a', nth_error (dists s') j = Some a' /\ grace_le a a'.
Proof.
  intros H j a Hj.
  assert (Hsame : dists s' = dists s -> exists a', nth_error (dists s') j = Some a' /\ grace_le a a').
  { intro Heq. rewrite Heq. exists a. split; [assumption | unfold grace_le; lia]. }
  destruct o; cbn [step] in H;
    try (repeat peel H; inversion H; subst; apply Hsame; reflexivity).
  - destruct (dh <? 0); [discriminate|]. inversion H; subst. apply Hsame; reflexivity.
  - (* DistInst *) peel H. inversion H; subst. cbn. exists a. split; [|unfold grace_le; lia].
    rewrite nth_error_app1; [assumption|]. apply nth_error_Some. congruence.
  - (* DistUpd *) peel H. inversion H; subst. cbn. unfold at_idx in E. destruct (i <? 0); [discriminate|].
    eapply (upd_nth_nth (dist_upd B who grace dur) grace_le); eauto.
    + intro; unfold grace_le; lia.
    + intros c c' Hu. unfold dist_upd in Hu. peel Hu. peel Hu. peel Hu. inversion Hu; subst. unfold grace_le; cbn.
      destruct grace as [g|].
      * peel E2. peel E2. inversion E2; subst. apply Z.leb_le in E4. assumption.
      * inversion E2; subst. lia.
Qed.

Theorem grace_never_decreases B ops : forall s j g d,
  nth_error (dists s) j = Some (g, d) ->
  exists g' d', nth_error (dists (run B s ops)) j = Some (g', d') /\ g <= g'.
Proof.
  induction ops as [|o r IH]; intros s j g d Hj.
  - exists g, d. split; [assumption | lia].
  - change (run B s (o :: r)) with (run B (next B s o) r). unfold next. destruct (step B s o) eqn:E.
    + destruct (step_grace _ _ _ _ E _ _ Hj) as ([g1 d1] & H1 & Hle). unfold grace_le in Hle; cbn in Hle.
      destruct (IH _ _ _ _ H1) as (g' & d' & H2 & Hle2). exists g', d'. split; [assumption | lia].
    + eapply IH; eassumption.
    + eapply IH; eassumption.
Qed.

(* ---- non-vacuity: a concrete history through every contract class, accepted and rejected writes -------- *)
Definition c18_example_ops : list op :=
  [ PairCreate 1 0 1 (mkFees 500000000000000000 499999999999999999 0);       (* sum = 1 - 10^-18: accepted *)
    PairUpd 1 0 (Some (mkFees 500000000000000000 500000000000000000 0));      (* sum = 1: rejected *)
    TrioCreate 1 0 1 2 (mkFees 1000000000000000 2000000000000000 0) 100000;
    TrioUpd 1 0 None (Some (1000000, 22345));                                 (* ramp to MAX_AMP: accepted *)
    TrioUpd 1 0 None (Some (1000001, 22345));                                 (* above MAX_AMP: rejected *)
    Advance 5000;
    VaultCreate 1 0 (mkFees 1 1 999999999999999997) false false;
    VaultCreate 1 8 (mkFees 1 1 0) true false;                                (* token-factory asset: rejected *)
    DistInst 1 86400000000000; DistUpd 0 0 (Some 30) None; DistUpd 0 0 (Some 29) None;
    LairInst 1000000000000000000 [false; false]; LairInst 0 [false; false; false];
    CollInst; CollUpd 0 0 (Some 999999999999999999); CollUpd 0 0 (Some 1000000000000000000) ].

Lemma c18_example_final :
  let s := run code_bounds (init_state 12345) c18_example_ops in
  map p_fees (pairs s) = [mkFees 500000000000000000 499999999999999999 0] /\
  map (fun t => (t_ia t, t_fa t, t_ib t, t_fb t)) (trios s) = [(100000, 1000000, 12345, 22345)] /\
  map v_fees (vaults s) = [mkFees 1 1 999999999999999997] /\
  dists s = [(30, 86400000000000)] /\ lairs s = [(1000000000000000000, [false; false])] /\
  colls s = [999999999999999999] /\
  compute_amp 100000 1000000 (height s) 12345 22345 = Ok 550000.
Proof. vm_compute. repeat split; reflexivity. Qed.
