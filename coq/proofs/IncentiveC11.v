(* IncentiveC11.v — custody of staked LP: exact accounting of the LP asset, withdraw / position / helper statements. *)
From WW Require Import Prim Params Incentive.
From WW.Proofs Require Import IncentiveLedger IncentiveFlows IncentiveInv IncentiveC12.
From Coq Require Import Lia.

Local Arguments pos_sum : simpl never.
Local Arguments flows_out : simpl never.

(* ---- additional facts about the messages of the flow operations ------------------------------------------------------- *)
Lemma open_flow_msgs_nonpos c st sender fs al so eo asset amount label st1 ms :
  open_flow v_fixed c st sender fs al so eo asset amount label = Ok (st1, ms) ->
  sender <> SELF -> cfg_wf c -> 0 <= c_fee c -> NoDup (map fst fs) ->
  forall s, s <> asset -> msdelta ms SELF s <= 0.
Proof.
  unfold open_flow. intros H Hs Hc Hfee Hnd s Hne.
  apply bind_ok in H as [u0 [_ H]].
  apply bind_ok in H as [[amount1 ms1] [Efee H]].
  apply bind_ok in H as [u1 [_ H]].
  apply bind_ok in H as [[amount2 ms2] [Easset H]].
  apply bind_ok in H as [dflt [_ H]]. apply bind_ok in H as [u2 [_ H]]. apply bind_ok in H as [u3 [_ H]].
  apply bind_ok in H as [lim [_ H]]. apply bind_ok in H as [u4 [_ H]]. apply bind_ok in H as [id [_ H]].
  inversion H; subst; clear H. rewrite msdelta_app.
  pose proof (open_flow_fee_shape _ _ _ _ _ _ _ _ Efee Hnd) as Hfs. cbn zeta in Hfs.
  pose proof (open_flow_asset_shape _ _ _ _ _ _ _ _ Easset Hnd) as Has. cbn zeta in Has.
  unfold cfg_wf in Hc.
  assert (E2 : msdelta ms2 SELF s = 0).
  { destruct Has as [[_ [_ [-> _]]]|[_ ->]]; [reflexivity|]. cbn [msdelta]. rewrite mdelta_pull_in by assumption.
    unfold amt_if. destruct (s =? asset) eqn:E; [apply Z.eqb_eq in E; congruence|]. lia. }
  rewrite E2.
  destruct Hfs as [[_ [_ [_ [_ ->]]]]|[[_ [_ [_ [Hge [->|[_ ->]]]]]]|[_ [_ ->]]]]; cbn [msdelta];
    rewrite ?mdelta_send_self, ?mdelta_pull_other by assumption; unfold amt_if; destruct (s =? c_fee_asset c); lia.
Qed.

Lemma expand_payment_other sender fs al asset amount ms :
  expand_payment sender fs al asset amount = Ok ms -> sender <> SELF ->
  forall s, s <> asset -> msdelta ms SELF s = 0.
Proof.
  unfold expand_payment. intros H Hs s Hne. destruct (is_native asset).
  - apply bind_ok in H as [paid [_ H]]. destruct (paid =? amount); [|discriminate]. inversion H; reflexivity.
  - destruct (_ <? amount); [discriminate|]. inversion H; subst. cbn [msdelta]. rewrite mdelta_pull_in by assumption.
    unfold amt_if. destruct (s =? asset) eqn:E; [apply Z.eqb_eq in E; congruence|]. lia.
Qed.

(* ---- exact custody of the LP asset ------------------------------------------------------------------------------------ *)
(* operations that hand the contract no LP tokens it does not account for *)
Definition lp_clean (c : cfg) (o : op) : Prop :=
  match o with
  | Donate _ a _ => a <> c_lp c
  | Gift _ to a _ => to <> SELF \/ a <> c_lp c
  | OpenFlow _ fs _ _ _ asset _ _ => asset = c_lp c \/ coin_sum (c_lp c) fs = 0
  | ExpandFlow _ fs _ _ _ asset _ => asset = c_lp c \/ coin_sum (c_lp c) fs = 0
  | _ => True
  end.

Definition surplus (c : cfg) (st : state) : Z := s_bal st SELF (c_lp c) - oblig c st (c_lp c).

Lemma position_call_exact c st sender fs al amount d recv st2 (open : bool) :
  sender <> SELF -> funds_wf fs ->
  call st sender fs al (if open then open_position c st sender fs al amount d recv else expand_position c st sender fs al amount d recv) = Ok st2 ->
  surplus c st2 = surplus c st /\ s_flows st2 = s_flows st.
Proof.
  intros Hs Hfw Hstep. apply call_ok in Hstep as [st1 [ms [Eh [Hbal Est]]]]. destruct open.
  - unfold open_position in Eh. apply bind_ok in Eh as [u0 [_ Eh]]. apply bind_ok in Eh as [ms0 [Ev Eh]].
    apply bind_ok in Eh as [u1 [_ Eh]]. apply bind_ok in Eh as [w [_ Eh]]. apply bind_ok in Eh as [[[gw aw] awh] [_ Eh]].
    inversion Eh; subst st1 ms; clear Eh.
    destruct (validate_funds_spec _ _ _ _ _ _ Ev Hs Hfw) as [M1 _].
    rewrite Est. unfold surplus, oblig, staked. cbn [s_flows s_open s_closed s_bal with_bal with_positions]. split; [|reflexivity].
    rewrite Hbal, fdelta_self, pos_sum_app, Z.eqb_refl by assumption.
    replace (pos_sum [(match recv with Some r => r | None => sender end, (amount, d))]) with amount by (unfold pos_sum; cbn; lia). lia.
  - unfold expand_position in Eh. apply bind_ok in Eh as [ms0 [Ev Eh]].
    destruct (pos_add _ d amount (s_open st)) as [op'|] eqn:Ep; [|discriminate].
    apply bind_ok in Eh as [u1 [_ Eh]]. apply bind_ok in Eh as [w [_ Eh]]. apply bind_ok in Eh as [[[gw aw] awh] [_ Eh]].
    inversion Eh; subst st1 ms; clear Eh.
    destruct (validate_funds_spec _ _ _ _ _ _ Ev Hs Hfw) as [M1 _].
    rewrite Est. unfold surplus, oblig, staked. cbn [s_flows s_open s_closed s_bal with_bal with_positions]. split; [|reflexivity].
    rewrite Hbal, fdelta_self, (pos_add_sum _ _ _ _ _ Ep), Z.eqb_refl by assumption. lia.
Qed.

Theorem step_surplus c st o st2 :
  cfg_wf c -> 0 <= c_fee c -> op_wf o -> lp_clean c o -> Inv c st -> step v_fixed c st o = Ok st2 ->
  surplus c st2 = surplus c st.
Proof.
  intros Hc Hfee Hwf Hclean HI Hstep. pose proof HI as [Icl Iid Ictr Ihist Icre Icov].
  destruct o; cbn [step op_wf lp_clean] in *.
  - (* NewEpoch *)
    apply bind_ok in Hstep as [e [Ee H]]. inversion H; subst; clear H. reflexivity.
  - (* Donate *)
    destruct Hwf as [Hs Hamt]. apply bind_ok in Hstep as [b [Eb H]]. inversion H; subst; clear H.
    unfold surplus, oblig, staked. cbn [s_flows s_open s_closed s_bal with_bal]. rewrite (transfer_delta _ _ _ _ _ _ Eb). unfold tdelta.
    destruct (c_lp c =? asset) eqn:E; [apply Z.eqb_eq in E; congruence|]. lia.
  - (* Gift *)
    destruct Hwf as [Hs Hamt]. apply bind_ok in Hstep as [b [Eb H]]. inversion H; subst; clear H.
    unfold surplus, oblig, staked. cbn [s_flows s_open s_closed s_bal with_bal]. rewrite (transfer_delta _ _ _ _ _ _ Eb). unfold tdelta.
    destruct (SELF =? sender) eqn:E1; [apply Z.eqb_eq in E1; congruence|].
    destruct (c_lp c =? asset) eqn:E; [|lia]. apply Z.eqb_eq in E.
    destruct (SELF =? to) eqn:E2; [apply Z.eqb_eq in E2; destruct Hclean; congruence|]. lia.
  - (* Snapshot *)
    apply call_ok in Hstep as [st1 [ms [Eh [Hbal Est]]]]. unfold take_snapshot in Eh.
    destruct (aget (s_epoch st) (s_snap st)); [discriminate|]. inversion Eh; subst st1 ms; clear Eh.
    rewrite Est. unfold surplus, oblig, staked. cbn [s_flows s_open s_closed s_bal with_bal]. rewrite Hbal. cbn. lia.
  - (* OpenFlow *)
    destruct Hwf as [Hs [Hfw Hamt]]. apply call_ok in Hstep as [st1 [ms [Eh [Hbal Est]]]].
    destruct (open_flow_spec _ _ _ _ _ _ _ _ _ _ _ _ Eh Hs Hc Hfw) as [f [E1 [Fid [Fcl [Fh [Fcr [Fas [_ [_ [_ [Fnn [M1 [M2 _]]]]]]]]]]]]].
    pose proof (open_flow_msgs_nonpos _ _ _ _ _ _ _ _ _ _ _ _ Eh Hs Hc Hfee (proj1 (proj2 Hfw))) as M4.
    assert (Habs : ~ In (f_id f) (map f_id (s_flows st))).
    { intros Hin. apply in_map_iff in Hin as [g [Eg Hg]]. pose proof (proj1 (Forall_forall _ _) Ictr g Hg) as Hle. cbn in Hle. lia. }
    rewrite Est, E1. unfold surplus, oblig, staked. cbn [s_flows s_open s_closed s_bal with_bal with_flows].
    unfold flows_save. rewrite flows_remove_absent by exact Habs. rewrite flows_out_insert, Hbal, fdelta_self by assumption.
    unfold fout, flow_out. rewrite Fas, flow_funded_hist, Fh, Fcl. cbn [hist_last].
    destruct (asset =? c_lp c) eqn:E.
    + apply Z.eqb_eq in E. rewrite E in *. rewrite ?Z.eqb_refl. lia.
    + apply Z.eqb_neq in E. destruct Hclean as [Hx|Hx]; [congruence|].
      specialize (M2 (c_lp c) (not_eq_sym E)). specialize (M4 (c_lp c) (not_eq_sym E)). lia.
  - (* ExpandFlow *)
    destruct Hwf as [Hs [Hfw Hamt]]. apply call_ok in Hstep as [st1 [ms [Eh [Hbal Est]]]].
    pose proof Eh as Eh0.
    destruct (expand_flow_spec _ _ _ _ _ _ _ _ _ _ _ Eh HI Hs Hfw) as [f [f2 [_ [Hin [Fas [Fid [_ [Fcr [Fas2 [Fout [Fcl [Fh [E1 [M1 [M2 _]]]]]]]]]]]]]]].
    (* the messages are those of expand_payment *)
    assert (M5 : forall s, s <> asset -> msdelta ms SELF s = 0).
    { unfold expand_flow in Eh0. destruct (find_flow x (s_flows st)); [|discriminate].
      apply bind_ok in Eh0 as [u0 [_ Eh0]]. apply bind_ok in Eh0 as [u1 [_ Eh0]]. apply bind_ok in Eh0 as [ms0 [Epay Eh0]].
      apply bind_ok in Eh0 as [eu [_ Eh0]]. apply bind_ok in Eh0 as [u2 [_ Eh0]]. apply bind_ok in Eh0 as [next [_ Eh0]].
      apply bind_ok in Eh0 as [f3 [_ Eh0]]. apply bind_ok in Eh0 as [u3 [_ Eh0]]. apply bind_ok in Eh0 as [u4 [_ Eh0]].
      inversion Eh0; subst. cbn. exact (expand_payment_other _ _ _ _ _ _ Epay Hs). }
    rewrite Est, E1. unfold surplus, oblig, staked. cbn [s_flows s_open s_closed s_bal with_bal with_flows].
    rewrite flows_out_insert. destruct (flows_remove_out (c_lp c) f (s_flows st) Hin Iid) as [Ho _]. rewrite Ho.
    rewrite Hbal, fdelta_self by assumption. unfold fout, flow_out. rewrite Fas2, Fas.
    destruct (asset =? c_lp c) eqn:E.
    + apply Z.eqb_eq in E. rewrite E in *. rewrite ?Z.eqb_refl. lia.
    + apply Z.eqb_neq in E. destruct Hclean as [Hx|Hx]; [congruence|]. rewrite (M5 (c_lp c) (not_eq_sym E)). lia.
  - (* CloseFlow *)
    apply call_ok in Hstep as [st1 [ms [Eh [Hbal Est]]]].
    destruct (close_flow_spec _ _ _ _ _ _ Eh) as [f [_ [Hin [_ [E1 Ems]]]]].
    pose proof (proj1 (Forall_forall _ _) Icl f Hin) as Hcl. cbn in Hcl.
    pose proof (proj1 (Forall_forall _ _) Icre f Hin) as Hcr. cbn in Hcr.
    rewrite Est, E1. unfold surplus, oblig, staked. cbn [s_flows s_open s_closed s_bal with_bal with_flows].
    destruct (flows_remove_out (c_lp c) f (s_flows st) Hin Iid) as [Ho _]. rewrite Ho.
    rewrite Hbal, Ems, msdelta_self_send by assumption. cbn [fdelta]. unfold fout, flow_out, amt_if. rewrite ssub_le by lia.
    rewrite (Z.eqb_sym (c_lp c) (f_asset f)). destruct (f_asset f =? c_lp c); lia.
  - (* Claim *)
    apply call_ok in Hstep as [st1 [ms [Eh [Hbal Est]]]].
    destruct (claim_spec _ _ _ _ _ Eh) as [fl' [HR [E1 [E2 [E3 [E4 [E5 [E6 [_ [_ [_ Hms]]]]]]]]]]].
    rewrite Est. unfold surplus, oblig, staked. cbn [s_flows s_open s_closed s_bal with_bal]. rewrite E1, E5, E6, Hbal, Hms.
    cbn [fdelta]. unfold ind. rewrite Z.eqb_refl. destruct (SELF =? sender) eqn:E; [apply Z.eqb_eq in E; congruence|]. lia.
  - (* OpenPosition *)
    destruct Hwf as [Hs [Hfw Hamt]]. apply (position_call_exact c st sender fs al amount d receiver st2 true Hs Hfw Hstep).
  - (* ExpandPosition *)
    destruct Hwf as [Hs [Hfw Hamt]]. apply (position_call_exact c st sender fs al amount d receiver st2 false Hs Hfw Hstep).
  - (* ClosePosition *)
    apply call_ok in Hstep as [st1 [ms [Eh [Hbal Est]]]].
    unfold close_position in Eh. apply bind_ok in Eh as [u0 [_ Eh]].
    destruct (pos_take sender d (s_open st)) as [[amount op']|] eqn:Ep; [|discriminate].
    apply bind_ok in Eh as [ts [_ Eh]]. apply bind_ok in Eh as [w [_ Eh]]. apply bind_ok in Eh as [u1 [_ Eh]].
    inversion Eh; subst st1 ms; clear Eh.
    rewrite Est. unfold surplus, oblig, staked. cbn [s_flows s_open s_closed s_bal with_bal with_positions].
    rewrite Hbal, pos_sum_app, (pos_take_sum _ _ _ _ _ Ep). cbn [fdelta msdelta].
    replace (pos_sum [(sender, (amount, ts))]) with amount by (unfold pos_sum; cbn; lia). rewrite ?Z.eqb_refl. lia.
  - (* Withdraw *)
    apply call_ok in Hstep as [st1 [ms [Eh [Hbal Est]]]].
    unfold withdraw in Eh. apply bind_ok in Eh as [u0 [_ Eh]].
    pose proof (pos_split sender (s_closed st)) as Hsp.
    destruct (pos_sum (pos_of sender (s_closed st)) =? 0) eqn:Ez; inversion Eh; subst st1 ms; clear Eh;
      rewrite Est; unfold surplus, oblig, staked; cbn [s_flows s_open s_closed s_bal with_bal with_positions fdelta]; rewrite Hbal; cbn [fdelta].
    + apply Z.eqb_eq in Ez. rewrite Z.eqb_refl. cbn [msdelta]. lia.
    + rewrite msdelta_self_send by assumption. unfold amt_if. rewrite Z.eqb_refl. lia.
  - (* HelperDeposit *)
    destruct Hwf as [Hu Hfw]. apply bind_ok in Hstep as [[[r b6] lpb] [Eh Hstep]].
    destruct (helper_deposit_self _ _ _ _ _ _ _ _ _ _ _ _ _ _ _ _ _ _ Eh Hu) as [Hself Hr].
    assert (Hfw0 : funds_wf []) by (repeat split; constructor).
    set (st1 := mkState (s_epoch st) b6 (s_flows st) (s_counter st) (s_open st) (s_closed st) (s_gw st) (s_aw st) (s_snap st) (s_awh st) (s_last st)) in *.
    assert (Hs1 : surplus c st1 = surplus c st).
    { unfold surplus, oblig, staked, st1. cbn [s_flows s_open s_closed s_bal]. rewrite Hself. reflexivity. }
    rewrite <- Hs1. rewrite <- Hr in Hstep.
    destruct (has_pos user dur (s_open st)).
    + apply (position_call_exact c st1 HELPER [] [(c_lp c, lpb)] lpb dur (Some user) st2 false HELPER_not_SELF Hfw0 Hstep).
    + apply (position_call_exact c st1 HELPER [] [(c_lp c, lpb)] lpb dur (Some user) st2 true HELPER_not_SELF Hfw0 Hstep).
Qed.

(* whole histories: with clean operations the LP balance is the initial balance plus exactly what the contract owes *)
Theorem custody_exact c h : forall st,
  well_formed c h -> 0 <= c_fee c -> Forall (lp_clean c) h -> Inv c st ->
  surplus c (run_history v_fixed c st h) = surplus c st.
Proof.
  induction h as [|o r IH]; intros st [Hc Hw] Hfee Hcl HI; [reflexivity|]. inversion Hw; subst. inversion Hcl; subst.
  change (run_history v_fixed c st (o :: r)) with (run_history v_fixed c (step_total v_fixed c st o) r).
  unfold step_total. destruct (step v_fixed c st o) as [st'| |] eqn:E.
  - rewrite (IH st'); [|split; assumption|assumption|assumption|eapply step_inv; eauto]. eapply step_surplus; eauto.
  - apply IH; [split; assumption|assumption|assumption|assumption].
  - apply IH; [split; assumption|assumption|assumption|assumption].
Qed.

Theorem custody_from_init c h e b :
  well_formed c h -> 0 <= c_fee c -> Forall (lp_clean c) h -> (forall a, 0 <= b SELF a) ->
  let st := run_history v_fixed c (init_state e b) h in
  s_bal st SELF (c_lp c) = b SELF (c_lp c) + pos_sum (s_open st) + pos_sum (s_closed st) + flows_out (c_lp c) (s_flows st).
Proof.
  intros Hw Hfee Hcl Hb st. pose proof (custody_exact c h (init_state e b) Hw Hfee Hcl (init_inv c e b Hb)) as H.
  unfold surplus, oblig, staked in H. fold st in H. cbn [init_state s_bal s_flows s_open s_closed] in H.
  rewrite Z.eqb_refl in H. change (flows_out (c_lp c) []) with 0 in H. change (pos_sum []) with 0 in H. lia.
Qed.

(* ---- withdraw returns the sender's closed positions and nobody else's ------------------------------------------------- *)
Lemma pos_of_not u a l : u <> a -> pos_of u (pos_not a l) = pos_of u l.
Proof.
  intros H. unfold pos_of, pos_not. induction l as [|p r IH]; cbn; [reflexivity|].
  destruct (fst p =? a) eqn:E1; cbn.
  - apply Z.eqb_eq in E1. destruct (fst p =? u) eqn:E2; [apply Z.eqb_eq in E2; congruence|]. exact IH.
  - destruct (fst p =? u); cbn; rewrite IH; reflexivity.
Qed.
Lemma pos_of_not_same a l : pos_of a (pos_not a l) = [].
Proof.
  unfold pos_of, pos_not. induction l as [|p r IH]; cbn; [reflexivity|].
  destruct (fst p =? a) eqn:E1; cbn; [exact IH|]. rewrite E1. exact IH.
Qed.

Theorem withdraw_own c st sender st' :
  sender <> SELF -> step v_fixed c st (Withdraw sender) = Ok st' ->
  let owed := pos_sum (pos_of sender (s_closed st)) in
  s_closed st' = pos_not sender (s_closed st) /\ s_open st' = s_open st /\
  pos_of sender (s_closed st') = [] /\ (forall u, u <> sender -> pos_of u (s_closed st') = pos_of u (s_closed st)) /\
  s_bal st' sender (c_lp c) = s_bal st sender (c_lp c) + owed /\
  s_bal st' SELF (c_lp c) = s_bal st SELF (c_lp c) - owed /\
  (forall y s, (y <> SELF /\ y <> sender) \/ s <> c_lp c -> s_bal st' y s = s_bal st y s).
Proof.
  intros Hs Hstep. cbn [step] in Hstep. apply call_ok in Hstep as [st1 [ms [Eh [Hbal Est]]]].
  unfold withdraw in Eh. apply bind_ok in Eh as [u0 [_ Eh]]. cbn zeta.
  assert (Hms : ms = [] /\ pos_sum (pos_of sender (s_closed st)) = 0 \/ ms = [MSend sender (c_lp c) (pos_sum (pos_of sender (s_closed st)))]).
  { destruct (pos_sum (pos_of sender (s_closed st)) =? 0) eqn:Ez; inversion Eh; subst; [left; split; [reflexivity|apply Z.eqb_eq; assumption]|right; reflexivity]. }
  assert (Hst1 : s_closed st1 = pos_not sender (s_closed st) /\ s_open st1 = s_open st).
  { destruct (pos_sum (pos_of sender (s_closed st)) =? 0); inversion Eh; subst; cbn; auto. }
  rewrite Est. cbn [s_closed s_open s_bal with_bal]. destruct Hst1 as [-> ->].
  split; [reflexivity|]. split; [reflexivity|]. split; [apply pos_of_not_same|]. split; [intros; apply pos_of_not; assumption|].
  cbn [fdelta] in Hbal.
  destruct Hms as [[-> Hz] | ->]; cbn [msdelta mdelta] in Hbal; unfold tdelta in Hbal.
  - repeat split; intros; rewrite Hbal; lia.
  - split; [|split].
    + rewrite Hbal, !Z.eqb_refl. destruct (sender =? SELF) eqn:E; [apply Z.eqb_eq in E; congruence|]. lia.
    + rewrite Hbal, !Z.eqb_refl. destruct (SELF =? sender) eqn:E; [apply Z.eqb_eq in E; congruence|]. lia.
    + intros y s Hy. rewrite Hbal. destruct (s =? c_lp c) eqn:E; [|lia]. apply Z.eqb_eq in E.
      destruct Hy as [[Hy1 Hy2]|Hy]; [|congruence].
      destruct (y =? sender) eqn:E8; [apply Z.eqb_eq in E8; congruence|].
      destruct (y =? SELF) eqn:E9; [apply Z.eqb_eq in E9; congruence|]. lia.
Qed.

(* ---- a position is created / expanded only with the stated LP amount received in the same transaction ------------------ *)
Theorem position_needs_funds c st sender fs al amount d recv st' (open : bool) :
  sender <> SELF -> funds_wf fs ->
  step v_fixed c st (if open then OpenPosition sender fs al amount d recv else ExpandPosition sender fs al amount d recv) = Ok st' ->
  let r := match recv with Some x => x | None => sender end in
  (if open then s_open st' = s_open st ++ [(r, (amount, d))] /\ has_pos r d (s_open st) = false
   else pos_add r d amount (s_open st) = Some (s_open st')) /\
  s_closed st' = s_closed st /\ amount <> 0 /\
  s_bal st' SELF (c_lp c) = s_bal st SELF (c_lp c) + amount /\
  s_bal st' sender (c_lp c) = s_bal st sender (c_lp c) - amount /\
  (forall y s, y <> SELF -> y <> sender -> s_bal st' y s = s_bal st y s).
Proof.
  intros Hs Hfw Hstep. cbn zeta.
  assert (Hcall : exists h, call st sender fs al h = Ok st' /\
            h = (if open then open_position c st sender fs al amount d recv else expand_position c st sender fs al amount d recv)).
  { destruct open; cbn [step] in Hstep; eexists; split; eauto. }
  destruct Hcall as [h [Hc Eh0]]. apply call_ok in Hc as [st1 [ms [Eh [Hbal Est]]]]. rewrite Eh0 in Eh. clear Eh0 h.
  assert (Hv : exists ms0, validate_funds_sent c sender fs al amount = Ok ms0 /\ ms = ms0 /\ s_closed st1 = s_closed st /\
            (if open then s_open st1 = s_open st ++ [(match recv with Some x => x | None => sender end, (amount, d))] /\
                          has_pos (match recv with Some x => x | None => sender end) d (s_open st) = false
             else pos_add (match recv with Some x => x | None => sender end) d amount (s_open st) = Some (s_open st1))).
  { destruct open.
    - unfold open_position in Eh. apply bind_ok in Eh as [u0 [_ Eh]]. apply bind_ok in Eh as [ms0 [Ev Eh]].
      apply bind_ok in Eh as [u1 [Ehp Eh]]. apply ensure_ok in Ehp. apply negb_true_iff in Ehp.
      apply bind_ok in Eh as [w [_ Eh]]. apply bind_ok in Eh as [[[gw aw] awh] [_ Eh]].
      inversion Eh; subst st1 ms; clear Eh. exists ms0. cbn. auto.
    - unfold expand_position in Eh. apply bind_ok in Eh as [ms0 [Ev Eh]].
      destruct (pos_add _ d amount (s_open st)) as [op'|] eqn:Ep; [|discriminate].
      apply bind_ok in Eh as [u1 [_ Eh]]. apply bind_ok in Eh as [w [_ Eh]]. apply bind_ok in Eh as [[[gw aw] awh] [_ Eh]].
      inversion Eh; subst st1 ms; clear Eh. exists ms0. cbn. auto. }
  destruct Hv as [ms0 [Ev [-> [Hcl Hop]]]].
  destruct (validate_funds_spec _ _ _ _ _ _ Ev Hs Hfw) as [M1 [M2 [M3 M4]]].
  rewrite Est. cbn [s_closed s_open s_bal with_bal].
  split; [exact Hop|]. split; [exact Hcl|].
  split; [unfold validate_funds_sent in Ev; destruct (amount =? 0) eqn:E; [discriminate|apply Z.eqb_neq in E; exact E]|].
  split; [rewrite Hbal, fdelta_self by assumption; lia|].
  split.
  - rewrite Hbal. specialize (M4 (c_lp c)). unfold amt_if in M4. rewrite Z.eqb_refl in M4. lia.
  - intros y s Hy1 Hy2. rewrite Hbal, fdelta_other, M3 by assumption. lia.
Qed.

Theorem close_moves c st sender d now st' :
  step v_fixed c st (ClosePosition sender d now) = Ok st' ->
  exists amount,
    pos_take sender d (s_open st) = Some (amount, s_open st') /\
    s_closed st' = s_closed st ++ [(sender, (amount, now + d))] /\
    (forall y s, s_bal st' y s = s_bal st y s).
Proof.
  intros Hstep. cbn [step] in Hstep. apply call_ok in Hstep as [st1 [ms [Eh [Hbal Est]]]].
  unfold close_position in Eh. apply bind_ok in Eh as [u0 [_ Eh]].
  destruct (pos_take sender d (s_open st)) as [[amount op']|] eqn:Ep; [|discriminate].
  apply bind_ok in Eh as [ts [Ets Eh]]. apply cadd_ok in Ets. apply bind_ok in Eh as [w [_ Eh]]. apply bind_ok in Eh as [u1 [_ Eh]].
  inversion Eh; subst st1 ms ts; clear Eh.
  exists amount. rewrite Est. cbn [s_closed s_open s_bal with_bal with_positions].
  split; [reflexivity|]. split; [reflexivity|]. intros y s. rewrite Hbal. cbn. lia.
Qed.

(* positions of other users: taking / adding a position of one address leaves every other address's list untouched *)
Lemma pos_take_others a d l m l' u : pos_take a d l = Some (m, l') -> u <> a -> pos_of u l' = pos_of u l.
Proof.
  revert m l'. unfold pos_of. induction l as [|[a' [m0 d']] r IH]; cbn; intros m l' H Hu; [discriminate|].
  destruct ((a' =? a) && (d' =? d)) eqn:E.
  - inversion H; subst. apply andb_true_iff in E as [E _]. apply Z.eqb_eq in E. subst a'.
    destruct (a =? u) eqn:E2; [apply Z.eqb_eq in E2; congruence|]. reflexivity.
  - destruct (pos_take a d r) as [[m' r']|]; [|discriminate]. inversion H; subst. cbn.
    rewrite (IH _ _ eq_refl Hu). reflexivity.
Qed.
Lemma pos_add_others a d amt l l' u : pos_add a d amt l = Some l' -> u <> a -> pos_of u l' = pos_of u l.
Proof.
  revert l'. unfold pos_of. induction l as [|[a' [m0 d']] r IH]; cbn; intros l' H Hu; [discriminate|].
  destruct ((a' =? a) && (d' =? d)) eqn:E.
  - inversion H; subst. apply andb_true_iff in E as [E _]. apply Z.eqb_eq in E. subst a'. cbn.
    destruct (a =? u) eqn:E2; [apply Z.eqb_eq in E2; congruence|]. reflexivity.
  - destruct (pos_add a d amt r) as [r'|]; [|discriminate]. inversion H; subst. cbn.
    rewrite (IH _ eq_refl Hu). reflexivity.
Qed.

(* ---- the frontend helper keeps neither LP tokens nor deposited assets -------------------------------------------------- *)
Fixpoint mcd (fs : list (Z * Z)) (from to x s : Z) : Z :=
  match fs with [] => 0 | (d, a) :: r => tdelta from to d a x s + mcd r from to x s end.
Lemma move_coins_delta fs : forall b from to b', move_coins fs b from to = Ok b' -> forall x s, b' x s = b x s + mcd fs from to x s.
Proof.
  induction fs as [|[d a] r IH]; cbn; intros b from to b' H x s; [inversion H; lia|].
  apply bind_ok in H as [b1 [E H]]. rewrite (IH _ _ _ _ H), (transfer_delta _ _ _ _ _ _ E). lia.
Qed.
Lemma mcd_in fs from x s : from <> x -> mcd fs from x x s = coin_sum s fs.
Proof.
  intros H. induction fs as [|[d a] r IH]; cbn; [reflexivity|]. rewrite IH. unfold tdelta. rewrite Z.eqb_refl.
  destruct (x =? from) eqn:E; [apply Z.eqb_eq in E; congruence|]. rewrite (Z.eqb_sym s d). destruct (d =? s); lia.
Qed.
Lemma mcd_out fs to x s : to <> x -> mcd fs x to x s = - coin_sum s fs.
Proof.
  intros H. induction fs as [|[d a] r IH]; cbn; [reflexivity|]. rewrite IH. unfold tdelta. rewrite Z.eqb_refl.
  destruct (x =? to) eqn:E; [apply Z.eqb_eq in E; congruence|]. rewrite (Z.eqb_sym s d). destruct (d =? s); lia.
Qed.

Theorem helper_keeps_nothing c st user fs al a0 d0 a1 d1 dur pair_ok minted st' :
  user <> SELF -> user <> HELPER ->
  step v_fixed c st (HelperDeposit user fs al a0 d0 a1 d1 dur pair_ok minted) = Ok st' ->
  let staked_now := s_bal st HELPER (c_lp c) + minted in
  (* the helper ends with no LP tokens and with exactly the asset balances it started with *)
  s_bal st' HELPER (c_lp c) = 0 /\
  (forall s, s <> c_lp c -> s_bal st' HELPER s = s_bal st HELPER s) /\
  (* everything it held or was minted is staked for the user, and received by the incentive contract *)
  s_bal st' SELF (c_lp c) = s_bal st SELF (c_lp c) + staked_now /\
  (s_open st' = s_open st ++ [(user, (staked_now, dur))] \/ pos_add user dur staked_now (s_open st) = Some (s_open st')) /\
  s_closed st' = s_closed st /\
  (forall u, u <> user -> pos_of u (s_open st') = pos_of u (s_open st)).
Proof.
  intros Hu Huh Hstep. cbn [step] in Hstep. cbn zeta.
  apply bind_ok in Hstep as [[[r b6] lpb] [Eh Hstep]].
  pose proof Eh as Eh0. unfold helper_deposit in Eh0.
  apply bind_ok in Eh0 as [u0 [Elp H]]. apply ensure_ok in Elp. apply negb_true_iff in Elp.
  apply bind_ok in H as [b0 [E0 H]]. apply bind_ok in H as [b1 [E1 H]].
  apply bind_ok in H as [b2 [E2 H]]. apply bind_ok in H as [u1 [_ H]]. apply bind_ok in H as [b3 [E3 H]].
  apply bind_ok in H as [b4 [E4 H]]. apply bind_ok in H as [b5 [E5 H]]. apply bind_ok in H as [u2 [_ H]].
  apply bind_ok in H as [u3 [_ H]]. apply bind_ok in H as [r0 [Er H]]. inversion H; subst r0 b6 lpb; clear H.
  (* the helper's balance after the pair took the deposit equals its balance before *)
  assert (Hh : forall s, b5 HELPER s = s_bal st HELPER s).
  { intros s.
    assert (P1 : b1 HELPER s - b0 HELPER s = b3 HELPER s - b4 HELPER s).
    { unfold helper_pull in E1. unfold helper_forward in E4. destruct (is_native a0).
      - inversion E1; inversion E4; subst; lia.
      - destruct (_ =? d0); [|discriminate]. rewrite (transfer_delta _ _ _ _ _ _ E1), (transfer_delta _ _ _ _ _ _ E4). unfold tdelta.
        rewrite !Z.eqb_refl. destruct (HELPER =? user) eqn:E; [apply Z.eqb_eq in E; congruence|]. cbn. destruct (s =? a0); lia. }
    assert (P2 : b2 HELPER s - b1 HELPER s = b4 HELPER s - b5 HELPER s).
    { unfold helper_pull in E2. unfold helper_forward in E5. destruct (is_native a1).
      - inversion E2; inversion E5; subst; lia.
      - destruct (_ =? d1); [|discriminate]. rewrite (transfer_delta _ _ _ _ _ _ E2), (transfer_delta _ _ _ _ _ _ E5). unfold tdelta.
        rewrite !Z.eqb_refl. destruct (HELPER =? user) eqn:E; [apply Z.eqb_eq in E; congruence|]. cbn. destruct (s =? a1); lia. }
    pose proof (move_coins_delta _ _ _ _ _ E0 HELPER s) as Q0. rewrite mcd_in in Q0 by congruence.
    pose proof (move_coins_delta _ _ _ _ _ E3 HELPER s) as Q3. rewrite mcd_out in Q3 by discriminate. lia. }
  set (lpb := b5 HELPER (c_lp c) + minted) in *.
  set (b6 := upd_bal b5 HELPER (c_lp c) lpb) in *.
  set (st1 := mkState (s_epoch st) b6 (s_flows st) (s_counter st) (s_open st) (s_closed st) (s_gw st) (s_aw st) (s_snap st) (s_awh st) (s_last st)) in *.
  assert (Hb6 : forall x s, b6 x s = if (x =? HELPER) && (s =? c_lp c) then lpb else b5 x s) by (intros; reflexivity).
  destruct (helper_deposit_self _ _ _ _ _ _ _ _ _ _ _ _ _ _ _ _ _ _ Eh Hu) as [Hself _].
  assert (Hfw0 : funds_wf []) by (repeat split; constructor).
  assert (Hlpb : lpb = s_bal st HELPER (c_lp c) + minted) by (unfold lpb; rewrite Hh; reflexivity).
  (* the staking call made by the helper *)
  assert (Hpos : forall (open : bool),
            call st1 HELPER [] [(c_lp c, lpb)] (if open then open_position c st1 HELPER [] [(c_lp c, lpb)] lpb dur (Some user)
                                                 else expand_position c st1 HELPER [] [(c_lp c, lpb)] lpb dur (Some user)) = Ok st' ->
            s_bal st' HELPER (c_lp c) = 0 /\ (forall s, s <> c_lp c -> s_bal st' HELPER s = s_bal st HELPER s) /\
            s_bal st' SELF (c_lp c) = s_bal st SELF (c_lp c) + lpb /\
            (if open then s_open st' = s_open st ++ [(user, (lpb, dur))] else pos_add user dur lpb (s_open st) = Some (s_open st')) /\
            s_closed st' = s_closed st).
  { intros open Hc.
    pose proof (position_needs_funds c st1 HELPER [] [(c_lp c, lpb)] lpb dur (Some user) st' open HELPER_not_SELF Hfw0) as P.
    assert (Hst : step v_fixed c st1 (if open then OpenPosition HELPER [] [(c_lp c, lpb)] lpb dur (Some user)
                                      else ExpandPosition HELPER [] [(c_lp c, lpb)] lpb dur (Some user)) = Ok st') by (destruct open; exact Hc).
    specialize (P Hst). cbn zeta in P. destruct P as [P1 [P2 [P3 [P4 [P5 P6]]]]].
    cbn [s_bal s_open s_closed st1] in P1, P2, P4, P5.
    split; [rewrite P5, Hb6, !Z.eqb_refl; cbn; lia|].
    split.
    { intros s Hs. apply call_ok in Hc as [st2 [ms [Ehh [Hbal _]]]]. rewrite Hbal. cbn [fdelta s_bal st1]. rewrite Hb6.
      destruct (s =? c_lp c) eqn:E; [apply Z.eqb_eq in E; congruence|]. rewrite andb_false_r. rewrite Hh.
      assert (Hms : msdelta ms HELPER s = 0).
      { assert (Hv : exists ms0, validate_funds_sent c HELPER [] [(c_lp c, lpb)] lpb = Ok ms0 /\ ms = ms0).
        { destruct open.
          - unfold open_position in Ehh. apply bind_ok in Ehh as [u5 [_ Ehh]]. apply bind_ok in Ehh as [ms0 [Ev Ehh]].
            apply bind_ok in Ehh as [u6 [_ Ehh]]. apply bind_ok in Ehh as [w [_ Ehh]]. apply bind_ok in Ehh as [[[gw aw] awh] [_ Ehh]].
            inversion Ehh; subst. eauto.
          - unfold expand_position in Ehh. apply bind_ok in Ehh as [ms0 [Ev Ehh]].
            destruct (pos_add user dur lpb (s_open st1)); [|discriminate].
            apply bind_ok in Ehh as [u6 [_ Ehh]]. apply bind_ok in Ehh as [w [_ Ehh]]. apply bind_ok in Ehh as [[[gw aw] awh] [_ Ehh]].
            inversion Ehh; subst. eauto. }
        destruct Hv as [ms0 [Ev ->]].
        destruct (validate_funds_spec _ _ _ _ _ _ Ev HELPER_not_SELF Hfw0) as [_ [_ [_ M4]]].
        specialize (M4 s). cbn [fdelta coin_sum] in M4. unfold amt_if in M4. rewrite E in M4. lia. }
      lia. }
    split; [rewrite P4, Hself; reflexivity|].
    split; [destruct open; [exact (proj1 P1)|exact P1]|exact P2]. }
  rewrite <- Hlpb.
  destruct (has_pos user dur (s_open st)) eqn:Ehp; rewrite <- Er in Hstep.
  - destruct (Hpos false Hstep) as [Q1 [Q2 [Q3 [Q4 Q5]]]]. repeat (split; [assumption|]).
    split; [right; exact Q4|]. split; [exact Q5|]. intros u Hne. eapply pos_add_others; eauto.
  - destruct (Hpos true Hstep) as [Q1 [Q2 [Q3 [Q4 Q5]]]]. repeat (split; [assumption|]).
    split; [left; exact Q4|]. split; [exact Q5|]. intros u Hne. rewrite Q4. unfold pos_of. rewrite filter_app. cbn.
    destruct (user =? u) eqn:E; [apply Z.eqb_eq in E; congruence|]. rewrite app_nil_r. reflexivity.
Qed.
