(* IncentiveWeights.v — the weight bookkeeping of the incentive contract (repaired code):
   GLOBAL_WEIGHT = sum of ADDRESS_WEIGHT; per epoch, the weights the address histories hold add up to at most the
   epoch's global weight snapshot, whenever the snapshot is taken. *)
From WW Require Import Prim Params Incentive.
From WW.Proofs Require Import IncentiveLedger IncentiveFlows IncentiveInv IncentiveWeight.
From Coq Require Import Lia.

(* ---- association lists --------------------------------------------------------------------------------------------------- *)
Definition vals_sum (l : list (Z * Z)) : Z := sumZ (map snd l).

Lemma aset_sum k v l : vals_sum (aset k v l) = vals_sum l - aget0 k l + v.
Proof.
  unfold vals_sum, aget0. induction l as [|[k' v'] r IH]; cbn; [lia|].
  destruct (k' =? k); cbn; [lia|]. rewrite IH. lia.
Qed.

Lemma aget_aset e k v l : aget e (aset k v l) = if e =? k then Some v else aget e l.
Proof.
  induction l as [|[k' v'] r IH]; cbn.
  - rewrite (Z.eqb_sym k e). reflexivity.
  - destruct (k' =? k) eqn:E1; cbn.
    + apply Z.eqb_eq in E1. subst k'. rewrite (Z.eqb_sym k e). destruct (e =? k); reflexivity.
    + rewrite IH. destruct (e =? k) eqn:E2; [|reflexivity]. apply Z.eqb_eq in E2. subst e. rewrite E1. reflexivity.
Qed.

Lemma aget0_aset e k v l : aget0 e (aset k v l) = if e =? k then v else aget0 e l.
Proof. unfold aget0. rewrite aget_aset. destruct (e =? k); reflexivity. Qed.

Lemma aset_keys k v l : forall x, In x (map fst (aset k v l)) <-> x = k \/ In x (map fst l).
Proof.
  induction l as [|[k' v'] r IH]; cbn; intros x; [intuition|].
  destruct (k' =? k) eqn:E; cbn.
  - apply Z.eqb_eq in E. subst. intuition.
  - rewrite IH. intuition.
Qed.

Lemma aset_nodup k v l : NoDup (map fst l) -> NoDup (map fst (aset k v l)).
Proof.
  induction l as [|[k' v'] r IH]; cbn; intros H; [constructor; [tauto|constructor]|].
  apply NoDup_cons_iff in H as [Hn Hd]. destruct (k' =? k) eqn:E; cbn.
  - apply Z.eqb_eq in E. subst. constructor; assumption.
  - constructor; [|auto]. intros Hin. apply aset_keys in Hin as [->|Hin]; [rewrite Z.eqb_refl in E; discriminate|contradiction].
Qed.

Lemma aset_nonneg k v l : 0 <= v -> Forall (fun x => 0 <= snd x) l -> Forall (fun x => 0 <= snd x) (aset k v l).
Proof.
  intros Hv H. induction l as [|[k' v'] r IH]; cbn.
  - constructor; [exact Hv|constructor].
  - apply Forall_cons_iff in H as [H1 H2]. destruct (k' =? k).
    + constructor; [exact Hv|exact H2].
    + constructor; [exact H1|apply IH; exact H2].
Qed.

Lemma aset_Forall (P : Z * Z -> Prop) k v l : P (k, v) -> Forall P l -> Forall P (aset k v l).
Proof.
  intros Hv H. induction l as [|[k' v'] r IH]; cbn.
  - constructor; [exact Hv|constructor].
  - apply Forall_cons_iff in H as [H1 H2]. destruct (k' =? k).
    + constructor; [exact Hv|exact H2].
    + constructor; [exact H1|apply IH; exact H2].
Qed.

Lemma vals_sum_nonneg l : Forall (fun x => 0 <= snd x) l -> 0 <= vals_sum l.
Proof. unfold vals_sum. induction 1 as [|x r H _ IH]; cbn; lia. Qed.

Lemma remove_nodup k (L : list Z) : NoDup L -> NoDup (remove Z.eq_dec k L).
Proof.
  induction L as [|x L IH]; cbn; intros H; [constructor|]. apply NoDup_cons_iff in H as [Hx HL].
  destruct (Z.eq_dec k x); [auto|]. constructor; [|auto]. intros Hin. apply in_remove in Hin as [Hin _]. contradiction.
Qed.

Lemma aget0_nonneg k l : Forall (fun x => 0 <= snd x) l -> 0 <= aget0 k l.
Proof.
  unfold aget0. induction 1 as [|[k' v'] r H _ IH]; cbn; [lia|]. destruct (k' =? k); [exact H|exact IH].
Qed.

(* a duplicate-free set of keys reads at most the total *)
Lemma subsum_le l : Forall (fun x => 0 <= snd x) l -> forall L, NoDup L -> sumZ (map (fun u => aget0 u l) L) <= vals_sum l.
Proof.
  induction 1 as [|[k v] r Hv Hr IH]; intros L HL.
  - unfold vals_sum, aget0. cbn. induction L; cbn; [lia|]. apply NoDup_cons_iff in HL as [_ HL]. specialize (IHL HL). lia.
  - cbn in Hv. unfold vals_sum. cbn [map snd sumZ]. fold (vals_sum r).
    (* split L into k (at most once) and the rest *)
    assert (Hsplit : sumZ (map (fun u => aget0 u ((k, v) :: r)) L) <= v + sumZ (map (fun u => aget0 u r) (remove Z.eq_dec k L))).
    { clear IH. induction L as [|x L IHL]; cbn [map sumZ remove]; [lia|].
      apply NoDup_cons_iff in HL as [Hx HL]. specialize (IHL HL). unfold aget0 at 1. cbn [aget].
      destruct (Z.eq_dec k x) as [->|Hne].
      - rewrite Z.eqb_refl.
        assert (Hz : sumZ (map (fun u => aget0 u ((x, v) :: r)) L) = sumZ (map (fun u => aget0 u r) L)).
        { clear IHL. induction L as [|y L IHL2]; cbn [map sumZ]; [reflexivity|].
          assert (y <> x) by (intros ->; apply Hx; left; reflexivity).
          unfold aget0 at 1. cbn [aget]. destruct (x =? y) eqn:E; [apply Z.eqb_eq in E; congruence|].
          fold (aget0 y r). rewrite IHL2; [reflexivity| |].
          - intros Hin. apply Hx. right. exact Hin.
          - apply NoDup_cons_iff in HL as [_ HL]. exact HL. }
        rewrite Hz. rewrite notin_remove by exact Hx. lia.
      - destruct (k =? x) eqn:E; [apply Z.eqb_eq in E; congruence|]. fold (aget0 x r). cbn [map sumZ]. lia. }
    specialize (IH (remove Z.eq_dec k L) (remove_nodup _ _ HL)). lia.
Qed.

(* ---- address weight histories ----------------------------------------------------------------------------------------------- *)
(* keys strictly increasing and bounded *)
Fixpoint wh_ok (bound : Z) (h : list (Z * Z)) : Prop :=
  match h with
  | [] => True
  | (k, _) :: r => k <= bound /\ match r with [] => True | (k', _) :: _ => k < k' end /\ wh_ok bound r
  end.

(* the weight the history holds for epoch e: the latest entry with key <= e, 0 if none *)
Fixpoint eff_acc (h : list (Z * Z)) (e acc : Z) : Z :=
  match h with [] => acc | (k, v) :: r => if k <=? e then eff_acc r e v else acc end.
Definition eff (h : list (Z * Z)) (e : Z) : Z := eff_acc h e 0.

Lemma wh_ok_mono b b' h : b <= b' -> wh_ok b h -> wh_ok b' h.
Proof.
  intros Hb. induction h as [|[k v] r IH]; cbn; [tauto|]. intros [H1 [H2 H3]]. repeat split; [lia|assumption|auto].
Qed.

Lemma eff_acc_nonneg h : forall e acc, 0 <= acc -> Forall (fun x => 0 <= snd x) h -> 0 <= eff_acc h e acc.
Proof.
  induction h as [|[k v] r IH]; cbn; intros e acc Ha H; [assumption|]. apply Forall_cons_iff in H as [H1 H2].
  destruct (k <=? e); [apply IH; assumption|assumption].
Qed.
Lemma eff_nonneg h e : Forall (fun x => 0 <= snd x) h -> 0 <= eff h e.
Proof. apply eff_acc_nonneg. lia. Qed.

(* all keys are <= bound: looking beyond the bound is looking at the bound *)
Lemma eff_acc_beyond b h : wh_ok b h -> forall e acc, b <= e -> eff_acc h e acc = eff_acc h b acc.
Proof.
  induction h as [|[k v] r IH]; cbn; intros Hok e acc He; [reflexivity|]. destruct Hok as [H1 [_ H3]].
  destruct (k <=? e) eqn:E1; [|apply Z.leb_gt in E1; lia]. destruct (k <=? b) eqn:E2; [|apply Z.leb_gt in E2; lia].
  apply IH; assumption.
Qed.

(* writing at the top key: epochs below are unaffected, the top epoch reads the new value *)
Lemma sset_top b v h :
  wh_ok b h ->
  wh_ok b (sset b v h) /\ (forall e acc, e < b -> eff_acc (sset b v h) e acc = eff_acc h e acc) /\
  (forall acc, eff_acc (sset b v h) b acc = v) /\
  (0 <= v -> Forall (fun x => 0 <= snd x) h -> Forall (fun x => 0 <= snd x) (sset b v h)).
Proof.
  induction h as [|[k v0] r IH]; intros Hok.
  - cbn. repeat split; try lia.
    + intros e acc He. destruct (b <=? e) eqn:E; [apply Z.leb_le in E; lia|reflexivity].
    + intros acc. rewrite Z.leb_refl. reflexivity.
    + intros Hv _. constructor; [exact Hv|constructor].
  - cbn in Hok. destruct Hok as [H1 [H2 H3]]. specialize (IH H3). destruct IH as [I1 [I2 [I3 I4]]].
    cbn [sset]. destruct (b <? k) eqn:Elt; [apply Z.ltb_lt in Elt; lia|].
    destruct (b =? k) eqn:Eeq.
    + apply Z.eqb_eq in Eeq. subst k.
      destruct r as [|[k' v2] r']; [|cbn in H3; lia].
      cbn. repeat split; try lia.
      * intros e acc He. destruct (b <=? e) eqn:E; [apply Z.leb_le in E; lia|reflexivity].
      * intros acc. rewrite Z.leb_refl. reflexivity.
      * intros Hv _. constructor; [exact Hv|constructor].
    + apply Z.eqb_neq in Eeq. split; [|split; [|split]].
      * cbn [wh_ok]. split; [lia|]. split; [|exact I1].
        destruct r as [|[k' v2] r']; cbn [sset]; [lia|].
        destruct (b <? k') eqn:E1; [lia|]. destruct (b =? k') eqn:E2; [apply Z.eqb_eq in E2; lia|lia].
      * intros e acc He. cbn [eff_acc]. destruct (k <=? e); [apply I2; assumption|reflexivity].
      * intros acc. cbn [eff_acc]. destruct (k <=? b) eqn:E; [apply I3|apply Z.leb_gt in E; lia].
      * intros Hv H. apply Forall_cons_iff in H as [Ha Hb]. constructor; [exact Ha|apply I4; assumption].
Qed.

Lemma sset_Forall (P : Z * Z -> Prop) b v h : P (b, v) -> Forall P h -> Forall P (sset b v h).
Proof.
  intros Hv H. induction h as [|[k v0] r IH]; cbn; [constructor; [exact Hv|constructor]|].
  apply Forall_cons_iff in H as [H1 H2]. destruct (b <? k); [constructor; [exact Hv|constructor; assumption]|].
  destruct (b =? k); [constructor; assumption|constructor; [exact H1|apply IH; exact H2]].
Qed.

(* ---- the invariant ---------------------------------------------------------------------------------------------------------- *)
Definition share_sum (awh : Z -> list (Z * Z)) (e : Z) (L : list Z) : Z := sumZ (map (fun u => eff (awh u) e) L).

Record WInv (st : state) : Prop := mkWInv {
  w_gw : s_gw st = vals_sum (s_aw st);
  w_nodup : NoDup (map fst (s_aw st));
  w_nonneg : Forall (fun x => 0 <= snd x) (s_aw st);
  w_hist : forall u, wh_ok (s_epoch st + 1) (s_awh st u);
  w_hist_nn : forall u, Forall (fun x => 0 <= snd x) (s_awh st u);
  w_next : forall u, eff (s_awh st u) (s_epoch st + 1) = aget0 u (s_aw st);
  w_snap : Forall (fun x => fst x <= s_epoch st /\ 0 <= snd x) (s_snap st);
  w_share : forall e g, aget e (s_snap st) = Some g -> forall L, NoDup L -> share_sum (s_awh st) e L <= g;
  w_pre : aget (s_epoch st) (s_snap st) = None -> forall u, eff (s_awh st u) (s_epoch st) <= aget0 u (s_aw st);
  w_epoch : 0 <= s_epoch st;
  w_keys : forall u, Forall (fun x => 0 < fst x) (s_awh st u);
  w_last : forall u l, aget u (s_last st) = Some l -> l <= s_epoch st /\ Forall (fun x => l < fst x) (s_awh st u)
}.

Lemma aget_in k v l : aget k l = Some v -> In (k, v) l.
Proof.
  induction l as [|[k' v'] r IH]; cbn; [discriminate|]. destruct (k' =? k) eqn:E.
  - apply Z.eqb_eq in E. intros H. inversion H. subst. left. reflexivity.
  - intros H. right. auto.
Qed.

Lemma share_sum_le (f g : Z -> Z) L : (forall u, f u <= g u) -> sumZ (map f L) <= sumZ (map g L).
Proof. intros H. induction L; cbn; [lia|]. specialize (H a). lia. Qed.

(* a snapshot taken now (from the global weight) dominates the weights of the current epoch *)
Lemma snapshot_covers st :
  WInv st -> aget (s_epoch st) (s_snap st) = None ->
  forall L, NoDup L -> share_sum (s_awh st) (s_epoch st) L <= s_gw st.
Proof.
  intros W Hn L HL. rewrite (w_gw _ W).
  eapply Z.le_trans; [|apply (subsum_le _ (w_nonneg _ W) L HL)].
  apply share_sum_le. intros u. apply (w_pre _ W Hn).
Qed.

(* ---- weight changes --------------------------------------------------------------------------------------------------------- *)
(* the common effect of open / expand (delta = +w) and close (delta = -w') on the weight state:
   gw' = gw + delta, aw'(r) = aw(r) + delta (staying >= 0), history of r written at epoch + 1 *)
Lemma weight_change st st2 r delta (snap2 : list (Z * Z)) :
  WInv st ->
  s_epoch st2 = s_epoch st -> s_gw st2 = s_gw st + delta ->
  s_aw st2 = aset r (aget0 r (s_aw st) + delta) (s_aw st) ->
  0 <= aget0 r (s_aw st) + delta ->
  (forall a, s_awh st2 a = if a =? r then sset (s_epoch st + 1) (aget0 r (s_aw st) + delta) (s_awh st r) else s_awh st a) ->
  s_snap st2 = snap2 -> s_last st2 = s_last st ->
  (* either the snapshots are untouched and the weight did not decrease before the epoch's snapshot,
     or the epoch's snapshot exists / is taken now from the previous global weight *)
  ((snap2 = s_snap st /\ (0 <= delta \/ aget (s_epoch st) (s_snap st) <> None)) \/
   (aget (s_epoch st) (s_snap st) = None /\ snap2 = aset (s_epoch st) (s_gw st) (s_snap st))) ->
  WInv st2.
Proof.
  intros W Ee Eg Ea Hnn Eh Es El Hsnap.
  assert (Hh : forall a, wh_ok (s_epoch st + 1) (s_awh st2 a) /\ Forall (fun x => 0 <= snd x) (s_awh st2 a) /\
                         (forall e, e < s_epoch st + 1 -> eff (s_awh st2 a) e = eff (s_awh st a) e) /\
                         eff (s_awh st2 a) (s_epoch st + 1) = aget0 a (s_aw st2)).
  { intros a. rewrite Eh, Ea, aget0_aset.
    destruct (a =? r) eqn:E.
    - apply Z.eqb_eq in E. subst a.
      destruct (sset_top (s_epoch st + 1) (aget0 r (s_aw st) + delta) (s_awh st r) (w_hist _ W r)) as [S1 [S2 [S3 S4]]].
      repeat split; [exact S1|apply S4; [exact Hnn|apply (w_hist_nn _ W)]|intros e He; apply S2; exact He|apply S3].
    - repeat split; [apply (w_hist _ W)|apply (w_hist_nn _ W)|apply (w_next _ W)]. }
  assert (Hshare : forall e L, e <= s_epoch st -> share_sum (s_awh st2) e L = share_sum (s_awh st) e L).
  { intros e L He. unfold share_sum. induction L as [|u L IH]; cbn; [reflexivity|]. rewrite IH.
    destruct (Hh u) as [_ [_ [H3 _]]]. rewrite H3 by lia. reflexivity. }
  constructor.
  - rewrite Eg, Ea, aset_sum, (w_gw _ W). lia.
  - rewrite Ea. apply aset_nodup. apply (w_nodup _ W).
  - rewrite Ea. apply aset_nonneg; [exact Hnn|apply (w_nonneg _ W)].
  - intros u. rewrite Ee. apply (Hh u).
  - intros u. apply (Hh u).
  - intros u. rewrite Ee. apply (Hh u).
  - rewrite Es, Ee. destruct Hsnap as [[-> _]|[Hn ->]]; [apply (w_snap _ W)|].
    apply aset_Forall; [|apply (w_snap _ W)]. cbn. split; [lia|]. rewrite (w_gw _ W). apply vals_sum_nonneg. apply (w_nonneg _ W).
  - intros e g Hg L HL. rewrite Es in Hg.
    destruct Hsnap as [[-> _]|[Hn ->]].
    + assert (He : e <= s_epoch st).
      { pose proof (w_snap _ W) as Hs. rewrite Forall_forall in Hs. specialize (Hs _ (aget_in _ _ _ Hg)). cbn in Hs. lia. }
      rewrite Hshare by exact He. apply (w_share _ W e g Hg L HL).
    + rewrite aget_aset in Hg. destruct (e =? s_epoch st) eqn:E.
      * apply Z.eqb_eq in E. subst e. inversion Hg; subst g. rewrite Hshare by lia. apply snapshot_covers; assumption.
      * assert (He : e <= s_epoch st).
        { pose proof (w_snap _ W) as Hs. rewrite Forall_forall in Hs. specialize (Hs _ (aget_in _ _ _ Hg)). cbn in Hs. lia. }
        rewrite Hshare by exact He. apply (w_share _ W e g Hg L HL).
  - rewrite Es, Ee. intros Hn u.
    destruct Hsnap as [[-> Hd]|[_ ->]]; [|rewrite aget_aset, Z.eqb_refl in Hn; discriminate].
    destruct Hd as [Hd|Hd]; [|contradiction].
    destruct (Hh u) as [_ [_ [H3 _]]]. rewrite H3 by lia. rewrite Ea, aget0_aset. pose proof (w_pre _ W Hn u) as Hp.
    destruct (u =? r) eqn:E; [apply Z.eqb_eq in E; subst u; lia|exact Hp].
  - rewrite Ee. apply (w_epoch _ W).
  - intros u. rewrite Eh. destruct (u =? r); [|apply (w_keys _ W)].
    apply sset_Forall; [cbn; pose proof (w_epoch _ W); lia|apply (w_keys _ W)].
  - intros u l Hl. rewrite El in Hl. destruct (w_last _ W u l Hl) as [L1 L2]. rewrite Ee. split; [exact L1|].
    rewrite Eh. destruct (u =? r) eqn:E; [|exact L2]. apply Z.eqb_eq in E. subst u.
    apply sset_Forall; [cbn; lia|exact L2].
Qed.

Lemma add_weight_spec st recv w gw aw awh :
  add_weight st recv w = Ok (gw, aw, awh) ->
  gw = s_gw st + w /\ aw = aset recv (aget0 recv (s_aw st) + w) (s_aw st) /\
  awh = (fun a => if a =? recv then sset (s_epoch st + 1) (aget0 recv (s_aw st) + w) (s_awh st recv) else s_awh st a).
Proof.
  unfold add_weight. intros H. apply bind_ok in H as [g [Eg H]]. apply bind_ok in H as [u [Eu H]]. apply bind_ok in H as [x [_ H]].
  apply cadd_ok in Eg, Eu. inversion H; subst. auto.
Qed.

(* states that agree on the weight bookkeeping *)
Definition wsame (st st2 : state) : Prop :=
  s_epoch st2 = s_epoch st /\ s_gw st2 = s_gw st /\ s_aw st2 = s_aw st /\ s_snap st2 = s_snap st /\ s_awh st2 = s_awh st /\
  s_last st2 = s_last st.

Lemma winv_same st st2 : wsame st st2 -> WInv st -> WInv st2.
Proof.
  intros [E1 [E2 [E3 [E4 [E5 E6]]]]] W. constructor; rewrite ?E1, ?E2, ?E3, ?E4, ?E5, ?E6; apply W.
Qed.

Lemma wsame_with_bal st b : wsame st (with_bal st b).
Proof. unfold wsame; cbn; repeat split; reflexivity. Qed.
Lemma wsame_trans a b c : wsame a b -> wsame b c -> wsame a c.
Proof. unfold wsame. intuition congruence. Qed.

(* position handlers on the weight state *)
Lemma position_weights c st st0 sender fs al amount d recv st2 (open : bool) :
  WInv st -> wsame st st0 -> 0 <= amount ->
  call st0 sender fs al (if open then open_position c st0 sender fs al amount d recv else expand_position c st0 sender fs al amount d recv) = Ok st2 ->
  WInv st2.
Proof.
  intros W Hs Ha Hc. apply call_ok in Hc as [st1 [ms [Eh [_ Est]]]].
  pose proof (winv_same _ _ Hs W) as W0.
  assert (Hx : exists w gw aw awh op cl, calculate_weight d amount = Ok w /\
             add_weight st0 (match recv with Some r => r | None => sender end) w = Ok (gw, aw, awh) /\
             st1 = with_positions st0 op cl gw aw awh).
  { destruct open.
    - unfold open_position in Eh. apply bind_ok in Eh as [u0 [_ Eh]]. apply bind_ok in Eh as [ms0 [_ Eh]].
      apply bind_ok in Eh as [u1 [_ Eh]]. apply bind_ok in Eh as [w [Ew Eh]]. apply bind_ok in Eh as [[[gw aw] awh] [Eaw Eh]].
      inversion Eh; subst. do 6 eexists. eauto.
    - unfold expand_position in Eh. apply bind_ok in Eh as [ms0 [_ Eh]].
      destruct (pos_add _ d amount (s_open st0)) as [op'|]; [|discriminate].
      apply bind_ok in Eh as [u1 [_ Eh]]. apply bind_ok in Eh as [w [Ew Eh]]. apply bind_ok in Eh as [[[gw aw] awh] [Eaw Eh]].
      inversion Eh; subst. do 6 eexists. eauto. }
  destruct Hx as [w [gw [aw [awh [op [cl [Ew [Eaw E1]]]]]]]].
  apply add_weight_spec in Eaw as [-> [-> ->]].
  pose proof (weight_nonneg _ _ _ Ha Ew) as Hw.
  rewrite Est, E1.
  eapply (weight_change st0 _ (match recv with Some r => r | None => sender end) w (s_snap st0) W0); cbn; try reflexivity.
  - pose proof (aget0_nonneg (match recv with Some r => r | None => sender end) _ (w_nonneg _ W0)). lia.
  - left. split; [reflexivity|left; exact Hw].
Qed.

Lemma close_weights c st sender d now st2 :
  WInv st -> call st sender [] [] (close_position v_fixed c st sender d now) = Ok st2 -> WInv st2.
Proof.
  intros W Hc. apply call_ok in Hc as [st1 [ms [Eh [_ Est]]]].
  unfold close_position in Eh. apply bind_ok in Eh as [u0 [_ Eh]].
  destruct (pos_take sender d (s_open st)) as [[amount op']|]; [|discriminate].
  apply bind_ok in Eh as [ts [_ Eh]]. apply bind_ok in Eh as [w [_ Eh]]. apply bind_ok in Eh as [u1 [_ Eh]].
  inversion Eh; subst st1 ms; clear Eh. cbn [v_close_clamp v_close_snap v_fixed] in Est.
  set (uw0 := aget0 sender (s_aw st)) in *. set (w' := Z.min w uw0) in *.
  assert (Huw : uw0 <= s_gw st).
  { rewrite (w_gw _ W). pose proof (subsum_le _ (w_nonneg _ W) [sender] ltac:(constructor; [tauto|constructor])) as H. cbn in H. unfold uw0. lia. }
  assert (Hw' : w' <= uw0) by (unfold w'; lia).
  rewrite Est.
  eapply (weight_change st _ sender (- w') _ W); cbn [s_epoch s_gw s_aw s_awh s_snap with_bal with_positions]; try reflexivity.
  - unfold ssub. lia.
  - unfold ssub. fold uw0. replace (uw0 + - w') with (Z.max 0 (uw0 - w')) by lia. reflexivity.
  - fold uw0. lia.
  - intros a. fold uw0. unfold ssub. replace (uw0 + - w') with (Z.max 0 (uw0 - w')) by lia. reflexivity.
  - destruct (aget (s_epoch st) (s_snap st)) eqn:E.
    + left. split; [reflexivity|right; discriminate].
    + right. split; reflexivity.
Qed.

Lemma eff_single k v e : eff [(k, v)] e = if k <=? e then v else 0.
Proof. unfold eff. cbn. destruct (k <=? e); reflexivity. Qed.

Lemma claim_weights c st sender st2 :
  WInv st -> call st sender [] [] (claim v_fixed c st sender) = Ok st2 -> WInv st2.
Proof.
  intros W Hc. apply call_ok in Hc as [st1 [ms [Eh [_ Est]]]].
  unfold claim in Eh. destruct (aget (s_epoch st) (s_snap st)) as [g0|] eqn:Esn; [|discriminate].
  apply bind_ok in Eh as [u [_ Eh]]. apply bind_ok in Eh as [[[fl ms0] lw] [_ Eh]]. apply bind_ok in Eh as [nxt [En Eh]].
  apply padd_ok in En. inversion Eh; subst st1 ms nxt; clear Eh. cbn [v_claim_cur v_fixed] in Est. rewrite Est.
  assert (Hle : forall a e, eff ((fun a0 => if a0 =? sender then [(s_epoch st + 1, aget0 sender (s_aw st))] else s_awh st a0) a) e
                            <= (if e <=? s_epoch st then eff (s_awh st a) e else aget0 a (s_aw st)) \/ e > s_epoch st).
  { intros a e. destruct (e <=? s_epoch st) eqn:E; [|right; apply Z.leb_gt in E; lia]. left. apply Z.leb_le in E.
    destruct (a =? sender); [|lia]. rewrite eff_single. destruct (s_epoch st + 1 <=? e) eqn:E2; [apply Z.leb_le in E2; lia|].
    apply eff_nonneg. apply (w_hist_nn _ W). }
  constructor; cbn [s_epoch s_gw s_aw s_awh s_snap s_last with_bal].
  - apply (w_gw _ W).
  - apply (w_nodup _ W).
  - apply (w_nonneg _ W).
  - intros a. destruct (a =? sender); [|apply (w_hist _ W)]. cbn. repeat split; lia.
  - intros a. destruct (a =? sender); [|apply (w_hist_nn _ W)]. constructor; [|constructor]. cbn. apply aget0_nonneg. apply (w_nonneg _ W).
  - intros a. destruct (a =? sender) eqn:E; [|apply (w_next _ W)]. apply Z.eqb_eq in E. subst a.
    rewrite eff_single, Z.leb_refl. reflexivity.
  - apply (w_snap _ W).
  - intros e g Hg L HL.
    assert (He : e <= s_epoch st).
    { pose proof (w_snap _ W) as Hs. rewrite Forall_forall in Hs. specialize (Hs _ (aget_in _ _ _ Hg)). cbn in Hs. lia. }
    eapply Z.le_trans; [|apply (w_share _ W e g Hg L HL)]. apply share_sum_le. intros a.
    destruct (Hle a e) as [H|H]; [|lia]. destruct (e <=? s_epoch st) eqn:E; [exact H|apply Z.leb_gt in E; lia].
  - intros Hn. rewrite Esn in Hn. discriminate.
  - apply (w_epoch _ W).
  - intros a. destruct (a =? sender); [|apply (w_keys _ W)]. constructor; [cbn; pose proof (w_epoch _ W); lia|constructor].
  - intros a l Hl. rewrite aget_aset in Hl. destruct (a =? sender) eqn:E.
    + inversion Hl; subst l. split; [lia|]. constructor; [cbn; lia|constructor].
    + destruct (w_last _ W a l Hl) as [L1 L2]. split; assumption.
Qed.

Lemma snapshot_weights st st2 :
  WInv st -> call st 0 [] [] (take_snapshot st) = Ok st2 -> WInv st2.
Proof.
  intros W Hc. apply call_ok in Hc as [st1 [ms [Eh [_ Est]]]]. unfold take_snapshot in Eh.
  destruct (aget (s_epoch st) (s_snap st)) eqn:Esn; [discriminate|]. inversion Eh; subst st1 ms; clear Eh. rewrite Est.
  constructor; cbn [s_epoch s_gw s_aw s_awh s_snap s_last with_bal]; try apply W.
  - apply aset_Forall; [|apply (w_snap _ W)]. cbn. split; [lia|]. rewrite (w_gw _ W). apply vals_sum_nonneg. apply (w_nonneg _ W).
  - intros e g Hg L HL. rewrite aget_aset in Hg. destruct (e =? s_epoch st) eqn:E.
    + apply Z.eqb_eq in E. subst e. inversion Hg; subst g. apply snapshot_covers; assumption.
    + apply (w_share _ W e g Hg L HL).
  - rewrite aget_aset, Z.eqb_refl. discriminate.
Qed.

Lemma new_epoch_weights st e :
  WInv st -> e = s_epoch st + 1 ->
  WInv (mkState e (s_bal st) (s_flows st) (s_counter st) (s_open st) (s_closed st) (s_gw st) (s_aw st) (s_snap st) (s_awh st) (s_last st)).
Proof.
  intros W ->. constructor; cbn [s_epoch s_gw s_aw s_awh s_snap s_last]; try apply W.
  - intros u. eapply wh_ok_mono; [|apply (w_hist _ W)]. lia.
  - intros u. unfold eff. rewrite (eff_acc_beyond (s_epoch st + 1) _ (w_hist _ W u)) by lia. apply (w_next _ W).
  - eapply Forall_impl; [|apply (w_snap _ W)]. cbn. intros; lia.
  - intros _ u. rewrite (w_next _ W). lia.
  - pose proof (w_epoch _ W). lia.
  - intros u l Hl. destruct (w_last _ W u l Hl) as [L1 L2]. split; [lia|exact L2].
Qed.

(* operations that do not touch the weight bookkeeping *)
Lemma flow_ops_wsame c st o st2 :
  match o with Donate _ _ _ | Gift _ _ _ _ | OpenFlow _ _ _ _ _ _ _ _ | ExpandFlow _ _ _ _ _ _ _ | CloseFlow _ _ | Withdraw _ => True | _ => False end ->
  step v_fixed c st o = Ok st2 -> wsame st st2.
Proof.
  intros Ho Hstep. destruct o; try contradiction; cbn [step] in Hstep.
  - apply bind_ok in Hstep as [b [_ H]]. inversion H. apply wsame_with_bal.
  - apply bind_ok in Hstep as [b [_ H]]. inversion H. apply wsame_with_bal.
  - apply call_ok in Hstep as [st1 [ms [Eh [_ Est]]]]. rewrite Est. unfold open_flow in Eh.
    apply bind_ok in Eh as [u0 [_ Eh]]. apply bind_ok in Eh as [[a1 m1] [_ Eh]]. apply bind_ok in Eh as [u1 [_ Eh]].
    apply bind_ok in Eh as [[a2 m2] [_ Eh]]. apply bind_ok in Eh as [dflt [_ Eh]]. apply bind_ok in Eh as [u2 [_ Eh]].
    apply bind_ok in Eh as [u3 [_ Eh]]. apply bind_ok in Eh as [lim [_ Eh]]. apply bind_ok in Eh as [u4 [_ Eh]].
    apply bind_ok in Eh as [id [_ Eh]]. inversion Eh; subst. unfold wsame; cbn; repeat split; reflexivity.
  - apply call_ok in Hstep as [st1 [ms [Eh [_ Est]]]]. rewrite Est. unfold expand_flow in Eh.
    destruct (find_flow x (s_flows st)); [|discriminate].
    apply bind_ok in Eh as [u0 [_ Eh]]. apply bind_ok in Eh as [u1 [_ Eh]]. apply bind_ok in Eh as [ms0 [_ Eh]].
    apply bind_ok in Eh as [eu [_ Eh]]. apply bind_ok in Eh as [u2 [_ Eh]]. apply bind_ok in Eh as [next [_ Eh]].
    apply bind_ok in Eh as [f3 [_ Eh]]. apply bind_ok in Eh as [u3 [_ Eh]]. apply bind_ok in Eh as [u4 [_ Eh]].
    inversion Eh; subst. unfold wsame; cbn; repeat split; reflexivity.
  - apply call_ok in Hstep as [st1 [ms [Eh [_ Est]]]]. rewrite Est. unfold close_flow in Eh.
    destruct (find_flow x (s_flows st)); [|discriminate]. apply bind_ok in Eh as [u0 [_ Eh]]. inversion Eh; subst. unfold wsame; cbn; repeat split; reflexivity.
  - apply call_ok in Hstep as [st1 [ms [Eh [_ Est]]]]. rewrite Est. unfold withdraw in Eh.
    apply bind_ok in Eh as [u0 [_ Eh]]. destruct (_ =? 0); inversion Eh; subst; unfold wsame; cbn; repeat split; reflexivity.
Qed.

(* the helper's staking call: same weight state as before, unsigned amount *)
Lemma helper_deposit_amount v c st user fs al a0 d0 a1 d1 dur pair_ok minted oh eh r b6 lpb :
  helper_deposit v c st user fs al a0 d0 a1 d1 dur pair_ok minted oh eh = Ok (r, b6, lpb) -> 0 <= lpb.
Proof.
  unfold helper_deposit. intros H.
  apply bind_ok in H as [u0 [_ H]]. apply bind_ok in H as [b0 [_ H]]. apply bind_ok in H as [b1 [_ H]].
  apply bind_ok in H as [b2 [_ H]]. apply bind_ok in H as [u1 [_ H]]. apply bind_ok in H as [b3 [_ H]].
  apply bind_ok in H as [b4 [_ H]]. apply bind_ok in H as [b5 [_ H]]. apply bind_ok in H as [u2 [E H]].
  apply bind_ok in H as [u3 [_ H]]. apply bind_ok in H as [r0 [_ H]]. inversion H; subst.
  apply ensure_ok in E. apply andb_true_iff in E as [E _]. apply Z.leb_le in E. exact E.
Qed.

(* well-formedness needed here: amounts of position operations are unsigned *)
Definition op_wf_w (o : op) : Prop :=
  match o with
  | OpenPosition _ _ _ amount _ _ | ExpandPosition _ _ _ amount _ _ => 0 <= amount
  | _ => True
  end.

Theorem step_winv c st o st2 : op_wf_w o -> WInv st -> step v_fixed c st o = Ok st2 -> WInv st2.
Proof.
  intros Hwf W Hstep.
  destruct o; try (eapply winv_same; [eapply flow_ops_wsame; [|exact Hstep]; exact I|exact W]); cbn [step op_wf_w] in *.
  - apply bind_ok in Hstep as [e [Ee H]]. apply padd_ok in Ee. inversion H; subst. apply new_epoch_weights; [exact W|reflexivity].
  - eapply snapshot_weights; eauto.
  - eapply claim_weights; eauto.
  - eapply (position_weights c st st sender fs al amount d receiver st2 true); eauto. unfold wsame; repeat split; reflexivity.
  - eapply (position_weights c st st sender fs al amount d receiver st2 false); eauto. unfold wsame; repeat split; reflexivity.
  - eapply close_weights; eauto.
  - apply bind_ok in Hstep as [[[r b6] lpb] [Eh Hstep]].
    pose proof (helper_deposit_amount _ _ _ _ _ _ _ _ _ _ _ _ _ _ _ _ _ _ Eh) as Hl.
    set (st1 := mkState (s_epoch st) b6 (s_flows st) (s_counter st) (s_open st) (s_closed st) (s_gw st) (s_aw st) (s_snap st) (s_awh st) (s_last st)) in *.
    assert (Hs : wsame st st1) by (unfold wsame, st1; cbn; repeat split; reflexivity).
    unfold helper_deposit in Eh.
    apply bind_ok in Eh as [u0 [_ H]]. apply bind_ok in H as [b0 [_ H]]. apply bind_ok in H as [b1 [_ H]].
    apply bind_ok in H as [b2 [_ H]]. apply bind_ok in H as [u1 [_ H]]. apply bind_ok in H as [b3 [_ H]].
    apply bind_ok in H as [b4 [_ H]]. apply bind_ok in H as [b5 [_ H]]. apply bind_ok in H as [u2 [_ H]].
    apply bind_ok in H as [u3 [_ H]]. apply bind_ok in H as [r0 [Er H]]. inversion H; subst r0 b6 lpb; clear H.
    fold st1 in Er. rewrite <- Er in Hstep.
    destruct (has_pos user dur (s_open st)).
    + eapply (position_weights c st st1 HELPER [] _ _ dur (Some user) st2 false); eauto.
    + eapply (position_weights c st st1 HELPER [] _ _ dur (Some user) st2 true); eauto.
Qed.

Lemma init_winv e b : 0 <= e -> WInv (init_state e b).
Proof.
  intros He. constructor; cbn [init_state s_gw s_aw s_awh s_snap s_epoch s_last].
  - reflexivity.
  - constructor.
  - constructor.
  - intros u. exact I.
  - intros u. constructor.
  - intros u. reflexivity.
  - constructor; [cbn; lia|constructor].
  - intros e0 g Hg L HL. cbn in Hg. destruct (e =? e0); [|discriminate]. inversion Hg; subst.
    unfold share_sum. clear. induction L; cbn; [lia|]. unfold eff in *. cbn in *. lia.
  - cbn. rewrite Z.eqb_refl. discriminate.
  - exact He.
  - intros u. constructor.
  - intros u l Hl. discriminate.
Qed.

Theorem history_winv c h : forall st, Forall op_wf_w h -> WInv st -> WInv (run_history v_fixed c st h).
Proof.
  induction h as [|o r IH]; intros st Hw W; [exact W|]. inversion Hw; subst.
  change (run_history v_fixed c st (o :: r)) with (run_history v_fixed c (step_total v_fixed c st o) r).
  apply IH; [assumption|]. unfold step_total. destruct (step v_fixed c st o) eqn:E; [|assumption|assumption].
  eapply step_winv; eauto.
Qed.
