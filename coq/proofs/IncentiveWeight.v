(* IncentiveWeight.v — the weight function: lower bound, monotonicity, and the justification of the closed form
   (no intermediate Decimal256 operation of weight.rs can overflow for u64 durations and 128-bit amounts). *)
From WW Require Import Prim Params Incentive.
From WW.Proofs Require Import IncentiveLedger.
From Coq Require Import Lia.
Import Params.

(* generic in the constants: only their signs matter *)
Section Weight.
  Variables A B DEN DEN2 CN CD : Z.
  Hypothesis HA : 0 <= A.
  Hypothesis HB : 0 <= B.
  Hypothesis HDEN : 0 < DEN.
  Hypothesis HDEN2 : 0 < DEN2.
  Hypothesis HCN : 0 <= CN.
  Hypothesis HCD : 0 < CD.

  Definition mult (d : Z) : Z := (d * d * A) * DEC / DEN + (d * B) * DEC / DEN2 + CN * DEC / CD.

  Lemma DEC_pos : 0 < DEC. Proof. unfold DEC. lia. Qed.

  Lemma mult_nonneg d : 0 <= d -> 0 <= mult d.
  Proof.
    intros Hd. unfold mult. pose proof DEC_pos.
    assert (0 <= d * d * A * DEC / DEN) by (apply Z.div_pos; nia).
    assert (0 <= d * B * DEC / DEN2) by (apply Z.div_pos; nia).
    assert (0 <= CN * DEC / CD) by (apply Z.div_pos; nia). lia.
  Qed.

  Lemma mult_mono d d' : 0 <= d <= d' -> mult d <= mult d'.
  Proof.
    intros Hd. unfold mult. pose proof DEC_pos.
    assert (Hsq : d * d <= d' * d') by nia.
    assert (d * d * A * DEC <= d' * d' * A * DEC).
    { apply Z.mul_le_mono_nonneg_r; [lia|]. apply Z.mul_le_mono_nonneg_r; assumption. }
    assert (d * B * DEC <= d' * B * DEC).
    { apply Z.mul_le_mono_nonneg_r; [lia|]. apply Z.mul_le_mono_nonneg_r; [assumption|lia]. }
    assert (d * d * A * DEC / DEN <= d' * d' * A * DEC / DEN) by (apply Z.div_le_mono; assumption).
    assert (d * B * DEC / DEN2 <= d' * B * DEC / DEN2) by (apply Z.div_le_mono; assumption). lia.
  Qed.
End Weight.

Lemma w_mult_eq d : w_mult d = mult WEIGHT_A WEIGHT_B WEIGHT_DEN WEIGHT_DEN2 WEIGHT_C_NUM WEIGHT_C_DEN d.
Proof. reflexivity. Qed.

(* instantiation at the constants extracted from weight.rs *)
Lemma consts_ok : 0 <= WEIGHT_A /\ 0 <= WEIGHT_B /\ 0 < WEIGHT_DEN /\ 0 < WEIGHT_DEN2 /\ 0 <= WEIGHT_C_NUM /\ 0 < WEIGHT_C_DEN /\ 0 <= WEIGHT_MIN_DURATION.
Proof. unfold WEIGHT_A, WEIGHT_B, WEIGHT_DEN, WEIGHT_DEN2, WEIGHT_C_NUM, WEIGHT_C_DEN, WEIGHT_MIN_DURATION. lia. Qed.

Lemma w_mult_nonneg d : 0 <= d -> 0 <= w_mult d.
Proof. destruct consts_ok as [? [? [? [? [? [? ?]]]]]]. rewrite w_mult_eq. apply mult_nonneg; assumption. Qed.
Lemma w_mult_mono d d' : 0 <= d <= d' -> w_mult d <= w_mult d'.
Proof. destruct consts_ok as [? [? [? [? [? [? ?]]]]]]. rewrite !w_mult_eq. apply mult_mono; assumption. Qed.

Lemma calculate_weight_ok d a w :
  calculate_weight d a = Ok w ->
  WEIGHT_MIN_DURATION <= d <= WEIGHT_MAX_DURATION /\ w = Z.max (a * w_mult d / DEC) a /\ a * w_mult d / DEC < P128.
Proof.
  unfold calculate_weight. destruct ((WEIGHT_MIN_DURATION <=? d) && (d <=? WEIGHT_MAX_DURATION)) eqn:E; [|discriminate].
  apply andb_true_iff in E as [E1 E2]. apply Z.leb_le in E1, E2.
  destruct (a * w_mult d / DEC <? P128) eqn:E3; [|discriminate]. apply Z.ltb_lt in E3.
  intros H. inversion H. auto.
Qed.

Theorem weight_ge_amount d a w : calculate_weight d a = Ok w -> a <= w.
Proof. intros H. apply calculate_weight_ok in H as [_ [-> _]]. lia. Qed.

Theorem weight_nonneg d a w : 0 <= a -> calculate_weight d a = Ok w -> 0 <= w.
Proof. intros Ha H. apply weight_ge_amount in H. lia. Qed.

Theorem weight_mono_amount d a a' w w' :
  0 <= a <= a' -> calculate_weight d a = Ok w -> calculate_weight d a' = Ok w' -> w <= w'.
Proof.
  intros Ha H H'. apply calculate_weight_ok in H as [[Hd _] [-> _]]. apply calculate_weight_ok in H' as [_ [-> _]].
  destruct consts_ok as [_ [_ [_ [_ [_ [_ Hmin]]]]]].
  pose proof (w_mult_nonneg d ltac:(lia)). pose proof DEC_pos.
  assert (a * w_mult d / DEC <= a' * w_mult d / DEC) by (apply Z.div_le_mono; nia). lia.
Qed.

Theorem weight_mono_duration d d' a w w' :
  0 <= a -> d <= d' -> calculate_weight d a = Ok w -> calculate_weight d' a = Ok w' -> w <= w'.
Proof.
  intros Ha Hdd H H'. apply calculate_weight_ok in H as [[Hd _] [-> _]]. apply calculate_weight_ok in H' as [_ [-> _]].
  destruct consts_ok as [_ [_ [_ [_ [_ [_ Hmin]]]]]].
  pose proof (w_mult_mono d d' ltac:(lia)). pose proof DEC_pos.
  assert (a * w_mult d / DEC <= a * w_mult d' / DEC) by (apply Z.div_le_mono; nia). lia.
Qed.

(* the weight of a sum is at least the sum of the weights (why close_position needs its clamp) *)
Theorem weight_superadditive d a1 a2 w1 w2 w :
  0 <= a1 -> 0 <= a2 -> calculate_weight d a1 = Ok w1 -> calculate_weight d a2 = Ok w2 -> calculate_weight d (a1 + a2) = Ok w ->
  w1 + w2 <= w \/ (w1 = a1 \/ w2 = a2).
Proof.
  intros H1 H2 E1 E2 E. apply calculate_weight_ok in E1 as [[Hd _] [-> _]]. apply calculate_weight_ok in E2 as [_ [-> _]].
  apply calculate_weight_ok in E as [_ [-> _]]. pose proof DEC_pos.
  destruct (Z.max_spec (a1 * w_mult d / DEC) a1) as [[? ->]|[? ->]]; [tauto|].
  destruct (Z.max_spec (a2 * w_mult d / DEC) a2) as [[? ->]|[? ->]]; [tauto|]. left.
  assert (a1 * w_mult d / DEC + a2 * w_mult d / DEC <= (a1 + a2) * w_mult d / DEC).
  { replace ((a1 + a2) * w_mult d) with (a1 * w_mult d + a2 * w_mult d) by lia.
    pose proof (Z.div_mod (a1 * w_mult d) DEC ltac:(lia)). pose proof (Z.div_mod (a2 * w_mult d) DEC ltac:(lia)).
    pose proof (Z.mod_pos_bound (a1 * w_mult d) DEC ltac:(lia)). pose proof (Z.mod_pos_bound (a2 * w_mult d) DEC ltac:(lia)).
    apply Z.div_le_lower_bound; lia. }
  lia.
Qed.

(* closed form justified: after the range check on the duration, every intermediate Decimal256 / Uint256 value of
   weight.rs stays below 2^256, so none of its checked operations can fail before the final try_into *)
Theorem weight_no_intermediate_overflow d a :
  WEIGHT_MIN_DURATION <= d <= WEIGHT_MAX_DURATION -> 0 <= a < P128 ->
  d * DEC < P256 /\ a * DEC < P256 /\                       (* from_atomics(_, 0) *)
  d * d * DEC < P256 /\                                     (* checked_pow(2) *)
  d * d * WEIGHT_A < P256 /\ w_part1 d < P256 /\            (* checked_mul(raw A), checked_div(raw DEN) *)
  d * WEIGHT_B < P256 /\ w_part2 d < P256 /\                (* checked_mul(raw B), checked_div(raw DEN) *)
  w_part3 < P256 /\ w_mult d < P256 /\                      (* from_ratio, checked_add x2 *)
  a * w_mult d < P256.                                      (* amount.checked_mul(multiplier), in atomics: a * mult *)
Proof.
  intros [Hd0 Hd] [Ha0 Ha]. unfold P128, WEIGHT_MIN_DURATION, WEIGHT_MAX_DURATION in *.
  assert (Hdd : d * d < 2 ^ 50) by nia.
  assert (Hdd0 : 0 <= d * d) by nia.
  assert (Hp1 : w_part1 d < 2 ^ 64).
  { unfold w_part1. apply Z.div_lt_upper_bound; [unfold WEIGHT_DEN; lia|]. unfold WEIGHT_A, WEIGHT_DEN, DEC. nia. }
  assert (Hp2 : w_part2 d < 2 ^ 62).
  { unfold w_part2. apply Z.div_lt_upper_bound; [unfold WEIGHT_DEN2; lia|]. unfold WEIGHT_B, WEIGHT_DEN2, DEC. nia. }
  assert (Hp3 : w_part3 < 2 ^ 60) by (unfold w_part3, WEIGHT_C_NUM, WEIGHT_C_DEN, DEC; apply Z.div_lt_upper_bound; lia).
  assert (Hm : w_mult d < 2 ^ 65) by (unfold w_mult; lia).
  assert (Hm0 : 0 <= w_mult d) by (apply w_mult_nonneg; lia).
  unfold P256. repeat split; try (unfold DEC, WEIGHT_A, WEIGHT_B; nia); try lia.
Qed.
