(* LairProofs.v — invariants of the whale_lair model (Lair.v): conservation, global index = sum of bonds,
   unbonding accounting, withdraw pays matured records only / all of them, whitelist. *)
From WW Require Import Prim Params Lair.
From WW.Proofs Require Import ArithLemmas.

Local Open Scope Z_scope.

(* ---- outcome monad inversion --------------------------------------------------------------- *)
Lemma bind_ok {A B} (m : outcome A) (f : A -> outcome B) b :
  bind m f = Ok b -> exists a, m = Ok a /\ f a = Ok b.
Proof. destruct m; cbn; intro H; try discriminate. eauto. Qed.
Lemma ensure_ok b c u : ensure b c = Ok u -> b = true.
Proof. destruct b; cbn; congruence. Qed.
Lemma must_ok b u : must b = Ok u -> b = true.
Proof. destruct b; cbn; congruence. Qed.
Lemma cadd_ok w a b r : cadd w a b = Ok r -> r = a + b /\ 0 <= a + b < w.
Proof. unfold cadd. destruct (fits w (a + b)) eqn:E; intro H; inversion H. apply fits_true in E. lia. Qed.
Lemma csub_ok a b r : csub a b = Ok r -> r = a - b /\ b <= a.
Proof. unfold csub. destruct (b <=? a) eqn:E; intro H; inversion H. apply Z.leb_le in E. lia. Qed.

Ltac zcases := repeat match goal with |- context [Z.eqb ?a ?b] => destruct (Z.eqb_spec a b) end; cbn [andb]; try subst; lia.

Ltac inv_bind H :=
  let a := fresh "x" in let H1 := fresh "Hb" in
  apply bind_ok in H; destruct H as [a [H1 H]].

(* ---- keys ----------------------------------------------------------------------------------- *)
Lemma bkey_eqb_true a b : bkey_eqb a b = true -> a = b.
Proof.
  destruct a, b; unfold bkey_eqb; cbn. rewrite andb_true_iff, !Z.eqb_eq. intros [-> ->]; reflexivity.
Qed.
Lemma bkey_eqb_refl a : bkey_eqb a a = true.
Proof. destruct a; unfold bkey_eqb; cbn. rewrite !Z.eqb_refl. reflexivity. Qed.
Lemma ukey_eqb_true a b : ukey_eqb a b = true -> a = b.
Proof.
  destruct a as [[a1 a2] a3], b as [[b1 b2] b3]; cbn. rewrite !andb_true_iff, !Z.eqb_eq.
  intros [[-> ->] ->]; reflexivity.
Qed.

(* ---- integer maps ---------------------------------------------------------------------------- *)
Lemma zget_zset_same k v l : zget k (zset k v l) = v.
Proof.
  induction l as [|[k' v'] r IH]; cbn.
  - rewrite Z.eqb_refl. reflexivity.
  - destruct (k =? k') eqn:E; cbn; rewrite E; auto.
Qed.
Lemma zget_zset_other k k2 v l : k2 <> k -> zget k2 (zset k v l) = zget k2 l.
Proof.
  intro N. induction l as [|[k' v'] r IH]; cbn.
  - destruct (k2 =? k) eqn:E; [apply Z.eqb_eq in E; congruence | reflexivity].
  - destruct (k =? k') eqn:E; cbn.
    + apply Z.eqb_eq in E; subst k'. destruct (k2 =? k) eqn:E2; [apply Z.eqb_eq in E2; congruence | reflexivity].
    + destruct (k2 =? k'); auto.
Qed.
Lemma zget_zset k k2 v l : zget k2 (zset k v l) = if k2 =? k then v else zget k2 l.
Proof.
  destruct (k2 =? k) eqn:E.
  - apply Z.eqb_eq in E; subst. apply zget_zset_same.
  - apply Z.eqb_neq in E. apply zget_zset_other; auto.
Qed.
Lemma zfind_zget k l : zget k l = match zfind k l with Some v => v | None => 0 end.
Proof. induction l as [|[k' v'] r IH]; cbn; auto. destruct (k =? k'); auto. Qed.
Lemma zget_app_new k d amt l : zfind d l = None -> zget k (l ++ [(d, amt)]) = zget k l + (if k =? d then amt else 0).
Proof.
  induction l as [|[k' v'] r IH]; cbn; intro H.
  - destruct (k =? d); lia.
  - destruct (d =? k') eqn:E; [discriminate|].
    destruct (k =? k') eqn:E2.
    + apply Z.eqb_eq in E2; subst k'. destruct (k =? d) eqn:E3; [apply Z.eqb_eq in E3; subst; rewrite Z.eqb_refl in E; discriminate | lia].
    + auto.
Qed.

Lemma aggregate_get d amt l l' k : aggregate d amt l = Ok l' -> zget k l' = zget k l + (if k =? d then amt else 0).
Proof.
  unfold aggregate. destruct (zfind d l) eqn:F.
  - intro H. inv_bind H. inversion H; subst l'. apply cadd_ok in Hb as [-> _].
    rewrite zget_zset. destruct (k =? d) eqn:E; [|lia].
    apply Z.eqb_eq in E; subst k. rewrite (zfind_zget d l), F. lia.
  - intro H; inversion H; subst. apply zget_app_new; auto.
Qed.
Lemma deduct_get d amt l l' k : deduct d amt l = Ok l' -> zget k l' = zget k l - (if k =? d then amt else 0).
Proof.
  unfold deduct. destruct (zfind d l) eqn:F; [|discriminate].
  intro H. inv_bind H. inversion H; subst l'. apply csub_ok in Hb as [-> _].
  rewrite zget_zset. destruct (k =? d) eqn:E; [|lia].
  apply Z.eqb_eq in E; subst k. rewrite (zfind_zget d l), F. lia.
Qed.

(* ---- bond sums ------------------------------------------------------------------------------- *)
Definition bamt_of (k : bkey) (l : list (bkey * bondrec)) : Z :=
  match bfind k l with Some b => b_amt b | None => 0 end.

Lemma bsum_bset d k v l :
  bsum d (bset k v l) = bsum d l + (if snd k =? d then b_amt v - bamt_of k l else 0).
Proof.
  unfold bsum, bamt_of. induction l as [|[k' v'] r IH]; cbn.
  - destruct (snd k =? d); lia.
  - destruct (bkey_eqb k k') eqn:E; cbn.
    + apply bkey_eqb_true in E; subst k'. destruct (snd k =? d); lia.
    + rewrite IH. lia.
Qed.
Lemma bsum_bdel d k l :
  bsum d (bdel k l) = bsum d l - (if snd k =? d then bamt_of k l else 0).
Proof.
  unfold bsum, bamt_of. induction l as [|[k' v'] r IH]; cbn.
  - destruct (snd k =? d); lia.
  - destruct (bkey_eqb k k') eqn:E; cbn.
    + apply bkey_eqb_true in E; subst k'. destruct (snd k =? d); lia.
    + rewrite IH. lia.
Qed.
Lemma btotal_bset k v l : btotal (bset k v l) = btotal l + (b_amt v - bamt_of k l).
Proof.
  unfold btotal, bamt_of. induction l as [|[k' v'] r IH]; cbn.
  - lia.
  - destruct (bkey_eqb k k') eqn:E; cbn; [lia | rewrite IH; lia].
Qed.
Lemma btotal_bdel k l : btotal (bdel k l) = btotal l - bamt_of k l.
Proof.
  unfold btotal, bamt_of. induction l as [|[k' v'] r IH]; cbn.
  - lia.
  - destruct (bkey_eqb k k') eqn:E; cbn; [lia | rewrite IH; lia].
Qed.

(* ---- unbonding sums -------------------------------------------------------------------------- *)
Lemma usum_uins d k amt l l' :
  uins true k amt l = Ok l' -> usum d l' = usum d l + (if udenom k =? d then amt else 0).
Proof.
  unfold usum. revert l'. induction l as [|[k' v] r IH]; cbn; intros l' H.
  - inversion H; subst; cbn. destruct (udenom k =? d); lia.
  - destruct (ukey_eqb k k') eqn:E.
    + apply ukey_eqb_true in E; subst k'. inv_bind H. inversion H; subst; cbn.
      apply cadd_ok in Hb as [-> _]. destruct (udenom k =? d); lia.
    + destruct (snd k <? snd k').
      * inversion H; subst; cbn. destruct (udenom k =? d); lia.
      * inv_bind H. inversion H; subst; cbn. rewrite (IH _ Hb). lia.
Qed.
Lemma usum_who_uins who d k amt l l' :
  uins true k amt l = Ok l' -> usum_who who d l' = usum_who who d l + (if umatch who d k then amt else 0).
Proof.
  unfold usum_who. revert l'. induction l as [|[k' v] r IH]; cbn; intros l' H.
  - inversion H; subst; cbn. destruct (umatch who d k); lia.
  - destruct (ukey_eqb k k') eqn:E.
    + apply ukey_eqb_true in E; subst k'. inv_bind H. inversion H; subst; cbn.
      apply cadd_ok in Hb as [-> _]. destruct (umatch who d k); lia.
    + destruct (snd k <? snd k').
      * inversion H; subst; cbn. destruct (umatch who d k); lia.
      * inv_bind H. inversion H; subst; cbn. rewrite (IH _ Hb). lia.
Qed.

Lemma umatch_denom who d k : umatch who d k = true -> udenom k = d.
Proof. destruct k as [[a dd] t]; cbn. rewrite andb_true_iff, !Z.eqb_eq. tauto. Qed.

Lemma usum_walk dq who d cutoff cnt l :
  usum dq l = usum dq (snd (wd_walk who d cutoff cnt l)) + (if d =? dq then fst (wd_walk who d cutoff cnt l) else 0).
Proof.
  unfold usum. revert cnt. induction l as [|e r IH]; intro cnt; cbn.
  - destruct (d =? dq); lia.
  - destruct (umatch who d (fst e)) eqn:M.
    + destruct cnt as [|c].
      * cbn. destruct (d =? dq); lia.
      * specialize (IH c). destruct (uts (fst e) <=? cutoff); cbn.
        -- apply umatch_denom in M. rewrite M. destruct (d =? dq); lia.
        -- lia.
    + specialize (IH cnt). cbn. lia.
Qed.
Lemma usum_who_walk a dq who d cutoff cnt l :
  usum_who a dq l = usum_who a dq (snd (wd_walk who d cutoff cnt l))
                    + (if (who =? a) && (d =? dq) then fst (wd_walk who d cutoff cnt l) else 0).
Proof.
  unfold usum_who. revert cnt. induction l as [|e r IH]; intro cnt; cbn.
  - destruct ((who =? a) && (d =? dq)); lia.
  - destruct (umatch who d (fst e)) eqn:M.
    + destruct cnt as [|c].
      * cbn. destruct ((who =? a) && (d =? dq)); lia.
      * specialize (IH c). destruct (uts (fst e) <=? cutoff); cbn.
        -- assert (umatch a dq (fst e) = (who =? a) && (d =? dq)) as ->.
           { destruct (fst e) as [[x y] t]; cbn in *. apply andb_true_iff in M as [M1 M2].
             apply Z.eqb_eq in M1, M2; subst. reflexivity. }
           destruct ((who =? a) && (d =? dq)); lia.
        -- lia.
    + specialize (IH cnt). cbn. lia.
Qed.

(* ---- the four differences that every accepted call preserves / moves exactly ------------------ *)
Definition excess (d : Z) (s : state) : Z := zget d (bal s) - bsum d (bonds s) - usum d (unbonds s).
Definition gdiff (s : state) : Z := g_amt s - btotal (bonds s).
Definition gadiff (d : Z) (s : state) : Z := zget d (g_assets s) - bsum d (bonds s).
Definition pending (who d : Z) (s : state) : Z := usum_who who d (unbonds s).

Section Steps.
Variable c : cfg.

Lemma bond_inv now s who native d amt funds guard s' f :
  bond_step c now s who native d amt funds guard = Ok (s', f) ->
  f = EBond who d amt /\ unbonds s' = unbonds s /\
  (forall dq, bsum dq (bonds s') = bsum dq (bonds s) + (if d =? dq then amt else 0)) /\
  btotal (bonds s') = btotal (bonds s) + amt /\
  g_amt s' = g_amt s + amt /\
  (forall dq, zget dq (g_assets s') = zget dq (g_assets s) + (if dq =? d then amt else 0)) /\
  (forall dq, zget dq (bal s') = zget dq (bal s) + (if dq =? d then amt else 0)) /\
  native = true /\ funds_ok funds d amt (c_whitelist c) = true /\ guard = false.
Proof.
  unfold bond_step. intro H.
  inv_bind H. apply ensure_ok in Hb. inv_bind H. apply ensure_ok in Hb0. inv_bind H. apply ensure_ok in Hb1.
  inv_bind H. inv_bind H. inv_bind H. inv_bind H. inv_bind H. inv_bind H. inv_bind H.
  inversion H; subst; clear H. cbn [bonds unbonds g_amt g_assets g_w g_ts bal].
  apply cadd_ok in Hb2 as [-> _]. apply cadd_ok in Hb6 as [-> _].
  repeat split; auto.
  - intro dq. rewrite bsum_bset. cbn. unfold bamt_of. destruct (bfind (who, d) (bonds s)); cbn; destruct (d =? dq); lia.
  - rewrite btotal_bset. cbn. unfold bamt_of. destruct (bfind (who, d) (bonds s)); cbn; lia.
  - intro dq. apply (aggregate_get _ _ _ _ dq Hb7).
  - intro dq. rewrite zget_zset. destruct (dq =? d) eqn:E; [apply Z.eqb_eq in E; subst|]; lia.
  - destruct guard; cbn in *; congruence.
Qed.

Lemma unbond_inv now s who native d amt guard s' f :
  unbond_step true c now s who native d amt guard = Ok (s', f) ->
  f = EUnbond who d amt /\ bal s' = bal s /\
  (forall dq, bsum dq (bonds s') = bsum dq (bonds s) - (if d =? dq then amt else 0)) /\
  btotal (bonds s') = btotal (bonds s) - amt /\
  g_amt s' = g_amt s - amt /\
  (forall dq, zget dq (g_assets s') = zget dq (g_assets s) - (if dq =? d then amt else 0)) /\
  (forall dq, usum dq (unbonds s') = usum dq (unbonds s) + (if d =? dq then amt else 0)) /\
  (forall a dq, usum_who a dq (unbonds s') = usum_who a dq (unbonds s) + (if (who =? a) && (d =? dq) then amt else 0)) /\
  uins true (who, d, now) amt (unbonds s) = Ok (unbonds s') /\
  amt <> 0 /\ amt <= bamt_of (who, d) (bonds s).
Proof.
  unfold unbond_step. intro H.
  inv_bind H. apply ensure_ok in Hb. inv_bind H. apply ensure_ok in Hb0. inv_bind H. apply ensure_ok in Hb1.
  destruct (bfind (who, d) (bonds s)) as [b|] eqn:F; [|discriminate].
  inv_bind H. apply ensure_ok in Hb2. apply Z.leb_le in Hb2.
  inv_bind H. inv_bind H. inv_bind H. inv_bind H. inv_bind H. inv_bind H. inv_bind H. inv_bind H. inv_bind H. inv_bind H.
  inversion H; subst; clear H. cbn [bonds unbonds g_amt g_assets g_w g_ts bal].
  apply csub_ok in Hb7 as [-> _]. apply csub_ok in Hb10 as [-> _].
  assert (BA : bamt_of (who, d) (bonds s) = b_amt b) by (unfold bamt_of; rewrite F; reflexivity).
  repeat split; auto.
  - intro dq. destruct (b_amt b - amt =? 0) eqn:E.
    + apply Z.eqb_eq in E. rewrite bsum_bdel. cbn. rewrite BA. destruct (d =? dq); lia.
    + rewrite bsum_bset. cbn. rewrite BA. destruct (d =? dq); lia.
  - destruct (b_amt b - amt =? 0) eqn:E.
    + apply Z.eqb_eq in E. rewrite btotal_bdel, BA. lia.
    + rewrite btotal_bset, BA. cbn. lia.
  - intro dq. apply (deduct_get _ _ _ _ dq Hb11).
  - intro dq. rewrite (usum_uins dq _ _ _ _ Hb8). cbn. reflexivity.
  - intros a dq. rewrite (usum_who_uins a dq _ _ _ _ Hb8). cbn.
    rewrite (Z.eqb_sym who a), (Z.eqb_sym d dq). reflexivity.
  - apply negb_true_iff in Hb. apply Z.eqb_neq in Hb. exact Hb.
  - lia.
Qed.

Lemma withdraw_inv now s who d s' f :
  withdraw_step c now s who d = Ok (s', f) ->
  let sr := wd_walk who d (now - c_period c) PAGE (unbonds s) in
  f = EPay who d (fst sr) /\ bonds s' = bonds s /\ g_amt s' = g_amt s /\ g_assets s' = g_assets s /\
  unbonds s' = snd sr /\ 0 < fst sr < P128 /\ c_period c <= now /\
  (forall dq, zget dq (bal s') = zget dq (bal s) - (if dq =? d then fst sr else 0)).
Proof.
  unfold withdraw_step. intro H.
  inv_bind H. inv_bind H. apply must_ok in Hb0. apply Z.leb_le in Hb0.
  inv_bind H. apply ensure_ok in Hb1. apply fits_true in Hb1.
  inv_bind H. apply ensure_ok in Hb2. apply Z.ltb_lt in Hb2.
  inv_bind H. inversion H; subst; clear H. cbn [bonds unbonds g_amt g_assets g_w g_ts bal].
  repeat split; auto; try lia.
  intro dq. rewrite zget_zset. destruct (dq =? d) eqn:E; [apply Z.eqb_eq in E; subst|]; lia.
Qed.

(* every accepted call moves the four differences exactly as its effect says *)
Lemma step_excess now s o s' f d :
  step true c now s o = Ok (s', f) -> excess d s' = excess d s + donated_of d f.
Proof.
  unfold excess. destruct o as [who native dd amt funds guard | who native dd amt guard | who dd | dd amt]; cbn [step]; intro H.
  - apply bond_inv in H as (-> & U & B & _ & _ & _ & BL & _). rewrite U, B, BL. cbn [donated_of]. zcases.
  - apply unbond_inv in H as (-> & BL & B & _ & _ & _ & U & _). rewrite BL, B, U. cbn [donated_of]. zcases.
  - apply withdraw_inv in H as (-> & B & _ & _ & U & _ & _ & BL). rewrite B, U, BL. cbn [donated_of].
    rewrite (usum_walk d who dd (now - c_period c) PAGE (unbonds s)). zcases.
  - inv_bind H. inversion H; subst; clear H. cbn [bonds unbonds g_amt g_assets g_w g_ts bal donated_of]. rewrite zget_zset. zcases.
Qed.

Lemma step_gdiff now s o s' f :
  step true c now s o = Ok (s', f) -> gdiff s' = gdiff s /\ forall d, gadiff d s' = gadiff d s.
Proof.
  unfold gdiff, gadiff. destruct o as [who native dd amt funds guard | who native dd amt guard | who dd | dd amt]; cbn [step]; intro H.
  - apply bond_inv in H as (_ & _ & B & BT & G & GA & _). split; [lia|]. intro d. rewrite GA, B. zcases.
  - apply unbond_inv in H as (_ & _ & B & BT & G & GA & _). split; [lia|]. intro d. rewrite GA, B. zcases.
  - apply withdraw_inv in H as (_ & B & G & GA & _). rewrite B, G, GA. auto.
  - inv_bind H. inversion H; subst; clear H. cbn [bonds unbonds g_amt g_assets g_w g_ts bal]. auto.
Qed.

Lemma step_pending now s o s' f who d :
  step true c now s o = Ok (s', f) ->
  pending who d s' = pending who d s + unbonded_of who d f - paid_of who d f.
Proof.
  unfold pending. destruct o as [a native dd amt funds guard | a native dd amt guard | a dd | dd amt]; cbn [step]; intro H.
  - apply bond_inv in H as (-> & U & _). rewrite U. cbn [unbonded_of paid_of]. lia.
  - apply unbond_inv in H as (-> & _ & _ & _ & _ & _ & _ & U & _). rewrite U. cbn [unbonded_of paid_of]. zcases.
  - apply withdraw_inv in H as (-> & _ & _ & _ & U & _). rewrite U. cbn [unbonded_of paid_of].
    rewrite (usum_who_walk who d a dd (now - c_period c) PAGE (unbonds s)). zcases.
  - inv_bind H. inversion H; subst; clear H. cbn [bonds unbonds g_amt g_assets g_w g_ts bal unbonded_of paid_of]. lia.
Qed.

(* ---- histories -------------------------------------------------------------------------------- *)
Lemma run_from_excess h : forall s d,
  excess d (fold_left (hstep true c) h s) = excess d s + donated_total d (effects_from true c s h).
Proof.
  induction h as [|e r IH]; intros s d; cbn [fold_left effects_from].
  - unfold donated_total; cbn. lia.
  - unfold hstep at 2. destruct (step true c (fst e) s (snd e)) as [[s' f]| |] eqn:E.
    + rewrite IH. rewrite (step_excess _ _ _ _ _ d E). unfold donated_total. cbn. lia.
    + apply IH.
    + apply IH.
Qed.

Lemma run_from_gdiff h : forall s,
  gdiff (fold_left (hstep true c) h s) = gdiff s /\ forall d, gadiff d (fold_left (hstep true c) h s) = gadiff d s.
Proof.
  induction h as [|e r IH]; intros s; cbn [fold_left].
  - auto.
  - unfold hstep at 2 4. destruct (step true c (fst e) s (snd e)) as [[s' f]| |] eqn:E; auto.
    destruct (IH s') as [A B]. destruct (step_gdiff _ _ _ _ _ E) as [A' B']. split; [lia|]. intro d. rewrite B, B'. reflexivity.
Qed.

Lemma run_from_pending h : forall s who d,
  pending who d (fold_left (hstep true c) h s) + paid_total who d (effects_from true c s h)
  = pending who d s + unbonded_total who d (effects_from true c s h).
Proof.
  induction h as [|e r IH]; intros s who d; cbn [fold_left effects_from].
  - unfold paid_total, unbonded_total; cbn. lia.
  - unfold hstep at 2. destruct (step true c (fst e) s (snd e)) as [[s' f]| |] eqn:E.
    + specialize (IH s' who d). rewrite (step_pending _ _ _ _ _ who d E) in IH.
      unfold paid_total, unbonded_total in *. cbn. lia.
    + apply IH.
    + apply IH.
Qed.

Theorem lair_conservation h d :
  let s := run true c h in
  zget d (bal s) = bsum d (bonds s) + usum d (unbonds s) + donated_total d (effects true c h).
Proof.
  cbn. pose proof (run_from_excess h init d) as H. unfold excess in H. unfold run, effects.
  cbn in H. lia.
Qed.

Theorem lair_global_eq_sum h :
  let s := run true c h in
  g_amt s = btotal (bonds s) /\ forall d, zget d (g_assets s) = bsum d (bonds s).
Proof.
  cbn. destruct (run_from_gdiff h init) as [A B]. unfold gdiff, gadiff, run in *. cbn in A, B.
  split; [lia|]. intro d. specialize (B d). lia.
Qed.

Theorem lair_unbond_accounting h who d :
  unbonded_total who d (effects true c h) = pending who d (run true c h) + paid_total who d (effects true c h).
Proof.
  pose proof (run_from_pending h init who d) as H. unfold run, effects. unfold pending in H at 2. cbn in H.
  unfold pending in *. lia.
Qed.

End Steps.

(* ---- the defect of the code before the fix (kept as regression witness) ---------------------- *)
Definition c08_cfg : cfg := mkCfg 1000 DEC [0; 1].
Definition c08_witness : list event :=
  [(100, Bond 0 true 0 10 [(0, 10)] false); (105, Unbond 0 true 0 3 false); (105, Unbond 0 true 0 4 false)].

Lemma lair_unfixed_refuted :
  let s := run false c08_cfg c08_witness in
  zget 0 (bal s) = 10 /\ bsum 0 (bonds s) = 3 /\ usum 0 (unbonds s) = 4 /\
  zget 0 (bal s) <> bsum 0 (bonds s) + usum 0 (unbonds s) + donated_total 0 (effects false c08_cfg c08_witness) /\
  unbonded_total 0 0 (effects false c08_cfg c08_witness) = 7 /\
  (let s' := run true c08_cfg c08_witness in usum 0 (unbonds s') = 7 /\ bsum 0 (bonds s') = 3 /\ zget 0 (bal s') = 10).
Proof. vm_compute. repeat split; congruence. Qed.

(* ---- what a withdraw removes ------------------------------------------------------------------- *)
Definition nmatch (who d : Z) (l : list (ukey * Z)) : nat := length (filter (fun e => umatch who d (fst e)) l).

Lemma walk_incl who d cutoff cnt l e : In e (snd (wd_walk who d cutoff cnt l)) -> In e l.
Proof.
  revert cnt. induction l as [|e0 r IH]; intro cnt; cbn; auto.
  destruct (umatch who d (fst e0)).
  - destruct cnt as [|c]; cbn; auto.
    destruct (uts (fst e0) <=? cutoff); cbn; intro H.
    + right. eapply IH; eauto.
    + destruct H; auto. right. eapply IH; eauto.
  - cbn. intros [H|H]; auto. right. eapply IH; eauto.
Qed.

Lemma walk_removed who d cutoff cnt l e :
  In e l -> ~ In e (snd (wd_walk who d cutoff cnt l)) -> umatch who d (fst e) = true /\ uts (fst e) <= cutoff.
Proof.
  revert cnt. induction l as [|e0 r IH]; intro cnt; cbn; [tauto|].
  destruct (umatch who d (fst e0)) eqn:M.
  - destruct cnt as [|c]; cbn.
    + intros H N. exfalso. apply N. exact H.
    + destruct (uts (fst e0) <=? cutoff) eqn:T; cbn; intros [H|H] N.
      * subst. apply Z.leb_le in T. auto.
      * eapply IH; eauto.
      * exfalso. apply N. auto.
      * eapply IH; eauto.
  - cbn. intros [H|H] N.
    + exfalso; apply N; auto.
    + eapply IH; eauto.
Qed.

Lemma walk_all_matured_paid who d cutoff cnt l e :
  (nmatch who d l <= cnt)%nat -> In e (snd (wd_walk who d cutoff cnt l)) -> umatch who d (fst e) = true ->
  cutoff < uts (fst e).
Proof.
  unfold nmatch. revert cnt. induction l as [|e0 r IH]; intro cnt; cbn; [tauto|].
  destruct (umatch who d (fst e0)) eqn:M; cbn.
  - destruct cnt as [|c]; [lia|]. intro L.
    destruct (uts (fst e0) <=? cutoff) eqn:T; cbn.
    + apply IH. lia.
    + intros [H|H] Me.
      * subst. apply Z.leb_gt in T. lia.
      * apply (IH c); auto. lia.
  - intros L [H|H] Me.
    + subst. congruence.
    + eapply IH; eauto.
Qed.

Lemma walk_sum_nonneg who d cutoff cnt l :
  Forall (fun e => 0 <= snd e) l -> 0 <= fst (wd_walk who d cutoff cnt l).
Proof.
  revert cnt. induction l as [|e0 r IH]; intros cnt F; cbn; [lia|]. inversion F; subst.
  destruct (umatch who d (fst e0)).
  - destruct cnt as [|c]; cbn; [lia|]. specialize (IH c H2). destruct (uts (fst e0) <=? cutoff); cbn; lia.
  - cbn. auto.
Qed.

Lemma walk_includes who d cutoff cnt l e :
  Forall (fun e => 0 <= snd e) l -> (nmatch who d l <= cnt)%nat -> In e l -> umatch who d (fst e) = true ->
  uts (fst e) <= cutoff -> snd e <= fst (wd_walk who d cutoff cnt l).
Proof.
  unfold nmatch. revert cnt. induction l as [|e0 r IH]; intros cnt F; cbn; [tauto|]. inversion F; subst.
  destruct (umatch who d (fst e0)) eqn:M; cbn.
  - destruct cnt as [|c]; [lia|]. intros L [H|H] Me T.
    + subst. apply Z.leb_le in T. rewrite T. cbn. pose proof (walk_sum_nonneg who d cutoff c r H2). lia.
    + assert (snd e <= fst (wd_walk who d cutoff c r)) by (apply (IH c); auto; lia).
      destruct (uts (fst e0) <=? cutoff); cbn; lia.
  - intros L [H|H] Me T.
    + subst. congruence.
    + eapply IH; eauto.
Qed.

Lemma usum_who_nonneg who d l : Forall (fun e => 0 <= snd e) l -> 0 <= usum_who who d l.
Proof.
  unfold usum_who. induction 1; cbn; [lia|]. destruct (umatch who d (fst x)); lia.
Qed.
Lemma usum_who_le_usum who d l : Forall (fun e => 0 <= snd e) l -> usum_who who d l <= usum d l.
Proof.
  unfold usum_who, usum. induction 1; cbn; [lia|].
  destruct (umatch who d (fst x)) eqn:M.
  - apply umatch_denom in M. rewrite M, Z.eqb_refl. lia.
  - destruct (udenom (fst x) =? d); lia.
Qed.
Lemma bsum_nonneg d l : Forall (fun e => 0 <= b_amt (snd e)) l -> 0 <= bsum d l.
Proof. unfold bsum, bkey in *. induction 1 as [|x l Hx F IH]; cbn [map sumZ]; [lia|]. cbv beta in Hx. match goal with |- context [if ?b then _ else _] => destruct b end; lia. Qed.

Lemma has_records_in who d l e : In e l -> umatch who d (fst e) = true -> has_records who d l = true.
Proof. intros I M. unfold has_records. apply existsb_exists. eauto. Qed.

Section Withdraw.
Variable c : cfg.

(* a successful withdraw: pays the caller, in the denom asked; removes only the caller's records of that denom whose
   unbonding period has elapsed; what it pays is exactly what it removes; nobody else's pending amount moves;
   and (unless the caller has more than MAX_PAGE_LIMIT records) no matured record is left behind *)
Theorem lair_withdraw_exact now s who d s' f :
  withdraw_step c now s who d = Ok (s', f) ->
  (forall e, In e (unbonds s') -> In e (unbonds s)) /\
  (forall e, In e (unbonds s) -> ~ In e (unbonds s') -> umatch who d (fst e) = true /\ uts (fst e) + c_period c <= now) /\
  ((nmatch who d (unbonds s) <= PAGE)%nat ->
     forall e, In e (unbonds s') -> umatch who d (fst e) = true -> now < uts (fst e) + c_period c) /\
  exists x, f = EPay who d x /\ 0 < x /\ x = pending who d s - pending who d s' /\
    (forall a dq, (a =? who) && (dq =? d) = false -> pending a dq s' = pending a dq s) /\
    bonds s' = bonds s.
Proof.
  intro H. apply withdraw_inv in H. cbn zeta in H. destruct H as (-> & B & _ & _ & U & P & _ & _).
  rewrite U. repeat split.
  - intros e. apply walk_incl.
  - eapply walk_removed; eauto.
  - pose proof (walk_removed who d (now - c_period c) PAGE (unbonds s) e H H0). lia.
  - intros L e I M. pose proof (walk_all_matured_paid who d (now - c_period c) PAGE (unbonds s) e L I M). lia.
  - eexists. split; [reflexivity|]. split; [lia|]. split.
    + unfold pending. rewrite U.
      rewrite (usum_who_walk who d who d (now - c_period c) PAGE (unbonds s)). rewrite !Z.eqb_refl. cbn. lia.
    + split; auto. intros a dq N. unfold pending. rewrite U.
      rewrite (usum_who_walk a dq who d (now - c_period c) PAGE (unbonds s)).
      rewrite (Z.eqb_sym who a), (Z.eqb_sym d dq), N. lia.
Qed.

(* good states: what every reachable state of a well-formed history satisfies *)
Definition Good (s : state) : Prop :=
  Forall (fun e => 0 < snd e /\ 0 <= uts (fst e)) (unbonds s) /\
  Forall (fun e => 0 <= b_amt (snd e)) (bonds s) /\
  forall d, 0 <= excess d s.

(* a matured record among the caller's first MAX_PAGE_LIMIT records is always withdrawable: no guard, no owner check
   other than the key, nothing that can reject (the sum fits whenever the caller's pending total does) *)
Theorem lair_withdraw_live now s who d e :
  Good s -> In e (unbonds s) -> umatch who d (fst e) = true -> uts (fst e) + c_period c <= now -> 0 <= c_period c ->
  (nmatch who d (unbonds s) <= PAGE)%nat -> pending who d s < P128 ->
  exists s' x, withdraw_step c now s who d = Ok (s', EPay who d x) /\ snd e <= x.
Proof.
  intros (GU & GB & GE) I M T PP L F.
  assert (NN : Forall (fun e => 0 <= snd e) (unbonds s)).
  { eapply Forall_impl; [|exact GU]. cbn. intros a [A _]. lia. }
  assert (TS : 0 <= uts (fst e)).
  { rewrite Forall_forall in GU. destruct (GU e I). auto. }
  unfold withdraw_step.
  rewrite (has_records_in who d _ e I M). cbn [ensure bind].
  assert (Hp : (c_period c <=? now) = true) by (apply Z.leb_le; lia). rewrite Hp. cbn [must bind].
  set (sr := wd_walk who d (now - c_period c) PAGE (unbonds s)).
  assert (Hin : snd e <= fst sr) by (apply walk_includes; auto; lia).
  assert (Hpos : 0 < snd e) by (rewrite Forall_forall in GU; destruct (GU e I); auto).
  assert (Hle : fst sr <= pending who d s).
  { unfold pending. rewrite (usum_who_walk who d who d (now - c_period c) PAGE (unbonds s)). rewrite !Z.eqb_refl. cbn [andb].
    fold sr. assert (0 <= usum_who who d (snd sr)).
    { apply usum_who_nonneg. rewrite Forall_forall in *. intros a Ia. apply NN. eapply walk_incl; eauto. }
    lia. }
  assert (Hf : fits128 (fst sr) = true) by (apply fits_intro; lia). rewrite Hf. cbn [ensure bind].
  assert (Hz : (0 <? fst sr) = true) by (apply Z.ltb_lt; lia). rewrite Hz. cbn [ensure bind].
  assert (Hb : (fst sr <=? zget d (bal s)) = true).
  { apply Z.leb_le. specialize (GE d). unfold excess in GE.
    pose proof (bsum_nonneg d (bonds s) GB). pose proof (usum_who_le_usum who d (unbonds s) NN). unfold pending in Hle. lia. }
  rewrite Hb. cbn [ensure bind]. eexists. eexists. split; [reflexivity|]. exact Hin.
Qed.

End Withdraw.

(* ---- Good is an invariant of well-formed histories; only whitelisted native denoms are ever held ---- *)
Definition wf_event (e : event) : Prop :=
  0 <= fst e /\ match snd e with Unbond _ _ _ amt _ => 0 <= amt | _ => True end.

Lemma bfind_in k l b : bfind k l = Some b -> In (k, b) l.
Proof.
  induction l as [|[k' v] r IH]; cbn; [discriminate|].
  destruct (bkey_eqb k k') eqn:E.
  - apply bkey_eqb_true in E; subst. intro H; inversion H; subst. auto.
  - auto.
Qed.
Lemma Forall_bset (P : bkey * bondrec -> Prop) k v l :
  Forall P l -> P (k, v) -> Forall P (bset k v l).
Proof.
  intros F Pk. induction F as [|[k' v'] r Px F IH]; cbn; [constructor; auto|].
  destruct (bkey_eqb k k') eqn:E.
  - apply bkey_eqb_true in E; subst. constructor; auto.
  - constructor; auto.
Qed.
Lemma Forall_bdel (P : bkey * bondrec -> Prop) k l : Forall P l -> Forall P (bdel k l).
Proof.
  intros F. induction F as [|[k' v'] r Px F IH]; cbn; [constructor|].
  destruct (bkey_eqb k k'); auto.
Qed.
Lemma Forall_uins (P : ukey * Z -> Prop) k amt l l' :
  uins true k amt l = Ok l' -> Forall P l -> P (k, amt) -> (forall v, P (k, v) -> P (k, v + amt)) -> Forall P l'.
Proof.
  revert l'. induction l as [|[k' v] r IH]; cbn; intros l' H F Pk Pacc.
  - inversion H; subst. constructor; auto.
  - inversion F; subst. destruct (ukey_eqb k k') eqn:E.
    + apply ukey_eqb_true in E; subst k'. inv_bind H. inversion H; subst. apply cadd_ok in Hb as [-> _].
      constructor; auto.
    + destruct (snd k <? snd k').
      * inversion H; subst. constructor; auto.
      * inv_bind H. inversion H; subst. constructor; auto.
Qed.
Lemma Forall_walk (P : ukey * Z -> Prop) who d cutoff cnt l : Forall P l -> Forall P (snd (wd_walk who d cutoff cnt l)).
Proof.
  intro F. rewrite Forall_forall in *. intros e I. apply F. eapply walk_incl; eauto.
Qed.

Section Reach.
Variable c : cfg.

Lemma good_step now s o s' f :
  Good s -> wf_event (now, o) -> step true c now s o = Ok (s', f) -> Good s'.
Proof.
  intros (GU & GB & GE) [Wn Wo] H. cbn in Wn, Wo.
  assert (EX : forall d, 0 <= excess d s').
  { intro d. rewrite (step_excess c _ _ _ _ _ d H).
    assert (0 <= donated_of d f).
    { destruct o; cbn [step] in H.
      - apply bond_inv in H as (-> & _). cbn. lia.
      - apply unbond_inv in H as (-> & _). cbn. lia.
      - apply withdraw_inv in H as (-> & _). cbn. lia.
      - inv_bind H. apply ensure_ok in Hb. apply Z.ltb_lt in Hb. inversion H; subst. cbn. destruct (denom =? d); lia. }
    specialize (GE d). lia. }
  split; [|split]; auto.
  - destruct o as [who native dd amt funds guard | who native dd amt guard | who dd | dd amt]; cbn [step] in H.
    + apply bond_inv in H as (_ & U & _). rewrite U. auto.
    + apply unbond_inv in H as (_ & _ & _ & _ & _ & _ & _ & _ & UI & NZ & _).
      eapply Forall_uins; eauto; cbn.
      * split; lia.
      * intros v [A B]. split; lia.
    + apply withdraw_inv in H. cbn zeta in H. destruct H as (_ & _ & _ & _ & U & _). rewrite U. apply Forall_walk; auto.
    + inv_bind H. inversion H; subst. auto.
  - destruct o as [who native dd amt funds guard | who native dd amt guard | who dd | dd amt]; cbn [step] in H.
    + unfold bond_step in H.
      inv_bind H. inv_bind H. inv_bind H. inv_bind H. inv_bind H. inv_bind H. inv_bind H. inv_bind H. inv_bind H. inv_bind H.
      inversion H; subst; clear H. cbn [bonds]. apply Forall_bset; auto. cbn. apply cadd_ok in Hb2. lia.
    + unfold unbond_step in H.
      inv_bind H. inv_bind H. inv_bind H.
      destruct (bfind (who, dd) (bonds s)) as [b|] eqn:Fb; [|discriminate].
      inv_bind H. inv_bind H. inv_bind H. inv_bind H. inv_bind H. inv_bind H. inv_bind H. inv_bind H. inv_bind H. inv_bind H. inv_bind H.
      inversion H; subst; clear H. cbn [bonds]. apply csub_ok in Hb7.
      destruct (x7 =? 0); [apply Forall_bdel; auto | apply Forall_bset; auto; cbn; lia].
    + apply withdraw_inv in H. cbn zeta in H. destruct H as (_ & B & _). rewrite B. auto.
    + inv_bind H. inversion H; subst. auto.
Qed.

Lemma good_init : Good init.
Proof. unfold Good, init, excess; cbn. repeat split; auto. intro d. unfold bsum, usum; cbn. lia. Qed.

Lemma good_run_from h : forall s, Good s -> Forall wf_event h -> Good (fold_left (hstep true c) h s).
Proof.
  induction h as [|e r IH]; intros s G W; cbn [fold_left]; auto.
  inversion W; subst. apply IH; auto.
  unfold hstep. destruct (step true c (fst e) s (snd e)) as [[s' f]| |] eqn:E; auto.
  eapply good_step; eauto; destruct e; auto.
Qed.

Theorem lair_good_reachable h : Forall wf_event h -> Good (run true c h).
Proof. intro W. apply good_run_from; auto. apply good_init. Qed.

(* only whitelisted native assets can be bonded *)
Lemma funds_ok_inv funds d amt wl : funds_ok funds d amt wl = true -> funds = [(d, amt)] /\ amt <> 0 /\ In d wl.
Proof.
  unfold funds_ok. destruct funds as [|[fd fa] [|x r]]; try discriminate.
  rewrite !andb_true_iff, negb_true_iff, !Z.eqb_eq, Z.eqb_neq. intros [[[A B] C] E]. subst.
  repeat split; auto. apply existsb_exists in E as [y [I Y]]. apply Z.eqb_eq in Y. subst. auto.
Qed.

Theorem lair_bond_only_whitelisted now s who native d amt funds guard s' f :
  step true c now s (Bond who native d amt funds guard) = Ok (s', f) ->
  native = true /\ In d (c_whitelist c) /\ funds = [(d, amt)] /\ amt <> 0 /\ guard = false.
Proof.
  cbn [step]. intro H. apply bond_inv in H as (_ & _ & _ & _ & _ & _ & _ & N & FO & G).
  apply funds_ok_inv in FO as (A & B & C). auto.
Qed.

Definition Listed (s : state) : Prop :=
  Forall (fun e => In (snd (fst e)) (c_whitelist c)) (bonds s) /\
  Forall (fun e => In (udenom (fst e)) (c_whitelist c)) (unbonds s).

Lemma listed_step now s o s' f : Listed s -> step true c now s o = Ok (s', f) -> Listed s'.
Proof.
  intros [LB LU] H. unfold Listed.
  destruct o as [who native dd amt funds guard | who native dd amt guard | who dd | dd amt]; cbn [step] in H.
  - pose proof H as H0. apply bond_inv in H0 as (_ & U & _ & _ & _ & _ & _ & _ & FO & _).
    apply funds_ok_inv in FO as (_ & _ & W). split; [|rewrite U; auto].
    unfold bond_step in H.
    inv_bind H. inv_bind H. inv_bind H. inv_bind H. inv_bind H. inv_bind H. inv_bind H. inv_bind H. inv_bind H. inv_bind H.
    inversion H; subst; clear H. cbn [bonds]. apply Forall_bset; auto.
  - pose proof H as H0. apply unbond_inv in H0 as (_ & _ & _ & _ & _ & _ & _ & _ & UI & _).
    unfold unbond_step in H.
    inv_bind H. inv_bind H. inv_bind H.
    destruct (bfind (who, dd) (bonds s)) as [b|] eqn:Fb; [|discriminate].
    assert (W : In dd (c_whitelist c)).
    { apply bfind_in in Fb. rewrite Forall_forall in LB. apply (LB _ Fb). }
    inv_bind H. inv_bind H. inv_bind H. inv_bind H. inv_bind H. inv_bind H. inv_bind H. inv_bind H. inv_bind H. inv_bind H. inv_bind H.
    inversion H; subst; clear H. cbn [bonds unbonds]. split.
    + destruct (x7 =? 0); [apply Forall_bdel; auto | apply Forall_bset; auto].
    + eapply Forall_uins; eauto.
  - apply withdraw_inv in H. cbn zeta in H. destruct H as (_ & B & _ & _ & U & _). rewrite B, U. split; auto. apply Forall_walk; auto.
  - inv_bind H. inversion H; subst. split; auto.
Qed.

Theorem lair_only_whitelisted_held h : Listed (run true c h).
Proof.
  unfold run. assert (G : Listed init) by (split; constructor).
  revert G. generalize init. induction h as [|e r IH]; intros s G; cbn [fold_left]; auto.
  apply IH. unfold hstep. destruct (step true c (fst e) s (snd e)) as [[s' f]| |] eqn:E; auto.
  eapply listed_step; eauto.
Qed.

End Reach.

(* without donations the conservation identity is the plain one of the property *)
Definition no_donations (h : list event) : bool :=
  forallb (fun e => match snd e with Donate _ _ => false | _ => true end) h.

Lemma donated_zero_from c h : forall s d, no_donations h = true -> donated_total d (effects_from true c s h) = 0.
Proof.
  induction h as [|e r IH]; intros s d N; cbn [effects_from]; [reflexivity|].
  cbn in N. apply andb_true_iff in N as [N1 N2].
  destruct (step true c (fst e) s (snd e)) as [[s' f]| |] eqn:E; auto.
  unfold donated_total. cbn [map sumZ]. fold (donated_total d (effects_from true c s' r)). rewrite IH by auto.
  destruct (snd e) as [who native dd amt funds guard | who native dd amt guard | who dd | dd amt]; cbn [step] in E.
  - apply bond_inv in E as (-> & _). reflexivity.
  - apply unbond_inv in E as (-> & _). reflexivity.
  - apply withdraw_inv in E as (-> & _). reflexivity.
  - discriminate.
Qed.

Theorem lair_conservation_plain c h d :
  no_donations h = true ->
  let s := run true c h in zget d (bal s) = bsum d (bonds s) + usum d (unbonds s).
Proof.
  intro N. cbn. pose proof (lair_conservation c h d) as H. cbn in H. rewrite H.
  unfold effects. rewrite donated_zero_from by auto. lia.
Qed.
