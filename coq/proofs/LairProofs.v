(* LairProofs.v — invariants of the whale_lair model (Lair.v): conservation, global index = sum of bonds,
   unbonding accounting, withdraw pays matured records only / all of them, whitelist. *)
From WW Require Import Prim Params Lair.
From WW.Proofs Require Import ArithLemmas.

Local Open Scope Z_scope.

(* ---- outcome monad inversion --------------------------------------------------------------- *)
Lemma bind_ok {A B} (m : outcome A) (f : A -> outcome B) b :
  bind m f = Ok b -> exists a, m = Ok a /\ f a = Ok b.
Proof. destruct m; cbn; intro H; try discriminate. eauto. Qed.
Lemma ensure_ok b c u : ensure b c = Ok u -> b = true.
Proof. destruct b; cbn; congruence. Qed.
Lemma must_ok b u : must b = Ok u -> b = true.
Proof. destruct b; cbn; congruence. Qed.
Lemma cadd_ok w a b r : cadd w a b = Ok r -> r = a + b /\ 0 <= a + b < w.
Proof. unfold cadd. destruct (fits w (a + b)) eqn:E; intro H; inversion H. apply fits_true in E. lia. Qed.
Lemma csub_ok a b r : csub a b = Ok r -> r = a - b /\ b <= a.
Proof. unfold csub. destruct (b <=? a) eqn:E; intro H; inversion H. apply Z.leb_le in E. lia. Qed.

Ltac zcases := repeat match goal with |- context [Z.eqb ?a ?b] => destruct (Z.eqb_spec a b) end; cbn [andb]; try subst; lia.

Ltac inv_bind H :=
  let a := fresh "x" in let H1 := fresh "Hb" in
  apply bind_ok in H; destruct H as [a [H1 H]].

(* ---- keys ----------------------------------------------------------------------------------- *)
Lemma bkey_eqb_true a b : bkey_eqb a b = true -> a = b.
Proof.
  destruct a, b; unfold bkey_eqb; cbn. rewrite andb_true_iff, !Z.eqb_eq. intros [-> ->]; reflexivity.
Qed.
Lemma bkey_eqb_refl a : bkey_eqb a a = true.
Proof. destruct a; unfold bkey_eqb; cbn. rewrite !Z.eqb_refl. reflexivity. Qed.
Lemma ukey_eqb_true a b : ukey_eqb a b = true -> a = b.
Proof.
  destruct a as [[a1 a2] a3], b as [[b1 b2] b3]; cbn. rewrite !andb_true_iff, !Z.eqb_eq.
  intros [[-> ->] ->]; reflexivity.
Qed.

(* ---- integer maps ---------------------------------------------------------------------------- *)
Lemma zget_zset_same k v l : zget k (zset k v l) = v.
Proof.
  induction l as [|[k' v'] r IH]; cbn.
  - rewrite Z.eqb_refl. reflexivity.
  - destruct (k =? k') eqn:E; cbn; rewrite E; auto.
Qed.
Lemma zget_zset_other k k2 v l : k2 <> k -> zget k2 (zset k v l) = zget k2 l.
Proof.
  intro N. induction l as [|[k' v'] r IH]; cbn.
  - destruct (k2 =? k) eqn:E; [apply Z.eqb_eq in E; congruence | reflexivity].
  - destruct (k =? k') eqn:E; cbn.
    + apply Z.eqb_eq in E; subst k'. destruct (k2 =? k) eqn:E2; [apply Z.eqb_eq in E2; congruence | reflexivity].
    + destruct (k2 =? k'); auto.
Qed.
Lemma zget_zset k k2 v l : zget k2 (zset k v l) = if k2 =? k then v else zget k2 l.
Proof.
  destruct (k2 =? k) eqn:E.
  - apply Z.eqb_eq in E; subst. apply zget_zset_same.
  - apply Z.eqb_neq in E. apply zget_zset_other; auto.
Qed.
Lemma zfind_zget k l : zget k l = match zfind k l with Some v => v | None => 0 end.
Proof. induction l as [|[k' v'] r IH]; cbn; auto. destruct (k =? k'); auto. Qed.
Lemma zget_app_new k d amt l : zfind d l = None -> zget k (l ++ [(d, amt)]) = zget k l + (if k =? d then amt else 0).
Proof.
  induction l as [|[k' v'] r IH]; cbn; intro H.
  - destruct (k =? d); lia.
  - destruct (d =? k') eqn:E; [discriminate|].
    destruct (k =? k') eqn:E2.
    + apply Z.eqb_eq in E2; subst k'. destruct (k =? d) eqn:E3; [apply Z.eqb_eq in E3; subst; rewrite Z.eqb_refl in E; discriminate | lia].
    + auto.
Qed.

Lemma aggregate_get d amt l l' k : aggregate d amt l = Ok l' -> zget k l' = zget k l + (if k =? d then amt else 0).
Proof.
  unfold aggregate. destruct (zfind d l) eqn:F.
  - intro H. inv_bind H. inversion H; subst l'. apply cadd_ok in Hb as [-> _].
    rewrite zget_zset. destruct (k =? d) eqn:E; [|lia].
    apply Z.eqb_eq in E; subst k. rewrite (zfind_zget d l), F. lia.
  - intro H; inversion H; subst. apply zget_app_new; auto.
Qed.
Lemma deduct_get d amt l l' k : deduct d amt l = Ok l' -> zget k l' = zget k l - (if k =? d then amt else 0).
Proof.
  unfold deduct. destruct (zfind d l) eqn:F; [|discriminate].
  intro H. inv_bind H. inversion H; subst l'. apply csub_ok in Hb as [-> _].
  rewrite zget_zset. destruct (k =? d) eqn:E; [|lia].
  apply Z.eqb_eq in E; subst k. rewrite (zfind_zget d l), F. lia.
Qed.

(* ---- bond sums ------------------------------------------------------------------------------- *)
Definition bamt_of (k : bkey) (l : list (bkey * bondrec)) : Z :=
  match bfind k l with Some b => b_amt b | None => 0 end.

Lemma bsum_bset d k v l :
  bsum d (bset k v l) = bsum d l + (if snd k =? d then b_amt v - bamt_of k l else 0).
Proof.
  unfold bsum, bamt_of. induction l as [|[k' v'] r IH]; cbn.
  - destruct (snd k =? d); lia.
  - destruct (bkey_eqb k k') eqn:E; cbn.
    + apply bkey_eqb_true in E; subst k'. destruct (snd k =? d); lia.
    + rewrite IH. lia.
Qed.
Lemma bsum_bdel d k l :
  bsum d (bdel k l) = bsum d l - (if snd k =? d then bamt_of k l else 0).
Proof.
  unfold bsum, bamt_of. induction l as [|[k' v'] r IH]; cbn.
  - destruct (snd k =? d); lia.
  - destruct (bkey_eqb k k') eqn:E; cbn.
    + apply bkey_eqb_true in E; subst k'. destruct (snd k =? d); lia.
    + rewrite IH. lia.
Qed.
Lemma btotal_bset k v l : btotal (bset k v l) = btotal l + (b_amt v - bamt_of k l).
Proof.
  unfold btotal, bamt_of. induction l as [|[k' v'] r IH]; cbn.
  - lia.
  - destruct (bkey_eqb k k') eqn:E; cbn; [lia | rewrite IH; lia].
Qed.
Lemma btotal_bdel k l : btotal (bdel k l) = btotal l - bamt_of k l.
Proof.
  unfold btotal, bamt_of. induction l as [|[k' v'] r IH]; cbn.
  - lia.
  - destruct (bkey_eqb k k') eqn:E; cbn; [lia | rewrite IH; lia].
Qed.

(* ---- unbonding sums -------------------------------------------------------------------------- *)
Lemma usum_uins d k amt l l' :
  uins true k amt l = Ok l' -> usum d l' = usum d l + (if udenom k =? d then amt else 0).
Proof.
  unfold usum. revert l'. induction l as [|[k' v] r IH]; cbn; intros l' H.
  - inversion H; subst; cbn. destruct (udenom k =? d); lia.
  - destruct (ukey_eqb k k') eqn:E.
    + apply ukey_eqb_true in E; subst k'. inv_bind H. inversion H; subst; cbn.
      apply cadd_ok in Hb as [-> _]. destruct (udenom k =? d); lia.
    + destruct (snd k <? snd k').
      * inversion H; subst; cbn. destruct (udenom k =? d); lia.
      * inv_bind H. inversion H; subst; cbn. rewrite (IH _ Hb). lia.
Qed.
Lemma usum_who_uins who d k amt l l' :
  uins true k amt l = Ok l' -> usum_who who d l' = usum_who who d l + (if umatch who d k then amt else 0).
Proof.
  unfold usum_who. revert l'. induction l as [|[k' v] r IH]; cbn; intros l' H.
  - inversion H; subst; cbn. destruct (umatch who d k); lia.
  - destruct (ukey_eqb k k') eqn:E.
    + apply ukey_eqb_true in E; subst k'. inv_bind H. inversion H; subst; cbn.
      apply cadd_ok in Hb as [-> _]. destruct (umatch who d k); lia.
    + destruct (snd k <? snd k').
      * inversion H; subst; cbn. destruct (umatch who d k); lia.
      * inv_bind H. inversion H; subst; cbn. rewrite (IH _ Hb). lia.
Qed.

Lemma umatch_denom who d k : umatch who d k = true -> udenom k = d.
Proof. destruct k as [[a dd] t]; cbn. rewrite andb_true_iff, !Z.eqb_eq. tauto. Qed.

Lemma usum_walk dq who d cutoff cnt l :
  usum dq l = usum dq (snd (wd_walk who d cutoff cnt l)) + (if d =? dq then fst (wd_walk who d cutoff cnt l) else 0).
Proof.
  unfold usum. revert cnt. induction l as [|e r IH]; intro cnt; cbn.
  - destruct (d =? dq); lia.
  - destruct (umatch who d (fst e)) eqn:M.
    + destruct cnt as [|c].
      * cbn. destruct (d =? dq); lia.
      * specialize (IH c). destruct (uts (fst e) <=? cutoff); cbn.
        -- apply umatch_denom in M. rewrite M. destruct (d =? dq); lia.
        -- lia.
    + specialize (IH cnt). cbn. lia.
Qed.
Lemma usum_who_walk a dq who d cutoff cnt l :
  usum_who a dq l = usum_who a dq (snd (wd_walk who d cutoff cnt l))
                    + (if (who =? a) && (d =? dq) then fst (wd_walk who d cutoff cnt l) else 0).
Proof.
  unfold usum_who. revert cnt. induction l as [|e r IH]; intro cnt; cbn.
  - destruct ((who =? a) && (d =? dq)); lia.
  - destruct (umatch who d (fst e)) eqn:M.
    + destruct cnt as [|c].
      * cbn. destruct ((who =? a) && (d =? dq)); lia.
      * specialize (IH c). destruct (uts (fst e) <=? cutoff); cbn.
        -- assert (umatch a dq (fst e) = (who =? a) && (d =? dq)) as ->.
           { destruct (fst e) as [[x y] t]; cbn in *. apply andb_true_iff in M as [M1 M2].
             apply Z.eqb_eq in M1, M2; subst. reflexivity. }
           destruct ((who =? a) && (d =? dq)); lia.
        -- lia.
    + specialize (IH cnt). cbn. lia.
Qed.

(* ---- the four differences that every accepted call preserves / moves exactly ------------------ *)
Definition excess (d : Z) (s : state) : Z := zget d (bal s) - bsum d (bonds s) - usum d (unbonds s).
Definition gdiff (s : state) : Z := g_amt s - btotal (bonds s).
Definition gadiff (d : Z) (s : state) : Z := zget d (g_assets s) - bsum d (bonds s).
Definition pending (who d : Z) (s : state) : Z := usum_who who d (unbonds s).

Section Steps.
Variable c : cfg.

Lemma bond_inv now s who native d amt funds guard s' f :
  bond_step c now s who native d amt funds guard = Ok (s', f) ->
  f = EBond who d amt /\ unbonds s' = unbonds s /\
  (forall dq, bsum dq (bonds s') = bsum dq (bonds s) + (if d =? dq then amt else 0)) /\
  btotal (bonds s') = btotal (bonds s) + amt /\
  g_amt s' = g_amt s + amt /\
  (forall dq, zget dq (g_assets s') = zget dq (g_assets s) + (if dq =? d then amt else 0)) /\
  (forall dq, zget dq (bal s') = zget dq (bal s) + (if dq =? d then amt else 0)) /\
  native = true /\ funds_ok funds d amt (c_whitelist c) = true /\ guard = false.
Proof.
  unfold bond_step. intro H.
  inv_bind H. apply ensure_ok in Hb. inv_bind H. apply ensure_ok in Hb0. inv_bind H. apply ensure_ok in Hb1.
  inv_bind H. inv_bind H. inv_bind H. inv_bind H. inv_bind H. inv_bind H. inv_bind H.
  inversion H; subst; clear H. cbn [bonds unbonds g_amt g_assets g_w g_ts bal].
  apply cadd_ok in Hb2 as [-> _]. apply cadd_ok in Hb6 as [-> _].
  repeat split; auto.
  - intro dq. rewrite bsum_bset. cbn. unfold bamt_of. destruct (bfind (who, d) (bonds s)); cbn; destruct (d =? dq); lia.
  - rewrite btotal_bset. cbn. unfold bamt_of. destruct (bfind (who, d) (bonds s)); cbn; lia.
  - intro dq. apply (aggregate_get _ _ _ _ dq Hb7).
  - intro dq. rewrite zget_zset. destruct (dq =? d) eqn:E; [apply Z.eqb_eq in E; subst|]; lia.
  - destruct guard; cbn in *; congruence.
Qed.

Lemma unbond_inv now s who native d amt guard s' f :
  unbond_step true c now s who native d amt guard = Ok (s', f) ->
  f = EUnbond who d amt /\ bal s' = bal s /\
  (forall dq, bsum dq (bonds s') = bsum dq (bonds s) - (if d =? dq then amt else 0)) /\
  btotal (bonds s') = btotal (bonds s) - amt /\
  g_amt s' = g_amt s - amt /\
  (forall dq, zget dq (g_assets s') = zget dq (g_assets s) - (if dq =? d then amt else 0)) /\
  (forall dq, usum dq (unbonds s') = usum dq (unbonds s) + (if d =? dq then amt else 0)) /\
  (forall a dq, usum_who a dq (unbonds s') = usum_who a dq (unbonds s) + (if (who =? a) && (d =? dq) then amt else 0)) /\
  uins true (who, d, now) amt (unbonds s) = Ok (unbonds s') /\
  amt <> 0 /\ amt <= bamt_of (who, d) (bonds s).
Proof.
  unfold unbond_step. intro H.
  inv_bind H. apply ensure_ok in Hb. inv_bind H. apply ensure_ok in Hb0. inv_bind H. apply ensure_ok in Hb1.
  destruct (bfind (who, d) (bonds s)) as [b|] eqn:F; [|discriminate].
  inv_bind H. apply ensure_ok in Hb2. apply Z.leb_le in Hb2.
  inv_bind H. inv_bind H. inv_bind H. inv_bind H. inv_bind H. inv_bind H. inv_bind H. inv_bind H. inv_bind H. inv_bind H.
  inversion H; subst; clear H. cbn [bonds unbonds g_amt g_assets g_w g_ts bal].
  apply csub_ok in Hb7 as [-> _]. apply csub_ok in Hb10 as [-> _].
  assert (BA : bamt_of (who, d) (bonds s) = b_amt b) by (unfold bamt_of; rewrite F; reflexivity).
  repeat split; auto.
  - intro dq. destruct (b_amt b - amt =? 0) eqn:E.
    + apply Z.eqb_eq in E. rewrite bsum_bdel. cbn. rewrite BA. destruct (d =? dq); lia.
    + rewrite bsum_bset. cbn. rewrite BA. destruct (d =? dq); lia.
  - destruct (b_amt b - amt =? 0) eqn:E.
    + apply Z.eqb_eq in E. rewrite btotal_bdel, BA. lia.
    + rewrite btotal_bset, BA. cbn. lia.
  - intro dq. apply (deduct_get _ _ _ _ dq Hb11).
  - intro dq. rewrite (usum_uins dq _ _ _ _ Hb8). cbn. reflexivity.
  - intros a dq. rewrite (usum_who_uins a dq _ _ _ _ Hb8). cbn.
    rewrite (Z.eqb_sym who a), (Z.eqb_sym d dq). reflexivity.
  - apply negb_true_iff in Hb. apply Z.eqb_neq in Hb. exact Hb.
  - lia.
Qed.

Lemma withdraw_inv now s who d s' f :
  withdraw_step c now s who d = Ok (s', f) ->
  let sr := wd_walk who d (now - c_period c) PAGE (unbonds s) in
  f = EPay who d (fst sr) /\ bonds s' = bonds s /\ g_amt s' = g_amt s /\ g_assets s' = g_assets s /\
  unbonds s' = snd sr /\ 0 < fst sr < P128 /\ c_period c <= now /\
  (forall dq, zget dq (bal s') = zget dq (bal s) - (if dq =? d then fst sr else 0)).
Proof.
  unfold withdraw_step. intro H.
  inv_bind H. inv_bind H. apply must_ok in Hb0. apply Z.leb_le in Hb0.
  inv_bind H. apply ensure_ok in Hb1. apply fits_true in Hb1.
  inv_bind H. apply ensure_ok in Hb2. apply Z.ltb_lt in Hb2.
  inv_bind H. inversion H; subst; clear H. cbn [bonds unbonds g_amt g_assets g_w g_ts bal].
  repeat split; auto; try lia.
  intro dq. rewrite zget_zset. destruct (dq =? d) eqn:E; [apply Z.eqb_eq in E; subst|]; lia.
Qed.

(* every accepted call moves the four differences exactly as its effect says *)
Lemma step_excess now s o s' f d :
  step true c now s o = Ok (s', f) -> excess d s' = excess d s + donated_of d f.
Proof.
  unfold excess. destruct o as [who native dd amt funds guard | who native dd amt guard | who dd | dd amt]; cbn [step]; intro H.
  - apply bond_inv in H as (-> & U & B & _ & _ & _ & BL & _). rewrite U, B, BL. cbn [donated_of]. zcases.
  - apply unbond_inv in H as (-> & BL & B & _ & _ & _ & U & _). rewrite BL, B, U. cbn [donated_of]. zcases.
  - apply withdraw_inv in H as (-> & B & _ & _ & U & _ & _ & BL). rewrite B, U, BL. cbn [donated_of].
    rewrite (usum_walk d who dd (now - c_period c) PAGE (unbonds s)). zcases.
  - inv_bind H. inversion H; subst; clear H. cbn [bonds unbonds g_amt g_assets g_w g_ts bal donated_of]. rewrite zget_zset. zcases.
Qed.

Lemma step_gdiff now s o s' f :
  step true c now s o = Ok (s', f) -> gdiff s' = gdiff s /\ forall d, gadiff d s' = gadiff d s.
Proof.
  unfold gdiff, gadiff. destruct o as [who native dd amt funds guard | who native dd amt guard | who dd | dd amt]; cbn [step]; intro H.
  - apply bond_inv in H as (_ & _ & B & BT & G & GA & _). split; [lia|]. intro d. rewrite GA, B. zcases.
  - apply unbond_inv in H as (_ & _ & B & BT & G & GA & _). split; [lia|]. intro d. rewrite GA, B. zcases.
  - apply withdraw_inv in H as (_ & B & G & GA & _). rewrite B, G, GA. auto.
  - inv_bind H. inversion H; subst; clear H. cbn [bonds unbonds g_amt g_assets g_w g_ts bal]. auto.
Qed.

Lemma step_pending now s o s' f who d :
  step true c now s o = Ok (s', f) ->
  pending who d s' = pending who d s + unbonded_of who d f - paid_of who d f.
Proof.
  unfold pending. destruct o as [a native dd amt funds guard | a native dd amt guard | a dd | dd amt]; cbn [step]; intro H.
  - apply bond_inv in H as (-> & U & _). rewrite U. cbn [unbonded_of paid_of]. lia.
  - apply unbond_inv in H as (-> & _ & _ & _ & _ & _ & _ & U & _). rewrite U. cbn [unbonded_of paid_of]. zcases.
  - apply withdraw_inv in H as (-> & _ & _ & _ & U & _). rewrite U. cbn [unbonded_of paid_of].
    rewrite (usum_who_walk who d a dd (now - c_period c) PAGE (unbonds s)). zcases.
  - inv_bind H. inversion H; subst; clear H. cbn [bonds unbonds g_amt g_assets g_w g_ts bal unbonded_of paid_of]. lia.
Qed.

(* ---- histories -------------------------------------------------------------------------------- *)
Lemma run_from_excess h : forall s d,
  excess d (fold_left (hstep true c) h s) = excess d s + donated_total d (effects_from true c s h).
Proof.
  induction h as [|e r IH]; intros s d; cbn [fold_left effects_from].
  - unfold donated_total; cbn. lia.
  - unfold hstep at 2. destruct (step true c (fst e) s (snd e)) as [[s' f]| |] eqn:E.
    + rewrite IH. rewrite (step_excess _ _ _ _ _ d E). unfold donated_total. cbn. lia.
    + apply IH.
    + apply IH.
Qed.

Lemma run_from_gdiff h : forall s,
  gdiff (fold_left (hstep true c) h s) = gdiff s /\ forall d, gadiff d (fold_left (hstep true c) h s) = gadiff d s.
Proof.
  induction h as [|e r IH]; intros s; cbn [fold_left].
  - auto.
  - unfold hstep at 2 4. destruct (step true c (fst e) s (snd e)) as [[s' f]| |] eqn:E; auto.
    destruct (IH s') as [A B]. destruct (step_gdiff _ _ _ _ _ E) as [A' B']. split; [lia|]. intro d. rewrite B, B'. reflexivity.
Qed.

Lemma run_from_pending h : forall s who d,
  pending who d (fold_left (hstep true c) h s) + paid_total who d (effects_from true c s h)
  = pending who d s + unbonded_total who d (effects_from true c s h).
Proof.
  induction h as [|e r IH]; intros s who d; cbn [fold_left effects_from].
  - unfold paid_total, unbonded_total; cbn. lia.
  - unfold hstep at 2. destruct (step true c (fst e) s (snd e)) as [[s' f]| |] eqn:E.
    + specialize (IH s' who d). rewrite (step_pending _ _ _ _ _ who d E) in IH.
      unfold paid_total, unbonded_total in *. cbn. lia.
    + apply IH.
    + apply IH.
Qed.

Theorem lair_conservation h d :
  let s := run true c h in
  zget d (bal s) = bsum d (bonds s) + usum d (unbonds s) + donated_total d (effects true c h).
Proof.
  cbn. pose proof (run_from_excess h init d) as H. unfold excess in H. unfold run, effects.
  cbn in H. lia.
Qed.

Theorem lair_global_eq_sum h :
  let s := run true c h in
  g_amt s = btotal (bonds s) /\ forall d, zget d (g_assets s) = bsum d (bonds s).
Proof.
  cbn. destruct (run_from_gdiff h init) as [A B]. unfold gdiff, gadiff, run in *. cbn in A, B.
  split; [lia|]. intro d. specialize (B d). lia.
Qed.

Theorem lair_unbond_accounting h who d :
  unbonded_total who d (effects true c h) = pending who d (run true c h) + paid_total who d (effects true c h).
Proof.
  pose proof (run_from_pending h init who d) as H. unfold run, effects. unfold pending in H at 2. cbn in H.
  unfold pending in *. lia.
Qed.

End Steps.
