(* VaultQuotes.v — C14 on the vault machine: the Share query equals what a withdrawal of that many shares pays.
   q_share transcribes queries/get_share.rs, withdraw transcribes execute/receive/withdraw.rs (two separate
   transcriptions of two separate code paths). *)
From WW Require Import Prim Vault.
From WW.Proofs Require Import ArithLemmas VaultLedger.

Lemma share_eq_withdraw u a st st' : withdraw u a st = Ok st' ->
  exists w, q_share st a = Ok w /\
            get (ab st') u = get (ab st) u + w /\ get (ab st') VAULT = get (ab st) VAULT - w /\
            get (lp st') u = get (lp st) u - a.
Proof.
  unfold withdraw, q_share. intro H.
  apply bind_ok in H as (? & E1 & H). apply ensure_ok' in E1. apply andb_true_iff in E1 as [Hhas Hnv].
  apply negb_true_iff in Hnv. apply Nat.eqb_neq in Hnv.
  apply bind_ok in H as (? & E2 & H).
  apply bind_ok in H as (? & E3 & H).
  apply bind_ok in H as (t & E4 & H). rewrite E4. cbn [bind].
  apply bind_ok in H as (r & E5 & H). rewrite E5. cbn [bind].
  apply bind_ok in H as (w & E6 & H). rewrite E6.
  apply bind_ok in H as (ab' & E7 & H). inversion H; subst st'; clear H.
  exists w. split; [reflexivity|]. cbn [ab lp set_lp set_ab].
  pose proof (xfer_get _ _ _ _ _ _ u E7) as Gu. pose proof (xfer_get _ _ _ _ _ _ VAULT E7) as Gv.
  rewrite Nat.eqb_refl in Gu, Gv.
  replace (Nat.eqb u VAULT) with false in Gu by (symmetry; apply Nat.eqb_neq; assumption).
  replace (Nat.eqb VAULT u) with false in Gv by (symmetry; apply Nat.eqb_neq; auto).
  apply has_true in Hhas.
  repeat split; try lia. rewrite get_upd_same by assumption. reflexivity.
Qed.
