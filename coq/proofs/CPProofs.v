(* CPProofs.v — invariants and value theorems of the constant-product pool machine (CP.v) *)
From WW Require Import Prim CPSwap Slippage CP.
From WW.Proofs Require Import ArithLemmas CPSwapProofs ListLemmas.

(* destruct the next guard / bind in hypothesis H *)
Ltac dstep H :=
  match type of H with
  | (if ?b then _ else _) = Ok _ => let E := fresh "E" in destruct b eqn:E; [try discriminate H | try discriminate H]
  | bind ?m _ = Ok _ => let E := fresh "E" in let v := fresh "v" in destruct m as [v| |] eqn:E; cbn [bind] in H; [|discriminate H|discriminate H]
  | (let '(_, _) := ?m in _) = Ok _ => destruct m
  end.
Ltac dsteps H := repeat dstep H.
Ltac sproj := cbn [cw0 cw1 bal0 bal1 pf0 pf1 at0 at1 bu0 bu1 supply lp col0 col1 pfees en_w en_d en_s owner
                   set_bal set_lp p_minted p_ref0 p_ref1 p_ret p_spread p_swapfee p_protfee p_burnfee].
Tactic Notation "sproj" "in" hyp(H) :=
  cbn [cw0 cw1 bal0 bal1 pf0 pf1 at0 at1 bu0 bu1 supply lp col0 col1 pfees en_w en_d en_s owner
       set_bal set_lp p_minted p_ref0 p_ref1 p_ret p_spread p_swapfee p_protfee p_burnfee] in H.

Lemma csub_ok a b v : csub a b = Ok v -> b <= a /\ v = a - b.
Proof. unfold csub. destruct (b <=? a) eqn:E; intro H; inversion H. apply Z.leb_le in E. lia. Qed.
Lemma cadd_ok w a b v : cadd w a b = Ok v -> v = a + b /\ 0 <= a + b < w.
Proof. unfold cadd. destruct (fits w (a+b)) eqn:E; intro H; inversion H. apply fits_true in E. lia. Qed.
Lemma must_ok b u : must b = Ok u -> b = true.
Proof. unfold must. destruct b; intro H; [reflexivity|discriminate]. Qed.
Lemma ensure_ok b c u : ensure b c = Ok u -> b = true.
Proof. unfold ensure. destruct b; intro H; [reflexivity|discriminate]. Qed.

(* ---- swap arithmetic facts usable without the >= 1 assumption on the ask reserve -------------- *)
Lemma compute_swap_cp_op_nonzero op ask x f c : compute_swap_cp op ask x f = Ok c -> op <> 0.
Proof.
  intros H ->. unfold compute_swap_cp in H.
  destruct (pmul P256 ask x); cbn [bind] in H; try discriminate.
  destruct (padd P256 0 x); cbn [bind] in H; try discriminate.
  destruct (dec_from_ratio P256 _ _); cbn [bind] in H; try discriminate.
  destruct (mul_dec P256 1 _); cbn [bind] in H; try discriminate.
Qed.

Lemma swap_facts op ask x f c :
  0 <= op < P128 -> 0 <= ask < P128 -> 0 <= x < P128 -> fees_ok f ->
  compute_swap_cp op ask x f = Ok c ->
  1 <= op /\ 0 <= s_ret c /\ 0 <= s_swapfee c /\ 0 <= s_protfee c /\ 0 <= s_burnfee c /\
  s_ret c + s_swapfee c + s_protfee c + s_burnfee c = gross op ask x /\
  0 <= gross op ask x <= ask /\ (op + x) * gross op ask x <= ask * x /\
  s_protfee c = gross op ask x * f_protocol f / DEC /\ s_burnfee c = gross op ask x * f_burn f / DEC /\
  s_swapfee c = gross op ask x * f_swap f / DEC /\ 0 <= s_spread c.
Proof.
  intros Ho Ha Hx Hf H.
  pose proof (compute_swap_cp_op_nonzero _ _ _ _ _ H) as Hnz.
  assert (Hd : dom op) by (unfold dom; lia).
  rewrite compute_swap_cp_closed0 in H by (assumption || exact Ha).
  unfold swap_closed in H. destruct (fits128 _) eqn:Hsp in H; [|discriminate]. inversion H; subst c; cbn.
  pose proof (gross_le_ask0 op ask x Hd Ha (proj1 Hx)) as [HG0 HG].
  pose proof (fees_ok_sum f Hf) as (Hp & Hs & Hb & Hsum). pose proof DEC_pos.
  pose proof (floor_sum3_le (gross op ask x) (f_swap f) (f_protocol f) (f_burn f) DEC HG0 Hs Hp Hb ltac:(lia) ltac:(lia)).
  assert (0 <= gross op ask x * f_swap f / DEC) by (apply Z.div_pos; nia).
  assert (0 <= gross op ask x * f_protocol f / DEC) by (apply Z.div_pos; nia).
  assert (0 <= gross op ask x * f_burn f / DEC) by (apply Z.div_pos; nia).
  assert ((op + x) * gross op ask x <= ask * x) by (unfold gross; apply Z.mul_div_le; lia).
  unfold ideal_spread, ssub. repeat split; try lia.
Qed.

(* ---- the invariant ------------------------------------------------------------------------- *)
Record Inv (k : consts) (s : pstate) : Prop := mkInv {
  i_pf0 : 0 <= pf0 s <= bal0 s;
  i_pf1 : 0 <= pf1 s <= bal1 s;
  i_b0 : bal0 s < P128;
  i_b1 : bal1 s < P128;
  i_lpnn : Forall (fun z => 0 <= z) (lp s);
  i_sum : sumZ (lp s) = supply s;
  i_len : (1 <= length (lp s))%nat;
  i_lock : 0 < supply s -> c_minliq k <= getn (lp s) 0;
  i_fees : fees_ok (pfees s)
}.

Lemma inv_supply_nonneg k s : Inv k s -> 0 <= supply s.
Proof. intros [? ? ? ? H Hs ? ? ?]. rewrite <- Hs. apply sumZ_nonneg; auto. Qed.

Lemma inv_init k c0 c1 f n own : fees_ok f -> (1 <= n)%nat -> Inv k (init c0 c1 f n own).
Proof.
  intros Hf Hn. assert (0 < P128) by reflexivity.
  constructor; unfold init; sproj; try lia.
  - apply Forall_repeat0.
  - apply sumZ_repeat0.
  - rewrite repeat_length. lia.
  - assumption.
Qed.

Lemma poolfee_valid_fees_ok f : poolfee_valid f = true ->
  fits128 (f_protocol f) = true -> fits128 (f_swap f) = true -> fits128 (f_burn f) = true -> fees_ok f.
Proof.
  intros H A B C. apply fits_true in A, B, C. unfold fees_ok. repeat split; try lia. exact H.
Qed.

Lemma valid_acct_lt s i : valid_acct s i = true -> (i < length (lp s))%nat.
Proof. unfold valid_acct. apply Nat.ltb_lt. Qed.

Lemma lp_mint_ok k s to a s' : Inv k s -> 0 <= a -> lp_mint s to a = Ok s' ->
  supply s' = supply s + a /\ lp s' = setn (lp s) to (getn (lp s) to + a) /\ (to < length (lp s))%nat /\
  bal0 s' = bal0 s /\ bal1 s' = bal1 s /\ pf0 s' = pf0 s /\ pf1 s' = pf1 s /\ pfees s' = pfees s /\
  cw0 s' = cw0 s /\ cw1 s' = cw1 s.
Proof.
  intros HI Ha H. unfold lp_mint in H.
  destruct (valid_acct s to) eqn:Ev; cbn [negb] in H; [|discriminate].
  destruct (must _) eqn:Em in H; cbn [bind] in H; try discriminate. inversion H; subst s'. sproj.
  apply valid_acct_lt in Ev. repeat split; auto.
Qed.

(* ---- swap ---------------------------------------------------------------------------------- *)
(* what a successful swap does, in terms of the reported reserves *)
Lemma swap_ok k s who dir x b m to s' p : Inv k s -> fits128 x = true ->
  swap k s who dir x b m to = Ok (s', p) ->
  let op_ := if dir then res1 s else res0 s in
  let ask := if dir then res0 s else res1 s in
  let G := gross op_ ask x in
  1 <= op_ /\ 0 <= G <= ask /\ (op_ + x) * G <= ask * x /\
  0 <= p_ret p /\ 0 <= p_swapfee p /\ 0 <= p_protfee p /\ 0 <= p_burnfee p /\ 0 <= p_spread p /\
  p_ret p + p_swapfee p + p_protfee p + p_burnfee p = G /\
  p_protfee p = G * f_protocol (pfees s) / DEC /\ p_burnfee p = G * f_burn (pfees s) / DEC /\
  p_swapfee p = G * f_swap (pfees s) / DEC /\
  p_minted p = 0 /\ p_ref0 p = 0 /\ p_ref1 p = 0 /\
  supply s' = supply s /\ lp s' = lp s /\ pfees s' = pfees s /\ cw0 s' = cw0 s /\ cw1 s' = cw1 s /\
  col0 s' = col0 s /\ col1 s' = col1 s /\
  (if dir then
     bal1 s' = bal1 s + x /\ pf1 s' = pf1 s /\ at1 s' = at1 s /\ bu1 s' = bu1 s /\
     bal0 s' = bal0 s - p_ret p - p_burnfee p /\ pf0 s' = pf0 s + p_protfee p /\
     at0 s' = at0 s + p_protfee p /\ bu0 s' = bu0 s + p_burnfee p /\ bal1 s + x < P128
   else
     bal0 s' = bal0 s + x /\ pf0 s' = pf0 s /\ at0 s' = at0 s /\ bu0 s' = bu0 s /\
     bal1 s' = bal1 s - p_ret p - p_burnfee p /\ pf1 s' = pf1 s + p_protfee p /\
     at1 s' = at1 s + p_protfee p /\ bu1 s' = bu1 s + p_burnfee p /\ bal0 s + x < P128).
Proof.
  intros HI Hx H. destruct HI as [Hp0 Hp1 Hb0 Hb1 _ _ _ _ Hf].
  apply fits_true in Hx. unfold swap in H.
  dstep H. dstep H. apply ensure_ok in E0. apply andb_true_iff in E0 as [Fb0 Fb1]. apply fits_true in Fb0, Fb1.
  destruct dir; cbv iota in H; cbn [bind] in H.
  - dstep H. dstep H. dstep H.
    apply csub_ok in E0 as [? ->]. apply csub_ok in E1 as [? ->]. apply csub_ok in E2 as [? ->].
    replace (bal1 s + x - pf1 s - x) with (bal1 s - pf1 s) in H by lia.
    dstep H.
    match goal with Ec : compute_swap_cp _ _ _ _ = Ok ?c |- _ =>
      assert (Hfacts := swap_facts (bal1 s - pf1 s) (bal0 s - pf0 s) x (pfees s) c ltac:(lia) ltac:(lia) Hx Hf Ec) end.
    destruct Hfacts as (F1 & F2 & F3 & F4 & F5 & F6 & F7 & F8 & F9 & F10 & F11 & F12).
    dstep H. dstep H. dstep H. dstep H. dstep H. dstep H. dstep H.
    unfold res0, res1. cbv zeta.
    inversion H; subst s' p; sproj; repeat split; try lia; try assumption.
  - dstep H. dstep H. dstep H.
    apply csub_ok in E0 as [? ->]. apply csub_ok in E1 as [? ->]. apply csub_ok in E2 as [? ->].
    replace (bal0 s + x - pf0 s - x) with (bal0 s - pf0 s) in H by lia.
    dstep H.
    match goal with Ec : compute_swap_cp _ _ _ _ = Ok ?c |- _ =>
      assert (Hfacts := swap_facts (bal0 s - pf0 s) (bal1 s - pf1 s) x (pfees s) c ltac:(lia) ltac:(lia) Hx Hf Ec) end.
    destruct Hfacts as (F1 & F2 & F3 & F4 & F5 & F6 & F7 & F8 & F9 & F10 & F11 & F12).
    dstep H. dstep H. dstep H. dstep H. dstep H. dstep H. dstep H.
    unfold res0, res1. cbv zeta.
    inversion H; subst s' p; sproj; repeat split; try lia; try assumption.
Qed.

Lemma swap_inv k s who dir x b m to s' p : Inv k s -> fits128 x = true ->
  swap k s who dir x b m to = Ok (s', p) -> Inv k s'.
Proof.
  intros HI Hx H. pose proof (swap_ok _ _ _ _ _ _ _ _ _ _ HI Hx H) as Hk. cbv zeta in Hk.
  destruct Hk as (K1 & K2 & K3 & K4 & K5 & K6 & K7 & K8 & K9 & K10 & K11 & K12 & _ & _ & _ & S1 & S2 & S3 & _ & _ & _ & _ & Hd).
  apply fits_true in Hx.
  destruct HI as [Hp0 Hp1 Hb0 Hb1 Hnn Hsum Hlen Hlock Hf]. unfold res0, res1 in *.
  destruct dir; destruct Hd as (D1 & D2 & D3 & D4 & D5 & D6 & D7 & D8 & D9);
    constructor; rewrite ?S1, ?S2, ?S3, ?D1, ?D2, ?D5, ?D6; try assumption; try lia.
Qed.

Lemma mul_le_compat4 a b c d : 0 <= a <= c -> 0 <= b <= d -> a * b <= c * d.
Proof. intros. nia. Qed.

Lemma swap_value k s who dir x b m to s' p : Inv k s -> fits128 x = true ->
  swap k s who dir x b m to = Ok (s', p) ->
  res0 s * res1 s <= res0 s' * res1 s' /\ supply s' = supply s.
Proof.
  intros HI Hx H. pose proof (swap_ok _ _ _ _ _ _ _ _ _ _ HI Hx H) as Hk. cbv zeta in Hk.
  destruct Hk as (K1 & K2 & K3 & K4 & K5 & K6 & K7 & K8 & K9 & K10 & K11 & K12 & _ & _ & _ & S1 & S2 & S3 & _ & _ & _ & _ & Hd).
  apply fits_true in Hx.
  destruct HI as [Hp0 Hp1 Hb0 Hb1 Hnn Hsum Hlen Hlock Hf]. unfold res0, res1 in *.
  split; [|assumption].
  destruct dir; destruct Hd as (D1 & D2 & D3 & D4 & D5 & D6 & D7 & D8 & D9); rewrite D1, D2, D5, D6.
  - set (o := bal1 s - pf1 s) in *. set (a := bal0 s - pf0 s) in *.
    set (G := gross o a x) in *.
    assert (a - G <= bal0 s - p_ret p - p_burnfee p - (pf0 s + p_protfee p)) by (unfold a; lia).
    assert (o * a <= (o + x) * (a - G)) by nia.
    assert (0 <= a - G) by lia.
    replace (bal1 s + x - pf1 s) with (o + x) by (unfold o; lia).
    nia.
  - set (o := bal0 s - pf0 s) in *. set (a := bal1 s - pf1 s) in *.
    set (G := gross o a x) in *.
    assert (a - G <= bal1 s - p_ret p - p_burnfee p - (pf1 s + p_protfee p)) by (unfold a; lia).
    assert (o * a <= (o + x) * (a - G)) by nia.
    assert (0 <= a - G) by lia.
    replace (bal0 s + x - pf0 s) with (o + x) by (unfold o; lia).
    nia.
Qed.

(* ---- withdraw ------------------------------------------------------------------------------ *)
Lemma withdraw_ok k s who a s' p : Inv k s -> fits128 a = true ->
  withdraw k s who a = Ok (s', p) ->
  who <> 0%nat /\ (who < length (lp s))%nat /\ a <= getn (lp s) who /\ 0 < supply s /\
  0 <= p_ref0 p /\ 0 <= p_ref1 p /\
  p_ref0 p * supply s <= res0 s * a /\ p_ref1 p * supply s <= res1 s * a /\
  p_ref0 p <= res0 s /\ p_ref1 p <= res1 s /\
  p_minted p = 0 /\ p_ret p = 0 /\ p_protfee p = 0 /\ p_burnfee p = 0 /\
  supply s' = supply s - a /\ lp s' = setn (lp s) who (getn (lp s) who - a) /\
  bal0 s' = bal0 s - p_ref0 p /\ bal1 s' = bal1 s - p_ref1 p /\
  pf0 s' = pf0 s /\ pf1 s' = pf1 s /\ pfees s' = pfees s /\ at0 s' = at0 s /\ at1 s' = at1 s /\
  bu0 s' = bu0 s /\ bu1 s' = bu1 s /\ col0 s' = col0 s /\ col1 s' = col1 s.
Proof.
  intros HI Ha H. pose proof (inv_supply_nonneg _ _ HI) as HS0.
  destruct HI as [Hp0 Hp1 Hb0 Hb1 Hnn Hsum Hlen Hlock Hf].
  apply fits_true in Ha. unfold withdraw in H.
  destruct (valid_acct s who) eqn:Ev; cbn [negb] in H; [|discriminate]. apply valid_acct_lt in Ev.
  destruct (Nat.eqb who pool_acct) eqn:Ew; [discriminate|]. apply Nat.eqb_neq in Ew. unfold pool_acct in Ew.
  destruct (getn (lp s) who <? a) eqn:El; [discriminate|]. apply Z.ltb_ge in El.
  destruct (en_w s); cbn [negb] in H; [|discriminate].
  unfold dec_from_ratio in H.
  destruct (supply s =? 0) eqn:Es; cbn [bind] in H; [discriminate|]. apply Z.eqb_neq in Es.
  destruct (a * DEC / supply s <? P128) eqn:Er; cbn [bind] in H; [|discriminate].
  dstep H. dstep H. apply csub_ok in E as [? ->]. apply csub_ok in E0 as [? ->].
  dstep H. inversion H; subst s' p; sproj. clear H E.
  pose proof DEC_pos as HD.
  assert (HS : 0 < supply s) by lia.
  set (q := a * DEC / supply s).
  assert (Hq : 0 <= q /\ q * supply s <= a * DEC).
  { unfold q. split. apply Z.div_pos; nia. rewrite Z.mul_comm. apply Z.mul_div_le; lia. }
  pose proof (getn_le_sum (lp s) who Hnn) as Hle. rewrite Hsum in Hle.
  assert (Hq1 : q <= DEC). { unfold q. apply Z.div_le_upper_bound; nia. }
  unfold res0, res1.
  set (r0 := bal0 s - pf0 s) in *. set (r1 := bal1 s - pf1 s) in *.
  assert (Hf0 : 0 <= r0 * q / DEC /\ DEC * (r0 * q / DEC) <= r0 * q).
  { split. apply Z.div_pos; nia. apply Z.mul_div_le; lia. }
  assert (Hf1 : 0 <= r1 * q / DEC /\ DEC * (r1 * q / DEC) <= r1 * q).
  { split. apply Z.div_pos; nia. apply Z.mul_div_le; lia. }
  assert (r0 * q / DEC <= r0) by (apply Z.div_le_upper_bound; nia).
  assert (r1 * q / DEC <= r1) by (apply Z.div_le_upper_bound; nia).
  repeat split; try lia; try reflexivity.
  - (* f0 * S <= r0 * a *)
    assert (DEC * (r0 * q / DEC * supply s) <= DEC * (r0 * a)) by nia. nia.
  - assert (DEC * (r1 * q / DEC * supply s) <= DEC * (r1 * a)) by nia. nia.
Qed.

Lemma withdraw_inv k s who a s' p : Inv k s -> 0 < c_minliq k -> fits128 a = true ->
  withdraw k s who a = Ok (s', p) -> Inv k s' /\ 0 < supply s'.
Proof.
  intros HI Hm Ha H. pose proof (withdraw_ok _ _ _ _ _ _ HI Ha H) as Hk.
  destruct Hk as (Hne & W1 & W2 & W3 & W4 & W5 & W6 & W7 & W8 & W9 & _ & _ & _ & _ & S1 & S2 & B0 & B1 & P0 & P1 & PF & _).
  apply fits_true in Ha.
  destruct HI as [Hp0 Hp1 Hb0 Hb1 Hnn Hsum Hlen Hlock Hf]. unfold res0, res1 in *.
  assert (Hpool : c_minliq k <= getn (lp s) 0) by (apply Hlock; lia).
  pose proof (getn_two_le_sum (lp s) who 0 Hnn Hne) as H2.
  assert (Hsum' : sumZ (setn (lp s) who (getn (lp s) who - a)) = supply s - a).
  { rewrite sumZ_setn by assumption. lia. }
  split; [|lia].
  constructor; rewrite ?S1, ?S2, ?B0, ?B1, ?P0, ?P1, ?PF; try assumption; try lia.
  - apply Forall_setn; [assumption|lia].
  - rewrite setn_length. assumption.
  - intro Hpos. rewrite getn_setn_other by assumption. assumption.
Qed.

Lemma lp_mint_eq s to a s' : lp_mint s to a = Ok s' ->
  (to < length (lp s))%nat /\ s' = set_lp s (supply s + a) (setn (lp s) to (getn (lp s) to + a)).
Proof.
  unfold lp_mint. destruct (valid_acct s to) eqn:Ev; cbn [negb]; [|discriminate].
  destruct (must _); cbn [bind]; try discriminate. intro H; inversion H. split; [|reflexivity].
  apply valid_acct_lt; assumption.
Qed.

(* ---- provide ------------------------------------------------------------------------------- *)
Lemma provide_ok k s who d0 d1 tol rc s' p : Inv k s -> 0 < c_minliq k ->
  fits128 d0 = true -> fits128 d1 = true ->
  provide k s who d0 d1 tol rc = Ok (s', p) ->
  let rcv := match rc with Some r => r | None => who end in
  0 < d0 /\ 0 < d1 /\ 0 <= p_minted p /\ p_ref0 p = 0 /\ p_ref1 p = 0 /\ p_ret p = 0 /\ p_protfee p = 0 /\ p_burnfee p = 0 /\
  bal0 s' = bal0 s + d0 /\ bal1 s' = bal1 s + d1 /\ bal0 s + d0 < P128 /\ bal1 s + d1 < P128 /\
  pf0 s' = pf0 s /\ pf1 s' = pf1 s /\ pfees s' = pfees s /\ at0 s' = at0 s /\ at1 s' = at1 s /\
  bu0 s' = bu0 s /\ bu1 s' = bu1 s /\ col0 s' = col0 s /\ col1 s' = col1 s /\
  (rcv < length (lp s))%nat /\
  ((supply s = 0 /\ 0 < p_minted p /\ supply s' = c_minliq k + p_minted p /\
    c_minliq k + p_minted p = isqrt (d0 * d1) /\
    lp s' = setn (setn (lp s) 0 (getn (lp s) 0 + c_minliq k)) rcv
                 (getn (setn (lp s) 0 (getn (lp s) 0 + c_minliq k)) rcv + p_minted p))
   \/
   (0 < supply s /\ 0 < res0 s /\ 0 < res1 s /\ supply s' = supply s + p_minted p /\
    p_minted p * res0 s <= d0 * supply s /\ p_minted p * res1 s <= d1 * supply s /\
    lp s' = setn (lp s) rcv (getn (lp s) rcv + p_minted p))).
Proof.
  intros HI Hm Hd0 Hd1 H. pose proof (inv_supply_nonneg _ _ HI) as HS0.
  apply fits_true in Hd0, Hd1. unfold provide in H.
  destruct (en_d s); cbn [negb] in H; [|discriminate].
  destruct ((d0 =? 0) || (d1 =? 0)) eqn:Ez; [discriminate|].
  apply orb_false_iff in Ez as [Ez0 Ez1]. apply Z.eqb_neq in Ez0, Ez1.
  dstep H. dstep H. apply csub_ok in E as [? ->]. apply csub_ok in E0 as [? ->].
  destruct (supply s =? 0) eqn:Es.
  - apply Z.eqb_eq in Es.
    dstep H. apply csub_ok in E as [Hroot ->].
    destruct (isqrt (d0 * d1) - c_minliq k =? 0) eqn:Esh; [discriminate|]. apply Z.eqb_neq in Esh.
    dstep H. dstep H. dstep H. apply must_ok in E1. apply andb_true_iff in E1 as [F0 F1].
    apply fits_true in F0, F1.
    apply lp_mint_eq in E as [Mv ->]. apply lp_mint_eq in E0 as [Mv2 ->].
    sproj in Mv2. rewrite setn_length in Mv2.
    inversion H; subst s' p; sproj. clear H.
    cbv zeta. unfold pool_acct.
    destruct HI as [Hp0 Hp1 Hb0 Hb1 Hnn Hsum Hlen Hlock Hf].
    repeat split; try lia; try reflexivity.
    left. repeat split; try lia.
  - apply Z.eqb_neq in Es.
    dstep H. apply must_ok in E. apply negb_true_iff in E. apply Z.eqb_neq in E.
    dstep H. destruct (fits128 (d0 * supply s / (bal0 s - pf0 s))) eqn:Ea0 in E0; [|discriminate]. inversion E0; subst v0. clear E0.
    dstep H. apply must_ok in E0. apply negb_true_iff in E0. apply Z.eqb_neq in E0.
    dstep H. destruct (fits128 (d1 * supply s / (bal1 s - pf1 s))) eqn:Ea1 in E1; [|discriminate]. inversion E1; subst v1. clear E1.
    dstep H. dstep H. dstep H. apply must_ok in E3. apply andb_true_iff in E3 as [F0 F1].
    apply fits_true in F0, F1.
    set (r0 := bal0 s - pf0 s) in *. set (r1 := bal1 s - pf1 s) in *.
    set (a0 := d0 * supply s / r0) in *. set (a1 := d1 * supply s / r1) in *.
    assert (Hr0 : 0 < r0) by lia. assert (Hr1 : 0 < r1) by lia.
    assert (Ha0 : 0 <= a0 /\ r0 * a0 <= d0 * supply s).
    { unfold a0. split. apply Z.div_pos; nia. apply Z.mul_div_le; lia. }
    assert (Ha1 : 0 <= a1 /\ r1 * a1 <= d1 * supply s).
    { unfold a1. split. apply Z.div_pos; nia. apply Z.mul_div_le; lia. }
    apply lp_mint_eq in E2 as [Mv ->].
    inversion H; subst s' p; sproj. clear H.
    cbv zeta.
    destruct HI as [Hp0 Hp1 Hb0 Hb1 Hnn Hsum Hlen Hlock Hf].
    unfold res0, res1. fold r0 r1.
    repeat split; try lia; try reflexivity; try assumption.
    right. repeat split; try lia; try nia.
Qed.

Lemma provide_inv k s who d0 d1 tol rc s' p : Inv k s -> 0 < c_minliq k ->
  fits128 d0 = true -> fits128 d1 = true ->
  provide k s who d0 d1 tol rc = Ok (s', p) -> Inv k s' /\ 0 < supply s'.
Proof.
  intros HI Hm Hd0 Hd1 H. pose proof (provide_ok _ _ _ _ _ _ _ _ _ HI Hm Hd0 Hd1 H) as Hk. cbv zeta in Hk.
  destruct Hk as (K1 & K2 & K3 & _ & _ & _ & _ & _ & B0 & B1 & L0 & L1 & P0 & P1 & PF & _ & _ & _ & _ & _ & _ & Hr & Hcase).
  pose proof (inv_supply_nonneg _ _ HI) as HS0.
  destruct HI as [Hp0 Hp1 Hb0 Hb1 Hnn Hsum Hlen Hlock Hf].
  set (rcv := match rc with Some r => r | None => who end) in *.
  destruct Hcase as [(Z1 & Z2 & Z3 & Z4 & Z5) | (Z1 & Z2 & Z3 & Z4 & Z5 & Z6 & Z7)].
  - split; [|lia].
    assert (Hl0 : (0 < length (lp s))%nat) by lia.
    pose proof (getn_nonneg (lp s) 0 Hnn). 
    set (l1 := setn (lp s) 0 (getn (lp s) 0 + c_minliq k)) in *.
    assert (Hnn1 : Forall (fun z => 0 <= z) l1) by (apply Forall_setn; [assumption|lia]).
    assert (Hlen1 : length l1 = length (lp s)) by apply setn_length.
    pose proof (getn_nonneg l1 rcv Hnn1).
    constructor; rewrite ?B0, ?B1, ?P0, ?P1, ?PF, ?Z3, ?Z5; try assumption; try lia.
    + apply Forall_setn; [assumption|lia].
    + rewrite sumZ_setn by lia. unfold l1. rewrite sumZ_setn by lia. lia.
    + rewrite setn_length. lia.
    + intros _. destruct (Nat.eq_dec rcv 0) as [->|Hne].
      * rewrite getn_setn_same by lia. unfold l1 at 1. rewrite getn_setn_same by lia. lia.
      * rewrite getn_setn_other by assumption. unfold l1. rewrite getn_setn_same by lia. lia.
  - split; [|lia].
    pose proof (getn_nonneg (lp s) rcv Hnn).
    constructor; rewrite ?B0, ?B1, ?P0, ?P1, ?PF, ?Z4, ?Z7; try assumption; try lia.
    + apply Forall_setn; [assumption|lia].
    + rewrite sumZ_setn by lia. lia.
    + rewrite setn_length. lia.
    + intros _. specialize (Hlock Z1). destruct (Nat.eq_dec rcv 0) as [->|Hne].
      * rewrite getn_setn_same by lia. lia.
      * rewrite getn_setn_other by assumption. assumption.
Qed.

(* ---- the remaining operations ---------------------------------------------------------------- *)
Lemma collect_ok k s s' p : Inv k s -> collect k s = Ok (s', p) ->
  res0 s' = res0 s /\ res1 s' = res1 s /\ supply s' = supply s /\ lp s' = lp s /\ pfees s' = pfees s /\
  bal0 s' = bal0 s - (col0 s' - col0 s) /\ bal1 s' = bal1 s - (col1 s' - col1 s) /\
  pf0 s' = pf0 s - (col0 s' - col0 s) /\ pf1 s' = pf1 s - (col1 s' - col1 s) /\
  0 <= col0 s' - col0 s <= pf0 s /\ 0 <= col1 s' - col1 s <= pf1 s /\
  (col0 s' - col0 s = if c_mincollect k <? pf0 s then pf0 s else 0) /\
  (col1 s' - col1 s = if c_mincollect k <? pf1 s then pf1 s else 0) /\
  at0 s' = at0 s /\ at1 s' = at1 s /\ bu0 s' = bu0 s /\ bu1 s' = bu1 s /\ p = nopay.
Proof.
  intros [Hp0 Hp1 Hb0 Hb1 Hnn Hsum Hlen Hlock Hf] H. unfold collect in H.
  destruct (_ || _) in H; [discriminate|]. inversion H; subst s' p; clear H. unfold res0, res1; sproj.
  destruct (c_mincollect k <? pf0 s); destruct (c_mincollect k <? pf1 s); repeat split; lia.
Qed.

Lemma collect_inv k s s' p : Inv k s -> collect k s = Ok (s', p) -> Inv k s'.
Proof.
  intros HI H. pose proof (collect_ok _ _ _ _ HI H) as (R0 & R1 & S1 & S2 & PF & B0 & B1 & P0 & P1 & C0 & C1 & _).
  destruct HI as [Hp0 Hp1 Hb0 Hb1 Hnn Hsum Hlen Hlock Hf].
  constructor; rewrite ?S1, ?S2, ?PF; try assumption; try lia.
Qed.

Lemma update_config_ok s who o f t s' p : update_config s who o f t = Ok (s', p) ->
  who = owner s /\ bal0 s' = bal0 s /\ bal1 s' = bal1 s /\ pf0 s' = pf0 s /\ pf1 s' = pf1 s /\ supply s' = supply s /\
  lp s' = lp s /\ at0 s' = at0 s /\ at1 s' = at1 s /\ bu0 s' = bu0 s /\ bu1 s' = bu1 s /\ col0 s' = col0 s /\ col1 s' = col1 s /\
  p = nopay /\
  (match f with Some f' => poolfee_valid f' = true /\ pfees s' = f' | None => pfees s' = pfees s end).
Proof.
  unfold update_config. destruct (Nat.eqb who (owner s)) eqn:Ew; cbn [negb]; [|discriminate].
  apply Nat.eqb_eq in Ew.
  destruct f as [f'|].
  - destruct (poolfee_valid f') eqn:Ev; cbn [bind]; [|discriminate].
    destruct t as [[[w d] sw]|]; intro H; inversion H; subst; sproj; repeat split; auto.
  - cbn [bind]. destruct t as [[[w d] sw]|]; intro H; inversion H; subst; sproj; repeat split; auto.
Qed.

Lemma donate_ok s i z s' p : donate s i z = Ok (s', p) ->
  0 < z /\ pf0 s' = pf0 s /\ pf1 s' = pf1 s /\ supply s' = supply s /\ lp s' = lp s /\ pfees s' = pfees s /\ p = nopay /\
  at0 s' = at0 s /\ at1 s' = at1 s /\ bu0 s' = bu0 s /\ bu1 s' = bu1 s /\ col0 s' = col0 s /\ col1 s' = col1 s /\
  (if i then bal0 s' = bal0 s /\ bal1 s' = bal1 s + z /\ bal1 s + z < P128
   else bal1 s' = bal1 s /\ bal0 s' = bal0 s + z /\ bal0 s + z < P128).
Proof.
  unfold donate. destruct (z <=? 0) eqn:Ez; [discriminate|]. apply Z.leb_gt in Ez.
  destruct i.
  - destruct (ensure _ _) eqn:Ee; cbn [bind]; try discriminate. apply ensure_ok in Ee. apply fits_true in Ee.
    intro H; inversion H; subst; sproj. repeat split; auto; lia.
  - destruct (ensure _ _) eqn:Ee; cbn [bind]; try discriminate. apply ensure_ok in Ee. apply fits_true in Ee.
    intro H; inversion H; subst; sproj. repeat split; auto; lia.
Qed.

Lemma transfer_lp_ok s from to a s' p : transfer_lp s from to a = Ok (s', p) ->
  from <> 0%nat /\ (from < length (lp s))%nat /\ (to < length (lp s))%nat /\ 0 <= a <= getn (lp s) from /\
  bal0 s' = bal0 s /\ bal1 s' = bal1 s /\ pf0 s' = pf0 s /\ pf1 s' = pf1 s /\ supply s' = supply s /\ pfees s' = pfees s /\
  at0 s' = at0 s /\ at1 s' = at1 s /\ bu0 s' = bu0 s /\ bu1 s' = bu1 s /\ col0 s' = col0 s /\ col1 s' = col1 s /\ p = nopay /\
  lp s' = setn (setn (lp s) from (getn (lp s) from - a)) to (getn (setn (lp s) from (getn (lp s) from - a)) to + a).
Proof.
  unfold transfer_lp.
  destruct (valid_acct s from) eqn:Ef; cbn [negb orb]; [|discriminate].
  destruct (valid_acct s to) eqn:Et; cbn [negb]; [|discriminate].
  destruct (Nat.eqb from pool_acct) eqn:Ep; [discriminate|]. apply Nat.eqb_neq in Ep.
  destruct ((a <? 0) || (getn (lp s) from <? a)) eqn:Ea; [discriminate|].
  apply orb_false_iff in Ea as [Ea1 Ea2]. apply Z.ltb_ge in Ea1, Ea2.
  apply valid_acct_lt in Ef, Et.
  intro H; inversion H; subst; sproj. repeat split; auto.
Qed.

Lemma transfer_lp_inv k s from to a s' p : Inv k s -> transfer_lp s from to a = Ok (s', p) -> Inv k s'.
Proof.
  intros HI H. apply transfer_lp_ok in H.
  destruct H as (Hne & Hf & Ht & Ha & B0 & B1 & P0 & P1 & S1 & PF & _ & _ & _ & _ & _ & _ & _ & L).
  destruct HI as [Hp0 Hp1 Hb0 Hb1 Hnn Hsum Hlen Hlock Hfe].
  set (l1 := setn (lp s) from (getn (lp s) from - a)) in *.
  assert (Hnn1 : Forall (fun z => 0 <= z) l1) by (apply Forall_setn; [assumption|lia]).
  assert (Hlen1 : length l1 = length (lp s)) by apply setn_length.
  pose proof (getn_nonneg l1 to Hnn1).
  constructor; rewrite ?B0, ?B1, ?P0, ?P1, ?S1, ?PF, ?L; try assumption; try lia.
  - apply Forall_setn; [assumption|lia].
  - rewrite sumZ_setn by lia. unfold l1. rewrite sumZ_setn by lia. lia.
  - rewrite setn_length. lia.
  - intro Hpos. specialize (Hlock Hpos). destruct (Nat.eq_dec to 0) as [->|Hn0].
    + rewrite getn_setn_same by lia. unfold l1. rewrite getn_setn_other by assumption. lia.
    + rewrite getn_setn_other by assumption. unfold l1. rewrite getn_setn_other by assumption. assumption.
Qed.

(* ---- every step preserves the invariant; positive supply stays positive ----------------------- *)
Lemma step_inv k s o s' p : 0 < c_minliq k -> Inv k s -> step k s o = Ok (s', p) ->
  Inv k s' /\ (0 < supply s -> 0 < supply s').
Proof.
  intros Hm HI H. unfold step in H.
  destruct (op_wf o) eqn:Ewf; cbn [negb] in H; [|discriminate].
  destruct o; cbn [op_wf] in Ewf.
  - apply andb_true_iff in Ewf as [Ewf _]. apply andb_true_iff in Ewf as [W0 W1].
    pose proof (provide_inv _ _ _ _ _ _ _ _ _ HI Hm W0 W1 H) as [? ?]. split; auto.
  - pose proof (withdraw_inv _ _ _ _ _ _ HI Hm Ewf H) as [? ?]. split; auto.
  - apply andb_true_iff in Ewf as [Ewf _]. apply andb_true_iff in Ewf as [W0 _].
    split. eapply swap_inv; eassumption.
    pose proof (swap_value _ _ _ _ _ _ _ _ _ _ HI W0 H) as [_ ->]. auto.
  - pose proof (collect_ok _ _ _ _ HI H) as (_ & _ & S1 & _). split. eapply collect_inv; eassumption. lia.
  - pose proof (update_config_ok _ _ _ _ _ _ _ H) as (_ & B0 & B1 & P0 & P1 & S1 & L & _ & _ & _ & _ & _ & _ & _ & Hfees).
    destruct HI as [Hp0 Hp1 Hb0 Hb1 Hnn Hsum Hlen Hlock Hfe].
    split; [|lia]. constructor; rewrite ?B0, ?B1, ?P0, ?P1, ?S1, ?L; try assumption; try lia.
    destruct new_fees as [f'|].
    + destruct Hfees as [Hv ->]. apply andb_true_iff in Ewf as [Ewf W2]. apply andb_true_iff in Ewf as [W0 W1].
      apply poolfee_valid_fees_ok; assumption.
    + rewrite Hfees. assumption.
  - pose proof (donate_ok _ _ _ _ _ H) as (Hz & P0 & P1 & S1 & L & PF & _ & _ & _ & _ & _ & _ & _ & Hd).
    destruct HI as [Hp0 Hp1 Hb0 Hb1 Hnn Hsum Hlen Hlock Hfe].
    split; [|lia].
    destruct i; destruct Hd as (D1 & D2 & D3); constructor; rewrite ?D1, ?D2, ?P0, ?P1, ?S1, ?L, ?PF; try assumption; try lia.
  - pose proof (transfer_lp_ok _ _ _ _ _ _ H) as (_ & _ & _ & _ & _ & _ & _ & _ & S1 & _).
    split. eapply transfer_lp_inv; eassumption. lia.
  - discriminate.
  - destruct (en_s s); discriminate.
  - destruct (en_d s); discriminate.
  - destruct (en_s s); discriminate.
  - destruct (en_s s); discriminate.
Qed.

Lemma apply_inv k s o : 0 < c_minliq k -> Inv k s -> Inv k (apply k s o) /\ (0 < supply s -> 0 < supply (apply k s o)).
Proof.
  intros Hm HI. unfold apply. destruct (step k s o) as [[s' p]| |] eqn:E; auto.
  eapply step_inv; eassumption.
Qed.

Theorem run_inv k s ops : 0 < c_minliq k -> Inv k s -> Inv k (run k s ops) /\ (0 < supply s -> 0 < supply (run k s ops)).
Proof.
  intros Hm. revert s. induction ops as [|o ops IH]; intros s HI; cbn [run fold_left].
  - auto.
  - pose proof (apply_inv k s o Hm HI) as [HI' Hs']. specialize (IH _ HI'). unfold run in IH.
    destruct IH as [IH1 IH2]. split; auto.
Qed.

(* ---- the value backing one LP token never falls:  R0 R1 S'^2 <= R0' R1' S^2 -------------------- *)
Lemma sq_mono a b c d : 0 <= a -> 0 <= b -> 0 <= c -> 0 <= d -> a <= c -> b <= d -> a * b <= c * d.
Proof. intros. nia. Qed.

Lemma step_value k s o s' p : 0 < c_minliq k -> Inv k s -> step k s o = Ok (s', p) -> 0 < supply s ->
  res0 s * res1 s * (supply s' * supply s') <= res0 s' * res1 s' * (supply s * supply s).
Proof.
  intros Hm HI H HS. unfold step in H.
  destruct (op_wf o) eqn:Ewf; cbn [negb] in H; [|discriminate].
  assert (HR : 0 <= res0 s /\ 0 <= res1 s) by (destruct HI; unfold res0, res1; lia).
  destruct o; cbn [op_wf] in Ewf.
  - (* provide *)
    apply andb_true_iff in Ewf as [Ewf _]. apply andb_true_iff in Ewf as [W0 W1].
    pose proof (provide_ok _ _ _ _ _ _ _ _ _ HI Hm W0 W1 H) as Hk. cbv zeta in Hk.
    destruct Hk as (K1 & K2 & K3 & _ & _ & _ & _ & _ & B0 & B1 & _ & _ & P0 & P1 & _ & _ & _ & _ & _ & _ & _ & _ & Hcase).
    destruct Hcase as [(Z1 & _) | (Z1 & Z2 & Z3 & Z4 & Z5 & Z6 & Z7)]; [lia|].
    unfold res0, res1 in *. rewrite B0, B1, P0, P1, Z4.
    set (r0 := bal0 s - pf0 s) in *. set (r1 := bal1 s - pf1 s) in *. set (S := supply s) in *. set (m := p_minted p) in *.
    replace (bal0 s + d0 - pf0 s) with (r0 + d0) by (unfold r0; lia).
    replace (bal1 s + d1 - pf1 s) with (r1 + d1) by (unfold r1; lia).
    assert (A : (S + m) * r0 <= S * (r0 + d0)) by nia.
    assert (B : (S + m) * r1 <= S * (r1 + d1)) by nia.
    assert (C : ((S + m) * r0) * ((S + m) * r1) <= (S * (r0 + d0)) * (S * (r1 + d1))) by (apply sq_mono; nia).
    nia.
  - (* withdraw *)
    pose proof (withdraw_ok _ _ _ _ _ _ HI Ewf H) as Hk.
    destruct Hk as (_ & _ & W2 & W3 & W4 & W5 & W6 & W7 & W8 & W9 & _ & _ & _ & _ & S1 & _ & B0 & B1 & P0 & P1 & _).
    apply fits_true in Ewf.
    unfold res0, res1 in *. rewrite B0, B1, P0, P1, S1.
    set (r0 := bal0 s - pf0 s) in *. set (r1 := bal1 s - pf1 s) in *. set (S := supply s) in *.
    replace (bal0 s - p_ref0 p - pf0 s) with (r0 - p_ref0 p) by (unfold r0; lia).
    replace (bal1 s - p_ref1 p - pf1 s) with (r1 - p_ref1 p) by (unfold r1; lia).
    pose proof (inv_supply_nonneg _ _ HI).
    assert (Ha : a <= S). { destruct HI as [_ _ _ _ Hnn Hsum _ _ _]. pose proof (getn_le_sum (lp s) who Hnn). unfold S. lia. }
    assert (A : r0 * (S - a) <= (r0 - p_ref0 p) * S) by nia.
    assert (B : r1 * (S - a) <= (r1 - p_ref1 p) * S) by nia.
    assert (C : (r0 * (S - a)) * (r1 * (S - a)) <= ((r0 - p_ref0 p) * S) * ((r1 - p_ref1 p) * S)) by (apply sq_mono; nia).
    nia.
  - (* swap *)
    apply andb_true_iff in Ewf as [Ewf _]. apply andb_true_iff in Ewf as [W0 _].
    pose proof (swap_value _ _ _ _ _ _ _ _ _ _ HI W0 H) as [Hv ->].
    apply Z.mul_le_mono_nonneg_r; [nia|assumption].
  - (* collect *)
    pose proof (collect_ok _ _ _ _ HI H) as (R0 & R1 & S1 & _). rewrite R0, R1, S1. lia.
  - pose proof (update_config_ok _ _ _ _ _ _ _ H) as (_ & B0 & B1 & P0 & P1 & S1 & _).
    unfold res0, res1. rewrite B0, B1, P0, P1, S1. lia.
  - pose proof (donate_ok _ _ _ _ _ H) as (Hz & P0 & P1 & S1 & _ & _ & _ & _ & _ & _ & _ & _ & _ & Hd).
    unfold res0, res1 in *. rewrite P0, P1, S1.
    destruct i; destruct Hd as (D1 & D2 & D3); rewrite D1, D2; apply Z.mul_le_mono_nonneg_r; nia.
  - pose proof (transfer_lp_ok _ _ _ _ _ _ H) as (_ & _ & _ & _ & B0 & B1 & P0 & P1 & S1 & _).
    unfold res0, res1. rewrite B0, B1, P0, P1, S1. lia.
  - discriminate.
  - destruct (en_s s); discriminate.
  - destruct (en_d s); discriminate.
  - destruct (en_s s); discriminate.
  - destruct (en_s s); discriminate.
Qed.

(* deposit then immediately withdraw what was minted: never more than was deposited *)
Lemma deposit_withdraw k s who d0 d1 tol s1 p1 s2 p2 : 0 < c_minliq k -> Inv k s ->
  (0 < supply s \/ (res0 s = 0 /\ res1 s = 0)) ->
  step k s (Provide who d0 d1 tol None) = Ok (s1, p1) ->
  step k s1 (Withdraw who (p_minted p1)) = Ok (s2, p2) ->
  p_ref0 p2 <= d0 /\ p_ref1 p2 <= d1.
Proof.
  intros Hm HI Hpre H1 H2. unfold step in H1, H2.
  destruct (op_wf (Provide _ _ _ _ _)) eqn:Ewf1; cbn [negb] in H1; [|discriminate].
  destruct (op_wf (Withdraw _ _)) eqn:Ewf2; cbn [negb] in H2; [|discriminate].
  cbn [op_wf] in Ewf1, Ewf2.
  apply andb_true_iff in Ewf1 as [Ewf1 _]. apply andb_true_iff in Ewf1 as [W0 W1].
  pose proof (provide_ok _ _ _ _ _ _ _ _ _ HI Hm W0 W1 H1) as Hk. cbv zeta in Hk.
  destruct Hk as (K1 & K2 & K3 & _ & _ & _ & _ & _ & B0 & B1 & _ & _ & P0 & P1 & _ & _ & _ & _ & _ & _ & _ & _ & Hcase).
  pose proof (provide_inv _ _ _ _ _ _ _ _ _ HI Hm W0 W1 H1) as [HI1 HS1].
  pose proof (withdraw_ok _ _ _ _ _ _ HI1 Ewf2 H2) as Hw.
  destruct Hw as (_ & _ & _ & _ & V3 & V4 & V5 & V6 & _).
  unfold res0, res1 in *. rewrite B0, B1, P0, P1 in *.
  assert (HR : 0 <= bal0 s - pf0 s /\ 0 <= bal1 s - pf1 s) by (destruct HI; lia).
  set (r0 := bal0 s - pf0 s) in *. set (r1 := bal1 s - pf1 s) in *. set (m := p_minted p1) in *.
  replace (bal0 s + d0 - pf0 s) with (r0 + d0) in * by (unfold r0; lia).
  replace (bal1 s + d1 - pf1 s) with (r1 + d1) in * by (unfold r1; lia).
  destruct Hcase as [(Z1 & Z2 & Z3 & Z4 & _) | (Z1 & Z2 & Z3 & Z4 & Z5 & Z6 & _)].
  - (* first deposit: reserves empty *)
    destruct Hpre as [Hpos | [E0 E1]]; [lia|].
    rewrite Z3 in *. rewrite E0, E1 in *. split; nia.
  - rewrite Z4 in *. split; nia.
Qed.

(* ---- statements over reachable states, instantiated at the extracted constants ------------------ *)
From WW Require Import CPInst.

Lemma the_minliq_pos : 0 < c_minliq the_consts.
Proof. reflexivity. Qed.

Definition reachable (s : pstate) : Prop :=
  exists c0 c1 f n own ops, fees_ok f /\ (1 <= n)%nat /\ s = run the_consts (init c0 c1 f n own) ops.

Lemma reachable_inv s : reachable s -> Inv the_consts s.
Proof.
  intros (c0 & c1 & f & n & own & ops & Hf & Hn & ->).
  apply run_inv. apply the_minliq_pos. apply inv_init; assumption.
Qed.

Lemma reachable_step s o : reachable s -> reachable (apply the_consts s o).
Proof.
  intros (c0 & c1 & f & n & own & ops & Hf & Hn & ->).
  exists c0, c1, f, n, own, (ops ++ [o]). split; [exact Hf|]. split; [exact Hn|].
  unfold run. rewrite fold_left_app. cbn [fold_left]. reflexivity.
Qed.

Lemma r_solvent s : reachable s ->
  0 <= pf0 s <= bal0 s /\ 0 <= pf1 s <= bal1 s /\ res0 s + pf0 s = bal0 s /\ res1 s + pf1 s = bal1 s /\ 0 <= res0 s /\ 0 <= res1 s.
Proof. intro H. apply reachable_inv in H. destruct H. unfold res0, res1. lia. Qed.

Lemma r_value s o s' p : reachable s -> step the_consts s o = Ok (s', p) -> 0 < supply s ->
  0 < supply s' /\ res0 s * res1 s * (supply s' * supply s') <= res0 s' * res1 s' * (supply s * supply s).
Proof.
  intros Hr H HS. apply reachable_inv in Hr. split.
  - eapply step_inv; eauto. apply the_minliq_pos.
  - eapply step_value; eauto. apply the_minliq_pos.
Qed.

Lemma r_withdraw_prorata s who a s' p : reachable s -> step the_consts s (Withdraw who a) = Ok (s', p) ->
  p_ref0 p * supply s <= res0 s * a /\ p_ref1 p * supply s <= res1 s * a /\ a <= getn (lp s) who /\
  bal0 s' = bal0 s - p_ref0 p /\ bal1 s' = bal1 s - p_ref1 p /\ supply s' = supply s - a.
Proof.
  intros Hr H. apply reachable_inv in Hr. unfold step in H.
  destruct (op_wf _) eqn:Ewf; cbn [negb] in H; [|discriminate]. cbn [op_wf] in Ewf.
  pose proof (withdraw_ok _ _ _ _ _ _ Hr Ewf H) as Hk. intuition.
Qed.

Lemma r_mint_prorata s who d0 d1 tol rc s' p : reachable s -> 0 < supply s ->
  step the_consts s (Provide who d0 d1 tol rc) = Ok (s', p) ->
  p_minted p * res0 s <= d0 * supply s /\ p_minted p * res1 s <= d1 * supply s /\
  supply s' = supply s + p_minted p /\ bal0 s' = bal0 s + d0 /\ bal1 s' = bal1 s + d1.
Proof.
  intros Hr HS H. apply reachable_inv in Hr. unfold step in H.
  destruct (op_wf _) eqn:Ewf; cbn [negb] in H; [|discriminate]. cbn [op_wf] in Ewf.
  apply andb_true_iff in Ewf as [Ewf _]. apply andb_true_iff in Ewf as [W0 W1].
  pose proof (provide_ok _ _ _ _ _ _ _ _ _ Hr the_minliq_pos W0 W1 H) as Hk. cbv zeta in Hk.
  destruct Hk as (K1 & K2 & K3 & _ & _ & _ & _ & _ & B0 & B1 & _ & _ & P0 & P1 & _ & _ & _ & _ & _ & _ & _ & _ & Hcase).
  destruct Hcase as [(Z1 & _) | (Z1 & Z2 & Z3 & Z4 & Z5 & Z6 & Z7)]; [lia|]. intuition.
Qed.

Lemma r_first_deposit_locks s who d0 d1 tol rc s' p : reachable s -> supply s = 0 ->
  step the_consts s (Provide who d0 d1 tol rc) = Ok (s', p) ->
  getn (lp s') 0 >= getn (lp s) 0 + c_minliq the_consts /\ supply s' = c_minliq the_consts + p_minted p /\
  c_minliq the_consts + p_minted p = isqrt (d0 * d1).
Proof.
  intros Hr HS H. pose proof (reachable_inv _ Hr) as HI. unfold step in H.
  destruct (op_wf _) eqn:Ewf; cbn [negb] in H; [|discriminate]. cbn [op_wf] in Ewf.
  apply andb_true_iff in Ewf as [Ewf _]. apply andb_true_iff in Ewf as [W0 W1].
  pose proof (provide_ok _ _ _ _ _ _ _ _ _ HI the_minliq_pos W0 W1 H) as Hk. cbv zeta in Hk.
  destruct Hk as (K1 & K2 & K3 & _ & _ & _ & _ & _ & B0 & B1 & _ & _ & P0 & P1 & _ & _ & _ & _ & _ & _ & _ & Hr2 & Hcase).
  destruct Hcase as [(Z1 & Z2 & Z3 & Z4 & Z5) | (Z1 & _)]; [|lia].
  destruct HI as [_ _ _ _ Hnn _ Hlen _ _].
  split; [|auto]. rewrite Z5.
  set (rcv := match rc with Some r => r | None => who end) in *.
  destruct (Nat.eq_dec rcv 0) as [->|Hne].
  - rewrite getn_setn_same by (rewrite setn_length; lia). rewrite getn_setn_same by lia. lia.
  - rewrite getn_setn_other by assumption. rewrite getn_setn_same by lia. lia.
Qed.

Lemma r_locked_forever s ops : reachable s -> 0 < supply s ->
  let s' := run the_consts s ops in
  c_minliq the_consts <= getn (lp s') 0 /\ c_minliq the_consts <= supply s'.
Proof.
  intros Hr HS. cbv zeta. apply reachable_inv in Hr.
  pose proof (run_inv the_consts s ops the_minliq_pos Hr) as [HI' Hpos]. specialize (Hpos HS).
  destruct HI' as [_ _ _ _ Hnn Hsum _ Hlock _]. specialize (Hlock Hpos).
  pose proof (getn_le_sum (lp (run the_consts s ops)) 0 Hnn). lia.
Qed.

Lemma r_deposit_withdraw s who d0 d1 tol s1 p1 s2 p2 : reachable s ->
  (0 < supply s \/ (res0 s = 0 /\ res1 s = 0)) ->
  step the_consts s (Provide who d0 d1 tol None) = Ok (s1, p1) ->
  step the_consts s1 (Withdraw who (p_minted p1)) = Ok (s2, p2) ->
  p_ref0 p2 <= d0 /\ p_ref1 p2 <= d1.
Proof. intros Hr. apply deposit_withdraw. apply the_minliq_pos. apply reachable_inv; assumption. Qed.
