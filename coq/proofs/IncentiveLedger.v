(* IncentiveLedger.v — outcome-monad inversion lemmas and the ledger effect of a contract call
   (attached funds + emitted messages) as an explicit balance delta. *)
From WW Require Import Prim Params Incentive.
From Coq Require Import Lia.

Lemma bind_ok {A B} (m : outcome A) (f : A -> outcome B) b :
  bind m f = Ok b -> exists a, m = Ok a /\ f a = Ok b.
Proof. destruct m; cbn; intros H; try discriminate. eauto. Qed.

Lemma ensure_ok b c u : ensure b c = Ok u -> b = true.
Proof. unfold ensure. destruct b; intros; congruence. Qed.

Lemma must_ok b u : must b = Ok u -> b = true.
Proof. unfold must. destruct b; intros; congruence. Qed.

Lemma cadd_ok w a b r : cadd w a b = Ok r -> r = a + b.
Proof. unfold cadd. destruct (fits w (a + b)); intros; congruence. Qed.
Lemma padd_ok w a b r : padd w a b = Ok r -> r = a + b.
Proof. unfold padd. destruct (fits w (a + b)); intros; congruence. Qed.
Lemma ssub_le a b : b <= a -> ssub a b = a - b.
Proof. unfold ssub. lia. Qed.
Lemma ssub_nonneg a b : 0 <= ssub a b.
Proof. unfold ssub. lia. Qed.

(* one tactic to peel `do x <- m; k` = Ok _ *)
Ltac inv_bind H :=
  let a := fresh "x" in let H1 := fresh "E" in
  apply bind_ok in H; destruct H as [a [H1 H]].

(* ---- balance deltas ---------------------------------------------------------------------------------- *)
Definition tdelta (from to a amt x s : Z) : Z :=
  if s =? a then (if x =? to then amt else 0) - (if x =? from then amt else 0) else 0.

Lemma transfer_delta b from to a amt b' :
  transfer b from to a amt = Ok b' -> forall x s, b' x s = b x s + tdelta from to a amt x s.
Proof.
  unfold transfer. destruct (is_native a && (amt =? 0)); [discriminate|].
  destruct (b from a <? amt); [discriminate|].
  destruct (_ <? P128); [|discriminate].
  intros H; inversion H; subst; clear H. intros x s. unfold upd_bal, tdelta.
  destruct (x =? to) eqn:Ext, (s =? a) eqn:Esa, (x =? from) eqn:Exf, (to =? from) eqn:Etf; cbn;
    repeat match goal with
           | H : (_ =? _) = true |- _ => apply Z.eqb_eq in H
           | H : (_ =? _) = false |- _ => apply Z.eqb_neq in H
           end; subst; try lia;
    repeat rewrite Z.eqb_refl; cbn; try lia.
  all: try (destruct (to =? from) eqn:E2; [apply Z.eqb_eq in E2; congruence|]); cbn; try lia.
  all: try (destruct (from =? to) eqn:E3; [apply Z.eqb_eq in E3; congruence|]); cbn; try lia.
Qed.

Definition mdelta (m : msg) (x s : Z) : Z :=
  match m with
  | MSend to a amt => tdelta SELF to a amt x s
  | MPull owner to a amt => tdelta owner to a amt x s
  end.
Fixpoint msdelta (ms : list msg) (x s : Z) : Z :=
  match ms with [] => 0 | m :: r => mdelta m x s + msdelta r x s end.
Fixpoint fdelta (sender : Z) (fs : list (Z * Z)) (x s : Z) : Z :=
  match fs with [] => 0 | (d, a) :: r => tdelta sender SELF d a x s + fdelta sender r x s end.

Lemma msdelta_app ms1 ms2 x s : msdelta (ms1 ++ ms2) x s = msdelta ms1 x s + msdelta ms2 x s.
Proof. induction ms1; cbn; lia. Qed.

Lemma run_msgs_delta ms : forall b al b',
  run_msgs ms b al = Ok b' -> forall x s, b' x s = b x s + msdelta ms x s.
Proof.
  induction ms as [|m r IH]; cbn; intros b al b' H x s.
  - inversion H; lia.
  - destruct m as [to a amt | owner to a amt].
    + inv_bind H. rewrite (IH _ _ _ H), (transfer_delta _ _ _ _ _ _ E). cbn. lia.
    + destruct (is_native a); [discriminate|]. destruct (aget0 a al <? amt); [discriminate|].
      inv_bind H. rewrite (IH _ _ _ H), (transfer_delta _ _ _ _ _ _ E). cbn. lia.
Qed.

Lemma attach_delta fs : forall b sender b',
  attach fs b sender = Ok b' -> forall x s, b' x s = b x s + fdelta sender fs x s.
Proof.
  induction fs as [|[d a] r IH]; cbn; intros b sender b' H x s.
  - inversion H; lia.
  - inv_bind H. rewrite (IH _ _ _ H), (transfer_delta _ _ _ _ _ _ E). lia.
Qed.

(* the effect of a contract call: state of the handler, balances moved by funds and messages *)
Lemma call_ok st sender fs al h st2 :
  call st sender fs al h = Ok st2 ->
  exists st1 ms, h = Ok (st1, ms) /\
    (forall x s, s_bal st2 x s = s_bal st x s + fdelta sender fs x s + msdelta ms x s) /\
    st2 = with_bal st1 (s_bal st2).
Proof.
  unfold call. intros H.
  apply bind_ok in H as [b1 [Ea H]]. apply bind_ok in H as [[st1 ms] [Eh H]]. apply bind_ok in H as [b2 [Er H]].
  inversion H; subst; clear H. exists st1, ms. split; [reflexivity|]. split; [|reflexivity].
  intros a s. cbn. rewrite (run_msgs_delta _ _ _ _ Er), (attach_delta _ _ _ _ Ea). lia.
Qed.

(* sums of attached coins per denom *)
Fixpoint coin_sum (a : Z) (fs : list (Z * Z)) : Z :=
  match fs with [] => 0 | (d, v) :: r => (if d =? a then v else 0) + coin_sum a r end.

Lemma fdelta_self sender fs s : sender <> SELF -> fdelta sender fs SELF s = coin_sum s fs.
Proof.
  intros Hs. induction fs as [|[d a] r IH]; cbn; [reflexivity|]. rewrite IH. unfold tdelta.
  rewrite Z.eqb_refl. rewrite (Z.eqb_sym s d).
  destruct (SELF =? sender) eqn:E; [apply Z.eqb_eq in E; congruence|]. destruct (d =? s); lia.
Qed.

Definition coins_nonneg (fs : list (Z * Z)) : Prop := Forall (fun c => 0 <= snd c) fs.
Lemma coin_sum_nonneg a fs : coins_nonneg fs -> 0 <= coin_sum a fs.
Proof.
  induction 1 as [|[d v] r H _ IH]; cbn in *; [lia|]. destruct (d =? a); lia.
Qed.
