(* VaultFunds.v — vault-router loans with coins attached by the initiator (C06): same settlement as without them *)
From WW Require Import Prim Vault.
From WW.Proofs Require Import ArithLemmas VaultLedger VaultProofs.

Lemma router_loan_f_settles u z pre s f st st' : Inv st -> loan_free s = true -> u <> ROUTER -> u <> VAULT ->
  router_loan_f u z pre s f st = Ok st' ->
  bal st + fee_p st z + fee_f st z <= bal st' /\ burned st' = burned st + fee_b st z /\ allf st' = allf st + fee_p st z /\
  pend st' <= pend st + fee_p st z /\ counter st' = counter st /\ supply st' <= supply st /\ get (ab st') ROUTER = 0.
Proof.
  intros I Hlf Hr Hv H. unfold router_loan_f in H. destruct (f =? 0).
  - eapply router_loan_settles; eauto.
  - apply bind_ok in H as (ab' & EX & H).
    pose proof (Q_xfer _ _ _ _ _ _ I EX) as Q1. assert (I1 : Inv (set_ab st ab')) by apply Q1.
    pose proof (router_loan_settles _ _ _ _ _ _ I1 Hlf Hr H) as R.
    pose proof (xfer_get _ _ _ _ _ _ VAULT EX) as GV.
    replace (Nat.eqb VAULT u) with false in GV by (symmetry; apply Nat.eqb_neq; auto).
    replace (Nat.eqb VAULT ROUTER) with false in GV by reflexivity.
    assert (Hb : bal (set_ab st ab') = bal st) by (unfold bal; cbn [ab set_ab]; lia).
    unfold fee_p, fee_f, fee_b in *. cbn [conf set_ab pend allf burned counter] in R.
    rewrite Hb in R. unfold supply in *. cbn [lp set_ab] in R. exact R.
Qed.
