(* PipelineHistory.v — the take-rate ledger (TAKE_RATE_HISTORY) over whole histories (C10):
   the recorded per-epoch takes sum to exactly what the DAO received, every record belongs to an epoch that exists, and there is at
   most one record per epoch. *)
From WW Require Import Prim Params Epochs Distributor Lair Pipeline.
From WW.Proofs Require Import ArithLemmas LairProofs EpochsProofs DistributorProofs PipelineProofs.

Local Open Scope Z_scope.

Definition hist_sum (l : list (Z * Z)) : Z := sumZ (map snd l).

(* HInv: sum of the records = DAO balance; every key is an existing epoch id (1 .. current); keys are pairwise distinct *)
Record HInv (s : pstate) : Prop := mkHInv {
  hi_sum : hist_sum (p_history s) = p_dao s;
  hi_keys : Forall (fun kv => 1 <= fst kv <= e_id (cur_epoch (p_dist s))) (p_history s);
  hi_nodup : NoDup (map fst (p_history s))
}.

Lemma zset_fresh k v l : Forall (fun kv => fst kv < k) l -> zset k v l = l ++ [(k, v)].
Proof.
  induction 1 as [|[k' v'] r H _ IH]; cbn [zset app]; [reflexivity|].
  cbn [fst] in H. destruct (k =? k') eqn:E; [apply Z.eqb_eq in E; lia|]. rewrite IH. reflexivity.
Qed.

Lemma hist_sum_app a b : hist_sum (a ++ b) = hist_sum a + hist_sum b.
Proof. unfold hist_sum. induction a as [|x r IH]; cbn [app map sumZ]; lia. Qed.

Lemma new_epoch_cur_id k c now d ok fee d' :
  Inv k d -> 0 <= fee -> new_epoch c now d ok fee = Ok d' ->
  e_id (cur_epoch d') = e_id (cur_epoch d) + 1.
Proof.
  intros I F H. pose proof (new_epoch_inv _ _ _ _ _ _ _ I F H) as I'.
  rewrite (cur_epoch_id d' (inv_ids _ _ I')), (cur_epoch_id d (inv_ids _ _ I)).
  pose proof (new_epoch_spec _ _ _ _ _ _ _ I F H) as S. cbn zeta in S.
  destruct S as (_ & _ & _ & ne & _ & _ & _ & Hfull & Hshort).
  destruct (le_lt_dec (Z.to_nat (d_grace d)) (length (d_epochs d))) as [L|L].
  - destruct (Hfull L) as (x & _ & _ & E). rewrite E. cbn [length]. rewrite esave_length. lia.
  - destruct (Hshort L) as (_ & E). rewrite E. cbn [length]. lia.
Qed.

Lemma pstep_hinv c now s o s' : PInv s -> HInv s -> pop_wf o -> pstep c now s o = Ok s' -> HInv s'.
Proof.
  intros I HI W H. destruct o as [fd| |ok ts|assets|admin active rate dao|x].
  - cbn [pstep] in H. cbn [pop_wf] in W.
    destruct (pipeline_new_epoch _ _ _ _ _ I W H) as (b3 & b4 & _ & _ & _ & R). cbn zeta in R.
    destruct R as (_ & FB & DAO & _ & _ & HIST & _ & NE & _ & _ & _).
    set (B := zget DIST b4) in *. set (fee := take_rate_fee s B) in *.
    destruct (pi_dist s I) as [k ID].
    assert (CUR : e_id (cur_epoch (p_dist s')) = e_id (cur_epoch (p_dist s)) + 1).
    { eapply new_epoch_cur_id; eauto. lia. }
    destruct HI as [HS HK HN].
    assert (HK' : Forall (fun kv => 1 <= fst kv <= e_id (cur_epoch (p_dist s'))) (p_history s)).
    { eapply Forall_impl; [|exact HK]. cbn beta. intros kv Hkv. rewrite CUR. lia. }
    destruct (fee =? 0) eqn:EF.
    + apply Z.eqb_eq in EF. constructor; rewrite HIST; auto. rewrite DAO, HS. lia.
    + assert (FR : Forall (fun kv => fst kv < e_id (cur_epoch (p_dist s)) + 1) (p_history s)).
      { eapply Forall_impl; [|exact HK]. cbn beta. intros kv Hkv. lia. }
      rewrite (zset_fresh _ _ _ FR) in HIST.
      assert (POS : 0 <= e_id (cur_epoch (p_dist s))).
      { rewrite (cur_epoch_id _ (inv_ids _ _ ID)). lia. }
      constructor; rewrite HIST.
      * rewrite hist_sum_app, HS, DAO. unfold hist_sum. cbn. lia.
      * apply Forall_app. split; [exact HK'|]. constructor; [|constructor]. cbn [fst]. rewrite CUR. lia.
      * rewrite map_app. cbn [map fst]. apply NoDup_app_intro; [exact HN | repeat constructor; intros [] |].
        intros y Hy [<-|[]]. apply in_map_iff in Hy as (kv & Ey & Hin).
        rewrite Forall_forall in FR. specialize (FR kv Hin). lia.
  - discriminate.
  - destruct (pipeline_collect_aggregate_frame c now s (PCollect ok ts) s') as (E1 & E2 & E3 & _); eauto.
    destruct HI as [HS HK HN]. constructor; rewrite ?E1, ?E2, ?E3; auto.
  - destruct (pipeline_collect_aggregate_frame c now s (PAggregate assets) s') as (E1 & E2 & E3 & _); eauto.
    destruct HI as [HS HK HN]. constructor; rewrite ?E1, ?E2, ?E3; auto.
  - cbn [pstep] in H. apply bind_ok in H as [u1 [_ H]]. apply bind_ok in H as [u2 [_ H]]. inversion H; subst.
    destruct HI as [HS HK HN]. constructor; cbn [p_history p_dao p_dist]; auto.
  - destruct (pipeline_plain_transfer_frame _ _ _ _ _ H) as (_ & _ & E1 & E2 & _ & _ & _ & _ & E3 & _).
    destruct HI as [HS HK HN]. constructor; rewrite ?E1, ?E2; auto.
    unfold cur_epoch. rewrite E3. exact HK.
Qed.

Lemma hinv_init g : HInv (pinit g).
Proof. constructor; cbn; [reflexivity | constructor | constructor]. Qed.

Theorem pipeline_take_rate_history c g h : 1 <= g -> phist_wf h ->
  let s := prun c g h in
  hist_sum (p_history s) = p_dao s /\
  Forall (fun kv => 1 <= fst kv <= e_id (cur_epoch (p_dist s))) (p_history s) /\
  NoDup (map fst (p_history s)).
Proof.
  intros G W. cbn zeta.
  assert (R : PInv (prun c g h) /\ HInv (prun c g h)).
  { unfold prun. assert (I : PInv (pinit g)) by (apply pinv_init; auto). pose proof (hinv_init g) as HI.
    revert I HI. generalize (pinit g). induction h as [|e r IH]; intros s I HI; cbn [fold_left]; auto.
    inversion W; subst. unfold phstep at 2 4.
    destruct (pstep c (fst e) s (snd e)) as [s'| |] eqn:E; auto.
    apply IH; auto; [eapply pstep_inv; eauto | eapply pstep_hinv; eauto]. }
  destruct R as [_ [A B C]]. auto.
Qed.
