(* RegistryProofs.v — C19: canonical keys, sorted registries, remove / re-create, pagination, routes. *)
From WW Require Import Prim Corr Registry.
From Coq Require Import Lia Permutation Sorting.Sorted.

(* ================= byte order ================================================================================ *)
Lemma blt_irrefl a : blt a a = false.
Proof. induction a as [|x a IH]; cbn; [reflexivity|]. rewrite Z.ltb_irrefl. exact IH. Qed.

Lemma blt_trans a : forall b c, blt a b = true -> blt b c = true -> blt a c = true.
Proof.
  induction a as [|x a IH]; intros [|y b] [|z c] H1 H2; cbn in *; try discriminate; try reflexivity.
  destruct (Z.ltb_spec x y).
  - destruct (Z.ltb_spec y z).
    + destruct (Z.ltb_spec x z); [reflexivity | lia].
    + destruct (Z.ltb_spec z y); [discriminate|]. assert (y = z) by lia. subst.
      destruct (Z.ltb_spec x z); [reflexivity | lia].
  - destruct (Z.ltb_spec y x); [discriminate|]. assert (x = y) by lia. subst.
    destruct (Z.ltb_spec y z); [reflexivity|].
    destruct (Z.ltb_spec z y); [discriminate|]. eapply IH; eauto.
Qed.

Lemma blt_asym a b : blt a b = true -> blt b a = false.
Proof.
  intro H. destruct (blt b a) eqn:E; [|reflexivity].
  pose proof (blt_trans _ _ _ H E) as C. rewrite blt_irrefl in C. discriminate.
Qed.

Lemma blt_total a : forall b, blt a b = false -> blt b a = false -> a = b.
Proof.
  induction a as [|x a IH]; intros [|y b] H1 H2; cbn in *; try discriminate; try reflexivity.
  destruct (Z.ltb_spec x y); [discriminate|]. destruct (Z.ltb_spec y x); [discriminate|].
  assert (x = y) by lia. subst. f_equal. apply IH; assumption.
Qed.

Lemma beq_eq a b : beq a b = true <-> a = b.
Proof. unfold beq. apply list_eqb_eq. Qed.
Lemma beq_refl a : beq a a = true. Proof. apply beq_eq. reflexivity. Qed.
Lemma beq_false_neq a b : beq a b = false -> a <> b.
Proof. intros H E. subst. rewrite beq_refl in H. discriminate. Qed.
Lemma beq_neq_false a b : a <> b -> beq a b = false.
Proof. intro H. destruct (beq a b) eqn:E; [apply beq_eq in E; contradiction | reflexivity]. Qed.

(* ================= sorting: the canonical order does not depend on the order of the arguments =============== *)
Definition ble (a b : bytes) : Prop := blt b a = false.

Lemma binsert_perm x l : Permutation (binsert x l) (x :: l).
Proof.
  induction l as [|y r IH]; cbn; [apply Permutation_refl|].
  destruct (blt x y); [apply Permutation_refl|].
  eapply Permutation_trans; [apply perm_skip; exact IH | apply perm_swap].
Qed.
Lemma bsort_perm l : Permutation (bsort l) l.
Proof.
  induction l as [|x r IH]; cbn; [constructor|].
  eapply Permutation_trans; [apply binsert_perm | apply perm_skip; exact IH].
Qed.

Lemma binsert_sorted x l : StronglySorted ble l -> StronglySorted ble (binsert x l).
Proof.
  induction l as [|y r IH]; intro Hs; cbn.
  - constructor; constructor.
  - inversion Hs as [|? ? Hr Hy]; subst. destruct (blt x y) eqn:E.
    + constructor; [assumption|]. constructor.
      * unfold ble. apply blt_asym. assumption.
      * rewrite Forall_forall in *. intros z Hz. specialize (Hy z Hz). unfold ble in *.
        destruct (blt z x) eqn:Ez; [|reflexivity].
        pose proof (blt_trans _ _ _ Ez E) as C. rewrite C in Hy. discriminate.
    + constructor; [apply IH; assumption|].
      rewrite Forall_forall. intros z Hz.
      apply (Permutation_in _ (binsert_perm x r)) in Hz. destruct Hz as [<- | Hz].
      * unfold ble. assumption.
      * rewrite Forall_forall in Hy. apply Hy; assumption.
Qed.
Lemma bsort_sorted l : StronglySorted ble (bsort l).
Proof. induction l as [|x r IH]; cbn; [constructor | apply binsert_sorted; assumption]. Qed.

Lemma sorted_perm_unique : forall l1 l2, StronglySorted ble l1 -> StronglySorted ble l2 -> Permutation l1 l2 -> l1 = l2.
Proof.
  induction l1 as [|x r1 IH]; intros l2 H1 H2 Hp.
  - apply Permutation_nil in Hp. subst. reflexivity.
  - destruct l2 as [|y r2]; [apply Permutation_sym, Permutation_nil in Hp; discriminate|].
    inversion H1 as [|? ? Hr1 Hx]; subst. inversion H2 as [|? ? Hr2 Hy]; subst.
    assert (x = y).
    { assert (In y (x :: r1)) as Iy by (eapply Permutation_in; [apply Permutation_sym; exact Hp | left; reflexivity]).
      assert (In x (y :: r2)) as Ix by (eapply Permutation_in; [exact Hp | left; reflexivity]).
      destruct Iy as [-> | Iy]; [reflexivity|]. destruct Ix as [<- | Ix]; [reflexivity|].
      rewrite Forall_forall in Hx, Hy. specialize (Hx y Iy). specialize (Hy x Ix). unfold ble in *.
      apply blt_total; assumption. }
    subst. f_equal. apply IH; try assumption. eapply Permutation_cons_inv; exact Hp.
Qed.

Theorem bsort_perm_invariant : forall l l', Permutation l l' -> bsort l = bsort l'.
Proof.
  intros l l' Hp. apply sorted_perm_unique; try apply bsort_sorted.
  eapply Permutation_trans; [apply bsort_perm|]. eapply Permutation_trans; [exact Hp|]. apply Permutation_sym, bsort_perm.
Qed.

Theorem pair_key_comm a b : pair_key a b = pair_key b a.
Proof. unfold pair_key. f_equal. apply bsort_perm_invariant. apply perm_swap. Qed.

Theorem trio_key_perm a b c :
  trio_key a c b = trio_key a b c /\ trio_key b a c = trio_key a b c /\ trio_key b c a = trio_key a b c /\
  trio_key c a b = trio_key a b c /\ trio_key c b a = trio_key a b c.
Proof.
  unfold trio_key. repeat split; f_equal; apply bsort_perm_invariant.
  - apply perm_skip, perm_swap.
  - apply perm_swap.
  - eapply Permutation_trans; [apply perm_skip, perm_swap | apply perm_swap].
  - eapply Permutation_trans; [apply perm_swap | apply perm_skip, perm_swap].
  - eapply Permutation_trans; [apply perm_swap|]. eapply Permutation_trans; [apply perm_skip, perm_swap | apply perm_swap].
Qed.

(* ================= sorted association lists ========================================================================= *)
Section Reg.
  Context {E : Type}.
  Definition klt (p q : bytes * E) : Prop := blt (fst p) (fst q) = true.
  Definition rsorted (r : reg E) : Prop := StronglySorted klt r.

  Lemma rsorted_nil : rsorted (@nil (bytes * E)). Proof. constructor. Qed.

  Lemma reg_get_In (k : bytes) (e : E) (r : reg E) : reg_get k r = Some e -> In (k, e) r.
  Proof.
    induction r as [|[k' e'] t IH]; cbn; [discriminate|].
    destruct (beq k k') eqn:B.
    - intro H; inversion H; subst. apply beq_eq in B. subst. left; reflexivity.
    - intro H. right. apply IH. assumption.
  Qed.

  Lemma rsorted_head_lt (k : bytes) (e : E) (t : reg E) (k' : bytes) (e' : E) : rsorted ((k, e) :: t) -> In (k', e') t -> blt k k' = true.
  Proof. intros Hs Hin. inversion Hs as [|? ? _ Hall]; subst. rewrite Forall_forall in Hall. apply (Hall (k', e') Hin). Qed.

  Lemma In_reg_get (k : bytes) (e : E) (r : reg E) : rsorted r -> In (k, e) r -> reg_get k r = Some e.
  Proof.
    induction r as [|[k' e'] t IH]; intros Hs Hin; [contradiction|]. cbn.
    destruct Hin as [Heq|Hin].
    - inversion Heq; subst. rewrite beq_refl. reflexivity.
    - pose proof (rsorted_head_lt _ _ _ _ _ Hs Hin) as Hlt.
      assert (beq k k' = false) as B.
      { apply beq_neq_false. intro; subst. rewrite blt_irrefl in Hlt. discriminate. }
      rewrite B. apply IH; [inversion Hs; assumption | assumption].
  Qed.

  (* keys are unique *)
  Lemma rsorted_key_unique (r : reg E) (k : bytes) (e1 e2 : E) : rsorted r -> In (k, e1) r -> In (k, e2) r -> e1 = e2.
  Proof. intros Hs H1 H2. apply (In_reg_get _ _ _ Hs) in H1. apply (In_reg_get _ _ _ Hs) in H2. congruence. Qed.

  Lemma reg_put_mem (k : bytes) (e : E) (r : reg E) : forall p, In p (reg_put k e r) -> p = (k, e) \/ In p r.
  Proof.
    induction r as [|[k0 e0] t IH]; intros p Hin; cbn in Hin.
    - destruct Hin as [H|[]]. left; auto.
    - destruct (beq k k0).
      + destruct Hin as [H|Hin]; [left; auto | right; right; assumption].
      + destruct (blt k k0).
        * destruct Hin as [H|Hin]; [left; auto | right; assumption].
        * destruct Hin as [H|Hin]; [right; left; assumption|].
          destruct (IH _ Hin) as [H|H]; [left; assumption | right; right; assumption].
  Qed.
  Lemma reg_del_mem (k : bytes) (r : reg E) : forall p, In p (reg_del k r) -> In p r.
  Proof.
    induction r as [|[k0 e0] t IH]; intros p Hin; cbn in Hin; [contradiction|].
    destruct (beq k k0); [right; assumption|]. destruct Hin as [H|Hin]; [left; assumption | right; apply IH; assumption].
  Qed.

  Lemma reg_get_put_same (k : bytes) (e : E) (r : reg E) : reg_get k (reg_put k e r) = Some e.
  Proof.
    induction r as [|[k0 e0] t IH]; cbn; [rewrite beq_refl; reflexivity|].
    destruct (beq k k0) eqn:B; cbn; [rewrite beq_refl; reflexivity|].
    destruct (blt k k0); cbn; [rewrite beq_refl; reflexivity|]. rewrite B. exact IH.
  Qed.
  Lemma reg_get_put_other (k : bytes) (e : E) (r : reg E) (k' : bytes) : k' <> k -> reg_get k' (reg_put k e r) = reg_get k' r.
  Proof.
    intro Hne. induction r as [|[k0 e0] t IH]; cbn.
    - rewrite (beq_neq_false _ _ Hne). reflexivity.
    - destruct (beq k k0) eqn:B.
      + apply beq_eq in B. subst k0. cbn. rewrite (beq_neq_false _ _ Hne). reflexivity.
      + destruct (blt k k0); cbn.
        * rewrite (beq_neq_false _ _ Hne). reflexivity.
        * destruct (beq k' k0); [reflexivity | exact IH].
  Qed.
  Lemma reg_get_del_other (k : bytes) (r : reg E) (k' : bytes) : k' <> k -> reg_get k' (reg_del k r) = reg_get k' r.
  Proof.
    intro Hne. induction r as [|[k0 e0] t IH]; cbn; [reflexivity|].
    destruct (beq k k0) eqn:B.
    - apply beq_eq in B. subst k0. rewrite (beq_neq_false _ _ Hne). reflexivity.
    - cbn. destruct (beq k' k0); [reflexivity | exact IH].
  Qed.

  Lemma reg_put_sorted (k : bytes) (e : E) (r : reg E) : rsorted r -> rsorted (reg_put k e r).
  Proof.
    induction r as [|[k0 e0] t IH]; intro Hs; cbn.
    - constructor; constructor.
    - inversion Hs as [|? ? Ht Hall]; subst. destruct (beq k k0) eqn:B.
      + apply beq_eq in B. subst k0. constructor; assumption.
      + destruct (blt k k0) eqn:L.
        * constructor; [assumption|]. constructor; [exact L|].
          rewrite Forall_forall in *. intros q Hq. unfold klt in *. cbn [fst] in *. eapply blt_trans; [exact L | apply Hall; assumption].
        * constructor; [apply IH; assumption|].
          rewrite Forall_forall in *. intros q Hq. apply reg_put_mem in Hq as [-> | Hq].
          -- unfold klt; cbn [fst]. destruct (blt k0 k) eqn:L2; [reflexivity|].
             exfalso. apply (beq_false_neq _ _ B). apply blt_total; assumption.
          -- apply Hall; assumption.
  Qed.
  Lemma reg_del_sorted (k : bytes) (r : reg E) : rsorted r -> rsorted (reg_del k r).
  Proof.
    induction r as [|[k0 e0] t IH]; intro Hs; cbn; [constructor|].
    inversion Hs as [|? ? Ht Hall]; subst. destruct (beq k k0); [assumption|].
    constructor; [apply IH; assumption|]. rewrite Forall_forall in *. intros q Hq. apply Hall. eapply reg_del_mem; eassumption.
  Qed.
  Lemma reg_get_del_same (k : bytes) (r : reg E) : rsorted r -> reg_get k (reg_del k r) = None.
  Proof.
    induction r as [|[k0 e0] t IH]; intro Hs; cbn; [reflexivity|].
    inversion Hs as [|? ? Ht Hall]; subst. destruct (beq k k0) eqn:B.
    - apply beq_eq in B. subst k0.
      destruct (reg_get k t) as [e|] eqn:G; [|reflexivity].
      apply reg_get_In in G. rewrite Forall_forall in Hall. specialize (Hall _ G). unfold klt in Hall; cbn in Hall.
      rewrite blt_irrefl in Hall. discriminate.
    - cbn. rewrite B. apply IH; assumption.
  Qed.
End Reg.

(* ================= pagination ========================================================================================= *)
(* k' is k followed by a byte < 1, or by exactly the byte 1: the keys the exclusive cursor `k ++ [1]` wrongly skips *)
Fixpoint unsafeb (k k' : bytes) : bool :=
  match k, k' with
  | [], b :: t => (b <? 1) || ((b =? 1) && match t with [] => true | _ => false end)
  | x :: k1, y :: k1' => (x =? y) && unsafeb k1 k1'
  | _, _ => false
  end.
Definition cursor_safe (keys : list bytes) : Prop := forall k k', In k keys -> In k' keys -> unsafeb k k' = false.

Lemma blt_cursor k : blt k (cursor_of k) = true.
Proof. unfold cursor_of. induction k as [|x k IH]; cbn; [reflexivity|]. rewrite Z.ltb_irrefl. exact IH. Qed.

Lemma cursor_excludes k k' : blt k' k = true \/ k' = k -> blt (cursor_of k) k' = false.
Proof.
  intro H. destruct (blt (cursor_of k) k') eqn:E; [|reflexivity]. exfalso.
  pose proof (blt_cursor k) as Hc.
  destruct H as [H | ->].
  - pose proof (blt_trans _ _ _ (blt_trans _ _ _ Hc E) H) as C. rewrite blt_irrefl in C. discriminate.
  - pose proof (blt_trans _ _ _ Hc E) as C. rewrite blt_irrefl in C. discriminate.
Qed.

Lemma cursor_includes k : forall k', blt k k' = true -> unsafeb k k' = false -> blt (cursor_of k) k' = true.
Proof.
  unfold cursor_of. induction k as [|x k IH]; intros [|y k'] Hlt Hs; cbn in *; try discriminate.
  - apply orb_false_iff in Hs as [H1 H2].
    destruct (Z.ltb_spec 1 y); [reflexivity|]. destruct (Z.ltb_spec y 1); [discriminate|].
    assert (y = 1) by lia. subst. cbn in H2. destruct k'; [discriminate | reflexivity].
  - destruct (Z.ltb_spec x y); [reflexivity|]. destruct (Z.ltb_spec y x); [discriminate|].
    assert (x = y) by lia. subst. rewrite Z.eqb_refl in Hs. cbn in Hs. apply IH; assumption.
Qed.

Section Pages.
  Context {E : Type}.
  Notation rsortedE := (@rsorted E).

  Lemma sorted_app_inv (l1 l2 : reg E) : rsortedE (l1 ++ l2) ->
    rsortedE l1 /\ rsortedE l2 /\ (forall a b, In a l1 -> In b l2 -> klt a b).
  Proof.
    induction l1 as [|x l1 IH]; cbn; intro Hs.
    - repeat split; [constructor | assumption | intros a b []].
    - inversion Hs as [|? ? Ht Hall]; subst. destruct (IH Ht) as (S1 & S2 & C).
      rewrite Forall_forall in Hall. repeat split.
      + constructor; [assumption|]. rewrite Forall_forall. intros q Hq. apply Hall. apply in_or_app; left; assumption.
      + assumption.
      + intros a b [<-|Ha] Hb; [apply Hall; apply in_or_app; right; assumption | apply C; assumption].
  Qed.

  Lemma filter_split (c : bytes) (pre rest : reg E) :
    (forall p, In p pre -> blt c (fst p) = false) -> (forall p, In p rest -> blt c (fst p) = true) ->
    filter (fun p => blt c (fst p)) (pre ++ rest) = rest.
  Proof.
    intros Hpre Hrest. rewrite filter_app.
    assert (filter (fun p : bytes * E => blt c (fst p)) pre = []) as ->.
    { induction pre as [|x pre IH]; cbn; [reflexivity|]. rewrite (Hpre x (or_introl eq_refl)). apply IH. intros p Hp. apply Hpre. right; assumption. }
    cbn. induction rest as [|x rest IH]; cbn; [reflexivity|]. rewrite (Hrest x (or_introl eq_refl)). f_equal. apply IH. intros p Hp. apply Hrest. right; assumption.
  Qed.

  Lemma last_map_snoc (l : reg E) (p : bytes * E) :
    last (map (fun q => Some (fst q)) (l ++ [p])) None = Some (fst p).
  Proof. rewrite map_app. cbn. apply last_last. Qed.

  Lemma pages_from : forall fuel n (r : reg E), rsortedE r -> cursor_safe (map fst r) -> (1 <= n)%nat ->
    forall pre rest c, r = pre ++ rest -> (length rest < fuel)%nat ->
      (forall p, In p pre -> blt c (fst p) = false) -> (forall p, In p rest -> blt c (fst p) = true) ->
      pages fuel n (Some c) r = rest.
  Proof.
    induction fuel as [|f IH]; intros n r Hs Hsafe Hn pre rest c Hr Hlen Hpre Hrest; [lia|].
    cbn [pages]. unfold reg_range. rewrite Hr, (filter_split c pre rest Hpre Hrest).
    destruct rest as [|p0 rest'].
    - destruct n; reflexivity.
    - remember (firstn n (p0 :: rest')) as page eqn:Hpage.
      assert (page <> []) as Hne by (subst page; destruct n; [lia | discriminate]).
      destruct (exists_last Hne) as (page0 & plast & Hpl).
      rewrite Hpl, last_map_snoc. rewrite <- Hpl.
      assert (Hdecomp : p0 :: rest' = page ++ skipn n (p0 :: rest')) by (subst page; symmetry; apply firstn_skipn).
      assert (Hsr : rsortedE (pre ++ page ++ skipn n (p0 :: rest'))) by (rewrite <- Hdecomp, <- Hr; assumption).
      rewrite <- Hr.
      rewrite (IH n r Hs Hsafe Hn (pre ++ page) (skipn n (p0 :: rest')) (cursor_of (fst plast))).
      + symmetry. exact Hdecomp.
      + rewrite <- app_assoc, <- Hdecomp. exact Hr.
      + rewrite skipn_length. cbn [length] in *. destruct n; [lia|]. cbn. lia.
      + (* everything up to and including the last entry of the page is excluded by the new cursor *)
        intros p Hp. apply cursor_excludes.
        destruct (sorted_app_inv _ _ Hsr) as (_ & Hs2 & Cross).
        rewrite Hpl in Hs2, Cross. rewrite <- app_assoc in Hs2.
        apply in_app_or in Hp as [Hp|Hp].
        * left. apply (Cross p plast Hp). apply in_or_app; left. apply in_or_app; right; left; reflexivity.
        * rewrite Hpl in Hp. apply in_app_or in Hp as [Hp | [<- | []]]; [|right; reflexivity].
          left. destruct (sorted_app_inv _ _ Hs2) as (_ & _ & C2). apply (C2 p plast Hp). left; reflexivity.
      + (* everything after the page is included: it is greater than the last key and the keys are cursor-safe *)
        intros p Hp.
        assert (Hin_r : forall q, In q (pre ++ page ++ skipn n (p0 :: rest')) -> In (fst q) (map fst r)).
        { intros q Hq. apply in_map. rewrite Hr, Hdecomp. exact Hq. }
        apply cursor_includes.
        * destruct (sorted_app_inv _ _ Hsr) as (_ & Hs2 & _).
          destruct (sorted_app_inv _ _ Hs2) as (_ & _ & C2). apply (C2 plast p); [rewrite Hpl; apply in_or_app; right; left; reflexivity | assumption].
        * apply Hsafe; apply Hin_r.
          -- apply in_or_app; right. apply in_or_app; left. rewrite Hpl. apply in_or_app; right; left; reflexivity.
          -- apply in_or_app; right. apply in_or_app; right. assumption.
  Qed.

  (* walking the pages with any page size >= 1 returns the registry: every entry, once, in order *)
  Theorem pagination_partition (n : nat) (r : reg E) :
    rsortedE r -> cursor_safe (map fst r) -> (1 <= n)%nat -> all_pages n r = r.
  Proof.
    intros Hs Hsafe Hn. unfold all_pages. cbn [pages]. unfold reg_range.
    destruct r as [|p0 r'].
    - destruct n; reflexivity.
    - remember (firstn n (p0 :: r')) as page eqn:Hpage.
      assert (page <> []) as Hne by (subst page; destruct n; [lia | discriminate]).
      destruct (exists_last Hne) as (page0 & plast & Hpl).
      rewrite Hpl, last_map_snoc. rewrite <- Hpl.
      assert (Hdecomp : p0 :: r' = page ++ skipn n (p0 :: r')) by (subst page; symmetry; apply firstn_skipn).
      rewrite (pages_from (length (p0 :: r')) n (p0 :: r') Hs Hsafe Hn page (skipn n (p0 :: r')) (cursor_of (fst plast))).
      + symmetry. exact Hdecomp.
      + exact Hdecomp.
      + rewrite skipn_length. cbn [length]. destruct n; [lia|]. lia.
      + intros p Hp. apply cursor_excludes. rewrite Hdecomp in Hs.
        destruct (sorted_app_inv _ _ Hs) as (Hs1 & _ & _). rewrite Hpl in Hs1, Hp.
        apply in_app_or in Hp as [Hp | [<- | []]]; [|right; reflexivity].
        left. destruct (sorted_app_inv _ _ Hs1) as (_ & _ & C). apply (C p plast Hp). left; reflexivity.
      + intros p Hp. apply cursor_includes.
        * rewrite Hdecomp in Hs. destruct (sorted_app_inv _ _ Hs) as (_ & _ & C).
          apply (C plast p); [rewrite Hpl; apply in_or_app; right; left; reflexivity | assumption].
        * apply Hsafe; apply in_map; rewrite Hdecomp; apply in_or_app.
          -- left. rewrite Hpl. apply in_or_app; right; left; reflexivity.
          -- right. assumption.
  Qed.

  Lemma rsorted_keys_nodup (r : reg E) : rsortedE r -> NoDup (map fst r).
  Proof.
    induction r as [|[k e] t IH]; intro Hs; cbn; [constructor|].
    inversion Hs as [|? ? Ht Hall]; subst. constructor; [|apply IH; assumption].
    intro Hin. apply in_map_iff in Hin as ([k' e'] & Hk & Hin). cbn in Hk. subst k'.
    rewrite Forall_forall in Hall. specialize (Hall _ Hin). unfold klt in Hall. cbn in Hall. rewrite blt_irrefl in Hall. discriminate.
  Qed.
End Pages.

(* ================= the factories ========================================================================================== *)
Arguments pkey : simpl never.
Arguments tkey : simpl never.
Arguments raw : simpl never.
Arguments aref : simpl never.
Arguments in_universe : simpl never.
Arguments reg_get : simpl never.
Arguments reg_put : simpl never.
Arguments reg_del : simpl never.

Definition same_set2 (x y : Z * Z) : Prop := (fst x = fst y /\ snd x = snd y) \/ (fst x = snd y /\ snd x = fst y).
Definition pair_set (e : pair_e) : Z * Z := (pe_a e, pe_b e).

Lemma pkey_comm U a b : pkey U a b = pkey U b a.
Proof. unfold pkey. apply pair_key_comm. Qed.
Lemma pkey_same_set U a b c d : same_set2 (a, b) (c, d) -> pkey U a b = pkey U c d.
Proof. intros [[H1 H2]|[H1 H2]]; cbn in *; subst; [reflexivity | apply pkey_comm]. Qed.

Definition inv (U : universe) (s : state) : Prop :=
  rsorted (pairs s) /\ rsorted (trios s) /\ rsorted (vaults s) /\ rsorted (incentives s) /\
  (forall k e, In (k, e) (pairs s) -> k = pkey U (pe_a e) (pe_b e)) /\
  (forall k e, In (k, e) (trios s) -> k = tkey U (te_a e) (te_b e) (te_c e)) /\
  (forall k e, In (k, e) (vaults s) -> k = aref U (ce_a e)) /\
  (forall k e, In (k, e) (incentives s) -> k = raw U (ce_a e)).

Lemma inv_init U : inv U init_state.
Proof. unfold inv, init_state; cbn. repeat split; try apply rsorted_nil; intros k e []. Qed.

Lemma ensure_ok' b c u : ensure b c = Ok u -> b = true.
Proof. unfold ensure; destruct b; [reflexivity | discriminate]. Qed.
Ltac peel H :=
  match type of H with
  | bind (ensure ?b ?c) _ = Ok _ =>
      let E := fresh "E" in destruct (ensure b c) as [[]| |] eqn:E; cbn [bind] in H; [apply ensure_ok' in E | discriminate H | discriminate H]
  end.

Lemma step_inv U s o s' : inv U s -> step U s o = Ok s' -> inv U s'.
Proof.
  intros (Sp & St & Sv & Si & Kp & Kt & Kv & Ki) H. destruct o; cbn [step] in H.
  - (* CreatePair *) peel H. peel H. peel H. inversion H; subst; clear H. unfold inv; cbn [pairs trios vaults incentives routes tick]. repeat split; auto using reg_put_sorted.
    intros k e Hin. apply reg_put_mem in Hin as [Heq|Hin]; [inversion Heq; subst; reflexivity | auto].
  - (* RemovePair *) peel H. inversion H; subst; clear H. unfold inv; cbn [pairs trios vaults incentives routes tick]. repeat split; auto using reg_del_sorted.
    intros k e Hin. apply reg_del_mem in Hin. auto.
  - (* CreateTrio *) peel H. peel H. peel H. inversion H; subst; clear H. unfold inv; cbn [pairs trios vaults incentives routes tick]. repeat split; auto using reg_put_sorted.
    intros k e Hin. apply reg_put_mem in Hin as [Heq|Hin]; [inversion Heq; subst; reflexivity | auto].
  - (* RemoveTrio *) peel H. inversion H; subst; clear H. unfold inv; cbn [pairs trios vaults incentives routes tick]. repeat split; auto using reg_del_sorted.
    intros k e Hin. apply reg_del_mem in Hin. auto.
  - (* CreateVault *) peel H. peel H. inversion H; subst; clear H. unfold inv; cbn [pairs trios vaults incentives routes tick]. repeat split; auto using reg_put_sorted.
    intros k e Hin. apply reg_put_mem in Hin as [Heq|Hin]; [inversion Heq; subst; reflexivity | auto].
  - (* RemoveVault *) peel H. inversion H; subst; clear H. unfold inv; cbn [pairs trios vaults incentives routes tick]. repeat split; auto using reg_del_sorted.
    intros k e Hin. apply reg_del_mem in Hin. auto.
  - (* CreateIncentive *) peel H. peel H. inversion H; subst; clear H. unfold inv; cbn [pairs trios vaults incentives routes tick]. repeat split; auto using reg_put_sorted.
    intros k e Hin. apply reg_put_mem in Hin as [Heq|Hin]; [inversion Heq; subst; reflexivity | auto].
  - (* AddRoute *) peel H. peel H. inversion H; subst; clear H. unfold inv; cbn [pairs trios vaults incentives routes tick]. repeat split; auto.
  - (* RemoveRoute *) peel H. inversion H; subst; clear H. unfold inv; cbn [pairs trios vaults incentives routes tick]. repeat split; auto.
  - (* ExecHop *) destruct (lookup_pair U s a b); [|discriminate]. peel H. inversion H; subst. unfold inv. repeat split; auto.
Qed.

Lemma bump_inv U s : inv U s -> inv U (bump s).
Proof. unfold inv, bump; cbn. tauto. Qed.
Lemma next_inv U s o : inv U s -> inv U (next U s o).
Proof. intro Hi. unfold next. apply bump_inv. destruct (step U s o) eqn:E; [eapply step_inv; eauto | assumption | assumption]. Qed.
Lemma run_inv U ops : forall s, inv U s -> inv U (run U s ops).
Proof. induction ops as [|o r IH]; intros s Hi; cbn; [assumption | apply IH, next_inv, Hi]. Qed.
Theorem reachable_inv U ops : inv U (run U init_state ops).
Proof. apply run_inv, inv_init. Qed.

(* ---- one child per asset set, whatever the order of the assets ------------------------------------------------------------ *)
Theorem at_most_one_pair_per_set U s k1 e1 k2 e2 : inv U s ->
  In (k1, e1) (pairs s) -> In (k2, e2) (pairs s) -> same_set2 (pair_set e1) (pair_set e2) -> k1 = k2 /\ e1 = e2.
Proof.
  intros (Sp & _ & _ & _ & Kp & _) H1 H2 Hset.
  assert (k1 = k2) as ->.
  { rewrite (Kp _ _ H1), (Kp _ _ H2). apply pkey_same_set. destruct e1, e2; exact Hset. }
  split; [reflexivity | eapply rsorted_key_unique; eauto].
Qed.

Definition trio_perm (x y : Z * Z * Z) : Prop :=
  let '(a, b, c) := x in
  y = (a, b, c) \/ y = (a, c, b) \/ y = (b, a, c) \/ y = (b, c, a) \/ y = (c, a, b) \/ y = (c, b, a).
Lemma tkey_perm U a b c y : trio_perm (a, b, c) y -> (let '(p, q, r) := y in tkey U p q r) = tkey U a b c.
Proof.
  unfold tkey. pose proof (trio_key_perm (raw U a) (raw U b) (raw U c)) as (P1 & P2 & P3 & P4 & P5).
  intros [->|[->|[->|[->|[->| ->]]]]]; cbn; auto.
Qed.
Theorem at_most_one_trio_per_set U s k1 e1 k2 e2 : inv U s ->
  In (k1, e1) (trios s) -> In (k2, e2) (trios s) ->
  trio_perm (te_a e1, te_b e1, te_c e1) (te_a e2, te_b e2, te_c e2) -> k1 = k2 /\ e1 = e2.
Proof.
  intros (_ & St & _ & _ & _ & Kt & _) H1 H2 Hp.
  assert (k1 = k2) as ->.
  { rewrite (Kt _ _ H1), (Kt _ _ H2). symmetry. exact (tkey_perm U _ _ _ _ Hp). }
  split; [reflexivity | eapply rsorted_key_unique; eauto].
Qed.
Theorem at_most_one_vault_per_asset U s k1 e1 k2 e2 : inv U s ->
  In (k1, e1) (vaults s) -> In (k2, e2) (vaults s) -> ce_a e1 = ce_a e2 -> k1 = k2 /\ e1 = e2.
Proof.
  intros (_ & _ & Sv & _ & _ & _ & Kv & _) H1 H2 Ha.
  assert (k1 = k2) as -> by (rewrite (Kv _ _ H1), (Kv _ _ H2), Ha; reflexivity).
  split; [reflexivity | eapply rsorted_key_unique; eauto].
Qed.
Theorem at_most_one_incentive_per_asset U s k1 e1 k2 e2 : inv U s ->
  In (k1, e1) (incentives s) -> In (k2, e2) (incentives s) -> ce_a e1 = ce_a e2 -> k1 = k2 /\ e1 = e2.
Proof.
  intros (_ & _ & _ & Si & _ & _ & _ & Ki) H1 H2 Ha.
  assert (k1 = k2) as -> by (rewrite (Ki _ _ H1), (Ki _ _ H2), Ha; reflexivity).
  split; [reflexivity | eapply rsorted_key_unique; eauto].
Qed.

(* lookups do not depend on the order in which the assets are given *)
Theorem lookup_pair_order U s a b : lookup_pair U s a b = lookup_pair U s b a.
Proof. unfold lookup_pair. rewrite pkey_comm. reflexivity. Qed.
Theorem lookup_trio_order U s a b c y : trio_perm (a, b, c) y ->
  (let '(p, q, r) := y in lookup_trio U s p q r) = lookup_trio U s a b c.
Proof.
  intro Hp. pose proof (tkey_perm U a b c y Hp) as H. destruct y as [[p q] r]. unfold lookup_trio. rewrite H. reflexivity.
Qed.

(* a registered set cannot be created again, in either order *)
Theorem duplicate_pair_rejected U s k e a b : inv U s -> In (k, e) (pairs s) -> same_set2 (pair_set e) (a, b) ->
  is_ok (step U s (CreatePair a b)) = false.
Proof.
  intros Hi Hin Hset. destruct Hi as (Sp & _ & _ & _ & Kp & _).
  assert (lookup_pair U s a b = Some e) as L.
  { unfold lookup_pair. apply In_reg_get; [assumption|].
    assert (pkey U a b = k) as -> by (rewrite (Kp _ _ Hin); symmetry; apply pkey_same_set; destruct e; exact Hset). assumption. }
  cbn [step]. destruct (ensure (in_universe U a && in_universe U b) E_OTHER) as [[]| |]; cbn [bind is_ok]; try reflexivity.
  destruct (ensure (negb (a =? b)) E_OTHER) as [[]| |]; cbn [bind is_ok]; try reflexivity.
  rewrite L. reflexivity.
Qed.

(* ---- the registry tells the truth, under the hypothesis the proof forces: keys of different sets differ ---------------------- *)
Definition unambiguous2 (U : universe) : Prop := forall a b c d, pkey U a b = pkey U c d -> same_set2 (a, b) (c, d).

Theorem lookup_pair_sound U s a b e : inv U s -> unambiguous2 U ->
  lookup_pair U s a b = Some e -> same_set2 (pair_set e) (a, b) /\ In (pkey U a b, e) (pairs s).
Proof.
  intros (Sp & _ & _ & _ & Kp & _) Hu L. unfold lookup_pair in L. apply reg_get_In in L. split; [|assumption].
  apply Hu. symmetry. apply (Kp _ _ L).
Qed.

Theorem fresh_pair_created U s a b : inv U s -> unambiguous2 U ->
  in_universe U a = true -> in_universe U b = true -> a <> b ->
  (forall k e, In (k, e) (pairs s) -> ~ same_set2 (pair_set e) (a, b)) ->
  exists s', step U s (CreatePair a b) = Ok s' /\ lookup_pair U s' a b = Some (mkPairE a b (tick s)) /\ lookup_pair U s' b a = Some (mkPairE a b (tick s)).
Proof.
  intros Hi Hu Ha Hb Hne Hfresh.
  assert (lookup_pair U s a b = None) as L.
  { destruct (lookup_pair U s a b) as [e|] eqn:L; [|reflexivity]. exfalso.
    destruct (lookup_pair_sound U s a b e Hi Hu L) as [Hs Hin]. exact (Hfresh _ _ Hin Hs). }
  cbn [step]. rewrite Ha, Hb. cbn. assert (a =? b = false) as -> by (apply Z.eqb_neq; assumption). cbn. rewrite L. cbn.
  eexists. split; [reflexivity|]. unfold lookup_pair; cbn. rewrite <- (pkey_comm U a b). rewrite reg_get_put_same. split; reflexivity.
Qed.

(* what a successful creation files: the assets as requested, under the key of that set, stamped with the creating operation
   (the child's own report is compared with this entry on the implementation, monitor (d) of the harness) *)
Theorem entry_matches_request U s a b s' : inv U s -> step U s (CreatePair a b) = Ok s' ->
  lookup_pair U s' a b = Some (mkPairE a b (tick s)) /\ lookup_pair U s' b a = Some (mkPairE a b (tick s)) /\
  In (pkey U a b, mkPairE a b (tick s)) (pairs s') /\ a <> b.
Proof.
  intros Hi H. pose proof (step_inv _ _ _ _ Hi H) as (Sp' & _). cbn [step] in H. peel H. peel H. peel H. inversion H; subst; clear H.
  unfold lookup_pair; cbn [pairs]. rewrite <- (pkey_comm U a b), reg_get_put_same. repeat split.
  - apply reg_get_In. apply reg_get_put_same.
  - apply negb_true_iff, Z.eqb_neq in E0. assumption.
Qed.

(* ---- remove, then create again --------------------------------------------------------------------------------------------------- *)
Theorem remove_then_recreate_pair U s k e a b x y : inv U s -> In (k, e) (pairs s) ->
  same_set2 (pair_set e) (a, b) -> same_set2 (a, b) (x, y) -> in_universe U x = true -> in_universe U y = true -> x <> y ->
  exists s1, step U s (RemovePair a b) = Ok s1 /\
    lookup_pair U s1 a b = None /\ lookup_pair U s1 b a = None /\ ~ In (k, e) (pairs s1) /\
    (forall k', k' <> pkey U a b -> reg_get k' (pairs s1) = reg_get k' (pairs s)) /\
    exists s2, step U (bump s1) (CreatePair x y) = Ok s2 /\
      lookup_pair U s2 a b = Some (mkPairE x y (tick s + 1)) /\
      (forall k', k' <> pkey U a b -> reg_get k' (pairs s2) = reg_get k' (pairs s)).
Proof.
  intros Hi Hin Hset Hxy Hx Hy Hne. pose proof Hi as (Sp & _ & _ & _ & Kp & _).
  assert (Hk : k = pkey U a b) by (rewrite (Kp _ _ Hin); apply pkey_same_set; destruct e; exact Hset).
  assert (L : lookup_pair U s a b = Some e) by (unfold lookup_pair; apply In_reg_get; [assumption | rewrite <- Hk; assumption]).
  cbn [step]. rewrite L. cbn. eexists. split; [reflexivity|].
  assert (G : reg_get (pkey U a b) (reg_del (pkey U a b) (pairs s)) = None) by (apply reg_get_del_same; assumption).
  unfold lookup_pair; cbn. rewrite <- (pkey_comm U a b). repeat split; try exact G.
  - intro Hin'. subst k. apply In_reg_get in Hin'; [|apply reg_del_sorted; assumption]. rewrite G in Hin'. discriminate.
  - intros k' Hk'. apply reg_get_del_other; assumption.
  - rewrite Hx, Hy. cbn. assert (x =? y = false) as -> by (apply Z.eqb_neq; assumption). cbn.
    assert (pkey U x y = pkey U a b) as Kxy by (symmetry; apply pkey_same_set; exact Hxy).
    unfold lookup_pair; cbn. rewrite Kxy, G. cbn. eexists. split; [reflexivity|]. cbn. split.
    + rewrite reg_get_put_same. reflexivity.
    + intros k' Hk'. rewrite reg_get_put_other by assumption. apply reg_get_del_other; assumption.
Qed.

Theorem remove_then_recreate_vault U s k e a : inv U s -> In (k, e) (vaults s) -> ce_a e = a -> in_universe U a = true ->
  exists s1, step U s (RemoveVault a) = Ok s1 /\ lookup_vault U s1 a = None /\ ~ In (k, e) (vaults s1) /\
    exists s2, step U (bump s1) (CreateVault a) = Ok s2 /\ lookup_vault U s2 a = Some (mkChildE a (tick s + 1)).
Proof.
  intros Hi Hin Ha Hu. pose proof Hi as (_ & _ & Sv & _ & _ & _ & Kv & _).
  assert (Hk : k = aref U a) by (rewrite (Kv _ _ Hin), Ha; reflexivity).
  assert (L : lookup_vault U s a = Some e) by (unfold lookup_vault; apply In_reg_get; [assumption | rewrite <- Hk; assumption]).
  cbn [step]. rewrite L. cbn. eexists. split; [reflexivity|].
  assert (G : reg_get (aref U a) (reg_del (aref U a) (vaults s)) = None) by (apply reg_get_del_same; assumption).
  unfold lookup_vault; cbn. repeat split; try exact G.
  - intro Hin'. subst k. apply In_reg_get in Hin'; [|apply reg_del_sorted; assumption]. rewrite G in Hin'. discriminate.
  - rewrite Hu. cbn. unfold lookup_vault; cbn. rewrite G. cbn. eexists. split; [reflexivity|]. cbn. apply reg_get_put_same.
Qed.

(* ---- pagination over reachable states ----------------------------------------------------------------------------------------------- *)
Theorem pagination_partition_reachable U ops n : (1 <= n)%nat ->
  let s := run U init_state ops in
  (cursor_safe (map fst (pairs s)) -> all_pages n (pairs s) = pairs s) /\
  (cursor_safe (map fst (trios s)) -> all_pages n (trios s) = trios s) /\
  (cursor_safe (map fst (vaults s)) -> all_pages n (vaults s) = vaults s) /\
  (cursor_safe (map fst (incentives s)) -> all_pages n (incentives s) = incentives s) /\
  NoDup (map fst (pairs s)) /\ NoDup (map fst (trios s)) /\ NoDup (map fst (vaults s)) /\ NoDup (map fst (incentives s)).
Proof.
  intros Hn s. destruct (reachable_inv U ops) as (Sp & St & Sv & Si & _). fold s in Sp, St, Sv, Si.
  repeat split; intros; try (apply pagination_partition; assumption); apply rsorted_keys_nodup; assumption.
Qed.

(* ---- the router ------------------------------------------------------------------------------------------------------------------------- *)
Theorem routes_only_registered U s offer ask hops s' : step U s (AddRoute offer ask hops) = Ok s' ->
  hops <> [] /\ (forall a b, In (a, b) hops -> exists e, lookup_pair U s a b = Some e) /\
  In (mkRoute offer ask hops) (routes s') /\ pairs s' = pairs s.
Proof.
  intro H. cbn [step] in H. peel H. peel H. inversion H; subst; clear H. cbn. repeat split.
  - intro; subst. discriminate.
  - intros a b Hin. rewrite forallb_forall in E0. specialize (E0 _ Hin). cbn in E0.
    destruct (lookup_pair U s a b) as [e|]; [eauto | discriminate].
  - left; reflexivity.
Qed.
Theorem hop_only_through_registered U s a b s' : step U s (ExecHop a b) = Ok s' ->
  exists e, lookup_pair U s a b = Some e /\ (pe_a e = a \/ pe_b e = a) /\ s' = s.
Proof.
  intro H. cbn [step] in H. destruct (lookup_pair U s a b) as [e|]; [|discriminate]. peel H. inversion H; subst.
  exists e. split; [reflexivity|]. split; [|reflexivity]. apply orb_true_iff in E as [E|E]; apply Z.eqb_eq in E; auto.
Qed.
Theorem at_most_one_route U s offer ask hops s' : step U s (AddRoute offer ask hops) = Ok s' ->
  forall r, In r (routes s') -> route_eqb offer ask r = true -> r = mkRoute offer ask hops.
Proof.
  intro H. cbn [step] in H. peel H. peel H. inversion H; subst; clear H. cbn. intros r [<-|Hin] Hr; [reflexivity|].
  apply filter_In in Hin as [_ Hf]. rewrite Hr in Hf. discriminate.
Qed.

(* a rejected operation changes no registry *)
Theorem rejected_frame U s o : is_ok (step U s o) = false ->
  let s' := next U s o in pairs s' = pairs s /\ trios s' = trios s /\ vaults s' = vaults s /\ incentives s' = incentives s /\ routes s' = routes s.
Proof. intro H. unfold next. destruct (step U s o); [discriminate | |]; cbn; repeat split. Qed.

(* ================= the two findings, as facts about the model of the code as it is ================================================== *)
(* abc, abcd, abca, bcd *)
Definition U_ambiguous : universe :=
  [ mkAsset [97;98;99] [97;98;99]; mkAsset [97;98;99;100] [97;98;99;100]; mkAsset [97;98;99;97] [97;98;99;97]; mkAsset [98;99;100] [98;99;100] ].
Theorem refuted_registry_key_concatenation_ambiguous :
  let s := run U_ambiguous init_state [CreatePair 0 1] in
  pkey U_ambiguous 0 1 = pkey U_ambiguous 2 3 /\
  lookup_pair U_ambiguous s 2 3 = Some (mkPairE 0 1 0) /\
  is_ok (step U_ambiguous s (CreatePair 2 3)) = false /\
  ~ unambiguous2 U_ambiguous.
Proof.
  repeat split; try (vm_compute; reflexivity).
  intro Hu. specialize (Hu 0 1 2 3 eq_refl). destruct Hu as [[H _]|[H _]]; cbn in H; discriminate.
Qed.

(* aaa, bbb, bbb\x01 *)
Definition U_cursor : universe :=
  [ mkAsset [97;97;97] [97;97;97]; mkAsset [98;98;98] [98;98;98]; mkAsset [98;98;98;1] [98;98;98;1] ].
Theorem refuted_pagination_cursor_skips_key_extension :
  let s := run U_cursor init_state [CreatePair 0 1; CreatePair 0 2] in
  length (pairs s) = 2%nat /\ length (all_pages 1 (pairs s)) = 1%nat /\ ~ cursor_safe (map fst (pairs s)).
Proof.
  repeat split; try (vm_compute; reflexivity).
  intro Hs. specialize (Hs [97;97;97;98;98;98] [97;97;97;98;98;98;1]).
  assert (unsafeb [97;97;97;98;98;98] [97;97;97;98;98;98;1] = true) as Hu by (vm_compute; reflexivity).
  rewrite Hs in Hu; [discriminate | vm_compute; auto | vm_compute; auto].
Qed.

(* cursor safety is decidable on concrete keys, and holds e.g. for keys without bytes <= 1 that are not prefixes ... stated for use in examples *)
Definition cursor_safeb (keys : list bytes) : bool := forallb (fun k => forallb (fun k' => negb (unsafeb k k')) keys) keys.
Lemma cursor_safeb_ok keys : cursor_safeb keys = true -> cursor_safe keys.
Proof.
  unfold cursor_safeb, cursor_safe. intros H k k' Hk Hk'. rewrite forallb_forall in H. specialize (H k Hk).
  rewrite forallb_forall in H. specialize (H k' Hk'). apply negb_true_iff in H. exact H.
Qed.
