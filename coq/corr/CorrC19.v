(* CorrC19.v — how the C19 correspondence cases are run on the model *)
From WW Require Export Prim Corr Registry.
From WW Require Import Params.

(* a history: (universe, operations) -> per operation: result flag, the lookups of the operation's asset set, all four listings *)
Definition run_c19 (i : universe * list op) : list Z :=
  let '(U, ops) := i in run_obs U init_state ops.

Definition limits_of (kind : Z) : Z * Z :=
  if kind <=? 1 then (Params.FACTORY_MAX_LIMIT, Params.FACTORY_DEFAULT_LIMIT)
  else if kind =? 2 then (Params.VAULT_FACTORY_MAX_LIMIT, Params.VAULT_FACTORY_DEFAULT_LIMIT)
  else (Params.INCENTIVE_FACTORY_MAX_LIMIT, Params.INCENTIVE_FACTORY_DEFAULT_LIMIT).

(* a client walking a whole registry with a fixed page size: (universe, operations, registry kind 0..3, page size) *)
Definition run_c19_walk (i : universe * list op * Z * option Z) : list Z :=
  let '(U, ops, kind, limit) := i in
  let s := run U init_state ops in
  let '(maxl, defl) := limits_of kind in
  let n := eff_limit maxl defl limit in
  if kind =? 0 then flat_map (fun p => pair_obs (snd p)) (all_pages n (pairs s))
  else if kind =? 1 then flat_map (fun p => trio_obs (snd p)) (all_pages n (trios s))
  else if kind =? 2 then flat_map (fun p => child_obs (snd p)) (all_pages n (vaults s))
  else flat_map (fun p => child_obs (snd p)) (all_pages n (incentives s)).

(* one Pairs query with an arbitrary registered pair as cursor *)
Definition run_c19_page (i : universe * list op * (Z * Z) * option Z) : list Z :=
  let '(U, ops, sa, limit) := i in
  let s := run U init_state ops in
  flat_map (fun p => pair_obs (snd p))
           (query_pairs U Params.FACTORY_MAX_LIMIT Params.FACTORY_DEFAULT_LIMIT s (Some sa) limit).
