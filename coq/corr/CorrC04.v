(* CorrC04.v — how the C04 correspondence cases are run on the model *)
From WW Require Import Prim Corr Params Amp.

(* Option-returning hook functions: Some v -> 0 :: vals, None -> [1; 9] (E_NONE), panic -> [2] *)

(* input: (initial_amp, target_amp, height, start, stop) *)
Definition run_c04_amp (i : Z * Z * Z * Z * Z) : list Z :=
  match i with (a0, a1, now, h0, h1) => obs_of (fun a => [a]) (compute_amp_factor (mkRamp a0 a1 now h0 h1)) end.

Definition cfg_obs (c : ampcfg) : list Z := [c_a0 c; c_a1 c; c_h0 c; c_h1 c].
Definition res_obs {A} (r : outcome A) : list Z := match r with Ok _ => [0] | Err c => [1; c] | Panic => [2] end.

Fixpoint run_ramp_ops_with (step : ampcfg -> Z -> Z -> Z -> outcome ampcfg) (st : ampcfg * Z) (l : list rop) : list Z :=
  match l with
  | [] => []
  | o :: l' => let '(st', r) := ramp_apply step st o in
               res_obs r ++ cfg_obs (fst st') ++ run_ramp_ops_with step st' l'
  end.
Definition run_ramp_ops := run_ramp_ops_with trio_ramp_step.

(* input: ((amp at instantiate, height at instantiate), [(advance, by_owner, future_a, future_block)]) *)
Definition run_c04_ramp_with step (i : (Z * Z) * list (Z * bool * Z * Z)) : list Z :=
  match i with ((amp, h), l) =>
    match trio_amp_init amp h with
    | Ok c => 0 :: run_ramp_ops_with step (c, h) (map (fun t => match t with (dh, ow, fa, fb) => mkRop dh ow fa fb end) l)
    | Err c => [1; c]
    | Panic => [2]
    end end.
Definition run_c04_ramp := run_c04_ramp_with trio_ramp_step.
(* the code as found (before the fix: commit): used once to confirm the faithful model against the unrepaired contract *)
Definition run_c04_ramp_unfixed := run_c04_ramp_with trio_ramp_step_unfixed.

(* ---- curve functions through the hook ------------------------------------------------------------ *)
From WW Require Import CPSwap Stable3.
Definition ramp5 (t : Z * Z * Z * Z * Z) : ramp := match t with (a0, a1, now, h0, h1) => mkRamp a0 a1 now h0 h1 end.

(* input: (ramp, (a, b, c)) *)
Definition run_c04_d (i : (Z * Z * Z * Z * Z) * (Z * Z * Z)) : list Z :=
  match i with (t, (a, b, c)) => obs_of (fun d => [d]) (compute_d (ramp5 t) a b c) end.
(* input: (ramp, (amount, src, dst, unswapped)) *)
Definition run_c04_swap (i : (Z * Z * Z * Z * Z) * (Z * Z * Z * Z)) : list Z :=
  match i with (t, (x, s, d, u)) => obs_of (fun r => [new_src r; new_dst r; swapped r]) (swap_to (ramp5 t) x s d u) end.
(* input: (ramp, (ask_amount, src, dst, unswapped)) *)
Definition run_c04_rsim (i : (Z * Z * Z * Z * Z) * (Z * Z * Z * Z)) : list Z :=
  match i with (t, (x, s, d, u)) => obs_of (fun r => [r]) (reverse_sim (ramp5 t) x s d u) end.
(* input: (ramp, (deposits), (reserves), supply) *)
Definition run_c04_mint (i : (Z * Z * Z * Z * Z) * (Z * Z * Z) * (Z * Z * Z) * Z) : list Z :=
  match i with (t, (da, db, dc), (sa, sb, sc), s) => obs_of (fun r => [r]) (compute_mint (ramp5 t) da db dc sa sb sc s) end.
(* helpers::compute_swap. input: (ramp, (offer_pool, ask_pool, unswapped_pool, offer), (protocol, swap, burn)) *)
Definition run_c04_cswap (i : (Z * Z * Z * Z * Z) * (Z * Z * Z * Z) * (Z * Z * Z)) : list Z :=
  match i with (t, (op, ask, uns, x), (p, s, b)) => obs_of swapc_obs (compute_swap3 (ramp5 t) op ask uns x (mkFees p s b)) end.

(* ---- pool histories on the deployed trio ---------------------------------------------------------- *)
From WW Require Export CPSwap Stable3Pool.

Definition pool_obs (p : pool) : list Z :=
  list3 (p_bal p) ++ list3 (p_fee p) ++ list3 (p_all p) ++ list3 (p_burn p) ++ [p_supply p] ++ p_lp p ++ [p_lp_self p]
  ++ cfg_obs (p_cfg p) ++ [p_height p].
Definition eff_obs (r : outcome effects) : list Z :=
  match r with Ok e => 0 :: list3 (e_user e) ++ list3 (e_coll e) | Err c => [1; c] | Panic => [2] end.

Fixpoint run_pool_ops (p : pool) (l : list op) : list Z :=
  match l with
  | [] => []
  | o :: l' => let '(p', r) := apply_op p o in eff_obs r ++ pool_obs p' ++ run_pool_ops p' l'
  end.

(* input: ((amp, height, (protocol, swap, burn), (cw20_0, cw20_1, cw20_2)), ops); four users *)
Definition run_c04_pool (i : (Z * Z * (Z * Z * Z) * (bool * bool * bool)) * list op) : list Z :=
  match i with ((amp, h, (pf, sf, bf), kinds), l) =>
    match init_pool amp h (mkFees pf sf bf) kinds 4 with
    | Ok p => 0 :: run_pool_ops p l
    | Err c => [1; c]
    | Panic => [2]
    end end.

(* ---- C14: the Simulation query in the state reached by a history ----------------------------------- *)
From WW Require Export Stable3Quotes.
Definition sim_obs (r : outcome swapc) : list Z :=
  match r with Ok s => [0; s_ret s; s_spread s; s_swapfee s; s_protfee s; s_burnfee s] | _ => [1] end.
(* input: (pool parameters as for run_c04_pool, history so far, (offer index, ask index, offer amount)) *)
Definition run_c14_sim3 (i : (Z * Z * (Z * Z * Z) * (bool * bool * bool)) * list op * (Z * Z * Z)) : list Z :=
  match i with ((amp, h, (pf, sf, bf), kinds), l, (oi, aj, x)) =>
    match init_pool amp h (mkFees pf sf bf) kinds 4 with
    | Ok p => sim_obs (simulate3 (run p l) oi aj x)
    | _ => [1]
    end end.
