(* CorrC20.v — how the C20 schedules are run on the model *)
From WW Require Import Prim Corr.
From WW Require Export Epochs.

(* per hook receiver: (calls, last id, last start) *)
Definition hlog := (Z * Z * Z)%type.
Fixpoint deliver (msgs : list (Z * epoch)) (logs : list hlog) : list hlog :=
  match msgs with
  | [] => logs
  | (h, e) :: r =>
      deliver r (map (fun il => match il with (i, (c, a, b)) => if i =? h then (c + 1, e_id e, e_start e) else (c, a, b) end)
                     (combine [0; 1; 2] logs))
  end.
Definition logs_obs (logs : list hlog) : list Z := flat_map (fun l => match l with (c, a, b) => [c; a; b] end) logs.

(* the three Epoch { id } queries made after every event: the initial id, current id - 1, current id + 1 (u64 wrap-around
   of the harness's own id arithmetic included) *)
Definition wrap64 (z : Z) : Z := z mod P64.
Definition qobs (d : Z) (s : mstate) (id0 : Z) : list Z :=
  flat_map (fun q => obs_of (fun e => [e_id e; e_start e]) (mquery d s q))
           [id0; wrap64 (e_id (m_epoch s) - 1); wrap64 (e_id (m_epoch s) + 1)].

Fixpoint run_mgr (d id0 : Z) (s : mstate) (logs : list hlog) (h : list mevent) : list Z :=
  match h with
  | [] => []
  | (now, o) :: r =>
      match mstep d now s o with
      | Ok (s', msgs) => let logs' := deliver msgs logs in
                         [0; e_id (m_epoch s'); e_start (m_epoch s')] ++ logs_obs logs' ++ qobs d s' id0 ++ run_mgr d id0 s' logs' r
      | Err c => [1; c; e_id (m_epoch s); e_start (m_epoch s)] ++ logs_obs logs ++ qobs d s id0 ++ run_mgr d id0 s logs r
      | Panic => [2; e_id (m_epoch s); e_start (m_epoch s)] ++ logs_obs logs ++ qobs d s id0 ++ run_mgr d id0 s logs r
      end
  end.
(* input: ((duration, start id, start time), schedule) *)
Definition run_c20_mgr (i : (Z * Z * Z) * list mevent) : list Z :=
  match i with ((d, id0, st0), h) => run_mgr d id0 (mkM (mkEpoch id0 st0) []) [(0, 0, 0); (0, 0, 0); (0, 0, 0)] h end.

Fixpoint run_dist (d g : Z) (cur : epoch) (h : list devent) : list Z :=
  match h with
  | [] => []
  | (now, ok) :: r =>
      match dcreate d g now cur ok with
      | Ok e' => [0; e_id e'; e_start e'] ++ run_dist d g e' r
      | _ => [1; e_id cur; e_start cur] ++ run_dist d g cur r      (* coarse: the class of a collector failure is the collector's *)
      end
  end.
(* input: ((duration, genesis), schedule of (time, collector_ok)) *)
Definition run_c20_dist (i : (Z * Z) * list devent) : list Z :=
  match i with ((d, g), h) => run_dist d g (mkEpoch 0 0) h end.
