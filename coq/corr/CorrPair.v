(* CorrPair.v — running a constant-product pair history on the model (shared by C01/C07/C14/C15) *)
From WW Require Export Prim Corr CPSwap Slippage CP.
From WW Require Export CPInst.

(* accounts: 0 pool, 1 alice, 2 bob, 3 carol, 4 donor, 5 owner *)
Definition run_pairhist (i : (bool * bool) * (Z * Z * Z) * list op) : list Z :=
  match i with ((c0, c1), (p, s, b), ops) =>
    run_obs the_consts (init c0 c1 (mkFees p s b) 6 5) ops end.
