(* CorrC09.v — how a C09 correspondence case (a history on the real fee_distributor) is run on the model *)
From WW Require Import Prim Corr.
From WW Require Export Epochs Distributor.

Definition enc (o : option Z) : Z := match o with Some x => x | None => -1 end.
Definition cursor_obs (s : dstate) (who : Z) : Z := match cfind who (d_cursor s) with Some c => c | None => -1 end.
Definition snap_obs (s : dstate) : list Z :=
  [d_bal s; d_grace s; cursor_obs s 0; cursor_obs s 1; cursor_obs s 2; Z.of_nat (length (d_epochs s))]
  ++ flat_map (fun e => [de_id e; de_start e; enc (de_total e); enc (de_avail e); enc (de_claimed e)]) (d_epochs s).
Definition payout_of (f : deffect) : Z := match f with FPaid _ _ x => x | _ => 0 end.

Fixpoint run_dhist (c : dcfg) (s : dstate) (h : list dsevent) : list Z :=
  match h with
  | [] => []
  | (now, o) :: r =>
      match dstep c now s o with
      | Ok (s', f) => [0; payout_of f] ++ snap_obs s' ++ run_dhist c s' r
      | Err e => [1; e; 0] ++ snap_obs s ++ run_dhist c s r
      | Panic => [2; 0] ++ snap_obs s ++ run_dhist c s r
      end
  end.

(* input: ((duration, genesis, initial grace period), history) *)
Definition run_c09 (i : (Z * Z * Z) * list dsevent) : list Z :=
  match i with ((d, g, gr), h) => run_dhist (mkDC d g) (dinit gr) h end.
