(* CorrC18.v — how a C18 correspondence case (a configuration history) is run on the model *)
From WW Require Export Prim Corr CPSwap Config.

(* input: (initial block height, operations); observation: per operation the result flag (0 accepted / 1 rejected)
   followed by Config.dump of the whole configuration state *)
Definition run_c18 (i : Z * list op) : list Z :=
  let '(h0, ops) := i in run_obs code_bounds (init_state h0) ops.
