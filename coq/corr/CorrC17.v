(* CorrC17.v — how C17 correspondence cases are run on the model.
   Vault: the concrete model (CorrVault.run_vault) on histories  prelude ++ [set switches; op; enable all; op].
   Pools: the gate machine of Toggles.v whose body is the observed behaviour of an identical all-enabled pool (the twin):
     input  ((d, w, s), path, class_visible, twin_code)
     output [code of the call with switches (d,w,s); 1; code of the same call after re-enabling everything (9 = not applicable); 1]
   (the two 1s stand for the frame facts proved for the gate machine — rejected: nothing changed / accepted: same state as the
    twin — which the harness evaluates on the implementation by comparing complete dumps). *)
From WW Require Import Prim Corr.
From WW Require Export Vault Toggles.
From WW.Corr Require Export CorrVault.

Definition zb (z : Z) : bool := negb (z =? 0).

Definition run_gate (i : (Z * Z * Z) * Z * Z * Z) : list Z :=
  match i with ((d, w, s), p, vis, tc) =>
    let f := mkF (zb d) (zb w) (zb s) in
    let o := GOp (ppath_of_Z p, tc) in
    let g := mkG f tt in
    let c1 := code (gstep unit (ppath * Z) twin_kind twin_body g o) in
    (* the rejection class is compared only when it can be seen at top level and the call would otherwise be accepted
       (a call the twin rejects too may die in its transport, e.g. an LP Send without LP balance, before reaching the guard) *)
    let c1' := if negb (c1 =? 0) && (negb (zb vis) || negb (tc =? 0)) then 1 else c1 in
    let g1 := gapply unit (ppath * Z) twin_kind twin_body g o in
    let g2 := gapply unit (ppath * Z) twin_kind twin_body g1 (GSet true all_on) in
    let c2 := if negb (c1 =? 0) && (tc =? 0) then code (gstep unit (ppath * Z) twin_kind twin_body g2 o) else 9 in
    [c1'; 1; c2; 1]
  end.

(* switches of a fresh pool / vault, and the answer to a config update by somebody who is not the owner *)
Definition run_fresh (i : Z) : list Z :=
  [b2z (fget all_on KDep); b2z (fget all_on KWd); b2z (fget all_on KSwap);
   code (gstep unit (ppath * Z) twin_kind twin_body (mkG all_on tt) (GSet false (mkF false false false)))].
