(* CorrC16.v — how the C16 correspondence cases are run on the model *)
From WW Require Export Prim Corr Auth.
From Coq Require Export String.

(* one matrix cell: (contract, variant, phase, caller, comparability with the reference run) -> [0 accepted | 1 rejected | 9 no expectation] *)
Definition run_c16 (i : contract * string * Z * caller * Z) : list Z :=
  let '(c, v, phase, who, cmp) := i in [decide c v phase who cmp].

(* inventory of a contract's ExecuteMsg as the compiled Rust type has it: must equal the generated Params inventory
   (same names, same order) and be completely classified *)
Fixpoint strs_eqb (a b : list string) : bool :=
  match a, b with
  | [], [] => true
  | x :: a', y :: b' => String.eqb x y && strs_eqb a' b'
  | _, _ => false
  end.
Definition run_c16_inv (i : contract * list string) : list Z :=
  let '(c, vs) := i in
  [if strs_eqb vs (inventory c) && forallb (classified (roles_of c)) vs then 1 else 0].

(* ownership history: (initial owner, attempts) *)
Definition run_c16_own (i : Z * list (Z * option Z)) : list Z :=
  let '(o, h) := i in own_obs o h.
