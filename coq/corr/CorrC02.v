(* CorrC02.v — how a C02 correspondence case is run on the model *)
From WW Require Export Prim Corr CPSwap.

(* input: ((op, ask, x), (protocol, swap, burn)) *)
Definition run_c02 (i : (Z * Z * Z) * (Z * Z * Z)) : list Z :=
  match i with ((op, ask, x), (p, s, b)) =>
    obs_of swapc_obs (compute_swap_cp op ask x (mkFees p s b)) end.
(* poolfee validity as the model sees it: 1 valid, 0 invalid *)
Definition run_c02_valid (i : Z * Z * Z) : list Z :=
  match i with (p, s, b) => [if poolfee_valid (mkFees p s b) then 1 else 0] end.

(* cosmwasm-std primitives as transcribed in Prim.v: (op, a, b, c) *)
Definition run_prim (i : Z * Z * Z * Z) : list Z :=
  match i with (op, a, b, c) =>
    obs_of (fun v => [v])
      (if op =? 0 then dec_from_ratio P256 a b
       else if op =? 1 then mul_dec P256 a b
       else if op =? 2 then mul_dec P128 a b
       else if op =? 3 then (if a =? 0 then Err E_OTHER else Ok (DEC * DEC / a))
       else if op =? 4 then dec_mul P256 a b
       else if op =? 5 then Ok (isqrt a)
       else (if c =? 0 then Panic else let r := a * b / c in if r <? P128 then Ok r else Panic))
  end.
