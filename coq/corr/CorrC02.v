(* CorrC02.v — how a C02 correspondence case is run on the model *)
From WW Require Export Prim Corr CPSwap.

(* input: ((op, ask, x), (protocol, swap, burn)) *)
Definition run_c02 (i : (Z * Z * Z) * (Z * Z * Z)) : list Z :=
  match i with ((op, ask, x), (p, s, b)) =>
    obs_of swapc_obs (compute_swap_cp op ask x (mkFees p s b)) end.
(* poolfee validity as the model sees it: 1 valid, 0 invalid *)
Definition run_c02_valid (i : Z * Z * Z) : list Z :=
  match i with (p, s, b) => [if poolfee_valid (mkFees p s b) then 1 else 0] end.
