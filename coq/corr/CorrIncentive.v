(* CorrIncentive.v — how an incentive-family correspondence case (a history on a deployed incentive contract)
   is run on the model, and the observation (full state dump after every operation). *)
From WW Require Import Prim Corr.
From WW Require Export Incentive.

Definition RICH_N : Z := (2^128 - 1) / 4.
Definition RICH_C : Z := RICH_N / 8.
Definition init_bal : Z -> Z -> Z :=
  fun acct asset => if (0 <=? acct) && (acct <=? 4) then (if is_native asset then RICH_N else RICH_C) else 0.

Definition ASSETS : list Z := [0; 1; 2; 3; 10; 11].
Definition OBS_ACCOUNTS : list Z := [SELF; 9; 0; 1; 2; 3; 4].
Definition USERS : list Z := [0; 1; 2; 3; 4].

Fixpoint ins_sorted (x : Z * Z) (l : list (Z * Z)) : list (Z * Z) :=
  match l with [] => [x] | y :: r => if fst x <? fst y then x :: y :: r else y :: ins_sorted x r end.
Definition sort_pairs (l : list (Z * Z)) : list (Z * Z) := fold_right ins_sorted [] l.

Definition len {A} (l : list A) : Z := Z.of_nat (length l).
Definition flat2 (l : list (Z * Z)) : list Z := flat_map (fun x => [fst x; snd x]) l.
Definition optz (o : option Z) : Z := match o with Some v => v | None => -1 end.

Definition obs_flow (f : flow) : list Z :=
  [f_id f; optz (f_label f); f_creator f; f_asset f; f_amount f; f_claimed f; f_start f; f_end f]
  ++ (len (f_emitted f) :: flat2 (sort_pairs (f_emitted f)))
  ++ (len (f_hist f) :: flat_map (fun x => [fst x; fst (snd x); snd (snd x)]) (f_hist f)).

Definition obs_user (st : state) (u : Z) : list Z :=
  [aget0 u (s_aw st); optz (aget u (s_last st))]
  ++ (let p := pos_of u (s_open st) in len p :: flat_map (fun x => [fst (snd x); snd (snd x)]) p)
  ++ (let p := pos_of u (s_closed st) in len p :: flat_map (fun x => [fst (snd x); snd (snd x)]) p)
  ++ (let h := s_awh st u in len h :: flat2 h).

Definition obs_rewards (v : ver) (st : state) (u : Z) : list Z :=
  match get_rewards v st u with Ok r => 0 :: len r :: flat2 r | _ => [1] end.

Definition obs_share (v : ver) (st : state) (u : Z) : list Z :=
  match rewards_share v st u with Ok (g, w, s) => [0; g; w; s] | _ => [1] end.

Definition obs_state_gen (ib : Z -> Z -> Z) (accounts : list Z) (v : ver) (st : state) : list Z :=
  [s_epoch st]
  ++ flat_map (fun a => map (fun s => s_bal st a s - ib a s) ASSETS) accounts
  ++ [s_gw st; s_counter st]
  ++ flat_map (obs_user st) USERS
  ++ [optz (aget (s_epoch st) (s_snap st))]
  ++ (len (s_flows st) :: flat_map obs_flow (s_flows st))
  ++ flat_map (obs_rewards v st) USERS
  ++ flat_map (obs_share v st) USERS.

Definition obs_state := obs_state_gen init_bal OBS_ACCOUNTS.

Fixpoint run_ops_gen (obs : ver -> state -> list Z) (v : ver) (c : cfg) (st : state) (ops : list op) : list Z :=
  match ops with
  | [] => []
  | o :: r => match step v c st o with
              | Ok st' => 0 :: obs v st' ++ run_ops_gen obs v c st' r
              | _ => 1 :: obs v st ++ run_ops_gen obs v c st r
              end
  end.
Definition run_ops := run_ops_gen obs_state.

(* frontend-helper world: asset 10 is the pair's LP token (nobody holds any at the start); the helper's balances are observed *)
Definition init_bal_h : Z -> Z -> Z := fun acct asset => if asset =? 10 then 0 else init_bal acct asset.
Definition run_helper (i : cfg * list op) : list Z :=
  let (c, ops) := i in run_ops_gen (obs_state_gen init_bal_h (OBS_ACCOUNTS ++ [HELPER])) v_fixed c (init_state 1 init_bal_h) ops.

(* the code as repaired (what the theorems are about) *)
Definition run_inc (i : cfg * list op) : list Z :=
  let (c, ops) := i in run_ops v_fixed c (init_state 1 init_bal) ops.
(* the code as found (used to validate the model of the defects on the unrepaired tree) *)
Definition run_inc_orig (i : cfg * list op) : list Z :=
  let (c, ops) := i in run_ops v_orig c (init_state 1 init_bal) ops.

(* the four flow repairs only (development aid) *)
Definition run_inc_c12 (i : cfg * list op) : list Z :=
  let (c, ops) := i in run_ops v_c12 c (init_state 1 init_bal) ops.

(* pure weight function *)
Definition run_weight (i : Z * Z) : list Z := let (d, a) := i in obs_coarse (fun w => [w]) (calculate_weight d a).
