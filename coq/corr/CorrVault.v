(* CorrVault.v — how vault histories (C05, C06, C17 vault part) are run on the model.
   input : ((p, f, b), is_cw20, balances, ops)   observation : per op  [code] ++ dump  where
   code = 0 Ok | 1 rejected (other error or panic) | 2 rejected: operation disabled | 3 rejected: unauthorized
   dump = [bal; pending; all_time; burned; supply; counter; dep; wd; fl; p; f; b; owner] ++ asset ledger ++ share ledger *)
From WW Require Import Prim Corr.
From WW Require Export Vault.

Definition b2z (b : bool) : Z := if b then 1 else 0.
Definition dump (st : state) : list Z :=
  [bal st; pend st; allf st; burned st; supply st; counter st;
   b2z (dep_on (conf st)); b2z (wd_on (conf st)); b2z (fl_on (conf st));
   f_prot (conf st); f_flash (conf st); f_burn (conf st); Z.of_nat (owner (conf st))] ++ ab st ++ lp st.

Definition code {A} (m : outcome A) : Z :=
  match m with Ok _ => 0 | Err c => if c =? E_DISABLED then 2 else if c =? E_UNAUTH then 3 else 1 | Panic => 1 end.

Fixpoint run_obs (st : state) (h : list op) : list Z :=
  match h with
  | [] => []
  | o :: r => let m := step st o in let st' := apply st o in (code m :: dump st') ++ run_obs st' r
  end.

Definition run_vault (i : (Z * Z * Z) * bool * list Z * list op) : list Z :=
  match i with ((p, f, b), k, bals, h) =>
    match init p f b k bals with
    | Ok st => 0 :: run_obs st h
    | _ => [1]
    end
  end.

(* queries: GetPaybackAmount and Share evaluated in the state reached by a history *)
Definition run_vault_q (i : ((Z * Z * Z) * bool * list Z * list op) * (Z * Z)) : list Z :=
  match i with (((p, f, b), k, bals, h), (z, a)) =>
    match init p f b k bals with
    | Ok st0 => let st := run st0 h in
        obs_coarse (fun q => match q with (q0, pf, ff, bf) => [q0; pf; ff; bf] end) (payback (conf st) z)
        ++ obs_coarse (fun w => [w]) (q_share st a)
    | _ => [1]
    end
  end.
