(* CorrC08.v — how a C08 correspondence case (a whole history on the real whale_lair) is run on the model *)
From WW Require Import Prim Corr.
From WW Require Export Lair.

(* observation after every call, in the order of harness/src/c08.rs::observe *)
Definition obs_state (c : cfg) (now : Z) (s : state) : list Z :=
  [zget 0 (bal s); zget 1 (bal s); zget 2 (bal s); g_amt s; zget 0 (g_assets s); zget 1 (g_assets s); g_w s; g_ts s]
  ++ flat_map (fun u => flat_map (fun d => [q_bonded u d s; q_unbonding u d s; q_withdrawable c now u d s]) [0; 1]) [0; 1; 2].

(* signed change of the caller's own bank balance in the op's denom *)
Definition delta_of (f : effect) : Z :=
  match f with EBond _ _ x => - x | EUnbond _ _ _ => 0 | EPay _ _ x => x | EDonate _ x => - x end.

Fixpoint run_hist (fixed : bool) (c : cfg) (s : state) (h : list event) : list Z :=
  match h with
  | [] => []
  | (now, o) :: r =>
      match step fixed c now s o with
      | Ok (s', f) => [0; delta_of f] ++ obs_state c now s' ++ run_hist fixed c s' r
      | Err e => [1; e; 0] ++ obs_state c now s ++ run_hist fixed c s r
      | Panic => [2; 0] ++ obs_state c now s ++ run_hist fixed c s r
      end
  end.

(* input: ((unbonding_period, growth_rate atomics, whitelist), history) ; the model of the code as it is now (fixed) *)
Definition run_c08 (i : (Z * Z * list Z) * list event) : list Z :=
  match i with ((p, g, wl), h) => run_hist true (mkCfg p g wl) init h end.
(* the model of the code before the fix: commit (Map::save overwrote the record of the same block) *)
Definition run_c08_unfixed (i : (Z * Z * list Z) * list event) : list Z :=
  match i with ((p, g, wl), h) => run_hist false (mkCfg p g wl) init h end.
