(* CorrRouter.v — router cases on the model: three pools over assets A,B,C, pool i = (asset i, asset (i+1) mod 3) *)
From WW Require Export Prim Corr CPSwap Slippage CP CPInst Router.

Definition mk_pool (c0 c1 : bool) (f : Z * Z * Z) (l : Z * Z) : pstate :=
  match f, l with (p, s, b), (d0, d1) =>
    run the_consts (init c0 c1 (mkFees p s b) 3 2) [Provide 1 d0 d1 None None] end.

Definition pool_obs (s : pstate) : list Z := [bal0 s; bal1 s; pf0 s; pf1 s].

(* input: (C is cw20, fees of the 3 pools, liquidity of the 3 pools, hops, offer, pre, max_spread, minimum_receive) *)
Definition run_router (i : bool * list (Z * Z * Z) * list (Z * Z) * list hop * Z * list Z * option Z * option Z) : list Z :=
  match i with (cwc, fs, ls, hops, offer, pre, ms, minr) =>
    let f n := nth n fs (0, 0, 0) in let l n := nth n ls (0, 0) in
    let pools := [mk_pool false false (f 0%nat) (l 0%nat); mk_pool false cwc (f 1%nat) (l 1%nat); mk_pool cwc false (f 2%nat) (l 2%nat)] in
    obs_coarse (fun v => [v]) (router_simulate pools hops offer) ++
    obs_of (fun r => snd r :: concat (map pool_obs (fst r))) (router_swap the_consts pools hops offer pre ms minr)
  end.

(* pure assert_max_spread stream: (belief, max_spread, offer, ret, spread) *)
Definition run_maxspread (i : option Z * option Z * Z * Z * Z) : list Z :=
  match i with (b, m, offer, ret, spread) =>
    obs_of (fun _ => []) (assert_max_spread (c_default_spread the_consts) (c_max_spread the_consts) b m offer ret spread) end.

(* pure liquidity-tolerance stream: (kind, tol, deposits, reserves, minted amount, supply); kind 0 = constant-product pair,
   1 = stableswap pair, 2 = three-asset pool *)
Definition run_tol (i : Z * option Z * list Z * list Z * Z * Z) : list Z :=
  match i with (kind, tol, ds, rs, amount, supply) =>
    obs_of (fun _ => [])
      (if kind =? 0 then assert_slippage_cp tol (nth 0 ds 0) (nth 1 ds 0) (nth 0 rs 0) (nth 1 rs 0)
       else assert_slippage_stable tol (sumZ ds) (sumZ rs) amount supply)
  end.
