(* CorrC10.v — how a C10 correspondence case (a history on the real fee pipeline) is run on the model *)
From WW Require Import Prim Corr.
From WW Require Export Epochs Distributor Lair Pipeline.

Definition enc10 (o : option Z) : Z := match o with Some x => x | None => -1 end.
Definition b2z (b : bool) : Z := if b then 1 else 0.
Definition pobs (s : pstate) : list Z :=
  let d := p_dist s in
  [zget 0 (p_bal s); zget 1 (p_bal s); zget 2 (p_bal s); zget 3 (p_bal s); p_dao s; d_bal d;
   b2z (p_active s); p_rate s; b2z (p_dao_set s);
   match zfind (e_id (cur_epoch d)) (p_history s) with Some v => v | None => -1 end;
   Z.of_nat (length (d_epochs d))]
  ++ flat_map (fun e => [de_id e; enc10 (de_total e); enc10 (de_avail e)]) (d_epochs d).

Fixpoint run_phist (c : dcfg) (s : pstate) (h : list pevent) : list Z :=
  match h with
  | [] => []
  | (now, o) :: r =>
      match pstep c now s o with
      | Ok s' => [0] ++ pobs s' ++ run_phist c s' r
      | Err e => [1; e] ++ pobs s ++ run_phist c s r
      | Panic => [2] ++ pobs s ++ run_phist c s r
      end
  end.

(* input: ((duration, genesis, grace period), history) *)
Definition run_c10 (i : (Z * Z * Z) * list pevent) : list Z :=
  match i with ((d, g, gr), h) => run_phist (mkDC d g) (pinit gr) h end.
