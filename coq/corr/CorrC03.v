(* CorrC03.v — how the C03 correspondence cases are run on the model *)
From WW Require Import Prim Corr Params Amp CPSwap Stable2.
From WW Require Export CPSwap Stable2Pool.

(* compute_swap with PairType::StableSwap. input: ((offer_pool, ask_pool, offer), (protocol, swap, burn), (amp, offer_decimals, ask_decimals)) *)
Definition run_c03_swap (i : (Z * Z * Z) * (Z * Z * Z) * (Z * Z * Z)) : list Z :=
  match i with ((op, ask, x), (p, s, b), (amp, dp0, dp1)) =>
    obs_of swapc_obs (compute_swap_stable op ask x (mkFees p s b) amp dp0 dp1) end.
(* compute_d on raw amounts. input: (amp, a, b) *)
Definition run_c03_d (i : Z * Z * Z) : list Z :=
  match i with (amp, a, b) => obs_of (fun d => [d]) (compute_d2 amp a b) end.
(* compute_lp_mint_amount_for_stableswap_deposit. input: (amp, (da, db), (sa, sb), supply) *)
Definition run_c03_mint (i : Z * (Z * Z) * (Z * Z) * Z) : list Z :=
  match i with (amp, (da, db), (sa, sb), s) => obs_of (fun m => [m]) (compute_mint2 amp da db sa sb s) end.

Definition pool2_obs (p : pool2) : list Z :=
  list2 (q_bal p) ++ list2 (q_fee p) ++ list2 (q_all p) ++ list2 (q_burn p) ++ [q_supply p] ++ q_lp p ++ [q_lp_self p].
Definition eff2_obs (r : outcome eff2) : list Z :=
  match r with Ok e => 0 :: list2 (f_user e) ++ list2 (f_coll e) | Err c => [1; c] | Panic => [2] end.
Fixpoint run_pool2_ops (p : pool2) (l : list op2) : list Z :=
  match l with
  | [] => []
  | o :: l' => let '(p', r) := apply_op2 p o in eff2_obs r ++ pool2_obs p' ++ run_pool2_ops p' l'
  end.
(* input: ((amp, (dec0, dec1), (protocol, swap, burn), (cw20_0, cw20_1)), ops); four users *)
Definition run_c03_pool (i : (Z * (Z * Z) * (Z * Z * Z) * (bool * bool)) * list op2) : list Z :=
  match i with ((amp, dec, (pf, sf, bf), kinds), l) =>
    run_pool2_ops (init_pool2 amp dec (mkFees pf sf bf) kinds 4) l end.

(* ---- C14: the Simulation query in the state reached by a history ----------------------------------- *)
From WW Require Export Stable2Quotes.
Definition sim2_obs (r : outcome swapc) : list Z :=
  match r with Ok s => [0; s_ret s; s_spread s; s_swapfee s; s_protfee s; s_burnfee s] | _ => [1] end.
(* input: (pool parameters as for run_c03_pool, history so far, (offer index, offer amount)) *)
Definition run_c14_sim2 (i : (Z * (Z * Z) * (Z * Z * Z) * (bool * bool)) * list op2 * (Z * Z)) : list Z :=
  match i with ((amp, dec, (pf, sf, bf), kinds), l, (oi, x)) =>
    sim2_obs (simulate2 (run2 (init_pool2 amp dec (mkFees pf sf bf) kinds 4) l) oi x) end.
