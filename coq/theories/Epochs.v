(* Epochs.v — the two epoch clocks.
   (1) contracts/liquidity_hub/epoch-manager/src/commands.rs::create_epoch (+ add_hook / remove_hook through
       cw-controllers Hooks),
   (2) contracts/liquidity_hub/fee_distributor/src/commands.rs::create_new_epoch (clock part; the fee ledgers are
       Distributor.v).
   Times are Timestamp nanoseconds (u64); ids are u64. `minus_nanos` / `plus_nanos` are strict (panic). *)
From WW Require Import Prim.

Record epoch := mkEpoch { e_id : Z; e_start : Z }.

(* ---- epoch manager ---------------------------------------------------------------------------- *)
Record mstate := mkM { m_epoch : epoch; m_hooks : list Z }.

Inductive mop :=
| MCreate (bad : list Z)            (* anyone; `bad` = the hook contracts that would reject the notification now (oracle) *)
| MAddHook (admin : bool) (h : Z)   (* admin = the sender is the ADMIN *)
| MRemoveHook (admin : bool) (h : Z)
| MSetGenesis (admin : bool) (g : Z).   (* UpdateConfig { epoch_config: { duration unchanged, genesis_epoch: g } }: the clock is not touched *)

(* result of an accepted call: new state + the hook notifications emitted (contract, epoch carried) in order *)
Definition mcreate (duration now : Z) (s : mstate) (bad : list Z) : outcome (mstate * list (Z * epoch)) :=
  let cur := m_epoch s in
  do elapsed <- psub now (e_start cur);                         (* env.block.time.minus_nanos(start): strict_sub *)
  do _ <- ensure (negb (elapsed <? duration)) E_OTHER;          (* CurrentEpochNotExpired *)
  do id' <- cadd P64 (e_id cur) 1;                              (* checked_add -> EpochOverflow *)
  do start' <- padd P64 (e_start cur) duration;                 (* plus_nanos: strict_add *)
  let e' := mkEpoch id' start' in
  let msgs := map (fun h => (h, e')) (m_hooks s) in             (* HOOKS.prepare_hooks: one SubMsg per hook, in order *)
  do _ <- ensure (negb (existsb (fun h => existsb (Z.eqb h) bad) (m_hooks s))) E_OTHER;   (* a failing submessage aborts *)
  Ok (mkM e' (m_hooks s), msgs).

Fixpoint remove_first (h : Z) (l : list Z) : list Z :=
  match l with [] => [] | x :: r => if x =? h then r else x :: remove_first h r end.

Definition mstep (duration now : Z) (s : mstate) (o : mop) : outcome (mstate * list (Z * epoch)) :=
  match o with
  | MCreate bad => mcreate duration now s bad
  | MAddHook admin h =>
      do _ <- ensure admin E_OTHER;                                          (* AdminError::NotAdmin *)
      do _ <- ensure (negb (existsb (Z.eqb h) (m_hooks s))) E_OTHER;         (* HookAlreadyRegistered *)
      Ok (mkM (m_epoch s) (m_hooks s ++ [h]), [])
  | MRemoveHook admin h =>
      do _ <- ensure admin E_OTHER;
      do _ <- ensure (existsb (Z.eqb h) (m_hooks s)) E_OTHER;                (* HookNotRegistered *)
      Ok (mkM (m_epoch s) (remove_first h (m_hooks s)), [])
  | MSetGenesis admin _ =>
      do _ <- ensure admin E_OTHER;
      Ok (s, [])
  end.

Definition mevent := (Z * mop)%type.
Definition mhstep (duration : Z) (s : mstate) (e : mevent) : mstate :=
  match mstep duration (fst e) s (snd e) with Ok (s', _) => s' | _ => s end.
Definition mrun (duration : Z) (s0 : mstate) (h : list mevent) : mstate := fold_left (mhstep duration) h s0.

(* the epochs created along a history, oldest first, each with its creation time and the notifications sent *)
Fixpoint mcreated (duration : Z) (s : mstate) (h : list mevent) : list (Z * epoch * list (Z * epoch)) :=
  match h with
  | [] => []
  | (now, o) :: r =>
      match mstep duration now s o with
      | Ok (s', msgs) =>
          match o with
          | MCreate _ => (now, m_epoch s', msgs) :: mcreated duration s' r
          | _ => mcreated duration s' r
          end
      | _ => mcreated duration s r
      end
  end.

(* contracts/liquidity_hub/epoch-manager/src/queries.rs::query_epoch (QueryMsg::Epoch { id }): the current epoch when the id is
   the current one, otherwise the start is derived: current start - duration * (current id saturating_sub id).
   `duration.u64() * difference` is a plain u64 product and `minus_nanos` a strict subtraction (both abort). *)
Definition mquery (duration : Z) (s : mstate) (id : Z) : outcome epoch :=
  let cur := m_epoch s in
  if e_id cur =? id then Ok cur
  else do off <- pmul P64 duration (Z.max 0 (e_id cur - id));
       do st <- psub (e_start cur) off;
       Ok (mkEpoch id st).

(* ---- fee distributor clock --------------------------------------------------------------------- *)
(* current epoch = last of EPOCHS, Epoch::default() = (0, 0) when none. `collector_ok` = the ForwardFees
   submessage and the reply succeed (oracle here; Distributor.v / Pipeline.v model them). *)
Definition dcreate (duration genesis now : Z) (cur : epoch) (collector_ok : bool) : outcome epoch :=
  do elapsed <- psub now (e_start cur);
  do _ <- ensure (negb (elapsed <? duration)) E_OTHER;          (* CurrentEpochNotExpired *)
  do start' <- (if (e_id cur =? 0) && (e_start cur =? 0)
                then (do _ <- ensure (negb (now <? genesis)) E_OTHER; Ok genesis)   (* GenesisEpochNotStarted *)
                else padd P64 (e_start cur) duration);
  do id' <- cadd P64 (e_id cur) 1;
  do _ <- ensure collector_ok E_OTHER;
  Ok (mkEpoch id' start').

Definition devent := (Z * bool)%type.        (* (block time, collector_ok) : a NewEpoch attempt by anyone *)
Definition dhstep (duration genesis : Z) (cur : epoch) (e : devent) : epoch :=
  match dcreate duration genesis (fst e) cur (snd e) with Ok e' => e' | _ => cur end.
Definition drun (duration genesis : Z) (h : list devent) : epoch := fold_left (dhstep duration genesis) h (mkEpoch 0 0).
Fixpoint dcreated (duration genesis : Z) (cur : epoch) (h : list devent) : list (Z * epoch) :=
  match h with
  | [] => []
  | (now, ok) :: r =>
      match dcreate duration genesis now cur ok with
      | Ok e' => (now, e') :: dcreated duration genesis e' r
      | _ => dcreated duration genesis cur r
      end
  end.
