(* Auth.v — C16: who may call what. For each of the contracts of the liquidity hub a classification
   `required_role : contract -> variant name -> option role` transcribed from the sender checks of the code
   (file and line of each check in the comments), the owner of each contract before / after an ownership
   transfer, and the resulting accept / reject decision for each caller class.

   The variant names are strings; the inventories they must cover are GENERATED into Params.v from the message
   enums of packages/white-whale-std (tools/extract_params.py), so a variant added to the source without a
   classification here breaks `inventory_classified` (props/C16.v).

   Default build (cw20 LP tokens). Migrations are not modelled (C16 only covers who may trigger them). *)
From WW Require Import Prim Params.
From Coq Require Import String.
Open Scope string_scope.

Inductive contract :=
| Pair | Trio | Factory | Router | Incentive | IncentiveFactory | Helper
| Vault | VaultFactory | VaultRouter | Collector | Distributor | Lair | EpochManager.

Inductive role :=
| Anyone            (* no sender check *)
| Owner             (* sender = stored owner (children: initially their factory; router: the wasm admin; epoch manager: cw-controllers Admin) *)
| Self              (* sender = env.contract.address *)
| Lp                (* cw20 Receive: sender = the contract's cw20 LP token *)
| AssetToken        (* cw20 Receive{Swap}: sender = one of the pool's cw20 assets *)
| VaultOfAsset      (* vault router NextLoan: sender = the vault the factory lists for the asset = source_vault *)
| DistributorOnly   (* collector ForwardFees: sender = config.fee_distributor *)
| CreatorOrOwner    (* incentive CloseFlow: flow creator or the incentive factory's owner *)
| Nobody.           (* cannot succeed in the default build (token-factory LP path) *)

(* caller classes of the matrix *)
Inductive caller := CAdmin | CNewAdmin | CParent | CSibling | CUser | CSelf | CDesignated.

Definition caller_eqb (a b : caller) : bool :=
  match a, b with
  | CAdmin, CAdmin | CNewAdmin, CNewAdmin | CParent, CParent | CSibling, CSibling
  | CUser, CUser | CSelf, CSelf | CDesignated, CDesignated => true
  | _, _ => false
  end.

(* ---- classification of every ExecuteMsg variant --------------------------------------------------- *)
Definition lookup (l : list (string * role)) (v : string) : option role :=
  match find (fun p => String.eqb (fst p) v) l with Some p => Some (snd p) | None => None end.

(* terraswap_pair/src/contract.rs::execute, commands.rs::{receive_cw20 (73,109,113), update_config (611)} *)
Definition pair_roles : list (string * role) :=
  [ ("Receive", Lp);                    (* with the WithdrawLiquidity hook; the Swap hook needs AssetToken, see hook tables *)
    ("ProvideLiquidity", Anyone);
    ("WithdrawLiquidity", Nobody);      (* token-factory LP path: funds must be the (empty) native LP denom *)
    ("Swap", Anyone);
    ("UpdateConfig", Owner);
    ("CollectProtocolFees", Anyone) ].
Definition pair_hook_roles : list (string * role) := [ ("Swap", AssetToken); ("WithdrawLiquidity", Lp) ].
(* stableswap_3pool: same structure (commands.rs 69,106,110; update_config 550) *)
Definition trio_roles : list (string * role) := pair_roles.
Definition trio_hook_roles : list (string * role) := pair_hook_roles.

(* terraswap_factory/src/contract.rs::execute line 59-62: every message, owner only *)
Definition factory_roles : list (string * role) :=
  [ ("UpdateConfig", Owner); ("UpdatePairConfig", Owner); ("UpdateTrioConfig", Owner); ("CreatePair", Owner);
    ("CreateTrio", Owner); ("AddNativeTokenDecimals", Owner); ("MigratePair", Owner); ("MigrateTrio", Owner);
    ("RemovePair", Owner); ("RemoveTrio", Owner) ].

(* terraswap_router: operations.rs:26 (self), contract.rs::assert_minimum_receive (NO sender check — the known finding),
   add/remove_swap_routes -> helpers.rs::assert_admin (wasm admin) *)
Definition router_roles : list (string * role) :=
  [ ("Receive", Anyone); ("ExecuteSwapOperations", Anyone); ("ExecuteSwapOperation", Self);
    ("AssertMinimumReceive", Anyone);
    ("AddSwapRoutes", Owner); ("RemoveSwapRoutes", Owner) ].
Definition router_hook_roles : list (string * role) := [ ("ExecuteSwapOperations", Anyone) ].

(* incentive: only close_flow.rs:41 checks the sender *)
Definition incentive_roles : list (string * role) :=
  [ ("TakeGlobalWeightSnapshot", Anyone); ("OpenFlow", Anyone); ("CloseFlow", CreatorOrOwner); ("OpenPosition", Anyone);
    ("ExpandPosition", Anyone); ("ClosePosition", Anyone); ("Withdraw", Anyone); ("Claim", Anyone); ("ExpandFlow", Anyone) ].

(* incentive_factory/src/contract.rs:95-98: every message, owner only *)
Definition incentive_factory_roles : list (string * role) :=
  [ ("CreateIncentive", Owner); ("UpdateConfig", Owner); ("MigrateIncentives", Owner) ].

(* frontend_helper/src/contract.rs:152 *)
Definition helper_roles : list (string * role) := [ ("Deposit", Anyone); ("UpdateConfig", Owner) ].

(* vault: update_config.rs:24, receive/mod.rs:26 (LP token), callback/mod.rs:17 (self) *)
Definition vault_roles : list (string * role) :=
  [ ("Deposit", Anyone); ("Withdraw", Nobody); ("FlashLoan", Anyone); ("CollectProtocolFees", Anyone);
    ("UpdateConfig", Owner); ("Receive", Lp); ("Callback", Self) ].
Definition vault_hook_roles : list (string * role) := [ ("Withdraw", Lp) ].
Definition vault_callback_roles : list (string * role) := [ ("AfterTrade", Self) ].

(* vault_factory/src/contract.rs:43-46: every message, owner only *)
Definition vault_factory_roles : list (string * role) :=
  [ ("CreateVault", Owner); ("MigrateVaults", Owner); ("RemoveVault", Owner); ("UpdateVaultConfig", Owner); ("UpdateConfig", Owner) ].

(* vault_router: update_config.rs:16, next_loan.rs:23-40, complete_loan.rs:18 *)
Definition vault_router_roles : list (string * role) :=
  [ ("FlashLoan", Anyone); ("UpdateConfig", Owner); ("NextLoan", VaultOfAsset); ("CompleteLoan", Self) ].

(* fee_collector: commands.rs:131 (owner), :372 (distributor) *)
Definition collector_roles : list (string * role) :=
  [ ("CollectFees", Anyone); ("AggregateFees", Anyone); ("ForwardFees", DistributorOnly); ("UpdateConfig", Owner) ].
(* fee_distributor: commands.rs:187 *)
Definition distributor_roles : list (string * role) := [ ("NewEpoch", Anyone); ("Claim", Anyone); ("UpdateConfig", Owner) ].
(* whale_lair: commands.rs:203 *)
Definition lair_roles : list (string * role) := [ ("Bond", Anyone); ("Unbond", Anyone); ("Withdraw", Anyone); ("UpdateConfig", Owner) ].
(* epoch-manager: commands.rs: HOOKS.execute_add_hook / execute_remove_hook (&ADMIN), update_config: ADMIN.assert_admin *)
Definition epoch_manager_roles : list (string * role) :=
  [ ("CreateEpoch", Anyone); ("AddHook", Owner); ("RemoveHook", Owner); ("UpdateConfig", Owner) ].

Definition roles_of (c : contract) : list (string * role) :=
  match c with
  | Pair => pair_roles | Trio => trio_roles | Factory => factory_roles | Router => router_roles
  | Incentive => incentive_roles | IncentiveFactory => incentive_factory_roles | Helper => helper_roles
  | Vault => vault_roles | VaultFactory => vault_factory_roles | VaultRouter => vault_router_roles
  | Collector => collector_roles | Distributor => distributor_roles | Lair => lair_roles | EpochManager => epoch_manager_roles
  end.
Definition required_role (c : contract) (v : string) : option role := lookup (roles_of c) v.

(* the generated inventory each table must cover *)
Definition inventory (c : contract) : list string :=
  match c with
  | Pair => Params.pair_execute | Trio => Params.trio_execute | Factory => Params.factory_execute
  | Router => Params.router_execute | Incentive => Params.incentive_execute
  | IncentiveFactory => Params.incentive_factory_execute | Helper => Params.frontend_helper_execute
  | Vault => Params.vault_execute | VaultFactory => Params.vault_factory_execute | VaultRouter => Params.vault_router_execute
  | Collector => Params.fee_collector_execute | Distributor => Params.fee_distributor_execute
  | Lair => Params.whale_lair_execute | EpochManager => Params.epoch_manager_execute
  end.
Definition all_contracts : list contract :=
  [Pair; Trio; Factory; Router; Incentive; IncentiveFactory; Helper; Vault; VaultFactory; VaultRouter; Collector; Distributor; Lair; EpochManager].

Definition classified (tbl : list (string * role)) (v : string) : bool :=
  match lookup tbl v with Some _ => true | None => false end.
(* sub-inventories: cw20 hook messages and the vault callback *)
Definition hook_tables : list (list string * list (string * role)) :=
  [ (Params.pair_cw20hook, pair_hook_roles); (Params.trio_cw20hook, trio_hook_roles);
    (Params.router_cw20hook, router_hook_roles); (Params.vault_cw20hook, vault_hook_roles);
    (Params.vault_callback, vault_callback_roles) ].
Definition all_classified : bool :=
  forallb (fun c => forallb (classified (roles_of c)) (inventory c)) all_contracts &&
  forallb (fun p => forallb (classified (snd p)) (fst p)) hook_tables.
(* and nothing is classified that the source does not have (a removed / renamed variant also shows up) *)
Definition no_stale_entries : bool :=
  forallb (fun c => forallb (fun p => existsb (String.eqb (fst p)) (inventory c)) (roles_of c)) all_contracts.

(* ---- what the property statement itself demands (properties.jsonl C16) ----------------------------------- *)
(* configuration changes, creation / removal, migrations of children, route / hook management, fee and toggle updates:
   owner only; the named internal callbacks: the designated contract only *)
Definition property_table (c : contract) : list (string * role) :=
  match c with
  | Pair | Trio => [("UpdateConfig", Owner)]
  | Factory => factory_roles
  | Router => [("ExecuteSwapOperation", Self); ("AssertMinimumReceive", Self); ("AddSwapRoutes", Owner); ("RemoveSwapRoutes", Owner)]
  | Incentive => []
  | IncentiveFactory => incentive_factory_roles
  | Helper => [("UpdateConfig", Owner)]
  | Vault => [("UpdateConfig", Owner); ("Callback", Self)]
  | VaultFactory => vault_factory_roles
  | VaultRouter => [("UpdateConfig", Owner); ("NextLoan", VaultOfAsset); ("CompleteLoan", Self)]
  | Collector => [("UpdateConfig", Owner); ("ForwardFees", DistributorOnly)]
  | Distributor | Lair => [("UpdateConfig", Owner)]
  | EpochManager => [("AddHook", Owner); ("RemoveHook", Owner); ("UpdateConfig", Owner)]
  end.
Definition property_role (c : contract) (v : string) : option role := lookup (property_table c) v.

Definition role_eqb (a b : role) : bool :=
  match a, b with
  | Anyone, Anyone | Owner, Owner | Self, Self | Lp, Lp | AssetToken, AssetToken | VaultOfAsset, VaultOfAsset
  | DistributorOnly, DistributorOnly | CreatorOrOwner, CreatorOrOwner | Nobody, Nobody => true
  | _, _ => false
  end.

(* the recorded known findings: router AssertMinimumReceive has no sender check; route management of a router without wasm admin *)
Definition known_amr (c : contract) (v : string) : bool :=
  match c with Router => String.eqb v "AssertMinimumReceive" | _ => false end.

(* ---- owners and the decision --------------------------------------------------------------------------------- *)
(* phase 0: as deployed. phase 1: every top-level contract's ownership transferred admin -> new admin.
   phase 2: the children's (pair, trio, vault) ownership transferred from their factory to the new admin.
   phase 3 (router only): the router deployed WITHOUT a wasm admin — helpers.rs::assert_admin then lets everybody through
   (`if let Some(admin) = contract_info.admin { .. }`): the second known finding. *)
Definition is_router (c : contract) : bool := match c with Router => true | _ => false end.
Definition no_admin (c : contract) (phase : Z) : bool := is_router c && Z.eqb phase 3.
Definition is_child (c : contract) : bool := match c with Pair | Trio | Vault => true | _ => false end.
Definition owner_at (c : contract) (phase : Z) : caller :=
  if is_child c then (if Z.eqb phase 2 then CNewAdmin else CParent)
  else (if Z.eqb phase 1 then CNewAdmin else CAdmin).

Definition holds (c : contract) (r : role) (phase : Z) (who : caller) : bool :=
  match r with
  | Anyone => true
  | Owner => caller_eqb who (owner_at c phase) || no_admin c phase
  | Self => caller_eqb who CSelf
  | Lp | AssetToken | VaultOfAsset | DistributorOnly => caller_eqb who CDesignated
  | CreatorOrOwner => caller_eqb who CDesignated || caller_eqb who (owner_at IncentiveFactory phase)
  | Nobody => false
  end.

Definition privileged (r : role) : bool := match r with Anyone => false | _ => true end.

(* 0 = accepted, 1 = rejected. `cmp` is only consulted for Anyone variants, whose outcome must not depend on who calls:
   1 / 0 = the same call by the reference user on an identically prepared world is accepted / rejected;
   2 = this caller could not be prepared like the reference user (e.g. a contract opening a position in itself): no expectation (9) *)
Definition decide (c : contract) (v : string) (phase : Z) (who : caller) (cmp : Z) : Z :=
  match required_role c v with
  | None => 1
  | Some Anyone => if Z.eqb cmp 2 then 9 else if Z.eqb cmp 1 then 0 else 1
  | Some r => if holds c r phase who then 0 else 1
  end.

(* ---- a guarded contract: the sender check in front of an arbitrary body ------------------------------------------ *)
Section Guard.
  Variable S : Type.                                   (* the rest of the contract's storage and all balances *)
  Variable body : contract -> string -> caller -> S -> outcome S.
  Definition exec (c : contract) (phase : Z) (who : caller) (v : string) (s : S) : outcome S :=
    match required_role c v with
    | None => Err E_OTHER
    | Some r => if holds c r phase who then body c v who s else Err E_UNAUTH
    end.
  Definition after (c : contract) (phase : Z) (who : caller) (v : string) (s : S) : S :=
    match exec c phase who v s with Ok s' => s' | _ => s end.
End Guard.

(* ---- ownership histories (one ownable contract) -------------------------------------------------------------------- *)
(* addresses are integers; an operation is an UpdateConfig{owner: o} attempt by `sender` *)
Definition own_step (owner : Z) (op : Z * option Z) : outcome Z :=
  let '(sender, o) := op in
  if Z.eqb sender owner then Ok (match o with Some o' => o' | None => owner end) else Err E_UNAUTH.
Definition own_next (owner : Z) (op : Z * option Z) : Z := match own_step owner op with Ok o => o | _ => owner end.
Definition own_run (owner : Z) (h : list (Z * option Z)) : Z := fold_left own_next h owner.
Definition passes_owner_check (owner who : Z) : bool := Z.eqb who owner.

(* observation of a history: per attempt accepted (0) / rejected (1), then the owner the Config query reports *)
Fixpoint own_obs (owner : Z) (h : list (Z * option Z)) : list Z :=
  match h with
  | [] => []
  | op :: r => (if is_ok (own_step owner op) then 0 else 1) :: own_next owner op :: own_obs (own_next owner op) r
  end.
