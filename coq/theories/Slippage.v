(* Slippage.v — white_whale_std::pool_network::swap::assert_max_spread and the constant-product arm of
   terraswap_pair::helpers::assert_slippage_tolerance, operation by operation. *)
From WW Require Import Prim.

Definition eff_spread (default_s max_s : Z) (max_spread : option Z) : Z :=
  Z.min (match max_spread with Some m => m | None => default_s end) max_s.

(* offer, ret (= proceeds + fees), spread are Uint128 values *)
Definition assert_max_spread (default_s max_s : Z) (belief max_spread : option Z) (offer ret spread : Z)
  : outcome unit :=
  let ms := eff_spread default_s max_s max_spread in
  match belief with
  | Some bp =>
      if bp =? 0 then Err E_OTHER else                 (* "Belief price can't be zero" *)
      let inv := DEC * DEC / bp in                     (* Decimal::inv *)
      do er <- mul_dec P128 offer inv;                 (* Uint128 * Decimal: panics on overflow *)
      let sp := ssub er ret in
      if ret <? er then
        do r <- dec_from_ratio P256 sp er;
        if ms <? r then Err E_SLIPPAGE else Ok tt
      else Ok tt
  | None =>
      do den <- padd P128 ret spread;                  (* Uint128 + : panics on overflow *)
      do r <- dec_from_ratio P256 spread den;          (* panics when ret + spread = 0 *)
      if ms <? r then Err E_SLIPPAGE else Ok tt
  end.

(* constant-product liquidity slippage: deposits d0 d1, reserves r0 r1 (before the deposit, net of fees) *)
Definition assert_slippage_cp (tol : option Z) (d0 d1 r0 r1 : Z) : outcome unit :=
  match tol with
  | None => Ok tt
  | Some t =>
      if DEC <? t then Err E_OTHER else                (* "slippage_tolerance cannot bigger than 1" *)
      let om := DEC - t in
      do a  <- dec_from_ratio P256 d0 d1;
      do a' <- dec_mul P256 a om;
      do b  <- dec_from_ratio P256 r0 r1;
      if b <? a' then Err E_SLIPPAGE else
      do c  <- dec_from_ratio P256 d1 d0;
      do c' <- dec_mul P256 c om;
      do e  <- dec_from_ratio P256 r1 r0;
      if e <? c' then Err E_SLIPPAGE else Ok tt
  end.

(* stableswap deposits (terraswap_pair StableSwap arm and stableswap_3pool): the ratio of all reserves to the LP supply,
   scaled by (1 - t), must not exceed the ratio of all deposits to the LP amount minted for them.
   dep_total / pool_total are the sums over the two (three) assets; Uint256 sums of Uint128 values cannot overflow. *)
Definition assert_slippage_stable (tol : option Z) (dep_total pool_total amount supply : Z) : outcome unit :=
  match tol with
  | None => Ok tt
  | Some t =>
      if DEC <? t then Err E_OTHER else                (* "slippage_tolerance cannot bigger than 1" *)
      do pr <- dec_from_ratio P256 pool_total supply;  (* panics when the LP supply is 0 *)
      do dr <- dec_from_ratio P256 dep_total amount;   (* panics when nothing is minted *)
      do m  <- dec_mul P256 pr (DEC - t);
      if dr <? m then Err E_SLIPPAGE else Ok tt
  end.
