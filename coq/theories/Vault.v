(* Vault.v — executable model of the flash-loan vault (contracts/liquidity_hub/vault-network/vault), of the
   scripted borrower (adversary) contract the harness deploys, and of the vault router's single-asset loan.
   Models only; proofs are in proofs/VaultProofs.v, statements in props/C05.v, C06.v.

   The model is independent of the kind of the vault asset (native / cw20): the two code paths differ only in
   how funds reach the vault (attached funds vs allowance + TransferFrom) and both are covered by the same
   ledger operation; the harness runs both kinds against this one model.

   Accounts are indices into the two ledgers `ab` (vault asset) and `lp` (vault share token = cw20 LP token). *)
From WW Require Import Prim Params.

Definition MIN_LIQ : Z := Params.Params.VAULT_MINIMUM_LIQUIDITY_AMOUNT.
Definition P32 : Z := 2^32.

Definition VAULT  : nat := 0.   (* the vault contract *)
Definition COLL   : nat := 1.   (* fee collector address *)
Definition ADV    : nat := 2.   (* the scripted borrower contract *)
Definition ROUTER : nat := 3.   (* the vault router contract *)
Definition FACT   : nat := 4.   (* the vault factory contract = initial owner of the vault *)
Definition FOWNER : nat := 5.   (* the owner (admin) of the vault factory *)
(* indices >= 6: ordinary users *)

(* ---- ledgers ------------------------------------------------------------ *)
Fixpoint upd (l : list Z) (i : nat) (v : Z) : list Z :=
  match l, i with
  | [], _ => []
  | _ :: r, O => v :: r
  | x :: r, S i' => x :: upd r i' v
  end.
Definition get (l : list Z) (i : nat) : Z := nth i l 0.
Definition has (l : list Z) (i : nat) : bool := Nat.ltb i (length l).

(* a transfer of z units. k = true: cw20 asset (cw20-base 1.1.0 accepts zero amounts: a no-op);
   k = false: native asset (the bank rejects an empty / zero coin list). Insufficient funds are rejected. *)
Definition xfer (k : bool) (l : list Z) (from to : nat) (z : Z) : outcome (list Z) :=
  do _ <- ensure (has l from && has l to) E_OTHER;
  do _ <- ensure (if k then 0 <=? z else 0 <? z) E_OTHER;
  do _ <- ensure (z <=? get l from) E_OTHER;
  let l1 := upd l from (get l from - z) in
  Ok (upd l1 to (get l1 to + z)).

(* ---- state -------------------------------------------------------------- *)
Record cfg := mkCfg {
  f_prot : Z; f_flash : Z; f_burn : Z;          (* fee shares, Decimal atomics *)
  dep_on : bool; wd_on : bool; fl_on : bool;    (* deposit_enabled, withdraw_enabled, flash_loan_enabled *)
  owner : nat;
  is_cw20 : bool }.                             (* kind of the vault asset; never changes *)

Record state := mkSt {
  ab : list Z;        (* balances of the vault asset *)
  lp : list Z;        (* balances of the LP (share) token; total supply = their sum *)
  pend : Z;           (* COLLECTED_PROTOCOL_FEES *)
  allf : Z;           (* ALL_TIME_COLLECTED_PROTOCOL_FEES *)
  burned : Z;         (* ALL_TIME_BURNED_FEES *)
  counter : Z;        (* LOAN_COUNTER (u32) *)
  conf : cfg }.

Definition bal (st : state) : Z := get (ab st) VAULT.
Definition kind (st : state) : bool := is_cw20 (conf st).
Definition supply (st : state) : Z := sumZ (lp st).
(* assets owned by the share holders *)
Definition backing (st : state) : Z := bal st - pend st.

Definition set_ab st v := mkSt v (lp st) (pend st) (allf st) (burned st) (counter st) (conf st).
Definition set_lp st v := mkSt (ab st) v (pend st) (allf st) (burned st) (counter st) (conf st).
Definition set_pend st v := mkSt (ab st) (lp st) v (allf st) (burned st) (counter st) (conf st).
Definition set_allf st v := mkSt (ab st) (lp st) (pend st) v (burned st) (counter st) (conf st).
Definition set_burned st v := mkSt (ab st) (lp st) (pend st) (allf st) v (counter st) (conf st).
Definition set_counter st v := mkSt (ab st) (lp st) (pend st) (allf st) (burned st) v (conf st).
Definition set_conf st v := mkSt (ab st) (lp st) (pend st) (allf st) (burned st) (counter st) v.

(* VaultFee::is_valid: every share < 100 % and their sum < 100 % *)
Definition fees_valid (p f b : Z) : bool :=
  (0 <=? p) && (0 <=? f) && (0 <=? b) && (p <? DEC) && (f <? DEC) && (b <? DEC) && (p + f + b <? DEC).

(* fresh vault as the factory creates it: everything enabled, owner = factory, no shares, zero ledgers *)
Definition init (p f b : Z) (k : bool) (balances : list Z) : outcome state :=
  do _ <- ensure (fees_valid p f b) E_OTHER;
  Ok (mkSt balances (map (fun _ => 0) balances) 0 0 0 0 (mkCfg p f b true true true FACT k)).

(* Fee::compute on Uint256 then Uint128::try_from *)
Definition fee (z sh : Z) : outcome Z :=
  let r := z * sh / DEC in if r <? P128 then Ok r else Err E_OTHER.

(* QueryMsg::GetPaybackAmount: (payback, protocol, flash, burn) *)
Definition payback (c : cfg) (z : Z) : outcome (Z * Z * Z * Z) :=
  do pf <- fee z (f_prot c);
  do ff <- fee z (f_flash c);
  do bf <- fee z (f_burn c);
  do r1 <- cadd P128 z pf;
  do r2 <- cadd P128 r1 ff;
  do r3 <- cadd P128 r2 bf;
  Ok (r3, pf, ff, bf).

(* ---- deposit ------------------------------------------------------------ *)
(* `sent` = attached funds of the vault denom (native) / the allowance given to the vault (cw20) *)
Definition deposit (u : nat) (z sent : Z) (st : state) : outcome state :=
  (* native asset: the attached funds are moved by the bank before the contract runs, so a sender who cannot cover them is
     rejected before any check of the vault (cw20: the TransferFrom comes last) *)
  do _ <- ensure (kind st || (sent <=? get (ab st) u)) E_OTHER;
  do _ <- ensure (dep_on (conf st)) E_DISABLED;
  do _ <- ensure (counter st =? 0) E_OTHER;                  (* DepositDuringLoan *)
  do _ <- ensure (sent =? z) E_OTHER;                        (* FundsMismatch *)
  do _ <- ensure (has (lp st) u) E_OTHER;
  let S := supply st in
  do minted <-
    (if S =? 0 then
       do share <- csub z MIN_LIQ;                           (* InvalidInitialLiquidityAmount *)
       do _ <- ensure (negb (share =? 0)) E_OTHER;
       Ok (MIN_LIQ, share)
     else
       do t <- csub (bal st) (pend st);                      (* balance - pending fees (- the deposit, native) *)
       do l <- cdiv (z * S) t;                               (* checked_div: DivideByZero *)
       do _ <- ensure (l <? P128) E_OTHER;                   (* try_into Uint128; minting 0 shares is accepted by the LP token *)
       Ok (0, l));
  let '(locked, share) := minted in
  (* native: the attached funds (nothing when z = 0); cw20: TransferFrom (z = 0 on a cw20 vault depends on cw20-base
     allowance records, is not modelled and never generated) *)
  do ab' <- (if z =? 0 then Ok (ab st) else xfer (kind st) (ab st) u VAULT z);
  do _ <- must (S + locked + share <? P128);                 (* cw20-base: total_supply += amount *)
  let lp1 := upd (lp st) VAULT (get (lp st) VAULT + locked) in
  let lp2 := upd lp1 u (get lp1 u + share) in
  Ok (set_lp (set_ab st ab') lp2).

(* ---- withdraw (cw20 Send hook of the LP token) --------------------------- *)
Definition withdraw (u : nat) (a : Z) (st : state) : outcome state :=
  do _ <- ensure (has (lp st) u && negb (Nat.eqb u VAULT)) E_OTHER;
  do _ <- ensure ((0 <=? a) && (a <=? get (lp st) u)) E_OTHER;  (* cw20 Send of the LP token: insufficient shares *)
  do _ <- ensure (wd_on (conf st)) E_DISABLED;
  do t <- csub (bal st) (pend st);
  let S := supply st in
  do r <- dec_from_ratio P128 a S;                               (* Decimal::from_ratio(amount, total_share) *)
  do w <- mul_dec P128 t r;                                      (* Decimal * Uint128 *)
  do ab' <- xfer (kind st) (ab st) VAULT u w;
  Ok (set_lp (set_ab st ab') (upd (lp st) u (get (lp st) u - a))).

(* ExecuteMsg::Withdraw {} (token-factory LP path): with a cw20 LP token no funds can match -> AssetMismatch *)
Definition withdraw_direct (u : nat) (st : state) : outcome state := Err E_OTHER.

(* ---- collect protocol fees (anyone) ------------------------------------- *)
Definition collect (st : state) : outcome state :=
  let f := pend st in
  let st1 := set_pend st 0 in
  if f =? 0 then Ok st1 else
  do ab' <- xfer (kind st) (ab st1) VAULT COLL f;
  Ok (set_ab st1 ab').

(* ---- update config ------------------------------------------------------ *)
Record uparams := mkUp {
  u_fl : option bool; u_wd : option bool; u_dep : option bool;
  u_owner : option nat; u_fees : option (Z * Z * Z) }.

Definition opt {A} (o : option A) (d : A) : A := match o with Some v => v | None => d end.

Definition update_config (sender : nat) (p : uparams) (st : state) : outcome state :=
  let c := conf st in
  do _ <- ensure (Nat.eqb sender (owner c)) E_UNAUTH;
  do fees <- (match u_fees p with
              | None => Ok (f_prot c, f_flash c, f_burn c)
              | Some (a, b, d) => do _ <- ensure (fees_valid a b d) E_OTHER; Ok (a, b, d)
              end);
  let '(a, b, d) := fees in
  Ok (set_conf st (mkCfg a b d (opt (u_dep p) (dep_on c)) (opt (u_wd p) (wd_on c)) (opt (u_fl p) (fl_on c))
                         (opt (u_owner p) (owner c)) (is_cw20 c))).

(* ---- flash loan --------------------------------------------------------- *)
(* CallbackMsg::AfterTrade, executed by the vault on itself after the borrower's message *)
Definition after_trade (old z : Z) (st : state) : outcome state :=
  let c := conf st in
  let new := bal st in
  do pf <- fee z (f_prot c);
  do ff <- fee z (f_flash c);
  do bf <- fee z (f_burn c);
  do r1 <- cadd P128 old pf;
  do r2 <- cadd P128 r1 ff;
  do req <- cadd P128 r2 bf;
  do _ <- ensure (req <=? new) E_OTHER;                      (* NegativeProfit *)
  do p' <- cadd P128 (pend st) pf;
  do a' <- cadd P128 (allf st) pf;
  let st1 := set_counter (set_allf (set_pend st p') a') (ssub (counter st) 1) in
  if bf =? 0 then Ok st1 else
  do b' <- cadd P128 (burned st1) bf;
  Ok (set_ab (set_burned st1 b') (upd (ab st1) VAULT (get (ab st1) VAULT - bf))).

(* ExecuteMsg::FlashLoan sent by contract `who`; `body` = what `who` does with the message it receives *)
Definition flash_loan (who : nat) (z : Z) (body : state -> outcome state) (st : state) : outcome state :=
  do _ <- ensure (fl_on (conf st)) E_DISABLED;
  do c' <- cadd P32 (counter st) 1;
  let old := bal st in
  do ab' <- xfer (kind st) (ab st) VAULT who z;
  do st2 <- body (set_counter (set_ab st ab') c');
  after_trade old z st2.

(* ---- the scripted borrower ---------------------------------------------- *)
Inductive action : Type :=
| APay (tgt : nat) (z : Z)        (* transfer z of the vault asset from the borrower to account tgt (repay / donate / fund the router) *)
| ARepayQ (d : Z)                 (* transfer GetPaybackAmount(enclosing loan) + d to the vault (nothing if <= 0) *)
| ALoan (z : Z) (s : script)      (* take a flash loan of z with callback script s *)
| ADeposit (z : Z)                (* deposit z (with exactly matching funds / allowance) *)
| AWithdraw (a : Z)               (* redeem a shares *)
| ACollect                        (* CollectProtocolFees *)
| AFail                           (* return an error *)
| ATry (s : script)               (* run s as a sub-message whose failure is caught (reply_on error): rolled back, then continue *)
with script : Type :=
| SNil
| SCons (a : action) (s : script).

(* L = amount of the innermost enclosing loan (0 outside any loan) *)
Fixpoint run_action (L : Z) (a : action) (st : state) {struct a} : outcome state :=
  match a with
  | APay tgt z => do ab' <- xfer (kind st) (ab st) ADV tgt z; Ok (set_ab st ab')
  | ARepayQ d =>
      do q <- payback (conf st) L;
      let amt := fst (fst (fst q)) + d in
      if amt <=? 0 then Ok st else
      do _ <- ensure (amt <? P128) E_OTHER;
      do ab' <- xfer (kind st) (ab st) ADV VAULT amt; Ok (set_ab st ab')
  | ALoan z s => flash_loan ADV z (run_script z s) st
  | ADeposit z => deposit ADV z z st
  | AWithdraw a => withdraw ADV a st
  | ACollect => collect st
  | AFail => Err E_OTHER
  (* a sub-message with reply_on_error: an ERROR is caught and rolled back. A contract ABORT (Rust panic) is not an error of the
     sub-message on the platform the correspondence runs on (cw-multi-test: it unwinds the whole transaction); on the chain an abort
     is an error like any other, i.e. the script behaves as if the aborting sub-script were AFail - a case the theorems cover *)
  | ATry s => match run_script L s st with Ok st' => Ok st' | Err _ => Ok st | Panic => Panic end
  end
with run_script (L : Z) (s : script) (st : state) {struct s} : outcome state :=
  match s with
  | SNil => Ok st
  | SCons a r => do st' <- run_action L a st; run_script L r st'
  end.

(* ---- vault router: FlashLoan { assets = [z of the vault asset], msgs } by initiator u ---------------------- *)
(* payload executed by the router: (optionally) forward `pre` of the loan to the borrower contract, then let it run `s` *)
Definition complete_loan (u : nat) (z : Z) (st : state) : outcome state :=
  do q <- payback (conf st) z;
  let q0 := fst (fst (fst q)) in
  do profit <- csub (get (ab st) ROUTER) q0;                 (* NegativeProfit *)
  do ab1 <- xfer (kind st) (ab st) ROUTER VAULT q0;
  if profit =? 0 then Ok (set_ab st ab1) else
  do ab2 <- xfer (kind st) ab1 ROUTER u profit;
  Ok (set_ab st ab2).

Definition router_body (u : nat) (z pre : Z) (s : script) (st : state) : outcome state :=
  do st1 <- (if pre =? 0 then Ok st else do ab' <- xfer (kind st) (ab st) ROUTER ADV pre; Ok (set_ab st ab'));
  do st2 <- run_script z s st1;
  complete_loan u z st2.

Definition router_loan (u : nat) (z pre : Z) (s : script) (st : state) : outcome state :=
  do _ <- ensure (has (ab st) u) E_OTHER;
  flash_loan ROUTER z (router_body u z pre s) st.

(* vault-router FlashLoan with `f` coins of the vault asset attached to the message: they reach the router before it runs *)
Definition router_loan_f (u : nat) (z pre : Z) (s : script) (f : Z) (st : state) : outcome state :=
  if f =? 0 then router_loan u z pre s st
  else do ab' <- xfer (kind st) (ab st) u ROUTER f; router_loan u z pre s (set_ab st ab').

(* ---- top-level operations ----------------------------------------------- *)
Inductive op : Type :=
| ODeposit (u : nat) (z sent : Z)
| OWithdraw (u : nat) (a : Z)
| OWithdrawDirect (u : nat)
| OCollect (u : nat)
| OUpdate (u : nat) (via_factory : bool) (p : uparams)
| ODonate (u : nat) (z : Z)
| OBurnLP (u : nat) (a : Z)
| ORun (s : script)                                  (* anyone asks the borrower contract to run s *)
| ORouterLoan (u : nat) (z pre : Z) (s : script)
| ORouterMany (u : nat) (n : Z)                      (* router FlashLoan with n /= 1 assets *)
| OCallbackExt (u : nat) (old z : Z)                 (* Callback(AfterTrade) sent by somebody else than the vault *)
| ONextLoanExt (u : nat)                             (* router NextLoan sent by somebody else than a registered vault *)
| OCompleteLoanExt (u : nat)                         (* router CompleteLoan sent by somebody else than the router *)
| ORouterLoanF (u : nat) (z pre : Z) (s : script) (f : Z).   (* router loan with f coins attached by the initiator *)

Definition is_user (st : state) (u : nat) : bool := has (ab st) u && Nat.leb 5 u.

Definition step (st : state) (o : op) : outcome state :=
  match o with
  | ODeposit u z sent => do _ <- ensure (is_user st u) E_OTHER; deposit u z sent st
  | OWithdraw u a => do _ <- ensure (is_user st u) E_OTHER; withdraw u a st
  | OWithdrawDirect u => withdraw_direct u st
  | OCollect _ => collect st
  | OUpdate u via p =>
      if via then do _ <- ensure (Nat.eqb u FOWNER) E_UNAUTH; update_config FACT p st
      else update_config u p st
  | ODonate u z => do _ <- ensure (is_user st u) E_OTHER; do ab' <- xfer (kind st) (ab st) u VAULT z; Ok (set_ab st ab')
  | OBurnLP u a =>
      do _ <- ensure (is_user st u) E_OTHER;
      do _ <- ensure ((0 <=? a) && (a <=? get (lp st) u)) E_OTHER;
      Ok (set_lp st (upd (lp st) u (get (lp st) u - a)))
  | ORun s => run_script 0 s st
  | ORouterLoan u z pre s => do _ <- ensure (is_user st u) E_OTHER; router_loan u z pre s st
  | ORouterMany _ n => if n =? 0 then Ok st else Err E_OTHER      (* NestedFlashLoansDisabled *)
  | OCallbackExt _ _ _ => Err E_OTHER                             (* ExternalCallback *)
  | ONextLoanExt _ => Err E_UNAUTH
  | OCompleteLoanExt _ => Err E_UNAUTH
  | ORouterLoanF u z pre s f => do _ <- ensure (is_user st u) E_OTHER; router_loan_f u z pre s f st
  end.

(* a rejected operation leaves everything as it was (transaction atomicity of the platform) *)
Definition apply (st : state) (o : op) : state := match step st o with Ok st' => st' | _ => st end.
Definition run (st : state) (h : list op) : state := fold_left apply h st.

(* ---- nesting (the decidable signature of the known finding) ------------- *)
Fixpoint loan_free_a (a : action) : bool :=
  match a with ALoan _ _ => false | ATry s => loan_free s | _ => true end
with loan_free (s : script) : bool :=
  match s with SNil => true | SCons a r => loan_free_a a && loan_free r end.

(* no loan is taken while another one is outstanding *)
Fixpoint unnested_a (a : action) : bool :=
  match a with ALoan _ s => loan_free s | ATry s => unnested s | _ => true end
with unnested (s : script) : bool :=
  match s with SNil => true | SCons a r => unnested_a a && unnested r end.

Definition op_unnested (o : op) : bool :=
  match o with ORun s => unnested s | ORouterLoan _ _ _ s => loan_free s | ORouterLoanF _ _ _ s _ => loan_free s | _ => true end.
Definition has_nested_loan (h : list op) : Prop := existsb (fun o => negb (op_unnested o)) h = true.

(* ---- queries ------------------------------------------------------------ *)
Definition q_share (st : state) (a : Z) : outcome Z :=
  do t <- csub (bal st) (pend st);
  do r <- dec_from_ratio P128 a (supply st);
  mul_dec P128 t r.
