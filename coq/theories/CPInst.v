(* CPInst.v — the pool machine instantiated at the constants extracted from the Rust sources *)
From WW Require Import Prim CPSwap Slippage CP Params.
Definition the_consts : consts :=
  mkConsts Params.MINIMUM_LIQUIDITY_AMOUNT Params.PAIR_MINIMUM_COLLECTABLE_BALANCE
           Params.DEFAULT_SLIPPAGE Params.MAX_ALLOWED_SLIPPAGE.
