(* Stable2.v — the StableSwap arm of terraswap_pair: helpers.rs (calculate_stableswap_d on Decimal256, calculate_stableswap_y
   on Uint256, compute_d / compute_next_d on Uint512, compute_lp_mint_amount_for_stableswap_deposit, compute_swap) and
   math.rs (Decimal256Helper), operation by operation. Decimal256 = atomics at scale 10^18 in a 256-bit word.
   All `?`-propagated errors are Err E_OTHER (one class: the harness compares only the class); `.unwrap()` -> Panic;
   Option None -> Err E_NONE. *)
From WW Require Import Prim Params Amp CPSwap.

Definition NEWTON2 : nat := Z.to_nat Params.PAIR_NEWTON_ITERATIONS.     (* NEWTON_ITERATIONS = 32 *)
Definition D2_FUEL : nat := Z.to_nat Params.PAIR_D_ITERATIONS.          (* 256 *)

(* ---- Decimal256 / Uint256 primitives used here (cosmwasm-std 1.5.4) ---- *)
Definition e256 (z : Z) : outcome Z := if fits256 z then Ok z else Err E_OTHER.
(* Decimal256::from_atomics(value, places) : value * 10^(18-places) (overflow -> Err) or value / 10^(places-18) *)
Definition from_atomics (value places : Z) : outcome Z :=
  if places <=? 18 then e256 (value * 10 ^ (18 - places)) else
  Ok (value / 10 ^ (places - 18)).
(* Decimal256Helper::to_uint256_with_precision: atomics / 10^(18 - precision); `18 - precision` is a u32 subtraction *)
Definition to_precision (atomics precision : Z) : outcome Z :=
  if 18 <? precision then Panic else Ok (atomics / 10 ^ (18 - precision)).
Definition dmul (a b : Z) : outcome Z := e256 (a * b / DEC).              (* Decimal256::checked_mul *)
Definition dadd (a b : Z) : outcome Z := e256 (a + b).
Definition dsub (a b : Z) : outcome Z := if b <=? a then Ok (a - b) else Err E_OTHER.
Definition ddiv (a b : Z) : outcome Z := if b =? 0 then Err E_OTHER else e256 (a * DEC / b).   (* checked_div -> checked_from_ratio *)
(* Uint256::checked_multiply_ratio (512-bit intermediate) *)
Definition mulratio (a num den : Z) : outcome Z := if den =? 0 then Err E_OTHER else e256 (a * num / den).
Definition umul (a b : Z) : outcome Z := e256 (a * b).
Definition uadd (a b : Z) : outcome Z := e256 (a + b).
Definition usub (a b : Z) : outcome Z := dsub a b.
Definition udiv (a b : Z) : outcome Z := if b =? 0 then Err E_OTHER else Ok (a / b).

Definition within (a b tol : Z) : bool := if b <=? a then a - b <=? tol else b - a <=? tol.

(* ---- calculate_stableswap_d (Decimal256) ---- *)
Definition sd_step (op ap ann sum cur : Z) : outcome Z :=
  let n2 := 2 * DEC in
  do m0 <- dmul op n2;
  do acc <- mulratio cur cur m0;
  do m1 <- dmul ap n2;
  do new_d <- mulratio acc cur m1;
  do t1 <- dmul ann sum;
  do t2 <- dmul new_d n2;
  do t3 <- dadd t1 t2;
  do num <- dmul t3 cur;
  do am1 <- dsub ann DEC;
  do t4 <- dmul am1 cur;
  do n3 <- dadd n2 DEC;
  do t5 <- dmul n3 new_d;
  do den <- dadd t4 t5;
  ddiv num den.

Fixpoint sd_loop (fuel : nat) (op ap ann sum tol cur : Z) : outcome Z :=
  match fuel with
  | O => Err E_OTHER                                   (* ConvergeError *)
  | S f => do cur' <- sd_step op ap ann sum cur;
           if within cur' cur tol then Ok cur' else sd_loop f op ap ann sum tol cur'
  end.

Definition stableswap_d_fuel (fuel : nat) (op ap amp precision : Z) : outcome Z :=
  do sum <- dadd op ap;
  if sum =? 0 then Ok 0 else
  do ann_u <- umul amp 2;
  let ann := ann_u * DEC in                                (* Decimal256::from_ratio(ann, 1): cannot overflow for a u64 amp *)
  (* the tolerance is recomputed in every round: decimal_with_precision(1, precision) *)
  do tol <- from_atomics 1 precision;
  sd_loop fuel op ap ann sum tol sum.
Definition stableswap_d := stableswap_d_fuel NEWTON2.

(* ---- calculate_stableswap_y (Uint256), direction Simulate ---- *)
Definition sy_step (b c d y : Z) : outcome Z :=
  do yy <- umul y y;
  do num <- uadd yy c;
  do y2 <- uadd y y;
  do t <- uadd y2 b;
  do den <- usub t d;
  udiv num den.

Fixpoint sy_loop (fuel : nat) (b c d y : Z) : outcome Z :=
  match fuel with
  | O => Err E_OTHER
  | S f => do y' <- sy_step b c d y;
           if within y' y 1 then (if fits128 y' then Ok y' else Err E_OTHER) else sy_loop f b c d y'
  end.

Definition sy_coeffs (ann pool_sum d : Z) : outcome (Z * Z) :=
  do p2 <- umul pool_sum 2;
  do c1 <- mulratio d d p2;
  do a2 <- umul ann 2;
  do c <- mulratio c1 d a2;
  do q <- udiv d ann;
  do b <- uadd pool_sum q;
  Ok (b, c).

Definition stableswap_y_fuel (fd fy : nat) (op ap oa amp ask_precision : Z) : outcome Z :=
  do ann <- umul amp 2;
  do dd <- stableswap_d_fuel fd op ap amp ask_precision;
  do d <- to_precision dd ask_precision;
  do s <- dadd op oa;
  do pool_sum <- to_precision s ask_precision;
  do bc <- sy_coeffs ann pool_sum d;
  sy_loop fy (fst bc) (snd bc) d d.
Definition stableswap_y := stableswap_y_fuel NEWTON2 NEWTON2.

(* ---- compute_swap, PairType::StableSwap { amp } ---- *)
Definition compute_swap_stable (op ask x : Z) (f : fees) (amp offer_precision ask_precision : Z) : outcome swapc :=
  do opd <- from_atomics op offer_precision;
  do apd <- from_atomics ask ask_precision;
  do oad <- from_atomics x offer_precision;
  do new_pool <- stableswap_y opd apd oad amp ask_precision;
  do askp <- to_precision apd ask_precision;
  do ret <- usub askp new_pool;
  do oap <- to_precision oad ask_precision;
  let spread := ssub oap ret in
  do sf <- fee_compute (f_swap f) ret;
  do pf <- fee_compute (f_protocol f) ret;
  do bf <- fee_compute (f_burn f) ret;
  do r1 <- usub ret sf;
  do r2 <- usub r1 pf;
  do r3 <- usub r2 bf;
  do a <- to128 r3; do b <- to128 spread; do c <- to128 sf; do d <- to128 pf; do e <- to128 bf;
  Ok (mkSwap a b c d e).

(* ---- compute_d / compute_next_d (Uint512, raw amounts) — used for LP minting ---- *)
Definition next_d2 (amp d_init d_prod sum_x : Z) : outcome Z :=
  do ann <- omul64 amp 2;
  do leverage <- pmul P512 sum_x ann;
  do t1 <- pmul P512 d_prod 2;
  do t2 <- padd P512 t1 leverage;
  do num <- pmul P512 d_init t2;
  do am1 <- osub ann 1;
  do t3 <- pmul P512 d_init am1;
  do t4 <- pmul P512 d_prod 3;
  do den <- padd P512 t3 t4;
  pdiv num den.

Definition d2_step (amp a2 b2 sum d : Z) : outcome Z :=
  do p <- pmul P512 d d; do p <- pdiv p a2;
  do p <- pmul P512 p d; do p <- pdiv p b2;
  unwrap (next_d2 amp d p sum).

Fixpoint d2_loop (fuel : nat) (amp a2 b2 sum d : Z) : outcome Z :=
  match fuel with
  | O => Ok d
  | S f => do d' <- d2_step amp a2 b2 sum d;
           if within d' d 1 then Ok d' else d2_loop f amp a2 b2 sum d'
  end.

Definition compute_d2_fuel (fuel : nat) (amp a b : Z) : outcome Z :=
  do sum <- padd P128 a b;
  if sum =? 0 then Ok 0 else
  do a2 <- pmul P128 a 2;
  do b2 <- pmul P128 b 2;
  d2_loop fuel amp a2 b2 sum sum.
Definition compute_d2 := compute_d2_fuel D2_FUEL.

Definition compute_mint2 (amp da db sa sb supply : Z) : outcome Z :=
  do d0 <- compute_d2 amp sa sb;
  do na <- padd P128 sa da;
  do nb <- padd P128 sb db;
  do d1 <- compute_d2 amp na nb;
  if d1 <=? d0 then none else
  do diff <- psub d1 d0;
  do m <- pmul P512 supply diff;
  do q <- pdiv m d0;
  if fits128 q then Ok q else Panic.
