(* Prim.v — integer widths, the outcome monad and cosmwasm-std 1.5.4 Decimal primitives.
   MODELLED, NOT VERIFIED: cosmwasm-std lives outside /repo; these definitions are validated
   by the primitive-level correspondence stream (harness `prim`). *)
From Coq Require Export ZArith List Bool Lia.
Export ListNotations.
Open Scope Z_scope.

(* ---- outcomes ---------------------------------------------------------- *)
(* error classes shared with the harness (harness/src/common.rs) *)
Definition E_UNAUTH   : Z := 1.   (* Unauthorized *)
Definition E_DISABLED : Z := 2.   (* OperationDisabled / *disabled feature flags *)
Definition E_SLIPPAGE : Z := 3.   (* MaxSpread / MaxSlippage / MinimumReceive assertion *)
Definition E_OTHER    : Z := 5.   (* every other Err(..) *)
(* Panic = Rust panic (unchecked overflow, unwrap on None, division by zero): on chain an abort *)

Inductive outcome (A : Type) : Type :=
| Ok (a : A)
| Err (c : Z)
| Panic.
Arguments Ok {A} a.
Arguments Err {A} c.
Arguments Panic {A}.

Definition bind {A B} (m : outcome A) (f : A -> outcome B) : outcome B :=
  match m with Ok a => f a | Err c => Err c | Panic => Panic end.
Notation "'do' x <- m ; k" := (bind m (fun x => k))
  (at level 200, x pattern, m at level 100, k at level 200, right associativity).
Definition ret {A} (a : A) : outcome A := Ok a.

Definition is_ok {A} (m : outcome A) : bool := match m with Ok _ => true | _ => false end.
Definition failed {A} (m : outcome A) : Prop := match m with Ok _ => False | _ => True end.

(* guard: Err c unless b *)
Definition ensure (b : bool) (c : Z) : outcome unit := if b then Ok tt else Err c.
(* must: Panic unless b (unchecked arithmetic / unwrap / expect) *)
Definition must (b : bool) : outcome unit := if b then Ok tt else Panic.

(* ---- widths ------------------------------------------------------------ *)
Definition P64  : Z := 2^64.
Definition P128 : Z := 2^128.
Definition P256 : Z := 2^256.
Definition P512 : Z := 2^512.
Definition fits (w z : Z) : bool := (0 <=? z) && (z <? w).
Definition fits128 := fits P128.
Definition fits256 := fits P256.
Definition fits512 := fits P512.

(* checked ops returning Err E_OTHER (StdError::Overflow / DivideByZero propagated with `?`) *)
Definition cadd (w a b : Z) : outcome Z := if fits w (a+b) then Ok (a+b) else Err E_OTHER.
Definition csub (a b : Z) : outcome Z := if b <=? a then Ok (a-b) else Err E_OTHER.
Definition cmul (w a b : Z) : outcome Z := if fits w (a*b) then Ok (a*b) else Err E_OTHER.
Definition cdiv (a b : Z) : outcome Z := if b =? 0 then Err E_OTHER else Ok (a/b).
(* unchecked operator forms: panic *)
Definition padd (w a b : Z) : outcome Z := if fits w (a+b) then Ok (a+b) else Panic.
Definition psub (a b : Z) : outcome Z := if b <=? a then Ok (a-b) else Panic.
Definition pmul (w a b : Z) : outcome Z := if fits w (a*b) then Ok (a*b) else Panic.
Definition pdiv (a b : Z) : outcome Z := if b =? 0 then Panic else Ok (a/b).
Definition ssub (a b : Z) : Z := Z.max 0 (a - b).          (* saturating_sub *)

(* ---- Decimal / Decimal256: atomics at scale 10^18 ----------------------- *)
Definition DEC : Z := 1000000000000000000.   (* 10^18 *)

(* Decimal{,256}::from_ratio(n,d): panics on d = 0 and on overflow of n*10^18/d beyond width w *)
Definition dec_from_ratio (w n d : Z) : outcome Z :=
  if d =? 0 then Panic else
  let r := n * DEC / d in if r <? w then Ok r else Panic.
(* Uint * Decimal (operator): floor(u * d / 10^18), panics if the result exceeds width w *)
Definition mul_dec (w u d : Z) : outcome Z :=
  let r := u * d / DEC in if r <? w then Ok r else Panic.
(* pure floor forms used where overflow is impossible (proved where used) *)
Definition mulfl (u d : Z) : Z := u * d / DEC.
(* Decimal * Decimal (operator) : floor(a*b/10^18), panics on overflow *)
Definition dec_mul (w a b : Z) : outcome Z :=
  let r := a * b / DEC in if r <? w then Ok r else Panic.
(* Decimal / Decimal via checked_from_ratio(a.atomics, b.atomics) *)
Definition dec_div (w a b : Z) : outcome Z := dec_from_ratio w a b.
(* Decimal::one() / d — `inv`-like use through Div *)

(* integer square root (Uint256::isqrt / integer_sqrt): floor sqrt *)
Definition isqrt (z : Z) : Z := Z.sqrt z.

(* ---- list helpers ------------------------------------------------------ *)
Fixpoint sumZ (l : list Z) : Z := match l with [] => 0 | x :: r => x + sumZ r end.

Definition obs_of {A} (f : A -> list Z) (m : outcome A) : list Z :=
  match m with Ok a => 0 :: f a | Err c => [1; c] | Panic => [2] end.
(* coarse observation: only success / failure *)
Definition obs_coarse {A} (f : A -> list Z) (m : outcome A) : list Z :=
  match m with Ok a => 0 :: f a | _ => [1] end.
