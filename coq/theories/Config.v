(* Config.v — C18: every write path of every bounded configuration parameter of the liquidity hub,
   as operations on one global configuration state.

   Transcribed from (default build, cw20 LP tokens):
     packages/white-whale-std/src/fee.rs                      Fee::is_valid, VaultFee::is_valid
     packages/white-whale-std/src/pool_network/{pair,trio}.rs PoolFee::is_valid  (= CPSwap.poolfee_valid)
     pool-network/terraswap_pair/src/{contract.rs::instantiate, commands.rs::update_config}
     pool-network/stableswap_3pool/src/{contract.rs::instantiate, commands.rs::update_config,
                                        stableswap_math/curve.rs::compute_amp_factor}
     pool-network/terraswap_factory/src/commands.rs           create_pair / create_trio / update_pair_config / update_trio_config
     vault-network/vault/src/{contract.rs::instantiate, execute/update_config.rs}
     vault-network/vault_factory/src/{contract.rs::execute, execute/create_vault.rs, execute/update_vault_config.rs}
     fee_distributor/src/{helpers.rs, contract.rs::instantiate, commands.rs::update_config}
     whale_lair/src/{helpers.rs, contract.rs::instantiate, commands.rs::update_config}
     fee_collector/src/{contract.rs::instantiate, commands.rs::update_config}

   Authorisation is part of the model only as far as it decides whether a write happens (C16 is the
   property about authorisation): a caller `who` and the owner kind of each child contract.
   Not modelled: migrations; the osmosis / injective / token-factory feature code. *)
From WW Require Import Prim CPSwap Params.

(* ---- constants of the code the model depends on (generated in Params.v) ---------------------- *)
Record bounds := mkBounds {
  b_min_amp : Z; b_max_amp : Z; b_max_change : Z; b_min_ramp : Z;
  b_max_grace : Z; b_day : Z; b_limit : Z }.

Definition code_bounds : bounds := {|
  b_min_amp := Params.TRIO_MIN_AMP; b_max_amp := Params.TRIO_MAX_AMP;
  b_max_change := Params.TRIO_MAX_AMP_CHANGE; b_min_ramp := Params.TRIO_MIN_RAMP_BLOCKS;
  b_max_grace := Params.MAX_GRACE_PERIOD; b_day := Params.DAY_IN_NANOSECONDS;
  b_limit := Params.BONDING_ASSETS_LIMIT |}.

(* ---- callers and owners ---------------------------------------------------------------------- *)
(* who: 0 = the admin calling the contract directly, 1 = the admin through the factory
        (UpdatePairConfig / UpdateTrioConfig / UpdateVaultConfig / CreatePair..), 2 = a stranger directly,
        3 = a stranger through the factory.   owner kind of a child: 0 = admin, 1 = its factory *)
Definition W_ADMIN : Z := 0.
Definition W_ADMIN_F : Z := 1.
Definition authorized (who owner : Z) : bool :=
  ((who =? 0) && (owner =? 0)) || ((who =? 1) && (owner =? 1)).

(* VaultFee::is_valid: same shape as PoolFee::is_valid over (protocol, flash_loan, burn) *)
Definition vaultfee_valid (f : fees) : bool := poolfee_valid f.

(* ---- state ----------------------------------------------------------------------------------- *)
Record pair_cfg := mkPair { p_owner : Z; p_fees : fees }.
Record trio_cfg := mkTrio { t_owner : Z; t_fees : fees; t_ia : Z; t_fa : Z; t_ib : Z; t_fb : Z }.
(* v_fees = (protocol, flash_loan, burn); v_factory_asset: asset_info is a token-factory denom *)
Record vault_cfg := mkVault { v_owner : Z; v_fees : fees; v_factory_asset : bool }.

Record state := mkState {
  height : Z;
  pairs : list pair_cfg;  pair_keys : list (Z * Z);          (* asset sets registered in the pool factory, canonical order *)
  trios : list trio_cfg;  trio_keys : list (Z * Z * Z);
  vaults : list vault_cfg; vault_keys : list Z;
  dists : list (Z * Z);                              (* (grace_period, epoch duration) *)
  lairs : list (Z * list bool);                      (* (growth_rate, bonding asset kinds: true = cw20) *)
  colls : list Z }.                                  (* take_rate *)

Definition init_state (h : Z) : state := mkState h [] [] [] [] [] [] [] [] [].

(* update the i-th element (0-based); no such contract -> Err *)
Fixpoint upd_nth {A} (i : nat) (f : A -> outcome A) (l : list A) : outcome (list A) :=
  match l, i with
  | [], _ => Err E_OTHER
  | a :: r, O => do a' <- f a; Ok (a' :: r)
  | a :: r, S j => do r' <- upd_nth j f r; Ok (a :: r')
  end.
Definition idx (i : Z) : nat := Z.to_nat i.
Definition at_idx {A} (i : Z) (f : A -> outcome A) (l : list A) : outcome (list A) :=
  if i <? 0 then Err E_OTHER else upd_nth (idx i) f l.

Definition memZ (k : Z) (l : list Z) : bool := existsb (Z.eqb k) l.
(* canonical form of an unordered asset pair / triple (assets are small integers here; C19 models the byte keys) *)
Definition key2 (a b : Z) : Z * Z := (Z.min a b, Z.max a b).
Definition key3 (a b c : Z) : Z * Z * Z :=
  let lo := Z.min a (Z.min b c) in let hi := Z.max a (Z.max b c) in (lo, a + b + c - lo - hi, hi).
Definition eq2 (x y : Z * Z) : bool := (fst x =? fst y) && (snd x =? snd y).
Definition eq3 (x y : Z * Z * Z) : bool := eq2 (fst x) (fst y) && (snd x =? snd y).

(* ---- stableswap amplification ------------------------------------------------------------------ *)
(* StableSwap::compute_amp_factor (current_ts = block height); None -> the caller unwraps -> Panic *)
Definition compute_amp (ia fa cur ib fb : Z) : outcome Z :=
  if cur <? fb then
    do _ <- must (ib <=? fb);
    do _ <- must (ib <=? cur);
    let range := fb - ib in
    let delta := cur - ib in
    do _ <- must (negb (range =? 0));
    if fa >=? ia then
      let d := (fa - ia) * delta / range in
      do _ <- must (fits P64 d && fits P64 (ia + d)); Ok (ia + d)
    else
      let d := (ia - fa) * delta / range in
      do _ <- must (fits P64 d && (d <=? ia)); Ok (ia - d)
  else Ok fa.

(* the factor part of the ramp acceptance test (commands.rs, after the C04 fix ef19acd: a decrease is rejected when
   future_a * MAX_AMP_CHANGE < current). C18 only needs the range part; the factor part decides acceptance only. *)
Definition ramp_factor_reject (mc c a : Z) : bool :=
  ((a >? c) && (a >? c * mc)) || ((a <? c) && (a * mc <? c)).

Definition amp_in_range (B : bounds) (a : Z) : bool := (b_min_amp B <=? a) && (a <=? b_max_amp B).

Definition trio_ramp (B : bounds) (h : Z) (t : trio_cfg) (r : Z * Z) : outcome trio_cfg :=
  let '(a, fblk) := r in
  do c <- compute_amp (t_ia t) (t_fa t) h (t_ib t) (t_fb t);
  do _ <- ensure (b_min_amp B <=? a) E_OTHER;
  do _ <- ensure (a <=? b_max_amp B) E_OTHER;
  do _ <- ensure (negb (ramp_factor_reject (b_max_change B) c a)) E_OTHER;
  do lim <- padd P64 h (b_min_ramp B);
  do _ <- ensure (lim <=? fblk) E_OTHER;
  Ok (mkTrio (t_owner t) (t_fees t) c a h fblk).

(* ---- operations ------------------------------------------------------------------------------ *)
Inductive op :=
| Advance (dh : Z)
| PairInst (f : fees)                                     (* direct instantiate by the admin *)
| PairCreate (who a b : Z) (f : fees)                     (* factory CreatePair over assets a, b *)
| PairUpd (who i : Z) (f : option fees)                   (* UpdateConfig, directly or through the factory *)
| TrioInst (f : fees) (amp : Z)
| TrioCreate (who a b c : Z) (f : fees) (amp : Z)
| TrioUpd (who i : Z) (f : option fees) (ramp : option (Z * Z))
| VaultInst (f : fees) (fa tf : bool)                     (* fa: factory-token asset; tf: token_factory_lp *)
| VaultCreate (who key : Z) (f : fees) (fa tf : bool)     (* vault factory CreateVault *)
| VaultUpd (who i : Z) (f : option fees)
| DistInst (grace dur : Z)
| DistUpd (who i : Z) (grace dur : option Z)
| LairInst (growth : Z) (assets : list bool)
| LairUpd (who i : Z) (growth : option Z)
| CollInst
| CollUpd (who i : Z) (rate : option Z).

Definition opt_fees (valid : fees -> bool) (o : option fees) (old : fees) : outcome fees :=
  match o with None => Ok old | Some f => if valid f then Ok f else Err E_OTHER end.

(* pair instantiate: msg.pool_fees.is_valid()? *)
Definition pair_inst (owner : Z) (f : fees) : outcome pair_cfg :=
  do _ <- ensure (poolfee_valid f) E_OTHER; Ok (mkPair owner f).
Definition pair_upd (who : Z) (o : option fees) (p : pair_cfg) : outcome pair_cfg :=
  do _ <- ensure (authorized who (p_owner p)) E_UNAUTH;
  do f <- opt_fees poolfee_valid o (p_fees p); Ok (mkPair (p_owner p) f).

Definition trio_inst (B : bounds) (h owner : Z) (f : fees) (amp : Z) : outcome trio_cfg :=
  do _ <- ensure (poolfee_valid f) E_OTHER;
  do _ <- ensure (b_min_amp B <=? amp) E_OTHER;
  do _ <- ensure (amp <=? b_max_amp B) E_OTHER;
  Ok (mkTrio owner f amp amp h h).
Definition trio_upd (B : bounds) (h who : Z) (o : option fees) (r : option (Z * Z)) (t : trio_cfg) : outcome trio_cfg :=
  do _ <- ensure (authorized who (t_owner t)) E_UNAUTH;
  do f <- opt_fees poolfee_valid o (t_fees t);
  let t1 := mkTrio (t_owner t) f (t_ia t) (t_fa t) (t_ib t) (t_fb t) in
  match r with None => Ok t1 | Some r => trio_ramp B h t1 r end.

(* vault instantiate. A vault over a token-factory denom cannot be instantiated in the default build: with
   token_factory_lp the code ends in TokenFactoryNotEnabled, otherwise the derived cw20 LP symbol
   `uLP-factory/` is rejected by the cw20 contract (or the label computation fails). *)
Definition vault_inst (owner : Z) (f : fees) (fa tf : bool) : outcome vault_cfg :=
  do _ <- ensure (negb (fa && (f_burn f >? 0))) E_OTHER;          (* TokenFactoryAssetBurnDisabled *)
  do _ <- ensure (vaultfee_valid f) E_OTHER;
  do _ <- ensure (negb tf) E_OTHER;                                (* TokenFactoryNotEnabled *)
  do _ <- ensure (negb fa) E_OTHER;                                (* LP token instantiation fails *)
  Ok (mkVault owner f fa).
(* update_config tests has_factory_token(lp_asset); the LP asset is always a cw20 token here, so the test is false *)
Definition vault_upd (who : Z) (o : option fees) (v : vault_cfg) : outcome vault_cfg :=
  do _ <- ensure (authorized who (v_owner v)) E_UNAUTH;
  do f <- opt_fees vaultfee_valid o (v_fees v); Ok (mkVault (v_owner v) f (v_factory_asset v)).

Definition grace_valid (B : bounds) (g : Z) : bool := (1 <=? g) && (g <=? b_max_grace B).
Definition dist_inst (B : bounds) (g d : Z) : outcome (Z * Z) :=
  do _ <- ensure (grace_valid B g) E_OTHER;
  do _ <- ensure (b_day B <=? d) E_OTHER; Ok (g, d).
Definition dist_upd (B : bounds) (who : Z) (g d : option Z) (c : Z * Z) : outcome (Z * Z) :=
  do _ <- ensure (who =? W_ADMIN) E_UNAUTH;
  do d' <- match d with None => Ok (snd c) | Some d => do _ <- ensure (b_day B <=? d) E_OTHER; Ok d end;
  do g' <- match g with None => Ok (fst c) | Some g =>
             do _ <- ensure (grace_valid B g) E_OTHER;
             do _ <- ensure (fst c <=? g) E_OTHER; Ok g end;     (* GracePeriodDecrease *)
  Ok (g', d').

Definition lair_inst (B : bounds) (growth : Z) (assets : list bool) : outcome (Z * list bool) :=
  do _ <- ensure (Z.of_nat (length assets) <=? b_limit B) E_OTHER;
  do _ <- ensure (growth <=? DEC) E_OTHER;
  do _ <- ensure (forallb negb assets) E_OTHER;                    (* InvalidBondingAsset for a cw20 *)
  (* platform (wasmd / cw-multi-test): the response attribute `bonding_assets` would be the empty string,
     and an empty attribute value fails the whole instantiation *)
  do _ <- ensure (negb (Nat.eqb (length assets) 0)) E_OTHER;
  Ok (growth, assets).
Definition lair_upd (who : Z) (growth : option Z) (c : Z * list bool) : outcome (Z * list bool) :=
  do _ <- ensure (who =? W_ADMIN) E_UNAUTH;
  match growth with None => Ok c | Some g => do _ <- ensure (g <=? DEC) E_OTHER; Ok (g, snd c) end.

Definition coll_upd (who : Z) (rate : option Z) (c : Z) : outcome Z :=
  do _ <- ensure (who =? W_ADMIN) E_UNAUTH;
  match rate with None => Ok c | Some r => do _ <- ensure (r <? DEC) E_OTHER; Ok r end.

Definition set_pairs (s : state) l k := mkState (height s) l k (trios s) (trio_keys s) (vaults s) (vault_keys s) (dists s) (lairs s) (colls s).
Definition set_trios (s : state) l k := mkState (height s) (pairs s) (pair_keys s) l k (vaults s) (vault_keys s) (dists s) (lairs s) (colls s).
Definition set_vaults (s : state) l k := mkState (height s) (pairs s) (pair_keys s) (trios s) (trio_keys s) l k (dists s) (lairs s) (colls s).
Definition set_dists (s : state) l := mkState (height s) (pairs s) (pair_keys s) (trios s) (trio_keys s) (vaults s) (vault_keys s) l (lairs s) (colls s).
Definition set_lairs (s : state) l := mkState (height s) (pairs s) (pair_keys s) (trios s) (trio_keys s) (vaults s) (vault_keys s) (dists s) l (colls s).
Definition set_colls (s : state) l := mkState (height s) (pairs s) (pair_keys s) (trios s) (trio_keys s) (vaults s) (vault_keys s) (dists s) (lairs s) l.
Definition set_height (s : state) h := mkState h (pairs s) (pair_keys s) (trios s) (trio_keys s) (vaults s) (vault_keys s) (dists s) (lairs s) (colls s).

Definition step (B : bounds) (s : state) (o : op) : outcome state :=
  match o with
  | Advance dh => if dh <? 0 then Err E_OTHER else Ok (set_height s (height s + dh))
  | PairInst f => do p <- pair_inst 0 f; Ok (set_pairs s (pairs s ++ [p]) (pair_keys s))
  | PairCreate who a b f =>
      do _ <- ensure (who =? W_ADMIN_F) E_UNAUTH;                 (* factory: only its owner *)
      do _ <- ensure (negb (a =? b)) E_OTHER;                      (* SameAsset *)
      do _ <- ensure (negb (existsb (eq2 (key2 a b)) (pair_keys s))) E_OTHER;      (* ExistingPair *)
      do p <- pair_inst 1 f; Ok (set_pairs s (pairs s ++ [p]) (key2 a b :: pair_keys s))
  | PairUpd who i f =>
      do _ <- ensure (negb (who =? 3)) E_UNAUTH;                  (* factory rejects a stranger *)
      do l <- at_idx i (pair_upd who f) (pairs s); Ok (set_pairs s l (pair_keys s))
  | TrioInst f amp => do t <- trio_inst B (height s) 0 f amp; Ok (set_trios s (trios s ++ [t]) (trio_keys s))
  | TrioCreate who a b c f amp =>
      do _ <- ensure (who =? W_ADMIN_F) E_UNAUTH;
      do _ <- ensure (negb ((a =? b) || (a =? c) || (b =? c))) E_OTHER;
      do _ <- ensure (negb (existsb (eq3 (key3 a b c)) (trio_keys s))) E_OTHER;
      do t <- trio_inst B (height s) 1 f amp; Ok (set_trios s (trios s ++ [t]) (key3 a b c :: trio_keys s))
  | TrioUpd who i f r =>
      do _ <- ensure (negb (who =? 3)) E_UNAUTH;
      do l <- at_idx i (trio_upd B (height s) who f r) (trios s); Ok (set_trios s l (trio_keys s))
  | VaultInst f fa tf => do v <- vault_inst 0 f fa tf; Ok (set_vaults s (vaults s ++ [v]) (vault_keys s))
  | VaultCreate who key f fa tf =>
      do _ <- ensure (who =? W_ADMIN_F) E_UNAUTH;
      do _ <- ensure (negb (memZ key (vault_keys s))) E_OTHER;     (* ExistingVault *)
      do _ <- ensure (fee_valid (f_swap f) && fee_valid (f_protocol f)) E_OTHER;
      do v <- vault_inst 1 f fa tf; Ok (set_vaults s (vaults s ++ [v]) (key :: vault_keys s))
  | VaultUpd who i f =>
      do _ <- ensure (negb (who =? 3)) E_UNAUTH;
      do l <- at_idx i (vault_upd who f) (vaults s); Ok (set_vaults s l (vault_keys s))
  | DistInst g d => do c <- dist_inst B g d; Ok (set_dists s (dists s ++ [c]))
  | DistUpd who i g d => do l <- at_idx i (dist_upd B who g d) (dists s); Ok (set_dists s l)
  | LairInst g a => do c <- lair_inst B g a; Ok (set_lairs s (lairs s ++ [c]))
  | LairUpd who i g => do l <- at_idx i (lair_upd who g) (lairs s); Ok (set_lairs s l)
  | CollInst => Ok (set_colls s (colls s ++ [0]))
  | CollUpd who i r => do l <- at_idx i (coll_upd who r) (colls s); Ok (set_colls s l)
  end.

(* a failed (rejected or aborted) operation leaves everything as it was: transaction semantics *)
Definition next (B : bounds) (s : state) (o : op) : state :=
  match step B s o with Ok s' => s' | _ => s end.
Definition run (B : bounds) (s : state) (ops : list op) : state := fold_left (next B) ops s.

(* ---- observation (what the harness reads back through the Config queries) ------------------------- *)
Definition fees_obs (f : fees) : list Z := [f_protocol f; f_swap f; f_burn f].
Definition dump (s : state) : list Z :=
  [height s]
  ++ flat_map (fun p => fees_obs (p_fees p)) (pairs s) ++ [-1]
  ++ flat_map (fun t => fees_obs (t_fees t) ++ [t_ia t; t_fa t; t_ib t; t_fb t]) (trios s) ++ [-1]
  ++ flat_map (fun v => fees_obs (v_fees v)) (vaults s) ++ [-1]
  ++ flat_map (fun d => [fst d; snd d]) (dists s) ++ [-1]
  ++ flat_map (fun l => [fst l; Z.of_nat (length (snd l))]) (lairs s) ++ [-1]
  ++ colls s.

Fixpoint run_obs (B : bounds) (s : state) (ops : list op) : list Z :=
  match ops with
  | [] => []
  | o :: r =>
      let m := step B s o in
      let s' := next B s o in
      (if is_ok m then 0 else 1) :: dump s' ++ run_obs B s' r
  end.
