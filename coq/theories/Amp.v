(* Amp.v — stableswap_3pool: StableSwap::compute_amp_factor (curve.rs) and the ramp branch of
   commands::update_config, operation by operation on u64 (checked_* -> None, plain operators -> panic
   because the workspace builds with overflow-checks = true).
   Option<T> results are outcomes: None = Err E_NONE; `.unwrap()` turns it into Panic. *)
From WW Require Import Prim Params.

Definition E_NONE : Z := 9.           (* Option::None of the curve functions (never reaches the harness as an Err class) *)
Definition none {A} : outcome A := Err E_NONE.
(* Option::unwrap / Result::unwrap : any failure becomes a panic *)
Definition unwrap {A} (m : outcome A) : outcome A := match m with Ok a => Ok a | _ => Panic end.

Definition fits64 := fits P64.
(* u64 checked ops -> None *)
Definition oadd64 (a b : Z) : outcome Z := if fits64 (a + b) then Ok (a + b) else none.
Definition osub (a b : Z) : outcome Z := if b <=? a then Ok (a - b) else none.
Definition omul64 (a b : Z) : outcome Z := if fits64 (a * b) then Ok (a * b) else none.

(* the five fields of StableSwap *)
Record ramp := mkRamp { r_a0 : Z;   (* initial_amp_factor *)
                        r_a1 : Z;   (* target_amp_factor *)
                        r_now : Z;  (* current_ts  (block height) *)
                        r_h0 : Z;   (* start_ramp_ts *)
                        r_h1 : Z }. (* stop_ramp_ts *)

Definition compute_amp_factor (r : ramp) : outcome Z :=
  if r_now r <? r_h1 r then
    do time_range <- osub (r_h1 r) (r_h0 r);
    do time_delta <- osub (r_now r) (r_h0 r);
    if r_a0 r <=? r_a1 r then
      do amp_range <- osub (r_a1 r) (r_a0 r);
      (* (amp_range as u128).checked_mul(time_delta)?.checked_div(time_range)?.to_u64()? *)
      do prod <- (if fits128 (amp_range * time_delta) then Ok (amp_range * time_delta) else none);
      do q <- (if time_range =? 0 then none else Ok (prod / time_range));
      do amp_delta <- (if fits64 q then Ok q else none);
      oadd64 (r_a0 r) amp_delta
    else
      do amp_range <- osub (r_a0 r) (r_a1 r);
      do prod <- (if fits128 (amp_range * time_delta) then Ok (amp_range * time_delta) else none);
      do q <- (if time_range =? 0 then none else Ok (prod / time_range));
      do amp_delta <- (if fits64 q then Ok q else none);
      osub (r_a0 r) amp_delta
  else Ok (r_a1 r).

(* ---- update_config, `if let Some(ramp) = ramp { .. }` --------------------------------------- *)
Section RampCheck.
  (* the four constants of contract.rs; instantiated at Params below *)
  Variables MINA MAXA CHG MINB : Z.

  (* amp part of trio::Config *)
  Record ampcfg := mkAmp { c_a0 : Z; c_a1 : Z; c_h0 : Z; c_h1 : Z }.
  Definition ramp_of (c : ampcfg) (now : Z) : ramp := mkRamp (c_a0 c) (c_a1 c) now (c_h0 c) (c_h1 c).

  (* u64 `*` and `+` operators: panic on overflow; `&&`/`||` short-circuit, so a product is only
     evaluated when its left conjunct holds *)
  Definition mul64 (a b : Z) : outcome Z := pmul P64 a b.

  (* `(fa > cur) && (fa > cur * CHG) || (fa < cur) && (fa * CHG > cur)` — the code as found *)
  Definition change_over_max_unfixed (fa cur : Z) : outcome bool :=
    do l <- (if cur <? fa then do p <- mul64 cur CHG; Ok (p <? fa) else Ok false);
    if l then Ok true else
    if fa <? cur then do p <- mul64 fa CHG; Ok (cur <? p) else Ok false.

  (* after the fix: `(fa < cur) && (fa * CHG < cur)` *)
  Definition change_over_max (fa cur : Z) : outcome bool :=
    do l <- (if cur <? fa then do p <- mul64 cur CHG; Ok (p <? fa) else Ok false);
    if l then Ok true else
    if fa <? cur then do p <- mul64 fa CHG; Ok (p <? cur) else Ok false.

  Definition ramp_step_with (over : Z -> Z -> outcome bool) (c : ampcfg) (now fa fb : Z) : outcome ampcfg :=
    do cur <- unwrap (compute_amp_factor (ramp_of c now));
    do _ <- ensure (negb (fa <? MINA)) E_OTHER;
    do _ <- ensure (negb (MAXA <? fa)) E_OTHER;
    do o <- over fa cur;
    do _ <- ensure (negb o) E_OTHER;
    do lim <- padd P64 now MINB;
    do _ <- ensure (negb (fb <? lim)) E_OTHER;
    Ok (mkAmp cur fa now fb).

  Definition ramp_step := ramp_step_with change_over_max.
  Definition ramp_step_unfixed := ramp_step_with change_over_max_unfixed.
End RampCheck.


Definition trio_ramp_step := ramp_step Params.MIN_AMP Params.MAX_AMP Params.MAX_AMP_CHANGE Params.MIN_RAMP_BLOCKS.
Definition trio_ramp_step_unfixed := ramp_step_unfixed Params.MIN_AMP Params.MAX_AMP Params.MAX_AMP_CHANGE Params.MIN_RAMP_BLOCKS.

(* instantiate: amp_factor must be within [MIN_AMP, MAX_AMP]; the config starts flat at the instantiation height *)
Definition trio_amp_init (amp h : Z) : outcome ampcfg :=
  do _ <- ensure (negb (amp <? Params.MIN_AMP)) E_OTHER;
  do _ <- ensure (negb (Params.MAX_AMP <? amp)) E_OTHER;
  Ok (mkAmp amp amp h h).

(* ---- config histories: heights only move forward -------------------------------------------- *)
(* one op = advance the chain by dh >= 0 blocks, then (owner? , ramp request) *)
Record rop := mkRop { o_dh : Z; o_owner : bool; o_fa : Z; o_fb : Z }.

(* state = (config, current height). A rejected or aborted call leaves the state untouched (transaction atomicity). *)
Definition ramp_apply (step : ampcfg -> Z -> Z -> Z -> outcome ampcfg) (st : ampcfg * Z) (o : rop) : (ampcfg * Z) * outcome ampcfg :=
  let '(c, h) := st in
  let h' := h + o_dh o in
  let r := if o_owner o then step c h' (o_fa o) (o_fb o) else Err E_UNAUTH in   (* generic_err("unauthorized"): the harness classifies by the word *)
  match r with Ok c' => ((c', h'), r) | _ => ((c, h'), r) end.

Fixpoint ramp_run (step : ampcfg -> Z -> Z -> Z -> outcome ampcfg) (st : ampcfg * Z) (l : list rop) : ampcfg * Z :=
  match l with [] => st | o :: l' => ramp_run step (fst (ramp_apply step st o)) l' end.
